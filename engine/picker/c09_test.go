//go:build verif

package picker

import (
	"fmt"
	"os"
	"runtime/debug"
	"runtime/pprof"
	"sort"
	"strconv"
	"strings"
	"sync"
	"sync/atomic"
	"testing"
	"time"
	"unsafe"

	"github.com/cenkalti/rain/v2/internal/logger"
	"github.com/cenkalti/rain/v2/internal/piecepicker"
	"github.com/cenkalti/rain/v2/zzverif/core"
)

type node struct {
	parent int32
	o      op
}

type fstate struct {
	w   World
	idx int32
}

type succ struct {
	key    [16]byte
	w      World
	parent int32
	o      op
}

type cand struct {
	w   World
	out int8
	v   []violation
}

type vrec struct {
	parent int32
	o      op
	v      []violation
}

type result struct {
	c           *config
	states      int64
	transitions int64
	depth       int
	capped      bool
	st          stats
	wall        time.Duration
	replays     int64
	replaySteps int64
	calib       int64
	ndShort     int64
	ndExtra     int64
	sample      string // a history that was re-executed through the exported API and matched
}

// The visited set, the node table (parent pointer + operation, for shortest-history reconstruction) and the
// frontier are split into nShards by the first key byte, so that both BFS phases run in parallel:
// phase 1 expands frontier chunks (the visited maps are read-only then), phase 2 lets every shard insert its own
// new states. Node id = shard<<shardShift | index within the shard. All orders are fixed => deterministic counts.
const (
	nShards    = 16
	shardShift = 27
	chunkSize  = 128
)

type shard struct {
	visited map[[16]byte]int32
	nodes   []node
	front   []fstate
	next    []fstate
}

type explorer struct {
	c      *config
	rep    *core.Report
	sh     [nShards]shard
	ctxs   []*ctx
	seen   map[string]bool // violation keys already described (shared across configs)
	seenMu *sync.Mutex
}

func (e *explorer) node(idx int32) node { return e.sh[idx>>shardShift].nodes[idx&(1<<shardShift-1)] }

func (e *explorer) has(key *[16]byte) bool {
	_, ok := e.sh[key[0]%nShards].visited[*key]
	return ok
}

// trace returns the operation history leading to node idx (root first).
func (e *explorer) trace(idx int32) []op {
	var rev []op
	for idx >= 0 {
		nd := e.node(idx)
		rev = append(rev, nd.o)
		idx = nd.parent
	}
	for i, j := 0, len(rev)-1; i < j; i, j = i+1, j-1 {
		rev[i], rev[j] = rev[j], rev[i]
	}
	return rev
}

func traceString(ops []op) string {
	var sb strings.Builder
	for i, o := range ops {
		if i > 0 {
			sb.WriteString("; ")
		}
		sb.WriteString(o.String())
	}
	return sb.String()
}

// replay re-executes a history on brand-new objects through the exported API only (no state reload).
// The randomised web-seed range choice is matched by restarting until the recorded outcome shows up.
// It returns the final world, the violations of the last operation, and whether the outcomes could be matched.
func replay(c *config, ops []op) (w World, last []violation, steps int64, ok bool) {
	x := newCtx(c)
	for attempt := 0; attempt < 20000; attempt++ {
		w = x.root(uint8(ops[0].A))
		matched := true
		for _, o := range ops[1:] {
			_, out, _ := x.apply(&w, o, true)
			steps++
			if out != o.Out {
				matched = false
				break
			}
			last = append(last[:0], x.viols...)
		}
		if matched {
			return w, last, steps, true
		}
	}
	return w, nil, steps, false
}

type chunkRef struct{ sh, lo, hi int }

// outRef locates the successors produced for one frontier chunk inside the producing worker's buffer.
type outRef struct{ wk, lo, hi int }

func (e *explorer) run(maxStates int64, par int) *result {
	t0 := time.Now()
	c := e.c
	res := &result{c: c}
	for i := range e.sh {
		e.sh[i] = shard{visited: map[[16]byte]int32{}}
	}
	for len(e.ctxs) < par {
		e.ctxs = append(e.ctxs, newCtx(c))
	}
	x0 := e.ctxs[0]
	insert := func(sh *shard, si int, s *succ) bool {
		if _, ok := sh.visited[s.key]; ok {
			return false
		}
		idx := int32(si)<<shardShift | int32(len(sh.nodes))
		sh.nodes = append(sh.nodes, node{s.parent, s.o})
		sh.visited[s.key] = idx
		sh.next = append(sh.next, fstate{s.w, idx})
		return true
	}
	for m := 0; m < int(x0.all); m++ { // every resume bitfield except "complete"
		w := x0.root(uint8(m))
		s := succ{key: x0.canon(&w), w: w, parent: -1, o: op{K: opInit, A: int8(m), Out: -1}}
		si := int(s.key[0] % nShards)
		insert(&e.sh[si], si, &s)
	}
	const sampleEvery = 20011
	wbuf := make([][]succ, par) // successor buffers, one per worker, recycled level after level
	var tPar, tMerge time.Duration
	var total int64
	for depth := 0; ; depth++ {
		var chunks []chunkRef
		for si := range e.sh {
			sh := &e.sh[si]
			sh.front, sh.next = sh.next, sh.front[:0]
			for lo := 0; lo < len(sh.front); lo += chunkSize {
				hi := lo + chunkSize
				if hi > len(sh.front) {
					hi = len(sh.front)
				}
				chunks = append(chunks, chunkRef{si, lo, hi})
			}
		}
		if len(chunks) == 0 {
			break
		}
		total = 0
		for si := range e.sh {
			total += int64(len(e.sh[si].nodes))
		}
		if total > maxStates {
			res.capped = true
			break
		}
		res.depth = depth
		tl := time.Now()
		nChunks := len(chunks)
		outs := make([]outRef, nChunks)
		vouts := make([][]vrec, nChunks)
		for wk := range wbuf {
			wbuf[wk] = wbuf[wk][:0]
		}
		trans := make([]int64, par)
		var next int64 = -1
		var wg sync.WaitGroup
		workers := par
		if nChunks < workers {
			workers = nChunks
		}
		for wk := 0; wk < workers; wk++ {
			wg.Add(1)
			go func(wk int) {
				defer wg.Done()
				x := e.ctxs[wk]
				var ops []op
				var seenBuf []cand
				var saved stats
				for {
					ci := int(atomic.AddInt64(&next, 1))
					if ci >= nChunks {
						return
					}
					cr := chunks[ci]
					front := e.sh[cr.sh].front[cr.lo:cr.hi]
					out := wbuf[wk]
					lo0 := len(out)
					var vout []vrec
					for fi := range front {
						fs := &front[fi]
						ops = x.enabled(&fs.w, ops)
						if len(ops) == 0 {
							x.st.terminal++
						}
						for _, o := range ops {
							seen := seenBuf[:0]
							want, minTrials := 1, 0
							for trial := 0; (trial < 64*want && len(seen) < want) || trial < minTrials; trial++ {
								// the candidate is built in place in the next slot of the (recycled) buffer
								if len(seen) < cap(seen) {
									seen = seen[:len(seen)+1]
								} else {
									seen = append(seen, cand{})
								}
								cd := &seen[len(seen)-1]
								cd.w = fs.w
								cd.v = nil
								randomised := o.K == opWsPick || o.K == opWriteOKEager
								if randomised {
									saved = x.st // repeated draws of the same outcome must not count twice
								}
								nd, outc, _ := x.apply(&cd.w, o, false)
								cd.out = outc
								if trial == 0 {
									want = nd
									if want > 1 || (o.K == opWsPick && !c.Seq) {
										// calibration of the enumeration aid (gap model): every 61st randomised choice is
										// repeated far beyond the expected number of outcomes; more outcomes than modelled
										// are explored all the same and make the run non-exhaustive.
										x.ndSeen++
										if x.ndSeen%61 == 0 {
											minTrials = 48*want + 48
										}
									}
								}
								dup := false
								for k := 0; k < len(seen)-1; k++ {
									if seen[k].out == outc && seen[k].w == cd.w {
										dup = true
										break
									}
								}
								if dup {
									seen = seen[:len(seen)-1]
									x.st = saved
									x.calib++
									continue
								}
								trans[wk]++ // transitions = distinct (state, operation, outcome) triples
								if len(x.viols) > 0 {
									cd.v = append([]violation{}, x.viols...)
								}
							}
							seenBuf = seen
							if len(seen) < want {
								x.ndShort++
							}
							if len(seen) > want {
								x.ndExtra++
							}
							// deterministic order of the randomised outcomes
							for a := 1; a < len(seen); a++ {
								for b := a; b > 0 && seen[b].out < seen[b-1].out; b-- {
									seen[b], seen[b-1] = seen[b-1], seen[b]
								}
							}
							for k := range seen {
								cd := &seen[k]
								o2 := o
								o2.Out = cd.out
								if len(cd.v) > 0 {
									vout = append(vout, vrec{fs.idx, o2, cd.v})
									continue // a violating transition is reported, its successor is not expanded
								}
								key := x.canon(&cd.w)
								if e.has(&key) { // read-only during this phase
									continue
								}
								out = append(out, succ{key, cd.w, fs.idx, o2})
							}
						}
					}
					wbuf[wk] = out
					outs[ci] = outRef{wk, lo0, len(out)}
					vouts[ci] = vout
				}
			}(wk)
		}
		wg.Wait()
		tPar += time.Since(tl)
		tl = time.Now()
		for _, t := range trans {
			res.transitions += t
		}
		// violations of this level, in frontier order
		for _, vl := range vouts {
			for _, vr := range vl {
				for _, v := range vr.v {
					e.report(v, vr.parent, vr.o, res)
				}
			}
		}
		// phase 2: every shard takes its own new states, in chunk order
		var wg2 sync.WaitGroup
		for si := range e.sh {
			wg2.Add(1)
			go func(si int) {
				defer wg2.Done()
				sh := &e.sh[si]
				for _, or := range outs {
					ol := wbuf[or.wk][or.lo:or.hi]
					for i := range ol {
						if int(ol[i].key[0]%nShards) == si {
							insert(sh, si, &ol[i])
						}
					}
				}
			}(si)
		}
		wg2.Wait()
		// self-check: the reload-based state must equal the state reached through the exported API alone
		for si := range e.sh {
			sh := &e.sh[si]
			for i := range sh.next {
				if (sh.next[i].idx&(1<<shardShift-1))%sampleEvery != 0 {
					continue
				}
				tr := e.trace(sh.next[i].idx)
				w, _, steps, ok := replay(c, tr)
				res.replaySteps += steps
				if ok {
					res.replays++
					if ts := traceString(tr); len(ts) > len(res.sample) {
						res.sample = ts
					}
					if w != sh.next[i].w {
						core.HarnessError("C09: state reached by reload-based search differs from pure API replay; config %s; history %s", c, traceString(tr))
					}
				}
			}
		}
		tMerge += time.Since(tl)
	}
	for si := range e.sh {
		res.states += int64(len(e.sh[si].nodes))
		e.sh[si] = shard{}
	}
	for _, x := range e.ctxs {
		res.st.add(&x.st)
		res.calib += x.calib
		res.ndShort += x.ndShort
		res.ndExtra += x.ndExtra
	}
	res.wall = time.Since(t0)
	if os.Getenv("VERIF_C09_VERBOSE") != "" {
		fmt.Printf("   sizeof(World)=%d expand=%.1fs merge=%.1fs\n", unsafe.Sizeof(World{}), tPar.Seconds(), tMerge.Seconds())
	}
	return res
}

func (e *explorer) report(v violation, parent int32, o op, res *result) {
	e.seenMu.Lock()
	first := !e.seen[v.key]
	e.seen[v.key] = true
	e.seenMu.Unlock()
	if !first {
		e.rep.Violate(v.key, "", nil)
		return
	}
	tr := append(e.trace(parent), o)
	// confirm on brand-new objects through the exported API only
	_, last, _, ok := replay(e.c, tr)
	confirmed := false
	for _, l := range last {
		if l.key == v.key {
			confirmed = true
		}
	}
	if ok && !confirmed {
		core.HarnessError("C09: violation %s seen by the reload-based search is not reproduced by a pure API replay; config %s; history %s", v.key, e.c, traceString(tr))
	}
	desc := fmt.Sprintf("config {%s}; history (%d ops): %s  ==>  %s", e.c, len(tr)-1, traceString(tr), v.desc)
	var hist []string
	for _, t := range tr {
		hist = append(hist, t.String())
	}
	e.rep.Violate(v.key, desc, map[string]any{"config": e.c.String(), "history": hist, "confirmed_by_pure_api_replay": ok && confirmed})
}

// ---- configurations

// buildConfigs lists the configurations of a tier with their state caps. A cap is a fixed number of states
// (never wall time), so the same tier always explores the same set. "fix" in the comments = the search is
// known to reach its fixpoint below the cap on the unchanged tree.
func buildConfigs(thorough bool) []*config {
	var cs []*config
	N, F := false, true
	type wsCombo struct{ ns, wsMax int }
	add := func(fast []bool, files [2]int64, w wsCombo, seq bool, md int, cap int64) {
		n := int((files[0] + files[1] + pieceLen - 1) / pieceLen)
		cs = append(cs, &config{Fast: fast, NPieces: n, Files: files, NSrc: w.ns, Seq: seq, MaxDup: md, WsMax: w.wsMax, Cap: cap})
	}
	l3a, l3b := [2]int64{40, 8}, [2]int64{24, 24} // [head|mid|tail+file b]  and  [head|tail+head|tail] (all edges)
	l4a, l4b := [2]int64{56, 8}, [2]int64{24, 40} // [head|mid|mid|tail+b]   and  [head|tail+head|mid|tail]
	modes := func(la, lb [2]int64, both bool) (out []struct {
		seq bool
		l   [2]int64
	}) {
		out = append(out, struct {
			seq bool
			l   [2]int64
		}{false, la}, struct {
			seq bool
			l   [2]int64
		}{true, la}) // the file layout is invisible to the rarest-first picker
		if both {
			out = append(out, struct {
				seq bool
				l   [2]int64
			}{true, lb})
		}
		return
	}
	if !thorough {
		ws3 := []wsCombo{{0, 0}, {1, 0}, {1, 3}, {2, 0}, {2, 3}}
		// one peer (the end-game limit is irrelevant): fix
		for _, cl := range [][]bool{{N}, {F}} {
			for _, w := range ws3 {
				for _, m := range modes(l3a, l3b, false) {
					add(cl, m.l, w, m.seq, 2, 1_500_000)
				}
			}
			// sequential order needs >= 2 interior pieces to be non-trivial: a 4-piece family
			for _, w := range []wsCombo{{0, 0}, {1, 2}} {
				add(cl, l4a, w, true, 2, 1_500_000)
			}
		}
		// two non-fast peers, no web seed: fix (1.6 M states each)
		for _, m := range modes(l3a, l3b, false) {
			for md := 1; md <= 2; md++ {
				add([]bool{N, N}, m.l, wsCombo{0, 0}, m.seq, md, 2_500_000)
			}
		}
		// two peers over four pieces, sequential: the smallest setting in which the end-game path can be entered
		// while two interior pieces are still missing
		add([]bool{N, N}, l4a, wsCombo{0, 0}, true, 2, 1_200_000)
		// every other two-peer configuration: breadth-first up to the cap
		for _, cl := range [][]bool{{N, N}, {F, N}, {F, F}} {
			for _, w := range ws3 {
				if !cl[0] && w.ns == 0 {
					continue
				}
				for _, m := range modes(l3a, l3b, false) {
					for md := 1; md <= 2; md++ {
						add(cl, m.l, w, m.seq, md, 120_000)
					}
				}
			}
		}
	} else {
		ws3 := []wsCombo{{0, 0}, {1, 0}, {1, 2}, {1, 3}, {2, 0}, {2, 2}, {2, 3}}
		ws4 := []wsCombo{{0, 0}, {1, 0}, {1, 2}, {1, 4}, {2, 4}}
		for _, cl := range [][]bool{{N}, {F}} {
			for _, w := range ws3 {
				for _, m := range modes(l3a, l3b, true) {
					add(cl, m.l, w, m.seq, 2, 4_000_000) // fix except fast peer x 2 sources x rarest (10.7 M states)
				}
			}
			for _, w := range ws4 {
				for _, m := range modes(l4a, l4b, true) {
					add(cl, m.l, w, m.seq, 2, 1_500_000)
				}
			}
		}
		for _, m := range modes(l3a, l3b, true) {
			for md := 1; md <= 2; md++ {
				add([]bool{N, N}, m.l, wsCombo{0, 0}, m.seq, md, 8_000_000) // fix
			}
		}
		for _, m := range modes(l3a, l3b, false) {
			add([]bool{N, N}, m.l, wsCombo{1, 0}, m.seq, 2, 14_000_000) // fix (11.4 M states in rarest mode)
			add([]bool{N, N}, m.l, wsCombo{1, 3}, m.seq, 2, 14_000_000)
			add([]bool{F, N}, m.l, wsCombo{0, 0}, m.seq, 2, 8_000_000)
		}
		for _, m := range modes(l4a, l4b, false) {
			add([]bool{N, N}, m.l, wsCombo{0, 0}, m.seq, 2, 8_000_000)
		}
		for _, cl := range [][]bool{{N, N}, {F, N}, {F, F}} {
			for _, w := range ws3 {
				for _, m := range modes(l3a, l3b, false) {
					for md := 1; md <= 2; md++ {
						dup := false
						for _, c := range cs {
							if len(c.Fast) == 2 && c.Fast[0] == cl[0] && c.Fast[1] == cl[1] && c.NPieces == 3 && c.Files == m.l && c.NSrc == w.ns && c.WsMax == w.wsMax && c.Seq == m.seq && c.MaxDup == md {
								dup = true
							}
						}
						if !dup {
							add(cl, m.l, w, m.seq, md, 400_000)
						}
					}
				}
			}
		}
		// three peers: end-game limit 2 can only be exceeded here
		for _, cl := range [][]bool{{N, N, N}, {F, N, N}} {
			for _, w := range []wsCombo{{0, 0}, {1, 3}} {
				for _, m := range modes(l3a, l3b, false) {
					for md := 1; md <= 2; md++ {
						add(cl, m.l, w, m.seq, md, 1_000_000)
					}
				}
			}
		}
	}
	// simplest first (the first violation per key should be the simplest case)
	sort.SliceStable(cs, func(a, b int) bool {
		wa := len(cs[a].Fast)*100 + cs[a].NPieces*10 + cs[a].NSrc
		wb := len(cs[b].Fast)*100 + cs[b].NPieces*10 + cs[b].NSrc
		return wa < wb
	})
	for i, c := range cs {
		c.ID = i
	}
	return cs
}

func TestC09(t *testing.T) {
	logger.Disable()
	rep := core.NewReport("C09", "picker", "model_checking")
	rep.Rule = "explicit-state BFS with de-duplication over the real piecepicker, one search per configuration (peer slots fast/non-fast x 3..4 pieces over a 2-file layout x 0..2 web-seed sources x per-request web-seed range 1 (real value) or scaled x rarest/sequential x end-game limit 1..2), " +
		"started from every resume bitfield, run until the frontier is empty or the configuration's fixed state cap; operations = the torrent's picker-touching handlers with the torrent's preconditions (connect, disconnect=closePeer, have, have-all/bitfield, allowed-fast, choke, unchoke, snub, PickFor/startSinglePieceDownloader, last block received, write ok with deferred or in-place follow-up picks (handlePieceWriteDone incl. WebseedStopAt and the RequestedPeers loop), hash failure, PickWebseed/startWebseedDownloader, web-seed piece complete / result delivered / current++ / error). " +
		"State = shadow swarm model + full private dump of the picker; distinct = canonical key modulo renaming of same-class peers; transitions = distinct (state, operation, outcome) triples, every outcome of the randomised web-seed range choice included; oracles run after every transition."
	rep.Assumptions = []string{
		"the web-seed downloader goroutine is modelled (current index, unbuffered result hand-over, End re-read at piece completion, overshoot by one piece after a late truncation) from urldownloader.Run; the real HTTP loop is not executed",
		"the resource manager may delay a granted PickFor arbitrarily (session.ram is always set), so PickFor may happen at any time for any connected peer; the last block of a piece may arrive while the peer chokes (blocks in flight)",
		"web-seed ranges longer than one piece need >= 40 pieces in the real picker (len/20); they are reproduced on 3..4 pieces by the in-package hook VerifSetMaxWebseedPieces (configurations marked range<=k)",
		"state de-duplication uses the MD5 of the canonical serialisation (collision probability negligible); Having/Snubbed/Choked (and the allowed-fast list in sequential mode) are keyed as sets because the picker only tests membership/size of them; all other orders (Requested, the two sort arrays, rarest-mode allowed-fast list) are part of the key",
		"the randomised PickWebseed choice is enumerated by repetition until as many distinct outcomes were seen as an independent BEP 19 gap model predicts (<= 64 tries per expected outcome); every 61st choice is over-sampled to calibrate that model",
		"bounds: <= 3 peer slots (a slot can be re-used by a new peer after a disconnect), <= 4 pieces, <= 2 sources, allowed-fast sets of <= 2 pieces; configurations above their state cap are explored breadth-first up to the cap only (listed in caps_hit)",
		"reload-based successor computation is cross-checked: every 20011th new state and the first violation of every key are re-executed from a fresh picker through the exported API only and must give the identical state / the same violation",
	}
	if n := piecepicker.VerifUncopyableFields(); n > 0 {
		core.HarnessError("C09: the picker has %d mutable field(s) of a kind the state dump cannot copy; extend hooks/internal/piecepicker", n)
	}
	if pf := os.Getenv("VERIF_C09_PROF"); pf != "" {
		f, _ := os.Create(pf)
		pprof.StartCPUProfile(f)
		defer pprof.StopCPUProfile()
	}
	debug.SetGCPercent(200)
	thorough := core.Thorough()
	cfgs := buildConfigs(thorough)
	if f := os.Getenv("VERIF_C09_ONLY"); f != "" {
		var sel []*config
		for _, c := range cfgs {
			if strings.Contains(c.String(), f) {
				sel = append(sel, c)
			}
		}
		cfgs = sel
	}
	var capOverride int64
	if v, err := strconv.ParseInt(os.Getenv("VERIF_C09_MAXSTATES"), 10, 64); err == nil && v > 0 {
		capOverride = v
	}
	par := core.Parallelism()
	seen := map[string]bool{}
	var mu sync.Mutex
	var total stats
	var fix, capped int64
	type row struct {
		Config      string  `json:"config"`
		States      int64   `json:"states"`
		Transitions int64   `json:"transitions"`
		Depth       int     `json:"depth"`
		Fixpoint    bool    `json:"fixpoint"`
		WallS       float64 `json:"wall_s"`
	}
	var rows []row
	var histories []map[string]string
	verbose := os.Getenv("VERIF_C09_VERBOSE") != ""
	for _, c := range cfgs {
		e := &explorer{c: c, rep: rep, seen: seen, seenMu: &mu}
		maxStates := c.Cap
		if capOverride > 0 {
			maxStates = capOverride
		}
		r := e.run(maxStates, par)
		rep.States += r.states
		rep.Transitions += r.transitions
		rep.TracesImpl += r.replays
		total.add(&r.st)
		rep.Add("replay_steps_pure_api_count_varies_between_runs", r.replaySteps)
		rep.Add("randomised_choice_repeated_draws_count_varies_between_runs", r.calib)
		rep.Add("randomised_choice_outcomes_not_all_seen", r.ndShort)
		if r.ndExtra > 0 {
			rep.Add("randomised_choice_more_outcomes_than_modelled", r.ndExtra)
			rep.Cap(fmt.Sprintf("a randomised web-seed range choice had more outcomes than the gap model predicts (%d times): %s", r.ndExtra, c))
		}
		if r.capped {
			capped++
			rep.Cap(fmt.Sprintf("state cap %d reached at depth %d: %s", maxStates, r.depth, c))
		} else {
			fix++
		}
		rows = append(rows, row{c.String(), r.states, r.transitions, r.depth, !r.capped, r.wall.Seconds()})
		if r.sample != "" {
			histories = append(histories, map[string]string{"config": c.String(), "history_cross_checked_by_pure_api_replay": r.sample})
		}
		if verbose {
			fmt.Printf("cfg %3d %-90s states=%9d trans=%11d depth=%3d fix=%v %.1fs\n", c.ID, c.String(), r.states, r.transitions, r.depth, !r.capped, r.wall.Seconds())
		}
	}
	rep.Evaluations = rep.Transitions
	rep.Distinct = rep.States
	rep.Extra["configurations"] = int64(len(cfgs))
	rep.Extra["configurations_fixpoint"] = fix
	rep.Extra["configurations_capped"] = capped
	rep.Extra["per_configuration"] = rows
	opc := map[string]int64{}
	for k := opKind(1); k < numOps; k++ {
		opc[opNames[k]] = total.ops[k]
	}
	rep.Extra["op_counts"] = opc
	rep.Extra["picks"] = map[string]int64{
		"nil_idle_peer": total.pickNil, "nil_busy_peer": total.pickBusyNil, "fresh_piece": total.pickFresh,
		"endgame_duplicate": total.pickEndgameDup, "stalled_rerequest": total.pickStalledDup,
		"allowed_fast_while_choked": total.pickAFChoked, "allowed_fast_while_unchoked": total.pickAFUnchoked,
		"while_webseed_active": total.pickWhileWs, "steal_from_webseed_range": total.pickStealFromWs,
		"max_simultaneous_downloads_of_a_piece": total.maxSimul,
		"sequential_order_law_checked":          total.seqChecked, "sequential_order_law_checked_with_choice": total.seqChecked2,
	}
	rep.Extra["webseed"] = map[string]int64{
		"ranges_assigned": total.wsAssign, "pickwebseed_nil": total.wsNil, "steal_from_other_webseed": total.wsStealFromWs,
		"stop_at_by_peer_completion": total.wsStopAtByPeer, "stop_at_closed_downloader": total.wsStopAtClosed,
		"results_beyond_truncated_end": total.wsOutOfRangeResult, "stale_results_discarded": total.wsDiscard,
	}
	rep.Extra["duplicate_have_calls"] = total.dupHave
	rep.Extra["available_checks_nonzero"] = total.availNonZeroChecks
	rep.Extra["cancel_by_write_done"] = total.cancelByWriteDone
	rep.Extra["terminal_states"] = total.terminal
	for i, r := range rows {
		if i%(len(rows)/6+1) == 0 {
			rep.Sample(12, r)
		}
	}
	for i, h := range histories {
		if i%(len(histories)/5+1) == 0 {
			rep.Sample(12, h)
		}
	}
	// non-vacuity
	if os.Getenv("VERIF_C09_ONLY") == "" {
		switch {
		case total.pickFresh == 0, total.pickEndgameDup == 0, total.pickStalledDup == 0, total.pickAFChoked == 0,
			total.pickStealFromWs == 0, total.wsStealFromWs == 0, total.wsAssign == 0, total.seqChecked2 == 0,
			total.wsStopAtByPeer == 0, total.availNonZeroChecks == 0, rep.TracesImpl == 0:
			rep.Vacuous("C09 vacuous: some scenario class never happened: %+v", total)
		}
	}
	pprof.StopCPUProfile()
	rep.Finish()
}

//go:build verif

// Package picker: C09 — piece selection safety invariants. An explicit-state breadth-first search over the
// REAL internal/piecepicker, driven through its exported API by a driver that performs exactly the call
// sequences the torrent event loop performs (every precondition cites its call site in /repo/torrent).
// A state is a value (World): the harness' own shadow model of the swarm plus a full dump of the picker's
// private state; the live picker is re-created from it before every transition (in-package hook
// zz_verif_C09_clone.go), successors are de-duplicated by a canonical key, and the search runs until the
// frontier is empty.
package picker

import (
	"bytes"
	"crypto/md5"
	"crypto/sha1"
	"fmt"
	"runtime"
	"sort"
	"strings"

	"github.com/cenkalti/rain/v2/internal/allocator"
	"github.com/cenkalti/rain/v2/internal/bitfield"
	"github.com/cenkalti/rain/v2/internal/metainfo"
	"github.com/cenkalti/rain/v2/internal/peer"
	"github.com/cenkalti/rain/v2/internal/piece"
	"github.com/cenkalti/rain/v2/internal/piecepicker"
	"github.com/cenkalti/rain/v2/internal/urldownloader"
	"github.com/cenkalti/rain/v2/internal/webseedsource"
	"github.com/cenkalti/rain/v2/zzverif/refcodec"
	"github.com/rcrowley/go-metrics"
)

const (
	maxPeers  = 3
	maxSrc    = 2
	maxPieces = 4
	pieceLen  = 16
	maxAF     = 2
)

// ---- configuration

type config struct {
	ID      int
	Fast    []bool   // one entry per peer slot: does the peer speak the fast extension (may send allowed-fast)
	NPieces int      // derived from Files
	Files   [2]int64 // byte lengths of the two files (piece length 16)
	NSrc    int
	Seq     bool
	MaxDup  int   // EndgameMaxDuplicateDownloads
	Cap     int64 // state cap of the search for this configuration
	WsMax   int   // 0: the picker's own maxWebseedPieces (=1 below 40 pieces); k>0: scaled to a 20*k-piece torrent (hook)
}

func (c *config) String() string {
	cl := ""
	for _, f := range c.Fast {
		if f {
			cl += "F"
		} else {
			cl += "N"
		}
	}
	mode := "rarest"
	if c.Seq {
		mode = "sequential"
	}
	ws := fmt.Sprintf("webseeds=%d", c.NSrc)
	if c.WsMax > 0 {
		ws += fmt.Sprintf("(range<=%d)", c.WsMax)
	}
	return fmt.Sprintf("peers=%s pieces=%d files=[%d,%d]/pl16 %s mode=%s endgame-limit=%d", cl, c.NPieces, c.Files[0], c.Files[1], ws, mode, c.MaxDup)
}

// ---- operations

type opKind int8

const (
	opInit opKind = iota // root: fresh picker, A = mask of pieces already Done (resume)
	opConnect
	opDisconnect
	opHave
	opHaveAll
	opAllowedFast
	opChoke
	opUnchoke
	opSnub
	opPick
	opComplete
	opWriteOK      // handlePieceWriteDone, follow-up picks deferred (resource manager grants later)
	opWriteOKEager // handlePieceWriteDone, follow-up picks performed in place as the torrent does when RAM is granted at once
	opWriteFail
	opWsPick
	opWsComplete
	opWsDeliver
	opWsAdvance
	opWsError
	numOps
)

var opNames = [...]string{"init", "connect", "disconnect", "have", "have-all", "allowed-fast", "choke", "unchoke", "snub",
	"pick", "piece-complete", "write-ok", "write-ok-eager", "hash-fail", "ws-pick", "ws-piece-complete", "ws-deliver", "ws-advance", "ws-error"}

type op struct {
	K   opKind
	A   int8 // peer slot / source index / done mask
	B   int8 // piece index
	Out int8 // observed outcome of the randomised PickWebseed inside this op (range begin, -1 = none); replay must match
}

func (o op) String() string {
	switch o.K {
	case opInit:
		return fmt.Sprintf("init(done-mask=%04b)", o.A)
	case opHave, opAllowedFast:
		return fmt.Sprintf("%s(peer%d,piece%d)", opNames[o.K], o.A, o.B)
	case opWriteOK, opWriteOKEager, opWriteFail:
		s := opNames[o.K]
		if o.Out >= 0 {
			s += fmt.Sprintf("[ws range begins %d]", o.Out)
		}
		return s
	case opWsPick:
		if o.Out >= 0 {
			return fmt.Sprintf("ws-pick(src%d)[range begins %d]", o.A, o.Out)
		}
		return fmt.Sprintf("ws-pick(src%d)", o.A)
	case opWsComplete, opWsDeliver, opWsAdvance, opWsError:
		return fmt.Sprintf("%s(src%d)", opNames[o.K], o.A)
	}
	return fmt.Sprintf("%s(peer%d)", opNames[o.K], o.A)
}

// ---- the state

// peerSt is the harness' shadow of one peer slot: what the swarm did, independent of the picker.
type peerSt struct {
	Conn     bool
	Choking  bool  // peer.PeerChoking
	Has      uint8 // pieces the peer announced
	NAF      int8
	AF       [maxPieces]int8 // allowed-fast pieces in arrival order (ReceivedAllowedFast.Items)
	Dl       int8            // piece being downloaded from this peer (t.pieceDownloaders[pe]), -1 none
	DlAF     bool            // pd.AllowedFast
	DlSnub   bool            // t.pieceDownloadersSnubbed[pe]
	DlChoked bool            // t.pieceDownloadersChoked[pe]
}

const (
	phDownloading = 0 // urldownloader.Run is fetching piece `current`
	phPending     = 1 // completePiece computed done=false, blocked in sendResult (unbuffered channel)
	phPendingDone = 2 // same with done=true
	phSent        = 3 // result handed to the torrent loop, incrCurrent() not executed yet
)

type srcSt struct {
	Active          bool
	Begin, End, Cur int8
	Phase           int8
}

const (
	writerNone = -1
	writerGone = 99 // the peer that delivered the piece has disconnected meanwhile
	writerSrc0 = 10
)

type World struct {
	Peers   [maxPeers]peerSt
	Done    uint8
	Writing int8 // piece with Writing==true, -1 none (the torrent writes one piece at a time)
	Writer  int8
	Src     [maxSrc]srcSt
	EgSeen  bool // shadow memory: at some PickFor call every missing piece was already requested from a peer
	P       piecepicker.VerifDump
}

// ---- per-worker live objects

type violation struct{ key, desc string }

type stats struct {
	ops                            [numOps]int64
	pickNil, pickBusyNil           int64
	pickFresh                      int64
	pickEndgameDup, pickStalledDup int64
	pickAFChoked, pickAFUnchoked   int64
	pickStealFromWs                int64
	pickWhileWs                    int64
	wsAssign, wsNil, wsStealFromWs int64
	wsStopAtByPeer, wsStopAtClosed int64
	wsOutOfRangeResult, wsDiscard  int64
	seqChecked, seqChecked2        int64
	availNonZeroChecks             int64
	dupHave                        int64
	cancelByWriteDone              int64
	maxSimul                       int64
	terminal                       int64
}

func (a *stats) add(b *stats) {
	for i := range a.ops {
		a.ops[i] += b.ops[i]
	}
	a.pickNil += b.pickNil
	a.pickBusyNil += b.pickBusyNil
	a.pickFresh += b.pickFresh
	a.pickEndgameDup += b.pickEndgameDup
	a.pickStalledDup += b.pickStalledDup
	a.pickAFChoked += b.pickAFChoked
	a.pickAFUnchoked += b.pickAFUnchoked
	a.pickStealFromWs += b.pickStealFromWs
	a.pickWhileWs += b.pickWhileWs
	a.wsAssign += b.wsAssign
	a.wsNil += b.wsNil
	a.wsStealFromWs += b.wsStealFromWs
	a.wsStopAtByPeer += b.wsStopAtByPeer
	a.wsStopAtClosed += b.wsStopAtClosed
	a.wsOutOfRangeResult += b.wsOutOfRangeResult
	a.wsDiscard += b.wsDiscard
	a.seqChecked += b.seqChecked
	a.seqChecked2 += b.seqChecked2
	a.availNonZeroChecks += b.availNonZeroChecks
	a.dupHave += b.dupHave
	a.cancelByWriteDone += b.cancelByWriteDone
	if b.maxSimul > a.maxSimul {
		a.maxSimul = b.maxSimul
	}
	a.terminal += b.terminal
}

type ctx struct {
	c                               *config
	pieces                          []piece.Piece
	peers                           []*peer.Peer
	srcs                            []*webseedsource.WebseedSource
	pp                              *piecepicker.PiecePicker
	edge                            []bool // model: piece holds the first or the last byte of a file
	all                             uint8
	st                              stats
	viols                           []violation
	perms                           [][]int8
	kb                              [2][]byte
	ndSeen, calib, ndShort, ndExtra int64
	dl                              [maxSrc]*urldownloader.URLDownloader // reusable idle downloader objects (reload mode only)
	live                            bool
}

// newDownloader is urldownloader.New as called by startWebseedDownloader (torrent_start.go:180); in reload
// mode an unclosed idle object is recycled.
func (x *ctx) newDownloader(s int, begin, end, cur uint32) *urldownloader.URLDownloader {
	if !x.live {
		if d := x.dl[s]; d != nil && !d.VerifClosed() {
			d.VerifReset(begin, end, cur)
			return d
		}
	}
	d := urldownloader.VerifNewIdle(x.srcs[s].URL, begin, end, cur)
	if !x.live {
		x.dl[s] = d
	}
	return d
}

func buildPieces(c *config) []piece.Piece {
	total := c.Files[0] + c.Files[1]
	n := int((total + pieceLen - 1) / pieceLen)
	var hashes []byte
	for i := 0; i < n; i++ {
		h := sha1.Sum([]byte{byte(i)})
		hashes = append(hashes, h[:]...)
	}
	files := []any{
		refcodec.D("length", c.Files[0], "path", []string{"a"}),
		refcodec.D("length", c.Files[1], "path", []string{"b"}),
	}
	b := refcodec.Benc(refcodec.D("name", "t", "piece length", int64(pieceLen), "pieces", hashes, "files", files))
	info, err := metainfo.NewInfo(b, true, true)
	if err != nil {
		panic("harness: metainfo.NewInfo: " + err.Error())
	}
	af := make([]allocator.File, len(info.Files))
	for i, f := range info.Files {
		af[i] = allocator.File{Name: f.Path}
	}
	return piece.NewPieces(info, af) // the torrent's own piece table (torrent_allocation.go)
}

func newCtx(c *config) *ctx {
	x := &ctx{c: c}
	x.pieces = buildPieces(c)
	if len(x.pieces) != c.NPieces || c.NPieces > maxPieces {
		panic(fmt.Sprintf("harness: layout gives %d pieces, config says %d", len(x.pieces), c.NPieces))
	}
	x.all = uint8(1<<c.NPieces - 1)
	// model of "piece at either end of a file": the piece that holds the first / the last byte of a file.
	// (Files are < 200 bytes, so the picker's 1%-of-file edge is one byte as well.)
	x.edge = make([]bool, c.NPieces)
	var off int64
	for _, l := range c.Files {
		if l > 0 {
			x.edge[off/pieceLen] = true
			x.edge[(off+l-1)/pieceLen] = true
		}
		off += l
	}
	x.srcs = webseedsource.NewList([]string{"http://ws0/", "http://ws1/"}[:c.NSrc])
	x.peers = make([]*peer.Peer, len(c.Fast))
	x.freshObjects()
	// peer permutations that preserve the class (fast / non-fast): symmetric slots
	var rec func(cur []int8, used uint8)
	n := len(c.Fast)
	rec = func(cur []int8, used uint8) {
		if len(cur) == n {
			x.perms = append(x.perms, append([]int8{}, cur...))
			return
		}
		for k := 0; k < n; k++ {
			if used>>k&1 == 0 && c.Fast[k] == c.Fast[len(cur)] {
				rec(append(cur, int8(k)), used|1<<k)
			}
		}
	}
	rec(nil, 0)
	return x
}

// freshObjects makes brand-new peers and a brand-new picker exactly as the torrent does
// (piecepicker.New: torrent_allocation.go:45).
func (x *ctx) freshObjects() {
	for p := range x.peers {
		x.peers[p] = &peer.Peer{Bitfield: bitfield.New(uint32(x.c.NPieces)), PeerChoking: true, ClientChoking: true, FastEnabled: x.c.Fast[p]}
	}
	for _, s := range x.srcs {
		s.Downloader = nil
		s.Disabled = false
		s.DownloadSpeed = metrics.NilMeter{}
	}
	x.pp = piecepicker.New(x.pieces, x.c.MaxDup, x.srcs, x.c.Seq)
	if x.c.WsMax > 0 {
		x.pp.VerifSetMaxWebseedPieces(x.c.WsMax)
	}
}

// root builds the initial world: fresh picker over pieces of which doneMask are already complete, no peers.
func (x *ctx) root(doneMask uint8) World {
	for i := range x.pieces {
		x.pieces[i].Done = doneMask>>i&1 == 1
		x.pieces[i].Writing = false
	}
	x.freshObjects()
	var w World
	w.Done = doneMask
	w.Writing = -1
	w.Writer = writerNone
	for p := range w.Peers {
		w.Peers[p].Dl = -1
	}
	x.capture(&w)
	return w
}

// restore re-creates the live objects from w.
func (x *ctx) restore(w *World) {
	for i := range x.pieces {
		x.pieces[i].Done = w.Done>>i&1 == 1
		x.pieces[i].Writing = int(w.Writing) == i
	}
	for p, pe := range x.peers {
		ps := &w.Peers[p]
		pe.PeerChoking = ps.Choking || !ps.Conn
		pe.Downloading = ps.Dl >= 0
		pe.Snubbed = false
		pe.Closed = false
		for i := 0; i < x.c.NPieces; i++ {
			if ps.Has>>i&1 == 1 {
				pe.Bitfield.Set(uint32(i))
			} else {
				pe.Bitfield.Clear(uint32(i))
			}
		}
		pe.ReceivedAllowedFast.Items = pe.ReceivedAllowedFast.Items[:0]
		for k := int8(0); k < ps.NAF; k++ {
			pe.ReceivedAllowedFast.Items = append(pe.ReceivedAllowedFast.Items, &x.pieces[ps.AF[k]])
		}
	}
	for s, src := range x.srcs {
		ss := &w.Src[s]
		if ss.Active {
			src.Downloader = x.newDownloader(s, uint32(ss.Begin), uint32(ss.End), uint32(ss.Cur))
		} else {
			src.Downloader = nil
		}
	}
	x.pp.VerifLoad(&w.P, x.peers)
}

// capture reads the live objects back into w (picker dump, downloader ranges).
func (x *ctx) capture(w *World) {
	for s, src := range x.srcs {
		if d := src.Downloader; d != nil {
			w.Src[s].Active = true
			w.Src[s].Begin, w.Src[s].End, w.Src[s].Cur = int8(d.Begin), int8(d.End), int8(d.ReadCurrent())
		} else {
			w.Src[s] = srcSt{}
		}
	}
	x.pp.VerifDump(x.peers, &w.P)
}

func (x *ctx) fail(key, format string, a ...any) {
	x.viols = append(x.viols, violation{"C09." + key, fmt.Sprintf(format, a...)})
}

// ---- the torrent's handlers, reduced to what touches the picker

func (w *World) downloaders(i int8) (n int, allStalled bool) {
	allStalled = true
	for p := range w.Peers {
		if w.Peers[p].Conn && w.Peers[p].Dl == i {
			n++
			if !w.Peers[p].DlSnub && !w.Peers[p].DlChoked {
				allStalled = false
			}
		}
	}
	return
}

func (w *World) active(i int) bool { return w.Done>>i&1 == 0 && int(w.Writing) != i }

func (ps *peerSt) hasAF(i int8) bool {
	for k := int8(0); k < ps.NAF; k++ {
		if ps.AF[k] == i {
			return true
		}
	}
	return false
}

// startSinglePieceDownloader: torrent_start.go:211-235. Reached through startPieceDownloaderFor(pe) after
// have/bitfield/have-all/unchoke (torrent_messagehandler.go:139,165,177,197), after a completed piece (:110),
// from startPieceDownloaders (torrent_start.go:155-159; after choke :225, snub torrent_peer.go:215, hash failure
// torrent_write.go:36, web-seed error torrent_webseed.go:20) and — because session.ram is always set
// (session.go:177) — at any later time through ramNotifyC (torrent_run.go:53-54). Hence: any connected peer, any
// time; a peer that is already downloading included (have on a busy peer), for which PickFor must return nil.
func (x *ctx) startSinglePieceDownloader(w *World, p int8) {
	pe := x.peers[p]
	ps := &w.Peers[p]
	n := x.c.NPieces
	// shadow end-game memory ("all pieces are requested"), evaluated at the instant of the call
	allReq := true
	for i := 0; i < n; i++ {
		if w.active(i) {
			if k, _ := w.downloaders(int8(i)); k == 0 {
				allReq = false
			}
		}
	}
	if allReq {
		w.EgSeen = true
	}
	wsActive := false
	for s := range x.srcs {
		if w.Src[s].Active {
			wsActive = true
		}
	}
	owner := [maxPieces]int8{}
	for i := 0; i < n; i++ {
		owner[i] = -1
		if src := x.pp.RequestedWebseedSource(uint32(i)); src != nil {
			for s := range x.srcs {
				if x.srcs[s] == src {
					owner[i] = int8(s)
				}
			}
		}
	}
	pi, af := x.pp.PickFor(pe)
	if pi == nil {
		if ps.Dl >= 0 {
			x.st.pickBusyNil++
		} else {
			x.st.pickNil++
		}
		return
	}
	k := int8(pi.Index)
	who := lazyStr(func() string { return fmt.Sprintf("PickFor(peer%d) = piece %d (allowedFast=%v)", p, k, af) })
	bad := false
	if ps.Dl >= 0 {
		x.fail("pick.peer-busy", "%s although the peer is already downloading piece %d", who, ps.Dl)
		bad = true
	}
	if int(k) >= n || &x.pieces[k] != pi {
		x.fail("pick.foreign-piece", "%s: not a piece of this torrent", who)
		return
	}
	if w.Done>>k&1 == 1 {
		x.fail("pick.done", "%s: the piece is already complete", who)
		bad = true
	}
	if w.Writing == k {
		x.fail("pick.writing", "%s: the piece is being written", who)
		bad = true
	}
	if ps.Has>>k&1 == 0 {
		x.fail("pick.not-having", "%s: the peer never announced that piece", who)
		bad = true
	}
	if ps.Choking {
		if !ps.hasAF(k) {
			x.fail("pick.choked", "%s: the peer is choking us and the piece is not in its allowed-fast set", who)
			bad = true
		} else if !af {
			x.fail("pick.allowed-fast-not-reported", "%s: peer is choking, piece is allowed-fast, but allowedFast=false was returned", who)
			bad = true
		}
	}
	if af && !ps.hasAF(k) {
		x.fail("pick.allowed-fast-false-report", "%s: allowedFast=true for a piece outside the peer's allowed-fast set", who)
		bad = true
	}
	cnt, stalled := w.downloaders(k)
	if cnt >= 1 {
		switch {
		case cnt+1 > x.c.MaxDup:
			x.fail("dup.over-limit", "%s: %d peers already download it, end-game limit is %d", who, cnt, x.c.MaxDup)
			bad = true
		case stalled:
			x.st.pickStalledDup++
		case w.EgSeen:
			x.st.pickEndgameDup++
		default:
			x.fail("dup.outside-endgame", "%s: %d running download(s) of it exist, and at no PickFor call so far were all missing pieces requested", who, cnt)
			bad = true
		}
	} else {
		x.st.pickFresh++
	}
	if int64(cnt+1) > x.st.maxSimul {
		x.st.maxSimul = int64(cnt + 1)
	}
	// sequential law
	if x.c.Seq && !ps.Choking && !bad {
		// "taken": complete, being written, reserved for a web seed, or being downloaded from a peer by a download
		// that is not stalled (a stalled edge piece may be re-requested first: edges come before the rest)
		taken := true
		for e := 0; e < n; e++ {
			if x.edge[e] && w.active(e) && owner[e] < 0 {
				if c2, st2 := w.downloaders(int8(e)); c2 == 0 || st2 {
					taken = false
				}
			}
		}
		lowest := int8(-1)
		elig := 0
		for i := 0; i < n; i++ {
			if w.active(i) && ps.Has>>i&1 == 1 && owner[i] < 0 { // eligible: missing, held by the peer, fetched by nobody
				if c2, _ := w.downloaders(int8(i)); c2 == 0 {
					if lowest < 0 {
						lowest = int8(i)
					}
					elig++
				}
			}
		}
		if taken && lowest >= 0 {
			x.st.seqChecked++
			if elig >= 2 {
				x.st.seqChecked2++
			}
			// Demand only the unambiguous part: no missing piece that the peer holds and nobody fetches may have a
			// LOWER index than the pick. (A duplicate request of a lower-indexed piece in end-game / for a stalled
			// download also goes to "the lowest-indexed piece that may be requested", so it is not flagged.)
			if k > lowest {
				class := "plain"
				switch {
				case wsActive:
					class = "webseed-active"
				case af:
					class = "allowed-fast-first"
				case w.EgSeen:
					class = "after-endgame" // the end-game short path (sticky flag) does not go by index
				}
				x.fail("sequential.not-lowest."+class, "%s to an unchoking peer in sequential mode, all file-edge pieces are taken, but the lower-indexed piece %d is eligible too (peer has it, not done/writing, no peer downloads it, not reserved for a web seed)", who, lowest)
				bad = true
			}
		}
	}
	if ps.Choking {
		x.st.pickAFChoked++
	} else if af {
		x.st.pickAFUnchoked++
	}
	if wsActive {
		x.st.pickWhileWs++
	}
	if owner[k] >= 0 {
		x.st.pickStealFromWs++
	}
	// torrent_start.go:225-231
	ps.Dl, ps.DlAF, ps.DlSnub, ps.DlChoked = k, af, false, false
	pe.Downloading = true
}

// closePieceDownloader: torrent_close.go:57-74. HandleCancelDownload is only ever called for the
// (peer, piece) pair of an open piece downloader.
func (x *ctx) closePieceDownloader(w *World, p int8) {
	ps := &w.Peers[p]
	if ps.Dl < 0 {
		return
	}
	x.pp.HandleCancelDownload(x.peers[p], uint32(ps.Dl))
	x.peers[p].Downloading = false
	ps.Dl, ps.DlAF, ps.DlSnub, ps.DlChoked = -1, false, false, false
}

// closePeer: torrent_close.go:27-51 (closePieceDownloader first, then HandleDisconnect).
func (x *ctx) closePeer(w *World, p int8) {
	x.closePieceDownloader(w, p)
	x.pp.HandleDisconnect(x.peers[p])
	x.peers[p].Closed = true
	w.Peers[p] = peerSt{Dl: -1}
	if w.Writer == p {
		w.Writer = writerGone
	}
}

// startPieceDownloaderForWebseed: torrent_start.go:162-195. Called only for a source without a downloader
// (startPieceDownloaders :148; after WebseedStopAt closed it, torrent_write.go:56-62; after the downloader
// finished, torrent_webseed.go:38-52,79-90; on retry after an error, torrent_run.go:67-68).
// Returns the number of outcomes the randomised range choice can have in this state, and the outcome.
func (x *ctx) startPieceDownloaderForWebseed(w *World, s int8) (nd int, out int8) {
	src := x.srcs[s]
	n := x.c.NPieces
	free := 0
	for i := 0; i < n; i++ {
		if w.active(i) && x.pp.RequestedWebseedSource(uint32(i)) == nil {
			free++
		}
	}
	// Enumeration aid only (never an oracle): how many outcomes can the randomised choice have? BEP 19 gaps =
	// maximal runs of unreserved missing pieces, cut into chunks of the per-request maximum; rarest-first mode
	// draws uniformly among the longest ones (math/rand). Calibrated against the implementation by the explorer.
	nd = 1
	if !x.c.Seq && free > 1 {
		wsMax := x.c.WsMax
		if wsMax == 0 {
			wsMax = 1 // len(pieces)/20, at least 1
		}
		best, cntBest, run := 0, 0, 0
		flush := func() {
			if run > best {
				best, cntBest = run, 1
			} else if run == best && run > 0 {
				cntBest++
			}
			run = 0
		}
		for i := 0; i < n; i++ {
			if w.active(i) && x.pp.RequestedWebseedSource(uint32(i)) == nil {
				run++
				if run == wsMax {
					flush()
				}
			} else {
				flush()
			}
		}
		flush()
		nd = cntBest
	}
	sp := x.pp.PickWebseed(src)
	if sp == nil {
		x.st.wsNil++
		return nd, -1
	}
	who := lazyStr(func() string { return fmt.Sprintf("PickWebseed(src%d) = [%d,%d)", s, sp.Begin, sp.End) })
	if sp.Source != src || sp.Begin >= sp.End || int(sp.End) > n {
		x.fail("ws.bad-range", "%s: empty, out of bounds or for another source", who)
		return nd, -1
	}
	for i := sp.Begin; i < sp.End; i++ {
		if w.Done>>i&1 == 1 {
			x.fail("ws.assign.done", "%s contains piece %d which is already complete", who, i)
		}
		if uint32(w.Writing) == i && w.Writing >= 0 {
			x.fail("ws.assign.writing", "%s contains piece %d which is being written", who, i)
		}
	}
	// ranges of the other sources as they are NOW (a legitimate steal has truncated its victim)
	for t := range x.srcs {
		if d := x.srcs[t].Downloader; int8(t) != s && d != nil {
			if sp.Begin < d.End && d.Begin < sp.End {
				x.fail("ws.overlap", "%s overlaps the range [%d,%d) that src%d is downloading", who, d.Begin, d.End, t)
			}
		}
	}
	if free == 0 {
		x.st.wsStealFromWs++
	}
	x.st.wsAssign++
	// startWebseedDownloader: torrent_start.go:178-195
	src.Downloader = x.newDownloader(int(s), sp.Begin, sp.End, sp.Begin)
	w.Src[s].Phase = phDownloading
	return nd, int8(sp.Begin)
}

func (x *ctx) closeWebseedDownloader(w *World, s int8) {
	x.pp.CloseWebseedDownloader(x.srcs[s]) // torrent_close.go:53-55
	w.Src[s].Phase = phDownloading
}

// apply executes one operation on the live objects (restored from w first unless live) and updates w.
func (x *ctx) apply(w *World, o op, live bool) (nd int, out int8, panicked bool) {
	x.viols = x.viols[:0]
	nd, out = 1, -1
	x.live = live
	if !live {
		x.restore(w)
	}
	defer func() {
		if r := recover(); r != nil {
			buf := make([]byte, 8192)
			nb := runtime.Stack(buf, false)
			x.fail("panic."+topFrame(string(buf[:nb])), "panic inside the picker: %v [%s]", r, topFrames(string(buf[:nb])))
			panicked = true
		}
	}()
	x.st.ops[o.K]++
	n := x.c.NPieces
	p := o.A
	switch o.K {
	case opConnect:
		// handshake done: a new *peer.Peer, choking, empty bitfield (peer.New)
		if live {
			x.peers[p] = &peer.Peer{Bitfield: bitfield.New(uint32(n)), PeerChoking: true, ClientChoking: true, FastEnabled: x.c.Fast[p]}
		}
		x.peers[p].Closed = false
		w.Peers[p] = peerSt{Conn: true, Choking: true, Dl: -1}
	case opDisconnect:
		x.closePeer(w, p) // torrent_run.go:81-82
	case opHave:
		// torrent_messagehandler.go:123-137
		if w.Peers[p].Has>>o.B&1 == 1 {
			x.st.dupHave++
		}
		x.pp.HandleHave(x.peers[p], uint32(o.B))
		w.Peers[p].Has |= 1 << o.B
	case opHaveAll:
		// torrent_messagehandler.go:166-175 (a bitfield message is the same loop over the set bits, :157-162)
		for i := 0; i < n; i++ {
			if w.Peers[p].Has>>i&1 == 1 {
				x.st.dupHave++
			}
			x.pp.HandleHave(x.peers[p], uint32(i))
		}
		w.Peers[p].Has = x.all
	case opAllowedFast:
		// torrent_messagehandler.go:179-192
		x.pp.HandleAllowedFast(x.peers[p], uint32(o.B))
		ps := &w.Peers[p]
		ps.AF[ps.NAF] = o.B
		ps.NAF++
	case opUnchoke:
		// torrent_messagehandler.go:193-208
		ps := &w.Peers[p]
		x.peers[p].PeerChoking = false
		ps.Choking = false
		if ps.Dl >= 0 && !ps.DlAF {
			ps.DlChoked = false
			x.pp.HandleUnchoke(x.peers[p], uint32(ps.Dl))
		}
	case opChoke:
		// torrent_messagehandler.go:209-225
		ps := &w.Peers[p]
		x.peers[p].PeerChoking = true
		ps.Choking = true
		if ps.Dl >= 0 && !ps.DlAF {
			ps.DlChoked = true
			ps.DlSnub = false
			x.pp.HandleChoke(x.peers[p], uint32(ps.Dl))
		}
	case opSnub:
		// torrent_peer.go:203-215: only with an open piece downloader and only if the peer is not choking
		ps := &w.Peers[p]
		x.peers[p].Snubbed = true
		ps.DlSnub = true
		x.pp.HandleSnubbed(x.peers[p], uint32(ps.Dl))
	case opPick:
		x.startSinglePieceDownloader(w, p)
	case opComplete:
		// torrent_messagehandler.go:92-107: last block received. Piece messages are suspended while a write is
		// in flight (:113), so no piece is Writing here.
		k := w.Peers[p].Dl
		x.closePieceDownloader(w, p)
		x.pieces[k].Writing = true
		w.Writing, w.Writer = k, p
	case opWriteFail:
		// torrent_write.go:13-37
		k := w.Writing
		x.pieces[k].Writing = false
		w.Writing = -1
		switch {
		case w.Writer >= writerSrc0 && w.Writer != writerGone:
			x.closeWebseedDownloader(w, w.Writer-writerSrc0) // disableSource: torrent_webseed.go:92-106
		case w.Writer >= 0 && w.Writer != writerGone:
			x.closePeer(w, w.Writer)
		}
		w.Writer = writerNone
	case opWriteOK, opWriteOKEager:
		// torrent_write.go:13-72
		eager := o.K == opWriteOKEager
		k := w.Writing
		x.pieces[k].Writing = false
		w.Writing = -1
		x.pieces[k].Done = true
		w.Done |= 1 << k
		fromPeer := !(w.Writer >= writerSrc0 && w.Writer != writerGone)
		w.Writer = writerNone
		src := x.pp.RequestedWebseedSource(uint32(k))
		if fromPeer && src != nil {
			s := int8(-1)
			for t := range x.srcs {
				if x.srcs[t] == src {
					s = int8(t)
				}
			}
			x.st.wsStopAtByPeer++
			closed := x.pp.WebseedStopAt(src, uint32(k))
			if closed {
				x.st.wsStopAtClosed++
				w.Src[s].Phase = phDownloading
				if eager { // status() is still Downloading here: t.completed is set later by checkCompletion
					nd, out = x.startPieceDownloaderForWebseed(w, s)
				}
			}
		}
		for _, pe := range x.pp.RequestedPeers(uint32(k)) {
			q := int8(-1)
			for t := range x.peers {
				if x.peers[t] == pe {
					q = int8(t)
				}
			}
			if q < 0 || w.Peers[q].Dl != k {
				// the torrent would dereference a nil piece downloader here (torrent_write.go:67-68)
				x.fail("requested.mismatch", "after piece %d was written RequestedPeers(%d) lists a peer that has no download of it", k, k)
				break
			}
			x.st.cancelByWriteDone++
			x.closePieceDownloader(w, q)
			if eager {
				x.startSinglePieceDownloader(w, q)
			}
		}
	case opWsPick:
		nd, out = x.startPieceDownloaderForWebseed(w, p)
	case opWsComplete:
		// urldownloader.Run completePiece: done is computed from the End of that instant, then sendResult blocks
		ss := &w.Src[p]
		d := x.srcs[p].Downloader
		if d.ReadCurrent() >= d.End-1 {
			ss.Phase = phPendingDone
		} else {
			ss.Phase = phPending
		}
	case opWsDeliver:
		// torrent_webseed.go:11-92; webseedPieceResultC is suspended while a piece is being written (:73-74, torrent_messagehandler.go:113-114)
		ss := &w.Src[p]
		d := x.srcs[p].Downloader
		idx := int8(d.ReadCurrent())
		msgDone := ss.Phase == phPendingDone
		if int(idx) >= n {
			x.fail("ws.current-out-of-bounds", "web-seed downloader of src%d reached piece index %d", p, idx)
			break
		}
		if uint32(idx) >= d.End {
			x.st.wsOutOfRangeResult++
		}
		if w.Done>>idx&1 == 1 {
			x.st.wsDiscard++
		} else {
			x.pieces[idx].Writing = true
			w.Writing, w.Writer = idx, writerSrc0+p
		}
		if msgDone {
			x.closeWebseedDownloader(w, p)
		} else {
			ss.Phase = phSent
		}
	case opWsAdvance:
		x.srcs[p].Downloader.VerifAdvance()
		w.Src[p].Phase = phDownloading
	case opWsError:
		// torrent_webseed.go:12-21
		x.closeWebseedDownloader(w, p)
	default:
		panic("harness: bad op")
	}
	x.capture(w)
	x.oracle(w, o)
	return
}

// oracle: the state predicates, evaluated after every operation against the shadow model.
func (x *ctx) oracle(w *World, o op) {
	n := x.c.NPieces
	// Available() (the value Stats reports: torrent_stats.go:201-206) == pieces held by >= 1 connected peer
	var union uint8
	for p := range w.Peers {
		if w.Peers[p].Conn {
			union |= w.Peers[p].Has
		}
	}
	want := uint32(0)
	for i := 0; i < n; i++ {
		want += uint32(union >> i & 1)
	}
	if want > 0 {
		x.st.availNonZeroChecks++
	}
	if got := x.pp.Available(); got != want {
		x.fail("available.mismatch", "after %s: Available()=%d but %d pieces are held by at least one connected peer", o, got, want)
	}
	// who downloads what: RequestedPeers(i) == peers with an open downloader of i; count within the limit
	for i := 0; i < n; i++ {
		rp := x.pp.RequestedPeers(uint32(i))
		cnt, _ := w.downloaders(int8(i))
		ok := len(rp) == cnt
		for _, pe := range rp {
			found := false
			for q := range x.peers {
				if x.peers[q] == pe && w.Peers[q].Conn && w.Peers[q].Dl == int8(i) {
					found = true
				}
			}
			ok = ok && found
		}
		if !ok {
			x.fail("requested.mismatch", "after %s: RequestedPeers(%d) has %d entries but %d peers have an open download of that piece", o, i, len(rp), cnt)
		}
		if cnt > x.c.MaxDup {
			x.fail("dup.over-limit", "after %s: %d simultaneous downloads of piece %d, limit %d", o, cnt, i, x.c.MaxDup)
		}
	}
	// web-seed ranges: pairwise disjoint, and the picker's reservation marks agree with them
	for s := range x.srcs {
		ds := x.srcs[s].Downloader
		if ds == nil {
			continue
		}
		for t := s + 1; t < len(x.srcs); t++ {
			dt := x.srcs[t].Downloader
			if dt != nil && ds.Begin < dt.End && dt.Begin < ds.End {
				x.fail("ws.overlap", "after %s: src%d downloads [%d,%d) and src%d downloads [%d,%d)", o, s, ds.Begin, ds.End, t, dt.Begin, dt.End)
			}
		}
	}
	for i := 0; i < n; i++ {
		var wantSrc *webseedsource.WebseedSource
		for s := range x.srcs {
			if d := x.srcs[s].Downloader; d != nil && d.Begin <= uint32(i) && uint32(i) < d.End {
				wantSrc = x.srcs[s]
			}
		}
		if got := x.pp.RequestedWebseedSource(uint32(i)); got != wantSrc {
			x.fail("ws.owner-mismatch", "after %s: piece %d reserved for %s but the downloader ranges say %s", o, i, srcName(got), srcName(wantSrc))
		}
	}
	// a disconnected peer must be gone from every index (HandleDisconnect's contract); also keeps slot reuse honest
	if w.P.Bad != 0 {
		x.fail("dump.unknown-pointer", "after %s: the picker references a peer or source the torrent does not know", o)
	}
	for p := range x.peers {
		if w.Peers[p].Conn {
			continue
		}
		for i := 0; i < n; i++ {
			dp := &w.P.Pieces[i]
			if dp.Having.Has(int8(p)) || dp.Requested.Has(int8(p)) || dp.Snubbed.Has(int8(p)) || dp.Choked.Has(int8(p)) {
				x.fail("disconnect.stale-reference", "after %s: disconnected peer%d is still referenced by piece %d", o, p, i)
			}
		}
	}
}

// lazyStr defers building a description until a violation is actually reported.
type lazyStr func() string

func (l lazyStr) String() string { return l() }

func srcName(s *webseedsource.WebseedSource) string {
	if s == nil {
		return "nobody"
	}
	return s.URL
}

// enabled lists the operations the swarm / the torrent loop can perform in w.
func (x *ctx) enabled(w *World, out []op) []op {
	out = out[:0]
	if w.Done == x.all {
		return out // checkCompletion (torrent_pieces.go:19-41): everything is closed and the picker dropped
	}
	n := int8(x.c.NPieces)
	for p := int8(0); int(p) < len(x.peers); p++ {
		ps := &w.Peers[p]
		if !ps.Conn {
			out = append(out, op{K: opConnect, A: p, Out: -1})
			continue
		}
		out = append(out, op{K: opDisconnect, A: p, Out: -1})
		for i := int8(0); i < n; i++ {
			if ps.Has>>i&1 == 0 {
				out = append(out, op{K: opHave, A: p, B: i, Out: -1})
			}
		}
		if ps.Has != x.all {
			out = append(out, op{K: opHaveAll, A: p, Out: -1})
		}
		if x.c.Fast[p] && ps.NAF < maxAF { // bound: allowed-fast sets of at most maxAF pieces
			for i := int8(0); i < n; i++ {
				if !ps.hasAF(i) {
					out = append(out, op{K: opAllowedFast, A: p, B: i, Out: -1})
				}
			}
		}
		if ps.Choking {
			out = append(out, op{K: opUnchoke, A: p, Out: -1})
		} else {
			out = append(out, op{K: opChoke, A: p, Out: -1})
		}
		if ps.Dl >= 0 && !ps.Choking {
			out = append(out, op{K: opSnub, A: p, Out: -1})
		}
		out = append(out, op{K: opPick, A: p, Out: -1})
		if ps.Dl >= 0 && w.Writing < 0 {
			out = append(out, op{K: opComplete, A: p, Out: -1})
		}
	}
	if w.Writing >= 0 {
		out = append(out, op{K: opWriteOK, Out: -1}, op{K: opWriteOKEager, Out: -1}, op{K: opWriteFail, Out: -1})
	}
	for s := int8(0); int(s) < len(x.srcs); s++ {
		ss := &w.Src[s]
		if !ss.Active {
			out = append(out, op{K: opWsPick, A: s, Out: -1})
			continue
		}
		switch ss.Phase {
		case phDownloading:
			out = append(out, op{K: opWsComplete, A: s, Out: -1})
			if w.Writing < 0 {
				out = append(out, op{K: opWsError, A: s, Out: -1})
			}
		case phPending, phPendingDone:
			if w.Writing < 0 {
				out = append(out, op{K: opWsDeliver, A: s, Out: -1})
			}
		case phSent:
			out = append(out, op{K: opWsAdvance, A: s, Out: -1})
		}
	}
	return out
}

// ---- canonical key

func setMask(s *piecepicker.VerifSet, perm []int8) byte {
	var m byte
	for i := int8(0); i < s.N; i++ {
		if s.ID[i] >= 0 {
			m |= 1 << perm[s.ID[i]]
		} else {
			m |= 0x80
		}
	}
	return m
}

func b2(b bool) byte {
	if b {
		return 1
	}
	return 0
}

// serialize writes w with peer slot k renamed perm[k]. Having/Snubbed/Choked and (in sequential mode) the
// allowed-fast list are written as sets: the picker only tests membership and size of those (SliceSet
// Add/Remove/Has/Len; pickAllowedFast scans the whole list in sequential mode). Requested keeps its order
// (RequestedPeers hands the slice to the torrent), so do the two sort arrays and the rarest-mode allowed-fast list.
func (x *ctx) serialize(w *World, perm []int8, b []byte) []byte {
	np := len(x.peers)
	wr := w.Writer
	if wr >= 0 && int(wr) < np {
		wr = perm[wr]
	}
	b = append(b, w.Done, byte(w.Writing), byte(wr), b2(w.EgSeen), b2(w.P.Endgame), byte(w.P.Available))
	for s := range x.srcs {
		ss := &w.Src[s]
		b = append(b, b2(ss.Active), byte(ss.Begin), byte(ss.End), byte(ss.Cur), byte(ss.Phase))
	}
	var inv [maxPeers]int8
	for k := 0; k < np; k++ {
		inv[perm[k]] = int8(k)
	}
	for k := 0; k < np; k++ {
		ps := &w.Peers[inv[k]]
		b = append(b, b2(ps.Conn)|b2(ps.Choking)<<1|b2(ps.DlAF)<<2|b2(ps.DlSnub)<<3|b2(ps.DlChoked)<<4, ps.Has, byte(ps.Dl), byte(ps.NAF))
		if x.c.Seq {
			var m byte
			for j := int8(0); j < ps.NAF; j++ {
				m |= 1 << ps.AF[j]
			}
			b = append(b, m)
		} else {
			for j := int8(0); j < ps.NAF; j++ {
				b = append(b, byte(ps.AF[j]))
			}
		}
	}
	for i := 0; i < x.c.NPieces; i++ {
		dp := &w.P.Pieces[i]
		b = append(b, setMask(&dp.Having, perm), setMask(&dp.Snubbed, perm), setMask(&dp.Choked, perm), byte(dp.Webseed), byte(dp.Requested.N))
		for j := int8(0); j < dp.Requested.N; j++ {
			id := dp.Requested.ID[j]
			if id >= 0 {
				id = perm[id]
			}
			b = append(b, byte(id))
		}
		b = append(b, byte(w.P.ByAvail[i]), byte(w.P.ByStalled[i]))
	}
	return b
}

func (x *ctx) canon(w *World) [16]byte {
	best := x.serialize(w, x.perms[0], x.kb[0][:0])
	x.kb[0] = best
	for _, pm := range x.perms[1:] {
		c := x.serialize(w, pm, x.kb[1][:0])
		x.kb[1] = c
		if bytes.Compare(c, best) < 0 {
			x.kb[0], x.kb[1] = x.kb[1], x.kb[0]
			best = x.kb[0]
		}
	}
	return md5.Sum(best)
}

func topFrames(st string) string {
	lines := strings.Split(st, "\n")
	var out []string
	for _, ln := range lines {
		if strings.Contains(ln, "/repo/") && !strings.Contains(ln, "zzverif") {
			out = append(out, strings.TrimSpace(ln))
			if len(out) >= 3 {
				break
			}
		}
	}
	return strings.Join(out, " <- ")
}

// topFrame: file:line of the innermost repo frame (violation key discriminator).
func topFrame(st string) string {
	lines := strings.Split(st, "\n")
	for _, ln := range lines {
		if strings.Contains(ln, "/repo/") && !strings.Contains(ln, "zzverif") && !strings.Contains(ln, "zz_verif") {
			f := strings.TrimSpace(ln)
			if i := strings.LastIndex(f, "/"); i >= 0 {
				f = f[i+1:]
			}
			if i := strings.Index(f, " "); i >= 0 {
				f = f[:i]
			}
			return f
		}
	}
	return "unknown"
}

var _ = sort.Ints

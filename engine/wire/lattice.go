//go:build verif

// Package wire: C11 - peer wire encoding is protocol-exact and round-trips through the reader.
// This file holds the message lattice (what is enumerated), the translation of a lattice point to
// the real rain message, its reference encoding, and the comparison of what the real reader delivers.
package wire

import (
	"bytes"
	"fmt"
	"net"

	"github.com/cenkalti/rain/v2/internal/peerconn/peerreader"
	"github.com/cenkalti/rain/v2/internal/peerprotocol"
	"github.com/cenkalti/rain/v2/zzverif/refcodec"
)

type kind int

const (
	kKeepAlive kind = iota
	kChoke
	kUnchoke
	kInterested
	kNotInterested
	kHave
	kBitfield
	kRequest
	kPiece
	kCancel
	kPort
	kHaveAll
	kHaveNone
	kReject
	kAllowedFast
	kExtHandshake
	kMetaRequest
	kMetaData
	kMetaReject
	kPex
	numKinds
)

var kindName = [...]string{"keepalive", "choke", "unchoke", "interested", "notinterested", "have", "bitfield", "request",
	"piece", "cancel", "port", "haveall", "havenone", "reject", "allowedfast", "exthandshake", "metarequest", "metadata", "metareject", "pex"}

// group is the coarse class used in violation keys.
func (k kind) group() string {
	switch k {
	case kKeepAlive:
		return "keepalive"
	case kPiece:
		return "piece"
	case kHaveAll, kHaveNone, kReject, kAllowedFast:
		return "fast"
	case kExtHandshake, kMetaRequest, kMetaData, kMetaReject, kPex:
		return "ext"
	}
	return "core"
}

type hsSpec struct {
	MetadataSize uint32
	Version      string
	IP           string // "" = none; textual address handed to net.ParseIP
	Reqq         int
}

// msg is one point of the message lattice.
type msg struct {
	K       kind
	A, B, C uint32 // index, begin, length | have/allowedfast index | ut_metadata: A=piece, B=total_size
	Port    uint16
	Data    []byte // bitfield bytes | ut_metadata raw data | pex "added"
	Data2   []byte // pex "dropped"
	ExtID   uint8  // extended message id written on the wire (the peer's numbering)
	Ptr     bool   // ut_metadata payload handed over as pointer (as torrent.sendMetadataReject does)
	HS      *hsSpec
	LazyN   int // kMetaData: Data is generated on demand (materialize) as metaBytes(LazyN, LazyPat)
	LazyPat int
	Lazy    bool
}

// materialize fills the bulky byte fields (kept out of the enumerated list to bound memory):
// ut_metadata data, and for piece messages the expected block.
func (m msg) materialize() msg {
	if m.K == kMetaData && m.Lazy {
		m.Data = metaBytes(m.LazyN, m.LazyPat)
		m.Lazy = false
	}
	if m.K == kPiece && m.Data == nil {
		m.Data = block(m.A, m.B, m.C)
	}
	return m
}

func (m msg) dataLen() int {
	if m.Lazy {
		return m.LazyN
	}
	return len(m.Data)
}

func (m msg) String() string {
	switch m.K {
	case kHave, kAllowedFast:
		return fmt.Sprintf("%s(%d)", kindName[m.K], m.A)
	case kRequest, kCancel, kReject, kPiece:
		return fmt.Sprintf("%s(index=%d,begin=%d,length=%d)", kindName[m.K], m.A, m.B, m.C)
	case kBitfield:
		return fmt.Sprintf("bitfield(%d bytes,first=%x)", len(m.Data), head(m.Data, 2))
	case kPort:
		return fmt.Sprintf("port(%d)", m.Port)
	case kExtHandshake:
		return fmt.Sprintf("exthandshake(metadata_size=%d,v=%d chars,ip=%q,reqq=%d)", m.HS.MetadataSize, len(m.HS.Version), m.HS.IP, m.HS.Reqq)
	case kMetaRequest, kMetaReject:
		return fmt.Sprintf("%s(extid=%d,piece=%d,ptr=%v)", kindName[m.K], m.ExtID, m.A, m.Ptr)
	case kMetaData:
		return fmt.Sprintf("metadata(extid=%d,piece=%d,total_size=%d,data=%d bytes,pattern=%d)", m.ExtID, m.A, m.B, m.dataLen(), m.LazyPat)
	case kPex:
		return fmt.Sprintf("pex(extid=%d,added=%d peers,dropped=%d peers)", m.ExtID, len(m.Data)/6, len(m.Data2)/6)
	}
	return kindName[m.K]
}

func head(b []byte, n int) []byte {
	if len(b) > n {
		return b[:n]
	}
	return b
}

// ---- piece data: a virtual io.ReaderAt (every offset up to 2^32 is readable without a backing array)

func pieceByte(index uint32, off uint64) byte {
	return byte(off*31 + uint64(index)*17 + (off>>8)*7 + (off>>16)*3 + 1)
}

type vpiece struct{ index uint32 }

func (v vpiece) ReadAt(p []byte, off int64) (int, error) {
	for i := range p {
		p[i] = pieceByte(v.index, uint64(off)+uint64(i))
	}
	return len(p), nil
}

func block(index, begin, length uint32) []byte {
	b := make([]byte, length)
	for i := range b {
		b[i] = pieceByte(index, uint64(begin)+uint64(i))
	}
	return b
}

// ---- lattice point -> real rain message (what the client hands to the writer)

func hsIP(s string) net.IP {
	if s == "" {
		return nil
	}
	return net.ParseIP(s)
}

// hsYourIP is the compact "yourip" BEP 10 prescribes: 4 bytes for IPv4, 16 for IPv6.
func hsYourIP(s string) []byte {
	if s == "" {
		return nil
	}
	var a, b, c, d byte
	if n, _ := fmt.Sscanf(s, "%d.%d.%d.%d", &a, &b, &c, &d); n == 4 {
		return []byte{a, b, c, d}
	}
	ip := net.ParseIP(s)
	return []byte(ip.To16())
}

func rq(m msg) peerprotocol.RequestMessage {
	return peerprotocol.RequestMessage{Index: m.A, Begin: m.B, Length: m.C}
}

// toRain builds the message exactly the way the client's call sites do (torrent_peer.go,
// torrent_metadataextension.go, peer.go, pex.go). kPiece and kKeepAlive are not sent through SendMessage.
func toRain(m msg) peerprotocol.Message {
	switch m.K {
	case kChoke:
		return peerprotocol.ChokeMessage{}
	case kUnchoke:
		return peerprotocol.UnchokeMessage{}
	case kInterested:
		return peerprotocol.InterestedMessage{}
	case kNotInterested:
		return peerprotocol.NotInterestedMessage{}
	case kHaveAll:
		return peerprotocol.HaveAllMessage{}
	case kHaveNone:
		return peerprotocol.HaveNoneMessage{}
	case kHave:
		return peerprotocol.HaveMessage{Index: m.A}
	case kAllowedFast:
		return peerprotocol.AllowedFastMessage{HaveMessage: peerprotocol.HaveMessage{Index: m.A}}
	case kBitfield:
		return &peerprotocol.BitfieldMessage{Data: append([]byte{}, m.Data...)}
	case kRequest:
		return rq(m)
	case kCancel:
		return peerprotocol.CancelMessage{RequestMessage: rq(m)}
	case kReject:
		return peerprotocol.RejectMessage{RequestMessage: rq(m)}
	case kPort:
		return peerprotocol.PortMessage{Port: m.Port}
	case kExtHandshake:
		return peerprotocol.ExtensionMessage{
			ExtendedMessageID: peerprotocol.ExtensionIDHandshake,
			Payload:           peerprotocol.NewExtensionHandshake(m.HS.MetadataSize, m.HS.Version, hsIP(m.HS.IP), m.HS.Reqq),
		}
	case kMetaRequest, kMetaData, kMetaReject:
		mm := peerprotocol.ExtensionMetadataMessage{Piece: m.A, TotalSize: int(m.B)}
		switch m.K {
		case kMetaRequest:
			mm.Type = peerprotocol.ExtensionMetadataMessageTypeRequest
		case kMetaData:
			mm.Type = peerprotocol.ExtensionMetadataMessageTypeData
			mm.Data = m.Data
		case kMetaReject:
			mm.Type = peerprotocol.ExtensionMetadataMessageTypeReject
		}
		if m.Ptr {
			return peerprotocol.ExtensionMessage{ExtendedMessageID: m.ExtID, Payload: &mm}
		}
		return peerprotocol.ExtensionMessage{ExtendedMessageID: m.ExtID, Payload: mm}
	case kPex:
		return peerprotocol.ExtensionMessage{ExtendedMessageID: m.ExtID,
			Payload: peerprotocol.ExtensionPEXMessage{Added: string(m.Data), Dropped: string(m.Data2)}}
	}
	panic("toRain: " + kindName[m.K])
}

// ---- lattice point -> reference frame (BEP 3/6/9/10/11 via refcodec)

// extIDs are the extended ids the client advertises in its own extension handshake; learned at start
// by reference-decoding a real handshake (see learnExtIDs), never taken from rain's constants.
type extIDs struct{ meta, pex uint8 }

func refFrame(m msg, ids extIDs) refcodec.Msg {
	switch m.K {
	case kKeepAlive:
		return refcodec.Msg{ID: refcodec.MsgKeepAlive}
	case kChoke:
		return refcodec.Simple(refcodec.MsgChoke)
	case kUnchoke:
		return refcodec.Simple(refcodec.MsgUnchoke)
	case kInterested:
		return refcodec.Simple(refcodec.MsgInterested)
	case kNotInterested:
		return refcodec.Simple(refcodec.MsgNotInterested)
	case kHaveAll:
		return refcodec.Simple(refcodec.MsgHaveAll)
	case kHaveNone:
		return refcodec.Simple(refcodec.MsgHaveNone)
	case kHave:
		return refcodec.Have(m.A)
	case kAllowedFast:
		return refcodec.AllowedFast(m.A)
	case kBitfield:
		return refcodec.Bitfield(m.Data)
	case kRequest:
		return refcodec.Request(m.A, m.B, m.C)
	case kCancel:
		return refcodec.Cancel(m.A, m.B, m.C)
	case kReject:
		return refcodec.Reject(m.A, m.B, m.C)
	case kPiece:
		return refcodec.Piece(m.A, m.B, block(m.A, m.B, m.C))
	case kPort:
		return refcodec.Port(m.Port)
	case kExtHandshake:
		return refcodec.Extended(0, refcodec.ExtHandshakePayload(
			map[string]int{"ut_metadata": int(ids.meta), "ut_pex": int(ids.pex)},
			m.HS.Version, hsYourIP(m.HS.IP), int64(m.HS.MetadataSize), int64(m.HS.Reqq)))
	case kMetaRequest:
		return refcodec.Extended(m.ExtID, refcodec.MetadataPayload(refcodec.MetaRequest, m.A, int64(m.B), nil))
	case kMetaData:
		return refcodec.Extended(m.ExtID, refcodec.MetadataPayload(refcodec.MetaData, m.A, int64(m.B), m.Data))
	case kMetaReject:
		return refcodec.Extended(m.ExtID, refcodec.MetadataPayload(refcodec.MetaReject, m.A, int64(m.B), nil))
	case kPex:
		return refcodec.Extended(m.ExtID, refcodec.PEXPayload(m.Data, m.Data2))
	}
	panic("refFrame: " + kindName[m.K])
}

// ---- what the reading side owes for a message

type delivery int

const (
	dDeliver delivery = iota // the reader must hand over an equal message
	dSilent                  // keep-alive: consumed, nothing delivered
	dPolicy                  // outside what the client ever emits to itself (request > 16 KiB): the reader may deliver it or close
	dForeign                 // extended id in the remote peer's numbering: the reader is not asked to decode it
)

func (m msg) delivery(ids extIDs) delivery {
	switch m.K {
	case kKeepAlive:
		return dSilent
	case kRequest:
		if m.C > 16384 {
			return dPolicy
		}
	case kMetaRequest, kMetaData, kMetaReject:
		if m.ExtID != ids.meta {
			return dForeign
		}
	case kPex:
		if m.ExtID != ids.pex {
			return dForeign
		}
	}
	return dDeliver
}

// matches compares what the real reader delivered with the original lattice point.
// cause is "" when equal, else "type" (wrong Go message type) or "fields".
func matches(m msg, got any, ids extIDs) (cause, detail string) {
	typ := func() (string, string) { return "type", fmt.Sprintf("sent %s, reader delivered %T %+v", m, got, trim(got)) }
	fld := func() (string, string) { return "fields", fmt.Sprintf("sent %s, reader delivered %T %+v", m, got, trim(got)) }
	switch m.K {
	case kChoke:
		if _, ok := got.(peerprotocol.ChokeMessage); !ok {
			return typ()
		}
	case kUnchoke:
		if _, ok := got.(peerprotocol.UnchokeMessage); !ok {
			return typ()
		}
	case kInterested:
		if _, ok := got.(peerprotocol.InterestedMessage); !ok {
			return typ()
		}
	case kNotInterested:
		if _, ok := got.(peerprotocol.NotInterestedMessage); !ok {
			return typ()
		}
	case kHaveAll:
		if _, ok := got.(peerprotocol.HaveAllMessage); !ok {
			return typ()
		}
	case kHaveNone:
		if _, ok := got.(peerprotocol.HaveNoneMessage); !ok {
			return typ()
		}
	case kHave:
		g, ok := got.(peerprotocol.HaveMessage)
		if !ok {
			return typ()
		}
		if g.Index != m.A {
			return fld()
		}
	case kAllowedFast:
		g, ok := got.(peerprotocol.AllowedFastMessage)
		if !ok {
			return typ()
		}
		if g.Index != m.A {
			return fld()
		}
	case kBitfield:
		g, ok := got.(peerprotocol.BitfieldMessage)
		if !ok {
			return typ()
		}
		if !bytes.Equal(g.Data, m.Data) {
			return fld()
		}
	case kRequest:
		g, ok := got.(peerprotocol.RequestMessage)
		if !ok {
			return typ()
		}
		if g != rq(m) {
			return fld()
		}
	case kCancel:
		g, ok := got.(peerprotocol.CancelMessage)
		if !ok {
			return typ()
		}
		if g.RequestMessage != rq(m) {
			return fld()
		}
	case kReject:
		g, ok := got.(peerprotocol.RejectMessage)
		if !ok {
			return typ()
		}
		if g.RequestMessage != rq(m) {
			return fld()
		}
	case kPiece:
		g, ok := got.(peerreader.Piece)
		if !ok {
			return typ()
		}
		if g.Index != m.A || g.Begin != m.B || !bytes.Equal(g.Buffer.Data, m.Data) { // m.Data = expected block (materialize)
			return "fields", fmt.Sprintf("sent %s, reader delivered piece(index=%d,begin=%d,%d bytes) data-equal=%v", m, g.Index, g.Begin, len(g.Buffer.Data), bytes.Equal(g.Buffer.Data, m.Data))
		}
	case kPort:
		g, ok := got.(peerprotocol.PortMessage)
		if !ok {
			return typ()
		}
		if g.Port != m.Port {
			return fld()
		}
	case kExtHandshake:
		g, ok := got.(peerprotocol.ExtensionHandshakeMessage)
		if !ok {
			return typ()
		}
		if len(g.M) != 2 || g.M["ut_metadata"] != ids.meta || g.M["ut_pex"] != ids.pex || g.V != m.HS.Version ||
			g.YourIP != string(hsYourIP(m.HS.IP)) || int64(g.MetadataSize) != int64(m.HS.MetadataSize) || g.RequestQueue != m.HS.Reqq {
			return fld()
		}
	case kMetaRequest, kMetaData, kMetaReject:
		g, ok := got.(peerprotocol.ExtensionMetadataMessage)
		if !ok {
			return typ()
		}
		wantType := map[kind]int{kMetaRequest: refcodec.MetaRequest, kMetaData: refcodec.MetaData, kMetaReject: refcodec.MetaReject}[m.K]
		var wantData []byte
		if m.K == kMetaData {
			wantData = m.Data
		}
		if g.Type != wantType || g.Piece != m.A || int64(g.TotalSize) != int64(m.B) || !bytes.Equal(g.Data, wantData) {
			return "fields", fmt.Sprintf("sent %s, reader delivered ut_metadata(msg_type=%d,piece=%d,total_size=%d,data=%d bytes) data-equal=%v", m, g.Type, g.Piece, g.TotalSize, len(g.Data), bytes.Equal(g.Data, wantData))
		}
	case kPex:
		g, ok := got.(peerprotocol.ExtensionPEXMessage)
		if !ok {
			return typ()
		}
		if g.Added != string(m.Data) || g.Dropped != string(m.Data2) {
			return "fields", fmt.Sprintf("sent %s, reader delivered pex(added=%d bytes,dropped=%d bytes)", m, len(g.Added), len(g.Dropped))
		}
	default:
		return typ()
	}
	return "", ""
}

func trim(v any) any {
	switch x := v.(type) {
	case peerprotocol.BitfieldMessage:
		return fmt.Sprintf("bitfield(%d bytes)", len(x.Data))
	case peerreader.Piece:
		return fmt.Sprintf("piece(index=%d,begin=%d,%d bytes)", x.Index, x.Begin, len(x.Buffer.Data))
	case peerprotocol.ExtensionMetadataMessage:
		return fmt.Sprintf("ut_metadata(msg_type=%d,piece=%d,total_size=%d,%d bytes)", x.Type, x.Piece, x.TotalSize, len(x.Data))
	case peerprotocol.ExtensionPEXMessage:
		return fmt.Sprintf("pex(added=%d bytes,dropped=%d bytes)", len(x.Added), len(x.Dropped))
	}
	return v
}

// ---- the lattice

func v32(thorough bool) []uint32 {
	v := []uint32{0, 1, 1 << 16, 1 << 31, 1<<32 - 1}
	if thorough {
		v = append(v, 2, 255, 256, 1<<16-1, 1<<16+1, 1<<24, 1<<31-1, 1<<31+1, 1<<32-2)
	}
	return v
}

func bitfieldData(bits int, pattern int) []byte {
	b := make([]byte, (bits+7)/8)
	for i := 0; i < bits; i++ {
		set := false
		switch pattern {
		case 0:
			set = true
		case 1:
			set = i%2 == 0
		case 3:
			set = i%7 == 3 || i == bits-1
		}
		if set {
			b[i/8] |= 0x80 >> (i % 8)
		}
	}
	return b
}

// metaBytes: pattern 0 is a ramp; pattern 1 looks like the start of an info dictionary (bencode right
// after the bencoded header - the decoder must stop at the end of the header dictionary); pattern 2
// begins with bytes that would continue a dictionary if the header's closing 'e' were mis-parsed.
func metaBytes(n, pattern int) []byte {
	b := make([]byte, n)
	var pre string
	switch pattern {
	case 1:
		pre = "d6:lengthi12345e4:name4:test12:piece lengthi16384e6:pieces20:"
	case 2:
		pre = "e5:piecei7e10:total_sizei1eed1:ai1ee"
	}
	for i := range b {
		if i < len(pre) {
			b[i] = pre[i]
		} else {
			b[i] = byte(i*13 + i>>8 + 5)
		}
	}
	return b
}

func compactPeers(n int, salt byte) []byte {
	var b []byte
	for i := 0; i < n; i++ {
		b = append(b, refcodec.CompactPeer(10+salt, byte(i>>8), byte(i), byte(i*7+1), uint16(6881+i*257))...)
	}
	return b
}

// writer's fixed array: 4+1+8+16384 bytes (peerwriter.go). Sizes are chosen around the point where a
// frame stops fitting (frameOverhead = bytes of the frame that are not the variable payload).
const writerArray = 4 + 1 + 8 + 16384

func around(center int, r int) []int {
	var s []int
	for d := -r; d <= r; d++ {
		if center+d >= 0 {
			s = append(s, center+d)
		}
	}
	return s
}

func uniqInts(in []int) []int {
	seen := map[int]bool{}
	var out []int
	for _, x := range in {
		if !seen[x] {
			seen[x] = true
			out = append(out, x)
		}
	}
	return out
}

// singles enumerates the single-message lattice, simplest first.
func singles(thorough bool, ids extIDs) []msg {
	var out []msg
	V := v32(thorough)
	out = append(out, msg{K: kKeepAlive})
	for _, k := range []kind{kChoke, kUnchoke, kInterested, kNotInterested, kHaveAll, kHaveNone} {
		out = append(out, msg{K: k})
	}
	for _, k := range []kind{kHave, kAllowedFast} {
		for _, a := range V {
			out = append(out, msg{K: k, A: a})
		}
	}
	// port
	if thorough {
		for p := 0; p < 65536; p++ {
			out = append(out, msg{K: kPort, Port: uint16(p)})
		}
	} else {
		for _, p := range []uint16{0, 1, 255, 256, 6881, 65535} {
			out = append(out, msg{K: kPort, Port: p})
		}
	}
	// request / cancel / reject
	for _, k := range []kind{kRequest, kCancel, kReject} {
		lens := append([]uint32{}, V...)
		lens = append(lens, 16383, 16384, 16385)
		for _, a := range V {
			for _, b := range V {
				for _, c := range lens {
					out = append(out, msg{K: k, A: a, B: b, C: c})
				}
			}
		}
	}
	// bitfield: bit counts of the statement plus byte lengths around the writer's array and its first regrowth
	bitCounts := []int{0, 1, 7, 8, 9, 15, 16, 17, 65535, 65536, 65537}
	for _, by := range around(writerArray-5, 1) {
		bitCounts = append(bitCounts, by*8)
	}
	if thorough {
		for _, by := range around(2*writerArray+512-5, 1) { // capacity after bytes.Buffer's first growth
			bitCounts = append(bitCounts, by*8)
		}
		bitCounts = append(bitCounts, 31, 32, 33, 1<<20, 1<<20+1)
	}
	for _, bits := range bitCounts {
		for _, pat := range []int{0, 1, 2, 3} {
			if bits == 0 && pat > 0 {
				continue
			}
			out = append(out, msg{K: kBitfield, Data: bitfieldData(bits, pat)})
		}
	}
	// piece
	plens := []uint32{0, 1, 2, 255, 256, 4096, 16383, 16384}
	pidx := []uint32{0, 1, 1<<32 - 1}
	if thorough {
		pidx = V
	}
	for _, a := range pidx {
		for _, b := range V {
			for _, c := range plens {
				out = append(out, msg{K: kPiece, A: a, B: b, C: c})
			}
		}
	}
	if thorough {
		for c := uint32(0); c <= 16384; c++ {
			out = append(out, msg{K: kPiece, A: 3, B: 16384, C: c})
		}
	}
	// extension handshake
	sizes := []uint32{0, 1, 16384, 1<<31 - 1, 1<<32 - 1}
	versions := []string{"", "Rain 2.2.1", string(bytes.Repeat([]byte("v"), 300))}
	ips := []string{"", "1.2.3.4", "255.255.255.255", "2001:db8::1"}
	reqqs := []int{0, 1, 250, 1<<31 - 1}
	for _, s := range sizes {
		for _, v := range versions {
			for _, ip := range ips {
				for _, q := range reqqs {
					out = append(out, msg{K: kExtHandshake, HS: &hsSpec{s, v, ip, q}})
				}
			}
		}
	}
	// ut_metadata request / reject
	for _, k := range []kind{kMetaRequest, kMetaReject} {
		for _, id := range []uint8{ids.meta, 3, 255} {
			for _, a := range V {
				for _, ptr := range []bool{false, true} {
					out = append(out, msg{K: k, A: a, ExtID: id, Ptr: ptr})
				}
			}
		}
	}
	// ut_metadata data: payload sizes 0..16 KiB
	var msizes []int
	if thorough {
		for n := 0; n <= 16384; n++ {
			msizes = append(msizes, n)
		}
	} else {
		for n := 0; n <= 40; n++ {
			msizes = append(msizes, n)
		}
		for k := 6; k <= 13; k++ {
			msizes = append(msizes, 1<<k-1, 1<<k, 1<<k+1)
		}
		// the frame is 4+1+1+len(dict)+n bytes, the dictionary is 40..60 bytes: the window below contains the
		// size at which the frame stops fitting the writer's array, for every dictionary enumerated
		for n := 16384 - 100; n <= 16384; n++ {
			msizes = append(msizes, n)
		}
	}
	msizes = uniqInts(msizes)
	quickSize := func(n int) bool {
		return n <= 40 || n >= 16384-100 || (n >= 63 && (n&(n-1) == 0 || (n+1)&n == 0 || (n-1)&(n-2) == 0))
	}
	for _, n := range msizes {
		pcs, pats := []uint32{0, 1, 65536}, []int{0, 1, 2}
		if !quickSize(n) { // thorough only: the sizes in between, one piece index, pattern rotating with the size
			pcs, pats = []uint32{1}, []int{n % 3}
		}
		for _, pc := range pcs {
			for _, pat := range pats {
				total := uint64(pc)*16384 + uint64(n)
				if total == 0 {
					total = 1
				}
				out = append(out, msg{K: kMetaData, A: pc, B: uint32(total), ExtID: ids.meta, Lazy: true, LazyN: n, LazyPat: pat})
			}
		}
	}
	for _, n := range []int{0, 1, 16384} { // peer's numbering: writer only
		for _, id := range []uint8{3, 255} {
			out = append(out, msg{K: kMetaData, A: 0, B: uint32(n + 1), ExtID: id, Data: metaBytes(n, 0)})
		}
	}
	// ut_pex: 0..200 added peers x {0,1,50} dropped
	for n := 0; n <= 200; n++ {
		for _, d := range []int{0, 1, 50} {
			out = append(out, msg{K: kPex, ExtID: ids.pex, Data: compactPeers(n, 0), Data2: compactPeers(d, 100)})
		}
	}
	for _, id := range []uint8{3, 255} {
		out = append(out, msg{K: kPex, ExtID: id, Data: compactPeers(2, 0), Data2: compactPeers(1, 100)})
	}
	return out
}

// reps: the representatives (one or more per kind, small frames) from which sequences are built.
func reps(level int, ids extIDs) []msg {
	r := []msg{
		{K: kKeepAlive},
		{K: kChoke},
		{K: kHave, A: 1 << 16},
		{K: kBitfield, Data: bitfieldData(9, 1)},
		{K: kRequest, A: 1, B: 1 << 31, C: 16384},
		{K: kPiece, A: 2, B: 16384, C: 3},
		{K: kReject, A: 1<<32 - 1, B: 0, C: 1},
		{K: kAllowedFast, A: 7},
		{K: kMetaData, A: 0, B: 5, ExtID: ids.meta, Data: metaBytes(5, 1)},
		{K: kPex, ExtID: ids.pex, Data: compactPeers(1, 0)},
	}
	if level >= 1 {
		r = append(r,
			msg{K: kUnchoke},
			msg{K: kCancel, A: 1, B: 2, C: 3},
			msg{K: kPort, Port: 6881},
			msg{K: kHaveAll},
		)
	}
	if level >= 2 {
		r = append(r,
			msg{K: kInterested},
			msg{K: kNotInterested},
			msg{K: kHaveNone},
			msg{K: kBitfield},
			msg{K: kPiece, A: 0, B: 0, C: 0},
			msg{K: kExtHandshake, HS: &hsSpec{0, "", "", 0}},
			msg{K: kMetaRequest, A: 0, ExtID: ids.meta},
			msg{K: kMetaReject, A: 1, ExtID: ids.meta, Ptr: true},
		)
	}
	return r
}

// bigs: frames around / beyond the writer's fixed array, used to check buffer reuse between frames.
func bigs(ids extIDs) []msg {
	return []msg{
		{K: kPiece, A: 5, B: 32768, C: 16384},                                            // fills the array exactly
		{K: kMetaData, A: 1, B: 32768, ExtID: ids.meta, Data: metaBytes(16384, 1)},       // outgrows it
		{K: kBitfield, Data: bitfieldData((writerArray-5+1)*8, 3)},                       // outgrows it by one byte
		{K: kPex, ExtID: ids.pex, Data: compactPeers(200, 0), Data2: compactPeers(50, 100)}, // 1.5 KiB
	}
}

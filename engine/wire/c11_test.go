//go:build verif

package wire

import (
	"bytes"
	"encoding/binary"
	"errors"
	"fmt"
	"io"
	"net"
	"os"
	"runtime"
	"runtime/debug"
	"sort"
	"strings"
	"sync"
	"sync/atomic"
	"testing"
	"testing/synctest"
	"time"

	"github.com/cenkalti/rain/v2/internal/btconn"
	"github.com/cenkalti/rain/v2/internal/logger"
	"github.com/cenkalti/rain/v2/internal/peerconn/peerreader"
	"github.com/cenkalti/rain/v2/internal/peerconn/peerwriter"
	"github.com/cenkalti/rain/v2/internal/peerprotocol"
	"github.com/cenkalti/rain/v2/zzverif/core"
	"github.com/cenkalti/rain/v2/zzverif/refcodec"
)

// ---------------------------------------------------------------------------------------------
// in-memory connections

var fakeAddr = &net.TCPAddr{IP: net.IPv4(10, 0, 0, 1), Port: 6881}

// capConn is the writer's side: it records every Write (bytes and call boundaries). Reads never happen.
type capConn struct {
	mu      sync.Mutex
	buf     []byte
	writes  []int // stream offset after each Write call
	closedC chan struct{}
	once    sync.Once
}

func newCapConn() *capConn { return &capConn{closedC: make(chan struct{})} }

func (c *capConn) Write(p []byte) (int, error) {
	c.mu.Lock()
	c.buf = append(c.buf, p...)
	c.writes = append(c.writes, len(c.buf))
	c.mu.Unlock()
	return len(p), nil
}
func (c *capConn) Read(p []byte) (int, error)         { return 0, io.EOF }
func (c *capConn) Close() error                       { c.once.Do(func() { close(c.closedC) }); return nil }
func (c *capConn) LocalAddr() net.Addr                { return fakeAddr }
func (c *capConn) RemoteAddr() net.Addr               { return fakeAddr }
func (c *capConn) SetDeadline(t time.Time) error      { return nil }
func (c *capConn) SetReadDeadline(t time.Time) error  { return nil }
func (c *capConn) SetWriteDeadline(t time.Time) error { return nil }

// feedConn is the reader's side: Read returns exactly the chunks the enumeration chose. A chunk is never
// merged with the next one; a chunk larger than the caller's buffer is handed over in several Reads.
// After the last chunk Read reports io.EOF (the peer closed). Writes are recorded (handshake Accept).
type feedConn struct {
	data   []byte
	cuts   [3]int // ascending chunk end offsets; cuts[ncuts-1] == len(data)
	ncuts  int
	ci     int
	pos    int
	single bool // byte-at-a-time delivery
	stall  bool // after every chunk but the last the read deadline expires once before the next bytes come
	stalled bool
	reads  int
	out    []byte
}

// timeoutErr is what a net.Conn returns when its read deadline expires.
type timeoutErr struct{}

func (timeoutErr) Error() string   { return "i/o timeout" }
func (timeoutErr) Timeout() bool   { return true }
func (timeoutErr) Temporary() bool { return true }

func (c *feedConn) Read(p []byte) (int, error) {
	if len(p) == 0 {
		return 0, nil
	}
	if c.pos >= len(c.data) {
		return 0, io.EOF
	}
	if c.stalled {
		c.stalled = false
		return 0, timeoutErr{}
	}
	c.reads++
	if c.single {
		p[0] = c.data[c.pos]
		c.pos++
		return 1, nil
	}
	end := c.cuts[c.ci]
	n := copy(p, c.data[c.pos:end])
	c.pos += n
	if c.pos == end {
		c.ci++
		c.stalled = c.stall && c.pos < len(c.data)
	}
	return n, nil
}
func (c *feedConn) Write(p []byte) (int, error)        { c.out = append(c.out, p...); return len(p), nil }
func (c *feedConn) Close() error                       { return nil }
func (c *feedConn) LocalAddr() net.Addr                { return fakeAddr }
func (c *feedConn) RemoteAddr() net.Addr               { return fakeAddr }
func (c *feedConn) SetDeadline(t time.Time) error      { return nil }
func (c *feedConn) SetReadDeadline(t time.Time) error  { return nil }
func (c *feedConn) SetWriteDeadline(t time.Time) error { return nil }

// frag describes one fragmentation of a stream of length L.
type frag struct {
	single bool
	p, q   int  // cut positions (0 = unused); 0 < p < q < L
	stall  bool // the read deadline expires once at every cut (slow peer)
}

func (f frag) class() string {
	switch {
	case f.stall:
		return "stall"
	case f.single:
		return "bytewise"
	case f.p == 0:
		return "whole"
	case f.q == 0:
		return "cut1"
	}
	return "cut2"
}

func (f frag) String() string {
	switch {
	case f.stall && f.q == 0:
		return fmt.Sprintf("chunks cut at byte %d, the read deadline expiring once in between", f.p)
	case f.stall:
		return fmt.Sprintf("chunks cut at bytes %d and %d, the read deadline expiring once at each cut", f.p, f.q)
	case f.single:
		return "one byte per Read"
	case f.p == 0:
		return "whole stream in one chunk"
	case f.q == 0:
		return fmt.Sprintf("chunks cut at byte %d", f.p)
	}
	return fmt.Sprintf("chunks cut at bytes %d and %d", f.p, f.q)
}

func (f frag) conn(data []byte) *feedConn {
	c := &feedConn{data: data, single: f.single, stall: f.stall}
	for _, x := range []int{f.p, f.q, len(data)} {
		if x > 0 {
			c.cuts[c.ncuts] = x
			c.ncuts++
		}
	}
	if c.ncuts == 0 { // empty stream
		c.ncuts = 1
	}
	return c
}

// cutLattice returns the cut positions enumerated for a stream: every position when the stream is
// short (<= full), else every position within radius r of a structural point (frame start, end of the
// length prefix, id byte, the first three 4-byte field boundaries, frame end) plus a stride grid
// (stride, stride+-1) inside long payloads. The reader buffers 17 bytes (bufio), so any chunk boundary
// more than 17 bytes from every structural point falls inside one direct io.ReadFull of the payload.
func cutLattice(frames [][]byte, full, r, stride int) []int {
	L := 0
	for _, f := range frames {
		L += len(f)
	}
	if L <= 1 {
		return nil
	}
	mark := make([]bool, L)
	if L <= full {
		for i := 1; i < L; i++ {
			mark[i] = true
		}
	} else {
		s := 0
		for _, f := range frames {
			for _, pt := range []int{s, s + 4, s + 5, s + 9, s + 13, s + 17, s + len(f)} {
				if pt > s+len(f) {
					continue
				}
				for d := -r; d <= r; d++ {
					if x := pt + d; x >= 1 && x < L {
						mark[x] = true
					}
				}
			}
			if stride > 0 {
				for x := s + stride; x < s+len(f); x += stride {
					for d := -1; d <= 1; d++ {
						if x+d >= 1 && x+d < L {
							mark[x+d] = true
						}
					}
				}
			}
			s += len(f)
		}
	}
	var out []int
	for i := 1; i < L; i++ {
		if mark[i] {
			out = append(out, i)
		}
	}
	return out
}

// ---------------------------------------------------------------------------------------------
// violations: collected with the index of the case so that the reported instance per key is the
// simplest one regardless of worker scheduling

type vrec struct {
	idx   int64
	desc  string
	rep   any
	count int64
}

type collector struct {
	mu sync.Mutex
	m  map[string]*vrec
}

func (c *collector) add(key string, idx int64, desc string, replay any) {
	c.mu.Lock()
	defer c.mu.Unlock()
	v := c.m[key]
	if v == nil {
		c.m[key] = &vrec{idx: idx, desc: desc, rep: replay, count: 1}
		return
	}
	v.count++
	if idx < v.idx {
		v.idx, v.desc, v.rep = idx, desc, replay
	}
}

func (c *collector) flush(rep *core.Report) {
	keys := make([]string, 0, len(c.m))
	for k := range c.m {
		keys = append(keys, k)
	}
	sort.Slice(keys, func(a, b int) bool {
		if c.m[keys[a]].idx != c.m[keys[b]].idx {
			return c.m[keys[a]].idx < c.m[keys[b]].idx
		}
		return keys[a] < keys[b]
	})
	for _, k := range keys {
		v := c.m[k]
		for i := int64(0); i < v.count; i++ {
			rep.Violate(k, v.desc, v.rep)
		}
	}
}

// ---------------------------------------------------------------------------------------------
// one case = a sequence of operations on one connection

type wcase struct {
	idx   int64
	part  string // "single" | "seq" | "reuse"
	ops   []msg
	full  int // cutLattice parameters
	r     int
	strd  int
	cut2  bool
	cut2r int // radius used for 2-cuts (may be smaller than r)
}

func (c *wcase) desc() string {
	var s []string
	for _, o := range c.ops {
		s = append(s, o.String())
	}
	return "[" + strings.Join(s, " ; ") + "]"
}

// wres is what the real writer did with a case.
type wres struct {
	c        *wcase
	wire     []byte
	writes   []int
	uploaded []uint32
	other    int // non-BlockUploaded events on Messages()
}

// expectFrames applies the writer's documented queue policy to the operations: a piece request that
// was already served on this connection is answered with reject (peerwriter.go "Reject duplicate
// requests"); everything else is written as is, in order.
func expectFrames(ops []msg) []msg {
	served := map[[3]uint32]bool{}
	var out []msg
	for _, o := range ops {
		if o.K == kPiece {
			k := [3]uint32{o.A, o.B, o.C}
			if served[k] {
				out = append(out, msg{K: kReject, A: o.A, B: o.B, C: o.C})
				continue
			}
			served[k] = true
		}
		out = append(out, o)
	}
	return out
}

const keepAliveSleep = 61 * time.Second // the writer's ticker period is keepAlivePeriod/2 = 60 s: one tick per sleep (up to 59 sleeps)

// runWriter drives the real PeerWriter (Run loop + messageWriter goroutine) over a capturing conn.
// Must be called inside a synctest bubble: the keep-alive ticker runs on the bubble's clock and
// synctest.Wait is the "writer is idle" detector.
func runWriter(log logger.Logger, c *wcase) wres {
	conn := newCapConn()
	w := peerwriter.New(conn, log, 1<<30, true, nil)
	res := wres{c: c}
	stop := make(chan struct{})
	collDone := make(chan struct{})
	go func() {
		defer close(collDone)
		for {
			select {
			case m := <-w.Messages():
				if bu, ok := m.(peerwriter.BlockUploaded); ok {
					res.uploaded = append(res.uploaded, bu.Length)
				} else {
					res.other++
				}
			case <-stop:
				return
			}
		}
	}()
	go w.Run()
	for _, op := range c.ops {
		switch op.K {
		case kKeepAlive:
			time.Sleep(keepAliveSleep)
		case kPiece:
			w.SendPiece(rq(op), vpiece{op.A})
		default:
			w.SendMessage(toRain(op))
		}
		synctest.Wait()
	}
	w.Stop()
	<-w.Done()
	<-conn.closedC
	close(stop)
	<-collDone
	res.wire = conn.buf
	res.writes = conn.writes
	return res
}

// ---------------------------------------------------------------------------------------------
// oracles

type checker struct {
	col        *collector
	ids        extIDs
	log        logger.Logger
	maxMsgSize int

	nWriterCases, nFrames, nReaderRuns, nReaderMsgs int64
	nCut1, nCut2, nBytewise, nWhole, nStall           int64
	nPieceFrames, nPieceBytes, nUploadEvents          int64
	nKeepAlives, nPolicy, nForeign, nOutgrow          int64
	nDupReject                                        int64
	nPairCases, nPairMsgs, nPairUploads               int64
	nAllPos                                           int64
	kinds                                             [numKinds]int64
}

// checkWire: oracle 1 (bytes on the wire == reference encoding) and oracle 3 (upload counter).
// Returns false when the bytes are not the reference bytes.
func (ck *checker) checkWire(res wres) bool {
	c := res.c
	exp := expectFrames(c.ops)
	var want []byte
	var frames [][]byte
	for _, m := range exp {
		f := refFrame(m, ck.ids).Encode()
		frames = append(frames, f)
		want = append(want, f...)
	}
	atomic.AddInt64(&ck.nWriterCases, 1)
	atomic.AddInt64(&ck.nFrames, int64(len(exp)))
	ok := true
	if !bytes.Equal(res.wire, want) {
		ok = false
		// classify: walk the frames
		cause, grp, detail := "missing", exp[len(exp)-1].K.group(), ""
		off := 0
		for i, f := range frames {
			got := res.wire[min(off, len(res.wire)):min(off+len(f), len(res.wire))]
			if bytes.Equal(got, f) {
				off += len(f)
				continue
			}
			grp = exp[i].K.group()
			switch {
			case len(got) == 0:
				cause = "missing"
			case len(got) >= 4 && len(f) >= 4 && !bytes.Equal(got[:4], f[:4]):
				cause = "len"
			case len(got) >= 5 && len(f) >= 5 && got[4] != f[4]:
				cause = "id"
			case len(got) < len(f):
				cause = "short"
			default:
				cause = "body"
			}
			detail = fmt.Sprintf("frame %d (%s): wire has %s, BEP reference is %s", i, exp[i], hexHead(got), hexHead(f))
			break
		}
		if detail == "" {
			cause = "extra"
			detail = fmt.Sprintf("%d unexpected bytes after the last frame: %s", len(res.wire)-len(want), hexHead(res.wire[len(want):]))
		}
		ck.col.add("C11.wire."+cause+"."+grp, c.idx,
			fmt.Sprintf("ops %s through the real PeerWriter: %s (stream %d bytes, reference %d bytes)", c.desc(), detail, len(res.wire), len(want)), c.replay())
	}
	// oracle 3: upload counter vs the piece payload the reference decoder sees on the wire
	msgs, rest := refcodec.ParseStream(res.wire)
	var payload, pieces int64
	for _, m := range msgs {
		if m.ID == refcodec.MsgPiece {
			payload += int64(len(m.Block()))
			pieces++
		}
		if m.ID == refcodec.MsgKeepAlive {
			atomic.AddInt64(&ck.nKeepAlives, 1)
		}
	}
	var sum int64
	for _, u := range res.uploaded {
		sum += int64(u)
	}
	atomic.AddInt64(&ck.nPieceFrames, pieces)
	atomic.AddInt64(&ck.nPieceBytes, payload)
	atomic.AddInt64(&ck.nUploadEvents, int64(len(res.uploaded)))
	if sum != payload {
		cls := "over"
		if sum < payload {
			cls = "under"
		}
		ck.col.add("C11.uploaded.sum."+cls, c.idx,
			fmt.Sprintf("ops %s: BlockUploaded events %v sum to %d, the reference decoder saw %d piece payload bytes in %d piece frames on the wire", c.desc(), res.uploaded, sum, payload, pieces), c.replay())
	}
	if res.other != 0 {
		ck.col.add("C11.uploaded.event", c.idx, fmt.Sprintf("ops %s: writer emitted %d events that are not BlockUploaded", c.desc(), res.other), c.replay())
	}
	if ok && len(rest) != 0 {
		core.HarnessError("reference stream does not parse completely: %s", c.desc())
	}
	return ok
}

func hexHead(b []byte) string {
	if len(b) <= 24 {
		return fmt.Sprintf("%x (%d bytes)", b, len(b))
	}
	return fmt.Sprintf("%x... (%d bytes)", b[:24], len(b))
}

func (c *wcase) replay() any {
	var ops []string
	for _, o := range c.ops {
		ops = append(ops, o.String())
	}
	return map[string]any{"part": c.part, "ops": ops}
}

// runReader feeds data to the real PeerReader under one fragmentation and returns what it delivered.
func (ck *checker) runReader(data []byte, f frag, buf []any) (got []any, panicked string) {
	conn := f.conn(data)
	r := peerreader.New(conn, ck.log, 30*time.Second, ck.maxMsgSize, nil)
	done := make(chan string, 1)
	go func() {
		defer func() {
			if e := recover(); e != nil {
				st := make([]byte, 4096)
				n := runtime.Stack(st, false)
				done <- fmt.Sprintf("%v @ %s", e, topFrames(string(st[:n])))
				return
			}
			done <- ""
		}()
		r.Run()
	}()
	got = buf[:0]
	for {
		select {
		case m := <-r.Messages():
			got = append(got, m)
		case p := <-done:
			// Run has returned: no send can be pending
			return got, p
		}
	}
}

func topFrames(st string) string {
	var out []string
	for _, ln := range strings.Split(st, "\n") {
		if strings.Contains(ln, "/repo/") && !strings.Contains(ln, "zzverif") {
			out = append(out, strings.TrimSpace(ln))
			if len(out) >= 2 {
				break
			}
		}
	}
	return strings.Join(out, " <- ")
}

func release(got []any) {
	for _, g := range got {
		if p, ok := g.(peerreader.Piece); ok {
			p.Buffer.Release()
		}
	}
}

// checkReader: oracle 2. data = the bytes the real writer produced.
func (ck *checker) checkReader(res wres) {
	c := res.c
	exp := expectFrames(c.ops)
	// what the reader owes: two acceptable delivery lists when a policy message is present
	var must, mustAlt []msg // alt = reader closes at the first policy message
	policy, foreign := false, false
	for _, m := range exp {
		switch m.delivery(ck.ids) {
		case dDeliver:
			must = append(must, m)
			if !policy {
				mustAlt = append(mustAlt, m)
			}
		case dPolicy:
			must = append(must, m)
			policy = true
		case dForeign:
			foreign = true
		}
	}
	if foreign {
		atomic.AddInt64(&ck.nForeign, 1)
		return
	}
	if policy {
		atomic.AddInt64(&ck.nPolicy, 1)
	}
	var frames [][]byte
	{
		// frame boundaries as the reference decoder sees them in the writer's bytes (falls back to the
		// reference frames when the writer's bytes do not parse)
		msgs, rest := refcodec.ParseStream(res.wire)
		if len(rest) == 0 && len(msgs) == len(exp) {
			for _, m := range msgs {
				frames = append(frames, m.Encode())
			}
		} else {
			frames = [][]byte{res.wire}
		}
	}
	data := res.wire
	var buf [8]any
	failed := false
	try := func(f frag) {
		if failed {
			return
		}
		got, pan := ck.runReader(data, f, buf[:])
		atomic.AddInt64(&ck.nReaderRuns, 1)
		atomic.AddInt64(&ck.nReaderMsgs, int64(len(got)))
		defer release(got)
		grpOf := func(i int) string {
			if i < len(must) {
				return must[i].K.group()
			}
			if len(must) > 0 {
				return must[len(must)-1].K.group()
			}
			return exp[len(exp)-1].K.group()
		}
		if pan != "" {
			failed = true
			ck.col.add("C11.reader.panic."+pan, c.idx, fmt.Sprintf("ops %s, %s: reader panicked: %s", c.desc(), f, pan), c.replay())
			return
		}
		want := must
		if policy && len(got) == len(mustAlt) {
			want = mustAlt
		}
		for i := 0; i < len(got) && i < len(want); i++ {
			if cause, detail := matches(want[i], got[i], ck.ids); cause != "" {
				failed = true
				ck.col.add("C11.reader."+cause+"."+want[i].K.group()+"."+f.class(), c.idx,
					fmt.Sprintf("ops %s written by the real writer (%d bytes), fed to the real reader with %s: message %d: %s", c.desc(), len(data), f, i, detail), c.replay())
				return
			}
		}
		if len(got) != len(want) {
			failed = true
			cause := "lost"
			if len(got) > len(want) {
				cause = "spurious"
			}
			ck.col.add("C11.reader."+cause+"."+grpOf(len(got))+"."+f.class(), c.idx,
				fmt.Sprintf("ops %s written by the real writer (%d bytes), fed to the real reader with %s: reader delivered %d messages, %d were sent", c.desc(), len(data), f, len(got), len(want)), c.replay())
		}
	}
	try(frag{})
	atomic.AddInt64(&ck.nWhole, 1)
	if len(data) > 1 {
		try(frag{single: true})
		atomic.AddInt64(&ck.nBytewise, 1)
	}
	cuts := cutLattice(frames, c.full, c.r, c.strd)
	for _, p := range cuts {
		try(frag{p: p})
	}
	atomic.AddInt64(&ck.nCut1, int64(len(cuts)))
	if c.cut2 {
		cuts2 := cuts
		if c.cut2r != c.r {
			cuts2 = cutLattice(frames, c.full, c.cut2r, 0)
		}
		for i, p := range cuts2 {
			for _, q := range cuts2[i+1:] {
				try(frag{p: p, q: q})
			}
		}
		atomic.AddInt64(&ck.nCut2, int64(len(cuts2)*(len(cuts2)-1)/2))
	}
	// slow peer: the read deadline expires while a block is half received, once or twice. The reader keeps
	// receiving as long as some bytes arrived in the window, so cuts are placed where that is certain:
	// inside the payload of a piece message, more than 17 bytes (its bufio buffer) after the 13-byte header.
	s := 0
	for _, fr := range frames {
		if len(fr) > 13+40 && fr[4] == 7 {
			lo, hi := s+13+18, s+len(fr)-1
			pts := []int{lo, lo + 1, (lo + hi) / 2, hi - 1, hi}
			for i, p := range pts {
				try(frag{p: p, stall: true})
				atomic.AddInt64(&ck.nStall, 1)
				for _, q := range pts[i+1:] {
					if q > p {
						try(frag{p: p, q: q, stall: true})
						atomic.AddInt64(&ck.nStall, 1)
					}
				}
			}
		}
		s += len(fr)
	}
}

// ---------------------------------------------------------------------------------------------
// learnExtIDs: the extended ids the client advertises are read from a real extension handshake with the
// reference decoder; the metadata/pex lattice points destined for the reader use exactly those ids
// (the ids a remote peer would use when talking to this client).
func learnExtIDs(t *testing.T, log logger.Logger) (ids extIDs) {
	var res wres
	synctest.Test(t, func(t *testing.T) {
		res = runWriter(log, &wcase{ops: []msg{{K: kExtHandshake, HS: &hsSpec{1, "x", "", 1}}}})
	})
	a, b := int64(-1), int64(-1)
	msgs, rest := refcodec.ParseStream(res.wire)
	if len(msgs) == 1 && len(rest) == 0 && msgs[0].ID == refcodec.MsgExtended && msgs[0].ExtID() == 0 {
		if d, trailing, err := refcodec.DecodeExtPayload(msgs[0].ExtPayload()); err == nil && len(trailing) == 0 {
			if mv, ok := d.Get("m"); ok {
				if md, ok := mv.(*refcodec.Dict); ok {
					a, _ = md.Int("ut_metadata")
					b, _ = md.Int("ut_pex")
				}
			}
		}
	}
	if a < 0 {
		// the frame is not a well-formed extension handshake (that is reported by the wire oracle on the
		// lattice itself); still find the two advertised numbers so that the run can go on
		scan := func(key string) int64 {
			i := bytes.Index(res.wire, []byte(key))
			if i < 0 {
				return -1
			}
			var n int64 = -1
			for _, ch := range res.wire[i+len(key):] {
				if ch < '0' || ch > '9' {
					break
				}
				if n < 0 {
					n = 0
				}
				n = n*10 + int64(ch-'0')
			}
			return n
		}
		a, b = scan("11:ut_metadatai"), scan("6:ut_pexi")
	}
	if a <= 0 || a > 255 || b <= 0 || b > 255 || a == b {
		core.HarnessError("cannot learn the advertised extension ids (ut_metadata=%d ut_pex=%d) from %x", a, b, res.wire)
	}
	return extIDs{meta: uint8(a), pex: uint8(b)}
}

// ---------------------------------------------------------------------------------------------

func TestC11(t *testing.T) {
	debug.SetGCPercent(400) // short-lived 16 KiB buffers per reader run; the live heap is small
	logger.Disable()
	log := logger.New("c11")
	rep := core.NewReport("C11", "wire", "exploration")
	thorough := core.Thorough()
	rep.Rule = "every point of the message lattice (all 20 message kinds incl. keep-alive; u32 fields over the boundary set; bitfield/metadata/PEX/piece sizes incl. the sizes " +
		"around the writer's 16397-byte array) is sent through the real PeerWriter (Run loop, messageWriter goroutine, virtual clock) and the captured bytes are compared with the " +
		"refcodec (BEP 3/6/9/10/11) encoding; the captured bytes are fed to the real PeerReader whole, one byte per Read, under every 1-cut and every 2-cut of the cut lattice " +
		"(all positions for streams <= full bytes, else all positions within r of a structural point plus a stride grid), and - slow peer - with the read deadline expiring once or twice inside the payload of every piece message (cuts at payload start+18, +19, middle, end-1, end); sequences = every ordered tuple of representatives up to the stated depth, " +
		"plus big-frame/small-frame reuse sequences; handshake = every reserved-bit pattern x every 1-cut and 2-cut of the 68 bytes through readHandshake1/2 and btconn.Accept. " +
		"upload counter under a failing transport: one piece frame of payload {1, 2, 1000, 16384} bytes, the conn accepting every prefix length around the 13-byte header and at the ends, then failing with net.OpError / a plain error. " +
		"distinct = distinct (kind, frame length) classes that passed through the writer."
	rep.Assumptions = []string{
		"piece blocks are at most 16384 bytes (the client refuses larger requests before they reach the writer; a larger one would overrun the writer's array)",
		"the writer's queue policy is taken as documented: each operation is written before the next one is queued (so choke never cancels a queued piece), a repeated piece request is answered with reject",
		"which zero-valued optional keys an extension dictionary omits is the client's choice (presence rule in refcodec/peerext.go); key names, order, value syntax and framing are prescribed",
		"request messages longer than 16 KiB and extended messages carrying a remote peer's ids are written and compared on the wire, but the reader is not required to deliver them",
		"apart from the failing-write part (upload counter) the transport never fails and never blocks (deadlines and rate-limit buckets are not part of C11)",
		"a panic inside the writer's own goroutines would abort the run (exit 2) instead of being reported per case",
	}
	col := &collector{m: map[string]*vrec{}}
	ids := learnExtIDs(t, log)
	rep.Extra["advertised_ext_ids"] = fmt.Sprintf("ut_metadata=%d ut_pex=%d", ids.meta, ids.pex)
	ck := &checker{col: col, ids: ids, log: log, maxMsgSize: 30 << 20}
	nFault := checkWriteFaults(t, ck, log, thorough)

	// ---- build the case list (simplest first)
	var cases []*wcase
	add := func(part string, ops []msg, full, r, strd int, cut2 bool, cut2r int) {
		cases = append(cases, &wcase{idx: int64(len(cases)), part: part, ops: ops, full: full, r: r, strd: strd, cut2: cut2, cut2r: cut2r})
	}
	full, r, strd, cut2r := 96, 18, 0, 18
	if thorough {
		full, r, strd, cut2r = 160, 40, 1024, 32
	}
	sg := singles(thorough, ids)
	for _, m := range sg {
		add("single", []msg{m}, full, r, strd, true, cut2r)
	}
	for _, m := range bigs(ids) { // every one of the ~16k cut positions once for each big frame kind (1-cuts only)
		add("single", []msg{m}, 1<<20, 0, 0, false, 0)
	}
	nSingles := len(cases)
	level, depth := 1, 3
	if thorough {
		level = 2
	}
	rp := reps(level, ids)
	var seqs int
	// depth-first would not be simplest-first: enumerate by length
	for d := 2; d <= depth; d++ {
		var byLen func(prefix []msg)
		byLen = func(prefix []msg) {
			if len(prefix) == d {
				add("seq", append([]msg{}, prefix...), 1<<20, 0, 0, true, 0)
				seqs++
				return
			}
			for _, m := range rp {
				byLen(append(prefix, m))
			}
		}
		byLen(nil)
	}
	if thorough { // longer sequences over the quick representatives
		rp4 := reps(0, ids)
		var byLen func(prefix []msg)
		byLen = func(prefix []msg) {
			if len(prefix) == 4 {
				add("seq", append([]msg{}, prefix...), 1<<20, 0, 0, true, 0)
				seqs++
				return
			}
			for _, m := range rp4 {
				byLen(append(prefix, m))
			}
		}
		byLen(nil)
	}
	// buffer reuse: big then small, small then big, big small big, big big
	small := reps(0, ids)
	bg := bigs(ids)
	var reuse int
	for _, b := range bg {
		for _, s := range small {
			add("reuse", []msg{b, s}, full, r, 0, true, 12)
			add("reuse", []msg{s, b}, full, r, 0, true, 12)
			add("reuse", []msg{b, s, b}, full, r, 0, thorough, 12)
			reuse += 3
		}
		for _, b2 := range bg {
			add("reuse", []msg{b, b2}, full, r, 0, true, 12)
			reuse++
		}
	}

	// the peerconn.Conn seam: every single representative, every ordered pair, every big frame (+ big,small,big)
	var pairCases []*wcase
	{
		all := reps(2, ids)
		addP := func(ops ...msg) {
			pairCases = append(pairCases, &wcase{idx: int64(len(cases) + len(pairCases)), part: "connpair", ops: append([]msg{}, ops...)})
		}
		for _, m := range all {
			addP(m)
		}
		for _, m := range all {
			for _, m2 := range all {
				addP(m, m2)
			}
		}
		for _, bm := range bg {
			addP(bm)
			addP(bm, small[2], bm)
		}
	}

	// ---- run: writer phase inside synctest bubbles (virtual clock), reader phase on plain goroutines
	caseC := make(chan *wcase, 256)
	resC := make(chan wres, 64)
	nb := 4
	if core.Parallelism() < 8 {
		nb = 2
	}
	var bwg sync.WaitGroup
	for b := 0; b < nb; b++ {
		bwg.Add(1)
		go func() {
			defer bwg.Done()
			synctest.Test(t, func(t *testing.T) {
				for c := range caseC {
					for i := range c.ops {
						c.ops[i] = c.ops[i].materialize()
					}
					if c.part == "connpair" {
						ck.checkConnPair(c, runConnPair(log, c, ck.maxMsgSize))
						continue
					}
					resC <- runWriter(log, c)
				}
			})
		}()
	}
	var rwg sync.WaitGroup
	distinct := map[string]struct{}{}
	var dmu sync.Mutex
	for w := 0; w < core.Parallelism(); w++ {
		rwg.Add(1)
		go func() {
			defer rwg.Done()
			for res := range resC {
				okWire := ck.checkWire(res)
				_ = okWire
				ck.checkReader(res)
				dmu.Lock()
				for _, o := range res.c.ops {
					ck.kinds[o.K]++
				}
				if len(res.c.ops) == 1 {
					distinct[fmt.Sprintf("%s/%d", kindName[res.c.ops[0].K], len(res.wire))] = struct{}{}
					if len(res.wire) > writerArray {
						ck.nOutgrow++
					}
				}
				for i, o := range res.c.ops {
					if o.K == kPiece {
						for _, o2 := range res.c.ops[:i] {
							if o2.K == kPiece && o2.A == o.A && o2.B == o.B && o2.C == o.C {
								ck.nDupReject++
								break
							}
						}
					}
				}
				dmu.Unlock()
				// drop bulky data
				for i := range res.c.ops {
					if res.c.part == "single" {
						res.c.ops[i].Data = nil
					}
				}
			}
		}()
	}
	if os.Getenv("VERIF_C11_DEBUG") != "" {
		t0 := time.Now()
		go func() {
			for {
				time.Sleep(2 * time.Second)
				fmt.Fprintf(os.Stderr, "t=%.0fs writer_cases=%d reader_runs=%d\n", time.Since(t0).Seconds(), atomic.LoadInt64(&ck.nWriterCases), atomic.LoadInt64(&ck.nReaderRuns))
			}
		}()
	}
	for i, c := range cases {
		if i%(len(cases)/12+1) == 0 {
			rep.Sample(14, c.part+": "+c.desc())
		}
	}
	// dispatch the expensive cases first (scheduling only; violations are ordered by case index)
	for _, part := range []string{"reuse", "single", "seq"} {
		for _, c := range cases {
			if c.part == part {
				caseC <- c
			}
		}
	}
	for _, c := range pairCases {
		caseC <- c
	}
	close(caseC)
	bwg.Wait()
	close(resC)
	rwg.Wait()

	// ---- handshake
	hs := checkHandshakes(ck, thorough, int64(len(cases)+len(pairCases)))

	col.flush(rep)
	rep.Evaluations = ck.nReaderRuns + ck.nWriterCases + ck.nPairCases + hs.evals
	rep.Extra["connpair_cases"] = ck.nPairCases
	rep.Extra["connpair_messages_delivered"] = ck.nPairMsgs
	rep.Extra["connpair_block_uploaded_events"] = ck.nPairUploads
	rep.Distinct = int64(len(distinct))
	rep.Extra["writer_cases"] = ck.nWriterCases
	rep.Extra["writer_cases_single"] = int64(nSingles)
	rep.Extra["writer_cases_sequences"] = int64(seqs)
	rep.Extra["writer_cases_buffer_reuse"] = int64(reuse)
	rep.Extra["frames_written"] = ck.nFrames
	rep.Extra["reader_runs"] = ck.nReaderRuns
	rep.Extra["reader_runs_whole"] = ck.nWhole
	rep.Extra["reader_runs_bytewise"] = ck.nBytewise
	rep.Extra["reader_runs_cut1"] = ck.nCut1
	rep.Extra["reader_runs_cut2"] = ck.nCut2
	rep.Extra["reader_runs_stalled_block"] = ck.nStall
	rep.Extra["writer_runs_with_failing_transport"] = nFault
	rep.Extra["reader_messages_delivered"] = ck.nReaderMsgs
	rep.Extra["piece_frames_on_wire"] = ck.nPieceFrames
	rep.Extra["piece_payload_bytes_on_wire"] = ck.nPieceBytes
	rep.Extra["block_uploaded_events"] = ck.nUploadEvents
	rep.Extra["keepalives_on_wire"] = ck.nKeepAlives
	rep.Extra["duplicate_piece_rejects"] = ck.nDupReject
	rep.Extra["cases_with_policy_request_over_16k"] = ck.nPolicy
	rep.Extra["cases_writer_only_foreign_ext_id"] = ck.nForeign
	rep.Extra["single_frames_larger_than_writer_array"] = ck.nOutgrow
	rep.Extra["handshake_patterns"] = hs.patterns
	rep.Extra["handshake_read_runs"] = hs.readRuns
	rep.Extra["handshake_accept_runs"] = hs.acceptRuns
	rep.Extra["handshake_dial_loopback_runs"] = hs.dialRuns
	rep.Extra["cut_lattice"] = fmt.Sprintf("full<=%d r=%d stride=%d cut2r=%d; sequences: every position", full, r, strd, cut2r)
	rep.Extra["sequence_representatives"] = int64(len(rp))
	km := map[string]int64{}
	for k := kind(0); k < numKinds; k++ {
		km[kindName[k]] = ck.kinds[k]
		if ck.kinds[k] == 0 {
			rep.Vacuous("vacuous: message kind %s never exercised", kindName[k])
		}
	}
	rep.Extra["ops_per_kind"] = km
	if ck.nKeepAlives == 0 || ck.nUploadEvents == 0 || ck.nOutgrow == 0 || ck.nCut2 == 0 || ck.nDupReject == 0 || hs.acceptRuns == 0 || ck.nPairMsgs == 0 || ck.nPairUploads == 0 {
		rep.Vacuous("vacuous run: keepalives=%d uploads=%d outgrow=%d cut2=%d dup=%d accept=%d", ck.nKeepAlives, ck.nUploadEvents, ck.nOutgrow, ck.nCut2, ck.nDupReject, hs.acceptRuns)
	}
	rep.Finish()
}

// ---------------------------------------------------------------------------------------------
// handshake (oracle 4)

type hsStats struct{ patterns, readRuns, acceptRuns, dialRuns, evals int64 }

func checkHandshakes(ck *checker, thorough bool, baseIdx int64) hsStats {
	var st hsStats
	// reserved-bit patterns: the 8 combinations the client can announce (extension protocol, fast, DHT), none,
	// all ones, and every single bit (a remote peer may set any of them)
	var pats [][8]byte
	for i := 0; i < 8; i++ {
		pats = append(pats, refcodec.ReservedBits(i&1 != 0, i&2 != 0, i&4 != 0))
	}
	pats = append(pats, [8]byte{0xff, 0xff, 0xff, 0xff, 0xff, 0xff, 0xff, 0xff})
	for bit := 0; bit < 64; bit++ {
		var r [8]byte
		r[bit/8] = 0x80 >> (bit % 8)
		pats = append(pats, r)
	}
	type idpair struct{ ih, id [20]byte }
	var pairs []idpair
	{
		var p idpair
		for i := range p.ih {
			p.ih[i] = byte(i + 1)
			p.id[i] = byte(0xf0 - i)
		}
		pairs = append(pairs, p)
		var z idpair // all zero hash, all 0xff id
		for i := range z.id {
			z.id[i] = 0xff
		}
		pairs = append(pairs, z)
		var q idpair // bytes that look like the protocol string
		copy(q.ih[:], "\x13BitTorrent protocol")
		copy(q.id[:], "-RN2.2.1-\x13BitTorrent")
		pairs = append(pairs, q)
	}
	var ourID [20]byte
	copy(ourID[:], "-RN0.0.0-verifverif0")
	ourExt := refcodec.ReservedBits(true, true, true)
	var mu sync.Mutex
	var wg sync.WaitGroup
	type job struct {
		idx int64
		r   [8]byte
		p   idpair
	}
	jobs := make(chan job, 64)
	for w := 0; w < core.Parallelism(); w++ {
		wg.Add(1)
		go func() {
			defer wg.Done()
			for j := range jobs {
				var nRead, nAcc int64
				want := refcodec.Handshake(j.p.ih, j.p.id, j.r)
				desc := fmt.Sprintf("handshake reserved=%x infohash=%x peerid=%x", j.r, j.p.ih, j.p.id)
				// 4a: bytes written
				var out bytes.Buffer
				err := btconn.VerifWriteHandshake(&out, j.p.ih, j.p.id, j.r)
				if err != nil || !bytes.Equal(out.Bytes(), want) {
					ck.col.add("C11.handshake.bytes", j.idx, fmt.Sprintf("%s: writeHandshake wrote %x (err=%v), BEP 3 reference is %x", desc, out.Bytes(), err, want), desc)
				}
				if h, ok := refcodec.ParseHandshake(out.Bytes()); !ok || h.Reserved != j.r || h.InfoHash != j.p.ih || h.PeerID != j.p.id || out.Len() != 68 {
					ck.col.add("C11.handshake.bytes", j.idx, fmt.Sprintf("%s: the reference parser does not get the fields back from %x", desc, out.Bytes()), desc)
				}
				// 4b/4c under every fragmentation of the bytes the real writer produced
				data := out.Bytes()
				failedR, failedA := false, false
				try := func(f frag) {
					if !failedR {
						c := f.conn(data)
						ext, ih, err := btconn.VerifReadHandshake1(c)
						var id [20]byte
						if err == nil {
							id, err = btconn.VerifReadHandshake2(c)
						}
						nRead++
						if err != nil || ext != j.r || ih != j.p.ih || id != j.p.id {
							failedR = true
							ck.col.add("C11.handshake.read."+f.class(), j.idx, fmt.Sprintf("%s, %s: readHandshake1/2 returned reserved=%x infohash=%x peerid=%x err=%v", desc, f, ext, ih, id, err), desc)
						}
					}
					if !failedA {
						c := f.conn(data)
						asked := 0
						_, _, pext, pid, ih, err := btconn.Accept(c, 30*time.Second, nil, false,
							func(h [20]byte) bool { asked++; return h == j.p.ih }, ourExt, ourID)
						nAcc++
						wantOut := refcodec.Handshake(j.p.ih, ourID, ourExt)
						switch {
						case err != nil || pext != j.r || pid != j.p.id || ih != j.p.ih || asked != 1:
							failedA = true
							ck.col.add("C11.handshake.accept.read."+f.class(), j.idx, fmt.Sprintf("%s, %s: btconn.Accept returned reserved=%x infohash=%x peerid=%x err=%v (info-hash callback called %d times)", desc, f, pext, ih, pid, err, asked), desc)
						case !bytes.Equal(c.out, wantOut):
							failedA = true
							ck.col.add("C11.handshake.accept.bytes", j.idx, fmt.Sprintf("%s: btconn.Accept answered %x, BEP 3 reference is %x", desc, c.out, wantOut), desc)
						}
					}
				}
				try(frag{})
				try(frag{single: true})
				for p := 1; p < len(data); p++ {
					try(frag{p: p})
				}
				for p := 1; p < len(data); p++ {
					for q := p + 1; q < len(data); q++ {
						try(frag{p: p, q: q})
					}
				}
				mu.Lock()
				st.readRuns += nRead
				st.acceptRuns += nAcc
				mu.Unlock()
			}
		}()
	}
	idx := baseIdx
	for pi, p := range pairs {
		for _, r := range pats {
			if pi > 0 && !thorough && r != pats[7] && r != pats[0] && r != pats[8] {
				continue // quick: the other id pairs only with none / all three / all ones
			}
			jobs <- job{idx, r, p}
			idx++
			st.patterns++
		}
	}
	close(jobs)
	wg.Wait()
	// 4d: Dial writes the same 68 bytes and reads the answer (loopback TCP, no fragmentation control, no encryption)
	st.dialRuns = dialLoopback(ck, pats[:9], pairs[0].ih, ourID, idx)
	st.evals = st.patterns + st.readRuns + st.acceptRuns + st.dialRuns
	return st
}

func dialLoopback(ck *checker, pats [][8]byte, ih, ourID [20]byte, idx int64) (runs int64) {
	ln, err := net.Listen("tcp4", "127.0.0.1:0")
	if err != nil {
		return 0
	}
	defer ln.Close()
	var peerID [20]byte
	copy(peerID[:], "-XX0000-remotepeer00")
	for _, r := range pats {
		type srv struct {
			got []byte
			err error
		}
		sc := make(chan srv, 1)
		peerExt := r
		go func() {
			c, err := ln.Accept()
			if err != nil {
				sc <- srv{nil, err}
				return
			}
			defer c.Close()
			b := make([]byte, 68)
			_, err = io.ReadFull(c, b)
			if err == nil {
				_, err = c.Write(refcodec.Handshake(ih, peerID, peerExt))
			}
			sc <- srv{b, err}
		}()
		stop := make(chan struct{})
		conn, _, pext, pid, err := btconn.Dial(ln.Addr(), 5*time.Minute, 5*time.Minute, false, false, r, ih, ourID, stop)
		cleanup := func() {
			if conn != nil {
				conn.Close()
			}
			close(stop)
		}
		desc := fmt.Sprintf("btconn.Dial reserved=%x", r)
		var hsErr *btconn.HandshakeError
		if err != nil && !errors.As(err, &hsErr) {
			// socket-level trouble (refused, timeout under load, reset): environment, not a finding, not counted.
			// The serving goroutine may still sit in Accept: wake it up.
			ln.(*net.TCPListener).SetDeadline(time.Now())
			<-sc
			ln.(*net.TCPListener).SetDeadline(time.Time{})
			cleanup()
			continue
		}
		s := <-sc
		if s.err != nil && err == nil {
			cleanup()
			continue // the serving side had socket trouble
		}
		runs++
		if want := refcodec.Handshake(ih, ourID, r); s.err == nil && !bytes.Equal(s.got, want) {
			ck.col.add("C11.handshake.dial.bytes", idx, fmt.Sprintf("%s: first 68 bytes on the socket %x, BEP 3 reference %x", desc, s.got, want), desc)
		}
		if err != nil || pext != peerExt || pid != peerID {
			ck.col.add("C11.handshake.dial.read", idx, fmt.Sprintf("%s: Dial returned reserved=%x peerid=%x err=%v, the peer sent reserved=%x peerid=%x", desc, pext, pid, err, peerExt, peerID), desc)
		}
		cleanup()
	}
	return runs
}

var _ = binary.BigEndian
var _ = peerprotocol.Choke

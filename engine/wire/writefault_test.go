//go:build verif

package wire

import (
	"fmt"
	"net"
	"sync"
	"testing"
	"testing/synctest"
	"time"

	"github.com/cenkalti/rain/v2/internal/logger"
	"github.com/cenkalti/rain/v2/internal/peerconn/peerwriter"
	"github.com/cenkalti/rain/v2/internal/peerprotocol"
)

// Upload counter under a failing transport: the conn accepts the first k bytes of the stream and then
// reports an error (peer reset / closed). Whatever k is, the BlockUploaded events must sum to the piece
// payload bytes that were really accepted: for one piece frame of header 13 and payload L, max(0, k-13)
// (never more than L, never a wrapped-around value).

type faultConn struct {
	mu       sync.Mutex
	accept   int // bytes of the stream accepted before the failure
	got      int
	opErr    bool
	closedC  chan struct{}
	once     sync.Once
	failedAt int
}

func (c *faultConn) Write(p []byte) (int, error) {
	c.mu.Lock()
	defer c.mu.Unlock()
	room := c.accept - c.got
	if room >= len(p) {
		c.got += len(p)
		return len(p), nil
	}
	if room < 0 {
		room = 0
	}
	c.got += room
	c.failedAt = c.got
	if c.opErr {
		return room, &net.OpError{Op: "write", Net: "tcp", Err: fmt.Errorf("connection reset by peer")}
	}
	return room, fmt.Errorf("broken pipe")
}
func (c *faultConn) Read(p []byte) (int, error)         { <-c.closedC; return 0, net.ErrClosed }
func (c *faultConn) Close() error                       { c.once.Do(func() { close(c.closedC) }); return nil }
func (c *faultConn) LocalAddr() net.Addr                { return fakeAddr }
func (c *faultConn) RemoteAddr() net.Addr               { return fakeAddr }
func (c *faultConn) SetDeadline(t time.Time) error      { return nil }
func (c *faultConn) SetReadDeadline(t time.Time) error  { return nil }
func (c *faultConn) SetWriteDeadline(t time.Time) error { return nil }

// checkWriteFaults returns the number of (payload length, accepted bytes, error kind) cases executed.
func checkWriteFaults(t *testing.T, ck *checker, log logger.Logger, thorough bool) int64 {
	var n int64
	lens := []uint32{1, 2, 1000, 16384}
	for _, L := range lens {
		total := 13 + int(L)
		ks := map[int]bool{}
		for k := 0; k <= 16 && k <= total; k++ {
			ks[k] = true
		}
		for _, k := range []int{total / 2, total - 2, total - 1, total} {
			if k >= 0 {
				ks[k] = true
			}
		}
		if thorough && L <= 1000 {
			for k := 0; k <= total; k++ {
				ks[k] = true
			}
		}
		for k := range ks {
			for _, opErr := range []bool{true, false} {
				k, L, opErr := k, L, opErr
				n++
				synctest.Test(t, func(t *testing.T) {
					conn := &faultConn{accept: k, opErr: opErr, closedC: make(chan struct{})}
					w := peerwriter.New(conn, log, 1<<30, true, nil)
					var events []uint32
					stop := make(chan struct{})
					done := make(chan struct{})
					go func() {
						defer close(done)
						for {
							select {
							case m := <-w.Messages():
								if bu, ok := m.(peerwriter.BlockUploaded); ok {
									events = append(events, bu.Length)
								}
							case <-stop:
								return
							}
						}
					}()
					go w.Run()
					w.SendPiece(peerprotocol.RequestMessage{Index: 1, Begin: 0, Length: L}, vpiece{1})
					synctest.Wait()
					w.Stop()
					<-w.Done()
					synctest.Wait()
					close(stop)
					<-done
					var sum uint64
					for _, e := range events {
						sum += uint64(e)
					}
					want := uint64(0)
					if k > 13 {
						want = uint64(min(k, total) - 13)
					}
					if sum != want {
						kind := "error"
						if opErr {
							kind = "net.OpError"
						}
						ck.col.add("C11.uploaded.write-fault", int64(1<<40)+int64(L)<<8+int64(k), fmt.Sprintf("piece frame with %d payload bytes, the transport accepted %d bytes of it and failed with %s: BlockUploaded events %v sum to %d, %d payload bytes were accepted", L, k, kind, events, sum, want), map[string]any{"payload": L, "accepted": k, "opError": opErr})
					}
				})
			}
		}
	}
	return n
}

//go:build verif

package wire

import (
	"fmt"
	"net"
	"sync/atomic"
	"testing/synctest"
	"time"

	"github.com/cenkalti/rain/v2/internal/logger"
	"github.com/cenkalti/rain/v2/internal/peerconn"
	"github.com/cenkalti/rain/v2/internal/peerconn/peerwriter"
)

// The same oracles through the seam the torrent uses: two real peerconn.Conn endpoints (each with its
// reader and writer) joined by net.Pipe inside a synctest bubble. What the torrent of side A sees on
// Conn.Messages() are the BlockUploaded events; what the torrent of side B sees are the decoded messages.

type pairRes struct {
	delivered []any
	uploaded  []uint32
	otherA    int
}

func runConnPair(log logger.Logger, c *wcase, maxMsgSize int) pairRes {
	a, b := net.Pipe()
	A := peerconn.New(a, log, 30*time.Second, 1<<30, maxMsgSize, true, nil, nil)
	B := peerconn.New(b, log, 30*time.Second, 1<<30, maxMsgSize, true, nil, nil)
	var res pairRes
	doneA, doneB := make(chan struct{}), make(chan struct{})
	go func() {
		defer close(doneA)
		for m := range A.Messages() {
			if bu, ok := m.(peerwriter.BlockUploaded); ok {
				res.uploaded = append(res.uploaded, bu.Length)
			} else {
				res.otherA++
			}
		}
	}()
	go func() {
		defer close(doneB)
		for m := range B.Messages() {
			res.delivered = append(res.delivered, m)
		}
	}()
	go A.Run()
	go B.Run()
	for _, op := range c.ops {
		switch op.K {
		case kKeepAlive:
			time.Sleep(keepAliveSleep)
		case kPiece:
			A.SendPiece(rq(op), vpiece{op.A})
		default:
			A.SendMessage(toRain(op))
		}
		synctest.Wait()
	}
	A.Close()
	B.Close()
	<-doneA
	<-doneB
	return res
}

func (ck *checker) checkConnPair(c *wcase, res pairRes) {
	atomic.AddInt64(&ck.nPairCases, 1)
	defer release(res.delivered)
	var must []msg
	var payload int64
	for _, m := range expectFrames(c.ops) {
		if m.delivery(ck.ids) == dDeliver {
			must = append(must, m)
		}
		if m.K == kPiece {
			payload += int64(m.C)
		}
	}
	atomic.AddInt64(&ck.nPairMsgs, int64(len(res.delivered)))
	for i := 0; i < len(res.delivered) && i < len(must); i++ {
		if cause, detail := matches(must[i], res.delivered[i], ck.ids); cause != "" {
			ck.col.add("C11.conn."+cause+"."+must[i].K.group(), c.idx,
				fmt.Sprintf("ops %s from one peerconn.Conn to another over net.Pipe: message %d: %s", c.desc(), i, detail), c.replay())
			return
		}
	}
	if len(res.delivered) != len(must) {
		ck.col.add("C11.conn.count", c.idx, fmt.Sprintf("ops %s from one peerconn.Conn to another over net.Pipe: %d messages delivered, %d sent", c.desc(), len(res.delivered), len(must)), c.replay())
	}
	var sum int64
	for _, u := range res.uploaded {
		sum += int64(u)
	}
	atomic.AddInt64(&ck.nPairUploads, int64(len(res.uploaded)))
	if sum != payload || res.otherA != 0 {
		ck.col.add("C11.conn.uploaded", c.idx, fmt.Sprintf("ops %s: the sending Conn reported BlockUploaded %v (sum %d, %d other events), %d piece payload bytes were sent", c.desc(), res.uploaded, sum, res.otherA, payload), c.replay())
	}
}

//go:build verif

// Package ann15: C15 — announces carry the torrent's true identity (part "bytes") and follow the
// event discipline (part "discipline"). Component level: the real HTTPTracker / UDPTracker+Transport
// and the real PeriodicalAnnouncer / StopAnnouncer are driven; what the tracker side receives is
// decoded with the harness's own codecs (refcodec/httpannounce.go, refcodec/udptracker.go).
package ann15

import (
	"bufio"
	"context"
	"encoding/hex"
	"fmt"
	"net"
	"net/http"
	"net/url"
	"sort"
	"strings"
	"sync"
	"testing"
	"time"

	"github.com/cenkalti/rain/v2/internal/logger"
	"github.com/cenkalti/rain/v2/internal/tracker"
	"github.com/cenkalti/rain/v2/internal/tracker/httptracker"
	"github.com/cenkalti/rain/v2/internal/tracker/udptracker"
	"github.com/cenkalti/rain/v2/zzverif/core"
	"github.com/cenkalti/rain/v2/zzverif/refcodec"
)

// ---------------------------------------------------------------------------------------------
// lattice

type bcase struct {
	PeerID   [20]byte
	InfoHash [20]byte
	Port     int
	Up       int64
	Down     int64
	Left     int64
	Event    tracker.Event
	NumWant  int
	Class    string // which sub-lattice produced it
}

func (c bcase) String() string {
	return fmt.Sprintf("peer_id=%s info_hash=%s port=%d uploaded=%d downloaded=%d left=%d event=%s numwant=%d",
		hex.EncodeToString(c.PeerID[:]), hex.EncodeToString(c.InfoHash[:]), c.Port, c.Up, c.Down, c.Left, refcodec.EventName(refEvent(c.Event)), c.NumWant)
}

func (c bcase) request() tracker.AnnounceRequest {
	return tracker.AnnounceRequest{
		Torrent: tracker.Torrent{BytesUploaded: c.Up, BytesDownloaded: c.Down, BytesLeft: c.Left, InfoHash: c.InfoHash, PeerID: c.PeerID, Port: c.Port},
		Event:   c.Event,
		NumWant: c.NumWant,
	}
}

// refEvent maps rain's named constants (input side) to the harness's wire numbering.
func refEvent(e tracker.Event) int {
	switch e {
	case tracker.EventNone:
		return refcodec.EvNone
	case tracker.EventStarted:
		return refcodec.EvStarted
	case tracker.EventCompleted:
		return refcodec.EvCompleted
	case tracker.EventStopped:
		return refcodec.EvStopped
	}
	return -1
}

func arr20(b []byte) (a [20]byte) {
	if len(b) != 20 {
		panic(fmt.Sprintf("lattice id of %d bytes", len(b)))
	}
	copy(a[:], b)
	return
}

// ids: every one ends in four distinctive non-zero bytes.
func idLattice(tag byte) [][20]byte {
	printable := arr20([]byte("-RN0230-abcdefgh" + string([]byte{'W' ^ tag&1, 'X', 'Y', 'Z'})))
	special := arr20([]byte{0x00, '%', '&', '=', '+', ' ', 0xff, '#', '?', '/', '\n', '\r', 0x7f, 0x80, 0xc3, 0x28, 0xa1, 0xb2, 0xc3, 0xd4 ^ tag})
	var ones, zeros [20]byte
	for i := range ones {
		ones[i] = 0xff
	}
	copy(ones[16:], []byte{0x01, 0x02, 0x03, 0x04 ^ tag})
	copy(zeros[16:], []byte{0xde, 0xad, 0xbe, 0xef ^ tag})
	pct := arr20([]byte("%41%00%zz+&=;:@ %25" + string([]byte{0x11 ^ tag}))) // text that looks like escapes
	return [][20]byte{printable, special, ones, zeros, pct}
}

var (
	evLattice = []tracker.Event{tracker.EventNone, tracker.EventStarted, tracker.EventCompleted, tracker.EventStopped}
	portsLat  = []int{6881, 1, 65535}
	wantLat   = []int{50, 0, 1, 200}
)

func counterLattice() []int64 {
	if core.Thorough() {
		return []int64{0, 1, 1<<31 - 1, 1 << 31, 1<<32 - 1, 1 << 32, 1<<63 - 1}
	}
	return []int64{0, 1, 1 << 31, 1<<63 - 1}
}

func buildLattice() []bcase {
	var out []bcase
	pids := idLattice(0)
	ihs := idLattice(1)[:4]
	cs := counterLattice()
	// main product lattice, plainest member first
	for _, pid := range pids {
		for _, ih := range ihs {
			for _, port := range portsLat {
				for _, up := range cs {
					for _, down := range cs {
						for _, left := range cs {
							for _, ev := range evLattice {
								for _, nw := range wantLat {
									out = append(out, bcase{PeerID: pid, InfoHash: ih, Port: port, Up: up, Down: down, Left: left, Event: ev, NumWant: nw, Class: "product"})
								}
							}
						}
					}
				}
			}
		}
	}
	// byte sweep: every byte value at chosen positions of the peer id / the info-hash
	positions := []int{0, 15, 16, 19}
	if core.Thorough() {
		positions = nil
		for i := 0; i < 20; i++ {
			positions = append(positions, i)
		}
	}
	for _, which := range []string{"peerid", "infohash"} {
		for _, pos := range positions {
			for b := 0; b < 256; b++ {
				for _, ev := range evLattice {
					c := bcase{PeerID: pids[0], InfoHash: ihs[0], Port: 6881, Up: 3, Down: 5, Left: 7, Event: ev, NumWant: 50, Class: "sweep-" + which}
					if which == "peerid" {
						c.PeerID[pos] = byte(b)
					} else {
						c.InfoHash[pos] = byte(b)
					}
					out = append(out, c)
				}
			}
		}
	}
	return out
}

// ---------------------------------------------------------------------------------------------
// findings of one case (collected per case index so that reporting order is deterministic)

type finding struct {
	idx  int
	key  string
	desc string
	rep  any
}

type findings struct {
	mu sync.Mutex
	l  []finding
}

func (f *findings) add(idx int, key, desc string, replay any) {
	f.mu.Lock()
	f.l = append(f.l, finding{idx, key, desc, replay})
	f.mu.Unlock()
}

func (f *findings) flush(rep *core.Report) {
	sort.SliceStable(f.l, func(i, j int) bool { return f.l[i].idx < f.l[j].idx })
	for _, x := range f.l {
		rep.Violate(x.key, x.desc, x.rep)
	}
}

func peerIDClass(got, want [20]byte) string {
	if got == want {
		return ""
	}
	same16 := true
	for i := 0; i < 16; i++ {
		if got[i] != want[i] {
			same16 = false
		}
	}
	if same16 {
		return "tail4"
	}
	return "other"
}

// ---------------------------------------------------------------------------------------------
// HTTP side: an in-memory tracker behind http.Transport.DialContext

type httpSrv struct {
	mu        sync.Mutex
	heads     [][]string // raw request heads (request line + header lines) in arrival order
	trackerID string
	dials     int
}

func (s *httpSrv) dial(ctx context.Context, network, addr string) (net.Conn, error) {
	c, sc := net.Pipe()
	s.mu.Lock()
	s.dials++
	s.mu.Unlock()
	go s.serve(sc)
	return c, nil
}

func (s *httpSrv) serve(c net.Conn) {
	defer c.Close()
	br := bufio.NewReader(c)
	for {
		var head []string
		for {
			line, err := br.ReadString('\n')
			if err != nil {
				return
			}
			if !strings.HasSuffix(line, "\r\n") {
				head = append(head, "!bare-LF!"+line)
				continue
			}
			line = line[:len(line)-2]
			if line == "" {
				break
			}
			head = append(head, line)
		}
		s.mu.Lock()
		s.heads = append(s.heads, head)
		tid := s.trackerID
		s.mu.Unlock()
		d := refcodec.D("interval", int64(1800), "peers", []byte{10, 0, 0, 1, 0x1a, 0xe1})
		if tid != "" {
			d.Set("tracker id", tid)
		}
		body := refcodec.Benc(d)
		fmt.Fprintf(c, "HTTP/1.1 200 OK\r\nContent-Type: text/plain\r\nContent-Length: %d\r\n\r\n%s", len(body), body)
	}
}

func (s *httpSrv) take() [][]string {
	s.mu.Lock()
	defer s.mu.Unlock()
	h := s.heads
	s.heads = nil
	return h
}

type httpVariant struct {
	Name      string
	URL       string
	Path      string
	Extra     map[string]string // parameters of the announce URL itself that must survive
	TrackerID string
}

var httpVariants = []httpVariant{
	{Name: "http-plain", URL: "http://tracker.test/announce", Path: "/announce"},
	{Name: "http-urlquery-trackerid", URL: "http://tracker.test:8080/a/b?passkey=k%26v", Path: "/a/b", Extra: map[string]string{"passkey": "k&v"}, TrackerID: "T1d"},
}

// checkHTTP decodes one received request head and compares it with the case.
func checkHTTP(head []string, v httpVariant, c bcase, fail func(field, msg string)) {
	if len(head) == 0 {
		fail("malformed", "empty request head")
		return
	}
	method, target, _, err := refcodec.ParseHTTPRequestLine(head[0])
	if err != nil {
		fail("malformed", err.Error())
		return
	}
	if method != "GET" {
		fail("malformed", "method "+method)
	}
	a, err := refcodec.DecodeHTTPAnnounceTarget(target)
	if err != nil {
		fail("malformed", err.Error()+" target="+target)
		return
	}
	if a.Path != v.Path {
		fail("path", fmt.Sprintf("path %q want %q", a.Path, v.Path))
	}
	for k, want := range v.Extra {
		got, err := a.One(k)
		if err != nil || string(got) != want {
			fail("urlparam", fmt.Sprintf("announce-URL parameter %s: got %q err=%v want %q", k, got, err, want))
		}
	}
	if got, err := a.One("info_hash"); err != nil || string(got) != string(c.InfoHash[:]) {
		fail("infohash", fmt.Sprintf("info_hash decodes to %x (err=%v) want %x", got, err, c.InfoHash))
	}
	if got, err := a.One("peer_id"); err != nil {
		fail("peerid.missing", err.Error())
	} else if len(got) != 20 {
		fail("peerid.length", fmt.Sprintf("peer_id decodes to %d bytes %x want 20 bytes %x", len(got), got, c.PeerID))
	} else if cl := peerIDClass(arr20(got), c.PeerID); cl != "" {
		fail("peerid."+cl, fmt.Sprintf("peer_id decodes to %x want %x", got, c.PeerID))
	}
	for _, f := range []struct {
		name string
		want int64
	}{{"port", int64(c.Port)}, {"uploaded", c.Up}, {"downloaded", c.Down}, {"left", c.Left}, {"numwant", int64(c.NumWant)}} {
		if got, err := a.Int(f.name); err != nil || got != f.want {
			fail(f.name, fmt.Sprintf("%s decodes to %d (err=%v) want %d", f.name, got, err, f.want))
		}
	}
	if got, err := a.Event(); err != nil || got != refEvent(c.Event) {
		fail("event", fmt.Sprintf("event decodes to %s (err=%v) want %s", refcodec.EventName(got), err, refcodec.EventName(refEvent(c.Event))))
	}
}

func runHTTP(rep *core.Report, fs *findings, cases []bcase, v httpVariant, base int) (ok, keyPresent, captured int64) {
	nw := core.Parallelism()
	var wg sync.WaitGroup
	var mu sync.Mutex
	for w := 0; w < nw; w++ {
		wg.Add(1)
		go func(w int) {
			defer wg.Done()
			srv := &httpSrv{trackerID: v.TrackerID}
			tp := &http.Transport{DialContext: srv.dial, DisableCompression: true}
			defer tp.CloseIdleConnections()
			u, err := url.Parse(v.URL)
			if err != nil {
				core.HarnessError("url: %v", err)
			}
			trk := httptracker.New(v.URL, u, time.Minute, tp, "verif-ua/1", 1<<20)
			var lok, lkey, lcap int64
			for i := w; i < len(cases); i += nw {
				c := cases[i]
				idx := base + i
				resp, err := trk.Announce(context.Background(), c.request())
				heads := srv.take()
				if err != nil || resp == nil || len(resp.Peers) != 1 || resp.Interval != 1800*time.Second {
					core.HarnessError("%s: Announce(%s) = %+v, %v: scripted tracker reply not accepted", v.Name, c, resp, err)
				}
				if len(heads) != 1 {
					fs.add(idx, "C15.bytes.http.count", fmt.Sprintf("%s: one Announce produced %d HTTP requests; case %s", v.Name, len(heads), c), c)
					continue
				}
				lcap++
				bad := false
				checkHTTP(heads[0], v, c, func(field, msg string) {
					bad = true
					fs.add(idx, "C15.bytes.http."+field, fmt.Sprintf("%s announce: %s; input %s; request line %q", v.Name, msg, c, heads[0][0]), map[string]any{"variant": v.Name, "case": c, "head": heads[0]})
				})
				if !bad {
					lok++
				}
				if strings.Contains(heads[0][0], "&key=") {
					lkey++
				}
			}
			mu.Lock()
			ok += lok
			keyPresent += lkey
			captured += lcap
			mu.Unlock()
		}(w)
	}
	wg.Wait()
	return
}

// ---------------------------------------------------------------------------------------------
// UDP side: a scripted BEP 15 tracker on a loopback socket, the real Transport as the client

type udpPkt struct {
	src string
	raw []byte
}

type udpSrv struct {
	conn   *net.UDPConn
	mu     sync.Mutex
	pkts   []udpPkt
	issued map[string][]uint64 // per client address: every connection id handed out, in order
	next   uint64
	nConn  int64
}

func newUDPSrv() *udpSrv {
	conn, err := net.ListenUDP("udp4", &net.UDPAddr{IP: net.IPv4(127, 0, 0, 1)})
	if err != nil {
		core.HarnessError("loopback UDP listen: %v", err)
	}
	s := &udpSrv{conn: conn, issued: map[string][]uint64{}, next: 1}
	go s.loop()
	return s
}

func (s *udpSrv) port() int { return s.conn.LocalAddr().(*net.UDPAddr).Port }

func (s *udpSrv) loop() {
	buf := make([]byte, 4096)
	for {
		n, src, err := s.conn.ReadFromUDP(buf)
		if err != nil {
			return
		}
		raw := append([]byte{}, buf[:n]...)
		s.mu.Lock()
		s.pkts = append(s.pkts, udpPkt{src.String(), raw})
		s.mu.Unlock()
		req, err := refcodec.DecodeUDPTrackerRequest(raw)
		if err != nil {
			continue // recorded; the case's oracle reports it. No reply: nothing valid to reply to.
		}
		switch req.Action {
		case refcodec.UDPActionConnect:
			s.mu.Lock()
			id := 0xC15C000000000000 | s.next<<8 | 0x5a
			s.next++
			s.issued[src.String()] = append(s.issued[src.String()], id)
			s.nConn++
			s.mu.Unlock()
			// decoy with a transaction id nobody asked for, carrying a different connection id
			s.conn.WriteToUDP(refcodec.UDPConnectResponse(req.TransactionID+1, id^0xffffffff), src)
			s.conn.WriteToUDP(refcodec.UDPConnectResponse(req.TransactionID, id), src)
		case refcodec.UDPActionAnnounce:
			s.conn.WriteToUDP(refcodec.UDPAnnounceResponse(req.TransactionID+1, 7777, 9, 9, nil), src)
			s.conn.WriteToUDP(refcodec.UDPAnnounceResponse(req.TransactionID, 1800, 2, 3, []byte{10, 0, 0, 1, 0x1a, 0xe1}), src)
		}
	}
}

func (s *udpSrv) take() []udpPkt {
	s.mu.Lock()
	defer s.mu.Unlock()
	p := s.pkts
	s.pkts = nil
	return p
}

// wasIssued reports whether the tracker handed this connection id to this client address (a retransmitted
// connect request gets a second id; either is valid, as on a real tracker).
func (s *udpSrv) wasIssued(src string, id uint64) (bool, []uint64) {
	s.mu.Lock()
	defer s.mu.Unlock()
	l := s.issued[src]
	for _, x := range l {
		if x == id {
			return true, l
		}
	}
	return false, append([]uint64{}, l...)
}

func checkUDPAnnounce(r *refcodec.UDPRequest, c bcase, fail func(field, msg string)) {
	if r.InfoHash != c.InfoHash {
		fail("infohash", fmt.Sprintf("info_hash %x want %x", r.InfoHash, c.InfoHash))
	}
	if cl := peerIDClass(r.PeerID, c.PeerID); cl != "" {
		fail("peerid."+cl, fmt.Sprintf("peer_id on the wire %x want %x (key field = %#08x)", r.PeerID, c.PeerID, r.Key))
	}
	if int(r.Port) != c.Port {
		fail("port", fmt.Sprintf("port %d want %d", r.Port, c.Port))
	}
	if r.Uploaded != c.Up {
		fail("uploaded", fmt.Sprintf("uploaded %d want %d", r.Uploaded, c.Up))
	}
	if r.Downloaded != c.Down {
		fail("downloaded", fmt.Sprintf("downloaded %d want %d", r.Downloaded, c.Down))
	}
	if r.Left != c.Left {
		fail("left", fmt.Sprintf("left %d want %d", r.Left, c.Left))
	}
	if int(r.Event) != refEvent(c.Event) {
		fail("event", fmt.Sprintf("event %d want %d (%s)", r.Event, refEvent(c.Event), refcodec.EventName(refEvent(c.Event))))
	}
	if int(r.NumWant) != c.NumWant {
		fail("numwant", fmt.Sprintf("num_want %d want %d", r.NumWant, c.NumWant))
	}
}

func runUDP(rep *core.Report, fs *findings, cases []bcase, base int) (ok, connects, reused, keyZero, captured, noURLData int64) {
	nw := core.Parallelism()
	const renewEvery = 97 // cases per Transport: both the connect-then-announce and the cached-connection path occur
	var wg sync.WaitGroup
	var mu sync.Mutex
	for w := 0; w < nw; w++ {
		wg.Add(1)
		go func(w int) {
			defer wg.Done()
			srv := newUDPSrv()
			defer srv.conn.Close()
			rawURL := fmt.Sprintf("udp://127.0.0.1:%d/announce?x=1", srv.port())
			u, _ := url.Parse(rawURL)
			var tr *udptracker.Transport
			var trk *udptracker.UDPTracker
			var lok, lreused, lkz, lcap, lnourl int64
			n := 0
			// a retransmission racing with the reply can arrive after Announce returned; such a datagram is
			// byte-identical (same random transaction id) to one already attributed to an earlier case
			seen := map[string]int{}
			for i := w; i < len(cases); i += nw {
				c := cases[i]
				idx := base + i
				if n%renewEvery == 0 {
					if tr != nil {
						tr.Close()
					}
					tr = udptracker.NewTransport(nil, 5*time.Second)
					go tr.Run()
					trk = udptracker.New(rawURL, u, tr)
				}
				n++
				ctx, cancel := context.WithTimeout(context.Background(), 2*time.Minute)
				resp, err := trk.Announce(ctx, c.request())
				cancel()
				var pkts []udpPkt
				for _, p := range srv.take() {
					if _, dup := seen[string(p.raw)]; dup {
						continue
					}
					seen[string(p.raw)] = n
					pkts = append(pkts, p)
				}
				for k, at := range seen {
					if at < n-16 {
						delete(seen, k)
					}
				}
				desc := func(msg string) string { return fmt.Sprintf("udp announce: %s; input %s", msg, c) }
				if err != nil {
					// the scripted tracker answers everything it can decode; an error means the client sent
					// something undecodable (reported below) or the harness is broken
					var derr error
					for _, p := range pkts {
						if _, e := refcodec.DecodeUDPTrackerRequest(p.raw); e != nil {
							derr = e
							fs.add(idx, "C15.bytes.udp.malformed", desc("datagram "+hex.EncodeToString(p.raw)+" does not decode: "+e.Error()), c)
						}
					}
					if derr == nil {
						core.HarnessError("udp: Announce(%s) failed: %v (packets %d)", c, err, len(pkts))
					}
					continue
				}
				if resp.Interval != 1800*time.Second || len(resp.Peers) != 1 {
					fs.add(idx, "C15.bytes.udp.txid", desc(fmt.Sprintf("client accepted a reply that does not carry its transaction id (interval %v, %d peers)", resp.Interval, len(resp.Peers))), c)
				}
				var anns []*refcodec.UDPRequest
				var annSrc string
				bad := false
				sawConnect := false
				for _, p := range pkts {
					r, e := refcodec.DecodeUDPTrackerRequest(p.raw)
					if e != nil {
						bad = true
						fs.add(idx, "C15.bytes.udp.malformed", desc("datagram "+hex.EncodeToString(p.raw)+" does not decode: "+e.Error()), c)
						continue
					}
					if r.Action == refcodec.UDPActionConnect {
						sawConnect = true
						continue
					}
					anns = append(anns, r)
					annSrc = p.src
				}
				if len(anns) == 0 {
					fs.add(idx, "C15.bytes.udp.count", desc("Announce returned a reply but the tracker received no announce datagram"), c)
					continue
				}
				lcap++
				for _, r := range anns {
					if ok, issued := srv.wasIssued(annSrc, r.ConnectionID); !ok {
						bad = true
						fs.add(idx, "C15.bytes.udp.connid", desc(fmt.Sprintf("connection_id %#x was never handed out to this client (handed out: %#x)", r.ConnectionID, issued)), c)
					}
					if r.URLData() != "/announce?x=1" {
						lnourl++ // observed, not judged: C15 does not speak about BEP 41 URLData
					}
					checkUDPAnnounce(r, c, func(field, msg string) {
						bad = true
						fs.add(idx, "C15.bytes.udp."+field, desc(msg), map[string]any{"case": c, "want_peer_id": hex.EncodeToString(c.PeerID[:]), "got_peer_id": hex.EncodeToString(r.PeerID[:]), "key": r.Key})
					})
					if r.Key == 0 {
						lkz++
					}
				}
				if !bad {
					lok++
				}
				if !sawConnect {
					lreused++
				}
			}
			if tr != nil {
				tr.Close()
			}
			mu.Lock()
			ok += lok
			reused += lreused
			keyZero += lkz
			captured += lcap
			noURLData += lnourl
			connects += srv.nConn
			mu.Unlock()
		}(w)
	}
	wg.Wait()
	return
}

// ---------------------------------------------------------------------------------------------

func selfTestCodecs() {
	// the reference decoders must themselves reject / decode a few hand-made vectors
	a, err := refcodec.DecodeHTTPAnnounceTarget("/x?info_hash=%00%ff+a&peer_id=%2525&n=-5&n2=12")
	if err != nil {
		core.HarnessError("refcodec self-test: %v", err)
	}
	ih, _ := a.One("info_hash")
	pid, _ := a.One("peer_id")
	n, err2 := a.Int("n")
	if string(ih) != "\x00\xff a" || string(pid) != "%25" || n != -5 || err2 != nil {
		core.HarnessError("refcodec self-test: decoded %q %q %d", ih, pid, n)
	}
	for _, bad := range []string{"/x?a=%zz", "/x?a=%4", "/x?a=\xff", "/x?a=b c", "/x"} {
		if _, err := refcodec.DecodeHTTPAnnounceTarget(bad); err == nil {
			core.HarnessError("refcodec self-test: %q accepted", bad)
		}
	}
	pkt := make([]byte, 98)
	copy(pkt, []byte{0, 0, 0, 0, 0, 0, 0, 9, 0, 0, 0, 1, 0, 0, 0, 7})
	pkt[96], pkt[97] = 0x1a, 0xe1
	pkt[83] = 2
	r, err := refcodec.DecodeUDPTrackerRequest(pkt)
	if err != nil || r.Port != 6881 || r.Event != 2 || r.ConnectionID != 9 || r.TransactionID != 7 {
		core.HarnessError("refcodec self-test: udp decode %+v %v", r, err)
	}
}

func TestC15Bytes(t *testing.T) {
	logger.Disable()
	rep := core.NewReport("C15", "bytes", "exploration")
	rep.Rule = "product lattice {5 peer ids x 4 info-hashes (printable; 0x00 % & = + space 0xff # ? / CR LF ...; all-0xff; all-zero; escape look-alikes; every one ending in 4 distinctive non-zero bytes)} x ports {6881,1,65535} x uploaded/downloaded/left in {0,1,2^31,2^63-1}^3 (thorough: 7 values each) x 4 events x numwant {50,0,1,200}, " +
		"plus a byte sweep (every value 0..255 at positions {0,15,16,19} (thorough: all 20) of the peer id and of the info-hash, x 4 events); every member is announced through the real HTTPTracker (2 announce-URL shapes, in-memory conn behind http.Transport.DialContext, raw request head captured) " +
		"and through the real UDPTracker + udptracker.Transport against a scripted BEP 15 tracker on a loopback socket (new Transport every 97 cases, so both connect+announce and cached-connection announces occur; every reply is preceded by a decoy with a foreign transaction id). " +
		"Oracle: the harness's own decoders (refcodec/httpannounce.go, refcodec/udptracker.go) must recover exactly info-hash, 20-byte peer id, port, counters, event, numwant; UDP: connection id = the one handed out, reply accepted only with the echoed transaction id. distinct = (transport variant, lattice member) pairs whose request was captured and decoded."
	rep.Assumptions = []string{
		"component level: the request given to Tracker.Announce is taken as the torrent's identity; that the session fills it from the same peer id it uses in handshakes is the whole-session part",
		"UDP goes over the kernel's loopback; datagram loss would only slow the run down (client retransmits), not change a verdict",
		"the UDP `key` field is observed and counted, not judged (the property statement does not mention it)",
	}
	selfTestCodecs()
	cases := buildLattice()
	fs := &findings{}
	var total, distinct int64
	base := 0
	for _, v := range httpVariants {
		ok, keyp, captured := runHTTP(rep, fs, cases, v, base)
		rep.Extra[v.Name+"_cases"] = int64(len(cases))
		rep.Extra[v.Name+"_decoded_equal"] = ok
		rep.Extra[v.Name+"_requests_with_key_param"] = keyp
		total += int64(len(cases))
		distinct += captured
		base += len(cases)
	}
	ok, connects, reused, keyZero, captured, noURL := runUDP(rep, fs, cases, base)
	rep.Extra["udp_cases"] = int64(len(cases))
	rep.Extra["udp_decoded_equal"] = ok
	rep.Extra["udp_connects_served"] = connects
	rep.Extra["udp_announces_on_cached_connection"] = reused
	rep.Extra["udp_announces_with_key_zero"] = keyZero
	rep.Extra["udp_announces_whose_bep41_urldata_is_not_decodable"] = noURL
	total += int64(len(cases))
	distinct += captured
	if connects == 0 || reused == 0 {
		rep.Vacuous("vacuous: udp connects=%d reused=%d", connects, reused)
	}
	rep.Evaluations = total
	rep.Distinct = distinct
	for i := 0; i < len(cases); i += len(cases)/7 + 1 {
		rep.Sample(8, cases[i].String())
	}
	fs.flush(rep)
	rep.Finish()
}

//go:build verif

package ann15

import (
	"context"
	"encoding/json"
	"errors"
	"fmt"
	"net"
	"sort"
	"strings"
	"sync"
	"sync/atomic"
	"testing"
	"testing/synctest"
	"time"

	"github.com/cenkalti/rain/v2/internal/announcer"
	"github.com/cenkalti/rain/v2/internal/logger"
	"github.com/cenkalti/rain/v2/internal/tracker"
	"github.com/cenkalti/rain/v2/zzverif/core"
	"github.com/cenkalti/rain/v2/zzverif/refcodec"
)

// ---------------------------------------------------------------------------------------------
// tracker answers

const (
	ansOK = iota
	ansFail
	ansErr
	ansNever
)

type answer struct {
	Kind int
	I, M time.Duration
}

func durName(d time.Duration) string {
	if d == 0 {
		return "absent"
	}
	return d.String()
}

func (a answer) String() string {
	switch a.Kind {
	case ansOK:
		return fmt.Sprintf("ok(interval=%s,min=%s)", durName(a.I), durName(a.M))
	case ansFail:
		return "failure-reason(retry in 1m)"
	case ansErr:
		return "error"
	}
	return "never(timeout 2m)"
}

var intervalLattice = []time.Duration{0, 30 * time.Minute, time.Second, -time.Second} // 0 = field absent

func allAnswers() []answer {
	var out []answer
	for _, i := range intervalLattice {
		for _, m := range intervalLattice {
			out = append(out, answer{Kind: ansOK, I: i, M: m})
		}
	}
	return append(out, answer{Kind: ansFail}, answer{Kind: ansErr}, answer{Kind: ansNever})
}

type timeoutErr struct{}

func (timeoutErr) Error() string   { return "scripted tracker: i/o timeout" }
func (timeoutErr) Timeout() bool   { return true }
func (timeoutErr) Temporary() bool { return true }

// ---------------------------------------------------------------------------------------------
// log of one execution (explorer events, announces as the tracker received them, replies)

const (
	leRunStart = iota
	leEvent
	leAnnounce
	leReply
	leRunEnd
)

type logEntry struct {
	Kind  int
	At    time.Duration // virtual time since the start of the execution
	Run   int
	Code  int // event entries: the explorer event; reply entries: the outcome (ro*)
	Seq   int // announce number within the execution (announce and reply entries)
	Event int // announce: refcodec event numbering
	Want  int // announce: numwant
	Left  int64
	IDOK  bool // announce: info-hash, peer id and port are the torrent's
	OK    bool // reply: the tracker accepted the announce
	I, M  time.Duration
	HasAn bool // run end: PeriodicalAnnouncer.HasAnnounced
}

const (
	roOK = iota
	roFailure
	roError
	roTimeout
	roCanceled
)

func (e logEntry) replyName() string {
	switch e.Code {
	case roOK:
		return answer{Kind: ansOK, I: e.I, M: e.M}.String()
	case roFailure:
		return "failure-reason (retry in 1m)"
	case roError:
		return "error"
	case roTimeout:
		return "i/o timeout"
	}
	return "canceled by the announcer"
}

func (e logEntry) String() string {
	at := e.At.String()
	switch e.Kind {
	case leRunStart:
		return fmt.Sprintf("[%s] run %d starts", at, e.Run)
	case leRunEnd:
		return fmt.Sprintf("[%s] run %d closed (HasAnnounced=%v)", at, e.Run, e.HasAn)
	case leEvent:
		return fmt.Sprintf("[%s] event %s", at, evNames[e.Code])
	case leAnnounce:
		return fmt.Sprintf("[%s] announce #%d event=%s numwant=%d left=%d", at, e.Seq, refcodec.EventName(e.Event), e.Want, e.Left)
	case leReply:
		return fmt.Sprintf("[%s] reply to #%d: %s", at, e.Seq, e.replyName())
	}
	return "?"
}

var theTorrent = tracker.Torrent{
	InfoHash: arr20([]byte("\x00%&=+ \xffinfohash-C15\x01")),
	PeerID:   arr20([]byte("-RN0230-\x00%&\xffabcdWXYZ")),
	Port:     6881,
}

type scriptTracker struct {
	mu      sync.Mutex
	answers []answer
	script  []int
	latency time.Duration
	budget  int
	epoch   time.Time
	run     *int
	log     []logEntry
	n       int
	over    bool
	occ     chan struct{}
}

func (s *scriptTracker) URL() string { return "http://scripted.test/announce" }

func (s *scriptTracker) add(e logEntry) {
	s.mu.Lock()
	e.At = time.Since(s.epoch)
	e.Run = *s.run
	s.log = append(s.log, e)
	s.mu.Unlock()
}

func (s *scriptTracker) signal() {
	select {
	case s.occ <- struct{}{}:
	default:
	}
}

func (s *scriptTracker) Announce(ctx context.Context, req tracker.AnnounceRequest) (*tracker.AnnounceResponse, error) {
	s.mu.Lock()
	seq := s.n
	s.n++
	over := seq >= s.budget
	if over {
		s.over = true
	}
	k := seq
	if k >= len(s.script) {
		k = len(s.script) - 1
	}
	ans := s.answers[s.script[k]]
	s.mu.Unlock()
	idok := req.Torrent.InfoHash == theTorrent.InfoHash && req.Torrent.PeerID == theTorrent.PeerID && req.Torrent.Port == theTorrent.Port
	s.add(logEntry{Kind: leAnnounce, Seq: seq, Event: refEvent(req.Event), Want: req.NumWant, Left: req.Torrent.BytesLeft, IDOK: idok})
	s.signal()
	reply := func(code int) {
		if code == roCanceled {
			// not logged: the cancelled call returns concurrently with the announce that replaces it, so its
			// position in the log would depend on goroutine scheduling (no oracle needs it)
			return
		}
		e := logEntry{Kind: leReply, Seq: seq, Code: code, OK: code == roOK}
		if code == roOK {
			e.I, e.M = ans.I, ans.M
		}
		s.add(e)
		s.signal()
	}
	if over {
		// announce budget of the execution exhausted (runaway loop): stop answering
		<-ctx.Done()
		return nil, ctx.Err()
	}
	if s.latency > 0 {
		select {
		case <-time.After(s.latency):
		case <-ctx.Done():
			reply(roCanceled)
			return nil, ctx.Err()
		}
	}
	switch ans.Kind {
	case ansOK:
		reply(roOK)
		return &tracker.AnnounceResponse{Interval: ans.I, MinInterval: ans.M, Seeders: 1, Leechers: 2}, nil
	case ansFail:
		reply(roFailure)
		return nil, &tracker.Error{FailureReason: "scripted failure", RetryIn: time.Minute}
	case ansErr:
		reply(roError)
		return nil, errors.New("scripted error")
	}
	select {
	case <-time.After(2 * time.Minute):
		reply(roTimeout)
		return nil, timeoutErr{}
	case <-ctx.Done():
		reply(roCanceled)
		return nil, ctx.Err()
	}
}

// ---------------------------------------------------------------------------------------------
// explorer

const (
	evSleep = iota
	evComplete
	evNeedTrue
	evNeedFalse
	evClose
	nEvents
)

var evNames = [...]string{"sleep-to-next-tracker-occurrence", "download-completes", "NeedMorePeers(true)", "NeedMorePeers(false)", "Close+restart"}

type dcfg struct {
	Script       []int
	Latency      time.Duration
	PreCompleted bool
}

const (
	clientMinInterval = time.Minute
	clientNumWant     = 50
	sleepCap          = 3 * time.Hour
)

type execResult struct {
	member bool // the sequence is a member of the space (no disabled event)
	log    []logEntry
	over   bool
}

// execute runs one event sequence against the real PeriodicalAnnouncer inside a synctest bubble.
func execute(t *testing.T, answers []answer, cfg dcfg, seq []int, budget int) (res execResult) {
	// membership: download-completes is enabled once, and never when the torrent starts complete
	done := cfg.PreCompleted
	for _, ev := range seq {
		if ev == evComplete {
			if done {
				return
			}
			done = true
		}
	}
	res.member = true
	synctest.Test(t, func(t *testing.T) {
		run := 0
		trk := &scriptTracker{answers: answers, script: cfg.Script, latency: cfg.Latency, budget: budget, epoch: time.Now(), run: &run, occ: make(chan struct{}, 1), log: make([]logEntry, 0, 96)}
		completeC := make(chan struct{})
		var completed atomic.Bool
		if cfg.PreCompleted {
			completed.Store(true)
			close(completeC)
		}
		newPeers := make(chan []*net.TCPAddr)
		stopDrain := make(chan struct{})
		go func() {
			for {
				select {
				case <-newPeers:
				case <-stopDrain:
					return
				}
			}
		}()
		getTorrent := func() tracker.Torrent {
			tr := theTorrent
			tr.BytesDownloaded = 1000
			tr.BytesLeft = 1000
			if completed.Load() {
				tr.BytesDownloaded = 2000
				tr.BytesLeft = 0
			}
			return tr
		}
		start := func() *announcer.PeriodicalAnnouncer {
			run++
			trk.add(logEntry{Kind: leRunStart})
			a := announcer.NewPeriodicalAnnouncer(trk, clientNumWant, clientMinInterval, getTorrent, completeC, newPeers, logger.New("c15"))
			a.VerifC15NoJitter()
			go a.Run()
			synctest.Wait()
			return a
		}
		stop := func(a *announcer.PeriodicalAnnouncer) {
			a.Close()
			synctest.Wait()
			trk.add(logEntry{Kind: leRunEnd, HasAn: a.HasAnnounced})
		}
		a := start()
		for _, ev := range seq {
			if trk.over {
				break
			}
			trk.add(logEntry{Kind: leEvent, Code: ev})
			switch ev {
			case evSleep:
				select {
				case <-trk.occ:
				default:
				}
				select {
				case <-trk.occ:
				case <-time.After(sleepCap):
				}
			case evComplete:
				completed.Store(true)
				close(completeC)
			case evNeedTrue:
				a.NeedMorePeers(true)
			case evNeedFalse:
				a.NeedMorePeers(false)
			case evClose:
				stop(a)
				a = start()
			}
			synctest.Wait()
		}
		stop(a)
		close(stopDrain)
		res.log = trk.log
		res.over = trk.over
	})
	return
}

// ---------------------------------------------------------------------------------------------
// oracle over one log

type dviol struct {
	key  string
	msg  string
	upto int // log position of the entry that makes the log violating (prefix [0..upto] is the minimal history)
}

type dstats struct {
	announces, completedSent, gapsChecked, gapsSkipped, runs, okReplies int64
}

func judge(log []logEntry, preCompleted bool) (vs []dviol, st dstats) {
	type runInfo struct {
		first      bool
		completedN int
		okInRun    bool
	}
	completion := preCompleted    // download finished at some point up to here
	completionInRun := false      // ... during the current run
	acceptedEver := false         // the tracker accepted some announce of this execution
	var positives []time.Duration // positive interval / min-interval values received so far (execution-wide: weakest demand)
	var ri runInfo
	lastAnn := -1         // log position of the previous announce of this run
	eventSince := false   // an explorer event happened since lastAnn
	replyOKSince := false // the previous announce got an accepting reply
	var lastOK *logEntry
	for p := range log {
		e := &log[p]
		switch e.Kind {
		case leRunStart:
			ri = runInfo{first: true}
			completionInRun = false
			lastAnn = -1
			st.runs++
		case leRunEnd:
			if e.HasAn && !ri.okInRun {
				vs = append(vs, dviol{"C15.discipline.hasannounced.without-accept", "HasAnnounced is true although the tracker accepted no announce of this run (the torrent would send it 'stopped')", p})
			}
		case leEvent:
			// sleeping is not an event in the property's sense; completion and need-more-peers requests are
			if e.Code != evSleep {
				eventSince = true
			}
			if e.Code == evComplete {
				completion = true
				completionInRun = true
			}
		case leReply:
			if e.OK {
				ri.okInRun = true
				acceptedEver = true
				st.okReplies++
				if e.I > 0 {
					positives = append(positives, e.I)
				}
				if e.M > 0 {
					positives = append(positives, e.M)
				}
				lastOK = e
				if lastAnn >= 0 && log[lastAnn].Seq == e.Seq {
					replyOKSince = true
				}
			}
		case leAnnounce:
			st.announces++
			if !e.IDOK {
				vs = append(vs, dviol{"C15.discipline.identity", "announce does not carry the torrent's info-hash / peer id / port", p})
			}
			wantLeft := int64(1000)
			if completion {
				wantLeft = 0
			}
			if e.Left != wantLeft {
				vs = append(vs, dviol{"C15.discipline.counters", fmt.Sprintf("announce carries left=%d, the torrent's counter at that time is %d", e.Left, wantLeft), p})
			}
			if ri.first {
				ri.first = false
				if e.Event != refcodec.EvStarted {
					vs = append(vs, dviol{"C15.discipline.first-not-started", "the first announce of the run has event " + refcodec.EventName(e.Event) + ", want started", p})
				}
			}
			if e.Event == refcodec.EvCompleted {
				st.completedSent++
				ri.completedN++
				if ri.completedN > 1 {
					vs = append(vs, dviol{"C15.discipline.completed.twice", fmt.Sprintf("'completed' sent %d times in one run", ri.completedN), p})
				}
				if !completionInRun {
					vs = append(vs, dviol{"C15.discipline.completed.without-completion", "'completed' sent although the download did not finish during this run", p})
				}
			}
			if e.Event == refcodec.EvStopped && !acceptedEver {
				vs = append(vs, dviol{"C15.discipline.stopped.unaccepted", "'stopped' sent to a tracker that accepted no earlier announce", p})
			}
			if lastAnn >= 0 {
				if eventSince || !replyOKSince {
					st.gapsSkipped++
				} else {
					st.gapsChecked++
					bound := clientMinInterval
					for _, d := range positives {
						if d < bound {
							bound = d
						}
					}
					gap := e.At - log[lastAnn].At
					if gap < bound {
						class := "other"
						if lastOK != nil && lastOK.I <= 0 {
							class = "interval-nonpositive"
						}
						vs = append(vs, dviol{"C15.discipline.gap." + class,
							fmt.Sprintf("announces #%d and #%d are %s apart with no event in between; required >= %s (= min of the tracker's positive interval values %v and the client minimum %s); last accepted reply: %s",
								log[lastAnn].Seq, e.Seq, gap, bound, positives, clientMinInterval, lastOK.replyName()), p})
					}
				}
			}
			lastAnn = p
			eventSince = false
			replyOKSince = false
		}
	}
	return
}

func logHash(log []logEntry) uint64 {
	h := uint64(14695981039346656037)
	mix := func(v uint64) {
		for i := 0; i < 8; i++ {
			h ^= v & 0xff
			h *= 1099511628211
			v >>= 8
		}
	}
	b2u := func(b bool) uint64 {
		if b {
			return 1
		}
		return 0
	}
	for i := range log {
		e := &log[i]
		mix(uint64(e.Kind)<<8 | uint64(e.Code)<<16 | uint64(e.Event)<<24 | b2u(e.OK) | b2u(e.HasAn)<<1 | b2u(e.IDOK)<<2)
		mix(uint64(e.At))
		mix(uint64(e.Run)<<32 | uint64(e.Seq))
		mix(uint64(e.Want))
		mix(uint64(e.Left))
		mix(uint64(e.I))
		mix(uint64(e.M))
	}
	return h
}

// ---------------------------------------------------------------------------------------------
// aggregation of violations: per key keep the simplest case (shortest history, then enumeration order)

type aggEntry struct {
	rank  [3]int
	desc  string
	rep   any
	count int64
}

type aggregator struct {
	mu sync.Mutex
	m  map[string]*aggEntry
}

func less3(a, b [3]int) bool {
	for i := range a {
		if a[i] != b[i] {
			return a[i] < b[i]
		}
	}
	return false
}

func (g *aggregator) add(key string, rank [3]int, mk func() (string, any)) {
	g.mu.Lock()
	defer g.mu.Unlock()
	e := g.m[key]
	if e == nil {
		e = &aggEntry{rank: rank}
		e.desc, e.rep = mk()
		g.m[key] = e
	} else if less3(rank, e.rank) {
		e.rank = rank
		e.desc, e.rep = mk()
	}
	e.count++
}

func (g *aggregator) addN(key string, rank [3]int, n int64, mk func() (string, any)) {
	g.add(key, rank, mk)
	g.mu.Lock()
	g.m[key].count += n - 1
	g.mu.Unlock()
}

func (g *aggregator) flush(rep *core.Report) {
	var keys []string
	for k := range g.m {
		keys = append(keys, k)
	}
	sort.Strings(keys)
	for _, k := range keys {
		e := g.m[k]
		for i := int64(0); i < e.count; i++ {
			rep.Violate(k, e.desc, e.rep) // the report counts calls
		}
	}
}

func describe(answers []answer, cfg dcfg, seq []int, log []logEntry, upto int) (string, any) {
	var sc []string
	for _, i := range cfg.Script {
		sc = append(sc, answers[i].String())
	}
	var evs []string
	nEv := 0
	var lines []string
	for p := 0; p <= upto && p < len(log); p++ {
		lines = append(lines, log[p].String())
		if log[p].Kind == leEvent {
			nEv++
		}
	}
	for _, e := range seq[:nEv] {
		evs = append(evs, evNames[e])
	}
	cfgs := fmt.Sprintf("tracker script [%s] (last entry repeats), reply latency %s, torrent complete at start=%v, client minimum interval %s", strings.Join(sc, ", "), cfg.Latency, cfg.PreCompleted, clientMinInterval)
	return fmt.Sprintf("history: events [%s]; %s\n%s", strings.Join(evs, ", "), cfgs, strings.Join(lines, "\n")),
		map[string]any{"script": sc, "latency": cfg.Latency.String(), "pre_completed": cfg.PreCompleted, "events": evs, "log": lines}
}

// ---------------------------------------------------------------------------------------------

func enumSeqs(depth int) [][]int {
	var out [][]int
	cur := make([]int, depth)
	var rec func(i int)
	rec = func(i int) {
		if i == depth {
			out = append(out, append([]int{}, cur...))
			return
		}
		for e := 0; e < nEvents; e++ {
			cur[i] = e
			rec(i + 1)
		}
	}
	rec(0)
	return out
}

type dplan struct {
	Depth     int
	ScriptLen int
}

// one shard job: a few configurations of one plan, every event sequence of the plan's depth
type djob struct {
	Depth   int    `json:"depth"`
	Cfgs    []dcfg `json:"cfgs"`
	CfgIdx0 int    `json:"cfg_idx0"`
}

type dresViol struct {
	Key    string `json:"key"`
	Rank   [3]int `json:"rank"`
	Desc   string `json:"desc"`
	Replay any    `json:"replay"`
	Count  int64  `json:"count"`
}

type dres struct {
	Executed  int64      `json:"executed"`
	NotMember int64      `json:"not_member"`
	Over      int64      `json:"over"`
	OverNV    int64      `json:"over_nv"`
	Distinct  int64      `json:"distinct"`
	Stats     [6]int64   `json:"stats"`
	Viol      []dresViol `json:"viol"`
	Samples   []string   `json:"samples"`
}

// an execution is cut after depth+announceSlack announces: every explorer event can cause at most one announce,
// so only a re-announce loop gets there (and the gap oracle has fired by then; otherwise the run reports a cap)
const announceSlack = 5

// runJob executes one job serially (worker process, GOMAXPROCS=1: goroutine hand-offs inside a bubble stay on one thread).
func runJob(t *testing.T, answers []answer, j djob) dres {
	var r dres
	var mu sync.Mutex
	seqs := enumSeqs(j.Depth)
	agg := &aggregator{m: map[string]*aggEntry{}}
	// one goroutine per (configuration, first event): while one bubble is idle another one runs (the process has a single P)
	var wg sync.WaitGroup
	block := len(seqs) / nEvents // sequences with the same first event are contiguous
	for w := 0; w < len(j.Cfgs)*nEvents; w++ {
		ci, first := w/nEvents, w%nEvents
		cfg := j.Cfgs[ci]
		wg.Add(1)
		go func(ci int, cfg dcfg, first int) {
			defer wg.Done()
			var l dres
			cfgIdx := j.CfgIdx0 + ci
			hashes := map[uint64]struct{}{}
			for si := first * block; si < (first+1)*block; si++ {
				seq := seqs[si]
				res := execute(t, answers, cfg, seq, j.Depth+announceSlack)
				if !res.member {
					l.NotMember++
					continue
				}
				l.Executed++
				vs, st := judge(res.log, cfg.PreCompleted)
				l.Stats[0] += st.announces
				l.Stats[1] += st.completedSent
				l.Stats[2] += st.gapsChecked
				l.Stats[3] += st.gapsSkipped
				l.Stats[4] += st.runs
				l.Stats[5] += st.okReplies
				hashes[logHash(res.log)] = struct{}{}
				if res.over {
					l.Over++
					if len(vs) == 0 {
						l.OverNV++
					}
				}
				seen := map[string]bool{}
				for _, v := range vs {
					if seen[v.key] {
						continue // one count per key and execution
					}
					seen[v.key] = true
					nEv := 0
					for p := 0; p <= v.upto; p++ {
						if res.log[p].Kind == leEvent {
							nEv++
						}
					}
					v := v
					agg.add(v.key, [3]int{nEv, cfgIdx, si}, func() (string, any) {
						d, rp := describe(answers, cfg, seq, res.log, v.upto)
						return v.msg + "\n" + d, rp
					})
				}
				if cfgIdx%97 == 0 && first == evComplete && l.Executed == 100 {
					d, _ := describe(answers, cfg, seq, res.log, len(res.log)-1)
					l.Samples = append(l.Samples, d)
				}
			}
			l.Distinct = int64(len(hashes))
			mu.Lock()
			r.Executed += l.Executed
			r.NotMember += l.NotMember
			r.Over += l.Over
			r.OverNV += l.OverNV
			r.Distinct += l.Distinct
			for i := range r.Stats {
				r.Stats[i] += l.Stats[i]
			}
			r.Samples = append(r.Samples, l.Samples...)
			mu.Unlock()
		}(ci, cfg, first)
	}
	wg.Wait()
	for k, e := range agg.m {
		r.Viol = append(r.Viol, dresViol{Key: k, Rank: e.rank, Desc: e.desc, Replay: e.rep, Count: e.count})
	}
	sort.Slice(r.Viol, func(a, b int) bool { return r.Viol[a].Key < r.Viol[b].Key })
	sort.Strings(r.Samples)
	return r
}

func enumCfgs(nAnswers, scriptLen int, twoPhaseSlow bool) []dcfg {
	var cfgs []dcfg
	for l := 1; l <= scriptLen; l++ {
		idx := make([]int, l)
		var rec func(i int)
		rec = func(i int) {
			if i == l {
				for _, lat := range []time.Duration{0, 10 * time.Second} {
					for _, pre := range []bool{false, true} {
						if l > 1 && (pre || (lat > 0 && !twoPhaseSlow)) {
							continue // two-phase scripts: torrents that start incomplete only; with slow replies only in the thorough tier
						}
						cfgs = append(cfgs, dcfg{Script: append([]int{}, idx...), Latency: lat, PreCompleted: pre})
					}
				}
				return
			}
			for a := 0; a < nAnswers; a++ {
				if l == 2 && i == 1 && a == idx[0] {
					continue // same as the one-phase script
				}
				idx[i] = a
				rec(i + 1)
			}
		}
		rec(0)
	}
	return cfgs
}

func TestC15Discipline(t *testing.T) {
	logger.Disable()
	answers := allAnswers()
	if core.IsWorker() {
		core.WorkerMain(func(j core.Job) json.RawMessage {
			var dj djob
			if err := json.Unmarshal(j.Data, &dj); err != nil {
				core.HarnessError("bad job: %v", err)
			}
			b, _ := json.Marshal(runJob(t, answers, dj))
			return b
		})
	}
	rep := core.NewReport("C15", "discipline", "model_checking")
	plans := []dplan{{5, 2}}
	if core.Thorough() {
		plans = []dplan{{6, 2}, {7, 1}}
	}
	rep.Rule = fmt.Sprintf("real PeriodicalAnnouncer in a synctest bubble (virtual time) against a scripted tracker.Tracker that logs every AnnounceRequest with its virtual timestamp. "+
		"Tracker script: announce n gets script[min(n,len-1)], script entries from the %d answers {ok(interval i, min-interval m) for i,m in {absent,-1s,1s,30min}; failure-reason with retry; plain error; never (i/o timeout after 2 virtual minutes)}; "+
		"reply latency in {0, 10s}; torrent complete at start in {no, yes} (two-phase scripts: incomplete torrents only, and slow replies only in the thorough tier). Explorer alphabet: {sleep to the next tracker occurrence (announce arrival or reply delivery; cap 3h), download completes (closes the completed channel; enabled once), NeedMorePeers(true), NeedMorePeers(false), Close (+ start a new run on the same tracker)}. "+
		"ALL event sequences of length exactly d are executed for every configuration, which covers every sequence of length <= d because all oracles are prefix-closed (safety) and every run is deterministic; {d, script length<=L} per tier: %v. "+
		"Oracles on each log: first announce of every run is 'started'; 'completed' at most once per run and only after completion during that run; two consecutive announces of a run with no completion / need-more-peers event in between and an accepting reply to the first are at least min(positive interval/min-interval values received so far, client minimum 1m) apart; identity and left-counter of every announce; HasAnnounced only after an accepting reply. "+
		"Plus StopAnnouncer: every vector of tracker behaviours {ok, failure, error, never, ok after 1s, ok after 10s} for 0..n trackers x {no Close, Close at 0, Close at 2s}, timeout 5s. "+
		"states = distinct = number of distinct logs (events, announces, replies with their virtual timestamps) per (configuration, first event), summed; plus the StopAnnouncer cases.", len(answers), plans)
	rep.Assumptions = []string{
		"tracker scripts have at most two phases (first answer, then a second answer forever); thorough depth 7 uses single-phase scripts",
		"the random factor of the error-retry back-off is set to 0 through an in-package hook (retry times are not judged; this only makes timestamps reproducible)",
		"scripted trackers honour context cancellation, as both real transports do",
		fmt.Sprintf("an execution is cut after depth+%d announces (only reachable through a re-announce loop, which the gap oracle has reported by then; anything else is reported as a cap)", announceSlack),
	}
	var jobs []core.Job
	cfgIdx := 0
	for _, pl := range plans {
		cfgs := enumCfgs(len(answers), pl.ScriptLen, core.Thorough())
		cfgsPerJob := 8 // ~25k executions per job at depth 5
		if pl.Depth == 6 {
			cfgsPerJob = 4
		} else if pl.Depth >= 7 {
			cfgsPerJob = 1
		}
		for i := 0; i < len(cfgs); i += cfgsPerJob {
			e := i + cfgsPerJob
			if e > len(cfgs) {
				e = len(cfgs)
			}
			b, _ := json.Marshal(djob{Depth: pl.Depth, Cfgs: cfgs[i:e], CfgIdx0: cfgIdx + i})
			jobs = append(jobs, core.Job{ID: len(jobs), Data: b})
		}
		cfgIdx += len(cfgs)
	}
	results := core.RunSharded("TestC15Discipline", jobs, 10*time.Minute)
	sort.Slice(results, func(a, b int) bool { return results[a].ID < results[b].ID })
	agg := &aggregator{m: map[string]*aggEntry{}}
	var tot dres
	crashed := false
	for _, res := range results {
		if res.Hang {
			rep.Cap(fmt.Sprintf("job %d exceeded its wall budget", res.ID))
			continue
		}
		if res.Crash != "" {
			frame := "unknown"
			for _, ln := range strings.Split(res.Crash, "\n") {
				if strings.Contains(ln, "rain/v2/internal/") && strings.Contains(ln, "(") {
					frame = strings.TrimSpace(ln[:strings.LastIndex(ln, "(")])
					break
				}
			}
			crashed = true
			rep.Violate("C15.discipline.crash."+frame, "worker process died while running the real announcer:\n"+res.Crash, string(jobs[res.ID].Data))
			continue
		}
		var r dres
		if err := json.Unmarshal(res.Data, &r); err != nil {
			core.HarnessError("bad result of job %d: %v", res.ID, err)
		}
		tot.Executed += r.Executed
		tot.NotMember += r.NotMember
		tot.Over += r.Over
		tot.OverNV += r.OverNV
		tot.Distinct += r.Distinct
		for i := range tot.Stats {
			tot.Stats[i] += r.Stats[i]
		}
		for _, v := range r.Viol {
			v := v
			agg.addN(v.Key, v.Rank, v.Count, func() (string, any) { return v.Desc, v.Replay })
		}
		for _, smp := range r.Samples {
			rep.Sample(5, smp)
		}
	}
	if len(results) != len(jobs) {
		core.HarnessError("%d results for %d jobs", len(results), len(jobs))
	}
	rep.Evaluations = tot.Executed
	rep.TracesImpl = tot.Executed
	rep.States = tot.Distinct
	rep.Distinct = tot.Distinct
	rep.Transitions = tot.Stats[0]
	rep.Extra["configurations"] = int64(cfgIdx)
	rep.Extra["sequences_with_a_disabled_event_(not members)"] = tot.NotMember
	rep.Extra["announces_logged"] = tot.Stats[0]
	rep.Extra["completed_events_sent"] = tot.Stats[1]
	rep.Extra["gaps_checked"] = tot.Stats[2]
	rep.Extra["gaps_excused_by_event_or_error_retry"] = tot.Stats[3]
	rep.Extra["announcer_runs"] = tot.Stats[4]
	rep.Extra["accepting_replies"] = tot.Stats[5]
	rep.Extra["executions_cut_by_announce_budget"] = tot.Over
	if tot.OverNV > 0 {
		rep.Cap(fmt.Sprintf("%d executions hit the announce budget (depth+%d) without any oracle having fired", tot.OverNV, announceSlack))
	}
	if !crashed && (tot.Stats[2] == 0 || tot.Stats[1] == 0 || tot.Stats[5] == 0 || tot.Stats[4] <= tot.Executed) {
		rep.Vacuous("vacuous: %+v", tot)
	}
	agg.flush(rep)
	stopAnnouncerPart(t, rep)
	rep.Finish()
}

// ---------------------------------------------------------------------------------------------
// ---------------------------------------------------------------------------------------------
// StopAnnouncer

const (
	sbOK = iota
	sbFail
	sbErr
	sbNever
	sbSlow1
	sbSlow10
	nStopBehaviours
)

var sbNames = [...]string{"ok", "failure", "error", "never", "ok-after-1s", "ok-after-10s"}

type stopTracker struct {
	mu       sync.Mutex
	name     string
	behave   int
	got      []tracker.AnnounceRequest
	gotAt    []time.Duration
	epoch    time.Time
	returned int
}

func (s *stopTracker) URL() string { return "http://" + s.name + ".test/announce" }

func (s *stopTracker) Announce(ctx context.Context, req tracker.AnnounceRequest) (*tracker.AnnounceResponse, error) {
	s.mu.Lock()
	s.got = append(s.got, req)
	s.gotAt = append(s.gotAt, time.Since(s.epoch))
	s.mu.Unlock()
	defer func() { s.mu.Lock(); s.returned++; s.mu.Unlock() }()
	wait := func(d time.Duration) error {
		select {
		case <-time.After(d):
			return nil
		case <-ctx.Done():
			return ctx.Err()
		}
	}
	switch s.behave {
	case sbOK:
		return &tracker.AnnounceResponse{Interval: time.Minute}, nil
	case sbFail:
		return nil, &tracker.Error{FailureReason: "no"}
	case sbErr:
		return nil, errors.New("scripted error")
	case sbSlow1:
		if err := wait(time.Second); err != nil {
			return nil, err
		}
		return &tracker.AnnounceResponse{Interval: time.Minute}, nil
	case sbSlow10:
		if err := wait(10 * time.Second); err != nil {
			return nil, err
		}
		return &tracker.AnnounceResponse{Interval: time.Minute}, nil
	}
	<-ctx.Done()
	return nil, ctx.Err()
}

func stopAnnouncerPart(t *testing.T, rep *core.Report) {
	maxN := 3
	if core.Thorough() {
		maxN = 4
	}
	const timeout = 5 * time.Second
	closeAts := []time.Duration{-1, 0, 2 * time.Second}
	tor := theTorrent
	tor.BytesUploaded, tor.BytesDownloaded, tor.BytesLeft = 1<<31, 1<<63-1, 1
	var nRuns, nStopped, nAtTimeout int64
	for n := 0; n <= maxN; n++ {
		vec := make([]int, n)
		var rec func(i int)
		rec = func(i int) {
			if i < n {
				for b := 0; b < nStopBehaviours; b++ {
					vec[i] = b
					rec(i + 1)
				}
				return
			}
			for _, closeAt := range closeAts {
				nRuns++
				var names []string
				for _, b := range vec {
					names = append(names, sbNames[b])
				}
				caseDesc := fmt.Sprintf("StopAnnouncer with trackers %v, timeout %s, Close at %s", names, timeout, map[bool]string{true: "never", false: closeAt.String()}[closeAt < 0])
				fail := func(oracle, msg string) {
					rep.Violate("C15.stop."+oracle, caseDesc+": "+msg, map[string]any{"trackers": names, "close_at": closeAt.String()})
				}
				synctest.Test(t, func(t *testing.T) {
					epoch := time.Now()
					var given []tracker.Tracker
					var sts []*stopTracker
					for i, b := range vec {
						st := &stopTracker{name: fmt.Sprintf("t%d", i), behave: b, epoch: epoch}
						sts = append(sts, st)
						given = append(given, st)
					}
					bystander := &stopTracker{name: "bystander", behave: sbOK, epoch: epoch}
					resultC := make(chan struct{})
					sa := announcer.NewStopAnnouncer(given, tor, timeout, resultC, logger.New("c15"))
					runDone := make(chan struct{})
					go func() { sa.Run(); close(runDone) }()
					results := 0
					var resAt time.Duration = -1
					collectDone := make(chan struct{})
					stopCollect := make(chan struct{})
					go func() {
						defer close(collectDone)
						for {
							select {
							case <-resultC:
								results++
								if resAt < 0 {
									resAt = time.Since(epoch)
								}
							case <-stopCollect:
								return
							}
						}
					}()
					if closeAt >= 0 {
						time.Sleep(closeAt)
						synctest.Wait()
						sa.Close()
					}
					var runAt time.Duration = -1
					select {
					case <-runDone:
						runAt = time.Since(epoch)
					case <-time.After(time.Hour):
					}
					synctest.Wait()
					if closeAt < 0 {
						// let the helper goroutine that waits for the deadline go away
						time.Sleep(2 * timeout)
						sa.Close()
					}
					close(stopCollect)
					<-collectDone
					// oracles
					if runAt < 0 {
						fail("hang", "Run did not return within a virtual hour")
					} else if runAt > timeout {
						fail("timeout", fmt.Sprintf("Run returned after %s, later than its timeout", runAt))
					}
					if closeAt < 0 {
						if results != 1 {
							fail("result", fmt.Sprintf("%d results delivered, want 1", results))
						} else if resAt > timeout {
							fail("timeout", fmt.Sprintf("result delivered after %s, later than the timeout", resAt))
						}
						if resAt == timeout {
							nAtTimeout++
						}
					} else if results > 1 {
						fail("result", fmt.Sprintf("%d results delivered", results))
					}
					for i, st := range sts {
						if len(st.got) != 1 {
							fail("exactly-once", fmt.Sprintf("tracker %d (%s) received %d announces, want exactly 1", i, sbNames[st.behave], len(st.got)))
							continue
						}
						nStopped++
						if st.got[0].Event != tracker.EventStopped {
							fail("event", fmt.Sprintf("tracker %d received event %s, want stopped", i, refcodec.EventName(refEvent(st.got[0].Event))))
						}
						if st.got[0].Torrent != tor {
							fail("identity", fmt.Sprintf("tracker %d received torrent fields %+v, want %+v", i, st.got[0].Torrent, tor))
						}
						if st.returned != 1 {
							fail("leak", fmt.Sprintf("announce to tracker %d still in flight after Run returned", i))
						}
					}
					if len(bystander.got) != 0 {
						fail("bystander", "a tracker that was not given to the StopAnnouncer received an announce")
					}
				})
			}
		}
		rec(0)
	}
	rep.Evaluations += nRuns
	rep.TracesImpl += nRuns
	rep.Distinct += nRuns
	rep.States += nRuns
	rep.Extra["stop_runs"] = nRuns
	rep.Extra["stop_announces_checked"] = nStopped
	rep.Extra["stop_runs_that_ended_exactly_at_the_timeout"] = nAtTimeout
	if nStopped == 0 || nAtTimeout == 0 {
		rep.Vacuous("vacuous StopAnnouncer part")
	}
}

//go:build verif

package registry

import (
	"bytes"
	"encoding/json"
	"fmt"
	"math"
	"os"
	"path/filepath"
	"reflect"
	"runtime"
	"sort"
	"strings"
	"sync"
	"testing"
	"time"

	"github.com/cenkalti/rain/v2/internal/resumer/boltdbresumer"
	"github.com/cenkalti/rain/v2/zzverif/core"
	"go.etcd.io/bbolt"
)

// Part "codec": every boltdbresumer.Spec field over a boundary lattice, through
//   (1) Resumer.Write -> Resumer.Read on a real bbolt file, and
//   (2) Spec.MarshalJSON -> Spec.UnmarshalJSON (the form used when a torrent is moved between sessions),
// plus the single-field writers (WriteInfo, WriteBitfield, WriteStarted, HandleStopAfter*, WriteCompleteCmdRun).
// Reference: "what was written" — the Go value itself, compared field by field.

type fval struct {
	Label string
	Set   func(s *boltdbresumer.Spec)
}

type field struct {
	Name string
	Vals []fval
}

func pat(n int, seed byte) []byte {
	b := make([]byte, n)
	for i := range b {
		b[i] = byte(int(seed) + i*31)
	}
	return b
}

func codecLattice(big int) []field {
	bs := func(label string, v []byte, set func(*boltdbresumer.Spec, []byte)) fval {
		return fval{label, func(s *boltdbresumer.Spec) { set(s, v) }}
	}
	ih := func(s *boltdbresumer.Spec, v []byte) { s.InfoHash = v }
	info := func(s *boltdbresumer.Spec, v []byte) { s.Info = v }
	bf := func(s *boltdbresumer.Spec, v []byte) { s.Bitfield = v }
	str := func(label, v string) fval { return fval{label, func(s *boltdbresumer.Spec) { s.Name = v }} }
	tiers := func(label string, v [][]string) fval {
		return fval{label, func(s *boltdbresumer.Spec) { s.Trackers = v }}
	}
	urls := func(label string, v []string) fval { return fval{label, func(s *boltdbresumer.Spec) { s.URLList = v }} }
	peers := func(label string, v []string) fval {
		return fval{label, func(s *boltdbresumer.Spec) { s.FixedPeers = v }}
	}
	tm := func(label string, v time.Time) fval { return fval{label, func(s *boltdbresumer.Spec) { s.AddedAt = v }} }
	i64 := func(set func(*boltdbresumer.Spec, int64)) []fval {
		var out []fval
		for _, c := range []struct {
			l string
			v int64
		}{{"zero", 0}, {"one", 1}, {"neg", -1}, {"max", math.MaxInt64}, {"min", math.MinInt64}, {"big", 1 << 53}} {
			v := c.v
			out = append(out, fval{c.l, func(s *boltdbresumer.Spec) { set(s, v) }})
		}
		return out
	}
	bl := func(set func(*boltdbresumer.Spec, bool)) []fval {
		return []fval{{"false", func(s *boltdbresumer.Spec) { set(s, false) }}, {"true", func(s *boltdbresumer.Spec) { set(s, true) }}}
	}
	ist := time.FixedZone("", 5*3600+1800)
	pst := time.FixedZone("", -8*3600)
	return []field{
		{"InfoHash", []fval{bs("20-pattern", pat(20, 1), ih), bs("20-zero", make([]byte, 20), ih), bs("20-ff", bytes.Repeat([]byte{0xff}, 20), ih)}},
		{"Port", []fval{
			{"zero", func(s *boltdbresumer.Spec) { s.Port = 0 }}, {"one", func(s *boltdbresumer.Spec) { s.Port = 1 }},
			{"typical", func(s *boltdbresumer.Spec) { s.Port = 20001 }}, {"65535", func(s *boltdbresumer.Spec) { s.Port = 65535 }},
			{"neg", func(s *boltdbresumer.Spec) { s.Port = -1 }}, {"maxint", func(s *boltdbresumer.Spec) { s.Port = math.MaxInt }}}},
		{"Name", []fval{str("empty", ""), str("ascii", "a name.iso"), str("unicode", "名前 ü ✓ 🎉 ‮"), str("control", "a\x00b\nc\"d\\"),
			str("large", strings.Repeat("n", big)), str("invalid-utf8", "bad\xff\xfename")}},
		{"Trackers", []fval{tiers("nil", nil), tiers("empty", [][]string{}), tiers("one-empty-tier", [][]string{{}}), tiers("nil-tier", [][]string{nil}),
			tiers("one", [][]string{{"http://t/a"}}), tiers("tiers", [][]string{{"http://t/a", "udp://u:1"}, {"https://v/"}}),
			tiers("empty-string", [][]string{{""}}), tiers("unicode-quotes", [][]string{{"http://t/ü?q=\"<>&\\"}}),
			tiers("invalid-utf8", [][]string{{"http://t/\xff"}})}},
		{"URLList", []fval{urls("nil", nil), urls("empty", []string{}), urls("one", []string{"http://w/1"}), urls("two", []string{"http://w/1", "https://w/2"}),
			urls("empty-string", []string{""}), urls("unicode-quotes", []string{"http://w/ü\"\\ "})}},
		{"FixedPeers", []fval{peers("nil", nil), peers("empty", []string{}), peers("one", []string{"1.2.3.4:5"}), peers("two", []string{"[::1]:6881", "host:1"})}},
		{"Info", []fval{bs("nil", nil, info), bs("empty", []byte{}, info), bs("small", []byte("d4:name1:xe"), info), bs("binary", pat(300, 0xf0), info), bs("large", pat(big, 7), info)}},
		{"Bitfield", []fval{bs("nil", nil, bf), bs("empty", []byte{}, bf), bs("one", []byte{0x80}, bf), bs("zeros", make([]byte, 9), bf), bs("large", pat(big/8, 3), bf)}},
		{"AddedAt", []fval{tm("zero", time.Time{}), tm("epoch-utc", time.Unix(0, 0).UTC()), tm("utc", time.Date(2024, 2, 29, 23, 59, 59, 0, time.UTC)),
			tm("plus0530", time.Date(2023, 7, 1, 12, 0, 1, 0, ist)), tm("minus0800", time.Date(1999, 12, 31, 16, 0, 0, 0, pst)),
			tm("pre-1970", time.Date(1969, 7, 20, 20, 17, 40, 0, time.UTC)), tm("year-9999", time.Date(9999, 12, 31, 23, 59, 59, 0, time.UTC)),
			tm("subsecond", time.Date(2024, 5, 6, 7, 8, 9, 123456789, time.UTC)), tm("subsecond@+0530", time.Date(2024, 5, 6, 7, 8, 9, 1, ist))}},
		{"BytesDownloaded", i64(func(s *boltdbresumer.Spec, v int64) { s.BytesDownloaded = v })},
		{"BytesUploaded", i64(func(s *boltdbresumer.Spec, v int64) { s.BytesUploaded = v })},
		{"BytesWasted", i64(func(s *boltdbresumer.Spec, v int64) { s.BytesWasted = v })},
		{"SeededFor", append(i64(func(s *boltdbresumer.Spec, v int64) { s.SeededFor = time.Duration(v) }),
			fval{"1s", func(s *boltdbresumer.Spec) { s.SeededFor = time.Second }},
			fval{"mixed", func(s *boltdbresumer.Spec) { s.SeededFor = 90*time.Minute + 1 }},
			fval{"neg-frac", func(s *boltdbresumer.Spec) { s.SeededFor = -1500 * time.Microsecond }})},
		{"Started", bl(func(s *boltdbresumer.Spec, v bool) { s.Started = v })},
		{"StopAfterDownload", bl(func(s *boltdbresumer.Spec, v bool) { s.StopAfterDownload = v })},
		{"StopAfterMetadata", bl(func(s *boltdbresumer.Spec, v bool) { s.StopAfterMetadata = v })},
		{"CompleteCmdRun", bl(func(s *boltdbresumer.Spec, v bool) { s.CompleteCmdRun = v })},
		{"Sequential", bl(func(s *boltdbresumer.Spec, v bool) { s.Sequential = v })},
		{"Version", []fval{
			{"zero", func(s *boltdbresumer.Spec) { s.Version = 0 }}, {"1", func(s *boltdbresumer.Spec) { s.Version = 1 }},
			{"2", func(s *boltdbresumer.Spec) { s.Version = 2 }}, {"3", func(s *boltdbresumer.Spec) { s.Version = 3 }},
			{"future", func(s *boltdbresumer.Spec) { s.Version = 7 }}, {"neg", func(s *boltdbresumer.Spec) { s.Version = -1 }}}},
	}
}

func baseSpec() boltdbresumer.Spec {
	return boltdbresumer.Spec{
		InfoHash: pat(20, 9), Port: 20002, Name: "base", Trackers: [][]string{{"http://base/t"}}, URLList: []string{"http://base/w"},
		FixedPeers: []string{"9.9.9.9:9"}, Info: []byte("d4:name4:basee"), Bitfield: []byte{0xf0},
		AddedAt:         time.Date(2022, 1, 2, 3, 4, 5, 0, time.UTC),
		BytesDownloaded: 11, BytesUploaded: 12, BytesWasted: 13, SeededFor: 14 * time.Second, Version: 3,
	}
}

func strsEq(a, b []string) bool {
	if len(a) != len(b) {
		return false
	}
	for i := range a {
		if a[i] != b[i] {
			return false
		}
	}
	return true
}

func timeEq(a, b time.Time) bool {
	_, oa := a.Zone()
	_, ob := b.Zone()
	return a.Equal(b) && oa == ob
}

// diffSpec returns the names of the fields whose value differs (nil and empty sequences are the same value).
func diffSpec(want, got *boltdbresumer.Spec) []string {
	var d []string
	add := func(ok bool, n string) {
		if !ok {
			d = append(d, n)
		}
	}
	add(bytes.Equal(want.InfoHash, got.InfoHash), "InfoHash")
	add(want.Port == got.Port, "Port")
	add(want.Name == got.Name, "Name")
	add(tiersEqual(want.Trackers, got.Trackers), "Trackers")
	add(strsEq(want.URLList, got.URLList), "URLList")
	add(strsEq(want.FixedPeers, got.FixedPeers), "FixedPeers")
	add(bytes.Equal(want.Info, got.Info), "Info")
	add(bytes.Equal(want.Bitfield, got.Bitfield), "Bitfield")
	add(timeEq(want.AddedAt, got.AddedAt), "AddedAt")
	add(want.BytesDownloaded == got.BytesDownloaded, "BytesDownloaded")
	add(want.BytesUploaded == got.BytesUploaded, "BytesUploaded")
	add(want.BytesWasted == got.BytesWasted, "BytesWasted")
	add(want.SeededFor == got.SeededFor, "SeededFor")
	add(want.Started == got.Started, "Started")
	add(want.StopAfterDownload == got.StopAfterDownload, "StopAfterDownload")
	add(want.StopAfterMetadata == got.StopAfterMetadata, "StopAfterMetadata")
	add(want.CompleteCmdRun == got.CompleteCmdRun, "CompleteCmdRun")
	add(want.Sequential == got.Sequential, "Sequential")
	add(want.Version == got.Version, "Version")
	return d
}

func showField(s *boltdbresumer.Spec, name string) string {
	v := reflect.ValueOf(*s).FieldByName(name).Interface()
	out := fmt.Sprintf("%#v", v)
	if t, ok := v.(time.Time); ok {
		out = t.Format(time.RFC3339Nano)
	}
	if len(out) > 120 {
		out = fmt.Sprintf("%s...(%d chars)", out[:120], len(out))
	}
	return out
}

type codecCase struct {
	// (field index, value index) assignments applied on top of baseSpec, in order
	Assign [][2]int
}

func (c codecCase) describe(lat []field) string {
	var p []string
	for _, a := range c.Assign {
		p = append(p, lat[a[0]].Name+"="+lat[a[0]].Vals[a[1]].Label)
	}
	if len(p) == 0 {
		return "baseline"
	}
	return strings.Join(p, ",")
}

func (c codecCase) build(lat []field) boltdbresumer.Spec {
	s := baseSpec()
	for _, a := range c.Assign {
		lat[a[0]].Vals[a[1]].Set(&s)
	}
	return s
}

func (c codecCase) labelOf(lat []field, fieldName string) string {
	for _, a := range c.Assign {
		if lat[a[0]].Name == fieldName {
			return lat[a[0]].Vals[a[1]].Label
		}
	}
	return "baseline"
}

type codecWorker struct {
	rep *core.Report
	lat []field
	db  *bbolt.DB
	res *boltdbresumer.Resumer
	mu  *sync.Mutex
	v   *[]codecViol
}

type codecViol struct {
	key, desc string
	order     int
	replay    any
}

func (w *codecWorker) fail(order int, c codecCase, path, fieldName, format string, a ...any) {
	label := c.labelOf(w.lat, fieldName)
	if i := strings.IndexByte(label, '@'); i >= 0 {
		label = label[:i] // "class@variant": variants of one cause class share the key
	}
	key := fmt.Sprintf("C14.codec.%s.%s.%s", path, fieldName, label)
	if label == "invalid-utf8" {
		key = "C14.codec.strings.invalid-utf8" // one cause (encoding/json coerces invalid UTF-8), whatever the field or path
	}
	w.mu.Lock()
	*w.v = append(*w.v, codecViol{key, fmt.Sprintf("spec {%s} via %s: %s", c.describe(w.lat), path, fmt.Sprintf(format, a...)), order,
		map[string]any{"assign": c.describe(w.lat), "path": path}})
	w.mu.Unlock()
}

func recovered(f func() error) (err error, panicked any) {
	defer func() {
		if p := recover(); p != nil {
			panicked = fmt.Sprintf("%v | %s", p, topFramesOf())
		}
	}()
	return f(), nil
}

func topFramesOf() string {
	buf := make([]byte, 4096)
	return topRepoFrame(string(buf[:runtime.Stack(buf, false)]))
}

func (w *codecWorker) check(order int, c codecCase, id string) {
	spec := c.build(w.lat)
	// (1) bbolt
	want := spec
	if want.Version == 0 {
		want.Version = 3 // documented: zero means "latest" (LatestVersion == 3)
	}
	err, p := recovered(func() error { return w.res.Write(id, &spec) })
	if p != nil {
		w.fail(order, c, "boltdb", "panic", "Write panics: %v", p)
	} else if err != nil {
		w.fail(order, c, "boltdb", "write-error", "Write: %v", err)
	} else {
		got, err := w.res.Read(id)
		if err != nil {
			// attribute the error to the assigned field(s)
			name := "read-error"
			if len(c.Assign) == 1 {
				name = w.lat[c.Assign[0][0]].Name
			}
			w.fail(order, c, "boltdb", name, "Read after Write fails: %v", err)
		} else {
			for _, f := range diffSpec(&want, got) {
				w.fail(order, c, "boltdb", f, "field %s written %s read back %s", f, showField(&want, f), showField(got, f))
			}
		}
	}
	// (2) JSON
	var b []byte
	err, p = recovered(func() (e error) { b, e = json.Marshal(spec); return })
	if p != nil {
		w.fail(order, c, "json", "panic", "Marshal panics: %v", p)
		return
	}
	if err != nil {
		name := "marshal-error"
		if len(c.Assign) == 1 {
			name = w.lat[c.Assign[0][0]].Name
		}
		w.fail(order, c, "json", name, "json.Marshal(Spec): %v", err)
		return
	}
	var back boltdbresumer.Spec
	if err := json.Unmarshal(b, &back); err != nil {
		name := "unmarshal-error"
		if len(c.Assign) == 1 {
			name = w.lat[c.Assign[0][0]].Name
		}
		w.fail(order, c, "json", name, "json.Unmarshal of the marshalled Spec: %v", err)
		return
	}
	for _, f := range diffSpec(&spec, &back) {
		w.fail(order, c, "json", f, "field %s marshalled %s unmarshalled %s", f, showField(&spec, f), showField(&back, f))
	}
}

func TestC14Codec(t *testing.T) {
	rep := core.NewReport("C14", "codec", "exploration")
	big := 256 << 10
	if core.Thorough() {
		big = 1 << 20
	}
	lat := codecLattice(big)
	nVals := 0
	for _, f := range lat {
		nVals += len(f.Vals)
	}
	rep.Rule = fmt.Sprintf("boltdbresumer.Spec: 19 fields, boundary lattice of %d (field,value) points; every single point and every pair of points of two different fields "+
		"(thorough: also every triple over the reduced lattice of non-baseline boundary values of the byte/string/time/slice fields) applied to a baseline record; each record goes through Resumer.Write -> "+
		"Resumer.Read on a real bbolt file (records overwrite each other under one id, and are also written under a lattice of ids) and through Spec JSON Marshal -> Unmarshal; "+
		"plus every single-field writer after a full Write, and writers on an absent id. distinct = distinct records.", nVals)
	rep.Assumptions = []string{
		"nil and empty byte strings / slices are the same value",
		"Version 0 is documented to mean LatestVersion (3) and is expected to read back as 3 from bbolt",
		"InfoHash is always 20 bytes (other lengths are rejected by newTorrent and are not part of the lattice)",
		"time values are equal when they denote the same instant with the same zone offset",
	}
	dir, err := os.MkdirTemp("/dev/shm", "c14codec")
	if err != nil {
		core.HarnessError("%v", err)
	}
	defer os.RemoveAll(dir)

	var cases []codecCase
	cases = append(cases, codecCase{})
	for fi, f := range lat {
		for vi := range f.Vals {
			cases = append(cases, codecCase{[][2]int{{fi, vi}}})
		}
	}
	nSingles := len(cases)
	for f1 := range lat {
		for f2 := f1 + 1; f2 < len(lat); f2++ {
			for v1 := range lat[f1].Vals {
				for v2 := range lat[f2].Vals {
					cases = append(cases, codecCase{[][2]int{{f1, v1}, {f2, v2}}})
				}
			}
		}
	}
	nPairs := len(cases) - nSingles
	if core.Thorough() {
		// triples over the boundary-heavy fields
		heavy := []int{}
		for fi, f := range lat {
			switch f.Name {
			case "Name", "Trackers", "URLList", "Info", "Bitfield", "AddedAt", "SeededFor", "BytesDownloaded", "Version":
				heavy = append(heavy, fi)
			}
		}
		for a := 0; a < len(heavy); a++ {
			for b := a + 1; b < len(heavy); b++ {
				for c := b + 1; c < len(heavy); c++ {
					for v1 := range lat[heavy[a]].Vals {
						for v2 := range lat[heavy[b]].Vals {
							for v3 := range lat[heavy[c]].Vals {
								if lat[heavy[a]].Vals[v1].Label == "large" && lat[heavy[b]].Vals[v2].Label == "large" {
									continue // two large values are covered by the pairs
								}
								cases = append(cases, codecCase{[][2]int{{heavy[a], v1}, {heavy[b], v2}, {heavy[c], v3}}})
							}
						}
					}
				}
			}
		}
	}
	nTriples := len(cases) - nSingles - nPairs

	var viols []codecViol
	var mu sync.Mutex
	nw := core.Parallelism()
	var wg sync.WaitGroup
	distinct := make([]map[string]struct{}, nw)
	for wi := 0; wi < nw; wi++ {
		wg.Add(1)
		distinct[wi] = map[string]struct{}{}
		go func(wi int) {
			defer wg.Done()
			db, err := bbolt.Open(filepath.Join(dir, fmt.Sprintf("w%d.db", wi)), 0o600, nil)
			if err != nil {
				core.HarnessError("%v", err)
			}
			defer db.Close()
			res, err := boltdbresumer.New(db, []byte("torrents"))
			if err != nil {
				core.HarnessError("%v", err)
			}
			w := &codecWorker{rep: rep, lat: lat, db: db, res: res, mu: &mu, v: &viols}
			for i := wi; i < len(cases); i += nw {
				w.check(i, cases[i], "t")
				distinct[wi][cases[i].describe(lat)] = struct{}{}
			}
		}(wi)
	}
	wg.Wait()
	var nDistinct int64
	for _, d := range distinct {
		nDistinct += int64(len(d))
	}
	evals := int64(len(cases)) * 2

	// ids lattice + single-field writers, sequentially on one database
	db, err := bbolt.Open(filepath.Join(dir, "ids.db"), 0o600, nil)
	if err != nil {
		core.HarnessError("%v", err)
	}
	res, err := boltdbresumer.New(db, []byte("torrents"))
	if err != nil {
		core.HarnessError("%v", err)
	}
	w := &codecWorker{rep: rep, lat: lat, db: db, res: res, mu: &mu, v: &viols}
	ids := []struct{ label, id string }{{"ascii", "a"}, {"uuid", "AbCdEfGhIjKlMnOpQrStUv"}, {"unicode", "ид-名"}, {"slash", "x/y\\z"}, {"nul", "a\x00b"}, {"long", strings.Repeat("i", 4000)}}
	order := len(cases)
	for k, id := range ids {
		c := cases[1+k%(nSingles-1)]
		w.check(order, c, id.id)
		order++
		evals += 2
	}
	bucketNames := func() []string {
		var out []string
		db.View(func(tx *bbolt.Tx) error {
			return tx.Bucket([]byte("torrents")).ForEach(func(k, v []byte) error { out = append(out, string(k)); return nil })
		})
		sort.Strings(out)
		return out
	}
	var wantNames []string
	for _, id := range ids {
		wantNames = append(wantNames, id.id)
	}
	sort.Strings(wantNames)
	if got := bucketNames(); !strsEq(got, wantNames) {
		mu.Lock()
		viols = append(viols, codecViol{"C14.codec.boltdb.ids.buckets", fmt.Sprintf("after writing ids %q the torrents bucket holds %q", wantNames, got), order, nil})
		mu.Unlock()
	}
	// empty id: must be refused with an error, not a panic, and must not create anything
	sp := baseSpec()
	if err, p := recovered(func() error { return res.Write("", &sp) }); p != nil {
		mu.Lock()
		viols = append(viols, codecViol{"C14.codec.boltdb.ids.empty-panic", fmt.Sprintf("Write(\"\") panics: %v", p), order, nil})
		mu.Unlock()
	} else if err == nil {
		if _, rerr := res.Read(""); rerr != nil {
			mu.Lock()
			viols = append(viols, codecViol{"C14.codec.boltdb.ids.empty", "Write(\"\") reports success but the record cannot be read: " + rerr.Error(), order, nil})
			mu.Unlock()
		}
	}
	// single-field writers
	var nWriters int64
	type wr struct {
		name  string
		do    func(id string) error
		apply func(s *boltdbresumer.Spec)
	}
	var writers []wr
	for _, f := range lat {
		if f.Name == "Info" || f.Name == "Bitfield" {
			for _, v := range f.Vals {
				v := v
				tmp := baseSpec()
				v.Set(&tmp)
				val := tmp.Info
				name := "WriteInfo(" + v.Label + ")"
				do := func(id string) error { return res.WriteInfo(id, val) }
				apply := func(s *boltdbresumer.Spec) { s.Info = val }
				if f.Name == "Bitfield" {
					val = tmp.Bitfield
					name = "WriteBitfield(" + v.Label + ")"
					do = func(id string) error { return res.WriteBitfield(id, val) }
					apply = func(s *boltdbresumer.Spec) { s.Bitfield = val }
				}
				writers = append(writers, wr{name, do, apply})
			}
		}
	}
	writers = append(writers,
		wr{"WriteStarted(true)", func(id string) error { return res.WriteStarted(id, true) }, func(s *boltdbresumer.Spec) { s.Started = true }},
		wr{"WriteStarted(false)", func(id string) error { return res.WriteStarted(id, false) }, func(s *boltdbresumer.Spec) { s.Started = false }},
		wr{"HandleStopAfterDownload", func(id string) error { return res.HandleStopAfterDownload(id) }, func(s *boltdbresumer.Spec) { s.Started = false; s.StopAfterDownload = false }},
		wr{"HandleStopAfterMetadata", func(id string) error { return res.HandleStopAfterMetadata(id) }, func(s *boltdbresumer.Spec) { s.Started = false; s.StopAfterMetadata = false }},
		wr{"WriteCompleteCmdRun", func(id string) error { return res.WriteCompleteCmdRun(id) }, func(s *boltdbresumer.Spec) { s.CompleteCmdRun = true }},
	)
	for _, startAll := range []bool{false, true} {
		for _, x := range writers {
			nWriters++
			s0 := baseSpec()
			s0.Started, s0.StopAfterDownload, s0.StopAfterMetadata, s0.CompleteCmdRun, s0.Sequential = startAll, startAll, startAll, !startAll, startAll
			if err := res.Write("w", &s0); err != nil {
				core.HarnessError("baseline write: %v", err)
			}
			want := s0
			x.apply(&want)
			err, p := recovered(func() error { return x.do("w") })
			key := "C14.codec.writer." + strings.SplitN(x.name, "(", 2)[0]
			if p != nil || err != nil {
				mu.Lock()
				viols = append(viols, codecViol{key + ".error", fmt.Sprintf("%s after Write: err=%v panic=%v", x.name, err, p), order, nil})
				mu.Unlock()
				continue
			}
			got, err := res.Read("w")
			if err != nil {
				mu.Lock()
				viols = append(viols, codecViol{key + ".read", fmt.Sprintf("Read after %s: %v", x.name, err), order, nil})
				mu.Unlock()
				continue
			}
			if d := diffSpec(&want, got); len(d) > 0 {
				mu.Lock()
				viols = append(viols, codecViol{key + ".fields", fmt.Sprintf("after Write(baseline, flags=%v) and %s fields %v differ from what was written (e.g. %s: want %s got %s)", startAll, x.name, d, d[0], showField(&want, d[0]), showField(got, d[0])), order, nil})
				mu.Unlock()
			}
			// the same writer on an id that is not in the database must not create a record
			before := bucketNames()
			err, p = recovered(func() error { return x.do("absent-id") })
			after := bucketNames()
			if p != nil || !strsEq(before, after) {
				mu.Lock()
				viols = append(viols, codecViol{key + ".absent", fmt.Sprintf("%s on an absent id: panic=%v err=%v buckets before %q after %q", x.name, p, err, before, after), order, nil})
				mu.Unlock()
			}
		}
	}
	db.Close()

	sort.SliceStable(viols, func(i, j int) bool { return viols[i].order < viols[j].order })
	for _, v := range viols {
		rep.Violate(v.key, v.desc, v.replay)
	}
	rep.Evaluations = evals + nWriters*2
	rep.Distinct = nDistinct + int64(len(ids)) + nWriters
	rep.Extra["lattice_points"] = int64(nVals)
	rep.Extra["records_single"] = int64(nSingles)
	rep.Extra["records_pairs"] = int64(nPairs)
	rep.Extra["records_triples"] = int64(nTriples)
	rep.Extra["ids"] = int64(len(ids))
	rep.Extra["single_field_writer_cases"] = nWriters
	for i := 0; i < len(cases); i += len(cases)/6 + 1 {
		rep.Sample(8, cases[i].describe(lat))
	}
	if nSingles < 50 || nPairs < 1000 {
		rep.Vacuous("vacuous lattice")
	}
	os.RemoveAll(dir) // Finish exits the process; deferred calls do not run
	rep.Finish()
}

//go:build verif

// Package registry: C14 — session registry and resume data consistent across add/remove/restart.
//
// Part "seq" (this file): explicit-state exploration of operation histories on REAL torrent.Session
// objects (bbolt file on /dev/shm, loopback only), against a boring reference model of the registry
// (a slice of records + a set of free ports). Part "codec" is in c14_codec_test.go.
package registry

import (
	"archive/tar"
	"bytes"
	"crypto/sha1"
	"encoding/hex"
	"encoding/json"
	"errors"
	"fmt"
	"mime/multipart"
	"net/http/httptest"
	"net/url"
	"os"
	"path/filepath"
	"runtime"
	"runtime/pprof"
	"sort"
	"strconv"
	"strings"
	"syscall"
	"testing"
	"time"

	"github.com/cenkalti/rain/v2/internal/resumer/boltdbresumer"
	"github.com/cenkalti/rain/v2/internal/storage"
	"github.com/cenkalti/rain/v2/internal/storage/filestorage"
	"github.com/cenkalti/rain/v2/torrent"
	"github.com/cenkalti/rain/v2/zzverif/core"
	"github.com/cenkalti/rain/v2/zzverif/refcodec"
	metrics "github.com/rcrowley/go-metrics"
	"go.etcd.io/bbolt"
)

// ---------------------------------------------------------------------------------------------
// alphabet

type op struct {
	K    string `json:"k"`              // addT addM badT badM stoT stoM rm start stop trk compact reopen reopenX
	T    string `json:"t,omitempty"`    // target slot: a b m auto
	Keep bool   `json:"keep,omitempty"` // rm: keepData
}

func (o op) String() string {
	s := o.K
	if o.T != "" {
		s += ":" + o.T
	}
	if o.K == "rm" {
		if o.Keep {
			s += ":keep"
		} else {
			s += ":del"
		}
	}
	return s
}

func histString(h []op) string {
	parts := make([]string, len(h))
	for i, o := range h {
		parts[i] = o.String()
	}
	return "[" + strings.Join(parts, " ") + "]"
}

var slots = []string{"a", "b", "m", "auto"}

// ---------------------------------------------------------------------------------------------
// fixtures (built with the harness's own bencoder; info-hash computed independently)

type fixture struct {
	Bytes    []byte
	IH       string // hex
	Name     string
	Webseeds []string
	Trackers [][]string
	HasInfo  bool
	Magnet   string
	Info     []byte
}

const (
	trkMagnet = "http://127.0.0.1:1/announce?z=1"
)

func mkTorrent(name string, length int, seedByte byte, webseeds []string) fixture {
	const pl = 16384
	content := make([]byte, length)
	for i := range content {
		content[i] = byte(1 + (int(seedByte)+i*7)%250) // never zero: a freshly allocated (zero) file never verifies
	}
	var pieces []byte
	for off := 0; off < length; off += pl {
		e := off + pl
		if e > length {
			e = length
		}
		h := sha1.Sum(content[off:e])
		pieces = append(pieces, h[:]...)
	}
	info := refcodec.Benc(refcodec.D("length", int64(length), "name", name, "piece length", int64(pl), "pieces", pieces))
	ih := sha1.Sum(info)
	top := refcodec.D("info", refcodec.Raw(info))
	if len(webseeds) == 1 {
		top.Set("url-list", webseeds[0])
	} else if len(webseeds) > 1 {
		top.Set("url-list", webseeds)
	}
	return fixture{Bytes: refcodec.Benc(top), IH: hex.EncodeToString(ih[:]), Name: name, Webseeds: webseeds, HasInfo: true, Info: info}
}

var (
	fixX = mkTorrent("x-αβγ.bin", 20000, 3, []string{"http://127.0.0.1:1/ws-x"})
	fixY = mkTorrent("y file.bin", 5, 9, []string{"http://127.0.0.1:1/ws-y1", "http://127.0.0.1:1/ws-y2"})
	fixV = mkTorrent("v moved.bin", 7, 5, nil)
	fixZ = func() fixture {
		ih := sha1.Sum([]byte("c14 magnet fixture"))
		h := hex.EncodeToString(ih[:])
		return fixture{IH: h, Name: "mag net ü", Trackers: [][]string{{trkMagnet}},
			Magnet: "magnet:?xt=urn:btih:" + h + "&dn=" + url.QueryEscape("mag net ü") + "&tr=" + url.QueryEscape(trkMagnet)}
	}()
)

// per-slot add parameters
type addSpec struct {
	fix     *fixture
	id      string // "" = auto
	stopped bool
	opt     [3]bool // StopAfterDownload, StopAfterMetadata, Sequential
	ctr     [4]int64
}

func addSpecOf(slot string) addSpec {
	switch slot {
	case "a":
		return addSpec{&fixX, "a", true, [3]bool{true, false, true}, [4]int64{1001, 1002, 1003, int64(1004 * time.Millisecond)}}
	case "b":
		return addSpec{&fixY, "b", false, [3]bool{false, false, false}, [4]int64{2001, 0, 2003, int64(3*time.Hour + 7)}}
	case "m":
		return addSpec{&fixZ, "m", true, [3]bool{true, true, false}, [4]int64{3001, 3002, 0, 1}}
	case "auto":
		return addSpec{&fixX, "", true, [3]bool{false, true, false}, [4]int64{1 << 40, 4002, 4003, int64(time.Second)}}
	}
	panic("slot " + slot)
}

func trackerURI(slot string, k int) string {
	if k%2 == 1 {
		return fmt.Sprintf("udp://127.0.0.1:1/%s%d", slot, k)
	}
	return fmt.Sprintf("http://127.0.0.1:1/announce?%s=%d", slot, k)
}

// ---------------------------------------------------------------------------------------------
// reference model

type mtor struct {
	ID       string
	Slot     string
	IH       string
	Name     string
	Port     int
	Started  bool
	Trackers [][]string
	Webseeds []string
	Opt      [3]bool
	Ctr      [4]int64
	HasInfo  bool
	// history abstractions that make the canonical state sound for de-duplication
	EverStarted bool // has been running at least once (has a piece bitfield)
	Loaded      bool // object was created by loading the resume record (not by an add in this session)
	// the record says started, but the session was opened with ResumeOnStartup=false: the flag is the user's
	// intent and stays, the torrent does not run until Start
	Idle bool
}

type model struct {
	Live []*mtor // add order
	FS   bool    // the session uses rain's own file storage provider (histories that begin with the marker op "fs"): torrents can be moved in
}

func (m *model) find(slot string) *mtor {
	for _, t := range m.Live {
		if t.Slot == slot {
			return t // for "auto": the earliest-added live auto torrent
		}
	}
	return nil
}

func (m *model) byID(id string) *mtor {
	for _, t := range m.Live {
		if t.ID == id {
			return t
		}
	}
	return nil
}

func (m *model) remove(t *mtor) {
	for i, x := range m.Live {
		if x == t {
			m.Live = append(m.Live[:i:i], m.Live[i+1:]...)
			return
		}
	}
}

func (m *model) owned() map[int]string {
	o := map[int]string{}
	for _, t := range m.Live {
		o[t.Port] = t.ID
	}
	return o
}

func (m *model) key(base int) string {
	var ents []string
	autoN := 0
	owned := map[int]bool{}
	for _, t := range m.Live {
		name := t.Slot
		if t.Slot == "auto" {
			autoN++
			name = fmt.Sprintf("auto%d", autoN)
		}
		owned[t.Port] = true
		ents = append(ents, fmt.Sprintf("%s|p%d|s%v|t%d|n%s|e%v|l%v|i%v", name, t.Port-base, t.Started, len(t.Trackers), t.Name, t.EverStarted, t.Loaded, t.Idle))
	}
	sort.Strings(ents)
	var free []string
	for p := base; p < base+3; p++ {
		if !owned[p] {
			free = append(free, strconv.Itoa(p-base))
		}
	}
	fs := ""
	if m.FS {
		fs = " ; fs"
	}
	return strings.Join(ents, " ; ") + " ; free=" + strings.Join(free, ",") + fs
}

func (m *model) nextOps() []op {
	var out []op
	if m.FS {
		// move-in exploration: a small alphabet around the handler that receives a torrent from another session
		out = append(out, op{K: "addT", T: "a"}, op{K: "addT", T: "b"}, op{K: "mv", T: "own"}, op{K: "mv", T: "free"}, op{K: "mv", T: "out"})
		for _, s := range []string{"a", "v"} {
			if m.find(s) != nil {
				out = append(out, op{K: "rm", T: s, Keep: false})
			}
		}
		if m.find("v") != nil {
			out = append(out, op{K: "start", T: "v"}, op{K: "trk", T: "v"})
		}
		out = append(out, op{K: "compact"}, op{K: "reopen"})
		return out
	}
	for _, s := range []string{"a", "b", "auto"} {
		out = append(out, op{K: "addT", T: s})
	}
	out = append(out, op{K: "addM", T: "m"}, op{K: "badT"}, op{K: "badM"}, op{K: "stoT"}, op{K: "stoM"})
	for _, s := range slots {
		out = append(out, op{K: "rm", T: s, Keep: true})
		if m.find(s) != nil {
			out = append(out, op{K: "rm", T: s, Keep: false})
		}
	}
	for _, k := range []string{"start", "stop", "trk"} {
		for _, s := range slots {
			if m.find(s) != nil {
				out = append(out, op{K: k, T: s})
			}
		}
	}
	out = append(out, op{K: "compact"}, op{K: "reopen"})
	for _, w := range m.Live {
		if w.Started {
			// restart without resume-on-startup (differs from reopen only if something is started)
			out = append(out, op{K: "reopenN"})
			break
		}
	}
	if m.find("a") != nil {
		out = append(out, op{K: "reopenX"})
	}
	return out
}

// ---------------------------------------------------------------------------------------------
// results

type viol struct {
	Key  string `json:"key"`
	Desc string `json:"desc"`
	Hist []op   `json:"hist"`
}

type histResult struct {
	Key     string           `json:"key"`
	Next    []op             `json:"next"`
	Viol    []viol           `json:"viol,omitempty"`
	Ctr     map[string]int64 `json:"ctr"`
	Cap     string           `json:"cap,omitempty"`
	Harness string           `json:"harness,omitempty"`
	Trace   []string         `json:"trace,omitempty"`
}

// ---------------------------------------------------------------------------------------------
// storage provider: ordinary file storage, except that it refuses the id "bad"

type provider struct {
	root   string
	refuse string // additionally refused id (a record that reads fine but cannot be loaded)
}

func (p provider) GetStorage(id string) (storage.Storage, error) {
	if id == "bad" || (p.refuse != "" && id == p.refuse) {
		return nil, errors.New("verif: storage provider refuses this id")
	}
	return filestorage.New(filepath.Join(p.root, id), 0o750)
}

// ---------------------------------------------------------------------------------------------
// observation of a live torrent through the public API (+ options hook)

type snap struct {
	ID       string
	IH       string
	Name     string
	Port     int
	Status   torrent.Status
	Err      string
	Trackers [][]string
	Webseeds []string
	Opt      [3]bool
	Ctr      [4]int64
	HasInfo  bool
}

func (s snap) started() bool { return s.Status != torrent.Stopped && s.Status != torrent.Stopping }

func parseMagnetTrackers(link string) ([][]string, error) {
	i := strings.IndexByte(link, '?')
	if i < 0 {
		return nil, fmt.Errorf("no query in %q", link)
	}
	var tiers [][]string
	lastTier := ""
	for _, kv := range strings.Split(link[i+1:], "&") {
		eq := strings.IndexByte(kv, '=')
		if eq < 0 {
			continue
		}
		k := kv[:eq]
		v, err := url.QueryUnescape(kv[eq+1:])
		if err != nil {
			return nil, err
		}
		switch {
		case k == "tr":
			tiers = append(tiers, []string{v})
			lastTier = ""
		case strings.HasPrefix(k, "tr."):
			if k == lastTier && len(tiers) > 0 {
				tiers[len(tiers)-1] = append(tiers[len(tiers)-1], v)
			} else {
				tiers = append(tiers, []string{v})
				lastTier = k
			}
		}
	}
	return tiers, nil
}

func snapOf(t *torrent.Torrent) (snap, error) {
	st := t.Stats() // also synchronises with the torrent loop: everything sent before is processed
	ih := t.InfoHash()
	s := snap{ID: t.ID(), IH: hex.EncodeToString(ih[:]), Name: t.Name(), Port: t.Port(), Status: st.Status}
	if st.Error != nil {
		s.Err = st.Error.Error()
	}
	if hex.EncodeToString(st.InfoHash[:]) != s.IH || st.Port != s.Port {
		return s, fmt.Errorf("Stats() and getters disagree: %s/%d vs %s/%d", hex.EncodeToString(st.InfoHash[:]), st.Port, s.IH, s.Port)
	}
	link, err := t.Magnet()
	if err != nil {
		return s, err
	}
	s.Trackers, err = parseMagnetTrackers(link)
	if err != nil {
		return s, err
	}
	for _, w := range t.Webseeds() {
		s.Webseeds = append(s.Webseeds, w.URL)
	}
	a, b, c := t.VerifC14Options()
	s.Opt = [3]bool{a, b, c}
	s.Ctr = [4]int64{st.Bytes.Downloaded, st.Bytes.Uploaded, st.Bytes.Wasted, int64(st.SeededFor)}
	_, ferr := t.Files()
	s.HasInfo = ferr == nil
	return s, nil
}

func tiersEqual(a, b [][]string) bool {
	if len(a) != len(b) {
		return false
	}
	for i := range a {
		if len(a[i]) != len(b[i]) {
			return false
		}
		for j := range a[i] {
			if a[i][j] != b[i][j] {
				return false
			}
		}
	}
	return true
}

func stringsEqual(a, b []string) bool {
	if len(a) != len(b) {
		return false
	}
	for i := range a {
		if a[i] != b[i] {
			return false
		}
	}
	return true
}

// ---------------------------------------------------------------------------------------------
// one history on a fresh session

type runner struct {
	base    int
	shm     string
	data    string
	cfg     torrent.Config
	s       *torrent.Session
	m       *model
	res     *histResult
	hist    []op
	step    int // number of ops applied so far
	nComp   int
	settleN int
	noResume bool // the next doReopen opens the session with ResumeOnStartup=false
}

const (
	settlePolls = 40000 // x 250us sleep ~ 10 s; exceeding it is a cap, never a verdict
)

func (r *runner) fail(key, format string, a ...any) {
	h := append([]op{}, r.hist[:r.step]...)
	r.res.Viol = append(r.res.Viol, viol{Key: key, Desc: fmt.Sprintf("history %s: %s", histString(h), fmt.Sprintf(format, a...)), Hist: h})
}

func (r *runner) cnt(k string) { r.res.Ctr[k]++ }

func (r *runner) capf(format string, a ...any) {
	if r.res.Cap == "" {
		r.res.Cap = fmt.Sprintf(format, a...)
	}
}

// settle polls Stats() until pred holds. Returns false (and records a cap) when the bound is hit.
func (r *runner) settle(t *torrent.Torrent, what string, pred func(torrent.Stats) bool) bool {
	for i := 0; i < settlePolls; i++ {
		if pred(t.Stats()) {
			return true
		}
		if i < 50 {
			runtime.Gosched()
		} else {
			time.Sleep(250 * time.Microsecond)
		}
	}
	r.capf("torrent %s did not settle (%s) within the poll bound", t.ID(), what)
	return false
}

func running(hasInfo bool) func(torrent.Stats) bool {
	return func(st torrent.Stats) bool {
		if st.Error != nil {
			return true // stopped by an error: settled as well (reported by the caller)
		}
		if hasInfo {
			return st.Status == torrent.Downloading || st.Status == torrent.Seeding
		}
		return st.Status == torrent.DownloadingMetadata
	}
}

func stopped(st torrent.Stats) bool { return st.Status == torrent.Stopped }

func (r *runner) openSession() error {
	s, err := torrent.NewSession(r.cfg)
	if err != nil {
		return err
	}
	r.s = s
	return nil
}

func newRunner(base int, seq int, fs ...bool) (*runner, error) {
	tag := fmt.Sprintf("c14-%d-%d", os.Getpid(), seq)
	shm := filepath.Join("/dev/shm", tag)
	data := filepath.Join(os.Getenv("VERIF_TMP"), tag)
	if os.Getenv("VERIF_TMP") == "" {
		return nil, errors.New("VERIF_TMP not set")
	}
	if err := os.MkdirAll(shm, 0o755); err != nil {
		return nil, err
	}
	if err := os.MkdirAll(data, 0o755); err != nil {
		return nil, err
	}
	cfg := torrent.DefaultConfig
	cfg.Database = filepath.Join(shm, "session.db")
	cfg.DataDir = filepath.Join(data, "data")
	cfg.DataDirIncludesTorrentID = true
	cfg.CustomStorage = provider{root: cfg.DataDir}
	cfg.Host = "127.0.0.1"
	cfg.PortBegin = uint16(base)
	cfg.PortEnd = uint16(base + 3)
	cfg.MaxOpenFiles = 0
	cfg.PEXEnabled = false
	cfg.DHTEnabled = false
	cfg.RPCEnabled = false
	cfg.BlocklistURL = ""
	cfg.ResumeOnStartup = true
	cfg.ResumeWriteInterval = 24 * time.Hour // resume data is written by Close (and by explicit operations) only
	cfg.HealthCheckInterval = 24 * time.Hour
	cfg.TrackerStopTimeout = 2 * time.Second
	m := &model{}
	if len(fs) > 0 && fs[0] {
		cfg.CustomStorage = nil // rain's own provider (DataDir/<id>): required by the move handler
		m.FS = true
	}
	return &runner{base: base, shm: shm, data: data, cfg: cfg, m: m, res: &histResult{Ctr: map[string]int64{}}}, nil
}

func (r *runner) cleanup() {
	os.RemoveAll(r.shm)
	os.RemoveAll(r.data)
}

// checkRegistry: the conservation laws and registry == model == database, on a live session.
func (r *runner) checkRegistry(s *torrent.Session, want []*mtor, pfx string, compareLive bool) map[string]*torrent.Torrent {
	ts := s.ListTorrents()
	byID := map[string]*torrent.Torrent{}
	var ids []string
	portOwner := map[int]string{}
	for _, t := range ts {
		id := t.ID()
		if _, dup := byID[id]; dup {
			r.fail(pfx+".ids.duplicate", "ListTorrents returns id %q twice", id)
		}
		byID[id] = t
		ids = append(ids, id)
		if g := s.GetTorrent(id); g != t {
			r.fail(pfx+".ids.lookup", "GetTorrent(%q) does not return the torrent listed under that id", id)
		}
		p := t.Port()
		if p < r.base || p >= r.base+3 {
			r.fail(pfx+".ports.out-of-range", "torrent %q has port %d outside [%d,%d)", id, p, r.base, r.base+3)
		}
		if o, dup := portOwner[p]; dup {
			r.fail(pfx+".ports.shared", "torrents %q and %q share port offset %d", o, id, p-r.base)
		}
		portOwner[p] = id
	}
	sort.Strings(ids)
	free := s.VerifC14FreePorts()
	seenFree := map[int]bool{}
	for _, p := range free {
		if p < r.base || p >= r.base+3 {
			r.fail(pfx+".ports.free-out-of-range", "free set contains port %d outside the configured range [%d,%d)", p, r.base, r.base+3)
		}
		if o, both := portOwner[p]; both {
			r.fail(pfx+".ports.free-and-owned", "port offset %d is in the free set and owned by live torrent %q", p-r.base, o)
		}
		seenFree[p] = true
	}
	for p := r.base; p < r.base+3; p++ {
		if _, o := portOwner[p]; !o && !seenFree[p] {
			r.fail(pfx+".ports.leaked", "port offset %d is neither free nor owned by a live torrent (live: %v, free offsets: %v)", p-r.base, r.describePorts(portOwner), r.offsets(free))
		}
	}
	// registry == database (through the session's own handle)
	buckets, err := s.VerifC14BucketIDs()
	if err != nil {
		r.fail(pfx+".db.read-error", "cannot list buckets: %v", err)
	} else if !stringsEqual(buckets, ids) {
		cls := ".db.ids-mismatch"
		if len(buckets) > len(ids) {
			cls = ".db.orphan-bucket"
		} else if len(buckets) < len(ids) {
			cls = ".db.missing-bucket"
		}
		r.fail(pfx+cls, "ListTorrents ids %q != bucket names under \"torrents\" %q", ids, buckets)
	}
	// registry == what the history's outcomes imply
	var wantIDs []string
	for _, w := range want {
		wantIDs = append(wantIDs, w.ID)
	}
	sort.Strings(wantIDs)
	if !stringsEqual(wantIDs, ids) {
		r.fail(pfx+".registry.ids", "session lists %q but the operations so far imply %q", ids, wantIDs)
	}
	if compareLive {
		for _, w := range want {
			if t := byID[w.ID]; t != nil {
				r.compareTorrent(pfx+".live", w, t, true)
			}
		}
	}
	return byID
}

func (r *runner) offsets(ps []int) []int {
	o := make([]int, len(ps))
	for i, p := range ps {
		o[i] = p - r.base
	}
	return o
}

func (r *runner) describePorts(owner map[int]string) string {
	var parts []string
	for p := r.base - 1; p <= r.base+3; p++ {
		if id, ok := owner[p]; ok {
			parts = append(parts, fmt.Sprintf("%d:%s", p-r.base, id))
		}
	}
	return strings.Join(parts, ",")
}

// compareTorrent: every attribute the property names, observed through the API, against the record.
func (r *runner) compareTorrent(pfx string, w *mtor, t *torrent.Torrent, withStarted bool) {
	g, err := snapOf(t)
	if err != nil {
		r.fail(pfx+".observe", "torrent %s(%s): %v", w.Slot, w.ID, err)
		return
	}
	who := fmt.Sprintf("torrent %s (id %q)", w.Slot, w.ID)
	if g.IH != w.IH {
		r.fail(pfx+".infohash", "%s: info-hash %s want %s", who, g.IH, w.IH)
	}
	if g.Name != w.Name {
		r.fail(pfx+".name", "%s: name %q want %q", who, g.Name, w.Name)
	}
	if g.Port != w.Port {
		r.fail(pfx+".port", "%s: port offset %d want %d", who, g.Port-r.base, w.Port-r.base)
	}
	if !tiersEqual(g.Trackers, w.Trackers) {
		r.fail(pfx+".trackers", "%s: trackers %q want %q", who, g.Trackers, w.Trackers)
	}
	if !stringsEqual(g.Webseeds, w.Webseeds) {
		r.fail(pfx+".webseeds", "%s: web seeds %q want %q", who, g.Webseeds, w.Webseeds)
	}
	if g.Opt != w.Opt {
		r.fail(pfx+".options", "%s: (StopAfterDownload,StopAfterMetadata,Sequential)=%v want %v", who, g.Opt, w.Opt)
	}
	if g.Ctr != w.Ctr {
		r.fail(pfx+".counters", "%s: (downloaded,uploaded,wasted,seededFor)=%v want %v", who, g.Ctr, w.Ctr)
	}
	if g.HasInfo != w.HasInfo {
		r.fail(pfx+".metadata", "%s: has metadata=%v want %v", who, g.HasInfo, w.HasInfo)
	}
	if withStarted {
		if g.Err != "" {
			r.res.Harness = fmt.Sprintf("history %s: %s stopped with error %q (environment problem)", histString(r.hist[:r.step]), who, g.Err)
			return
		}
		if g.started() != (w.Started && !w.Idle) {
			r.fail(pfx+".started", "%s: status %s but started flag is %v (session resumed on startup: %v)", who, g.Status, w.Started, !w.Idle)
		}
	}
}

func (r *runner) doAdd(o op) {
	var sp addSpec
	var wantOK bool
	var class string
	free := 3 - len(r.m.Live)
	switch o.K {
	case "addT", "addM":
		sp = addSpecOf(o.T)
		switch {
		case free == 0:
			class = "noport"
		case sp.id != "" && r.m.byID(sp.id) != nil:
			class = "dup"
		default:
			wantOK = true
		}
	case "badT", "badM":
		sp = addSpecOf("a")
		sp.id = "g"
		class = "garbage"
	case "stoT":
		sp = addSpecOf("a")
		sp.id = "bad"
		class = "storage"
		if free == 0 {
			class = "noport"
		}
	case "stoM":
		sp = addSpecOf("m")
		sp.id = "bad"
		class = "storage"
		if free == 0 {
			class = "noport"
		}
	}
	opt := &torrent.AddTorrentOptions{ID: sp.id, Stopped: sp.stopped, StopAfterDownload: sp.opt[0], StopAfterMetadata: sp.opt[1], Sequential: sp.opt[2]}
	var t *torrent.Torrent
	var err error
	switch o.K {
	case "addT", "stoT":
		t, err = r.s.AddTorrent(bytes.NewReader(sp.fix.Bytes), opt)
	case "badT":
		t, err = r.s.AddTorrent(bytes.NewReader([]byte("d4:infoi7e3:zzz")), opt)
	case "addM", "stoM":
		t, err = r.s.AddURI(sp.fix.Magnet, opt)
	case "badM":
		t, err = r.s.AddURI("magnet:?xt=urn:btih:nothex&dn=x", opt)
	}
	if err != nil {
		r.cnt("add_failed_" + class)
		if wantOK {
			r.fail("C14.seq.outcome.add-refused", "%s failed (%v) although the id is unused and %d port(s) are free", o, err, free)
		}
		return
	}
	if t == nil {
		r.fail("C14.seq.outcome.add-nil", "%s returned neither a torrent nor an error", o)
		return
	}
	if !wantOK {
		r.fail("C14.seq.outcome.add-accepted."+class, "%s succeeded (id %q, port offset %d) although it must fail (%s)", o, t.ID(), t.Port()-r.base, class)
	}
	r.cnt("add_ok")
	if sp.id != "" && t.ID() != sp.id {
		r.fail("C14.seq.outcome.add-id", "%s returned id %q", o, t.ID())
	}
	t.VerifC14AddCounters(sp.ctr[0], sp.ctr[1], sp.ctr[2], sp.ctr[3])
	slot := o.T
	if slot == "" {
		slot = "x-" + o.K
	}
	mt := &mtor{ID: t.ID(), Slot: slot, IH: sp.fix.IH, Name: sp.fix.Name, Port: t.Port(), Started: !sp.stopped,
		Trackers: append([][]string{}, sp.fix.Trackers...), Webseeds: sp.fix.Webseeds, Opt: sp.opt, Ctr: sp.ctr, HasInfo: sp.fix.HasInfo}
	if old := r.m.byID(mt.ID); old != nil {
		r.m.remove(old) // an accepted duplicate replaces the registry entry (already reported above)
	}
	r.m.Live = append(r.m.Live, mt)
	if mt.Started {
		mt.EverStarted = true
		r.settle(t, "running", running(mt.HasInfo))
	}
}

// doMoveIn: another session hands the torrent "v" over (the target side of Torrent.Move): multipart form of id, the
// resume record as JSON, and a tar of the data. The record carries the port the torrent had in the SOURCE session:
// a port that a torrent of this session owns, one that is free here, or one outside this session's range.
func (r *runner) doMoveIn(o op) {
	owned := r.m.owned()
	freeBefore := map[int]bool{}
	for p := r.base; p < r.base+3; p++ {
		if _, ok := owned[p]; !ok {
			freeBefore[p] = true
		}
	}
	srcPort := r.base + 7 // "out"
	switch o.T {
	case "own":
		for p := r.base; p < r.base+3; p++ {
			if id, ok := owned[p]; ok && id != "v" {
				srcPort = p
				break
			}
		}
	case "free":
		for p := r.base + 2; p >= r.base; p-- { // the highest free port (the session hands out ports in its own order)
			if freeBefore[p] {
				srcPort = p
				break
			}
		}
	}
	ih, _ := hex.DecodeString(fixV.IH)
	trk := [][]string{{"http://127.0.0.1:1/announce?v=0"}}
	ctr := [4]int64{5001, 5002, 5003, int64(5 * time.Second)}
	spec := boltdbresumer.Spec{InfoHash: ih, Port: srcPort, Name: fixV.Name, Trackers: trk, Info: fixV.Info, AddedAt: time.Unix(1700000000, 0).UTC(),
		BytesDownloaded: ctr[0], BytesUploaded: ctr[1], BytesWasted: ctr[2], SeededFor: time.Duration(ctr[3]), Started: false, Sequential: true, Version: boltdbresumer.LatestVersion}
	meta, err := json.Marshal(spec)
	if err != nil {
		r.res.Harness = "marshal spec: " + err.Error()
		return
	}
	var body bytes.Buffer
	mw := multipart.NewWriter(&body)
	mw.WriteField("id", "v")
	pw, _ := mw.CreateFormField("metadata")
	pw.Write(meta)
	pw, _ = mw.CreateFormField("data")
	tw := tar.NewWriter(pw)
	tw.Close() // no data files: the torrent arrives stopped and without pieces
	mw.Close()
	req := httptest.NewRequest("POST", "/move-torrent", &body)
	req.Header.Set("Content-Type", mw.FormDataContentType())
	old := r.m.find("v")
	if old != nil {
		freeBefore[old.Port] = true // an existing torrent of that id is replaced: its port is given back first or kept
	}
	code, msg := r.s.VerifC14MoveIn(req)
	nfree := len(freeBefore)
	if old != nil {
		nfree-- // the port is taken before the old torrent is removed
	}
	if code != 200 {
		r.cnt("move_failed")
		if nfree > 0 {
			r.fail("C14.seq.move.refused", "%s: the target answered %d %q although %d port(s) are free", o, code, strings.TrimSpace(msg), nfree)
		}
		if old != nil && r.s.GetTorrent("v") == nil {
			r.m.remove(old)
		}
		return
	}
	r.cnt("move_ok")
	r.cnt("move_ok_" + o.T)
	if old != nil {
		r.m.remove(old)
	}
	t := r.s.GetTorrent("v")
	if t == nil {
		r.fail("C14.seq.move.lost", "%s: the target answered 200 but has no torrent %q", o, "v")
		return
	}
	if !freeBefore[t.Port()] {
		r.fail("C14.seq.move.port", "%s: the moved torrent got port offset %d, which was not a free port of this session (the record carried offset %d from the source session)", o, t.Port()-r.base, srcPort-r.base)
	}
	r.m.Live = append(r.m.Live, &mtor{ID: "v", Slot: "v", IH: fixV.IH, Name: fixV.Name, Port: t.Port(), Started: false, Trackers: trk,
		Opt: [3]bool{false, false, true}, Ctr: ctr, HasInfo: true, Loaded: true})
}

func (r *runner) apply(o op) {
	switch o.K {
	case "addT", "addM", "badT", "badM", "stoT", "stoM":
		r.doAdd(o)
	case "rm":
		w := r.m.find(o.T)
		id := "absent-" + o.T
		if w != nil {
			id = w.ID
		} else if o.T != "auto" {
			id = o.T
		}
		err := r.s.RemoveTorrent(id, o.Keep)
		if w != nil {
			r.cnt("rm_live")
			r.m.remove(w)
			if err != nil {
				r.fail("C14.seq.outcome.remove-error", "RemoveTorrent(%q) of a live torrent returned %v", id, err)
			}
		} else {
			r.cnt("rm_absent")
			if err != nil {
				r.fail("C14.seq.outcome.remove-absent-error", "RemoveTorrent(%q) of an absent id returned %v", id, err)
			}
		}
	case "start", "stop", "trk":
		w := r.m.find(o.T)
		if w == nil {
			r.res.Harness = "op " + o.String() + " scheduled without a live target"
			return
		}
		t := r.s.GetTorrent(w.ID)
		if t == nil {
			r.fail("C14.seq.registry.lookup", "GetTorrent(%q) is nil for a torrent that the history implies is live", w.ID)
			return
		}
		switch o.K {
		case "start":
			if err := t.Start(); err != nil {
				r.fail("C14.seq.outcome.start-error", "Start(%q): %v", w.ID, err)
				return
			}
			r.cnt("start")
			w.Started = true
			w.Idle = false
			w.EverStarted = true
			r.settle(t, "running", running(w.HasInfo))
		case "stop":
			if err := t.Stop(); err != nil {
				r.fail("C14.seq.outcome.stop-error", "Stop(%q): %v", w.ID, err)
				return
			}
			r.cnt("stop")
			w.Started = false
			w.Idle = false
			r.settle(t, "stopped", stopped)
		case "trk":
			uri := trackerURI(o.T, len(w.Trackers))
			if err := t.AddTracker(uri); err != nil {
				r.fail("C14.seq.outcome.addtracker-error", "AddTracker(%q,%q): %v", w.ID, uri, err)
				return
			}
			r.cnt("addtracker")
			w.Trackers = append(w.Trackers, []string{uri})
		}
	case "fs":
		// marker (first op of a history): the runner was built with rain's own file storage provider
	case "mv":
		r.doMoveIn(o)
	case "compact":
		r.doCompact()
	case "reopen":
		r.doReopen(true)
	case "reopenN":
		r.noResume = true
		r.doReopen(true)
	case "reopenX":
		r.doReopenRefused()
	default:
		r.res.Harness = "unknown op " + o.K
	}
}

// closedDBIDs reads the bucket names (and started flags) from a closed database file, read-only.
func closedDBIDs(path string) (ids []string, started map[string]string, err error) {
	db, err := bbolt.Open(path, 0o600, &bbolt.Options{ReadOnly: true, Timeout: 2 * time.Second})
	if err != nil {
		return nil, nil, err
	}
	defer db.Close()
	started = map[string]string{}
	err = db.View(func(tx *bbolt.Tx) error {
		b := tx.Bucket([]byte("torrents"))
		if b == nil {
			return nil
		}
		return b.ForEach(func(k, v []byte) error {
			if v != nil {
				ids = append(ids, "!key:"+string(k))
				return nil
			}
			ids = append(ids, string(k))
			if sb := b.Bucket(k); sb != nil {
				started[string(k)] = string(sb.Get([]byte("started")))
			}
			return nil
		})
	})
	sort.Strings(ids)
	return
}

func (r *runner) modelIDs() []string {
	var ids []string
	for _, w := range r.m.Live {
		ids = append(ids, w.ID)
	}
	sort.Strings(ids)
	return ids
}

// closeAndCheckFile closes the session and compares the closed database file with the model.
func (r *runner) closeAndCheckFile(inspect bool) bool {
	err := r.s.Close()
	r.s = nil
	if err != nil {
		r.fail("C14.seq.close.error", "Session.Close: %v", err)
		return false
	}
	if !inspect {
		return true
	}
	ids, started, err := closedDBIDs(r.cfg.Database)
	if err != nil {
		r.res.Harness = "cannot read closed db: " + err.Error()
		return false
	}
	if want := r.modelIDs(); !stringsEqual(ids, want) {
		r.fail("C14.seq.db.closed-ids", "after Close the database holds buckets %q, the session held %q", ids, want)
	}
	for _, w := range r.m.Live {
		if v, ok := started[w.ID]; ok && v != strconv.FormatBool(w.Started) {
			r.fail("C14.seq.db.started-flag", "after Close the record of %s (id %q) has started=%q want %v", w.Slot, w.ID, v, w.Started)
		}
	}
	return true
}

// doReopenRefused: Close, then NewSession with a storage provider that refuses torrent "a": its record reads
// fine but cannot be loaded. The session must come up without it, report the id as invalid, hold no port for
// it; CleanDatabase then removes the record, and a plain restart follows.
func (r *runner) doReopenRefused() {
	w := r.m.find("a")
	if w == nil || !r.closeAndCheckFile(true) {
		return
	}
	r.cfg.CustomStorage = provider{root: r.cfg.DataDir, refuse: w.ID}
	err := r.openSession()
	r.cfg.CustomStorage = provider{root: r.cfg.DataDir}
	if err != nil {
		r.fail("C14.seq.reopen.error", "NewSession on the same database with one unloadable record: %v", err)
		r.res.Harness = "cannot continue: " + err.Error()
		return
	}
	r.cnt("reopen_refused")
	if inv := r.s.VerifC14InvalidIDs(); !stringsEqual(inv, []string{w.ID}) {
		r.fail("C14.seq.reopen-refused.invalid-ids", "storage refused %q at restart: invalid ids reported %q", w.ID, inv)
	}
	if err := r.s.CleanDatabase(); err != nil {
		r.fail("C14.seq.reopen-refused.clean", "CleanDatabase: %v", err)
	}
	r.m.remove(w)
	for _, x := range r.m.Live {
		if x.Started {
			x.Idle = false
			if t := r.s.GetTorrent(x.ID); t != nil {
				x.EverStarted = true
				r.settle(t, "running after restart", running(x.HasInfo))
			}
		}
	}
	r.checkRegistry(r.s, r.m.Live, "C14.seq.reopen-refused", false)
	r.doReopen(false)
}

// doReopen: Close, inspect the file, NewSession on the same file, compare every torrent with its record.
func (r *runner) doReopen(counted bool) {
	// the closed file is inspected read-only for the explicit operation; the implicit final restart relies on
	// NewSession itself (an orphan or missing bucket shows up as restart.extra / restart.missing)
	if !r.closeAndCheckFile(counted) {
		if r.s == nil && r.res.Harness == "" {
			// Close failed: try to continue with a new session anyway
			if err := r.openSession(); err != nil {
				r.res.Harness = "reopen after failed close: " + err.Error()
			}
		}
		return
	}
	noResume := r.noResume
	r.noResume = false
	r.cfg.ResumeOnStartup = !noResume
	err := r.openSession()
	r.cfg.ResumeOnStartup = true
	if err != nil {
		r.fail("C14.seq.reopen.error", "NewSession on the same database: %v", err)
		r.res.Harness = "cannot continue: " + err.Error()
		return
	}
	if counted {
		r.cnt("reopen")
	}
	if noResume {
		r.cnt("reopen_noresume")
	}
	if inv := r.s.VerifC14InvalidIDs(); len(inv) > 0 {
		r.fail("C14.seq.restart.unloadable", "records %q could not be loaded after restart", inv)
	}
	byID := map[string]*torrent.Torrent{}
	for _, t := range r.s.ListTorrents() {
		byID[t.ID()] = t
	}
	for _, w := range r.m.Live {
		w.Loaded = true
		t := byID[w.ID]
		if t == nil {
			r.fail("C14.seq.restart.missing", "torrent %s (id %q) did not reappear after restart", w.Slot, w.ID)
			continue
		}
		// exact: ResumeOnStartup starts a torrent synchronously inside NewSession; one that is Stopped
		// without an error right after NewSession was not started.
		st := t.Stats()
		w.Idle = noResume && w.Started
		if w.Idle {
			// not resumed: must be Stopped (compareTorrent), the record keeps the flag (checked at the next Close)
		} else if w.Started && st.Status == torrent.Stopped && st.Error == nil {
			r.fail("C14.seq.restart.started", "torrent %s (id %q) was started before the restart and is Stopped after it", w.Slot, w.ID)
		} else if w.Started {
			w.EverStarted = true
			r.settle(t, "running after restart", running(w.HasInfo))
		}
		r.compareTorrent("C14.seq.restart", w, t, true)
		r.cnt("restart_compared")
	}
	for id := range byID {
		if r.m.byID(id) == nil {
			r.fail("C14.seq.restart.extra", "torrent %q appeared after restart although it was not in the session before", id)
		}
	}
}

func topRepoFrame(st string) string {
	lines := strings.Split(st, "\n")
	for i, ln := range lines {
		if strings.Contains(ln, "/repo/") && !strings.Contains(ln, "zzverif") && !strings.Contains(ln, "zz_verif") && i > 0 {
			fn := strings.TrimSpace(lines[i-1])
			if j := strings.LastIndexByte(fn, '('); j > 0 {
				fn = fn[:j]
			}
			if j := strings.LastIndexByte(fn, '/'); j >= 0 {
				fn = fn[j+1:]
			}
			return fn
		}
	}
	return "unknown"
}

func (r *runner) doCompact() {
	r.nComp++
	out := filepath.Join(r.shm, fmt.Sprintf("compact%d.db", r.nComp))
	var perr any
	var stack string
	err := func() (err error) {
		defer func() {
			if p := recover(); p != nil {
				perr = p
				buf := make([]byte, 8192)
				stack = string(buf[:runtime.Stack(buf, false)])
			}
		}()
		return r.s.CompactDatabase(out)
	}()
	if perr != nil {
		r.cnt("compact_panicked")
		var never []string
		for _, w := range r.m.Live {
			if w.HasInfo && !w.EverStarted {
				never = append(never, w.Slot)
			}
		}
		r.fail("C14.compact.panic."+topRepoFrame(stack), "CompactDatabase panics: %v (torrents with metadata that never ran: %v)", perr, never)
		os.Remove(out)
		return
	}
	if err != nil {
		r.fail("C14.compact.error", "CompactDatabase: %v", err)
		return
	}
	r.cnt("compact_ok")
	ids, started, err := closedDBIDs(out)
	if err != nil {
		r.fail("C14.compact.unreadable", "compacted file cannot be opened read-only: %v", err)
		return
	}
	var want []*mtor
	for _, w := range r.m.Live {
		if w.HasInfo {
			want = append(want, w)
		} else {
			dropped := true
			for _, id := range ids {
				if id == w.ID {
					dropped = false
				}
			}
			if dropped {
				r.cnt("compact_dropped_magnet")
			} else {
				r.cnt("compact_kept_magnet")
			}
		}
	}
	cfg2 := r.cfg
	cfg2.Database = out
	cfg2.ResumeOnStartup = false // the original session is alive and owns the listeners
	s2, err := torrent.NewSession(cfg2)
	if err != nil {
		r.fail("C14.compact.load-error", "NewSession on the compacted file: %v", err)
		return
	}
	defer func() {
		s2.Close()
		os.Remove(out)
	}()
	if inv := s2.VerifC14InvalidIDs(); len(inv) > 0 {
		r.fail("C14.compact.unloadable", "records %q of the compacted file could not be loaded", inv)
	}
	byID := map[string]*torrent.Torrent{}
	for _, t := range s2.ListTorrents() {
		byID[t.ID()] = t
	}
	for _, w := range want {
		t := byID[w.ID]
		if t == nil {
			r.fail("C14.compact.missing", "torrent %s (id %q) has metadata but is not in the compacted database (buckets %q)", w.Slot, w.ID, ids)
			continue
		}
		r.compareTorrent("C14.compact", w, t, false)
		if v := started[w.ID]; v != strconv.FormatBool(w.Started) {
			r.fail("C14.compact.started", "torrent %s (id %q): compacted record has started=%q want %v", w.Slot, w.ID, v, w.Started)
		}
		r.cnt("compact_compared")
	}
}

// runHistory executes ops on a fresh session, checking every oracle after every operation.
func runHistory(ops []op, base, seq int) (res *histResult) {
	r, err := newRunner(base, seq, len(ops) > 0 && ops[0].K == "fs")
	if err != nil {
		return &histResult{Harness: err.Error()}
	}
	res = r.res
	r.hist = ops
	defer r.cleanup()
	defer func() {
		if r.s != nil {
			r.s.Close()
		}
	}()
	tOpen := time.Now()
	if err := r.openSession(); err != nil {
		res.Harness = "NewSession: " + err.Error()
		return
	}
	if os.Getenv("VERIF_C14_TIMING") != "" {
		res.Trace = append(res.Trace, fmt.Sprintf("open took %v", time.Since(tOpen)))
	}
	r.checkRegistry(r.s, r.m.Live, "C14.seq", true)
	for i, o := range ops {
		r.step = i + 1
		before := len(res.Viol)
		t0 := time.Now()
		r.apply(o)
		if os.Getenv("VERIF_C14_TIMING") != "" {
			res.Trace = append(res.Trace, fmt.Sprintf("apply %s took %v", o, time.Since(t0)))
		}
		if res.Harness != "" {
			return
		}
		if r.s == nil {
			res.Harness = "no session after " + o.String()
			return
		}
		r.checkRegistry(r.s, r.m.Live, "C14.seq", true)
		if res.Harness != "" {
			return
		}
		res.Trace = append(res.Trace, fmt.Sprintf("%s -> %s%s", o, r.m.key(r.base), map[bool]string{true: " !", false: ""}[len(res.Viol) > before]))
	}
	res.Key = r.m.key(r.base)
	res.Next = r.m.nextOps()
	// implicit final restart (not an operation of the history; Loaded flags are not part of Key above)
	tFin := time.Now()
	defer func() {
		if os.Getenv("VERIF_C14_TIMING") != "" {
			res.Trace = append(res.Trace, fmt.Sprintf("final restart+close took %v", time.Since(tFin)))
		}
	}()
	if len(ops) == 0 || ops[len(ops)-1].K != "reopen" {
		r.doReopen(false)
		if res.Harness != "" {
			return
		}
		if r.s != nil {
			r.checkRegistry(r.s, r.m.Live, "C14.seq", true)
		}
	}
	if r.s != nil {
		if len(ops) > 0 && ops[len(ops)-1].K == "reopen" {
			r.closeAndCheckFile(true)
		} else {
			// the file was inspected before the implicit restart; nothing but the restart happened since
			err := r.s.Close()
			r.s = nil
			if err != nil {
				r.fail("C14.seq.close.error", "Session.Close: %v", err)
			}
		}
	}
	return
}

// ---------------------------------------------------------------------------------------------
// port-range slots (one per worker process, held by flock for the life of the process)

var slotFile *os.File

func acquirePortBase() (int, error) {
	for i := 0; i < 400; i++ {
		f, err := os.OpenFile(fmt.Sprintf("/dev/shm/verif-c14-slot-%d", i), os.O_CREATE|os.O_RDWR, 0o644)
		if err != nil {
			return 0, err
		}
		if syscall.Flock(int(f.Fd()), syscall.LOCK_EX|syscall.LOCK_NB) == nil {
			slotFile = f
			return 22000 + 10*i, nil
		}
		f.Close()
	}
	return 0, errors.New("no free port-range slot")
}

// ---------------------------------------------------------------------------------------------
// coordinator

// cleanupLeftovers removes scratch directories of worker processes that died, and the slot files.
func cleanupLeftovers() {
	for _, root := range []string{"/dev/shm", os.Getenv("VERIF_TMP")} {
		ents, _ := filepath.Glob(filepath.Join(root, "c14-*-*"))
		for _, e := range ents {
			parts := strings.Split(filepath.Base(e), "-")
			if len(parts) != 3 {
				continue
			}
			if _, err := os.Stat("/proc/" + parts[1]); err != nil {
				os.RemoveAll(e)
			}
		}
	}
	slots, _ := filepath.Glob("/dev/shm/verif-c14-slot-*")
	for _, f := range slots {
		if fh, err := os.OpenFile(f, os.O_RDWR, 0); err == nil {
			if syscall.Flock(int(fh.Fd()), syscall.LOCK_EX|syscall.LOCK_NB) == nil {
				os.Remove(f) // nobody holds it
			}
			fh.Close()
		}
	}
}

func TestC14Seq(t *testing.T) {
	metrics.UseNilMetrics = false // per-torrent transfer counters are go-metrics counters; nil metrics would make them vacuous
	torrent.DisableLogging()
	if core.IsWorker() {
		base, err := acquirePortBase()
		if err != nil {
			core.HarnessError("%v", err)
		}
		seq := 0
		if pp := os.Getenv("VERIF_C14_PPROF"); pp != "" {
			f, _ := os.Create(fmt.Sprintf("%s.%d", pp, os.Getpid()))
			pprof.StartCPUProfile(f)
			go func() { time.Sleep(3 * time.Second); pprof.StopCPUProfile(); f.Close() }()
		}
		core.WorkerMain(func(job core.Job) json.RawMessage {
			var ops []op
			if err := json.Unmarshal(job.Data, &ops); err != nil {
				core.HarnessError("bad job: %v", err)
			}
			seq++
			res := runHistory(ops, base, seq)
			b, _ := json.Marshal(res)
			return b
		})
		return
	}
	rep := core.NewReport("C14", "seq", "model_checking")
	// private scratch root (the shared $VERIF_TMP is also cleaned by other checks' runs)
	if os.Getenv("VERIF_TMP") == "" {
		core.HarnessError("VERIF_TMP not set")
	}
	if stale, _ := filepath.Glob(filepath.Join(os.Getenv("VERIF_TMP"), "c14seq-*-*")); len(stale) > 0 {
		for _, d := range stale { // left behind by an aborted run of this check
			if parts := strings.Split(filepath.Base(d), "-"); len(parts) == 3 {
				if _, err := os.Stat("/proc/" + parts[1]); err != nil {
					os.RemoveAll(d)
				}
			}
		}
	}
	scratch, err := os.MkdirTemp(os.Getenv("VERIF_TMP"), fmt.Sprintf("c14seq-%d-", os.Getpid()))
	if err != nil {
		core.HarnessError("%v", err)
	}
	os.Setenv("VERIF_TMP", scratch)
	seqDepth, fullHouseDepth, bfsDepth, moveDepth := 3, 2, 0, 3
	if core.Thorough() {
		bfsDepth = 5
		moveDepth = 4
	}
	if v := os.Getenv("VERIF_C14_DEPTH"); v != "" { // debugging aid: shrink/grow the main bound
		n, _ := strconv.Atoi(v)
		if core.Thorough() {
			bfsDepth = n
		} else {
			seqDepth = n
		}
	}
	rep.Rule = fmt.Sprintf("operation histories on a real torrent.Session with a 3-port range; alphabet = AddTorrent{id a (stopped, opts), id b (started), auto id}, AddURI{magnet id m}, "+
		"failing adds {garbage bytes, garbage magnet, storage-provider error via AddTorrent and via AddURI; duplicate id and no-free-port arise from state}, "+
		"RemoveTorrent{a,b,m,first auto} x {keep,delete} (also of absent ids), Start/Stop/AddTracker on each live target, CompactDatabase (+load the compacted file in a second session), Close+NewSession, Close+NewSession with a storage provider that refuses torrent a (record reads fine, cannot be loaded: session without it, id reported invalid, no port held) + CleanDatabase + plain restart, Close+NewSession without resume-on-startup (started torrents stay Stopped, their started flag stays true until Stop). "+
		"Enumerated: every applicable sequence of length <= %d without de-duplication, plus every sequence of length <= %d after the full-house prefix [addT:a addT:b addM:m]; "+
		"thorough adds a BFS to depth %d in which a state (sorted (slot, port offset, started, #trackers, name, ever-ran, loaded-from-db, not-resumed) + free ports) is expanded once. "+
		"Every history runs on a fresh database and temp dir; all oracles run after every operation; an implicit Close+reopen+compare ends every history. distinct = distinct canonical states.",
		seqDepth, fullHouseDepth, bfsDepth)
	rep.Assumptions = []string{
		"torrent payloads: two fixed single-file torrents (one shared by ids a/auto) and one magnet; no peers, so nothing completes and StopAfter* options are never consumed",
		"transfer counters are injected through an in-package hook (Counter.Inc), as peers' traffic would; resume data is written by Close only (ResumeWriteInterval 24h)",
		"after Start/Stop the harness waits (bounded polling, cap on expiry) for Downloading/Stopped before the next operation, so CompactDatabase never races a starting torrent",
		"failure of resumer.Write after newTorrent (third release path in addTorrentStopped/addMagnet) is not reachable without fault injection and is not covered",
		"state de-duplication (thorough) assumes behaviour depends only on the canonical key; left-over data files of removed torrents are not part of the key",
		"go-metrics real counters (UseNilMetrics=false); loopback tracker/web-seed URLs on port 1 (connection refused)",
	}
	type agg struct {
		v     viol
		count int
	}
	best := map[string]*agg{}
	noteViol := func(v viol) {
		a := best[v.Key]
		if a == nil {
			best[v.Key] = &agg{v: v, count: 1}
			return
		}
		a.count++
		if len(v.Hist) < len(a.v.Hist) || (len(v.Hist) == len(a.v.Hist) && histString(v.Hist) < histString(a.v.Hist)) {
			a.v = v
		}
	}
	totals := map[string]int64{}
	seen := map[string]bool{}
	var transitions, traces int64
	opClasses := map[string]bool{}

	runLevel := func(hists [][]op) []*histResult {
		jobs := make([]core.Job, len(hists))
		for i, h := range hists {
			b, _ := json.Marshal(h)
			jobs[i] = core.Job{ID: i, Data: b}
		}
		results := core.RunSharded("TestC14Seq", jobs, 30*time.Second)
		out := make([]*histResult, len(hists))
		for _, res := range results {
			h := hists[res.ID]
			if res.Hang {
				rep.Cap(fmt.Sprintf("history %s exceeded the worker wall budget", histString(h)))
				continue
			}
			if res.Crash != "" {
				noteViol(viol{Key: "C14.seq.crash." + topRepoFrame(res.Crash), Desc: fmt.Sprintf("history %s: process crashed: %s", histString(h), tailStr(res.Crash, 1500)), Hist: h})
				continue
			}
			var hr histResult
			if err := json.Unmarshal(res.Data, &hr); err != nil {
				core.HarnessError("bad worker result for %s: %v", histString(h), err)
			}
			if hr.Harness != "" {
				core.HarnessError("%s (history %s)", hr.Harness, histString(h))
			}
			out[res.ID] = &hr
		}
		for i, hr := range out {
			if hr == nil {
				continue
			}
			traces++
			transitions += int64(len(hists[i]))
			if hr.Cap != "" {
				rep.Cap(hr.Cap)
			}
			for _, v := range hr.Viol {
				noteViol(v)
			}
			for k, n := range hr.Ctr {
				totals[k] += n
			}
			for _, o := range hists[i] {
				opClasses[o.String()] = true
			}
		}
		return out
	}

	explore := func(tag string, prefix []op, depth int, dedup bool, sampleEvery int) {
		visited := map[string]bool{} // de-duplication is local to one exploration
		res0 := runLevel([][]op{append([]op{}, prefix...)})
		if res0[0] == nil {
			return
		}
		seen[res0[0].Key] = true
		visited[res0[0].Key] = true
		nexts := [][]op{}
		for _, o := range res0[0].Next {
			nexts = append(nexts, append(append([]op{}, prefix...), o))
		}
		for d := 1; d <= depth && len(nexts) > 0; d++ {
			results := runLevel(nexts)
			var nn [][]op
			for i, hr := range results {
				if hr == nil {
					continue
				}
				if sampleEvery > 0 && i%sampleEvery == 0 {
					rep.Sample(8, map[string]any{"history": histString(nexts[i]), "trace": hr.Trace})
				}
				isNew := !visited[hr.Key]
				visited[hr.Key] = true
				seen[hr.Key] = true
				if d == depth || (dedup && !isNew) {
					continue
				}
				for _, o := range hr.Next {
					nn = append(nn, append(append([]op{}, nexts[i]...), o))
				}
			}
			rep.Extra[fmt.Sprintf("%s_histories_of_length_%d", tag, len(prefix)+d)] = int64(len(nexts))
			nexts = nn
		}
		if dedup {
			rep.Extra[tag+"_states"] = int64(len(visited))
		}
	}

	explore("seq", nil, seqDepth, false, 577)
	if fullHouseDepth > 0 {
		explore("fullhouse", []op{{K: "addT", T: "a"}, {K: "addT", T: "b"}, {K: "addM", T: "m"}}, fullHouseDepth, false, 211)
	}
	explore("move", []op{{K: "fs"}}, moveDepth, false, 97)
	if bfsDepth > 0 {
		explore("bfs", nil, bfsDepth, true, 0)
	}
	cleanupLeftovers()
	os.RemoveAll(scratch)

	rep.States = int64(len(seen))
	rep.Transitions = transitions
	rep.TracesImpl = traces
	rep.Evaluations = traces
	rep.Distinct = int64(len(seen))
	for k, n := range totals {
		rep.Extra[k] = n
	}
	rep.Extra["distinct_operations_used"] = int64(len(opClasses))
	rep.Extra["bounds"] = fmt.Sprintf("all sequences<=%d; full-house prefix + <=%d; dedup BFS depth %d; ports=3", seqDepth, fullHouseDepth, bfsDepth)
	for _, k := range []string{"add_ok", "add_failed_garbage", "add_failed_storage", "add_failed_dup", "add_failed_noport", "move_ok_own", "move_ok_free", "move_ok_out", "rm_live", "rm_absent", "start", "stop", "addtracker", "reopen", "reopen_refused", "reopen_noresume", "restart_compared"} {
		if totals[k] == 0 {
			rep.Vacuous("vacuous: counter %s is zero", k)
		}
	}
	if totals["compact_ok"]+totals["compact_panicked"] == 0 {
		rep.Vacuous("vacuous: CompactDatabase never ran")
	}
	keys := make([]string, 0, len(best))
	for k := range best {
		keys = append(keys, k)
	}
	sort.Slice(keys, func(i, j int) bool {
		a, b := best[keys[i]], best[keys[j]]
		if len(a.v.Hist) != len(b.v.Hist) {
			return len(a.v.Hist) < len(b.v.Hist)
		}
		return keys[i] < keys[j]
	})
	for _, k := range keys {
		a := best[k]
		for i := 0; i < a.count; i++ {
			rep.Violate(k, a.v.Desc, map[string]any{"history": a.v.Hist, "how": "runHistory(history) in engine/registry/c14_seq_test.go"})
		}
	}
	rep.Finish()
}

func tailStr(s string, n int) string {
	if len(s) > n {
		return s[len(s)-n:]
	}
	return s
}

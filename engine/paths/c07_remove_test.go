//go:build verif

package paths

import (
	"bytes"
	"fmt"
	"os"
	"path/filepath"
	"sort"
	"strconv"
	"strings"
	"sync"
	"testing"
	"time"

	"github.com/cenkalti/rain/v2/internal/allocator"
	"github.com/cenkalti/rain/v2/internal/logger"
	"github.com/cenkalti/rain/v2/internal/metainfo"
	"github.com/cenkalti/rain/v2/torrent"
	"github.com/cenkalti/rain/v2/zzverif/core"
	"github.com/cenkalti/rain/v2/zzverif/refcodec"
)

// TestC07Remove: the deletion side of path confinement. A hostile-named torrent is added (stopped) to a
// real Session, its files are materialised by the real allocator over the session's storage, and
// Session.RemoveTorrent(id, keepData=false) is called. Oracle: removal deletes or changes nothing that
// existed before the torrent was added (sentinel files outside the data directory, and — with
// DataDirIncludesTorrentID=false — another torrent's data inside the shared data directory).
func TestC07Remove(t *testing.T) {
	logger.Disable()
	rep := core.NewReport("C07", "paths-remove", "exploration")
	L := 3
	if core.Thorough() {
		L = 4
	}
	rep.Rule = fmt.Sprintf("every torrent name in S(%d) (all strings of length<=%d over {'a','.','/',' ','\\\\',0x00,0xff}) plus %d tricky strings, as single-file torrent and as multi-file torrent with one file \"a\", "+
		"with DataDirIncludesTorrentID on and off: Session.AddTorrent(stopped) -> real allocator over the session's storage -> Session.RemoveTorrent(id, keepData=false) in a sandbox tree compared as a whole. "+
		"Non-trivial = accepted by AddTorrent; distinct = distinct (name, mode, shape) accepted.", L, L, len(trickyStrings()))
	rep.Assumptions = []string{
		"Linux path semantics",
		"with DataDirIncludesTorrentID=false two torrents with the same cleaned name share a directory by design; the foreign data in the sandbox uses names outside the enumerated set",
		"deleting is not listed literally in the property statement (create/truncate/read/write); this part treats deletion of files outside the torrent's own directory as the same confinement breach",
	}
	tmp := os.Getenv("VERIF_TMP")
	if tmp == "" {
		tmp = "/verif/.build/tmp"
	}
	base, err := os.MkdirTemp(tmp, "c07rm-")
	if err != nil {
		core.HarnessError("mkdir: %v", err)
	}
	defer os.RemoveAll(base)
	// the sessions' resume databases are not part of the sandbox; they live on tmpfs (one fsync per add/remove)
	dbDir, err := os.MkdirTemp("/dev/shm", "c07rm-db-")
	if err != nil {
		dbDir = filepath.Join(base, "db")
	}
	defer os.RemoveAll(dbDir)
	e := &env{rep: rep, viol: &vagg{m: map[string]*vrec{}}, base: base, dist: map[uint64]struct{}{}}

	names := dedupe(append(allStrings(L), trickyStrings()...))
	var cases []tcase
	cases = append(cases, tcase{NoName: true, Family: "remove"}, tcase{NoName: true, Multi: true, Files: one("a"), Family: "remove"})
	for _, n := range names {
		cases = append(cases, tcase{Name: n, Family: "remove"}, tcase{Name: n, Multi: true, Files: one("a"), Family: "remove"})
	}
	nw := core.Parallelism()
	var wg sync.WaitGroup
	var next int64
	var nmu sync.Mutex
	for w := 0; w < nw; w++ {
		wg.Add(1)
		go func(w int) {
			defer wg.Done()
			var sbs [2]*sandbox
			var ses [2]*torrent.Session
			for m := 0; m < 2; m++ {
				sbs[m] = newSandbox(filepath.Join(base, fmt.Sprintf("rm%d-id%d", w, m)), m == 1)
				sbs[m].foreign = true
				cfg := *sessionConfig(sbs[m].dataDir(), m == 1)
				cfg.Database = filepath.Join(dbDir, fmt.Sprintf("w%d-%d.db", w, m))
				cfg.DHTEnabled = false
				cfg.RPCEnabled = false
				cfg.MaxOpenFiles = 0
				cfg.ResumeOnStartup = false
				cfg.PortBegin = uint16(30000 + (w*2+m)*100)
				cfg.PortEnd = cfg.PortBegin + 100
				s, err := torrent.NewSession(cfg)
				if err != nil {
					core.HarnessError("NewSession: %v", err)
				}
				ses[m] = s
			}
			for {
				nmu.Lock()
				i := next
				next++
				nmu.Unlock()
				if i >= int64(len(cases)) {
					break
				}
				for m := 0; m < 2; m++ {
					e.removeCheck(sbs[m], ses[m], &cases[i], i)
				}
			}
			for m := 0; m < 2; m++ {
				ses[m].Close()
				sbs[m].destroy()
			}
		}(w)
	}
	wg.Wait()
	for i := 0; i < len(cases); i += len(cases)/7 + 1 {
		rep.Sample(8, cases[i].String())
	}
	rep.Evaluations = e.get("remove_cases")
	rep.Distinct = e.get("remove_added")
	for _, k := range []string{"remove_cases", "remove_added", "remove_add_rejected", "remove_own_files_materialised", "remove_removed_all_own_files", "remove_left_own_files", "remove_errors", "remove_cases_foreign_damage"} {
		rep.Extra[k] = e.get(k)
	}
	var dn []string
	e.cnt.Range(func(k, v any) bool {
		if s := k.(string); strings.HasPrefix(s, "damaging-name ") {
			dn = append(dn, strings.TrimPrefix(s, "damaging-name "))
		}
		return true
	})
	sort.Strings(dn)
	if len(dn) > 60 {
		dn = append(dn[:60], fmt.Sprintf("... %d more", len(dn)-60))
	}
	rep.Extra["names_whose_removal_damages_foreign_data"] = dn
	if e.get("remove_added") == 0 || e.get("remove_removed_all_own_files") == 0 {
		os.RemoveAll(base)
		os.RemoveAll(dbDir)
		rep.Vacuous("vacuous remove part: added=%d removed-own=%d", e.get("remove_added"), e.get("remove_removed_all_own_files"))
	}
	if debugTiming {
		e.cnt.Range(func(k, v any) bool {
			if s := k.(string); strings.HasPrefix(s, "ns ") {
				fmt.Printf("TIMING %s %.1fs (summed over workers)\n", s, float64(e.get(s))/1e9)
			}
			return true
		})
	}
	e.viol.flush(rep)
	os.RemoveAll(base)
	os.RemoveAll(dbDir)
	rep.Finish()
}

var debugTiming = os.Getenv("C07_DEBUG") != ""

func (e *env) removeCheck(sb *sandbox, s *torrent.Session, tc *tcase, order int64) {
	t0 := time.Now()
	lap := func(what string) {
		if debugTiming {
			e.add("ns "+what, int64(time.Since(t0)))
			t0 = time.Now()
		}
	}
	root := sb.prepare()
	lap("prepare")
	e.add("remove_cases", 1)
	infoB := tc.infoBytes()
	tf := refcodec.Benc(refcodec.D("info", refcodec.Raw(infoB)))
	_, err := s.AddTorrent(bytes.NewReader(tf), &torrent.AddTorrentOptions{ID: torrentID, Stopped: true})
	lap("add")
	if err != nil {
		e.add("remove_add_rejected", 1)
		return
	}
	e.add("remove_added", 1)
	// materialise the torrent's files exactly as a started torrent would (real allocator, session storage)
	if info, err := metainfo.NewInfo(infoB, true, true); err == nil {
		if sto, err := torrent.VerifC07GetStorage(sessionConfig(sb.dataDir(), sb.idOn), torrentID); err == nil {
			rec := &recStorage{Storage: sto}
			func() {
				defer func() { recover() }()
				allocator.New().Run(info, rec, make(chan allocator.Progress, len(info.Files)+1), make(chan *allocator.Allocator, 1))
			}()
			for _, f := range rec.files {
				f.Close()
			}
		}
	}
	lap("alloc")
	mid := snapshot(sb.guard)
	lap("snap")
	var own []string
	for p := range mid {
		if _, ok := sb.baseline[p]; !ok {
			own = append(own, p)
		}
	}
	if len(own) > 0 {
		e.add("remove_own_files_materialised", 1)
	}
	rerr := s.RemoveTorrent(torrentID, false)
	lap("remove")
	if rerr != nil {
		e.add("remove_errors", 1)
	}
	after := snapshot(sb.guard)
	lap("snap")
	var damage []string
	var keys []string
	for p := range sb.baseline {
		keys = append(keys, p)
	}
	sort.Strings(keys)
	for _, p := range keys {
		m, inMid := mid[p]
		if !inMid {
			continue
		}
		a, inA := after[p]
		switch {
		case !inA:
			// report only the topmost removed entry of a removed subtree
			if _, parentGone := after[filepath.Dir(p)]; parentGone || p == sb.guard {
				damage = append(damage, fmt.Sprintf("REMOVED %q (was %s)", p, m))
			}
		case a != m:
			damage = append(damage, fmt.Sprintf("CHANGED %q (%s => %s)", p, m, a))
		}
	}
	if len(own) > 0 {
		left := 0
		for _, p := range own {
			if _, ok := after[p]; ok {
				left++
			}
		}
		if left == 0 {
			e.add("remove_removed_all_own_files", 1)
		} else {
			e.add("remove_left_own_files", 1)
		}
	}
	// the sandbox can be reused (only the data directory is wiped) unless something outside it changed
	for _, m := range []map[string]string{mid, after} {
		if out, _ := diffOutside(sb.baseline, m, root); len(out) > 0 {
			sb.dirty = true
		}
	}
	if len(damage) > 0 {
		sb.dirty = true
		e.add("remove_cases_foreign_damage", 1)
		nm := strconv.Quote(tc.Name)
		e.add("damaging-name "+nm, 1)
		mode := "idoff"
		if sb.idOn {
			mode = "idon"
		}
		e.viol.add("C07.remove.foreign-deleted."+mode, order,
			fmt.Sprintf("%s, DataDirIncludesTorrentID=%v, data dir <sandbox>%s: Session.RemoveTorrent(id, keepData=false) (err=%v) damaged entries that existed before the torrent was added: %s",
				tc, sb.idOn, strings.TrimPrefix(root, sb.top), rerr, relTo(sb.top, damage)),
			func() any {
				return tc.replay(map[string]any{"oracle": "remove", "data_dir_includes_torrent_id": sb.idOn, "damage": strings.Split(relTo(sb.top, damage), "; ")})
			})
	}
}

//go:build verif

// Package paths: C07 — path confinement. Bounded-exhaustive enumeration of hostile torrent names, path
// components, file counts, utf-8 override keys and DataDirIncludesTorrentID on/off against
//
//	(a) a pure oracle on every metainfo.Info the client accepts (every non-padding file resolves strictly
//	    inside the torrent's data directory; distinct files resolve to distinct paths),
//	(b) the real allocator over the real file storage the session would hand to the torrent, inside a
//	    sandbox directory tree whose complete before/after image is compared (plus the names of the
//	    *os.File objects the storage really opened),
//	(c) readData (tar extraction of a moved torrent) on generated tars, same tree comparison.
//
// A separate part (TestC07Remove, c07_remove_test.go) runs Session.RemoveTorrent(id, keepData=false) of
// hostile-named torrents on a real session against the same kind of tree comparison.
//
// Nothing is sampled; every member of the stated lattice is executed on the real code.
package paths

import (
	"crypto/sha1"
	"encoding/hex"
	"fmt"
	"hash/fnv"
	"os"
	"path/filepath"
	"runtime"
	"sort"
	"strconv"
	"strings"
	"sync"
	"sync/atomic"
	"testing"

	"github.com/cenkalti/rain/v2/internal/logger"
	"github.com/cenkalti/rain/v2/internal/metainfo"
	"github.com/cenkalti/rain/v2/zzverif/core"
	"github.com/cenkalti/rain/v2/zzverif/refcodec"
)

// ---------------------------------------------------------------- alphabet

// 'a' first so that the benign strings come first inside one length (simplest-first).
var alpha = []byte{'a', '.', '/', ' ', '\\', 0x00, 0xff}

// allStrings returns every string over alpha of length 0..maxLen, shortest first.
func allStrings(maxLen int) []string {
	out := []string{""}
	prev := []string{""}
	for l := 1; l <= maxLen; l++ {
		var cur []string
		for _, p := range prev {
			for _, c := range alpha {
				cur = append(cur, p+string([]byte{c}))
			}
		}
		out = append(out, cur...)
		prev = cur
	}
	return out
}

// tricky strings: the DESIGN list plus everything that could plausibly "clean to" a dot-dot.
func trickyStrings() []string {
	return []string{
		"..", ".", " .. ", " ..", ".. ", "\t..\t", "\n..", "../x", "../a", "a/../..", "/abs", "…/…",
		"./..", "../", "../..", "../../..", "..\\..", "..\\a", "...", ". .", "..\x00", "\x00..", "..\xff", "\xff..",
		"‥", "．．", "․․", "%2e%2e", "%2e%2e/a", "..%2fa", "a_", "a/", "_", "a__a", "a/_a", "a_/a",
		strings.Repeat("a", 300), strings.Repeat("a", 255) + ".ext", strings.Repeat("a", 255), strings.Repeat("a", 256),
		strings.Repeat(".", 300), ".." + strings.Repeat("\xff", 300), strings.Repeat("\xff", 253) + "..",
		strings.Repeat("a", 254) + "é", strings.Repeat("a", 253) + "/..", ".." + strings.Repeat("/", 300),
		strings.Repeat("a", 253) + "..", strings.Repeat("a", 300) + "...", ".." + strings.Repeat(" ", 300),
		"\xc3\x28", "\xe2\x80", "..\xef\xbf", "\xed\xa0\x80", "\xc0\xae\xc0\xae", "\xc0\xaf", "a\x00/../..",
		"CON", "a:b", "~", "-rf", "*",
	}
}

func dedupe(ss []string) []string {
	seen := map[string]bool{}
	var out []string
	for _, s := range ss {
		if !seen[s] {
			seen[s] = true
			out = append(out, s)
		}
	}
	return out
}

// ---------------------------------------------------------------- cases

type fileEnt struct {
	Path  []string // value of "path"
	UPath []string // value of "path.utf-8" (nil: key absent)
	Pad   bool     // attr "p"
}

type tcase struct {
	Name   string
	NoName bool   // "name" key absent
	UName  string // "name.utf-8" (""; key absent)
	Multi  bool
	Files  []fileEnt
	Family string
	RealFS bool // also run on the real file system
	AllFl  bool // real-FS: all (utf8,pad) flag combinations instead of the session's (true,true)
}

func qs(ss []string) string {
	var b []string
	for _, s := range ss {
		b = append(b, short(s))
	}
	return "[" + strings.Join(b, ",") + "]"
}

// short quotes a string; long runs are abbreviated (the replay data carries the full string).
func short(s string) string {
	if len(s) <= 48 {
		return strconv.Quote(s)
	}
	return strconv.Quote(s[:20]) + fmt.Sprintf("..(%d bytes)..", len(s)) + strconv.Quote(s[len(s)-12:])
}

func (tc *tcase) String() string {
	var sb strings.Builder
	if tc.Multi {
		sb.WriteString("multi-file ")
	} else {
		sb.WriteString("single-file ")
	}
	if tc.NoName {
		sb.WriteString("name=<absent>")
	} else {
		sb.WriteString("name=" + short(tc.Name))
	}
	if tc.UName != "" {
		sb.WriteString(" name.utf-8=" + short(tc.UName))
	}
	for i, f := range tc.Files {
		fmt.Fprintf(&sb, " file%d{path=%s", i, qs(f.Path))
		if f.UPath != nil {
			sb.WriteString(" path.utf-8=" + qs(f.UPath))
		}
		if f.Pad {
			sb.WriteString(" attr=p")
		}
		sb.WriteString("}")
	}
	return sb.String()
}

func (tc *tcase) replay(extra map[string]any) map[string]any {
	m := map[string]any{"family": tc.Family, "multi": tc.Multi, "name_q": strconv.Quote(tc.Name), "no_name_key": tc.NoName}
	if tc.UName != "" {
		m["name_utf8_q"] = strconv.Quote(tc.UName)
	}
	var fl []any
	for _, f := range tc.Files {
		fm := map[string]any{"pad": f.Pad}
		var p []string
		for _, c := range f.Path {
			p = append(p, strconv.Quote(c))
		}
		fm["path_q"] = p
		if f.UPath != nil {
			var u []string
			for _, c := range f.UPath {
				u = append(u, strconv.Quote(c))
			}
			fm["path_utf8_q"] = u
		}
		fl = append(fl, fm)
	}
	m["files"] = fl
	m["info_hex"] = hex.EncodeToString(tc.infoBytes())
	for k, v := range extra {
		m[k] = v
	}
	return m
}

const fileLen = 3 // every file is 3 bytes long; sentinels are longer so that opening one truncates it

var zeroPieces = make([]byte, 20)

func (tc *tcase) infoBytes() []byte {
	d := refcodec.D("piece length", int64(16384), "pieces", zeroPieces)
	if !tc.NoName {
		d.Set("name", tc.Name)
	}
	if tc.UName != "" {
		d.Set("name.utf-8", tc.UName)
	}
	if !tc.Multi {
		d.Set("length", int64(fileLen))
		return refcodec.Benc(d)
	}
	var files []any
	for _, f := range tc.Files {
		p := f.Path
		if p == nil {
			p = []string{}
		}
		fd := refcodec.D("length", int64(fileLen), "path", p)
		if f.UPath != nil {
			fd.Set("path.utf-8", f.UPath)
		}
		if f.Pad {
			fd.Set("attr", "p")
		}
		files = append(files, fd)
	}
	d.Set("files", files)
	return refcodec.Benc(d)
}

// inputClass is the discriminating input class used in violation keys: which hostile ingredient the
// case contains (judged on the input only, never on rain's output).
func (tc *tcase) inputClass() string {
	names := []string{tc.Name, tc.UName}
	for _, n := range names {
		if strings.TrimSpace(n) == ".." {
			return "name-dotdot"
		}
	}
	for _, n := range names {
		if n == "." {
			return "name-dot"
		}
	}
	var comps []string
	for _, f := range tc.Files {
		comps = append(comps, f.Path...)
		comps = append(comps, f.UPath...)
	}
	for _, c := range comps {
		if strings.TrimSpace(c) == ".." {
			return "comp-dotdot"
		}
	}
	for _, n := range append(names, comps...) {
		if strings.Contains(n, "..") {
			return "contains-dotdot"
		}
	}
	return "other"
}

func one(p ...string) []fileEnt { return []fileEnt{{Path: p}} }

// shapes: the ≈40 file-list choices every name is combined with (simplest first).
func smallShapes() [][]fileEnt {
	var out [][]fileEnt
	comps := []string{"a", "", ".", "..", " ", "\\", "a/a", "\x00", "\xff", " .. ", "../a", "a/../..", "/a"}
	for _, c := range comps {
		out = append(out, one(c))
	}
	out = append(out, []fileEnt{{Path: []string{}}}) // empty path list
	two := []string{"a", "", ".", ".."}
	for _, c1 := range two {
		for _, c2 := range two {
			out = append(out, one(c1, c2))
		}
	}
	pair := func(a, b fileEnt) { out = append(out, []fileEnt{a, b}) }
	f := func(p ...string) fileEnt { return fileEnt{Path: p} }
	pad := func(p ...string) fileEnt { return fileEnt{Path: p, Pad: true} }
	pair(f("a"), f("aa"))
	pair(f("a"), f("a"))
	pair(f("a"), f(".", "a"))
	pair(f("a"), f("", "a"))
	pair(f("a"), f("a", "."))
	pair(f("a", "a"), f("a/a"))
	pair(f("a/"), f("a_"))
	pair(f("a"), f("a", "a"))
	pair(pad("a"), f("a"))
	pair(pad("a"), pad("a"))
	// entries marked as padding with hostile paths: when the parser runs without padding support (resume data of an older
	// version, a moved torrent) they are ordinary files on disk
	pair(f("a"), pad(".."))
	pair(f("a"), pad("..", "a"))
	pair(f("a"), pad("..", "..", "a"))
	pair(pad("../a"), f("a"))
	pair(f("a"), f("..", "_____padding_file_0"))
	pair(f("a"), f("_____padding_file_0"))
	pair(f("_____padding_file_0"), f("_____padding_file_0"))
	return out
}

// genCases enumerates the whole bounded space, simplest first. L is the maximal length of the
// full-alphabet strings used for names, L2 for pairs of components.
func genCases(L, Lc, L2 int, emit func(tc tcase)) {
	N := dedupe(append(allStrings(L), trickyStrings()...))   // names
	C := dedupe(append(allStrings(Lc), trickyStrings()...))  // single components
	N2 := dedupe(append(allStrings(L2), trickyStrings()...)) // members of component pairs
	shapes := smallShapes()

	// F1 single-file, every name
	emit(tcase{NoName: true, Family: "F1-single", RealFS: true})
	for _, n := range N {
		emit(tcase{Name: n, Family: "F1-single", RealFS: true})
	}
	// F2 multi-file, every name x every small shape
	emit(tcase{NoName: true, Multi: true, Files: one("a"), Family: "F2-name-x-shape", RealFS: true})
	for _, n := range N {
		for si, sh := range shapes {
			hasPad := false
			for _, f := range sh {
				hasPad = hasPad || f.Pad
			}
			emit(tcase{Name: n, Multi: true, Files: sh, Family: "F2-name-x-shape", RealFS: si < 14 || len(n) <= 2 || len(n) > L, AllFl: hasPad})
		}
	}
	// F3 every component as the only component of the only file, under a small set of names
	for _, n := range []string{"t", ".", "..", "", " ", "a/..", "\xff", "\\"} {
		for _, c := range C {
			emit(tcase{Name: n, Multi: true, Files: one(c), Family: "F3-component", RealFS: n == "t" || n == "."})
		}
	}
	// F4 one file, two components, every pair
	for _, n := range []string{"t", "."} {
		for _, c1 := range N2 {
			for _, c2 := range N2 {
				emit(tcase{Name: n, Multi: true, Files: one(c1, c2), Family: "F4-two-components", RealFS: n == "t" && len(c1) <= 1 && len(c2) <= 1})
			}
		}
	}
	// F5 two files, one component each, every pair (including equal ones and pairs cleaning to the same path)
	for _, n := range []string{"t", "."} {
		for _, c := range N2 {
			for _, d := range N2 {
				emit(tcase{Name: n, Multi: true, Files: []fileEnt{{Path: []string{c}}, {Path: []string{d}}}, Family: "F5-two-files",
					RealFS: n == "t" && len(c) <= 1 && len(d) <= 1})
			}
		}
	}
	// F6 two files, two components each over a tiny set (collisions through '.', '', separator replacement)
	tiny := []string{"a", "", ".", "..", "a/", "a_", " "}
	for _, c1 := range tiny {
		for _, c2 := range tiny {
			for _, d1 := range tiny {
				for _, d2 := range tiny {
					emit(tcase{Name: "t", Multi: true, Files: []fileEnt{{Path: []string{c1, c2}}, {Path: []string{d1, d2}}}, Family: "F6-two-files-two-components"})
				}
			}
		}
	}
	// F7 utf-8 override keys: hostile string in the utf-8 key with a benign plain key, and the reverse
	for _, n := range N {
		emit(tcase{Name: "x", UName: n, Family: "F7-utf8-name", RealFS: len(n) <= 2 || len(n) > L, AllFl: true})
		emit(tcase{Name: n, UName: "x", Family: "F7-utf8-name", RealFS: len(n) <= 2 || len(n) > L, AllFl: true})
		emit(tcase{Name: "x", UName: n, Multi: true, Files: one("a"), Family: "F7-utf8-name", RealFS: len(n) <= 2 || len(n) > L, AllFl: true})
		emit(tcase{Name: n, UName: "x", Multi: true, Files: one("a"), Family: "F7-utf8-name", RealFS: len(n) <= 2 || len(n) > L, AllFl: true})
	}
	for _, c := range C {
		emit(tcase{Name: "t", Multi: true, Files: []fileEnt{{Path: []string{"x"}, UPath: []string{c}}}, Family: "F7-utf8-path", RealFS: len(c) <= 2 || len(c) > Lc, AllFl: true})
		emit(tcase{Name: "t", Multi: true, Files: []fileEnt{{Path: []string{c}, UPath: []string{"x"}}}, Family: "F7-utf8-path", RealFS: len(c) <= 2 || len(c) > Lc, AllFl: true})
		emit(tcase{Name: "t", Multi: true, Files: []fileEnt{{Path: []string{"x"}, UPath: []string{"a", c}}}, Family: "F7-utf8-path"})
	}
}

// ---------------------------------------------------------------- violation aggregation (simplest-first, deterministic)

type vrec struct {
	order  int64
	desc   string
	replay any
	count  int
}

type vagg struct {
	mu sync.Mutex
	m  map[string]*vrec
}

func (a *vagg) add(key string, order int64, desc string, replay func() any) {
	a.mu.Lock()
	defer a.mu.Unlock()
	r, ok := a.m[key]
	if !ok {
		a.m[key] = &vrec{order: order, desc: desc, replay: replay(), count: 1}
		return
	}
	r.count++
	if order < r.order {
		r.order, r.desc, r.replay = order, desc, replay()
	}
}

func (a *vagg) flush(rep *core.Report) {
	var keys []string
	for k := range a.m {
		keys = append(keys, k)
	}
	sort.Slice(keys, func(i, j int) bool {
		if a.m[keys[i]].order != a.m[keys[j]].order {
			return a.m[keys[i]].order < a.m[keys[j]].order
		}
		return keys[i] < keys[j]
	})
	for _, k := range keys {
		r := a.m[k]
		desc := r.desc
		if r.count > 1 {
			desc += fmt.Sprintf("  [simplest of %d failing cases with this key]", r.count)
		}
		for i := 0; i < r.count; i++ {
			rep.Violate(k, desc, r.replay)
		}
	}
}

func topFrames(st string) (first string, all string) {
	var out []string
	lines := strings.Split(st, "\n")
	for i, ln := range lines {
		if strings.Contains(ln, "/repo/") && !strings.Contains(ln, "zzverif") && i > 0 {
			fn := strings.TrimSpace(lines[i-1])
			if j := strings.LastIndex(fn, "("); j > 0 {
				fn = fn[:j]
			}
			if j := strings.LastIndex(fn, "/"); j >= 0 {
				fn = fn[j+1:]
			}
			if first == "" {
				first = fn
			}
			out = append(out, fn+" "+strings.TrimSpace(ln))
			if len(out) >= 3 {
				break
			}
		}
	}
	if first == "" {
		first = "unknown"
	}
	return first, strings.Join(out, " <- ")
}

// ---------------------------------------------------------------- pure oracle

const torrentID = "tid0" // the torrent id used for DataDirIncludesTorrentID=true

type env struct {
	rep   *core.Report
	viol  *vagg
	base  string // scratch root of this run (under VERIF_TMP)
	cnt   sync.Map
	dmu   sync.Mutex
	dist  map[uint64]struct{}
	pureR [2]string // the two pure roots (id off / id on), computed by the real session code
}

func (e *env) add(name string, n int64) {
	v, ok := e.cnt.Load(name)
	if !ok {
		v, _ = e.cnt.LoadOrStore(name, new(int64))
	}
	atomic.AddInt64(v.(*int64), n)
}

func (e *env) get(name string) int64 {
	v, ok := e.cnt.Load(name)
	if !ok {
		return 0
	}
	return atomic.LoadInt64(v.(*int64))
}

// resolve is the reference model of "a storage rooted at root opens relative name p": the only
// legitimate result is a path strictly below root.
func resolve(root, p string) string {
	return filepath.Clean(filepath.Join(root, filepath.Clean(p)))
}

func strictlyInside(root, p string) bool {
	return p != root && strings.HasPrefix(p, root+string(os.PathSeparator))
}

// pureCheck runs oracle (a) on one accepted Info for one root.
func (e *env) pureCheck(tc *tcase, order int64, info *metainfo.Info, flags string, root string, idOn bool) {
	finals := map[string]int{}
	for i, f := range info.Files {
		if f.Padding {
			continue
		}
		final := resolve(root, f.Path)
		mk := func(kind string) func() any {
			return func() any {
				return tc.replay(map[string]any{"oracle": "pure", "kind": kind, "flags": flags, "root": root, "file_index": i, "info_path_q": strconv.Quote(f.Path), "resolved_q": strconv.Quote(final), "data_dir_includes_torrent_id": idOn})
			}
		}
		switch {
		case final == root:
			e.add("esc equals-root "+short(info.Name), 1)
			e.viol.add("C07.pure.equals-root."+tc.inputClass(), order,
				fmt.Sprintf("%s (NewInfo %s) is accepted; file %d has Info path %q which resolves to the data directory itself (%s, DataDirIncludesTorrentID=%v): the client tries to open the directory as the torrent's file", tc, flags, i, f.Path, root, idOn), mk("equals-root"))
		case !strictlyInside(root, final):
			e.add("esc above-root "+short(info.Name), 1)
			e.viol.add("C07.pure.above-root."+tc.inputClass(), order,
				fmt.Sprintf("%s (NewInfo %s) is accepted; file %d has Info path %q which resolves to %q, outside the torrent's data directory %s (DataDirIncludesTorrentID=%v)", tc, flags, i, f.Path, final, root, idOn), mk("above-root"))
		}
		if j, dup := finals[final]; dup {
			cl := "nopad"
			for _, tf := range tc.Files {
				if tf.Pad {
					cl = "pad"
				}
			}
			e.viol.add("C07.pure.collision."+cl, order,
				fmt.Sprintf("%s (NewInfo %s) is accepted; non-padding files %d and %d both resolve to %q", tc, flags, j, i, final), mk("collision"))
		} else {
			finals[final] = i
		}
	}
}

var flagCombos = []struct {
	utf8, pad bool
	s         string
}{{true, true, "utf8=true,pad=true"}, {true, false, "utf8=true,pad=false"}, {false, false, "utf8=false,pad=false"}, {false, true, "utf8=false,pad=true"}}

func safeNewInfo(b []byte, utf8, pad bool) (info *metainfo.Info, err error, panicked string) {
	defer func() {
		if r := recover(); r != nil {
			buf := make([]byte, 8192)
			n := runtime.Stack(buf, false)
			panicked = fmt.Sprintf("%v\n%s", r, buf[:n])
		}
	}()
	info, err = metainfo.NewInfo(b, utf8, pad)
	return
}

func hashInfo(info *metainfo.Info) uint64 {
	h := fnv.New64a()
	for _, f := range info.Files {
		h.Write([]byte(f.Path))
		if f.Padding {
			h.Write([]byte{0, 1})
		} else {
			h.Write([]byte{0, 0})
		}
	}
	return h.Sum64()
}

// ---------------------------------------------------------------- main

func TestC07(t *testing.T) {
	logger.Disable()
	rep := core.NewReport("C07", "paths", "exploration")
	L, Lc, L2, Ltar := 3, 3, 2, 3
	if core.Thorough() {
		L, Lc, L2, Ltar = 4, 4, 3, 4
	}
	rep.Rule = fmt.Sprintf("alphabet {'a','.','/',' ','\\\\',0x00,0xff}; S(k)=every string of length<=k over it plus %d tricky strings (dot-dot look-alikes, 255/256/300-byte names, "+
		"invalid/overlong UTF-8, names that are cut inside a rune by the 255-byte trim). Pure part: F1 single-file x S(%d) names; F2 multi-file S(%d) names x %d file-list shapes "+
		"(1-2 files, 0-2 components, padding, duplicates); F3 8 names x S(%d) as the only component; F4 one file with every component pair from S(%d)^2; F5 two files with every pair "+
		"from S(%d)^2; F6 two 2-component files over a 7-string set ^4; F7 name.utf-8/path.utf-8 override keys with the hostile string on either side; every case under all four "+
		"(utf8,pad) NewInfo flag combinations and both DataDirIncludesTorrentID settings. Real-FS part: the cases marked real (all F1, F2 with the first 14 shapes for every name and all shapes for short/tricky names, F3 under names t and ., "+
		"short members of F4/F5/F7) through the session's storage provider + allocator in a sandbox tree that is compared as a whole before/after. Tar part: every S(%d)+tricky+layout-derived entry name x "+
		"12 (typeflag,linkname) choices x both data-dir modes, plus two-entry plant-then-write sequences, through readData. "+
		"Non-trivial = accepted by NewInfo (pure/real) or parsed by archive/tar (tar); distinct = distinct resulting path vectors / distinct tar entry lists.",
		len(trickyStrings()), L, L, len(smallShapes()), Lc, L2, L2, Ltar)
	rep.Assumptions = []string{
		"Linux path semantics ('/' is the only separator, '\\\\' and ':' are ordinary bytes); case-insensitive or Unicode-normalising file systems are out of scope",
		"strings longer than the stated lengths are represented only by the tricky list",
		"no pre-existing symbolic links inside the data directory (neither the storage nor readData ever creates one; checked by the tar part)",
		"the torrent id itself (chosen by the local user or by the moving session) is trusted; only ids without separators are used",
		"an attempted open that fails without side effect (e.g. opening a directory read-write) is visible only to the pure oracle, not to the tree comparison",
		"reads are covered through opens: every read/write of torrent data goes through the storage.File objects whose real paths are checked",
	}
	tmp := os.Getenv("VERIF_TMP")
	if tmp == "" {
		tmp = "/verif/.build/tmp"
	}
	base, err := os.MkdirTemp(tmp, "c07-")
	if err != nil {
		core.HarnessError("mkdir: %v", err)
	}
	defer os.RemoveAll(base)
	e := &env{rep: rep, viol: &vagg{m: map[string]*vrec{}}, base: base, dist: map[uint64]struct{}{}}
	// the pure oracle touches no file system: a fixed root keeps descriptions identical from run to run
	const pureData = "/sandbox/outer/data"
	e.pureR[0], e.pureR[1] = dataDirFor(pureData, false), dataDirFor(pureData, true)
	if e.pureR[0] != pureData || !strictlyInside(e.pureR[0], e.pureR[1]) {
		core.HarnessError("unexpected data dirs from the session storage provider: %q %q", e.pureR[0], e.pureR[1])
	}

	var cases []tcase
	genCases(L, Lc, L2, func(tc tcase) { cases = append(cases, tc) })

	// ---- part a + b
	nw := core.Parallelism()
	var wg sync.WaitGroup
	var next int64
	var nmu sync.Mutex
	const chunk = 64
	for w := 0; w < nw; w++ {
		wg.Add(1)
		go func(w int) {
			defer wg.Done()
			sb := [2]*sandbox{newSandbox(filepath.Join(base, fmt.Sprintf("w%d-idoff", w)), false), newSandbox(filepath.Join(base, fmt.Sprintf("w%d-idon", w)), true)}
			local := map[uint64]struct{}{}
			for {
				nmu.Lock()
				lo := next
				next += chunk
				nmu.Unlock()
				if lo >= int64(len(cases)) {
					break
				}
				hi := lo + chunk
				if hi > int64(len(cases)) {
					hi = int64(len(cases))
				}
				for i := lo; i < hi; i++ {
					e.runCase(sb, &cases[i], i, local)
				}
			}
			e.dmu.Lock()
			for k := range local {
				e.dist[k] = struct{}{}
			}
			e.dmu.Unlock()
			sb[0].destroy()
			sb[1].destroy()
		}(w)
	}
	wg.Wait()
	for i := 0; i < len(cases); i += len(cases)/7 + 1 {
		rep.Sample(8, cases[i].String())
	}
	pureDistinct := int64(len(e.dist))

	// ---- part c
	tarDistinct := e.runTarPart(Ltar)

	rep.Evaluations = e.get("newinfo_calls") + e.get("fs_cases") + e.get("tar_cases")
	rep.Distinct = pureDistinct + tarDistinct
	for _, k := range []string{"newinfo_calls", "newinfo_accepted", "newinfo_rejected", "rejected_dotdot_component", "rejected_duplicate", "pure_file_paths_checked",
		"fs_cases", "fs_files_opened_inside", "fs_cases_created_inside", "fs_open_errors", "fs_cases_outside_change", "fs_padding_files",
		"tar_cases", "tar_parsed_ok", "tar_entries_written_inside", "tar_rejected_as_escape", "tar_other_error", "tar_cases_outside_change", "tar_raw_headers", "tar_pax_headers", "tar_unencodable", "tar_links_or_specials_created_inside"} {
		rep.Extra[k] = e.get(k)
	}
	for _, kind := range []string{"above-root", "equals-root"} {
		var l []string
		e.cnt.Range(func(k, v any) bool {
			if s := k.(string); strings.HasPrefix(s, "esc "+kind+" ") {
				l = append(l, strings.TrimPrefix(s, "esc "+kind+" "))
			}
			return true
		})
		sort.Strings(l)
		if len(l) > 40 {
			l = append(l[:40], fmt.Sprintf("... %d more", len(l)-40))
		}
		rep.Extra["effective_names_resolving_"+kind] = l
	}
	rep.Extra["cases_pure"] = int64(len(cases))
	rep.Extra["distinct_path_vectors"] = pureDistinct
	rep.Extra["distinct_tars"] = tarDistinct
	rep.Extra["bounds"] = fmt.Sprintf("names S(%d), components S(%d), pairs S(%d)^2, tar names S(%d)", L, Lc, L2, Ltar)

	fatal := func(f string, a ...any) { os.RemoveAll(base); core.HarnessError(f, a...) }
	// non-vacuity self-checks (only meaningful when nothing was reported: a tree in which e.g. the escape
	// check of readData is gone shows up as violations, not as a harness error)
	if len(e.viol.m) == 0 {
		if e.get("newinfo_accepted") == 0 || e.get("newinfo_rejected") == 0 {
			fatal("vacuous pure part: accepted=%d rejected=%d", e.get("newinfo_accepted"), e.get("newinfo_rejected"))
		}
		if e.get("tar_rejected_as_escape") == 0 {
			fatal("vacuous tar part: no hostile entry was ever refused and none escaped")
		}
	}
	if e.get("fs_files_opened_inside") == 0 || e.get("fs_cases_created_inside") == 0 {
		fatal("vacuous real-FS part: no file was ever created inside the data directory")
	}
	if e.get("tar_entries_written_inside") == 0 || e.get("tar_parsed_ok")*10 < e.get("tar_cases")*9 {
		fatal("vacuous tar part: written=%d parsed=%d of %d", e.get("tar_entries_written_inside"), e.get("tar_parsed_ok"), e.get("tar_cases"))
	}
	e.viol.flush(rep)
	os.RemoveAll(base)
	rep.Finish()
}

// runCase: all four flag combinations through NewInfo + pure oracle for both roots; the real-FS run for marked cases.
func (e *env) runCase(sb [2]*sandbox, tc *tcase, order int64, local map[uint64]struct{}) {
	b := tc.infoBytes()
	for fi, fl := range flagCombos {
		info, err, pan := safeNewInfo(b, fl.utf8, fl.pad)
		e.add("newinfo_calls", 1)
		if pan != "" {
			first, all := topFrames(pan)
			e.viol.add("C07.panic."+first, order, fmt.Sprintf("%s: NewInfo(%s) panics: %s | %s", tc, fl.s, strings.SplitN(pan, "\n", 2)[0], all),
				func() any { return tc.replay(map[string]any{"oracle": "panic", "flags": fl.s}) })
			continue
		}
		if err != nil {
			e.add("newinfo_rejected", 1)
			if strings.Contains(err.Error(), "invalid file name") {
				e.add("rejected_dotdot_component", 1)
			}
			if strings.Contains(err.Error(), "duplicate file name") {
				e.add("rejected_duplicate", 1)
			}
			continue
		}
		e.add("newinfo_accepted", 1)
		local[hashInfo(info)] = struct{}{}
		np := int64(0)
		for _, f := range info.Files {
			if !f.Padding {
				np++
			}
		}
		e.add("pure_file_paths_checked", 2*np)
		e.pureCheck(tc, order, info, fl.s, e.pureR[0], false)
		e.pureCheck(tc, order, info, fl.s, e.pureR[1], true)
		if tc.RealFS && (fi == 0 || tc.AllFl) {
			e.fsCheck(sb[0], tc, order, info, fl.s)
			e.fsCheck(sb[1], tc, order, info, fl.s)
		}
	}
}

// ---------------------------------------------------------------- sandbox tree

type sandbox struct {
	guard    string // snapshot root; top lies three guard levels below it so that a climbing escape stays inside the compared tree
	top      string
	baseline map[string]string
	idOn     bool // fixed per sandbox
	built    bool
	dirty    bool // something outside the allowed region changed: rebuild completely
	foreign  bool // remove part, id off: other torrents' data lives inside the shared data directory
}

func newSandbox(guard string, idOn bool) *sandbox {
	return &sandbox{guard: guard, top: filepath.Join(guard, "g1", "g2", "g3"), idOn: idOn}
}

func (s *sandbox) destroy() { chmodAll(s.guard); os.RemoveAll(s.guard) }

func chmodAll(top string) {
	filepath.Walk(top, func(p string, fi os.FileInfo, err error) error {
		if err == nil && fi.IsDir() {
			os.Chmod(p, 0o755)
		}
		return nil
	})
}

func (s *sandbox) dataDir() string { return filepath.Join(s.top, "outer", "data") }

var sentinelNames = []string{"S", "a", "t/a"}

func writeSentinels(dir string) {
	for _, n := range sentinelNames {
		p := filepath.Join(dir, n)
		if err := os.MkdirAll(filepath.Dir(p), 0o755); err != nil {
			core.HarnessError("sandbox: %v", err)
		}
		if err := os.WriteFile(p, []byte("sentinel file, must never change: "+n+"\n"), 0o644); err != nil {
			core.HarnessError("sandbox: %v", err)
		}
	}
}

// prepare (re)builds the sandbox:
//
//	top/{sentinels}  top/outer/{sentinels}  top/outer/data/            <- Config.DataDir
//	top/outer/datax/{sentinels}                                        <- sibling whose name has DataDir as a string prefix
//	idOn: top/outer/data/{sentinels}, top/outer/data/tid0x/{sentinels}, top/outer/data/other/{sentinels}; torrent dir data/tid0 does not exist yet
//
// and returns the torrent's own directory (computed by the real session code).
func (s *sandbox) prepare() string {
	idOn := s.idOn
	if s.built && !s.dirty {
		// only the allowed region can have changed: wipe it
		root := dataDirFor(s.dataDir(), idOn)
		chmodAll(root)
		os.RemoveAll(root)
		if !idOn {
			os.Mkdir(root, 0o755)
			s.writeForeign()
		}
		return root
	}
	s.destroy()
	for _, d := range []string{s.top, filepath.Join(s.top, "outer"), filepath.Join(s.top, "outer", "datax")} {
		os.MkdirAll(d, 0o755)
		writeSentinels(d)
	}
	os.MkdirAll(s.dataDir(), 0o755)
	if idOn {
		writeSentinels(s.dataDir())
		writeSentinels(filepath.Join(s.dataDir(), torrentID+"x"))
		writeSentinels(filepath.Join(s.dataDir(), "other"))
	}
	s.writeForeign()
	s.built, s.dirty = true, false
	s.baseline = snapshot(s.guard)
	return dataDirFor(s.dataDir(), idOn)
}

// writeForeign puts another torrent's directory and file into the shared data directory (id off only);
// their names are outside every enumerated name set, so no enumerated torrent legitimately owns them.
func (s *sandbox) writeForeign() {
	if !s.foreign || s.idOn {
		return
	}
	for _, n := range []string{"zz-other-torrent/a", "zz-other-single-file"} {
		p := filepath.Join(s.dataDir(), n)
		os.MkdirAll(filepath.Dir(p), 0o755)
		if err := os.WriteFile(p, []byte("another torrent's data: "+n+"\n"), 0o644); err != nil {
			core.HarnessError("sandbox: %v", err)
		}
	}
}

// snapshot is the complete image of a tree: type, permission, size and content hash of every entry.
func snapshot(top string) map[string]string {
	m := map[string]string{}
	filepath.Walk(top, func(p string, fi os.FileInfo, err error) error {
		if err != nil {
			m[p] = "error:" + err.Error()
			return nil
		}
		switch {
		case fi.IsDir():
			m[p] = fmt.Sprintf("dir %o", fi.Mode().Perm())
		case fi.Mode()&os.ModeSymlink != 0:
			tgt, _ := os.Readlink(p)
			m[p] = "symlink -> " + tgt
		case fi.Mode().IsRegular():
			b, err := os.ReadFile(p)
			h := sha1.Sum(b)
			m[p] = fmt.Sprintf("file %o size=%d sha1=%s err=%v", fi.Mode().Perm(), fi.Size(), hex.EncodeToString(h[:6]), err)
		default:
			m[p] = "special " + fi.Mode().String()
		}
		return nil
	})
	return m
}

// diffOutside lists every difference between two images that is not the allowed directory or below it.
// inside reports how many entries appeared below the allowed directory.
func diffOutside(before, after map[string]string, allowed string) (outside []string, inside int) {
	var keys []string
	for p := range before {
		keys = append(keys, p)
	}
	for p := range after {
		if _, ok := before[p]; !ok {
			keys = append(keys, p)
		}
	}
	sort.Strings(keys)
	for _, p := range keys {
		b, inB := before[p]
		a, inA := after[p]
		if inB && inA && a == b {
			continue
		}
		if p == allowed || strings.HasPrefix(p, allowed+string(os.PathSeparator)) {
			if !inB && p != allowed {
				inside++
			}
			continue
		}
		switch {
		case !inB:
			outside = append(outside, fmt.Sprintf("CREATED %q (%s)", p, a))
		case !inA:
			outside = append(outside, fmt.Sprintf("REMOVED %q (was %s)", p, b))
		default:
			outside = append(outside, fmt.Sprintf("CHANGED %q (%s => %s)", p, b, a))
		}
	}
	return
}

func relTo(top string, lines []string) string {
	if len(lines) > 6 {
		lines = append(append([]string{}, lines[:6]...), fmt.Sprintf("... %d more", len(lines)-6))
	}
	return strings.ReplaceAll(strings.Join(lines, "; "), top, "<sandbox>")
}

//go:build verif

package paths

import (
	"archive/tar"
	"bytes"
	"fmt"
	"hash/fnv"
	"io"
	"os"
	"path/filepath"
	"runtime"
	"strconv"
	"strings"
	"sync"

	"github.com/cenkalti/rain/v2/torrent"
	"github.com/cenkalti/rain/v2/zzverif/core"
)

// tarEnt is one archive entry; Name/Link may contain the placeholders <TOP> (absolute sandbox top),
// <TOPREL> (the same without the leading '/'), <ROOT> (absolute destination dir) and <RB> (its base name).
type tarEnt struct {
	Name string
	Type byte
	Link string
}

func (t tarEnt) String() string {
	s := fmt.Sprintf("{name=%s type=%s", short(t.Name), typeName(t.Type))
	if t.Link != "" {
		s += " linkname=" + short(t.Link)
	}
	return s + "}"
}

func typeName(b byte) string {
	switch b {
	case tar.TypeReg:
		return "reg"
	case 0:
		return "regA"
	case tar.TypeDir:
		return "dir"
	case tar.TypeSymlink:
		return "symlink"
	case tar.TypeLink:
		return "hardlink"
	case tar.TypeChar:
		return "char"
	case tar.TypeBlock:
		return "block"
	case tar.TypeFifo:
		return "fifo"
	}
	return fmt.Sprintf("%q", b)
}

const tarBody = "PWNED"

func isReg(t byte) bool { return t == tar.TypeReg || t == 0 }

// rawHeader is the harness's own USTAR header encoder (name and linkname bytes verbatim, up to 100 bytes).
func rawHeader(name string, typ byte, link string, size int) []byte {
	h := make([]byte, 512)
	copy(h[0:100], name)
	copy(h[100:108], "0000600\x00")
	copy(h[108:116], "0000000\x00")
	copy(h[116:124], "0000000\x00")
	copy(h[124:136], fmt.Sprintf("%011o\x00", size))
	copy(h[136:148], "00000000000\x00")
	copy(h[148:156], "        ")
	h[156] = typ
	copy(h[157:257], link)
	copy(h[257:265], "ustar\x0000")
	sum := 0
	for _, b := range h {
		sum += int(b)
	}
	copy(h[148:156], fmt.Sprintf("%06o\x00 ", sum))
	return h
}

// buildTar encodes the entries: short names through rawHeader, long ones through archive/tar's PAX writer.
// ok=false when an entry cannot be encoded at all.
func buildTar(ents []tarEnt) (blob []byte, raw, pax int, ok bool) {
	var out bytes.Buffer
	for _, e := range ents {
		size := 0
		if isReg(e.Type) {
			size = len(tarBody)
		}
		if cut := strings.SplitN(e.Name, "\x00", 2)[0]; e.Type == 0 && strings.HasSuffix(cut, "/") {
			size = 0 // archive/tar reads a V7 regular entry with a trailing slash as a (header-only) directory
		}
		if len(e.Name) <= 100 && len(e.Link) <= 100 {
			out.Write(rawHeader(e.Name, e.Type, e.Link, size))
			if size > 0 {
				b := make([]byte, 512)
				copy(b, tarBody)
				out.Write(b)
			}
			raw++
			continue
		}
		var one bytes.Buffer
		tw := tar.NewWriter(&one)
		typ := e.Type
		if typ == 0 {
			typ = tar.TypeReg
		}
		err := tw.WriteHeader(&tar.Header{Name: e.Name, Typeflag: typ, Linkname: e.Link, Mode: 0o600, Size: int64(size), Format: tar.FormatPAX})
		if err != nil {
			one.Reset()
			tw = tar.NewWriter(&one)
			err = tw.WriteHeader(&tar.Header{Name: e.Name, Typeflag: typ, Linkname: e.Link, Mode: 0o600, Size: int64(size), Format: tar.FormatGNU})
		}
		if err != nil {
			return nil, raw, pax, false
		}
		if size > 0 {
			tw.Write([]byte(tarBody))
		}
		tw.Flush()
		out.Write(one.Bytes())
		pax++
	}
	out.Write(make([]byte, 1024))
	return out.Bytes(), raw, pax, true
}

func expand(s, top, root string) string {
	s = strings.ReplaceAll(s, "<TOPREL>", strings.TrimPrefix(top, "/"))
	s = strings.ReplaceAll(s, "<TOP>", top)
	s = strings.ReplaceAll(s, "<ROOT>", root)
	s = strings.ReplaceAll(s, "<RB>", filepath.Base(root))
	return s
}

func tarClass(ents []tarEnt) string {
	for _, e := range ents {
		if strings.HasPrefix(e.Name, "/") || strings.HasPrefix(e.Name, "<TOP>") || strings.HasPrefix(e.Name, "<ROOT>") {
			return "abs"
		}
	}
	for _, e := range ents {
		if strings.Contains(e.Name, "..") {
			return "dotdot"
		}
	}
	for _, e := range ents {
		if e.Type == tar.TypeSymlink || e.Type == tar.TypeLink {
			return "link"
		}
	}
	return "other"
}

func layoutNames() []string {
	up := func(n int) string { return strings.Repeat("../", n) }
	return []string{
		"a/a", "a/a/a", "./a", "a/./a", "a//a", "a/", "a/a/", "../<RB>/a", "a/../a", "<ROOT>/a",
		"../a", "../S", "../../a", "../../S", "../../../a", "../../../../a", "a/../../a", "a/a/../../../a", "./../a", "a/../..", "../.", "./..",
		"../<RB>x/a", "../<RB>x", "../<RB>x/new", "../<RB>", "../<RB>/", "../<RB>/..", "../<RB>/../a",
		"<TOP>/a", "<TOP>/outer/a", "<TOP>/new", "/<TOP>/a", "//<TOP>/outer/S", "/../../a", "/..", "/",
		up(30) + "<TOPREL>/a", up(30) + "<TOPREL>/outer/S", up(30) + "<TOPREL>/new", "a/" + up(31) + "<TOPREL>/S",
		"..\\a", "..\\..\\a", "a\x00/../../a", "../a\x00b", " ../a", "../ a", ".. /a", "\t../a",
	}
}

// genTars enumerates every tar of the bounded space, simplest first.
func genTars(L int, emit func(ents []tarEnt)) {
	names := dedupe(append(append(allStrings(L), trickyStrings()...), layoutNames()...))
	type tl struct {
		t byte
		l string
	}
	links := []string{"../../S", "<TOP>/outer/S", ""}
	choices := []tl{{tar.TypeReg, ""}, {0, ""}, {tar.TypeDir, ""}, {tar.TypeChar, ""}, {tar.TypeBlock, ""}, {tar.TypeFifo, ""}}
	for _, t := range []byte{tar.TypeSymlink, tar.TypeLink} {
		for _, l := range links {
			choices = append(choices, tl{t, l})
		}
	}
	for _, n := range names {
		for _, c := range choices {
			emit([]tarEnt{{Name: n, Type: c.t, Link: c.l}})
		}
	}
	// two entries: plant something (link to an outside directory/file, directory, file), then write through/over it
	firsts := []tarEnt{
		{"ln", tar.TypeSymlink, "../.."}, {"ln", tar.TypeSymlink, "<TOP>/outer"}, {"ln", tar.TypeSymlink, "<TOP>/outer/S"}, {"ln", tar.TypeSymlink, "../S"},
		{"ln", tar.TypeLink, "<TOP>/outer/S"}, {"ln", tar.TypeLink, "../S"}, {"ln", tar.TypeDir, ""}, {"ln/", tar.TypeDir, ""}, {"ln", tar.TypeReg, ""},
		{"ln/a", tar.TypeReg, ""}, {"ln", tar.TypeChar, ""},
	}
	seconds := []string{"ln", "ln/a", "ln/S", "ln/new", "ln/../a", "ln/../../a", "ln/../../S", "./ln/a", "ln/a/../../../a", "ln/outer/S", "a"}
	for _, f := range firsts {
		for _, s := range seconds {
			for _, t := range []byte{tar.TypeReg, tar.TypeDir, tar.TypeSymlink} {
				l := ""
				if t == tar.TypeSymlink {
					l = "<TOP>/outer/S"
				}
				emit([]tarEnt{f, {Name: s, Type: t, Link: l}})
			}
		}
	}
}

func safeReadData(blob []byte, dir string) (err error, panicked string) {
	defer func() {
		if r := recover(); r != nil {
			buf := make([]byte, 8192)
			n := runtime.Stack(buf, false)
			panicked = fmt.Sprintf("%v\n%s", r, buf[:n])
		}
	}()
	err = torrent.VerifC07ReadData(bytes.NewReader(blob), dir, 0o750)
	return
}

// tarCheck runs oracle (c) on one archive in one sandbox: the destination is the directory
// handleMoveTorrent passes (provider.getDataDir(id)); nothing outside it may change.
func (e *env) tarCheck(sb *sandbox, order int64, tmpl []tarEnt) {
	root := sb.prepare()
	ents := make([]tarEnt, len(tmpl))
	for i, t := range tmpl {
		ents[i] = tarEnt{Name: expand(t.Name, sb.top, root), Type: t.Type, Link: expand(t.Link, sb.top, root)}
	}
	blob, raw, pax, ok := buildTar(ents)
	e.add("tar_cases", 1)
	if !ok {
		e.add("tar_unencodable", 1)
		if os.Getenv("C07_DEBUG") != "" {
			fmt.Println("UNENCODABLE", tmpl)
		}
		return
	}
	e.add("tar_raw_headers", int64(raw))
	e.add("tar_pax_headers", int64(pax))
	// harness self-check: does archive/tar parse what we built (independent of readData)?
	parsed := 0
	tr := tar.NewReader(bytes.NewReader(blob))
	for {
		_, err := tr.Next()
		if err != nil {
			if err == io.EOF && parsed == len(ents) {
				e.add("tar_parsed_ok", 1)
			} else if os.Getenv("C07_DEBUG") != "" {
				fmt.Println("UNPARSED", tmpl, err, parsed)
			}
			break
		}
		parsed++
	}
	err, pan := safeReadData(blob, root)
	descEnts := func() string {
		var s []string
		for _, t := range ents {
			s = append(s, strings.ReplaceAll(t.String(), sb.top, "<sandbox>"))
		}
		return strings.Join(s, " then ")
	}
	replay := func(extra map[string]any) func() any {
		return func() any {
			var l []any
			for _, t := range tmpl {
				l = append(l, map[string]any{"name_template_q": strconv.Quote(t.Name), "type": typeName(t.Type), "linkname_template_q": strconv.Quote(t.Link)})
			}
			m := map[string]any{"oracle": "tar", "entries": l, "data_dir_includes_torrent_id": sb.idOn, "dest": strings.ReplaceAll(root, sb.top, "<sandbox>"),
				"placeholders": "<TOP>=sandbox top, <TOPREL>=the same without leading '/', <ROOT>=destination dir, <RB>=base name of the destination dir"}
			for k, v := range extra {
				m[k] = v
			}
			return m
		}
	}
	if pan != "" {
		first, all := topFrames(pan)
		e.viol.add("C07.panic."+first, order, fmt.Sprintf("tar %s: readData panics: %s | %s", descEnts(), strings.SplitN(pan, "\n", 2)[0], all), replay(nil))
	}
	if err != nil {
		if strings.Contains(err.Error(), "escapes destination directory") {
			e.add("tar_rejected_as_escape", 1)
		} else {
			e.add("tar_other_error", 1)
		}
	}
	after := snapshot(sb.guard)
	outside, inside := diffOutside(sb.baseline, after, root)
	for p, v := range after {
		if strictlyInside(root, p) && strings.HasPrefix(v, "file ") {
			e.add("tar_entries_written_inside", 1)
		}
		if strictlyInside(root, p) && (strings.HasPrefix(v, "symlink") || strings.HasPrefix(v, "special")) {
			e.add("tar_links_or_specials_created_inside", 1)
		}
	}
	_ = inside
	if len(outside) > 0 {
		sb.dirty = true
		e.add("tar_cases_outside_change", 1)
		e.viol.add("C07.tar.outside."+tarClass(tmpl), order,
			fmt.Sprintf("tar %s extracted by readData into <sandbox>%s (DataDirIncludesTorrentID=%v, readData error: %v): outside the destination: %s",
				descEnts(), strings.TrimPrefix(root, sb.top), sb.idOn, err, relTo(sb.top, outside)),
			replay(map[string]any{"outside_changes": strings.Split(relTo(sb.top, outside), "; ")}))
	}
}

func (e *env) runTarPart(L int) int64 {
	var tars [][]tarEnt
	genTars(L, func(ents []tarEnt) { tars = append(tars, ents) })
	distinct := map[uint64]struct{}{}
	for _, t := range tars {
		h := fnv.New64a()
		for _, x := range t {
			fmt.Fprintf(h, "%q %d %q|", x.Name, x.Type, x.Link)
		}
		distinct[h.Sum64()] = struct{}{}
	}
	nw := core.Parallelism()
	var wg sync.WaitGroup
	var next int64
	var nmu sync.Mutex
	const orderBase = int64(1) << 40 // tar cases sort after the torrent cases
	for w := 0; w < nw; w++ {
		wg.Add(1)
		go func(w int) {
			defer wg.Done()
			sb := [2]*sandbox{newSandbox(filepath.Join(e.base, fmt.Sprintf("tar%d-idoff", w)), false), newSandbox(filepath.Join(e.base, fmt.Sprintf("tar%d-idon", w)), true)}
			for {
				nmu.Lock()
				i := next
				next++
				nmu.Unlock()
				if i >= int64(len(tars)) {
					break
				}
				e.tarCheck(sb[0], orderBase+i, tars[i])
				e.tarCheck(sb[1], orderBase+i, tars[i])
			}
			sb[0].destroy()
			sb[1].destroy()
		}(w)
	}
	wg.Wait()
	for i := 0; i < len(tars); i += len(tars)/4 + 1 {
		e.rep.Sample(12, "tar "+fmt.Sprint(tars[i]))
	}
	return int64(len(distinct))
}

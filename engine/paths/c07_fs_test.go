//go:build verif

package paths

import (
	"fmt"
	"runtime"
	"strconv"
	"strings"
	"sync"

	"github.com/cenkalti/rain/v2/internal/allocator"
	"github.com/cenkalti/rain/v2/internal/metainfo"
	"github.com/cenkalti/rain/v2/internal/storage"
	"github.com/cenkalti/rain/v2/torrent"
	"github.com/cenkalti/rain/v2/zzverif/core"
)

func sessionConfig(dataDir string, idOn bool) *torrent.Config {
	cfg := torrent.DefaultConfig
	cfg.DataDir = dataDir
	cfg.DataDirIncludesTorrentID = idOn
	cfg.FilePermissions = 0o750
	return &cfg
}

// dataDirFor is the torrent's own data directory exactly as the session computes it
// (newFileStorageProvider(cfg).getDataDir(id) through the in-package accessor).
func dataDirFor(dataDir string, idOn bool) string {
	return torrent.VerifC07DataDir(sessionConfig(dataDir, idOn), torrentID)
}

// recStorage forwards to the real storage and records what was asked and what was really opened
// (the name of the *os.File the real storage returns).
type recStorage struct {
	storage.Storage
	mu     sync.Mutex
	asked  []string
	opened []string // real paths of successfully opened files
	errs   int
	files  []storage.File
}

func (r *recStorage) Open(name string, size int64) (storage.File, bool, error) {
	f, exists, err := r.Storage.Open(name, size)
	r.mu.Lock()
	defer r.mu.Unlock()
	r.asked = append(r.asked, name)
	if err != nil {
		r.errs++
		return f, exists, err
	}
	if f != nil {
		r.files = append(r.files, f)
		if nf, ok := f.(interface{ Name() string }); ok {
			r.opened = append(r.opened, nf.Name())
		} else {
			core.HarnessError("storage file %T has no Name(): cannot observe the real path", f)
		}
	}
	return f, exists, err
}

// fsCheck runs oracle (b): the real allocator over the storage the session would give this torrent,
// in the sandbox; nothing outside the torrent's own directory may change or be opened.
func (e *env) fsCheck(sb *sandbox, tc *tcase, order int64, info *metainfo.Info, flags string) {
	root := sb.prepare()
	if !strictlyInside(sb.top, root) {
		core.HarnessError("data dir %q is not inside the sandbox %q", root, sb.top)
	}
	e.add("fs_cases", 1)
	sto, err := torrent.VerifC07GetStorage(sessionConfig(sb.dataDir(), sb.idOn), torrentID)
	if err != nil {
		core.HarnessError("GetStorage: %v", err)
	}
	rec := &recStorage{Storage: sto}
	var panicked string
	al := allocator.New()
	func() {
		defer func() {
			if r := recover(); r != nil {
				buf := make([]byte, 8192)
				n := runtime.Stack(buf, false)
				panicked = fmt.Sprintf("%v\n%s", r, buf[:n])
			}
		}()
		al.Run(info, rec, make(chan allocator.Progress, len(info.Files)+1), make(chan *allocator.Allocator, 1))
	}()
	for _, f := range rec.files {
		f.Close()
	}
	if panicked != "" {
		first, all := topFrames(panicked)
		e.viol.add("C07.panic."+first, order, fmt.Sprintf("%s: allocator panics: %s | %s", tc, strings.SplitN(panicked, "\n", 2)[0], all),
			func() any { return tc.replay(map[string]any{"oracle": "panic-allocator", "flags": flags}) })
	}
	after := snapshot(sb.guard)
	outside, inside := diffOutside(sb.baseline, after, root)
	var openedOutside []string
	for _, p := range rec.opened {
		if strictlyInside(root, p) {
			e.add("fs_files_opened_inside", 1)
		} else {
			openedOutside = append(openedOutside, strings.ReplaceAll(strconv.Quote(p), sb.top, "<sandbox>"))
		}
	}
	for _, f := range info.Files {
		if f.Padding {
			e.add("fs_padding_files", 1)
		}
	}
	e.add("fs_open_errors", int64(rec.errs))
	if inside > 0 {
		e.add("fs_cases_created_inside", 1)
	}
	if len(outside) > 0 || len(openedOutside) > 0 {
		sb.dirty = true
		e.add("fs_cases_outside_change", 1)
		var asked []string
		for _, a := range rec.asked {
			asked = append(asked, strconv.Quote(a))
		}
		desc := fmt.Sprintf("%s (NewInfo %s), DataDirIncludesTorrentID=%v, torrent directory <sandbox>%s: after the allocator ran, outside that directory: %s; files really opened outside: %s; names passed to Storage.Open: %s",
			tc, flags, sb.idOn, strings.TrimPrefix(root, sb.top), relTo(sb.top, outside), strings.ReplaceAll(strings.Join(openedOutside, ","), sb.top, "<sandbox>"), strings.Join(asked, ","))
		e.viol.add("C07.fs.outside."+tc.inputClass(), order, desc, func() any {
			return tc.replay(map[string]any{"oracle": "real-fs", "flags": flags, "data_dir_includes_torrent_id": sb.idOn, "outside_changes": strings.Split(relTo(sb.top, outside), "; "), "opened_outside": openedOutside, "asked": asked})
		})
	}
}

//go:build verif

// Package vrand replaces math/rand/v2 in the rain files that draw random numbers (import rewrite by
// mkoverlay): every draw is answered by the explorer. Default answer 0 / identity permutation; other
// answers are deviations chosen through Hook.
package vrand

import "sync"

var (
	mu sync.Mutex
	// Hook, if set, answers a draw: site is "IntN"/"Int32"/"Shuffle", n the bound; it must return a value in [0,n).
	Hook func(site string, n int) int
	// Draws counts draws (non-vacuity / state digests).
	Draws int
	seq32 int32
)

func Reset() { mu.Lock(); Hook = nil; Draws = 0; seq32 = 0; mu.Unlock() }

func draw(site string, n int) int {
	mu.Lock()
	defer mu.Unlock()
	Draws++
	if Hook == nil || n <= 0 {
		return 0
	}
	v := Hook(site, n)
	if v < 0 || v >= n {
		panic("vrand: hook answer out of range")
	}
	return v
}

func IntN(n int) int {
	if n <= 0 {
		panic("invalid argument to IntN")
	}
	return draw("IntN", n)
}

// Int32 returns distinct deterministic values (transaction ids must not collide).
func Int32() int32 {
	mu.Lock()
	defer mu.Unlock()
	Draws++
	seq32++
	return 0x01010100 + seq32
}

func Uint32() uint32 { return uint32(Int32()) }

// Shuffle applies the identity permutation by default (Hook may rotate: answer r rotates by r).
func Shuffle(n int, swap func(i, j int)) {
	r := 0
	if n > 1 {
		r = draw("Shuffle", n)
	}
	for k := 0; k < r; k++ { // rotate left by one, r times
		for i := 0; i+1 < n; i++ {
			swap(i, i+1)
		}
	}
}

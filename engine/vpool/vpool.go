//go:build verif

// Package vpool replaces sync.Pool inside rain's bufferpool in the lab variant. Which buffer a
// sync.Pool hands out is a choice the Go runtime makes (per-P caches, victim cache, GC); the lab owns
// that choice: a released buffer is handed out again at once, most recently released first (the
// legal behaviour under which a buffer that is released while still in use gets a second owner
// soonest). VERIF_BUFPOOL=fresh never reuses a buffer (the other extreme).
package vpool

import (
	"os"
	"runtime"
	"strings"
	"sync"
)

type Pool struct {
	New  func() any
	mu   sync.Mutex
	free []any
}

var fresh = os.Getenv("VERIF_BUFPOOL") == "fresh"

// Reuses counts buffers handed out again after a release (evidence that aliasing is possible at all).
var Reuses int

// Gate: a Get that would hand a released buffer out again, called from a goroutine other than a torrent
// event loop, parks until the explorer releases it (ReleaseOne). When a buffer gets its next owner is
// then an explorer decision like any other delivery: in particular it can happen while a piece writer
// that still uses the buffer is between its hash check and its file write.
var (
	Gate   bool
	gmu    sync.Mutex
	parked []chan struct{}
)

// Reset forgets parked Gets and counters of a previous execution.
func Reset() { gmu.Lock(); parked = nil; Reuses = 0; Gate = false; gmu.Unlock() }

// Parked is the number of Gets waiting for the explorer.
func Parked() int { gmu.Lock(); defer gmu.Unlock(); return len(parked) }

// ReleaseOne lets the oldest parked Get proceed.
func ReleaseOne() {
	gmu.Lock()
	if len(parked) > 0 {
		close(parked[0])
		parked = parked[1:]
	}
	gmu.Unlock()
}

// ReleaseAll lets every parked Get proceed and switches the gate off (teardown).
func ReleaseAll() {
	gmu.Lock()
	Gate = false
	for _, c := range parked {
		close(c)
	}
	parked = nil
	gmu.Unlock()
}

// caller classifies the goroutine that calls Get: 'l' a torrent event loop (must never park), 'b' a
// peer reader recycling a block buffer (once per block message: not gated, not counted), 'o' other.
func caller() byte {
	var pcs [64]uintptr
	n := runtime.Callers(2, pcs[:])
	fr := runtime.CallersFrames(pcs[:n])
	for {
		f, more := fr.Next()
		if strings.HasSuffix(f.Function, ".verifStepSafe") {
			return 'l'
		}
		if strings.Contains(f.Function, "/peerreader.") {
			return 'b'
		}
		if !more {
			return 'o'
		}
	}
}

func (p *Pool) Get() any {
	who := caller()
	p.mu.Lock()
	if len(p.free) > 0 && !fresh && Gate && who == 'o' {
		p.mu.Unlock()
		c := make(chan struct{})
		gmu.Lock()
		parked = append(parked, c)
		gmu.Unlock()
		<-c
		p.mu.Lock()
	}
	if n := len(p.free); n > 0 && !fresh {
		x := p.free[n-1]
		p.free = p.free[:n-1]
		if who != 'b' {
			Reuses++
		}
		p.mu.Unlock()
		return x
	}
	p.mu.Unlock()
	if p.New != nil {
		return p.New()
	}
	return nil
}

func (p *Pool) Put(x any) {
	p.mu.Lock()
	p.free = append(p.free, x)
	p.mu.Unlock()
}

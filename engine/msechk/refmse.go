//go:build verif

package msechk

// refmse.go: an independent, boring implementation of Message Stream Encryption written from the
// specification (wiki.vuze.com/w/Message_Stream_Encryption), used as the scripted raw peer. It shares
// nothing with rain's internal/mse except the standard library (sha1, rc4, math/big). All knobs are
// explicit (pads, raw crypto_select / crypto_provide values, keys), so it can also misbehave.

import (
	"bytes"
	"crypto/rc4"
	"crypto/sha1"
	"encoding/binary"
	"errors"
	"fmt"
	"io"
	"math/big"
)

const refPHex = "FFFFFFFFFFFFFFFFC90FDAA22168C234C4C6628B80DC1CD129024E088A67CC74020BBEA63B139B22514A08798E3404DDEF9519B3CD3A431B302B0A6DF25F14374FE1356D6D51C245E485B576625E7EC6F44C42E9A63A36210000000000090563"

var refP, _ = new(big.Int).SetString(refPHex, 16)

func ref96(x *big.Int) []byte {
	b := x.Bytes()
	out := make([]byte, 96)
	copy(out[96-len(b):], b)
	return out
}

func refSha(parts ...[]byte) []byte {
	h := sha1.New()
	for _, p := range parts {
		h.Write(p)
	}
	return h.Sum(nil)
}

// refSKeyHash is HASH('req2', SKEY).
func refSKeyHash(skey []byte) (out [20]byte) {
	copy(out[:], refSha([]byte("req2"), skey))
	return
}

func refRC4(label string, s96, skey []byte) *rc4.Cipher {
	c, _ := rc4.NewCipher(refSha([]byte(label), s96, skey))
	var d [1024]byte
	c.XORKeyStream(d[:], d[:])
	return c
}

// refStream is the payload stream after a reference handshake.
type refStream struct {
	rw       io.ReadWriter
	enc, dec *rc4.Cipher // nil: plaintext
	pre      []byte      // initial payload received with the handshake
}

func (s *refStream) Read(p []byte) (int, error) {
	if len(s.pre) > 0 {
		n := copy(p, s.pre)
		s.pre = s.pre[n:]
		return n, nil
	}
	n, err := s.rw.Read(p)
	if s.dec != nil {
		s.dec.XORKeyStream(p[:n], p[:n])
	}
	return n, err
}

func (s *refStream) Write(p []byte) (int, error) {
	b := append([]byte(nil), p...)
	if s.enc != nil {
		s.enc.XORKeyStream(b, b)
	}
	return s.rw.Write(b)
}

type refInit struct {
	Priv    []byte
	PadA    []byte
	PadCLen int
	SKey    []byte // used for HASH('req2', SKEY)
	RC4Key  []byte // used for the RC4 keys (== SKey for an honest peer)
	Provide uint32
	IA      []byte
}

// refInitiate runs the initiator side. It returns the raw crypto_select it received.
func refInitiate(rw io.ReadWriter, q refInit) (st *refStream, selected uint32, err error) {
	xa := new(big.Int).SetBytes(q.Priv)
	ya := new(big.Int).Exp(big.NewInt(2), xa, refP)
	if _, err = rw.Write(append(ref96(ya), q.PadA...)); err != nil {
		return
	}
	yb := make([]byte, 96)
	if _, err = io.ReadFull(rw, yb); err != nil {
		return
	}
	s96 := ref96(new(big.Int).Exp(new(big.Int).SetBytes(yb), xa, refP))
	enc := refRC4("keyA", s96, q.RC4Key)
	dec := refRC4("keyB", s96, q.RC4Key)
	var f bytes.Buffer
	f.Write(refSha([]byte("req1"), s96))
	h2 := refSha([]byte("req2"), q.SKey)
	h3 := refSha([]byte("req3"), s96)
	for i := range h2 {
		h2[i] ^= h3[i]
	}
	f.Write(h2)
	var e bytes.Buffer
	e.Write(make([]byte, 8))
	binary.Write(&e, binary.BigEndian, q.Provide)
	binary.Write(&e, binary.BigEndian, uint16(q.PadCLen))
	e.Write(make([]byte, q.PadCLen))
	binary.Write(&e, binary.BigEndian, uint16(len(q.IA)))
	e.Write(q.IA)
	eb := e.Bytes()
	enc.XORKeyStream(eb, eb)
	f.Write(eb)
	if _, err = rw.Write(f.Bytes()); err != nil {
		return
	}
	// synchronise on ENCRYPT(VC): at most 512 bytes of PadB precede it
	vcEnc := make([]byte, 8)
	dec.XORKeyStream(vcEnc, vcEnc)
	var win []byte
	one := make([]byte, 1)
	for n := 0; ; n++ {
		if len(win) == 8 && bytes.Equal(win, vcEnc) {
			break
		}
		if n >= 512+8 {
			err = errors.New("ref initiator: ENCRYPT(VC) not found within 520 bytes")
			return
		}
		if _, err = io.ReadFull(rw, one); err != nil {
			return
		}
		win = append(win, one[0])
		if len(win) > 8 {
			win = win[1:]
		}
	}
	hdr := make([]byte, 6)
	if _, err = io.ReadFull(rw, hdr); err != nil {
		return
	}
	dec.XORKeyStream(hdr, hdr)
	selected = binary.BigEndian.Uint32(hdr[:4])
	padD := make([]byte, binary.BigEndian.Uint16(hdr[4:]))
	if _, err = io.ReadFull(rw, padD); err != nil {
		return
	}
	dec.XORKeyStream(padD, padD)
	st = &refStream{rw: rw, enc: enc, dec: dec}
	switch selected {
	case 2:
	case 1:
		st.enc, st.dec = nil, nil
	default:
		err = fmt.Errorf("ref initiator: peer selected %#x", selected)
	}
	if err == nil && selected&q.Provide == 0 {
		err = fmt.Errorf("ref initiator: peer selected %#x which was not provided (%#x)", selected, q.Provide)
	}
	return
}

type refResp struct {
	Priv    []byte
	PadB    []byte
	PadDLen int
	Lookup  func(h [20]byte) []byte     // SKEY for HASH('req2', SKEY); nil result: unknown
	Select  func(provide uint32) uint32 // raw value put on the wire, may be illegal
}

// refRespond runs the responder side. It returns the raw crypto_provide it received and what it selected.
func refRespond(rw io.ReadWriter, q refResp) (st *refStream, provide, selected uint32, err error) {
	ya := make([]byte, 96)
	if _, err = io.ReadFull(rw, ya); err != nil {
		return
	}
	xb := new(big.Int).SetBytes(q.Priv)
	yb := new(big.Int).Exp(big.NewInt(2), xb, refP)
	if _, err = rw.Write(append(ref96(yb), q.PadB...)); err != nil {
		return
	}
	s96 := ref96(new(big.Int).Exp(new(big.Int).SetBytes(ya), xb, refP))
	req1 := refSha([]byte("req1"), s96)
	var win []byte
	one := make([]byte, 1)
	for n := 0; ; n++ {
		if len(win) == 20 && bytes.Equal(win, req1) {
			break
		}
		if n >= 512+20 {
			err = errors.New("ref responder: HASH('req1',S) not found within 532 bytes")
			return
		}
		if _, err = io.ReadFull(rw, one); err != nil {
			return
		}
		win = append(win, one[0])
		if len(win) > 20 {
			win = win[1:]
		}
	}
	var h [20]byte
	if _, err = io.ReadFull(rw, h[:]); err != nil {
		return
	}
	h3 := refSha([]byte("req3"), s96)
	for i := range h {
		h[i] ^= h3[i]
	}
	skey := q.Lookup(h)
	if skey == nil {
		err = errors.New("ref responder: unknown SKEY hash")
		return
	}
	dec := refRC4("keyA", s96, skey)
	enc := refRC4("keyB", s96, skey)
	rd := func(n int) ([]byte, error) {
		b := make([]byte, n)
		if _, e := io.ReadFull(rw, b); e != nil {
			return nil, e
		}
		dec.XORKeyStream(b, b)
		return b, nil
	}
	hdr, err := rd(14)
	if err != nil {
		return
	}
	if !bytes.Equal(hdr[:8], make([]byte, 8)) {
		err = errors.New("ref responder: bad VC")
		return
	}
	provide = binary.BigEndian.Uint32(hdr[8:12])
	if _, err = rd(int(binary.BigEndian.Uint16(hdr[12:14]))); err != nil {
		return
	}
	l, err := rd(2)
	if err != nil {
		return
	}
	ia, err := rd(int(binary.BigEndian.Uint16(l)))
	if err != nil {
		return
	}
	selected = q.Select(provide)
	var f bytes.Buffer
	f.Write(make([]byte, 8))
	binary.Write(&f, binary.BigEndian, selected)
	binary.Write(&f, binary.BigEndian, uint16(q.PadDLen))
	f.Write(make([]byte, q.PadDLen))
	fb := f.Bytes()
	enc.XORKeyStream(fb, fb)
	if _, err = rw.Write(fb); err != nil {
		return
	}
	st = &refStream{rw: rw, enc: enc, dec: dec, pre: ia}
	if selected == 1 {
		st.enc, st.dec = nil, nil
	}
	return
}

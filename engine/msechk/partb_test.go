//go:build verif

package msechk

// Part B: encryption policy at the btconn level.
//  B-mem: btconn.Accept (force in {0,1}) against scripted dialers over the in-memory duplex inside a
//         bubble, under chunk control (Accept first tries a plaintext handshake and replays the bytes
//         it consumed into the MSE handshake).
//  B-tcp: btconn.Dial (enable,force) against rain's own Accept with each policy and against scripted
//         plaintext-only / MSE peers over loopback TCP, including Dial's plaintext re-dial.

import (
	"bytes"
	"errors"
	"fmt"
	"io"
	"net"
	"runtime"
	"sync"
	"testing"
	"testing/synctest"
	"time"

	"github.com/cenkalti/rain/v2/internal/btconn"
	"github.com/cenkalti/rain/v2/internal/mse"
	"github.com/cenkalti/rain/v2/zzverif/core"
)

var (
	bIH      = [20]byte{0xde, 0xad, 0xbe, 0xef, 1, 2, 3, 4, 5, 6, 7, 8, 9, 10, 11, 12, 13, 14, 15, 16}
	bIDLocal = [20]byte{'-', 'R', 'N', '0', '0', '0', '1', '-', 'l', 'o', 'c', 'a', 'l', '0', '0', '0', '0', '0', '0', '1'}
	bIDPeer  = [20]byte{'-', 'R', 'N', '0', '0', '0', '1', '-', 'r', 'e', 'm', 'o', 't', 'e', '0', '0', '0', '0', '0', '2'}
	bExt     = [8]byte{0, 0, 0, 0, 0, 0x10, 0, 4}
	markerL  = []byte("VERIF-C12-MARKER-FROM-THE-DIALLING-SIDE-0123456789abcdef")
	markerR  = []byte("verif-c12-marker-from-the-accepting-side-FEDCBA9876543210")
)

func bGetSKey(h [20]byte) []byte {
	if h == refSKeyHash(bIH[:]) {
		return bIH[:]
	}
	return nil
}

func bHasIH(h [20]byte) bool { return h == bIH }

func hasPlain(raw []byte) string {
	switch {
	case bytes.Contains(raw, pstrBytes):
		return "the plaintext BitTorrent handshake"
	case bytes.Contains(raw, markerL), bytes.Contains(raw, markerR):
		return "a plaintext payload message"
	case bytes.Contains(raw, bIH[:]):
		return "the plaintext info-hash"
	}
	return ""
}

// exchange sends our marker and expects the peer's through a completed connection.
func exchange(rw io.ReadWriter, mine, theirs []byte) error {
	if _, err := rw.Write(mine); err != nil {
		return err
	}
	got := make([]byte, len(theirs))
	if _, err := io.ReadFull(rw, got); err != nil {
		return err
	}
	if !bytes.Equal(got, theirs) {
		return errors.New("CORRUPT: payload message differs")
	}
	return nil
}

// ---- B-mem

type caseAcc struct {
	Force  bool      `json:"force"`
	Dialer string    `json:"dialer"`  // plain | mse1 | mse2 | mse3 | mse3-unknown-key
	IAMode string    `json:"ia_mode"` // ia: BT handshake travels as the MSE initial payload; after: sent after the MSE handshake
	PadA   int       `json:"padA"`
	PadB   int       `json:"padB"`
	PadC   int       `json:"padC"`
	PadD   int       `json:"padD"`
	AB     chunkSpec `json:"ab"`
	BA     chunkSpec `json:"ba"`
}

func (c *caseAcc) String() string { return fmt.Sprintf("%+v", *c) }

type accOutcome struct {
	dial, acc      sideRes
	accCipher      uint32
	dialGotPeer    bool
	Hang           bool
	abData, baData []byte
}

func (c *caseAcc) provide() uint32 {
	switch c.Dialer {
	case "mse1":
		return 1
	case "mse2":
		return 2
	}
	return 3
}

// expectAcc: reference verdict for Accept.
func expectAcc(c *caseAcc) (ok bool, cipher uint32) {
	switch c.Dialer {
	case "plain":
		return !c.Force, 0
	case "mse3-unknown-key":
		return false, 0
	}
	p := c.provide()
	if p&2 != 0 {
		return true, 2
	}
	return !c.Force, 1
}

func runCaseAcc(c *caseAcc) *accOutcome {
	d := newDuplex(c.AB, c.BA)
	o := &accOutcome{}
	hs := btHandshake(bIH, bIDPeer, bExt)
	// scripted dialer on end A
	go func() {
		res := &o.dial
		defer guard(res, d.A)
		var rw io.ReadWriter = d.A
		if c.Dialer == "plain" {
			if _, err := d.A.Write(hs); err != nil {
				res.HSErr = err.Error()
				return
			}
		} else {
			q := refInit{Priv: privs[0], PadA: padBytes(c.PadA, 2), PadCLen: c.PadC, SKey: bIH[:], RC4Key: bIH[:], Provide: c.provide()}
			if c.Dialer == "mse3-unknown-key" {
				q.SKey, q.RC4Key = keyK2, keyK2
			}
			if c.IAMode == "ia" {
				q.IA = hs
			}
			st, sel, err := refInitiate(d.A, q)
			res.Cipher = sel
			if err != nil {
				res.HSErr = err.Error()
				return
			}
			rw = st
			if c.IAMode != "ia" {
				if _, err := st.Write(hs); err != nil {
					res.HSErr = err.Error()
					return
				}
			}
		}
		reply := make([]byte, 68)
		if _, err := io.ReadFull(rw, reply); err != nil {
			res.HSErr = "reading the BitTorrent handshake reply: " + err.Error()
			return
		}
		if !bytes.Equal(reply, btHandshake(bIH, bIDLocal, bExt)) {
			res.HSErr = "CORRUPT: BitTorrent handshake reply differs"
			return
		}
		res.HSOk = true
		if err := exchange(rw, markerL, markerR); err != nil {
			res.DataErr = err.Error()
			return
		}
		res.DataOK = true
	}()
	// rain's Accept on end B
	go func() {
		res := &o.acc
		defer guard(res, d.B)
		sc := newRandScript(privs[1], padBytes(c.PadB, 2), c.PadD)
		var conn net.Conn
		var cipher mse.CryptoMethod
		var pid, ih [20]byte
		var err error
		withScript(sc, func() {
			conn, cipher, _, pid, ih, err = btconn.Accept(d.B, time.Minute, bGetSKey, c.Force, bHasIH, bExt, bIDLocal)
		})
		if err != nil {
			res.HSErr = err.Error()
			return
		}
		res.HSOk, res.Cipher = true, uint32(cipher)
		if pid != bIDPeer || ih != bIH {
			res.DataErr = "CORRUPT: peer id / info-hash differ from what the dialer sent"
			return
		}
		if err := exchange(conn, markerR, markerL); err != nil {
			res.DataErr = err.Error()
			return
		}
		res.DataOK = true
	}()
	synctest.Wait()
	if !o.dial.done.Load() || !o.acc.done.Load() {
		o.Hang = true
		if !o.acc.done.Load() {
			o.acc.Blocked = "Accept"
			if o.acc.HSOk {
				o.acc.Blocked = "payload stream"
			}
		}
		if !o.dial.done.Load() {
			o.dial.Blocked = "scripted dialer"
		}
		d.A.Close()
		d.B.Close()
		synctest.Wait()
		if !o.dial.done.Load() || !o.acc.done.Load() {
			core.HarnessError("B-mem goroutines did not end after close: %s", c)
		}
	}
	o.abData, _, _ = d.ab.snapshot()
	o.baData, _, _ = d.ba.snapshot()
	return o
}

func (k *checker) evalAcc(st *stats, seq int64, c *caseAcc, o *accOutcome) {
	want, wantCipher := expectAcc(c)
	desc := func(what string) string {
		return fmt.Sprintf("%s; Accept case %s; dialer: %s; Accept: %s", what, c, &o.dial, &o.acc)
	}
	bad := false
	fail := func(key, what string) { bad = true; k.violate(seq, key, desc(what), c) }
	if o.acc.Panic != "" {
		fail("C12.panic."+panicFrame(o.acc.Panic), "panic in Accept")
		return
	}
	if o.dial.Panic != "" {
		core.HarnessError("scripted dialer panicked: %s", o.dial.Panic)
	}
	ok := o.acc.HSOk
	if c.Force && ok {
		if o.acc.Cipher != 2 {
			fail("C12.policy.accept-force.cipher", fmt.Sprintf("incoming encryption is forced but Accept returned a connection with cipher %d", o.acc.Cipher))
		}
		if p := hasPlain(o.abData); p != "" {
			fail("C12.policy.accept-force.wire-plaintext", "incoming encryption is forced, Accept succeeded, but the dialer->acceptor wire carries "+p)
		}
		if p := hasPlain(o.baData); p != "" {
			fail("C12.policy.accept-force.wire-plaintext", "incoming encryption is forced, Accept succeeded, but the acceptor->dialer wire carries "+p)
		}
	}
	if ok && o.acc.Cipher == 2 && !bad {
		if p := hasPlain(append(append([]byte{}, o.abData...), o.baData...)); p != "" {
			fail("C12.agree.wire-cipher", "Accept reports RC4 but the wire carries "+p)
		}
	}
	if ok && !want && !bad {
		if c.Dialer == "mse3-unknown-key" {
			fail("C12.wrongkey.completes", "Accept completed with a dialer that does not know the key")
		} else {
			fail("C12.policy.accept-force.cipher", "Accept completed although the policy forbids it")
		}
	}
	if o.Hang && !bad {
		fail("C12.hang.accept", "Accept and the dialer blocked forever (bubble deadlock)")
	}
	if bad {
		return
	}
	if !ok {
		if want {
			fail("C12.complete.accept-legit-fails."+errToken(o.acc.HSErr), "Accept failed on a handshake it has to accept")
		} else {
			st.add("b_accept_refused_as_required", 1)
			if c.Force {
				st.add("b_accept_force_refused", 1)
			}
		}
		return
	}
	if o.acc.Cipher != wantCipher || (c.Dialer != "plain" && o.dial.Cipher != wantCipher) {
		fail("C12.agree.cipher-mismatch", fmt.Sprintf("Accept reports cipher %d, dialer saw crypto_select %d, expected %d", o.acc.Cipher, o.dial.Cipher, wantCipher))
	}
	if !o.dial.HSOk {
		fail("C12.agree.onesided.responder-only", "Accept completed, the dialer did not")
		return
	}
	if !o.acc.DataOK || !o.dial.DataOK {
		fail("C12.stream.error", "payload exchange failed after Accept")
		return
	}
	st.add("b_accept_completed", 1)
	if c.Force {
		st.add("b_accept_force_completed_rc4", 1)
	}
}

func genAcc(thorough bool, emit func(caseAcc)) {
	pads := [][4]int{{0, 0, 0, 0}, {511, 511, 511, 511}, {1, 255, 2, 3}}
	for _, force := range []bool{false, true} {
		for _, dialer := range []string{"plain", "mse3", "mse2", "mse1", "mse3-unknown-key"} {
			for _, mode := range []string{"ia", "after"} {
				if dialer == "plain" && mode == "after" {
					continue
				}
				for _, p := range pads {
					if dialer == "plain" && p[0] != 0 {
						continue
					}
					base := caseAcc{Force: force, Dialer: dialer, IAMode: mode, PadA: p[0], PadB: p[1], PadC: p[2], PadD: p[3]}
					emit(base)
					for _, ev := range [][2]int{{1, 1}, {1, 0}, {0, 1}, {19, 19}, {20, 20}, {21, 21}, {68, 68}, {96, 96}} {
						x := base
						x.AB.Every, x.BA.Every = ev[0], ev[1]
						emit(x)
					}
					// every single split position of the dialer->acceptor and acceptor->dialer streams
					nab := 68 + len(markerL)
					nba := 68 + len(markerR)
					if dialer != "plain" {
						nab = 96 + p[0] + 56 + p[2] + 68 + len(markerL)
						nba = 96 + p[1] + 14 + p[3] + 68 + len(markerR)
					}
					all := thorough || p[0] != 511 || (dialer == "mse3" && mode == "ia")
					edge := func(cut, n int, marks []int) bool {
						if all {
							return true
						}
						for _, m := range marks {
							if cut >= m-1 && cut <= m+1 {
								return true
							}
						}
						return false
					}
					f1, f2 := 96+p[0], 96+p[1]
					mab := []int{1, 20, 68, 96, f1, f1 + 20, f1 + 40, f1 + 48, f1 + 54, f1 + 54 + p[2], f1 + 56 + p[2], f1 + 56 + p[2] + 68, nab - 1}
					mba := []int{1, 96, f2, f2 + 8, f2 + 12, f2 + 14, f2 + 14 + p[3], f2 + 14 + p[3] + 68, nba - 1}
					for cut := 1; cut < nab; cut++ {
						if edge(cut, nab, mab) {
							x := base
							x.AB.Cuts = []int{cut}
							emit(x)
						}
					}
					for cut := 1; cut < nba; cut++ {
						if edge(cut, nba, mba) {
							x := base
							x.BA.Cuts = []int{cut}
							emit(x)
						}
					}
				}
			}
		}
	}
}

// ---- B-tcp

type caseDial struct {
	Enable bool   `json:"enable"`
	Force  bool   `json:"force"`
	Remote string `json:"remote"`
	PadA   int    `json:"padA"`
	PadB   int    `json:"padB"`
	PadC   int    `json:"padC"`
	PadD   int    `json:"padD"`
}

func (c *caseDial) String() string { return fmt.Sprintf("%+v", *c) }

// recConn records the raw bytes of a TCP connection as seen by the remote side.
type recConn struct {
	net.Conn
	mu      sync.Mutex
	in, out bytes.Buffer
}

func (r *recConn) Read(p []byte) (int, error) {
	n, err := r.Conn.Read(p)
	r.mu.Lock()
	r.in.Write(p[:n])
	r.mu.Unlock()
	return n, err
}

func (r *recConn) Write(p []byte) (int, error) {
	r.mu.Lock()
	r.out.Write(p)
	r.mu.Unlock()
	return r.Conn.Write(p)
}

type remoteConn struct {
	rec       *recConn
	plainTry  bool // the connection started with the plaintext BitTorrent protocol string
	completed bool // the remote completed the BT handshake on it
	cipher    uint32
	err       string
	rainForce bool
}

const realLimit = 20 * time.Second

func isTimeout(err error) bool {
	var ne net.Error
	return err != nil && errors.As(err, &ne) && ne.Timeout()
}

// serveRemote handles one accepted connection according to the remote kind.
func serveRemote(c *caseDial, rc *remoteConn, timeouts *int64mu) {
	conn := rc.rec
	defer conn.Close()
	conn.SetDeadline(time.Now().Add(realLimit))
	note := func(err error) {
		if err != nil {
			rc.err = err.Error()
			if isTimeout(err) {
				timeouts.inc()
			}
		}
	}
	hsReply := btHandshake(bIH, bIDPeer, bExt)
	if c.Remote == "rain" || c.Remote == "rain-force" {
		force := c.Remote == "rain-force"
		rc.rainForce = force
		sc := newRandScript(privs[1], padBytes(c.PadB, 2), c.PadD)
		var out net.Conn
		var cipher mse.CryptoMethod
		var err error
		withScript(sc, func() {
			out, cipher, _, _, _, err = btconn.Accept(conn, realLimit, bGetSKey, force, bHasIH, bExt, bIDPeer)
		})
		if err != nil {
			note(err)
			return
		}
		rc.cipher = uint32(cipher)
		if err := exchange(out, markerR, markerL); err != nil {
			note(err)
			return
		}
		rc.completed = true
		return
	}
	first := make([]byte, 20)
	if _, err := io.ReadFull(conn, first); err != nil {
		note(err)
		return
	}
	if bytes.Equal(first, pstrBytes) {
		rc.plainTry = true
		switch c.Remote {
		case "mse-rc4", "mse-preferplain", "mse-alwaysplain":
			return // MSE-only peer: hangs up on plaintext
		}
		rest := make([]byte, 48)
		if _, err := io.ReadFull(conn, rest); err != nil {
			note(err)
			return
		}
		if _, err := conn.Write(hsReply); err != nil {
			note(err)
			return
		}
		if err := exchange(conn, markerR, markerL); err != nil {
			note(err)
			return
		}
		rc.completed = true
		return
	}
	// not plaintext: an MSE attempt
	switch c.Remote {
	case "plain-close":
		return
	case "plain-reply":
		conn.Write(hsReply) // a peer that blindly sends its plaintext handshake
		return
	}
	var w net.Conn = conn
	if c.Remote == "mse-abort-then-plain" {
		w = &truncConn{Conn: conn, limit: 96 + c.PadB + 12} // hangs up right after crypto_select
	}
	rw := struct {
		io.Reader
		io.Writer
	}{io.MultiReader(bytes.NewReader(first), conn), w}
	q := refResp{Priv: privs[1], PadB: padBytes(c.PadB, 2), PadDLen: c.PadD, Lookup: bGetSKey,
		Select: func(p uint32) uint32 {
			switch c.Remote {
			case "mse-preferplain":
				return selPolicy("plainfirst", p)
			case "mse-alwaysplain":
				return 1
			}
			return selPolicy("rc4first", p)
		}}
	st, _, sel, err := refRespond(rw, q)
	rc.cipher = sel
	if err != nil {
		note(err)
		return
	}
	hs := make([]byte, 68)
	if _, err := io.ReadFull(st, hs); err != nil {
		note(err)
		return
	}
	if _, err := st.Write(hsReply); err != nil {
		note(err)
		return
	}
	if err := exchange(st, markerR, markerL); err != nil {
		note(err)
		return
	}
	rc.completed = true
}

type int64mu struct {
	mu sync.Mutex
	n  int64
}

func (c *int64mu) inc() { c.mu.Lock(); c.n++; c.mu.Unlock() }

func (k *checker) runCaseDial(seq int64, c *caseDial, rep *core.Report) {
	st := newStats()
	defer k.merge(st)
	ln, err := net.Listen("tcp", "127.0.0.1:0")
	if err != nil {
		core.HarnessError("listen on loopback: %v", err)
	}
	var timeouts int64mu
	var wg sync.WaitGroup
	var mu sync.Mutex
	var conns []*remoteConn
	wg.Add(1)
	go func() {
		defer wg.Done()
		for {
			nc, err := ln.Accept()
			if err != nil {
				return
			}
			rc := &remoteConn{rec: &recConn{Conn: nc}}
			mu.Lock()
			conns = append(conns, rc)
			mu.Unlock()
			wg.Add(1)
			go func() { defer wg.Done(); serveRemote(c, rc, &timeouts) }()
		}
	}()
	var conn net.Conn
	var cipher mse.CryptoMethod
	var derr error
	var pid [20]byte
	sc := newRandScript(privs[0], padBytes(c.PadA, 2), c.PadC)
	stopC := make(chan struct{})
	var panicked string
	withScript(sc, func() {
		defer func() {
			if r := recover(); r != nil {
				buf := make([]byte, 8192)
				panicked = fmt.Sprintf("%v at %s", r, topFrames(string(buf[:runtime.Stack(buf, false)])))
				derr = errors.New("panic")
			}
		}()
		conn, cipher, _, pid, derr = btconn.Dial(ln.Addr(), realLimit, realLimit, c.Enable, c.Force, bExt, bIH, bIDLocal, stopC)
	})
	var xerr error
	if derr == nil {
		conn.SetDeadline(time.Now().Add(realLimit))
		xerr = exchange(conn, markerL, markerR)
		conn.Close()
	}
	ln.Close()
	wg.Wait()
	if isTimeout(derr) || isTimeout(xerr) || timeouts.n > 0 {
		rep.Cap(fmt.Sprintf("real-time limit hit in loopback case %s (no verdict for it)", c))
		return
	}
	var rdesc []string
	for i, rc := range conns {
		rdesc = append(rdesc, fmt.Sprintf("conn %d: plaintext-start=%v completed=%v cipher=%d err=%q in=%dB out=%dB", i, rc.plainTry, rc.completed, rc.cipher, rc.err, rc.rec.in.Len(), rc.rec.out.Len()))
	}
	desc := func(what string) string {
		return fmt.Sprintf("%s; Dial case %s; Dial: cipher=%d err=%v exchange-err=%v; remote saw %v", what, c, cipher, derr, xerr, rdesc)
	}
	fail := func(key, what string) { k.violate(seq, key, desc(what), c) }
	if panicked != "" {
		fail("C12.panic."+panicFrame(panicked), "panic in Dial: "+panicked)
		return
	}
	if c.Force {
		if derr == nil && cipher != mse.RC4 {
			fail("C12.policy.dial-force.cipher", fmt.Sprintf("outgoing encryption is forced but Dial returned a connection with cipher %d", cipher))
		}
		for i, rc := range conns {
			if rc.plainTry {
				fail("C12.policy.dial-force.plaintext-redial", fmt.Sprintf("outgoing encryption is forced but connection %d was opened with a plaintext handshake", i))
			} else if derr == nil && i == len(conns)-1 {
				if p := hasPlain(append(append([]byte{}, rc.rec.in.Bytes()...), rc.rec.out.Bytes()...)); p != "" {
					fail("C12.policy.dial-force.wire-plaintext", "outgoing encryption is forced, Dial succeeded, but the wire carries "+p)
				}
			}
		}
	}
	for i, rc := range conns {
		if rc.rainForce && (rc.completed || rc.cipher != 0) {
			if rc.cipher != 2 {
				fail("C12.policy.accept-force.cipher", fmt.Sprintf("incoming encryption is forced but Accept (connection %d) returned cipher %d", i, rc.cipher))
			}
			if p := hasPlain(append(append([]byte{}, rc.rec.in.Bytes()...), rc.rec.out.Bytes()...)); p != "" && rc.completed {
				fail("C12.policy.accept-force.wire-plaintext", "incoming encryption is forced, Accept succeeded, but the wire carries "+p)
			}
		}
	}
	if derr == nil && pid != bIDPeer {
		fail("C12.stream.corrupt", "peer id returned by Dial differs from the remote's")
	}
	if derr == nil && xerr != nil {
		fail("C12.stream.error", "payload exchange failed on a connection returned by Dial")
	}
	// measured facts
	st.add("b_dial_cases", 1)
	if derr == nil {
		st.add("b_dial_completed", 1)
		last := conns[len(conns)-1]
		if len(conns) == 2 && last.plainTry {
			st.add("b_dial_plaintext_redial_completed", 1)
			if cipher == mse.RC4 {
				st.add("b_observation_dial_reports_rc4_for_plaintext_redial", 1)
			}
		}
		if c.Force {
			st.add("b_dial_force_completed_rc4", 1)
		}
	} else {
		st.add("b_dial_failed", 1)
		if c.Force {
			st.add("b_dial_force_failed", 1)
		}
	}
	if len(conns) == 2 {
		st.add("b_dial_second_connection", 1)
	}
}

func partB(t *testing.T, k *checker, rep *core.Report, thorough bool) int64 {
	const seqBase = 1 << 40 // Part B cases sort after Part A cases
	// B-mem
	var accCases []caseAcc
	genAcc(thorough, func(c caseAcc) { accCases = append(accCases, c) })
	var next int64 = -1
	var nmu sync.Mutex
	t.Run("Bmem", func(t *testing.T) {
		for w := 0; w < core.Parallelism(); w++ {
			t.Run(fmt.Sprintf("w%d", w), func(t *testing.T) {
				t.Parallel()
				synctest.Test(t, func(t *testing.T) {
					st := newStats()
					defer k.merge(st)
					for {
						nmu.Lock()
						next++
						i := next
						nmu.Unlock()
						if i >= int64(len(accCases)) {
							return
						}
						c := accCases[i]
						o := runCaseAcc(&c)
						k.evalAcc(st, seqBase+i, &c, o)
					}
				})
			})
		}
	})
	rep.Extra["b_accept_cases"] = int64(len(accCases))
	for i := 0; i < len(accCases); i += len(accCases)/3 + 1 {
		rep.Sample(14, accCases[i])
	}
	// B-tcp
	var dialCases []caseDial
	pads := [][4]int{{0, 0, 0, 0}, {511, 511, 511, 511}, {1, 255, 2, 3}}
	if thorough {
		pads = append(pads, [4]int{511, 0, 0, 511}, [4]int{0, 511, 511, 0}, [4]int{96, 97, 98, 99})
	}
	for _, pol := range [][2]bool{{true, false}, {true, true}, {false, false}} {
		for _, remote := range []string{"rain", "rain-force", "plain-close", "plain-reply", "mse-rc4", "mse-preferplain", "mse-alwaysplain", "mse-abort-then-plain", "mse-and-plain"} {
			for _, p := range pads {
				dialCases = append(dialCases, caseDial{Enable: pol[0], Force: pol[1], Remote: remote, PadA: p[0], PadB: p[1], PadC: p[2], PadD: p[3]})
			}
		}
	}
	var wg sync.WaitGroup
	sem := make(chan struct{}, 8)
	for i := range dialCases {
		wg.Add(1)
		sem <- struct{}{}
		go func(i int) {
			defer wg.Done()
			defer func() { <-sem }()
			c := dialCases[i]
			k.runCaseDial(seqBase+int64(len(accCases))+int64(i), &c, rep)
		}(i)
	}
	wg.Wait()
	rep.Sample(16, dialCases[0])
	rep.Sample(16, dialCases[len(dialCases)-1])
	if len(k.viols) == 0 {
		if k.ctr["b_dial_plaintext_redial_completed"] == 0 || k.ctr["b_dial_force_failed"] == 0 || k.ctr["b_dial_force_completed_rc4"] == 0 ||
			k.ctr["b_accept_force_refused"] == 0 || k.ctr["b_accept_force_completed_rc4"] == 0 {
			k.rep.Vacuous("vacuous Part B: counters %v", k.ctr)
		}
	}
	return int64(len(accCases) + len(dialCases))
}

//go:build verif

// Package msechk: C12 — MSE handshake/stream for all pads and chunkings, forced-encryption policy.
//
// pipe.go: an in-memory full-duplex byte stream whose Read results are owned by the explorer. A
// direction is an unbounded byte queue (a Write never blocks, like a socket buffer that is large
// enough); a Read returns min(len(p), bytes available, distance to the next cut). Cuts are absolute
// stream offsets, so that the sequence of Read results is a function of the case description only.
// Blocking uses sync.Cond, which is "durably blocking" for testing/synctest, so a bubble detects
// "both endpoints wait forever" exactly.
package msechk

import (
	"errors"
	"io"
	"math"
	"net"
	"sync"
	"time"
)

// chunkSpec describes how one direction of the transport is fragmented.
type chunkSpec struct {
	Cuts  []int `json:"cuts,omitempty"`  // ascending absolute offsets no Read may cross
	Every int   `json:"every,omitempty"` // >0: additionally no Read crosses a multiple of Every (1 = byte at a time)
}

var errPipeClosed = errors.New("vpipe: use of closed connection")

type half struct {
	mu      sync.Mutex
	cond    *sync.Cond
	data    []byte // everything ever written (kept: it is the wire capture)
	pos     int
	ci      int // index of the first cut > pos
	spec    chunkSpec
	wclosed bool // writer closed: reader gets EOF after draining
	rclosed bool // reader closed: Read fails, writes are dropped
	writes  []int
	nreads  int
	first   int // bytes returned until the running total first reached >= 96 (size of the "first read" of mse)
	dropped int
}

func newHalf(spec chunkSpec) *half {
	h := &half{spec: spec}
	h.cond = sync.NewCond(&h.mu)
	return h
}

func (h *half) limit() int {
	lim := math.MaxInt
	if h.spec.Every > 0 {
		lim = h.spec.Every - h.pos%h.spec.Every
	}
	for h.ci < len(h.spec.Cuts) && h.spec.Cuts[h.ci] <= h.pos {
		h.ci++
	}
	if h.ci < len(h.spec.Cuts) {
		if d := h.spec.Cuts[h.ci] - h.pos; d < lim {
			lim = d
		}
	}
	return lim
}

func (h *half) read(p []byte) (int, error) {
	if len(p) == 0 {
		return 0, nil
	}
	h.mu.Lock()
	defer h.mu.Unlock()
	for {
		if h.rclosed {
			return 0, errPipeClosed
		}
		if h.pos < len(h.data) {
			break
		}
		if h.wclosed {
			return 0, io.EOF
		}
		h.cond.Wait()
	}
	n := len(h.data) - h.pos
	if len(p) < n {
		n = len(p)
	}
	if l := h.limit(); l < n {
		n = l
	}
	copy(p, h.data[h.pos:h.pos+n])
	if h.pos < 96 {
		h.first = h.pos + n
	}
	h.pos += n
	h.nreads++
	return n, nil
}

func (h *half) write(p []byte) (int, error) {
	h.mu.Lock()
	defer h.mu.Unlock()
	if h.wclosed {
		return 0, errPipeClosed
	}
	if h.rclosed {
		h.dropped += len(p)
		return len(p), nil // the peer is gone; like TCP the first writes still "succeed"
	}
	h.data = append(h.data, p...)
	h.writes = append(h.writes, len(p))
	h.cond.Broadcast()
	return len(p), nil
}

func (h *half) closeWrite() { h.mu.Lock(); h.wclosed = true; h.cond.Broadcast(); h.mu.Unlock() }
func (h *half) closeRead()  { h.mu.Lock(); h.rclosed = true; h.cond.Broadcast(); h.mu.Unlock() }

func (h *half) snapshot() (data []byte, writes []int, first int) {
	h.mu.Lock()
	defer h.mu.Unlock()
	return append([]byte(nil), h.data...), append([]int(nil), h.writes...), h.first
}

// end is one endpoint of the duplex; it implements net.Conn (deadlines are accepted and ignored:
// inside a bubble "nothing can ever happen again" is detected exactly, no timeout is needed).
type end struct {
	in, out *half
	name    string
	closed  bool
	cmu     sync.Mutex
}

type vaddr string

func (a vaddr) Network() string { return "vpipe" }
func (a vaddr) String() string  { return string(a) }

func (e *end) Read(p []byte) (int, error)  { return e.in.read(p) }
func (e *end) Write(p []byte) (int, error) { return e.out.write(p) }
func (e *end) Close() error {
	e.cmu.Lock()
	was := e.closed
	e.closed = true
	e.cmu.Unlock()
	if was {
		return errPipeClosed
	}
	e.in.closeRead()
	e.out.closeWrite()
	return nil
}
func (e *end) LocalAddr() net.Addr                { return vaddr(e.name) }
func (e *end) RemoteAddr() net.Addr               { return vaddr("peer-of-" + e.name) }
func (e *end) SetDeadline(t time.Time) error      { return nil }
func (e *end) SetReadDeadline(t time.Time) error  { return nil }
func (e *end) SetWriteDeadline(t time.Time) error { return nil }

type duplex struct {
	ab, ba *half // A->B, B->A
	A, B   *end
}

func newDuplex(ab, ba chunkSpec) *duplex {
	d := &duplex{ab: newHalf(ab), ba: newHalf(ba)}
	d.A = &end{in: d.ba, out: d.ab, name: "A"}
	d.B = &end{in: d.ab, out: d.ba, name: "B"}
	return d
}

// truncConn closes the connection after limit bytes have been written through it (limit < 0: never).
type truncConn struct {
	net.Conn
	limit int
}

func (t *truncConn) Write(p []byte) (int, error) {
	if t.limit < 0 {
		return t.Conn.Write(p)
	}
	if len(p) <= t.limit {
		t.limit -= len(p)
		return t.Conn.Write(p)
	}
	n, _ := t.Conn.Write(p[:t.limit])
	t.limit = 0
	t.Conn.Close()
	return n, errors.New("scripted peer: connection cut here")
}

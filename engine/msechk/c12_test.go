//go:build verif

package msechk

import (
	"bytes"
	"crypto/sha1"
	"encoding/json"
	"fmt"
	"io"
	"math/bits"
	"net"
	"os"
	"regexp"
	"runtime"
	"sort"
	"strings"
	"sync"
	"sync/atomic"
	"testing"
	"testing/synctest"

	"github.com/cenkalti/rain/v2/internal/logger"
	"github.com/cenkalti/rain/v2/internal/mse"
	"github.com/cenkalti/rain/v2/zzverif/core"
)

// ---------------------------------------------------------------------------------------------
// Part A: stream level. Two endpoints over the chunk-controlled duplex inside a synctest bubble.
// Kind "rr": both endpoints are rain's mse.Stream. Kind "rs": rain initiator, scripted (reference)
// responder. Kind "sr": scripted initiator, rain responder.

type caseA struct {
	Kind  string    `json:"kind"`
	PadA  int       `json:"padA"`
	PadB  int       `json:"padB"`
	PadC  int       `json:"padC"`
	PadD  int       `json:"padD"`
	Fill  int       `json:"fill"`  // pad byte pattern of padA/padB: 0 zero, 1 0xff, 2 counting, 3 "\x13BitTorrent protocol" repeated
	IA    int       `json:"ia"`    // initial payload size
	Offer uint32    `json:"offer"` // crypto_provide (raw)
	Sel   string    `json:"sel"`   // selector policy of the responder, or "raw:<n>" for a scripted responder
	Key   string    `json:"key"`   // ok | miss (responder does not know the key) | wrongret (responder's lookup returns another key) | rc4wrong (scripted initiator knows HASH(SKEY) but not SKEY)
	PrivA int       `json:"privA"`
	PrivB int       `json:"privB"`
	AB    chunkSpec `json:"ab"`
	BA    chunkSpec `json:"ba"`
	Trunc int       `json:"trunc"` // scripted side closes after writing this many bytes (-1: never)
}

func (c *caseA) String() string { b, _ := json.Marshal(c); return string(b) }

var (
	keyK  = []byte("C12-shared-key-0123!")
	keyK2 = []byte("C12-other--key-4567?")
	privs = [][]byte{
		{0x01, 0x02, 0x03, 0x04, 0x05, 0x06, 0x07, 0x08, 0x09, 0x0a, 0x0b, 0x0c, 0x0d, 0x0e, 0x0f, 0x10, 0x11, 0x12, 0x13, 0x14},
		{0xa1, 0xb2, 0xc3, 0xd4, 0xe5, 0xf6, 0x07, 0x18, 0x29, 0x3a, 0x4b, 0x5c, 0x6d, 0x7e, 0x8f, 0x90, 0xa1, 0xb2, 0xc3, 0xd4},
		{0x00}, // X = 0: Y = 1, S = 1 (95 leading zero bytes everywhere)
		{0x01}, // X = 1: Y = 2
		bytes.Repeat([]byte{0xff}, 20),
		append([]byte{0x80}, make([]byte, 19)...),
	}
	pstrBytes = []byte("\x13BitTorrent protocol")
)

func patternBytes(n int, seed byte) []byte {
	b := make([]byte, n)
	for i := range b {
		b[i] = byte(i*7) + seed + byte(i>>8)
	}
	return b
}

func padBytes(n, fill int) []byte {
	b := make([]byte, n)
	for i := range b {
		switch fill {
		case 1:
			b[i] = 0xff
		case 2:
			b[i] = byte(i + 1)
		case 3:
			b[i] = pstrBytes[i%len(pstrBytes)]
		}
	}
	return b
}

func btHandshake(ih, id [20]byte, ext [8]byte) []byte {
	var b bytes.Buffer
	b.Write(pstrBytes)
	b.Write(ext[:])
	b.Write(ih[:])
	b.Write(id[:])
	return b.Bytes()
}

func iaBytes(n int) []byte {
	if n == 68 {
		var ih, id [20]byte
		copy(ih[:], keyK)
		copy(id[:], "-VF0001-abcdefghijkl")
		return btHandshake(ih, id, [8]byte{0, 0, 0, 0, 0, 0x10, 0, 1})
	}
	return patternBytes(n, 0x5a)
}

func messages(c *caseA) (a, b [][]byte) {
	a = [][]byte{iaBytes(c.IA), patternBytes(5, 0x11), patternBytes(1031, 0x22)}
	b = [][]byte{patternBytes(68, 0x33), patternBytes(1, 0x44), patternBytes(777, 0x55)}
	return
}

// selPolicy is the model of the responder's selector callback / of the scripted responder's choice.
func selPolicy(name string, provided uint32) uint32 {
	switch name {
	case "rc4first":
		if provided&2 != 0 {
			return 2
		}
		if provided&1 != 0 {
			return 1
		}
		return 0
	case "plainfirst":
		if provided&1 != 0 {
			return 1
		}
		if provided&2 != 0 {
			return 2
		}
		return 0
	case "rc4only":
		return provided & 2
	case "plainonly":
		return provided & 1
	case "zero":
		return 0
	case "three":
		return 3
	case "echo":
		return provided
	case "other": // a single method that was not offered
		for b := uint32(1); b != 0; b <<= 1 {
			if provided&b == 0 {
				return b
			}
		}
		return 0
	}
	if strings.HasPrefix(name, "raw:") {
		var v uint32
		fmt.Sscanf(name[4:], "%d", &v)
		return v
	}
	panic("unknown selector policy " + name)
}

// expectA is the reference verdict: does a handshake of this case have to complete, and with which cipher.
func expectA(c *caseA) (ok bool, cipher uint32) {
	if c.IA > 65535 || c.Key != "ok" || c.Trunc >= 0 || c.Offer == 0 {
		return false, 0
	}
	sel := selPolicy(c.Sel, c.Offer)
	if sel == 0 || bits.OnesCount32(sel) != 1 || sel&c.Offer == 0 {
		return false, 0
	}
	return true, sel
}

type sideRes struct {
	done     atomic.Bool
	HSOk     bool
	HSErr    string
	Cipher   uint32
	Provided uint32
	DataOK   bool
	DataErr  string
	Panic    string
	Blocked  string // set by the bubble's root: where this side was blocked forever
	randOver int
}

func (r *sideRes) String() string {
	if r.Blocked != "" {
		return "BLOCKED FOREVER in " + r.Blocked
	}
	if r.Panic != "" {
		return "panic: " + r.Panic
	}
	if !r.HSOk {
		return "handshake error: " + r.HSErr
	}
	s := fmt.Sprintf("handshake ok cipher=%d", r.Cipher)
	if r.DataOK {
		return s + ", data ok"
	}
	return s + ", data error: " + r.DataErr
}

func topFrames(st string) string {
	var out []string
	for _, ln := range strings.Split(st, "\n") {
		if strings.Contains(ln, "/repo/") && !strings.Contains(ln, "zzverif") {
			out = append(out, strings.TrimSpace(ln))
			if len(out) >= 3 {
				break
			}
		}
	}
	return strings.Join(out, " <- ")
}

var frameRe = regexp.MustCompile(`/repo/([^ :]+):(\d+)`)

func panicFrame(desc string) string {
	if m := frameRe.FindStringSubmatch(desc); m != nil {
		return m[1] + ":" + m[2]
	}
	return "unknown"
}

func guard(res *sideRes, conn io.Closer) {
	if r := recover(); r != nil {
		buf := make([]byte, 8192)
		n := runtime.Stack(buf, false)
		res.Panic = fmt.Sprintf("%v at %s", r, topFrames(string(buf[:n])))
	}
	conn.Close()
	res.done.Store(true)
}

// dataPhase: read `pre` (messages already in flight towards us), write w, read post; byte-exact.
func dataPhase(rw io.ReadWriter, res *sideRes, pre, w, post [][]byte) {
	rd := func(tag string, ms [][]byte) bool {
		for i, m := range ms {
			got := make([]byte, len(m))
			if _, err := io.ReadFull(rw, got); err != nil {
				res.DataErr = fmt.Sprintf("reading %s message %d (%d bytes): %v", tag, i, len(m), err)
				return false
			}
			if !bytes.Equal(got, m) {
				k := 0
				for k < len(m) && got[k] == m[k] {
					k++
				}
				res.DataErr = fmt.Sprintf("CORRUPT: %s message %d (%d bytes) differs from what was written, first at byte %d", tag, i, len(m), k)
				return false
			}
		}
		return true
	}
	if !rd("initial", pre) {
		return
	}
	for i, m := range w {
		if n, err := rw.Write(m); err != nil || n != len(m) {
			res.DataErr = fmt.Sprintf("writing message %d: n=%d err=%v", i, n, err)
			return
		}
	}
	if !rd("stream", post) {
		return
	}
	res.DataOK = true
}

func runRealA(conn net.Conn, c *caseA, res *sideRes) {
	defer guard(res, conn)
	ma, mb := messages(c)
	st := mse.NewStream(conn)
	sc := newRandScript(privs[c.PrivA], padBytes(c.PadA, c.Fill), c.PadC)
	var sel mse.CryptoMethod
	var err error
	withScript(sc, func() { sel, err = st.HandshakeOutgoing(keyK, mse.CryptoMethod(c.Offer), ma[0]) })
	res.randOver = sc.over
	if err != nil {
		res.HSErr = err.Error()
		return
	}
	res.HSOk, res.Cipher = true, uint32(sel)
	dataPhase(st, res, nil, ma[1:], mb)
}

func runRealB(conn net.Conn, c *caseA, res *sideRes) {
	defer guard(res, conn)
	ma, mb := messages(c)
	st := mse.NewStream(conn)
	sc := newRandScript(privs[c.PrivB], padBytes(c.PadB, c.Fill), c.PadD)
	getSKey := func(h [20]byte) []byte {
		switch c.Key {
		case "miss":
			if h == refSKeyHash(keyK2) {
				return keyK2
			}
			return nil
		case "wrongret":
			return keyK2
		}
		if h == refSKeyHash(keyK) {
			return keyK
		}
		return nil
	}
	sel := func(p mse.CryptoMethod) mse.CryptoMethod {
		res.Provided = uint32(p)
		res.Cipher = selPolicy(c.Sel, uint32(p))
		return mse.CryptoMethod(res.Cipher)
	}
	var err error
	withScript(sc, func() { err = st.HandshakeIncoming(getSKey, sel) })
	res.randOver = sc.over
	if err != nil {
		res.HSErr = err.Error()
		return
	}
	res.HSOk = true
	dataPhase(st, res, ma[:1], mb, ma[1:])
}

func runRefA(conn net.Conn, c *caseA, res *sideRes) {
	defer guard(res, conn)
	ma, mb := messages(c)
	tc := &truncConn{Conn: conn, limit: c.Trunc}
	q := refInit{Priv: privs[c.PrivA], PadA: padBytes(c.PadA, c.Fill), PadCLen: c.PadC, SKey: keyK, RC4Key: keyK, Provide: c.Offer, IA: ma[0]}
	switch c.Key {
	case "rc4wrong":
		q.RC4Key = keyK2
	}
	st, sel, err := refInitiate(tc, q)
	res.Cipher = sel
	if err != nil {
		res.HSErr = err.Error()
		return
	}
	res.HSOk = true
	dataPhase(st, res, nil, ma[1:], mb)
}

func runRefB(conn net.Conn, c *caseA, res *sideRes) {
	defer guard(res, conn)
	ma, mb := messages(c)
	tc := &truncConn{Conn: conn, limit: c.Trunc}
	q := refResp{Priv: privs[c.PrivB], PadB: padBytes(c.PadB, c.Fill), PadDLen: c.PadD,
		Lookup: func(h [20]byte) []byte {
			if c.Key == "wrongret" {
				return keyK2
			}
			if h == refSKeyHash(keyK) {
				return keyK
			}
			return nil
		},
		Select: func(p uint32) uint32 { return selPolicy(c.Sel, p) }}
	st, provide, sel, err := refRespond(tc, q)
	res.Provided, res.Cipher = provide, sel
	if err != nil {
		res.HSErr = err.Error()
		return
	}
	if bits.OnesCount32(sel) != 1 || sel&provide == 0 || sel > 2 {
		// illegal selection sent: a correct initiator hangs up; wait for that
		io.Copy(io.Discard, conn)
		res.HSErr = fmt.Sprintf("(scripted) sent illegal crypto_select %#x", sel)
		return
	}
	res.HSOk = true
	dataPhase(st, res, ma[:1], mb, ma[1:])
}

type outcomeA struct {
	A, B           *sideRes
	Hang           bool
	abData         []byte
	baData         []byte
	abW, baW       []int
	firstB, firstA int
}

// runCaseA must be called from inside a synctest bubble.
func runCaseA(c *caseA) *outcomeA {
	d := newDuplex(c.AB, c.BA)
	o := &outcomeA{A: &sideRes{}, B: &sideRes{}}
	switch c.Kind {
	case "rr":
		go runRealA(d.A, c, o.A)
		go runRealB(d.B, c, o.B)
	case "rs":
		go runRealA(d.A, c, o.A)
		go runRefB(d.B, c, o.B)
	case "sr":
		go runRefA(d.A, c, o.A)
		go runRealB(d.B, c, o.B)
	default:
		panic("kind " + c.Kind)
	}
	synctest.Wait()
	if !o.A.done.Load() || !o.B.done.Load() {
		// Every goroutine of the bubble is durably blocked and no timer exists: nothing can ever happen again.
		o.Hang = true
		hungA, hungB := !o.A.done.Load(), !o.B.done.Load()
		d.A.Close()
		d.B.Close()
		synctest.Wait()
		if !o.A.done.Load() || !o.B.done.Load() {
			core.HarnessError("endpoint goroutines did not end after both ends were closed: %s", c)
		}
		mark := func(hung bool, r *sideRes) {
			if hung {
				r.Blocked = "handshake"
				if r.HSOk {
					r.Blocked = "payload stream"
				}
			}
		}
		mark(hungA, o.A)
		mark(hungB, o.B)
	}
	o.abData, o.abW, o.firstB = d.ab.snapshot()
	o.baData, o.baW, o.firstA = d.ba.snapshot()
	return o
}

// ---------------------------------------------------------------------------------------------

type viol struct {
	seq   int64
	key   string
	desc  string
	rep   any
	count int64
}

// stats are the measured non-vacuity counters; every worker owns one and merges it at its end.
type stats struct {
	ctr  map[string]int64
	sets map[string]map[int]struct{}
}

func newStats() *stats { return &stats{ctr: map[string]int64{}, sets: map[string]map[int]struct{}{}} }

func (s *stats) add(name string, n int64) { s.ctr[name] += n }
func (s *stats) note(set string, v int) {
	m := s.sets[set]
	if m == nil {
		m = map[int]struct{}{}
		s.sets[set] = m
	}
	m[v] = struct{}{}
}

type checker struct {
	rep   *core.Report
	mu    sync.Mutex
	viols map[string]*viol
	*stats
}

func newChecker(rep *core.Report) *checker {
	return &checker{rep: rep, viols: map[string]*viol{}, stats: newStats()}
}

func (k *checker) merge(s *stats) {
	k.mu.Lock()
	defer k.mu.Unlock()
	for n, v := range s.ctr {
		k.ctr[n] += v
	}
	for n, m := range s.sets {
		for v := range m {
			k.stats.note(n, v)
		}
	}
}

func (k *checker) violate(seq int64, key, desc string, replay any) {
	k.mu.Lock()
	defer k.mu.Unlock()
	v := k.viols[key]
	if v == nil {
		k.viols[key] = &viol{seq: seq, key: key, desc: desc, rep: replay, count: 1}
		return
	}
	v.count++
	if seq < v.seq {
		v.seq, v.desc, v.rep = seq, desc, replay
	}
}

// flush hands the collected violations to the report, simplest (earliest enumerated) case per key.
func (k *checker) flush() {
	var vs []*viol
	for _, v := range k.viols {
		vs = append(vs, v)
	}
	sort.Slice(vs, func(i, j int) bool { return vs[i].seq < vs[j].seq })
	for _, v := range vs {
		for i := int64(0); i < v.count; i++ {
			k.rep.Violate(v.key, v.desc, v.rep)
		}
	}
	names := make([]string, 0, len(k.ctr))
	for n := range k.ctr {
		names = append(names, n)
	}
	sort.Strings(names)
	for _, n := range names {
		k.rep.Extra[n] = k.ctr[n]
	}
	for n, m := range k.sets {
		k.rep.Extra["distinct_"+n] = int64(len(m))
	}
}

var tokenRe = regexp.MustCompile(`[^a-z0-9]+`)

func errToken(s string) string {
	s = strings.ToLower(s)
	if i := strings.Index(s, ":"); i > 0 {
		s = s[:i]
	}
	s = strings.Trim(tokenRe.ReplaceAllString(s, "-"), "-")
	if len(s) > 40 {
		s = s[:40]
	}
	return s
}

// rootErr picks the error that is not a mere consequence of the other side hanging up.
func rootErr(a, b *sideRes) string {
	sec := func(s string) bool {
		return s == "" || strings.Contains(s, "EOF") || strings.Contains(s, "closed")
	}
	if !sec(a.HSErr) {
		return "out-" + errToken(a.HSErr)
	}
	if !sec(b.HSErr) {
		return "in-" + errToken(b.HSErr)
	}
	return "eof"
}

func illegitClass(c *caseA) string {
	switch {
	case c.IA > 65535:
		return "C12.payload.toobig-accepted"
	case c.Key != "ok":
		return "C12.wrongkey.completes"
	case c.Trunc >= 0:
		return "C12.complete.truncated-accepted"
	}
	return "C12.agree.cipher-illegal"
}

func (k *checker) evalA(st *stats, seq int64, c *caseA, o *outcomeA) {
	legit, want := expectA(c)
	realA, realB := c.Kind[0] == 'r', c.Kind[1] == 'r'
	desc := func(what string) string {
		return fmt.Sprintf("%s; case %s; initiator: %s; responder: %s", what, c, o.A, o.B)
	}
	bad := false
	fail := func(key, what string) { bad = true; k.violate(seq, key, desc(what), c) }
	for _, s := range []*sideRes{o.A, o.B} {
		if s.Panic != "" {
			fail("C12.panic."+panicFrame(s.Panic), "panic in code under test")
		}
		if s.randOver > 0 {
			st.add("rand_script_overrun_bytes", int64(s.randOver))
		}
	}
	if bad {
		return
	}
	aOK, bOK := o.A.HSOk, o.B.HSOk
	// what the real side(s) concluded
	var realOK, anyRealOK bool
	switch {
	case realA && realB:
		realOK, anyRealOK = aOK && bOK, aOK || bOK
	case realA:
		realOK, anyRealOK = aOK, aOK
	default:
		realOK, anyRealOK = bOK, bOK
	}
	if aOK != bOK && (realA && realB || legit && anyRealOK) {
		who := "initiator-only"
		if bOK {
			who = "responder-only"
		}
		fail("C12.agree.onesided."+who, "one side completed the handshake, the other failed")
	}
	if anyRealOK && !legit {
		fail(illegitClass(c), "handshake completed although it must not")
	}
	if o.Hang && !bad {
		phase := "handshake"
		if realOK {
			phase = "data"
		}
		fail("C12.hang."+phase, "both endpoints blocked forever (bubble deadlock)")
	}
	if bad {
		return
	}
	if !anyRealOK {
		if legit {
			cls := rootErr(o.A, o.B)
			if c.PadA == 512 || c.PadB == 512 || c.PadC == 512 || c.PadD == 512 {
				fail("C12.complete.pad512-peer."+cls, "a handshake with a specification-legal 512-byte pad from the peer failed")
			} else {
				fail("C12.complete.legit-fails."+cls, "a legitimate handshake (right key, acceptable selection, payload <= 65535) failed")
			}
		} else {
			st.add("a_refused_as_required", 1)
		}
		return
	}
	// completed and legitimate
	st.add("a_completed", 1)
	if o.A.Cipher != want || o.B.Cipher != want {
		fail("C12.agree.cipher-mismatch", fmt.Sprintf("ciphers differ from the one offered and selected (%d)", want))
	}
	if realB && o.B.Provided != c.Offer {
		fail("C12.agree.offer-mangled", fmt.Sprintf("responder saw crypto_provide %d, %d was offered", o.B.Provided, c.Offer))
	}
	if !o.A.DataOK || !o.B.DataOK {
		e := o.A.DataErr + " " + o.B.DataErr
		if strings.Contains(e, "CORRUPT") {
			fail("C12.stream.corrupt", "bytes written by one side were not read unchanged by the other")
		} else {
			fail("C12.stream.error", "stream failed after a completed handshake")
		}
		return
	}
	// wire: the agreed cipher is the one in use
	ma, mb := messages(c)
	wire := func(dir string, data []byte, w []int, msgs [][]byte) {
		if len(w) < 2 {
			return
		}
		post := data[w[0]+w[1]:]
		plain := bytes.Join(msgs, nil)
		big := msgs[len(msgs)-1]
		if want == 1 && !bytes.Equal(post, plain) {
			fail("C12.agree.wire-cipher", "PlainText agreed but "+dir+" payload bytes on the wire are not the plaintext")
		}
		if want == 2 && (bytes.Contains(post, big) || bytes.Equal(post, plain)) {
			fail("C12.agree.wire-cipher", "RC4 agreed but "+dir+" payload bytes on the wire are plaintext")
		}
	}
	wire("initiator->responder", o.abData, o.abW, ma[1:])
	wire("responder->initiator", o.baData, o.baW, mb)
	// measured facts about what was exercised
	if realA && len(o.abW) >= 2 {
		st.note("padA_on_wire", o.abW[0]-96)
		st.note("padC_on_wire", o.abW[1]-56-len(ma[0]))
		if o.abW[0]-96 != c.PadA || o.abW[1]-56-len(ma[0]) != c.PadC {
			st.add("pad_not_as_scripted", 1)
		}
		st.note("first_read_of_initiator", o.firstA)
	}
	if realB && len(o.baW) >= 2 {
		st.note("padB_on_wire", o.baW[0]-96)
		st.note("padD_on_wire", o.baW[1]-14)
		if o.baW[0]-96 != c.PadB || o.baW[1]-14 != c.PadD {
			st.add("pad_not_as_scripted", 1)
		}
		st.note("first_read_of_responder", o.firstB)
	}
	if want == 1 {
		st.add("a_completed_plaintext", 1)
	} else {
		st.add("a_completed_rc4", 1)
	}
}

// ---------------------------------------------------------------------------------------------
// enumeration of Part A

func baseCase() caseA {
	return caseA{Kind: "rr", IA: 68, Offer: 3, Sel: "rc4first", Key: "ok", PrivA: 0, PrivB: 1, Fill: 2, Trunc: -1}
}

// layout returns the field boundaries of the two directions (absolute offsets) for a completed handshake.
func layout(c *caseA) (ab, ba []int) {
	f1 := 96 + c.PadA
	ab = []int{96, f1, f1 + 20, f1 + 40, f1 + 48, f1 + 52, f1 + 54, f1 + 54 + c.PadC, f1 + 56 + c.PadC, f1 + 56 + c.PadC + c.IA,
		f1 + 56 + c.PadC + c.IA + 5}
	f2 := 96 + c.PadB
	ba = []int{96, f2, f2 + 8, f2 + 12, f2 + 14, f2 + 14 + c.PadD, f2 + 14 + c.PadD + 68, f2 + 14 + c.PadD + 69}
	return
}

func around(pts []int, max int) []int {
	m := map[int]bool{}
	for _, p := range append([]int{0}, pts...) {
		for d := -1; d <= 1; d++ {
			if p+d >= 1 && p+d <= max {
				m[p+d] = true
			}
		}
	}
	var out []int
	for p := range m {
		out = append(out, p)
	}
	sort.Ints(out)
	return out
}

type chunkPair struct{ ab, ba chunkSpec }

func chunkClasses(thorough bool) []chunkPair {
	ev := func(a, b int) chunkPair { return chunkPair{chunkSpec{Every: a}, chunkSpec{Every: b}} }
	out := []chunkPair{{}, ev(1, 1), ev(1, 0), ev(0, 1), ev(2, 2), ev(7, 7), ev(96, 96), ev(97, 97), ev(95, 95), ev(607, 607),
		{chunkSpec{Cuts: []int{96}}, chunkSpec{Cuts: []int{96}}}}
	if thorough {
		out = append(out, ev(3, 3), ev(19, 21), ev(20, 8), ev(128, 128), ev(255, 256), ev(511, 511), ev(512, 512), ev(608, 608), ev(1, 97), ev(97, 1),
			chunkPair{chunkSpec{Cuts: []int{97}}, chunkSpec{Cuts: []int{97}}}, chunkPair{chunkSpec{Cuts: []int{95}}, chunkSpec{Cuts: []int{95}}})
	}
	return out
}

func genA(thorough bool, emit func(caseA)) {
	ciphers := []struct {
		offer uint32
		sel   string
	}{{3, "rc4first"}, {1, "plainfirst"}}
	padCD := [][2]int{{0, 0}, {511, 255}}
	four := []int{0, 1, 255, 511}
	if thorough {
		padCD = nil
		for _, c := range four {
			for _, d := range four {
				padCD = append(padCD, [2]int{c, d})
			}
		}
	}
	classes := chunkClasses(thorough)
	three := []int{0, 1, 511}

	// E0: the simplest cases first (so that a general breakage is reported with the simplest input)
	for _, ci := range ciphers {
		for _, kind := range []string{"rr", "rs", "sr"} {
			c := baseCase()
			c.Kind, c.Offer, c.Sel, c.IA = kind, ci.offer, ci.sel, 0
			emit(c)
			c.IA = 68
			emit(c)
		}
	}
	// E1: pad sweeps: padA over 0..511 with padB in {0,1,511}, and padB over 0..511 with padA in {0,1,511}
	for _, ci := range ciphers {
		for sweep := 0; sweep < 2; sweep++ {
			for x := 0; x < 512; x++ {
				for _, y := range three {
					for _, cd := range padCD {
						for cli, cl := range classes {
							if !thorough && ci.offer == 1 && cli > 1 {
								continue // quick: the PlainText agreement only with unfragmented and byte-at-a-time transport
							}
							c := baseCase()
							c.Offer, c.Sel = ci.offer, ci.sel
							if sweep == 0 {
								c.PadA, c.PadB = x, y
							} else {
								c.PadA, c.PadB = y, x
							}
							c.PadC, c.PadD = cd[0], cd[1]
							c.AB, c.BA = cl.ab, cl.ba
							emit(c)
						}
					}
				}
			}
		}
	}
	// E1b: padC, padD over {0,1,255,511}^2 with padA, padB in {0,1,511}, payload sizes
	for _, ci := range ciphers {
		for _, a := range three {
			for _, b := range three {
				for _, pc := range four {
					for _, pd := range four {
						for _, ia := range []int{0, 1, 68, 65535, 65536} {
							for _, cl := range classes {
								if ia >= 65535 && cl.ab.Every == 1 && !thorough && (a+b+pc+pd) != 0 {
									continue // byte-at-a-time over 64 KiB: quick tier only for the all-zero pads
								}
								c := baseCase()
								c.Offer, c.Sel = ci.offer, ci.sel
								c.PadA, c.PadB, c.PadC, c.PadD, c.IA = a, b, pc, pd, ia
								c.AB, c.BA = cl.ab, cl.ba
								emit(c)
							}
						}
					}
				}
			}
		}
	}
	// E2: a single split at every byte position of each flight (and into the first payload message)
	type setting struct{ a, b, c, d, ia int }
	full := []setting{{511, 511, 255, 255, 68}, {0, 0, 0, 0, 0}, {1, 1, 1, 1, 1}, {511, 0, 0, 511, 1}, {0, 511, 511, 0, 68}, {255, 256, 1, 0, 0}}
	if thorough {
		full = append(full, setting{511, 511, 511, 511, 68}, setting{100, 300, 17, 400, 1}, setting{300, 100, 400, 17, 68}, setting{2, 3, 0, 0, 65535}, setting{96, 96, 96, 96, 96})
	}
	others := []chunkSpec{{}}
	if thorough {
		others = append(others, chunkSpec{Every: 1})
	}
	for _, ci := range ciphers {
		for _, s := range full {
			c := baseCase()
			c.Offer, c.Sel = ci.offer, ci.sel
			c.PadA, c.PadB, c.PadC, c.PadD, c.IA = s.a, s.b, s.c, s.d, s.ia
			lab, lba := layout(&c)
			for _, oth := range others {
				for p := 1; p <= lab[len(lab)-1]; p++ {
					x := c
					x.AB, x.BA = chunkSpec{Cuts: []int{p}}, oth
					emit(x)
				}
				for p := 1; p <= lba[len(lba)-1]; p++ {
					x := c
					x.BA, x.AB = chunkSpec{Cuts: []int{p}}, oth
					emit(x)
				}
			}
		}
	}
	// E2b: boundary positions (every field edge +-1) for the other pad settings
	bpads := three
	if thorough {
		bpads = four
	}
	for _, ci := range ciphers {
		for _, a := range bpads {
			for _, b := range bpads {
				for _, pc := range bpads {
					for _, pd := range bpads {
						for _, ia := range []int{0, 68} {
							c := baseCase()
							c.Offer, c.Sel = ci.offer, ci.sel
							c.PadA, c.PadB, c.PadC, c.PadD, c.IA = a, b, pc, pd, ia
							lab, lba := layout(&c)
							for _, p := range around(lab, lab[len(lab)-1]) {
								x := c
								x.AB = chunkSpec{Cuts: []int{p}}
								emit(x)
							}
							for _, p := range around(lba, lba[len(lba)-1]) {
								x := c
								x.BA = chunkSpec{Cuts: []int{p}}
								emit(x)
							}
						}
					}
				}
			}
		}
	}
	// E3: pairs of splits, every pair of positions over both directions, small pads
	pairSettings := []setting{{3, 2, 1, 2, 5}}
	pairCiphers := ciphers[:1]
	if thorough {
		pairSettings = append(pairSettings, setting{20, 17, 5, 6, 10}, setting{0, 0, 0, 0, 0})
		pairCiphers = ciphers
	}
	for _, ci := range pairCiphers {
		for _, s := range pairSettings {
			c := baseCase()
			c.Offer, c.Sel = ci.offer, ci.sel
			c.PadA, c.PadB, c.PadC, c.PadD, c.IA = s.a, s.b, s.c, s.d, s.ia
			lab, lba := layout(&c)
			na, nb := lab[len(lab)-1], lba[len(lba)-1]
			// position i in [1..na] is a cut of A->B; i in [na+1..na+nb] is a cut of B->A
			for i := 1; i <= na+nb; i++ {
				for j := i + 1; j <= na+nb; j++ {
					x := c
					for _, p := range []int{i, j} {
						if p <= na {
							x.AB.Cuts = append(append([]int{}, x.AB.Cuts...), p)
						} else {
							x.BA.Cuts = append(append([]int{}, x.BA.Cuts...), p-na)
						}
					}
					emit(x)
				}
			}
		}
	}
	// E3b (thorough): pairs of boundary positions for the extreme pads
	if thorough {
		for _, ci := range ciphers {
			for _, s := range []setting{{511, 511, 511, 511, 68}, {511, 0, 255, 1, 0}, {0, 511, 1, 255, 1}} {
				c := baseCase()
				c.Offer, c.Sel = ci.offer, ci.sel
				c.PadA, c.PadB, c.PadC, c.PadD, c.IA = s.a, s.b, s.c, s.d, s.ia
				lab, lba := layout(&c)
				pa, pb := around(lab, lab[len(lab)-1]), around(lba, lba[len(lba)-1])
				na := len(pa)
				all := append(append([]int{}, pa...), pb...)
				for i := 0; i < len(all); i++ {
					for j := i + 1; j < len(all); j++ {
						x := c
						for _, q := range []int{i, j} {
							if q < na {
								x.AB.Cuts = append(append([]int{}, x.AB.Cuts...), all[q])
							} else {
								x.BA.Cuts = append(append([]int{}, x.BA.Cuts...), all[q])
							}
						}
						emit(x)
					}
				}
			}
		}
	}
	// E4: offer x selector x key x payload size x pad pattern, both real
	smallClasses := []chunkPair{{}, {chunkSpec{Every: 1}, chunkSpec{Every: 1}}, {chunkSpec{Every: 97}, chunkSpec{Every: 97}}}
	for _, offer := range []uint32{2, 1, 3} {
		for _, sel := range []string{"rc4first", "plainfirst", "rc4only", "plainonly", "zero", "three", "echo", "other"} {
			for _, key := range []string{"ok", "miss", "wrongret"} {
				for _, ia := range []int{0, 1, 68, 65535, 65536} {
					for _, pads := range []setting{{0, 0, 0, 0, 0}, {511, 511, 511, 511, 0}, {1, 255, 511, 1, 0}} {
						for fill := 0; fill < 4; fill++ {
							for _, cl := range smallClasses {
								if ia >= 65535 && cl.ab.Every == 1 && fill != 2 {
									continue
								}
								c := baseCase()
								c.Offer, c.Sel, c.Key, c.IA, c.Fill = offer, sel, key, ia, fill
								c.PadA, c.PadB, c.PadC, c.PadD = pads.a, pads.b, pads.c, pads.d
								c.AB, c.BA = cl.ab, cl.ba
								emit(c)
							}
						}
					}
				}
			}
		}
	}
	// E5: rain initiator against the scripted responder: raw (also illegal) selections, pads up to the
	// specification maximum 512, wrong key, and the responder hanging up after every byte count
	for _, offer := range []uint32{2, 1, 3} {
		for _, raw := range []uint32{2, 1, 0, 3, 4, 6, 0x80000000, 0xffffffff} {
			for _, pb := range []int{0, 1, 511, 512} {
				for _, pd := range []int{0, 1, 511, 512} {
					for _, key := range []string{"ok", "wrongret"} {
						for _, cl := range smallClasses {
							c := baseCase()
							c.Kind, c.Offer, c.Sel, c.Key = "rs", offer, fmt.Sprintf("raw:%d", raw), key
							c.PadB, c.PadD, c.PadA, c.PadC = pb, pd, pd%512, pb%512
							c.AB, c.BA = cl.ab, cl.ba
							emit(c)
						}
					}
				}
			}
		}
	}
	for _, ci := range ciphers {
		for _, s := range []setting{{0, 0, 0, 0, 68}, {1, 3, 0, 2, 0}, {511, 512, 0, 512, 68}} {
			c := baseCase()
			c.Kind, c.Offer, c.Sel = "rs", ci.offer, fmt.Sprintf("raw:%d", selPolicy(ci.sel, ci.offer))
			c.PadA, c.PadB, c.PadC, c.PadD, c.IA = s.a, s.b, s.c, s.d, s.ia
			total := 96 + c.PadB + 14 + c.PadD
			for tr := 0; tr < total; tr++ {
				for _, cl := range smallClasses[:2] {
					x := c
					x.Trunc = tr
					x.AB, x.BA = cl.ab, cl.ba
					emit(x)
				}
			}
		}
	}
	// E6: scripted initiator against the rain responder: raw offers, selector policies, wrong keys,
	// payload sizes, pads up to 512, and the initiator hanging up after every byte count
	for _, offer := range []uint32{2, 1, 3, 0, 4, 5, 6, 7} {
		for _, sel := range []string{"rc4first", "plainfirst", "rc4only", "plainonly", "zero", "three", "echo", "other"} {
			if selPolicy(sel, offer) > 2 && bits.OnesCount32(selPolicy(sel, offer)) == 1 && selPolicy(sel, offer)&offer != 0 {
				continue // a method unknown to both implementations would be "agreed": outside the alphabet
			}
			for _, key := range []string{"ok", "miss", "rc4wrong", "wrongret"} {
				for _, pa := range []int{0, 1, 511, 512} {
					for _, pc := range []int{0, 1, 511, 512} {
						for _, ia := range []int{0, 68} {
							for _, cl := range smallClasses {
								c := baseCase()
								c.Kind, c.Offer, c.Sel, c.Key, c.IA = "sr", offer, sel, key, ia
								c.PadA, c.PadC, c.PadB, c.PadD = pa, pc, pc%512, pa%512
								c.AB, c.BA = cl.ab, cl.ba
								emit(c)
							}
						}
					}
				}
			}
		}
	}
	for _, ia := range []int{1, 65535} {
		for _, ci := range ciphers {
			c := baseCase()
			c.Kind, c.Offer, c.Sel, c.IA = "sr", ci.offer, ci.sel, ia
			emit(c)
		}
	}
	for _, ci := range ciphers {
		for _, s := range []setting{{0, 0, 0, 0, 68}, {3, 1, 2, 0, 0}, {512, 511, 512, 0, 68}} {
			c := baseCase()
			c.Kind, c.Offer, c.Sel = "sr", ci.offer, ci.sel
			c.PadA, c.PadB, c.PadC, c.PadD, c.IA = s.a, s.b, s.c, s.d, s.ia
			total := 96 + c.PadA + 56 + c.PadC + c.IA
			for tr := 0; tr < total; tr++ {
				for _, cl := range smallClasses[:2] {
					x := c
					x.Trunc = tr
					x.AB, x.BA = cl.ab, cl.ba
					emit(x)
				}
			}
		}
	}
	// E7: degenerate Diffie-Hellman secrets (Y and S with up to 95 leading zero bytes), all kinds
	for _, kind := range []string{"rr", "rs", "sr"} {
		for pa := range privs {
			for pb := range privs {
				for _, ci := range ciphers {
					for _, cl := range smallClasses[:2] {
						c := baseCase()
						c.Kind, c.PrivA, c.PrivB, c.Offer, c.Sel = kind, pa, pb, ci.offer, ci.sel
						if kind == "rs" {
							c.Sel = fmt.Sprintf("raw:%d", selPolicy(ci.sel, ci.offer))
						}
						c.PadA, c.PadB, c.PadC, c.PadD = 5, 7, 1, 2
						c.AB, c.BA = cl.ab, cl.ba
						emit(c)
					}
				}
			}
		}
	}
	// E8: scripted peers sweep their own pad over 0..512 (interoperability for every pad length incl. the
	// specification maximum), and force every first-read size 96..608 with a 512-byte pad
	for _, ci := range ciphers {
		for x := 0; x <= 512; x++ {
			for _, cl := range smallClasses[:2] {
				c := baseCase()
				c.Kind, c.Offer, c.Sel, c.PadA, c.PadC = "sr", ci.offer, ci.sel, x, x
				c.AB, c.BA = cl.ab, cl.ba
				emit(c)
				c = baseCase()
				c.Kind, c.Offer, c.Sel, c.PadB, c.PadD = "rs", ci.offer, fmt.Sprintf("raw:%d", selPolicy(ci.sel, ci.offer)), x, x
				c.AB, c.BA = cl.ab, cl.ba
				emit(c)
			}
		}
		for cut := 1; cut <= 96+512+40; cut++ {
			c := baseCase()
			c.Kind, c.Offer, c.Sel, c.PadA, c.PadC = "sr", ci.offer, ci.sel, 512, 512
			c.AB = chunkSpec{Cuts: []int{cut}}
			emit(c)
			c = baseCase()
			c.Kind, c.Offer, c.Sel, c.PadB, c.PadD = "rs", ci.offer, fmt.Sprintf("raw:%d", selPolicy(ci.sel, ci.offer)), 512, 512
			c.BA = chunkSpec{Cuts: []int{cut}}
			emit(c)
		}
	}
}

// ---------------------------------------------------------------------------------------------

type jobA struct {
	seq int64
	c   caseA
}

func TestC12(t *testing.T) {
	logger.Disable()
	installRand()
	rep := core.NewReport("C12", "msechk", "exploration")
	rep.Rule = "Part A: every member of the stated lattice (pads, payload sizes, offers x selectors, keys, DH secrets, chunkings: " +
		"fixed chunk sizes, every single split position of every flight, every pair of split positions for small pads, byte-at-a-time) " +
		"is executed on two real mse.Stream endpoints (or one real endpoint and an independent scripted MSE peer) over an in-memory duplex " +
		"inside a synctest bubble with crypto/rand.Reader scripted so that pad lengths, pad bytes and DH secrets are chosen. " +
		"Part B: every (Accept force) x (Dial enable,force) x remote kind x pad setting, Accept additionally under every single split position, " +
		"Dial over loopback TCP. Distinct = distinct case descriptors (duplicates produced by overlapping enumeration blocks are executed once)."
	rep.Assumptions = []string{
		"pad byte values: 4 fixed patterns (enumerated in block E4, counting pattern elsewhere); DH secrets: 6 fixed values incl. 0, 1 and 2^160-1",
		"keys: one right and one wrong 20-byte key; payload contents are fixed patterns (the stream cipher is value-independent)",
		"transport model: writes are atomic appends, reads return min(len, available, distance to next cut); three or more independent splits only as fixed chunk sizes",
		"the scripted MSE peer (written from the specification, stdlib sha1/rc4/big only) is trusted",
		"Dial runs over real loopback TCP where fragmentation is not controlled (controlled fragmentation is covered by Part A and by the in-memory Accept cases); real-time limits there can only produce a cap",
	}
	k := newChecker(rep)
	thorough := core.Thorough()

	// ---- Part A
	work := make(chan jobA, 4096)
	var nA, nDup int64
	go func() {
		seen := map[[16]byte]struct{}{}
		genA(thorough, func(c caseA) {
			if c.Kind[0] == 'r' && (c.PadA > 511 || c.PadC > 511) || c.Kind[1] == 'r' && (c.PadB > 511 || c.PadD > 511) {
				core.HarnessError("generator: rain cannot be scripted to draw a 512-byte pad: %s", c.String())
			}
			h := sha1.Sum([]byte(c.String()))
			var key [16]byte
			copy(key[:], h[:])
			if _, dup := seen[key]; dup {
				nDup++
				return
			}
			seen[key] = struct{}{}
			nA++
			if nA%40009 == 1 {
				rep.Sample(10, c)
			}
			work <- jobA{nA, c}
		})
		close(work)
	}()
	t.Run("A", func(t *testing.T) {
		for w := 0; w < core.Parallelism(); w++ {
			t.Run(fmt.Sprintf("w%d", w), func(t *testing.T) {
				t.Parallel()
				synctest.Test(t, func(t *testing.T) {
					st := newStats()
					for j := range work {
						c := j.c
						o := runCaseA(&c)
						k.evalA(st, j.seq, &c, o)
					}
					k.merge(st)
				})
			})
		}
	})
	rep.Evaluations += nA
	rep.Distinct += nA
	rep.Extra["a_cases"] = nA
	rep.Extra["a_duplicate_descriptors_skipped"] = nDup

	// ---- Part B
	nB := partB(t, k, rep, thorough)
	rep.Evaluations += nB
	rep.Distinct += nB

	k.flush()
	rep.Extra["rand_unscripted_reads"] = theRand.unscripted.Load()
	// self-checks (vacuity / loss of control over the randomness)
	if len(k.viols) == 0 {
		if k.ctr["pad_not_as_scripted"] != 0 || k.ctr["rand_script_overrun_bytes"] != 0 {
			core.HarnessError("the crypto/rand script no longer controls mse's pads (%d mismatches, %d overrun bytes)", k.ctr["pad_not_as_scripted"], k.ctr["rand_script_overrun_bytes"])
		}
		for _, s := range []string{"padA_on_wire", "padB_on_wire"} {
			if len(k.sets[s]) != 512 {
				k.rep.Vacuous("vacuous: only %d distinct %s values were observed, want 512", len(k.sets[s]), s)
			}
		}
		if k.ctr["a_completed_rc4"] == 0 || k.ctr["a_completed_plaintext"] == 0 || k.ctr["a_refused_as_required"] == 0 {
			k.rep.Vacuous("vacuous: counters %v", k.ctr)
		}
	}
	if os.Getenv("VERIF_C12_DEBUG") != "" {
		fmt.Println(k.ctr)
	}
	rep.Finish()
}

//go:build verif

package msechk

import (
	"bytes"
	"crypto/rand"
	"crypto/sha256"
	"encoding/binary"
	"io"
	"runtime"
	"strconv"
	"sync"
	"sync/atomic"
)

// mse draws its randomness as follows (internal/mse/mse.go): privateKey: rand.Read(20 bytes);
// padRandom: rand.Int(rand.Reader, 512) then rand.Read(pad); padZero: rand.Int(rand.Reader, 512).
// crypto/rand.Int(r, 512) reads exactly two bytes b0 b1 from r and returns (b0&1)<<8 | b1 (no
// rejection loop is possible because every 9-bit value is < 512), so a pad length L is forced by
// serving the bytes {L>>8, L&0xff}. crypto/rand.Read goes through the package variable rand.Reader
// when that is not the default reader. The test process therefore replaces rand.Reader with a
// reader that serves, per calling goroutine, a script: priv(20) | len1(2) | pad1 bytes | len2(2).

type randScript struct {
	stream []byte
	pos    int
	over   int // bytes requested beyond the script
}

// newRandScript builds the byte stream one Handshake* call consumes.
func newRandScript(priv []byte, pad1 []byte, pad2Len int) *randScript {
	var b bytes.Buffer
	p := make([]byte, 20)
	copy(p[20-len(priv):], priv)
	b.Write(p)
	b.Write([]byte{byte(len(pad1) >> 8), byte(len(pad1))})
	b.Write(pad1)
	b.Write([]byte{byte(pad2Len >> 8), byte(pad2Len)})
	return &randScript{stream: b.Bytes()}
}

type scriptedRand struct {
	byG        sync.Map // goroutine id -> *randScript
	unscripted atomic.Int64
	overflow   atomic.Int64
	ctr        atomic.Uint64
}

var theRand = &scriptedRand{}
var installOnce sync.Once

func installRand() { installOnce.Do(func() { rand.Reader = theRand }) }

func goid() uint64 {
	var buf [64]byte
	n := runtime.Stack(buf[:], false)
	// "goroutine 123 [running]:..."
	s := buf[len("goroutine "):n]
	i := bytes.IndexByte(s, ' ')
	id, _ := strconv.ParseUint(string(s[:i]), 10, 64)
	return id
}

// withScript runs fn with sc as the calling goroutine's source of crypto/rand bytes.
func withScript(sc *randScript, fn func()) {
	id := goid()
	theRand.byG.Store(id, sc)
	defer theRand.byG.Delete(id)
	fn()
}

func (r *scriptedRand) Read(p []byte) (int, error) {
	if v, ok := r.byG.Load(goid()); ok {
		sc := v.(*randScript)
		n := copy(p, sc.stream[sc.pos:])
		sc.pos += n
		if n < len(p) {
			sc.over += len(p) - n
			r.overflow.Add(int64(len(p) - n))
			r.fill(p[n:])
		}
		return len(p), nil
	}
	r.unscripted.Add(1)
	r.fill(p)
	return len(p), nil
}

// fill serves deterministic filler (counter mode over SHA-256) to unscripted readers.
func (r *scriptedRand) fill(p []byte) {
	for len(p) > 0 {
		var c [8]byte
		binary.BigEndian.PutUint64(c[:], r.ctr.Add(1))
		h := sha256.Sum256(c[:])
		n := copy(p, h[:])
		p = p[n:]
	}
}

var _ io.Reader = theRand

//go:build verif

// Package thread is engine E3 (threadlab): preemption-bounded exploration of thread schedules around the
// session's locks. 2-3 harness threads call the public Session/Torrent API concurrently inside a synctest
// bubble; every Lock/RLock of the session's and bbolt's locks (vsync) by a harness thread is a scheduling
// point where the explorer decides who proceeds. Torrent event loops and the other rain goroutines run
// free inside the bubble and are run to quiescence after every decision. Default policy: keep running the
// same thread (no preemption); a deviation = switching away from a thread that could continue.
package thread

import (
	"bytes"
	"crypto/sha1"
	"encoding/json"
	"fmt"
	"os"
	"path/filepath"
	"runtime"
	"sort"
	"strings"
	"sync"
	"testing"
	"testing/synctest"
	"time"

	cryptorand "crypto/rand"

	"github.com/cenkalti/rain/v2/torrent"
	"github.com/cenkalti/rain/v2/zzverif/core"
	"github.com/cenkalti/rain/v2/zzverif/refcodec"
	"github.com/cenkalti/rain/v2/zzverif/vnet"
	metrics "github.com/rcrowley/go-metrics"
	"go.etcd.io/bbolt/vsync"
)

// ---- controlled threads

type thr struct {
	name   string
	fn     func(e *env) string
	resume chan struct{}
	state  string // new | parked | running | done
	at     string // where it is parked
	result string
	gid    int64
	steps  int
}

type env struct {
	s       *torrent.Session
	cfg     torrent.Config
	g1, g2  *genTorrent
	mu      sync.Mutex
	threads []*thr
	byGID   map[int64]*thr
}

func goid() int64 {
	var buf [64]byte
	n := runtime.Stack(buf[:], false)
	var id int64
	fmt.Sscanf(string(buf[:n]), "goroutine %d ", &id)
	return id
}

// point parks the calling controlled thread until the explorer resumes it.
func (e *env) point(where string) {
	e.mu.Lock()
	t := e.byGID[goid()]
	e.mu.Unlock()
	if t == nil {
		return // not a controlled thread (torrent loop, session loop, ...)
	}
	e.mu.Lock()
	t.state, t.at = "parked", where
	t.steps++
	e.mu.Unlock()
	<-t.resume
	e.mu.Lock()
	t.state = "running"
	e.mu.Unlock()
}

func lockName(l any) string { return fmt.Sprintf("%T@%p", l, l) }

// ---- scenario alphabet

type opSpec struct {
	Name string
	Fn   func(e *env) string
}

func tor(e *env, id string) *torrent.Torrent { return e.s.GetTorrent(id) }

func ops() map[string]opSpec {
	add := func(id string, g func(e *env) *genTorrent, stopped bool) func(e *env) string {
		return func(e *env) string {
			t, err := e.s.AddTorrent(bytes.NewReader(g(e).MetaInfo), &torrent.AddTorrentOptions{ID: id, Stopped: stopped})
			if err != nil {
				return "err:" + err.Error()
			}
			rid := t.ID()
			if id == "" {
				rid = "<auto>" // generated ids are time/uuid based: not part of the observable outcome
			}
			return "ok:" + rid + fmt.Sprintf(":port%d", t.Port())
		}
	}
	g1 := func(e *env) *genTorrent { return e.g1 }
	g2 := func(e *env) *genTorrent { return e.g2 }
	m := map[string]opSpec{}
	reg := func(n string, f func(e *env) string) { m[n] = opSpec{n, f} }
	reg("Add(x)", add("x", g1, true))
	reg("Add(x)#2", add("x", g2, true))
	reg("Add(x)#3", add("x", g2, true))
	reg("Add(auto)", add("", g2, true))
	reg("Add(y,started)", add("y", g2, false))
	reg("Remove(x)", func(e *env) string { return fmt.Sprint(e.s.RemoveTorrent("x", true)) })
	reg("Remove(a)", func(e *env) string { return fmt.Sprint(e.s.RemoveTorrent("a", true)) })
	reg("StartAll", func(e *env) string { return fmt.Sprint(e.s.StartAll()) })
	reg("StopAll", func(e *env) string { return fmt.Sprint(e.s.StopAll()) })
	reg("updateStats", func(e *env) string { e.s.VerifC14UpdateStats(); return "" })
	reg("Start(a)", func(e *env) string {
		if t := tor(e, "a"); t != nil {
			return fmt.Sprint(t.Start())
		}
		return "absent"
	})
	reg("Stop(a)", func(e *env) string {
		if t := tor(e, "a"); t != nil {
			return fmt.Sprint(t.Stop())
		}
		return "absent"
	})
	reg("Verify(a)", func(e *env) string {
		if t := tor(e, "a"); t != nil {
			return fmt.Sprint(t.Verify())
		}
		return "absent"
	})
	reg("AddTracker(a)", func(e *env) string {
		if t := tor(e, "a"); t != nil {
			return fmt.Sprint(t.AddTracker("http://10.8.8.8/announce"))
		}
		return "absent"
	})
	reg("Stats(a)", func(e *env) string {
		if t := tor(e, "a"); t != nil {
			return t.Stats().Status.String()
		}
		return "absent"
	})
	reg("ListTorrents", func(e *env) string { return fmt.Sprint(len(e.s.ListTorrents())) })
	reg("Compact", func(e *env) string {
		out := filepath.Join(filepath.Dir(e.cfg.Database), "compact.db")
		err := e.s.CompactDatabase(out)
		os.Remove(out)
		return fmt.Sprint(err)
	})
	return m
}

type thrArg struct {
	Threads []string `json:"threads"`
}

var initOnce sync.Once

// exec runs one schedule: replay prefix, then keep running the current thread (choice 0).
func exec(t *testing.T, arg thrArg, prefix []int, expect []uint64) *core.ExecResult {
	initOnce.Do(func() {
		runtime.GOMAXPROCS(1)
		metrics.UseNilMetrics = true
		torrent.DisableLogging()
	})
	res := &core.ExecResult{}
	all := ops()
	synctest.Test(t, func(t *testing.T) {
		dir, err := os.MkdirTemp("/dev/shm", "thr")
		if err != nil {
			core.HarnessError("%v", err)
		}
		defer os.RemoveAll(dir)
		vnet.Reset()
		cryptorand.Reader = &detReader{}
		cfg := torrent.DefaultConfig
		cfg.Database = filepath.Join(dir, "session.db")
		cfg.DataDir = filepath.Join(dir, "data")
		cfg.DHTEnabled, cfg.RPCEnabled = false, false
		cfg.Host = "127.0.0.1"
		cfg.PortBegin, cfg.PortEnd = 44000, 44003
		cfg.MaxOpenFiles = 0
		cfg.ResumeOnStartup = false
		cfg.ResumeWriteInterval = 24 * time.Hour
		cfg.HealthCheckInterval = 365 * 24 * time.Hour
		cfg.BlocklistURL = ""
		cfg.TrackerStopTimeout = 5 * time.Second
		e := &env{cfg: cfg, byGID: map[int64]*thr{}}
		e.g1 = gen("one.bin", 50000)
		e.g2 = gen("two.bin", 60000)
		s, err := torrent.NewSession(cfg)
		if err != nil {
			core.HarnessError("NewSession: %v", err)
		}
		e.s = s
		// initial content: torrent "a" (started) so that loops are running while the threads race
		if _, err := s.AddTorrent(bytes.NewReader(e.g1.MetaInfo), &torrent.AddTorrentOptions{ID: "a"}); err != nil {
			core.HarnessError("add a: %v", err)
		}
		synctest.Wait()
		vsync.Hook = func(op string, l any) { e.point(op + " " + lockName(l)) }
		defer func() { vsync.Hook = nil }()
		for _, name := range arg.Threads {
			spec, ok := all[name]
			if !ok {
				core.HarnessError("unknown op %q", name)
			}
			th := &thr{name: name, fn: spec.Fn, resume: make(chan struct{}), state: "new"}
			e.threads = append(e.threads, th)
			go func() {
				e.mu.Lock()
				th.gid = goid()
				e.byGID[th.gid] = th
				e.mu.Unlock()
				e.point("start")
				r := th.fn(e)
				e.mu.Lock()
				th.result, th.state = r, "done"
				e.mu.Unlock()
			}()
		}
		synctest.Wait()
		last := -1
		var labels []string
		lockup := ""
		for step := 0; step < 400; step++ {
			var parked []int
			allDone := true
			for i, th := range e.threads {
				if th.state == "parked" {
					parked = append(parked, i)
				}
				if th.state != "done" {
					allDone = false
				}
			}
			if allDone {
				break
			}
			if len(parked) == 0 {
				// everybody is blocked: let timers (stop announcer timeout, ...) fire before judging
				waited := false
				for k := 0; k < 3 && len(parked) == 0; k++ {
					time.Sleep(6 * time.Second)
					synctest.Wait()
					waited = true
					allDone = true
					for i, th := range e.threads {
						if th.state == "parked" {
							parked = append(parked, i)
						}
						if th.state != "done" {
							allDone = false
						}
					}
					if allDone {
						break
					}
				}
				_ = waited
				if allDone {
					break
				}
				if len(parked) == 0 {
					lockup = describeLockup(e)
					break
				}
			}
			// canonical order: the thread that ran last first (continuing it costs nothing)
			order := append([]int{}, parked...)
			sort.SliceStable(order, func(a, b int) bool { return (order[a] == last) && (order[b] != last) })
			choice := 0
			if step < len(prefix) {
				choice = prefix[step]
				if choice >= len(order) {
					res.Diverged = fmt.Sprintf("step %d: choice %d of %d", step, choice, len(order))
					break
				}
			}
			pt := core.Point{N: len(order)}
			for k := range order {
				c := 1
				if k == 0 {
					c = 0
				} else if order[0] != last {
					c = -1 // the previous thread cannot continue (done/blocked): switching is free
				}
				pt.Cost = append(pt.Cost, c)
			}
			res.Trace.Points = append(res.Trace.Points, pt)
			res.Trace.Choices = append(res.Trace.Choices, choice)
			th := e.threads[order[choice]]
			labels = append(labels, fmt.Sprintf("%s@%s", th.name, shortAt(th.at)))
			last = order[choice]
			th.resume <- struct{}{}
			synctest.Wait()
			d := digest(e)
			res.Trace.Digests = append(res.Trace.Digests, d)
			if step < len(expect) && expect[step] != d {
				res.Diverged = fmt.Sprintf("step %d (%s): digest %x, parent saw %x", step, labels[len(labels)-1], d, expect[step])
				break
			}
		}
		hist := strings.Join(labels, " ; ")
		replay := map[string]any{"arg": arg, "choices": res.Trace.Choices, "labels": labels}
		if lockup != "" {
			res.Violations = append(res.Violations, core.Violation{Key: "lockup." + lockupKey(e), Desc: fmt.Sprintf("threads %v: no thread can make progress and no timer is pending: lock-up\n%s\n  schedule: %s", arg.Threads, lockup, hist), Replay: replay, Count: 1})
			res.Partial = true
			if core.IsPoolWorker() {
				core.WorkerDie(res)
			}
			os.Exit(3)
		}
		if res.Diverged != "" {
			if core.IsPoolWorker() {
				core.WorkerDie(res)
			}
			os.Exit(3)
		}
		vsync.Hook = nil
		// oracles on the final registry state
		for _, v := range checkRegistry(e, arg) {
			v.Desc += "\n  schedule: " + hist
			v.Replay = replay
			res.Violations = append(res.Violations, v)
		}
		var rs []string
		for _, th := range e.threads {
			rs = append(rs, th.name+"="+th.result)
		}
		res.Outcome = strings.Join(rs, " | ")
		if len(res.Violations) > 0 {
			// an inconsistent registry may not shut down cleanly (orphaned torrent loops): report and leave
			res.Partial = true
			if core.IsPoolWorker() {
				core.WorkerDie(res)
			}
			os.Exit(3)
		}
		done := make(chan struct{})
		go func() { s.Close(); close(done) }()
		for i := 0; i < 100; i++ {
			synctest.Wait()
			select {
			case <-done:
				i = 1000
			default:
				time.Sleep(time.Second)
			}
		}
		synctest.Wait()
		time.Sleep(3 * time.Hour)
		synctest.Wait()
	})
	return res
}

func shortAt(at string) string {
	if i := strings.Index(at, "@"); i > 0 {
		return at[:i]
	}
	return at
}

func digest(e *env) uint64 {
	var h uint64 = 1469598103934665603
	mix := func(s string) {
		for i := 0; i < len(s); i++ {
			h ^= uint64(s[i])
			h *= 1099511628211
		}
	}
	for _, th := range e.threads {
		mix(th.name + ":" + th.state + ":" + shortAt(th.at) + ":" + th.result + "|")
	}
	return h
}

func lockupKey(e *env) string {
	var parts []string
	for _, th := range e.threads {
		if th.state != "done" {
			parts = append(parts, th.name)
		}
	}
	sort.Strings(parts)
	return strings.Join(parts, "+")
}

func describeLockup(e *env) string {
	buf := make([]byte, 1<<20)
	n := runtime.Stack(buf, true)
	var out []string
	gids := map[int64]*thr{}
	for g, th := range e.byGID {
		gids[g] = th
	}
	for _, blk := range strings.Split(string(buf[:n]), "\n\n") {
		var id int64
		fmt.Sscanf(blk, "goroutine %d ", &id)
		if th, ok := gids[id]; ok && th.state != "done" {
			lines := strings.Split(blk, "\n")
			var keep []string
			for _, ln := range lines {
				if strings.Contains(ln, "rain/v2/torrent.") || strings.Contains(ln, "bbolt.(") || strings.Contains(ln, "vsync.") {
					keep = append(keep, strings.TrimSpace(ln))
				}
			}
			if len(keep) > 8 {
				keep = keep[:8]
			}
			out = append(out, fmt.Sprintf("  thread %s blocked in: %s", th.name, strings.Join(keep, " <- ")))
		}
	}
	sort.Strings(out)
	return strings.Join(out, "\n")
}

// checkRegistry: conservation laws of the session registry after the threads finished (C14).
func checkRegistry(e *env, arg thrArg) []core.Violation {
	var vs []core.Violation
	s := e.s
	ts := s.ListTorrents()
	ids := map[string]int{}
	ports := map[int][]string{}
	for _, t := range ts {
		ids[t.ID()]++
		ports[t.Port()] = append(ports[t.Port()], t.ID())
	}
	for id, n := range ids {
		if n > 1 {
			vs = append(vs, core.Violation{Key: "C14.conc.duplicate-id-listed", Desc: fmt.Sprintf("torrent id %q listed %d times", id, n), Count: 1})
		}
	}
	// two successful adds with the same explicit id
	okx := 0
	removes := false
	for _, th := range e.threads {
		if strings.HasPrefix(th.name, "Add(x)") && strings.HasPrefix(th.result, "ok:") {
			okx++
		}
		if th.name == "Remove(x)" {
			removes = true // a removal between two adds makes both adds legitimate
		}
	}
	if okx > 1 && !removes {
		vs = append(vs, core.Violation{Key: "C14.conc.duplicate-id-accepted", Desc: fmt.Sprintf("%d concurrent AddTorrent calls with the same explicit id \"x\" all succeeded (ids must be unique)", okx), Count: 1})
	}
	for p, owners := range ports {
		if len(owners) > 1 {
			vs = append(vs, core.Violation{Key: "C14.conc.port-shared", Desc: fmt.Sprintf("port %d is owned by torrents %v", p, owners), Count: 1})
		}
	}
	free := s.VerifC14FreePorts()
	seen := map[int]string{}
	for _, p := range free {
		seen[p] = "free"
	}
	for p, owners := range ports {
		if _, isFree := seen[p]; isFree {
			vs = append(vs, core.Violation{Key: "C14.conc.port-free-and-owned", Desc: fmt.Sprintf("port %d is in the free set and owned by %v", p, owners), Count: 1})
		}
		seen[p] = "owned"
	}
	for p := int(e.cfg.PortBegin); p < int(e.cfg.PortEnd); p++ {
		if _, ok := seen[p]; !ok {
			vs = append(vs, core.Violation{Key: "C14.conc.port-leaked", Desc: fmt.Sprintf("port %d of the configured range is neither free nor owned by a live torrent (torrents: %v, free: %v)", p, ports, free), Count: 1})
		}
	}
	// registry == resume database
	b, _ := s.VerifC14BucketIDs()
	sort.Strings(b)
	var l []string
	for id := range ids {
		l = append(l, id)
	}
	sort.Strings(l)
	if strings.Join(b, ",") != strings.Join(l, ",") {
		vs = append(vs, core.Violation{Key: "C14.conc.registry-vs-db", Desc: fmt.Sprintf("torrents in the session %v differ from the buckets in the resume database %v", l, b), Count: 1})
	}
	return vs
}

// genTorrent is a minimal single-file torrent built with the harness's own encoder.
type genTorrent struct{ MetaInfo []byte }

func gen(name string, n int) *genTorrent {
	data := make([]byte, n)
	for i := range data {
		data[i] = byte(i*7 + 3)
	}
	var pieces []byte
	for o := 0; o < n; o += 32768 {
		h := sha1.Sum(data[o:min(o+32768, n)])
		pieces = append(pieces, h[:]...)
	}
	info := refcodec.D("name", name, "piece length", int64(32768), "pieces", pieces, "length", int64(n))
	return &genTorrent{MetaInfo: refcodec.Benc(refcodec.D("info", info))}
}

type detReader struct{ n uint64 }

func (d *detReader) Read(p []byte) (int, error) {
	for i := range p {
		d.n = d.n*6364136223846793005 + 1442695040888963407
		p[i] = byte(d.n >> 33)
	}
	return len(p), nil
}

func serveIfWorker(t *testing.T) {
	if !core.IsPoolWorker() {
		return
	}
	core.ServeWorker(func(raw json.RawMessage) any {
		var job core.ExecJob
		json.Unmarshal(raw, &job)
		var arg thrArg
		json.Unmarshal(job.Arg, &arg)
		return exec(t, arg, job.Prefix, job.Expect)
	})
}

func explore(testName string, rep *core.Report, sets [][]string, budget int) {
	pool := core.NewPool(testName, core.Parallelism(), 120*time.Second)
	defer pool.Close()
	var mu sync.Mutex
	states := map[uint64]struct{}{}
	outcomes := map[string]map[string]bool{}
	var wg sync.WaitGroup
	sem := make(chan struct{}, 2*core.Parallelism())
	for _, set := range sets {
		set := set
		wg.Add(1)
		sem <- struct{}{}
		go func() {
			defer func() { <-sem; wg.Done() }()
			argb, _ := json.Marshal(thrArg{Threads: set})
			ex := &core.ParallelExplorer{Pool: pool, Scenario: "thread", Arg: argb, Budget: budget, MaxExec: 20000}
			ex.Visit = func(job core.ExecJob, res *core.ExecResult, crash string, hang bool) {
				if crash != "" && strings.Contains(crash, "HARNESS-ERROR:") {
					core.HarnessError("worker: %s", crash)
				}
				if crash != "" {
					rep.Violate("crash.process."+firstPanicLine(crash), fmt.Sprintf("process died with threads %v schedule %v:\n%s", set, job.Prefix, crash), map[string]any{"arg": thrArg{set}, "choices": job.Prefix})
					return
				}
				if hang {
					rep.Cap(fmt.Sprintf("worker exceeded wall budget on threads %v (not a verdict)", set))
					return
				}
				for _, v := range res.Violations {
					rep.Violate(v.Key, v.Desc, v.Replay)
				}
				mu.Lock()
				k := strings.Join(set, ",")
				if outcomes[k] == nil {
					outcomes[k] = map[string]bool{}
				}
				outcomes[k][res.Outcome] = true
				mu.Unlock()
				if len(job.Prefix) == 0 {
					rep.Sample(10, map[string]any{"threads": set, "scheduling_points": len(res.Trace.Choices), "outcome": res.Outcome})
				}
			}
			ex.Run()
			if ex.Capped {
				rep.Cap(fmt.Sprintf("execution cap reached for threads %v", set))
			}
			mu.Lock()
			rep.Evaluations += ex.Stats.Executions
			rep.Transitions += ex.Stats.Transitions
			rep.TracesImpl += ex.Stats.Executions
			for s := range ex.States {
				states[s] = struct{}{}
			}
			mu.Unlock()
		}()
	}
	wg.Wait()
	rep.States = int64(len(states))
	var distinctOutcomes int64
	multi := 0
	for _, o := range outcomes {
		distinctOutcomes += int64(len(o))
		if len(o) > 1 {
			multi++
		}
	}
	rep.Distinct = distinctOutcomes
	rep.Extra["thread_sets"] = int64(len(sets))
	rep.Extra["thread_sets_with_several_outcomes"] = int64(multi)
}

func firstPanicLine(s string) string {
	for _, ln := range strings.Split(s, "\n") {
		if strings.HasPrefix(ln, "panic:") || strings.HasPrefix(ln, "fatal error:") {
			if len(ln) > 90 {
				ln = ln[:90]
			}
			return ln
		}
	}
	return "unknown"
}

func combos(names []string, k int, withRepeat bool) [][]string {
	var out [][]string
	var rec func(start int, cur []string)
	rec = func(start int, cur []string) {
		if len(cur) == k {
			out = append(out, append([]string{}, cur...))
			return
		}
		for i := start; i < len(names); i++ {
			rec(i+1, append(cur, names[i]))
		}
	}
	rec(0, nil)
	return out
}

// TestC14Conc: concurrent registry operations, final-state conservation laws (C14, concurrent callers).
func TestC14Conc(t *testing.T) {
	serveIfWorker(t)
	rep := core.NewReport("C14", "threadlab-registry", "model_checking")
	rep.Rule = "thread sets of size 2-3 over {Add(x), Add(x) again (up to three adds of one id), Add(auto), Add(y,started), Remove(x), Remove(a), StartAll, updateStats, Stop(a)} against a session holding one running torrent; every schedule with <= bound preemptions at lock acquisitions of the session's and bbolt's locks; final registry state: unique ids, no shared port, free + owned ports == range, session == resume database"
	rep.Assumptions = []string{"scheduling points are the Lock/RLock calls of mTorrents, mPorts, mPeerRequests, mBlocklist, mBitfield and bbolt's db locks made by the harness threads; other goroutines run to quiescence between decisions", "data races are the free-running race pass"}
	names := []string{"Add(x)", "Add(x)#2", "Add(auto)", "Add(y,started)", "Remove(x)", "Remove(a)", "StartAll", "updateStats", "Stop(a)"}
	sets := combos(names, 2, false)
	if core.Thorough() {
		sets = append(sets, combos(names, 3, false)...)
	} else {
		sets = append(sets, []string{"Add(x)", "Add(x)#2", "Add(auto)"}, []string{"Add(x)", "Remove(x)", "Add(x)#2"}, []string{"StartAll", "updateStats", "Add(auto)"})
	}
	// three adds of one id: a failing duplicate must not disturb the reservation of the add in flight
	sets = append(sets, []string{"Add(x)", "Add(x)#2", "Add(x)#3"}, []string{"Remove(x)", "Add(x)#2", "Add(x)#3"})
	budget := 2
	explore("TestC14Conc", rep, sets, budget)
	rep.Finish()
}

// TestC20Lockup: no schedule of concurrent API calls deadlocks against the session's locks or a torrent loop.
func TestC20Lockup(t *testing.T) {
	serveIfWorker(t)
	rep := core.NewReport("C20", "threadlab-lockup", "model_checking")
	rep.Rule = "thread sets of size 2-3 over {StartAll, StopAll, Add(auto), Remove(a), updateStats, Start(a), Stop(a), Verify(a), AddTracker(a), Stats(a), ListTorrents, Compact} with a running torrent loop; every schedule with <= bound preemptions at lock acquisitions; lock-up = some thread unfinished, no thread can be resumed, nothing changes after 18 virtual seconds"
	rep.Assumptions = []string{"RWMutex modelled with Go's writer preference (a pending Lock excludes new readers)", "scheduling points are lock acquisitions of the harness threads; handlers of the torrent loop are atomic"}
	names := []string{"StartAll", "StopAll", "Add(auto)", "Remove(a)", "updateStats", "Start(a)", "Stop(a)", "Verify(a)", "AddTracker(a)", "Stats(a)", "ListTorrents", "Compact"}
	sets := combos(names, 2, false)
	if core.Thorough() {
		sets = append(sets, combos(names, 3, false)...)
	} else {
		sets = append(sets, []string{"StartAll", "updateStats", "Add(auto)"}, []string{"StopAll", "updateStats", "Remove(a)"}, []string{"StartAll", "StopAll", "Add(auto)"}, []string{"Compact", "updateStats", "Add(auto)"})
	}
	explore("TestC20Lockup", rep, sets, 2)
	rep.Finish()
}

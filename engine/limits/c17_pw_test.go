//go:build verif

package limits

import (
	"errors"
	"fmt"
	"net"
	"strings"
	"sync"
	"sync/atomic"
	"testing"
	"testing/synctest"
	"time"

	"github.com/cenkalti/rain/v2/internal/logger"
	"github.com/cenkalti/rain/v2/internal/peerconn/peerwriter"
	"github.com/cenkalti/rain/v2/internal/peerprotocol"
	"github.com/cenkalti/rain/v2/zzverif/core"
	"github.com/cenkalti/rain/v2/zzverif/refcodec"
)

// gateConn is the peer's socket: every Write blocks until the explorer grants it ("the peer reads one
// message"), so that the writer goroutine holds at most one message and the rest stays in the queue.
type gateConn struct {
	grant  chan struct{}
	kill   chan struct{}
	mu     sync.Mutex
	frames [][]byte
	inW    atomic.Int32
}

func (c *gateConn) Write(b []byte) (int, error) {
	c.inW.Add(1)
	defer c.inW.Add(-1)
	select {
	case <-c.grant:
		c.mu.Lock()
		c.frames = append(c.frames, append([]byte(nil), b...))
		c.mu.Unlock()
		return len(b), nil
	case <-c.kill:
		return 0, errors.New("closed")
	}
}
func (c *gateConn) Read(b []byte) (int, error)         { <-c.kill; return 0, errors.New("closed") }
func (c *gateConn) Close() error                       { return nil }
func (c *gateConn) LocalAddr() net.Addr                { return &net.TCPAddr{} }
func (c *gateConn) RemoteAddr() net.Addr               { return &net.TCPAddr{} }
func (c *gateConn) SetDeadline(t time.Time) error      { return nil }
func (c *gateConn) SetReadDeadline(t time.Time) error  { return nil }
func (c *gateConn) SetWriteDeadline(t time.Time) error { return nil }

type pwData struct{}

func (pwData) ReadAt(p []byte, off int64) (int, error) {
	for i := range p {
		p[i] = byte(off) + byte(i)*3 + 1
	}
	return len(p), nil
}

type pwReq struct{ Index, Begin, Length uint32 }

func (r pwReq) String() string { return fmt.Sprintf("(%d,%d,%d)", r.Index, r.Begin, r.Length) }

// model messages
type pwMsg struct {
	kind string // "piece" "reject" "choke" "have"
	req  pwReq
}

func (m pwMsg) String() string {
	if m.kind == "piece" || m.kind == "reject" {
		return m.kind + m.req.String()
	}
	return m.kind
}

type pwOp struct {
	name string
	kind int // 0 SendPiece 1 Cancel 2 Choke 3 Have 4 peer reads one message
	req  pwReq
}

type pwStats struct {
	atCap, rejected, dropped, cancelled, flushed, served, dupRejected int64
}

func pwRun(t *testing.T, vs *vset, max int, fast bool, ops []pwOp, names []string, seq []int, st *pwStats) {
	desc := func() string {
		return fmt.Sprintf("peerwriter(maxQueuedRequests=%d, fast=%v) ops [%s]", max, fast, seqString(names, seq))
	}
	fail := func(oracle, f string, a ...any) {
		vs.add("C17.pw."+oracle, desc()+": "+fmt.Sprintf(f, a...), map[string]any{"max": max, "fast": fast, "ops": seq}, len(seq))
	}
	synctest.Test(t, func(t *testing.T) {
		conn := &gateConn{grant: make(chan struct{}), kill: make(chan struct{})}
		pw := peerwriter.New(conn, logger.New("pw"), max, fast, nil)
		var panicked atomic.Value
		runDone := make(chan struct{})
		go func() {
			defer close(runDone)
			defer func() {
				if r := recover(); r != nil {
					panicked.Store(fmt.Sprintf("%v @ %s", r, topRepoFrame(stackOf())))
				}
			}()
			pw.Run()
		}()
		var uploaded atomic.Int64
		go func() {
			for {
				select {
				case m := <-pw.Messages():
					if bu, ok := m.(peerwriter.BlockUploaded); ok {
						uploaded.Add(int64(bu.Length))
					}
				case <-conn.kill:
					return
				}
			}
		}()
		synctest.Wait()

		// ---- model
		var queue []pwMsg
		var inflight *pwMsg
		var wire []pwMsg
		served := map[pwReq]bool{}
		var wantUploaded int64
		pump := func() { // the writer goroutine takes the head of the queue when it is idle
			if inflight == nil && len(queue) > 0 {
				m := queue[0]
				queue = queue[1:]
				if m.kind == "piece" {
					if served[m.req] {
						m.kind = "reject" // a request served before on this connection is answered with a reject
						st.dupRejected++
					} else {
						served[m.req] = true
					}
				}
				inflight = &m
			}
		}
		queuedPieces := func() (n int) {
			for _, m := range queue {
				if m.kind == "piece" {
					n++
				}
			}
			return
		}
		stop := func() {
			pw.Stop()
			close(conn.kill)
			synctest.Wait()
		}
		for step, oi := range seq {
			op := ops[oi]
			returned := make(chan struct{})
			hadInflight := inflight != nil
			go func() {
				defer close(returned)
				switch op.kind {
				case 0:
					pw.SendPiece(peerprotocol.RequestMessage{Index: op.req.Index, Begin: op.req.Begin, Length: op.req.Length}, pwData{})
				case 1:
					pw.CancelRequest(peerprotocol.CancelMessage{RequestMessage: peerprotocol.RequestMessage{Index: op.req.Index, Begin: op.req.Begin, Length: op.req.Length}})
				case 2:
					pw.SendMessage(peerprotocol.ChokeMessage{})
				case 3:
					pw.SendMessage(peerprotocol.HaveMessage{Index: 9})
				case 4:
					if hadInflight {
						select {
						case conn.grant <- struct{}{}:
						case <-conn.kill:
						}
					}
				}
			}()
			switch op.kind {
			case 0:
				if queuedPieces() >= max {
					st.atCap++
					if fast {
						queue = append(queue, pwMsg{"reject", op.req})
						st.rejected++
					} else {
						st.dropped++
					}
				} else {
					queue = append(queue, pwMsg{"piece", op.req})
				}
			case 1:
				for i, m := range queue {
					if m.kind == "piece" && m.req == op.req {
						queue = append(append([]pwMsg(nil), queue[:i]...), queue[i+1:]...)
						st.cancelled++
						break
					}
				}
			case 2:
				var q2 []pwMsg
				for _, m := range queue {
					if m.kind == "piece" {
						st.flushed++
						continue
					}
					q2 = append(q2, m)
				}
				queue = append(q2, pwMsg{"choke", pwReq{}})
			case 3:
				queue = append(queue, pwMsg{"have", pwReq{}})
			case 4:
				if inflight != nil {
					wire = append(wire, *inflight)
					if inflight.kind == "piece" {
						wantUploaded += int64(inflight.req.Length)
						st.served++
					}
					inflight = nil
				}
			}
			pump()
			synctest.Wait()
			if p := panicked.Load(); p != nil {
				fail("panic."+p.(string)[strings.LastIndex(p.(string), "@ ")+2:], "step %d %s: panic %s", step, op.name, p)
				close(conn.kill)
				synctest.Wait()
				return
			}
			select {
			case <-returned:
			default:
				fail("lockup", "step %d %s: the call did not return although the writer loop is idle", step, op.name)
				stop()
				return
			}
			// ---- oracle
			counter, _, pieces, others := pw.VerifC17Queue()
			if counter > max || len(pieces) > max {
				fail("over-limit", "step %d %s: %d queued upload requests (counter %d) > cap %d", step, op.name, len(pieces), counter, max)
			}
			if counter != len(pieces) || counter < 0 {
				fail("counter", "step %d %s: currentQueuedRequests=%d but %d piece messages are queued", step, op.name, counter, len(pieces))
			}
			var wantPieces []pwReq
			wantOthers := 0
			for _, m := range queue {
				if m.kind == "piece" {
					wantPieces = append(wantPieces, m.req)
				} else {
					wantOthers++
				}
			}
			got := make([]pwReq, len(pieces))
			for i, p := range pieces {
				got[i] = pwReq{p.Index, p.Begin, p.Length}
			}
			if fmt.Sprint(got) != fmt.Sprint(wantPieces) || others != wantOthers {
				fail("queue", "step %d %s: queued requests %v (+%d other messages), model %v (+%d)", step, op.name, got, others, wantPieces, wantOthers)
			}
			busy := conn.inW.Load() == 1
			if busy != (inflight != nil) {
				fail("inflight", "step %d %s: writer blocked in Write=%v, model in-flight=%v", step, op.name, busy, inflight != nil)
			}
		}
		// ---- drain everything: every accepted request is answered exactly once
		for guard := 0; (inflight != nil || conn.inW.Load() == 1) && guard < 64; guard++ {
			if conn.inW.Load() != 1 {
				fail("inflight", "drain: model expects a message in flight, the writer is not writing")
				break
			}
			conn.grant <- struct{}{}
			if inflight == nil {
				fail("inflight", "drain: the writer wrote a message the model does not know")
				synctest.Wait()
				continue
			}
			wire = append(wire, *inflight)
			if inflight.kind == "piece" {
				wantUploaded += int64(inflight.req.Length)
				st.served++
			}
			inflight = nil
			pump()
			synctest.Wait()
		}
		conn.mu.Lock()
		var stream []byte
		for _, f := range conn.frames {
			stream = append(stream, f...)
		}
		nframes := len(conn.frames)
		conn.mu.Unlock()
		msgs, rest := refcodec.ParseStream(stream)
		if len(rest) != 0 || len(msgs) != nframes {
			fail("wire.framing", "drain: %d Write calls, %d frames parsed, %d stray bytes", nframes, len(msgs), len(rest))
		}
		var gotWire []string
		for _, m := range msgs {
			switch m.ID {
			case refcodec.MsgPiece:
				r := pwReq{m.Index(), m.Begin(), uint32(len(m.Block()))}
				want := make([]byte, r.Length)
				pwData{}.ReadAt(want, int64(r.Begin))
				if string(want) != string(m.Block()) {
					fail("wire.data", "drain: piece%v carries wrong bytes", r)
				}
				gotWire = append(gotWire, "piece"+r.String())
			case refcodec.MsgReject:
				gotWire = append(gotWire, "reject"+pwReq{m.Index(), m.Begin(), m.Length()}.String())
			case refcodec.MsgChoke:
				gotWire = append(gotWire, "choke")
			case refcodec.MsgHave:
				gotWire = append(gotWire, "have")
			default:
				gotWire = append(gotWire, fmt.Sprintf("msg%d", m.ID))
			}
		}
		var wantWire []string
		for _, m := range wire {
			wantWire = append(wantWire, m.String())
		}
		if fmt.Sprint(gotWire) != fmt.Sprint(wantWire) {
			fail("wire.sequence", "drain: peer received %v, model %v (an accepted request must be answered exactly once: piece, reject, or removed by cancel/choke)", gotWire, wantWire)
		}
		if uploaded.Load() != wantUploaded {
			fail("uploaded", "drain: BlockUploaded events sum to %d bytes, %d piece bytes were written", uploaded.Load(), wantUploaded)
		}
		counter, _, pieces, others := pw.VerifC17Queue()
		if counter != 0 || len(pieces) != 0 || others != 0 {
			fail("drain", "drain: queue not empty after the peer read everything: counter=%d pieces=%d others=%d", counter, len(pieces), others)
		}
		stop()
		select {
		case <-runDone:
		default:
			fail("stop", "Run did not return after Stop")
		}
	})
}

func TestC17PeerWriter(t *testing.T) {
	logger.Disable()
	rep := core.NewReport("C17", "peerwriter", "exploration")
	depth := 5
	if core.Thorough() {
		depth = 6
	}
	R := []pwReq{{0, 0, 16}, {0, 16, 16}, {1, 0, 8}}
	ops := []pwOp{
		{"SendPiece" + R[0].String(), 0, R[0]}, {"SendPiece" + R[1].String(), 0, R[1]}, {"SendPiece" + R[2].String(), 0, R[2]},
		{"Cancel" + R[0].String(), 1, R[0]}, {"Cancel" + R[1].String(), 1, R[1]},
		{"Choke", 2, pwReq{}}, {"Have", 3, pwReq{}}, {"PeerReadsOne", 4, pwReq{}},
	}
	names := make([]string, len(ops))
	for i, o := range ops {
		names[i] = o.name
	}
	rep.Rule = fmt.Sprintf("every sequence of length 1..%d over {SendPiece(3 distinct requests, so repeats occur), CancelRequest(2 of them), SendMessage(Choke) = queue flush, "+
		"SendMessage(Have), peer reads one message (one blocked conn.Write is released)} x maxQueuedRequests in {0,1,2,3} x fast extension on/off, on the real PeerWriter.Run + messageWriter "+
		"inside a synctest bubble over a gated in-memory conn; after every step the private queue is compared with a list model, at the end the peer reads everything and the byte stream "+
		"is decoded with the reference codec and compared message by message. distinct = (config, sequence).", depth)
	rep.Assumptions = []string{"one stimulus at a time with synctest.Wait() in between (the Run select never has two ready cases)",
		"the message held by the writer goroutine in conn.Write is not counted as queued (it left the queue)",
		"reject messages queued at the cap are not counted against the cap (they are not upload requests); their number is not bounded by the writer",
		"rate limiting bucket = nil (covered by the whole-session part)"}
	vs := newVset()
	var runs int64
	var st pwStats
	var mu sync.Mutex
	type cfg struct {
		max   int
		fast  bool
		first int
	}
	var cfgs []cfg
	for _, max := range []int{0, 1, 2, 3} {
		for _, fast := range []bool{false, true} {
			for f := range ops {
				cfgs = append(cfgs, cfg{max, fast, f})
			}
		}
	}
	parallelShards(t, len(cfgs), func(t *testing.T, shard int) {
		c := cfgs[shard]
		var lst pwStats
		var n int64
		seqsWithFirst(len(ops), depth, c.first, func(seq []int) {
			pwRun(t, vs, c.max, c.fast, ops, names, seq, &lst)
			n++
			if n%9000 == 77 {
				rep.Sample(8, fmt.Sprintf("max=%d fast=%v: %s", c.max, c.fast, seqString(names, seq)))
			}
		})
		mu.Lock()
		runs += n
		st.atCap += lst.atCap
		st.rejected += lst.rejected
		st.dropped += lst.dropped
		st.cancelled += lst.cancelled
		st.flushed += lst.flushed
		st.served += lst.served
		st.dupRejected += lst.dupRejected
		mu.Unlock()
	})
	rep.Evaluations = runs
	rep.Distinct = runs
	rep.Extra["pw_requests_at_cap"] = st.atCap
	rep.Extra["pw_rejected_at_cap_fast"] = st.rejected
	rep.Extra["pw_dropped_at_cap_nofast"] = st.dropped
	rep.Extra["pw_cancelled_in_queue"] = st.cancelled
	rep.Extra["pw_flushed_by_choke"] = st.flushed
	rep.Extra["pw_pieces_written"] = st.served
	rep.Extra["pw_repeat_requests_rejected_by_writer"] = st.dupRejected
	if vs.empty() && (st.atCap == 0 || st.cancelled == 0 || st.flushed == 0 || st.served == 0) {
		rep.Vacuous("vacuous peerwriter run: %+v", st)
	}
	vs.flush(rep)
	rep.Finish()
}

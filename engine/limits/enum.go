//go:build verif

// Package limits: C17 — component level ("Managers") part: bounded-exhaustive operation sequences on
// the real resource manager, piece cache, semaphore, address list, peer writer queue and piece
// downloader, each against a boring counting model.
package limits

import (
	"fmt"
	"runtime"
	"sort"
	"strings"
	"sync"
	"testing"
)

// forAllSeq calls fn for EVERY sequence over {0..alpha-1} of every length 1..maxLen (no sampling),
// distributing the sequences over `workers` goroutines by their first two symbols. fn gets a private
// slice. The order inside one worker is shortest-prefix-first (length-lexicographic by DFS pre-order).
func forAllSeq(alpha, maxLen, workers int, fn func(worker int, seq []int)) int64 {
	type job struct{ a, b int }
	jobs := make(chan job, alpha*alpha+alpha)
	for a := 0; a < alpha; a++ {
		jobs <- job{a, -1} // the length-1 sequence
		if maxLen >= 2 {
			for b := 0; b < alpha; b++ {
				jobs <- job{a, b}
			}
		}
	}
	close(jobs)
	var total int64
	var mu sync.Mutex
	var wg sync.WaitGroup
	for w := 0; w < workers; w++ {
		wg.Add(1)
		go func(w int) {
			defer wg.Done()
			var n int64
			seq := make([]int, 0, maxLen)
			var rec func()
			rec = func() {
				n++
				fn(w, append([]int(nil), seq...))
				if len(seq) == maxLen {
					return
				}
				for s := 0; s < alpha; s++ {
					seq = append(seq, s)
					rec()
					seq = seq[:len(seq)-1]
				}
			}
			for j := range jobs {
				seq = seq[:0]
				seq = append(seq, j.a)
				if j.b < 0 {
					n++
					fn(w, append([]int(nil), seq...))
					continue
				}
				seq = append(seq, j.b)
				rec()
			}
			mu.Lock()
			total += n
			mu.Unlock()
		}(w)
	}
	wg.Wait()
	return total
}

// topRepoFrame extracts the first rain frame (function name) of a panic stack for violation keys.
func topRepoFrame(stack string) string {
	lines := strings.Split(stack, "\n")
	for i := 0; i+1 < len(lines); i++ {
		if strings.Contains(lines[i+1], "/repo/") && !strings.Contains(lines[i+1], "zzverif") && !strings.Contains(lines[i+1], "zz_verif") {
			fn := strings.TrimSpace(lines[i])
			if j := strings.LastIndex(fn, "("); j > 0 {
				fn = fn[:j]
			}
			if j := strings.LastIndex(fn, "/"); j >= 0 {
				fn = fn[j+1:]
			}
			return fn
		}
	}
	return "unknown"
}

func stackOf() string {
	buf := make([]byte, 16384)
	n := runtime.Stack(buf, false)
	return string(buf[:n])
}

func seqString(names []string, seq []int) string {
	var sb strings.Builder
	for i, s := range seq {
		if i > 0 {
			sb.WriteString(" ; ")
		}
		sb.WriteString(names[s])
	}
	return sb.String()
}

// vset collects violations from concurrent workers and keeps, per key, the SIMPLEST failing case
// (fewest steps, then lexicographically smallest description) so that reports are deterministic.
type vset struct {
	mu sync.Mutex
	m  map[string]*vent
}

type vent struct {
	desc   string
	replay any
	size   int
	count  int
}

func newVset() *vset { return &vset{m: map[string]*vent{}} }

func (v *vset) add(key, desc string, replay any, size int) {
	v.mu.Lock()
	defer v.mu.Unlock()
	e, ok := v.m[key]
	if !ok {
		v.m[key] = &vent{desc, replay, size, 1}
		return
	}
	e.count++
	if size < e.size || (size == e.size && desc < e.desc) {
		e.desc, e.replay, e.size = desc, replay, size
	}
}

func (v *vset) empty() bool { v.mu.Lock(); defer v.mu.Unlock(); return len(v.m) == 0 }

func (v *vset) flush(rep interface {
	Violate(key, desc string, replay any)
}) {
	keys := make([]string, 0, len(v.m))
	for k := range v.m {
		keys = append(keys, k)
	}
	sort.Strings(keys)
	for _, k := range keys {
		e := v.m[k]
		for i := 0; i < e.count; i++ {
			rep.Violate(k, e.desc, e.replay)
		}
	}
}

// parallelShards runs fn(shard) for shard in [0,n) as parallel subtests (each has its own *testing.T, which
// testing/synctest needs) and returns when all of them are done.
func parallelShards(t *testing.T, n int, fn func(t *testing.T, shard int)) {
	t.Run("shards", func(t *testing.T) {
		for i := 0; i < n; i++ {
			i := i
			t.Run(fmt.Sprintf("s%d", i), func(t *testing.T) {
				t.Parallel()
				fn(t, i)
			})
		}
	})
}

// seqsWithFirst returns every sequence of length 1..maxLen over {0..alpha-1} whose first symbol is `first`.
func seqsWithFirst(alpha, maxLen, first int, emit func(seq []int)) {
	seq := []int{first}
	var rec func()
	rec = func() {
		emit(append([]int(nil), seq...))
		if len(seq) == maxLen {
			return
		}
		for s := 0; s < alpha; s++ {
			seq = append(seq, s)
			rec()
			seq = seq[:len(seq)-1]
		}
	}
	rec()
}

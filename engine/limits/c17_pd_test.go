//go:build verif

package limits

import (
	"bytes"
	"fmt"
	"os"
	"runtime/debug"
	"sort"
	"strings"
	"sync"
	"testing"

	"github.com/cenkalti/rain/v2/internal/bufferpool"
	"github.com/cenkalti/rain/v2/internal/filesection"
	"github.com/cenkalti/rain/v2/internal/logger"
	"github.com/cenkalti/rain/v2/internal/piece"
	"github.com/cenkalti/rain/v2/internal/piecedownloader"
	"github.com/cenkalti/rain/v2/zzverif/core"
)

// ---- reference model of one piece download as seen on the wire

type pdConfig struct {
	Length      uint32
	AllowedFast bool
	PeerFast    bool
}

func (c pdConfig) String() string {
	return fmt.Sprintf("piece len=%d allowedFast=%v peerFast=%v", c.Length, c.AllowedFast, c.PeerFast)
}

type pdBlock struct{ begin, length uint32 }

func pdBlocksOf(length uint32) []pdBlock {
	var out []pdBlock
	for b := uint32(0); b < length; b += 16384 {
		l := uint32(16384)
		if length-b < l {
			l = length - b
		}
		out = append(out, pdBlock{b, l})
	}
	return out
}

type pdOp struct {
	name string
	kind int // 0 RequestBlocks(q) 1 GotBlock(block) 2 GotBlock invalid 3 Rejected(block) 4 Rejected invalid 5 Choked 6 CancelPending
	arg  int
}

func pdOps(nblocks int) []pdOp {
	ops := []pdOp{{"RequestBlocks(1)", 0, 1}, {"RequestBlocks(2)", 0, 2}, {"RequestBlocks(5)", 0, 5}}
	for b := 0; b < nblocks; b++ {
		ops = append(ops, pdOp{fmt.Sprintf("GotBlock(#%d)", b), 1, b})
	}
	ops = append(ops, pdOp{"GotBlock(#0,wrong-length)", 2, 0}, pdOp{"GotBlock(unknown-begin)", 2, 1})
	for b := 0; b < nblocks; b++ {
		ops = append(ops, pdOp{fmt.Sprintf("Rejected(#%d)", b), 3, b})
	}
	ops = append(ops, pdOp{"Rejected(unknown)", 4, 0}, pdOp{"Choked", 5, 0}, pdOp{"CancelPending", 6, 0})
	return ops
}

// mock peer: counts requests on the wire
type pdPeer struct {
	fast        bool
	index       uint32
	blocks      []pdBlock
	out         []int // requests sent and not yet answered, per block
	q           int   // queue length of the RequestBlocks call in progress (0 = none)
	overQ       string
	overCause   string
	unsolicited bool // the peer rejected a block for which no request was outstanding
	badReq      string
	requests    int
	cancels     int
}

func (p *pdPeer) sum() int {
	s := 0
	for _, o := range p.out {
		s += o
	}
	return s
}

func (p *pdPeer) find(begin, length uint32) int {
	for i, b := range p.blocks {
		if b.begin == begin && b.length == length {
			return i
		}
	}
	return -1
}

func (p *pdPeer) RequestPiece(index, begin, length uint32) {
	p.requests++
	i := p.find(begin, length)
	if index != p.index || i < 0 {
		p.badReq = fmt.Sprintf("RequestPiece(%d,%d,%d) is not a block of the piece", index, begin, length)
		return
	}
	if p.q == 0 {
		p.badReq = fmt.Sprintf("RequestPiece(%d,%d,%d) outside RequestBlocks", index, begin, length)
	}
	p.out[i]++
	if p.q > 0 && p.sum() > p.q && p.overQ == "" {
		p.overCause = "honest-peer-history"
		if p.unsolicited {
			p.overCause = "after-unsolicited-reject"
		}
		p.overQ = fmt.Sprintf("request for block #%d brings the requests outstanding on the wire to %d %v with queue length %d", i, p.sum(), p.out, p.q)
	}
}

func (p *pdPeer) CancelPiece(index, begin, length uint32) {
	p.cancels++
	if index != p.index || p.find(begin, length) < 0 {
		p.badReq = fmt.Sprintf("CancelPiece(%d,%d,%d) is not a block of the piece", index, begin, length)
	}
}

func (p *pdPeer) EnabledFast() bool { return p.fast }

var pdPatterns = func() (p [2][4][]byte) {
	for att := 0; att < 2; att++ {
		for blk := 0; blk < 4; blk++ {
			d := make([]byte, 16384)
			v := byte(0xA0 + blk)
			if att > 0 {
				v = byte(0x50 + blk)
			}
			for i := range d {
				d[i] = v
			}
			p[att][blk] = d
		}
	}
	return
}()

// pdData: first arrival of a block carries pattern A, every later arrival pattern B (so that a
// duplicate that overwrites the buffer is visible).
func pdData(b pdBlock, attempt int) []byte {
	if attempt > 1 {
		attempt = 1
	}
	return pdPatterns[attempt][b.begin/16384][:b.length]
}

// pdKey is an injective encoding of the state (all values < 2^32, lists length-prefixed).
func pdKey(pending, done, remaining []uint32, outs, att []int) string {
	b := make([]byte, 0, 8+len(pending)+len(done)+len(remaining)+2*len(outs))
	put := func(l []uint32) {
		b = append(b, byte(len(l)), byte(len(l)>>8))
		for _, x := range l {
			b = append(b, byte(x/16384)) // block begins are multiples of 16 KiB, < 4 blocks
		}
	}
	put(pending)
	put(done)
	put(remaining)
	for i := range outs {
		b = append(b, byte(outs[i]), byte(att[i]))
	}
	return string(b)
}

type pdRun struct {
	state    string
	leak     bool // a pipeline slot is occupied by a block that was never requested / already arrived
	stalled  bool
	done     bool
	requests int
}

var pdScratch = sync.Pool{New: func() any { b := make([]byte, 4*16384); return &b }}
var pdZero = make([]byte, 16384)

// pdExec runs seq on a fresh real PieceDownloader; oracles are evaluated on every step (cheap), and
// violations are reported with the sequence that was executed.
func pdExec(vs *vset, cfg pdConfig, ops []pdOp, seq []int, names []string) (res pdRun) {
	blocks := pdBlocksOf(cfg.Length)
	last := false // oracles fire on the last step only: every proper prefix was the last step of an earlier execution
	fail := func(oracle, f string, a ...any) {
		if !last {
			return
		}
		vs.add("C17.pd."+oracle, fmt.Sprintf("%s; ops [%s]: %s", cfg, seqString(names, seq), fmt.Sprintf(f, a...)),
			map[string]any{"config": cfg, "ops": seq}, len(seq))
	}
	defer func() {
		if r := recover(); r != nil {
			last = true
			fail("panic."+topRepoFrame(stackOf()), "panic: %v", r)
			res.state = "PANIC"
		}
	}()
	pi := &piece.Piece{Index: 7, Length: cfg.Length, Data: filesection.Piece{{Length: int64(cfg.Length)}}}
	pe := &pdPeer{fast: cfg.PeerFast, index: 7, blocks: blocks, out: make([]int, len(blocks))}
	scratch := pdScratch.Get().(*[]byte)
	buf := bufferpool.Buffer{Data: (*scratch)[:cfg.Length]}
	d := piecedownloader.New(pi, pe, cfg.AllowedFast, buf)
	var storedA, attemptsA [4]int
	var storedB [4]bool
	stored := storedB[:len(blocks)]
	attempts := attemptsA[:len(blocks)]
	_ = storedA
	defer func() {
		for i, b := range blocks { // re-zero only what may have been written
			if attempts[i] > 0 {
				clear((*scratch)[b.begin : b.begin+b.length])
			}
		}
		pdScratch.Put(scratch)
	}()
	// model of the buffer: block i holds pattern A iff stored[i], zeroes otherwise
	bufOK := func() bool {
		for i, b := range blocks {
			want := pdZero[:b.length]
			if stored[i] {
				want = pdPatterns[0][i][:b.length]
			}
			if !bytes.Equal(buf.Data[b.begin:b.begin+b.length], want) {
				return false
			}
		}
		return len(buf.Data) == int(cfg.Length)
	}
	for step, oi := range seq {
		op := ops[oi]
		last = step == len(seq)-1
		pe.overQ, pe.badReq = "", ""
		switch op.kind {
		case 0:
			pe.q = op.arg
			d.RequestBlocks(op.arg)
			pe.q = 0
			if pe.overQ != "" {
				fail("outstanding.over-queue-length."+pe.overCause, "step %d %s: %s", step, op.name, pe.overQ)
				pe.overQ = ""
			}
		case 1:
			b := blocks[op.arg]
			data := pdData(b, attempts[op.arg])
			attempts[op.arg]++
			err := d.GotBlock(b.begin, data)
			switch {
			case err == piecedownloader.ErrBlockInvalid:
				fail("gotblock.valid-refused", "step %d %s: a block of the piece was refused as invalid", step, op.name)
			case stored[op.arg]:
				if err != piecedownloader.ErrBlockDuplicate {
					fail("gotblock.dup-accepted", "step %d %s: block arrived a second time and GotBlock returned %v", step, op.name, err)
				}
			default:
				if err != nil && err != piecedownloader.ErrBlockNotRequested {
					fail("gotblock.first-refused", "step %d %s: first arrival returned %v", step, op.name, err)
				} else {
					stored[op.arg] = true
				}
			}
			if pe.out[op.arg] > 0 {
				pe.out[op.arg]--
			}
		case 2:
			var err error
			if op.arg == 0 {
				err = d.GotBlock(0, make([]byte, blocks[0].length+1))
			} else {
				err = d.GotBlock(8192, make([]byte, 16384))
			}
			if err != piecedownloader.ErrBlockInvalid {
				fail("gotblock.invalid-accepted", "step %d %s: returned %v", step, op.name, err)
			}
		case 3:
			b := blocks[op.arg]
			if !d.Rejected(b.begin, b.length) {
				fail("rejected.valid-refused", "step %d %s: returned false for a block of the piece", step, op.name)
			}
			if pe.out[op.arg] > 0 {
				pe.out[op.arg]--
			} else {
				pe.unsolicited = true
			}
		case 4:
			if d.Rejected(8192, 16384) {
				fail("rejected.invalid-accepted", "step %d %s: returned true", step, op.name)
			}
		case 5:
			d.Choked()
			if !cfg.PeerFast {
				// without the fast extension a choke discards every request at the peer
				for i := range pe.out {
					pe.out[i] = 0
				}
			}
		case 6:
			d.CancelPending()
		}
		if pe.badReq != "" {
			fail("request.bad", "step %d %s: %s", step, op.name, pe.badReq)
			pe.badReq = ""
		}
		if (op.kind == 1 || op.kind == 2 || step == len(seq)-1) && !bufOK() {
			fail("buffer", "step %d %s: piece buffer differs from the model (bytes at wrong offset / duplicate overwrote data)", step, op.name)
		}
		all := true
		for _, s := range stored {
			all = all && s
		}
		if d.Done() != all {
			fail("done", "step %d %s: Done()=%v but stored blocks=%v", step, op.name, d.Done(), stored)
		}
		res.done = all
	}
	pending, done, remaining := d.VerifC17State()
	// slot leak: a pending entry with nothing outstanding on the wire for it
	for _, b := range pending {
		i := pe.find(b, blocks[b/16384].length)
		if i >= 0 && pe.out[i] == 0 {
			res.leak = true
		}
	}
	var bs strings.Builder
	for i := range blocks {
		switch {
		case !stored[i]:
			bs.WriteByte('-')
		case attempts[i] > 1:
			bs.WriteByte('D')
		default:
			bs.WriteByte('S')
		}
	}
	att := make([]int, len(attempts))
	for i, a := range attempts {
		if a > 1 {
			a = 1 // only "first arrival happened" matters for the data pattern of the next arrival
		}
		att[i] = a
	}
	outs := append([]int(nil), pe.out...)
	res.state = pdKey(pending, done, remaining, outs, att)
	if pe.unsolicited {
		res.state += "U"
	}
	res.requests = pe.requests
	_ = sort.Ints
	return res
}

func TestC17PieceDownloader(t *testing.T) {
	logger.Disable()
	rep := core.NewReport("C17", "piecedownloader", "exploration")
	debug.SetGCPercent(400)
	depthFor := func(nblocks int) int { // quick: 8 steps for pieces of 1-2 blocks, 7 for 3-4 blocks
		if core.Thorough() {
			return []int{0, 10, 10, 9, 8}[nblocks]
		}
		return []int{0, 8, 8, 7, 7}[nblocks]
	}
	depth := 0
	rep.Rule = fmt.Sprintf("breadth-first over ALL operation sequences of length <= %s on the real PieceDownloader; alphabet {RequestBlocks(q in 1,2,5), GotBlock(each block; "+
		"first arrival / duplicate / unrequested follow from the history), GotBlock(wrong length), GotBlock(unknown begin), Rejected(each block), Rejected(unknown), Choked, CancelPending}; "+
		"pieces of 1..4 blocks (incl. short last block) x AllowedFast x peer fast extension. Two sequences that lead to the same (pending, done, remaining order, wire-outstanding vector, arrivals) "+
		"state are merged (the continuation is executed once from a representative, re-executed from a fresh object); distinct = distinct states.", map[bool]string{false: "8 (pieces of 1-2 blocks) / 7 (3-4 blocks)", true: "10 (1-2 blocks) / 9 (3 blocks) / 8 (4 blocks)"}[core.Thorough()])
	rep.Assumptions = []string{"wire model: a request is answered by the block, by a reject, or (peer without fast extension) by a choke; unsolicited rejects/blocks are legal peer behaviour",
		"block size fixed at 16 KiB by piece.BlockSize (geometry is checked by C02)",
		"state merge assumes the downloader has no state besides pending/done/remaining/buffer (fields of the struct as of this tree)"}
	vs := newVset()
	lengths := []uint32{100, 16384, 16385, 3 * 16384, 3*16384 + 5}
	if core.Thorough() {
		lengths = append(lengths, 2*16384, 4*16384)
	}
	var execs, states, reps, leaks, stalls, doneStates, reqs int64
	for _, L := range lengths {
		for _, af := range []bool{false, true} {
			for _, pf := range []bool{false, true} {
				cfg := pdConfig{L, af, pf}
				ops := pdOps(len(pdBlocksOf(L)))
				depth = depthFor(len(pdBlocksOf(L)))
				names := make([]string, len(ops))
				for i, o := range ops {
					names[i] = o.name
				}
				type node struct{ path []int }
				type cand struct {
					ni, oi int
					r      pdRun
				}
				seen := map[string]bool{}
				init := pdExec(vs, cfg, ops, nil, names)
				seen[init.state] = true
				level := []node{{nil}}
				for k := 0; k < depth && len(level) > 0; k++ {
					W := core.Parallelism()
					outs := make([][]cand, W)
					var wg sync.WaitGroup
					for w := 0; w < W; w++ {
						wg.Add(1)
						go func(w int) {
							defer wg.Done()
							for ni := w; ni < len(level); ni += W {
								for oi := range ops {
									seq := append(append(make([]int, 0, len(level[ni].path)+1), level[ni].path...), oi)
									r := pdExec(vs, cfg, ops, seq, names)
									if r.state == "PANIC" || seen[r.state] { // seen is read-only during a level
										continue
									}
									outs[w] = append(outs[w], cand{ni, oi, r})
								}
							}
						}(w)
					}
					wg.Wait()
					execs += int64(len(level) * len(ops))
					var all []cand
					for _, o := range outs {
						all = append(all, o...)
					}
					sort.Slice(all, func(i, j int) bool {
						if all[i].ni != all[j].ni {
							return all[i].ni < all[j].ni
						}
						return all[i].oi < all[j].oi
					})
					var next []node
					for _, c := range all {
						if seen[c.r.state] {
							continue
						}
						seen[c.r.state] = true
						seq := append(append([]int(nil), level[c.ni].path...), c.oi)
						next = append(next, node{seq})
						states++
						reqs += int64(c.r.requests)
						if c.r.leak {
							leaks++
						}
						if c.r.done {
							doneStates++
						}
						if states%20000 == 1 {
							rep.Sample(8, cfg.String()+": "+seqString(names, seq))
						}
					}
					if os.Getenv("VERIF_DEBUG") != "" {
						fmt.Printf("pd %s level %d: nodes=%d new=%d\n", cfg, k+1, len(level), len(next))
					}
					level = next
				}
			}
		}
	}
	_ = stalls
	rep.Evaluations = execs
	rep.Distinct = states
	rep.Extra["pd_sequences_in_bound_covered_modulo_state_merge"] = reps
	rep.Extra["pd_states_with_pipeline_slot_held_by_unrequested_block"] = leaks
	rep.Extra["pd_states_done"] = doneStates
	rep.Extra["pd_requests_sent_in_representatives"] = reqs
	if vs.empty() && (doneStates == 0 || reqs == 0) {
		rep.Vacuous("vacuous: no piece ever completed / no request sent")
	}
	vs.flush(rep)
	rep.Finish()
}

//go:build verif

package limits

import (
	"fmt"
	"net"
	"sort"
	"sync"
	"sync/atomic"
	"testing"
	"testing/synctest"
	"time"

	"github.com/cenkalti/rain/v2/internal/addrlist"
	"github.com/cenkalti/rain/v2/internal/logger"
	"github.com/cenkalti/rain/v2/internal/peersource"
	"github.com/cenkalti/rain/v2/internal/semaphore"
	"github.com/cenkalti/rain/v2/zzverif/core"
)

// ---------------------------------------------------------------------------------------------
// semaphore: ops {W = a new goroutine calls Wait, S = Signal by a holder}; model = (active, waiting).

func runSemaphoreSeq(t *testing.T, rep *vset, n int, seq []int, names []string, grantsSeen *int64, blockedSeen *int64) {
	synctest.Test(t, func(t *testing.T) {
		s := semaphore.New(n)
		var returned atomic.Int64
		active, waiting := 0, 0
		fail := func(oracle, f string, a ...any) {
			rep.add("C17.semaphore."+oracle, fmt.Sprintf("semaphore(n=%d) ops [%s]: %s", n, seqString(names, seq), fmt.Sprintf(f, a...)),
				map[string]any{"n": n, "ops": seq}, len(seq))
		}
		for step, op := range seq {
			switch op {
			case 0: // W
				go func() { s.Wait(); returned.Add(1) }()
				if active < n {
					active++
				} else {
					waiting++
				}
			case 1: // S (only a holder may signal: skip when nobody holds)
				if active == 0 {
					continue
				}
				s.Signal()
				if waiting > 0 {
					waiting--
				} else {
					active--
				}
			}
			synctest.Wait()
			if s.Len() > n {
				fail("over-limit", "step %d: %d holders > n", step, s.Len())
			}
			if s.Len() != active || s.Waiting() != waiting {
				fail("count", "step %d: Len=%d Waiting=%d, model active=%d waiting=%d", step, s.Len(), s.Waiting(), active, waiting)
			}
			if s.Len() < 0 || s.Waiting() < 0 {
				fail("negative", "step %d: Len=%d Waiting=%d", step, s.Len(), s.Waiting())
			}
			if waiting > 0 {
				atomic.AddInt64(blockedSeen, 1)
			}
		}
		// drain: release until nobody waits; every Wait call must have returned exactly once
		total := int64(0)
		for _, op := range seq {
			if op == 0 {
				total++
			}
		}
		for waiting > 0 {
			s.Signal()
			waiting--
			synctest.Wait()
		}
		if returned.Load() != total {
			fail("lost-waiter", "after draining, %d of %d Wait calls returned", returned.Load(), total)
		}
		atomic.AddInt64(grantsSeen, returned.Load())
	})
}

// ---------------------------------------------------------------------------------------------
// addrlist

type alOp struct {
	name   string
	kind   int // 0 push, 1 pop, 2 reset
	addrs  []string
	source peersource.Source
}

type alModelEntry struct {
	source peersource.Source
	push   int // number of the Push call that (re)inserted it
}

func tcp(s string) *net.TCPAddr {
	a, err := net.ResolveTCPAddr("tcp4", s)
	if err != nil {
		panic(err)
	}
	return a
}

const alListenPort = 6881

func alValid(a *net.TCPAddr, clientIP net.IP) bool {
	if a.Port == 0 {
		return false
	}
	if a.IP.IsLoopback() && a.Port == alListenPort {
		return false
	}
	if clientIP != nil && clientIP.Equal(a.IP) {
		return false
	}
	return true
}

func runAddrlistSeq(rep *vset, max int, clientIP net.IP, ops []alOp, seq []int, names []string, st *alStats) {
	desc := func() string {
		return fmt.Sprintf("addrlist(max=%d, clientIP=%v) ops [%s]", max, clientIP, seqString(names, seq))
	}
	defer func() {
		if r := recover(); r != nil {
			rep.add("C17.addrlist.panic."+topRepoFrame(stackOf()), fmt.Sprintf("%s: panic: %v", desc(), r), map[string]any{"max": max, "ops": seq}, len(seq))
		}
	}()
	cip := clientIP
	l := addrlist.New(max, nil, alListenPort, &cip)
	model := map[string]alModelEntry{}
	pushNo := 0
	fail := func(oracle, f string, a ...any) {
		rep.add("C17.addrlist."+oracle, desc()+": "+fmt.Sprintf(f, a...), map[string]any{"max": max, "ops": seq}, len(seq))
	}
	for step, oi := range seq {
		op := ops[oi]
		switch op.kind {
		case 0:
			pushNo++
			var as []*net.TCPAddr
			for _, s := range op.addrs {
				a := tcp(s)
				as = append(as, a)
				if alValid(a, clientIP) {
					model[a.String()] = alModelEntry{op.source, pushNo}
				}
			}
			// distinct timestamps for distinct Push calls (not an oracle: only makes "older" well defined)
			for t0 := time.Now(); !time.Now().After(t0); {
			}
			l.Push(as, op.source)
		case 1:
			a, src := l.Pop()
			if len(model) == 0 {
				if a != nil {
					fail("pop", "step %d: Pop on an empty list returned %v", step, a)
				}
			} else {
				if a == nil {
					fail("pop", "step %d: Pop returned nil but %d addresses are stored", step, len(model))
				} else if e, ok := model[a.String()]; !ok {
					fail("pop", "step %d: Pop returned %v which is not stored", step, a)
				} else {
					if e.source != src {
						fail("pop-source", "step %d: Pop returned %v with source %v, stored with %v", step, a, src, e.source)
					}
					delete(model, a.String())
				}
			}
		case 2:
			l.Reset()
			model = map[string]alModelEntry{}
		}
		// --- oracle after every step
		entries, byPrio, slots, counts := l.VerifC17Snapshot()
		if l.Len() > max {
			fail("over-limit", "step %d: Len()=%d > max", step, l.Len())
		}
		if len(entries) > max && op.kind == 0 {
			fail("over-limit", "step %d: %d stored entries > max", step, len(entries))
		}
		if byPrio != len(entries) {
			fail("index-sync", "step %d: priority index has %d entries, time index %d", step, byPrio, len(entries))
		}
		_ = slots
		// which addresses must / may be stored
		if len(model) > max {
			st.evictions++
			type me struct {
				addr string
				push int
			}
			var ms []me
			for a, e := range model {
				ms = append(ms, me{a, e.push})
			}
			sort.Slice(ms, func(i, j int) bool { return ms[i].push > ms[j].push }) // newest first
			cut := ms[max-1].push                                                  // push number of the oldest survivor
			stored := map[string]bool{}
			for _, e := range entries {
				stored[e.Addr] = true
			}
			if len(entries) != max {
				fail("evict-count", "step %d: %d addresses offered for %d slots, %d stored (want exactly max)", step, len(model), max, len(entries))
			}
			for _, m := range ms {
				if m.push > cut && !stored[m.addr] {
					fail("evict-newer", "step %d: %s (push #%d) was evicted although older addresses (push #%d) are kept", step, m.addr, m.push, cut)
				}
				if m.push < cut && stored[m.addr] {
					fail("evict-older", "step %d: %s (push #%d) kept although a newer address was evicted", step, m.addr, m.push)
				}
			}
			// follow the implementation's tie-break among equal-age addresses
			for a := range model {
				if !stored[a] {
					delete(model, a)
				}
			}
		}
		if len(entries) != len(model) {
			fail("content", "step %d: %d stored, model has %d", step, len(entries), len(model))
		}
		wantCounts := map[peersource.Source]int{}
		for _, e := range entries {
			me, ok := model[e.Addr]
			if !ok {
				fail("content", "step %d: stored address %s is not in the model", step, e.Addr)
				continue
			}
			if me.source != e.Source {
				fail("content", "step %d: %s stored with source %v, model %v", step, e.Addr, e.Source, me.source)
			}
			wantCounts[e.Source]++
		}
		sum := 0
		for s, c := range counts {
			sum += c
			if c < 0 {
				fail("count-negative", "step %d: per-source counter of %v is %d", step, s, c)
			}
			if c != wantCounts[s] {
				fail("count", "step %d: per-source counter of %v is %d, stored %d", step, s, c, wantCounts[s])
			}
			if l.LenSource(s) != c {
				fail("count", "step %d: LenSource(%v)=%d counter=%d", step, s, l.LenSource(s), c)
			}
		}
		if sum != l.Len() {
			fail("count-sum", "step %d: per-source counters sum to %d, Len()=%d", step, sum, l.Len())
		}
		if len(model) == max {
			st.atCap++
		}
	}
	// drain: exactly len(model) pops, then nil
	n := len(model)
	for i := 0; i < n; i++ {
		a, _ := l.Pop()
		if a == nil {
			fail("drain", "drain: pop %d of %d returned nil", i+1, n)
			return
		}
		if _, ok := model[a.String()]; !ok {
			fail("drain", "drain: popped %v twice or never stored", a)
		}
		delete(model, a.String())
	}
	if a, _ := l.Pop(); a != nil {
		fail("drain", "drain: extra address %v after %d pops", a, n)
	}
}

type alStats struct{ evictions, atCap int64 }

func TestC17Small(t *testing.T) {
	logger.Disable()
	rep := core.NewReport("C17", "semaphore-addrlist", "exploration")
	depth := 6
	alDepth := 5
	if core.Thorough() {
		depth = 8
		alDepth = 6
	}
	rep.Rule = fmt.Sprintf("semaphore: every sequence of length 1..%d over {Wait by a new goroutine, Signal by a holder} for n in {1,2,3}, inside synctest bubbles, "+
		"counters compared with (active,waiting) after every step and every waiter must return after draining. "+
		"addrlist: every sequence of length 1..%d over the operation alphabet (single/multi pushes of 4 valid addresses from 2 sources, re-push with another source, "+
		"invalid addresses, Pop, Reset) x max in {1,2,3} x clientIP {unset, set}; after every step Len<=max, both indexes in sync, per-source counters == stored, "+
		"eviction is oldest-first (ties inside one Push free). distinct = (component, config, sequence).", depth, alDepth)
	rep.Assumptions = []string{"addrlist eviction among addresses of the same Push call is not constrained (same timestamp)",
		"semaphore.Signal is only called by a holder (releasing more than held is API misuse)",
		"transient Len() inside Signal (Release before the counter decrement) is not observable at quiescence and not checked"}

	vs := newVset()
	// --- semaphore
	var semRuns, grants, blocked int64
	semNames := []string{"Wait", "Signal"}
	for n := 1; n <= 3; n++ {
		var mu sync.Mutex
		var seqs [][]int
		forAllSeq(2, depth, 1, func(_ int, seq []int) { mu.Lock(); seqs = append(seqs, seq); mu.Unlock() })
		for _, seq := range seqs {
			runSemaphoreSeq(t, vs, n, seq, semNames, &grants, &blocked)
			semRuns++
		}
	}
	rep.Sample(4, "semaphore n=2: Wait ; Wait ; Wait ; Signal ; Signal ; Wait")
	rep.Extra["semaphore_sequences"] = semRuns
	rep.Extra["semaphore_wait_calls_returned"] = grants
	rep.Extra["semaphore_steps_with_blocked_waiter"] = blocked
	if vs.empty() && (blocked == 0 || grants == 0) {
		rep.Vacuous("vacuous: semaphore never blocked a waiter")
	}

	// --- addrlist
	A := []string{"10.0.0.1:1001", "10.0.0.2:1002", "10.9.0.3:1003", "172.16.5.4:1004"}
	ops := []alOp{}
	for _, a := range A {
		ops = append(ops, alOp{"push[" + a + "]tracker", 0, []string{a}, peersource.Tracker})
	}
	ops = append(ops,
		alOp{"push[" + A[0] + "]pex", 0, []string{A[0]}, peersource.PEX},
		alOp{"push[" + A[1] + "]pex", 0, []string{A[1]}, peersource.PEX},
		alOp{"push[" + A[0] + "," + A[1] + "," + A[2] + "]pex", 0, []string{A[0], A[1], A[2]}, peersource.PEX},
		alOp{"push[" + A[3] + "," + A[3] + "," + A[2] + "]tracker", 0, []string{A[3], A[3], A[2]}, peersource.Tracker},
		alOp{"push[port0,own-loopback,clientIP]dht", 0, []string{"10.0.0.9:0", fmt.Sprintf("127.0.0.1:%d", alListenPort), "1.2.3.4:5000"}, peersource.DHT},
		alOp{"pop", 1, nil, 0},
		alOp{"reset", 2, nil, 0},
	)
	names := make([]string, len(ops))
	for i, o := range ops {
		names[i] = o.name
	}
	// self-check: the universe has no priority collisions (a collision would make the index replace an address)
	for _, cip := range []net.IP{nil, net.IPv4(1, 2, 3, 4)} {
		c := cip
		l := addrlist.New(100, nil, alListenPort, &c)
		for i, a := range A {
			l.Push([]*net.TCPAddr{tcp(a)}, peersource.Tracker)
			if l.Len() != i+1 {
				core.HarnessError("address universe has a priority collision at %s (clientIP %v)", a, cip)
			}
		}
	}
	var alRuns int64
	var stTotal alStats
	var smu sync.Mutex
	for _, max := range []int{1, 2, 3} {
		for _, cip := range []net.IP{nil, net.IPv4(1, 2, 3, 4)} {
			stats := make([]alStats, core.Parallelism())
			n := forAllSeq(len(ops), alDepth, core.Parallelism(), func(w int, seq []int) {
				runAddrlistSeq(vs, max, cip, ops, seq, names, &stats[w])
			})
			smu.Lock()
			alRuns += n
			for _, s := range stats {
				stTotal.evictions += s.evictions
				stTotal.atCap += s.atCap
			}
			smu.Unlock()
		}
	}
	rep.Sample(8, "addrlist max=2: "+seqString(names, []int{0, 1, 6, 9, 7}))
	rep.Extra["addrlist_sequences"] = alRuns
	rep.Extra["addrlist_alphabet"] = len(ops)
	rep.Extra["addrlist_steps_with_eviction"] = stTotal.evictions
	rep.Extra["addrlist_steps_at_cap"] = stTotal.atCap
	if vs.empty() && (stTotal.evictions == 0) {
		rep.Vacuous("vacuous: addrlist never had to evict")
	}
	rep.Evaluations = semRuns + alRuns
	rep.Distinct = semRuns + alRuns
	vs.flush(rep)
	rep.Finish()
}

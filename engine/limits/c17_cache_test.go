//go:build verif

package limits

import (
	"errors"
	"fmt"
	"os"
	"os/exec"
	"strings"
	"sync"
	"sync/atomic"
	"testing"
	"testing/synctest"
	"time"

	"github.com/cenkalti/rain/v2/internal/logger"
	"github.com/cenkalti/rain/v2/internal/piececache"
	"github.com/cenkalti/rain/v2/zzverif/core"
	metrics "github.com/rcrowley/go-metrics"
)

const pcTTL = 10 * time.Second

type pcOp struct {
	name string
	kind int // 0 Get(key,size) 1 Get(key,error) 2 Begin(key) 3 Finish(size) 4 advance 5 Clear
	key  string
	size int
	d    time.Duration
}

var errLoader = errors.New("loader failed")

type pcStats struct {
	loads, hits, evictSteps, expirySteps, tooLarge, splitFinishOnLoaded, atMax, poisoned int64
}

func pcRun(t *testing.T, vs *vset, max int64, ops []pcOp, names []string, seq []int, st *pcStats) {
	desc := func() string {
		return fmt.Sprintf("piececache(maxSize=%d, ttl=%v) ops [%s]", max, pcTTL, seqString(names, seq))
	}
	fail := func(oracle, f string, a ...any) {
		vs.add("C17.cache."+oracle, desc()+": "+fmt.Sprintf(f, a...), map[string]any{"max": max, "ops": seq}, len(seq))
	}
	synctest.Test(t, func(t *testing.T) {
		c := piececache.New(max, pcTTL, 1)
		produced := map[string]map[string]bool{} // key -> values ever produced by a loader for that key
		loadNo := 0
		var handles []piececache.VerifC17Handle
		var handleKeys []string
		quietSince := time.Now() // last time anything touched the cache
		poisoned := false
		step, opName := 0, ""
		defer func() {
			if r := recover(); r != nil {
				fail("panic."+topRepoFrame(stackOf()), "step %d %s: panic: %v", step, opName, r)
			}
		}()
		get := func(key string, size int, wantErr bool, h *piececache.VerifC17Handle) {
			invoked := false
			var mine []byte
			loader := func() ([]byte, error) {
				invoked = true
				loadNo++
				if wantErr {
					return nil, errLoader
				}
				mine = make([]byte, size)
				for i := range mine {
					mine[i] = byte(loadNo)
				}
				if produced[key] == nil {
					produced[key] = map[string]bool{}
				}
				produced[key][string(mine)] = true
				return mine, nil
			}
			var v []byte
			var err error
			if h != nil {
				v, err = c.VerifC17GetValue(*h, loader)
			} else {
				v, err = c.Get(key, loader)
			}
			switch {
			case invoked && wantErr:
				if err != errLoader {
					fail("get.result", "step %d %s: loader failed but Get returned (%d bytes, %v)", step, opName, len(v), err)
				}
			case invoked:
				st.loads++
				if err != nil || string(v) != string(mine) {
					fail("get.result", "step %d %s: loader returned %d bytes, Get returned (%d bytes, %v)", step, opName, len(mine), len(v), err)
				}
				if int64(size) > max {
					st.tooLarge++
				}
			default:
				st.hits++
				if err == errLoader {
					break // the item was loaded with an error by the call that shared it
				}
				if err != nil || !produced[key][string(v)] {
					fail("get.result", "step %d %s: served from cache (%d bytes, err=%v) but no loader for key %s ever produced that value", step, opName, len(v), err, key)
				}
				if h != nil {
					st.splitFinishOnLoaded++
					// the hit path re-arms the item's expiry timer: the item must still be linked where it says it is
					if ok, idx, n, _ := c.VerifC17Linked(*h); !ok {
						fail("timer-rearmed-on-unlinked-item", "step %d %s: Get's second half re-armed the expiry timer of an item that is no longer in the LRU list "+
							"(item.index=%d, list length %d); when the timer fires removeItem removes position %d: index-out-of-range panic in the timer goroutine "+
							"(process crash) or another entry is dropped and size is decremented twice", step, opName, idx, n, idx)
						poisoned = true
					}
				}
			}
		}
		for si, oi := range seq {
			op := ops[oi]
			step, opName = si, op.name
			prevSize := c.Size()
			switch op.kind {
			case 0:
				get(op.key, op.size, false, nil)
				quietSince = time.Now()
			case 1:
				get(op.key, 0, true, nil)
				quietSince = time.Now()
			case 2:
				if len(handles) < 2 {
					handles = append(handles, c.VerifC17GetItem(op.key))
					handleKeys = append(handleKeys, op.key)
					quietSince = time.Now()
				}
			case 3:
				if len(handles) > 0 {
					h, k := handles[0], handleKeys[0]
					handles, handleKeys = handles[1:], handleKeys[1:]
					get(k, op.size, false, &h)
					quietSince = time.Now()
				}
			case 4:
				// +1ns: every expiry timer due at now+d has fired and finished before this goroutine wakes up
				time.Sleep(op.d + time.Nanosecond)
				synctest.Wait()
			case 5:
				c.Clear()
			}
			if poisoned {
				// do not let virtual time reach the stale timer: it would crash the process from a runtime goroutine
				st.poisoned++
				c.Close()
				return
			}
			synctest.Wait()
			// ---- invariants
			size, maxSize, items, lru, lruBytes := c.VerifC17Snapshot()
			if size > maxSize {
				fail("over-limit", "step %d %s: cache size %d > max %d", step, opName, size, maxSize)
			}
			if size < 0 {
				fail("negative", "step %d %s: cache size %d", step, opName, size)
			}
			if size != lruBytes {
				fail("accounting", "step %d %s: size counter %d but the %d cached entries hold %d bytes", step, opName, size, lru, lruBytes)
			}
			if c.Size() != size {
				fail("accounting", "step %d %s: Size()=%d counter=%d", step, opName, c.Size(), size)
			}
			if op.kind == 5 && (size != 0 || len(items) != 0 || lru != 0) {
				fail("clear", "step %d %s: after Clear size=%d items=%d lru=%d", step, opName, size, len(items), lru)
			}
			if size == maxSize && maxSize > 0 {
				st.atMax++
			}
			if (op.kind == 0 || op.kind == 3) && size < prevSize+int64(op.size) && lru > 0 && prevSize > 0 && size >= int64(op.size) {
				st.evictSteps++
			}
			if op.kind == 4 && size < prevSize {
				st.expirySteps++
			}
			if len(handles) == 0 && time.Since(quietSince) >= pcTTL && (size != 0 || c.Len() != 0) {
				fail("ttl", "step %d %s: nothing touched the cache for %v (ttl %v) but size=%d Len=%d", step, opName, time.Since(quietSince), pcTTL, size, c.Len())
			}
		}
		c.Close()
		synctest.Wait()
		if c.Size() != 0 || c.Len() != 0 {
			fail("close", "after Close size=%d Len=%d", c.Size(), c.Len())
		}
	})
}

// pcParallel: gated loaders on distinct keys: LoadsActive <= parallelReads at all times, every Get returns.
func pcParallel(t *testing.T, vs *vset, pr uint, seq []int, names []string, blockedSeen *int64) {
	fail := func(oracle, f string, a ...any) {
		vs.add("C17.cache.parallel."+oracle, fmt.Sprintf("piececache(parallelReads=%d) ops [%s]: %s", pr, seqString(names, seq), fmt.Sprintf(f, a...)),
			map[string]any{"parallelReads": pr, "ops": seq}, len(seq))
	}
	synctest.Test(t, func(t *testing.T) {
		c := piececache.New(100, pcTTL, pr)
		var returned atomic.Int64
		started := 0
		var gates []chan struct{} // one per started Get, in start order
		running := 0              // model: loaders inside the semaphore
		waiting := 0
		var releaseOrder []int // indexes of gates whose loader is running (FIFO admission)
		next := 0              // next gate index to be admitted
		for step, op := range seq {
			switch {
			case op < 3: // StartGet on a fresh key
				g := make(chan struct{})
				gates = append(gates, g)
				key := fmt.Sprintf("k%d-%d", op, started)
				started++
				go func() {
					c.Get(key, func() ([]byte, error) { <-g; return []byte{1}, nil })
					returned.Add(1)
				}()
				if running < int(pr) {
					running++
					releaseOrder = append(releaseOrder, next)
					next++
				} else {
					waiting++
				}
			default: // finish the oldest running loader
				if running == 0 {
					continue
				}
				gi := releaseOrder[0]
				releaseOrder = releaseOrder[1:]
				close(gates[gi])
				running--
				if waiting > 0 {
					waiting--
					running++
					releaseOrder = append(releaseOrder, next)
					next++
				}
			}
			synctest.Wait()
			if c.LoadsActive() > int(pr) {
				fail("over-limit", "step %d: %d loaders active > parallelReads", step, c.LoadsActive())
			}
			if c.LoadsActive() != running || c.LoadsWaiting() != waiting {
				fail("count", "step %d: LoadsActive=%d LoadsWaiting=%d, model %d/%d", step, c.LoadsActive(), c.LoadsWaiting(), running, waiting)
			}
			if waiting > 0 {
				atomic.AddInt64(blockedSeen, 1)
			}
		}
		// the semaphore admits in FIFO order, but to stay independent of that release every gate
		for _, g := range gates {
			select {
			case <-g:
			default:
				close(g)
			}
		}
		synctest.Wait()
		if returned.Load() != int64(started) {
			fail("lost", "after all loaders were released %d of %d Get calls returned", returned.Load(), started)
		}
		if c.LoadsActive() != 0 || c.LoadsWaiting() != 0 {
			fail("count", "end: LoadsActive=%d LoadsWaiting=%d", c.LoadsActive(), c.LoadsWaiting())
		}
		c.Close()
	})
}

// TestC17CacheCrashProbe is run by TestC17Cache in a child process: the minimal history that re-arms the
// expiry timer of an item dropped by Clear, followed by the TTL. On the defective tree the child dies with
// an index-out-of-range panic raised in the timer goroutine (nothing in-process can recover that).
func TestC17CacheCrashProbe(t *testing.T) {
	if os.Getenv("VERIF_C17_CACHE_PROBE") == "" {
		t.Skip("child-process probe")
	}
	metrics.UseNilMetrics = true
	synctest.Test(t, func(t *testing.T) {
		c := piececache.New(3, pcTTL, 1)
		ld := func() ([]byte, error) { return []byte{1, 2}, nil }
		h := c.VerifC17GetItem("k0") // first half of a concurrent Get
		c.Get("k0", ld)              // another caller loads and caches the item
		c.Clear()                    // session shutdown drops everything
		c.VerifC17GetValue(h, ld)    // second half: hit path, timer re-armed
		time.Sleep(2 * pcTTL)
		synctest.Wait()
	})
	fmt.Println("PROBE-SURVIVED")
}

func cacheCrashProbe() (crashed bool, firstLine string) {
	cmd := exec.Command(os.Args[0], "-test.run", "^TestC17CacheCrashProbe$", "-test.timeout", "60s")
	cmd.Env = append(os.Environ(), "VERIF_C17_CACHE_PROBE=1")
	out, err := cmd.CombinedOutput()
	if err == nil || strings.Contains(string(out), "PROBE-SURVIVED") {
		return false, ""
	}
	for _, ln := range strings.Split(string(out), "\n") {
		if strings.HasPrefix(ln, "panic:") {
			return true, ln
		}
	}
	return true, "child exited: " + err.Error()
}

func TestC17Cache(t *testing.T) {
	logger.Disable()
	metrics.UseNilMetrics = true // the meters' global ticker goroutine must not be born inside a bubble
	rep := core.NewReport("C17", "piececache", "exploration")
	depth := 5
	if core.Thorough() {
		depth = 6
	}
	ops := []pcOp{
		{"Get(k0,2B)", 0, "k0", 2, 0}, {"Get(k1,2B)", 0, "k1", 2, 0}, {"Get(k2,1B)", 0, "k2", 1, 0},
		{"Get(k0,4B)", 0, "k0", 4, 0}, {"Get(k1,5B)", 0, "k1", 5, 0}, {"Get(k2,loader-error)", 1, "k2", 0, 0},
		{"Begin(k0)", 2, "k0", 0, 0}, {"Begin(k1)", 2, "k1", 0, 0},
		{"FinishOldest(2B)", 3, "", 2, 0}, {"FinishOldest(5B)", 3, "", 5, 0},
		{"Advance(ttl/2)", 4, "", 0, pcTTL / 2}, {"Advance(ttl)", 4, "", 0, pcTTL},
		{"Clear", 5, "", 0, 0},
	}
	names := make([]string, len(ops))
	for i, o := range ops {
		names[i] = o.name
	}
	rep.Rule = fmt.Sprintf("every sequence of length 1..%d over {Get(3 keys; loaders returning 1,2,4,5 bytes or an error), Begin(key)=first half of Get (item lookup), "+
		"FinishOldest(size)=second half of Get on the oldest begun call (so eviction, expiry, Clear and other Gets interleave between the halves of a Get exactly as with a concurrent caller), "+
		"Advance(ttl/2), Advance(ttl) in virtual time, Clear} x maxSize in {0,3,4} bytes, in synctest bubbles; after every step size == bytes of cached entries, 0<=size<=max, Get returns its loader's "+
		"data or a value produced earlier for the same key, everything expires after ttl of silence; plus every sequence of length 1..%d over {start Get with a gated loader on a fresh key x3, "+
		"finish oldest loader} x parallelReads in {1,2,3}: active loaders <= parallelReads. distinct = (config, sequence).", depth, depth+2)
	rep.Assumptions = []string{"a Get is split only at its single lock-release point (between getItem and getValue); finer interleavings inside the critical sections are excluded by the cache mutex",
		"hit/miss behaviour and LRU victim choice are not constrained (not part of C17), only accounting, the limit, returned bytes and expiry",
		"at most 2 Gets are in their first half at the same time"}
	vs := newVset()
	var mu sync.Mutex
	var runs int64
	var st pcStats
	type cfg struct {
		max   int64
		first int
	}
	var cfgs []cfg
	for _, m := range []int64{0, 3, 4} {
		for f := range ops {
			cfgs = append(cfgs, cfg{m, f})
		}
	}
	parallelShards(t, len(cfgs), func(t *testing.T, shard int) {
		c := cfgs[shard]
		var l pcStats
		var n int64
		seqsWithFirst(len(ops), depth, c.first, func(seq []int) {
			pcRun(t, vs, c.max, ops, names, seq, &l)
			n++
			if n%30000 == 99 {
				rep.Sample(8, fmt.Sprintf("max=%d: %s", c.max, seqString(names, seq)))
			}
		})
		mu.Lock()
		runs += n
		st.loads += l.loads
		st.hits += l.hits
		st.evictSteps += l.evictSteps
		st.expirySteps += l.expirySteps
		st.tooLarge += l.tooLarge
		st.splitFinishOnLoaded += l.splitFinishOnLoaded
		st.atMax += l.atMax
		st.poisoned += l.poisoned
		mu.Unlock()
	})
	// parallel reads
	pnames := []string{"StartGet(a)", "StartGet(b)", "StartGet(c)", "FinishOldestLoader"}
	var pruns, blocked int64
	parallelShards(t, 3*4, func(t *testing.T, shard int) {
		pr := uint(shard/4 + 1)
		var n int64
		seqsWithFirst(4, depth+2, shard%4, func(seq []int) {
			pcParallel(t, vs, pr, seq, pnames, &blocked)
			n++
		})
		mu.Lock()
		pruns += n
		mu.Unlock()
	})
	rep.Evaluations = runs + pruns
	rep.Distinct = runs + pruns
	rep.Extra["cache_sequences"] = runs
	rep.Extra["cache_loader_calls"] = st.loads
	rep.Extra["cache_hits"] = st.hits
	rep.Extra["cache_steps_with_eviction"] = st.evictSteps
	rep.Extra["cache_steps_with_expiry"] = st.expirySteps
	rep.Extra["cache_values_larger_than_cache"] = st.tooLarge
	rep.Extra["cache_second_half_on_already_loaded_item"] = st.splitFinishOnLoaded
	rep.Extra["cache_steps_at_max"] = st.atMax
	rep.Extra["cache_sequences_cut_at_stale_timer"] = st.poisoned
	rep.Extra["cache_parallel_sequences"] = pruns
	rep.Extra["cache_parallel_steps_with_waiting_loader"] = blocked
	if st.poisoned > 0 {
		crashed, line := cacheCrashProbe()
		rep.Extra["cache_stale_timer_child_process_crashed"] = crashed
		rep.Extra["cache_stale_timer_child_process_panic"] = line
	}
	if vs.empty() && (st.loads == 0 || st.hits == 0 || st.expirySteps == 0 || st.atMax == 0 || blocked == 0) {
		rep.Vacuous("vacuous cache run: %+v blocked=%d", st, blocked)
	}
	vs.flush(rep)
	rep.Finish()
}

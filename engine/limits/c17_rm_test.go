//go:build verif

package limits

import (
	"fmt"
	"os"
	"sort"
	"strings"
	"sync"
	"sync/atomic"
	"testing"
	"testing/synctest"

	"github.com/cenkalti/rain/v2/internal/logger"
	"github.com/cenkalti/rain/v2/internal/resourcemanager"
	"github.com/cenkalti/rain/v2/zzverif/core"
)

// ---------------------------------------------------------------------------------------------
// C17 / ResourceManager: the real actor (run loop + selects) inside a synctest bubble, one stimulus
// at a time, synctest.Wait() between stimuli, checked against a ledger (who holds what).

type rmClient struct {
	key string
	ch  int // index of the notify channel the client passes
}

type rmCfg struct {
	name    string
	L       int64
	clients []rmClient
	nch     int
	merge   bool // deterministic configuration: breadth-first with state merging
	less    int  // flat configurations: explore to depthFlat-less
}

type rmOp struct {
	name   string
	kind   int // 0 Request(open cancel) 1 Request(cancel closed before, caller slow) 2 CloseCancel 3 Receive 4 Release 5 Stats 6 Close
	client int
	n      int64
	ch     int
}

const (
	rmReq = iota
	rmReqPre
	rmCancel
	rmRecv
	rmRelease
	rmStats
	rmClose
)

func rmOps(cfg rmCfg) []rmOp {
	var ops []rmOp
	for c := range cfg.clients {
		for _, n := range []int64{1, cfg.L, cfg.L + 1} {
			ops = append(ops, rmOp{fmt.Sprintf("c%d.Request(n=%d)", c, n), rmReq, c, n, 0})
		}
		ops = append(ops, rmOp{fmt.Sprintf("c%d.Request(n=1,cancel-closed-before,manager-first)", c), rmReqPre, c, 1, 0})
		ops = append(ops, rmOp{fmt.Sprintf("c%d.CloseCancel", c), rmCancel, c, 0, 0})
	}
	for ch := 0; ch < cfg.nch; ch++ {
		ops = append(ops, rmOp{fmt.Sprintf("Receive(notify%d)", ch), rmRecv, 0, 0, ch})
	}
	ops = append(ops, rmOp{"ReleaseOldestGrant", rmRelease, 0, 0, 0}, rmOp{"Stats", rmStats, 0, 0, 0}, rmOp{"Close", rmClose, 0, 0, 0})
	return ops
}

type rmReqRec struct {
	id      int
	client  int
	n       int64
	cancelC chan struct{}
	closed  bool   // cancel channel closed
	status  string // calling queued held released cancelled lost refused
}

type rmResult struct {
	keys     []string // state key after every step (for replay check); last one is the node's state
	tuple    string   // (available, queue, grants) after the last step
	aborted  bool
	flip     bool // pre-closed-cancel request was answered on the done channel: not the schedule this op stands for
	lockups  int
	starved  bool
	notified int
	cancels  int
	acquired int
}

type rmShared struct {
	vs                                                                     *vset
	lockupSeen, cancelVanish, notifies, starve, direct, preReturned, flips atomic.Int64
}

// rmExec executes seq on a fresh manager. Oracles fire on every step when checkAll, else on the last step only.
func rmExec(t *testing.T, sh *rmShared, cfg rmCfg, ops []rmOp, names []string, seq []int, checkAll bool) (res rmResult) {
	for try := 0; try < 50; try++ {
		res = rmExecOnce(t, sh, cfg, ops, names, seq, checkAll)
		if !res.flip {
			return res
		}
		sh.flips.Add(1)
	}
	core.HarnessError("cannot drive the cancel-branch schedule deterministically: ops [%s]", seqString(names, seq))
	return
}

func rmExecOnce(t *testing.T, sh *rmShared, cfg rmCfg, ops []rmOp, names []string, seq []int, checkAll bool) (res rmResult) {
	desc := func() string {
		return fmt.Sprintf("resourcemanager(limit=%d, %s) ops [%s]", cfg.L, cfg.name, seqString(names, seq))
	}
	step, opName := 0, ""
	active := true
	var pendingViolations []func()
	broken := false
	fail := func(oracle, f string, a ...any) {
		if strings.HasPrefix(oracle, "accounting") || strings.HasPrefix(oracle, "bounds") || strings.HasPrefix(oracle, "queue") || strings.HasPrefix(oracle, "notify") {
			broken = true // the books are wrong: stop the script before the manager's own assertions panic in its goroutine
		}
		if !active {
			return
		}
		key, d := "C17.rm."+oracle, desc()+": step "+fmt.Sprint(step)+" "+opName+": "+fmt.Sprintf(f, a...)
		pendingViolations = append(pendingViolations, func() {
			sh.vs.add(key, d, map[string]any{"config": cfg.name, "limit": cfg.L, "ops": seq}, len(seq))
		})
	}
	defer func() {
		if !res.flip { // a discarded execution (see rmExec) reports nothing: the same schedule is enumerated as Request(open);CloseCancel
			for _, f := range pendingViolations {
				f()
			}
		}
	}()
	synctest.Test(t, func(t *testing.T) {
		m := resourcemanager.New[int](cfg.L)
		notify := make([]chan int, cfg.nch)
		for i := range notify {
			notify[i] = make(chan int)
		}
		kill := make(chan struct{})
		var mu sync.Mutex // guards the slices written by helper goroutines
		var recs []*rmReqRec
		var held []int // ids, grant order
		armed := make([]int, cfg.nch)
		type rcv struct {
			ch  int
			got int // -1 nothing yet
		}
		var receivers []*rcv
		closed := false
		lost := 0
		// simulated layout of the manager's small map (first empty slot on insert, slot order iteration)
		var slots [8]string
		mapInsert := func(k string) {
			for _, s := range slots {
				if s == k {
					return
				}
			}
			for i, s := range slots {
				if s == "" {
					slots[i] = k
					return
				}
			}
		}
		mapSync := func(present map[string]bool) {
			for i, s := range slots {
				if s != "" && !present[s] {
					slots[i] = ""
				}
			}
		}
		availModel := func() int64 {
			a := cfg.L
			for _, id := range held {
				a -= recs[id].n
			}
			return a
		}
		type call struct {
			done atomic.Bool
			ok   bool
		}
		stuckCalls := map[int]*call{}
		checkStuckReturned := func() {
			for id, c := range stuckCalls {
				if !c.done.Load() {
					fail("lockup.after-close", "request #%d is still blocked after Close", id)
				}
			}
		}
		reconcile := func() {
			// notifications delivered since the last look
			mu.Lock()
			for _, r := range receivers {
				if r.got >= 0 {
					id := r.got
					r.got = -2 // consumed
					armed[r.ch]--
					res.notified++
					sh.notifies.Add(1)
					if id >= len(recs) || recs[id].status != "queued" {
						st := "unknown"
						if id < len(recs) {
							st = recs[id].status
						}
						fail("notify.not-queued", "a notification for request #%d arrived, whose status is %s (granted twice / granted after cancel was processed / never queued)", id, st)
						continue
					}
					if cfg.clients[recs[id].client].ch != r.ch {
						fail("notify.wrong-channel", "request #%d was notified on channel %d", id, r.ch)
					}
					recs[id].status = "held"
					held = append(held, id)
				}
			}
			mu.Unlock()
			if closed {
				return
			}
			limit, avail, objects, q := m.VerifC17Snapshot()
			ids := m.VerifC17QueuedData()
			inQ := map[int]int{}
			for _, id := range ids {
				inQ[id]++
			}
			present := map[string]bool{}
			for _, e := range q {
				present[e.Key] = true
			}
			for id, c := range inQ {
				if c > 1 {
					fail("queue.duplicate", "request #%d is queued %d times", id, c)
				}
				if id >= len(recs) || recs[id].status != "queued" {
					fail("queue.ghost", "request #%d is in the manager's queue but its status is not queued", id)
				}
			}
			for _, r := range recs {
				if r.status == "queued" && inQ[r.id] == 0 {
					if r.closed {
						r.status = "cancelled"
						res.cancels++
						sh.cancelVanish.Add(1)
					} else {
						fail("queue.vanished", "request #%d (n=%d) left the queue without a grant although its cancel channel is open", r.id, r.n)
						r.status = "cancelled"
					}
				}
			}
			for _, r := range recs {
				if r.status == "queued" {
					mapInsert(cfg.clients[r.client].key)
				}
			}
			mapSync(present)
			if cfg.merge {
				var simOrder []string
				for _, k := range slots {
					if k != "" {
						simOrder = append(simOrder, k)
					}
				}
				if real := m.VerifC17KeyOrder(); fmt.Sprint(real) != fmt.Sprint(simOrder) {
					core.HarnessError("map layout simulation wrong: real iteration order %v, simulated %v (ops [%s])", real, simOrder, seqString(names, seq))
				}
			}
			if limit != cfg.L {
				fail("limit", "limit changed to %d", limit)
			}
			if avail < 0 || avail > limit {
				fail("bounds", "available=%d outside [0,%d]", avail, limit)
			}
			if objects < 0 {
				fail("bounds", "allocated objects=%d", objects)
			}
			if avail != availModel() {
				fail("accounting.available", "available=%d but the clients hold %v => %d", avail, heldNs(held, recs), availModel())
			}
			if objects != len(held) {
				fail("accounting.objects", "allocated objects=%d but %d grants are held", objects, len(held))
			}
			// information only: an armed receiver, a satisfiable queued request, and nothing happens
			for _, r := range recs {
				if r.status == "queued" && r.n <= avail && armed[cfg.clients[r.client].ch] > 0 {
					res.starved = true
				}
			}
		}
		stateKey := func() string {
			var sb strings.Builder
			_, avail, objects, _ := m.VerifC17Snapshot()
			fmt.Fprintf(&sb, "c%v a%d o%d h%v q[", closed, avail, objects, heldNs(held, recs))
			var qs []string
			for _, r := range recs {
				if r.status == "queued" {
					qs = append(qs, fmt.Sprintf("%d:%d:%v", r.client, r.n, r.closed))
				}
			}
			sort.Strings(qs)
			sb.WriteString(strings.Join(qs, ","))
			fmt.Fprintf(&sb, "] r%v l%d m%v", armed, lost, slots)
			if cfg.merge && !closed {
				k, n, ok := m.VerifC17PeekPick()
				fmt.Fprintf(&sb, " p%s:%d:%v", k, n, ok)
			}
			return sb.String()
		}
		tuple := func() string {
			_, avail, _, q := m.VerifC17Snapshot()
			return fmt.Sprintf("a%d q%v g%v", avail, q, heldNs(held, recs))
		}
		finish := func() {
			// script releases everything it holds; the books must balance
			active = true
			step, opName = len(seq), "end-of-script"
			if res.flip || broken { // execution is discarded / books already wrong: just shut down
				if !closed {
					go m.Close()
				}
				close(kill)
				synctest.Wait()
				return
			}
			if !closed {
				for guard := 0; len(held) > 0 && guard < 64 && !broken; guard++ {
					id := held[0]
					held = held[1:]
					recs[id].status = "released"
					m.Release(recs[id].n)
					synctest.Wait()
					reconcile()
				}
				_, avail, objects, _ := m.VerifC17Snapshot()
				if !broken && (avail != cfg.L || objects != 0) {
					fail("balance.end", "after releasing every grant available=%d (limit %d) objects=%d", avail, cfg.L, objects)
				}
				var cdone atomic.Bool
				go func() { m.Close(); cdone.Store(true) }()
				synctest.Wait()
				if !cdone.Load() {
					fail("lockup.close", "Close did not return")
				}
				checkStuckReturned()
			}
			close(kill)
			synctest.Wait()
		}
		for si, oi := range seq {
			op := ops[oi]
			step, opName = si, op.name
			active = checkAll || si == len(seq)-1
			cl := cfg.clients[op.client]
			c := &call{}
			var rec *rmReqRec
			switch op.kind {
			case rmReq, rmReqPre:
				if cfg.merge { // at most one queued request per key keeps the manager's pick deterministic
					busy := false
					for _, r := range recs {
						if r.client == op.client && r.status == "queued" {
							busy = true
						}
					}
					if busy {
						res.aborted = true // op disabled in this state
					}
				}
				if res.aborted {
					break
				}
				rec = &rmReqRec{id: len(recs), client: op.client, n: op.n, cancelC: make(chan struct{}), status: "calling"}
				recs = append(recs, rec)
				before := availModel()
				if op.kind == rmReq {
					go func() { c.ok = m.Request(cl.key, rec.id, rec.n, notify[cl.ch], rec.cancelC); c.done.Store(true) }()
					synctest.Wait()
				} else {
					close(rec.cancelC)
					rec.closed = true
					// Park the manager (a Stats caller that is slow to receive), let the REAL Request park on the
					// manager's request channel, then let the manager continue: it receives the request and evaluates
					// handleRequest's select while the caller is merely runnable, so only the cancel case is ready.
					resume := m.VerifC17HoldManager()
					go func() { c.ok = m.Request(cl.key, rec.id, rec.n, notify[cl.ch], rec.cancelC); c.done.Store(true) }()
					synctest.Wait()
					if resume != nil {
						resume()
					}
					synctest.Wait()
					if !closed && c.done.Load() {
						inQueue := false
						for _, id := range m.VerifC17QueuedData() {
							if id == rec.id {
								inQueue = true
							}
						}
						if c.ok || inQueue {
							res.flip = true // the scheduler resolved the race the other way (caller reached its inner select first)
						}
					}
				}
				switch {
				case !c.done.Load():
					rec.status = "lost"
					stuckCalls[rec.id] = c
					lost++
					res.lockups++
					sh.lockupSeen.Add(1)
					if op.kind == rmReqPre {
						fail("lockup.request-cancel-branch", "Request never returns: the manager took the cancel branch in handleRequest (cancel channel already closed) "+
							"and nobody will ever answer on the request's done channel; the caller stays blocked until Close")
					} else {
						fail("lockup.request", "Request did not return at quiescence")
					}
				case op.kind == rmReqPre && !closed && !c.ok && !res.flip:
					rec.status = "cancelled" // cancel branch taken and the caller was released: what the property asks for
					sh.preReturned.Add(1)
				case closed:
					rec.status = "refused"
					if c.ok {
						fail("request.after-close", "Request returned true after Close")
					}
				case c.ok:
					if rec.n > before {
						fail("request.result", "Request(n=%d) acquired although only %d were available", rec.n, before)
					}
					rec.status = "held"
					held = append(held, rec.id)
					res.acquired++
					sh.direct.Add(1)
				default:
					if op.kind == rmReq && rec.n <= before {
						fail("request.result", "Request(n=%d) was refused although %d were available", rec.n, before)
					}
					rec.status = "queued"
				}
			case rmCancel:
				for _, r := range recs {
					if r.client == op.client && r.status == "queued" && !r.closed {
						close(r.cancelC)
						r.closed = true
						break
					}
				}
				synctest.Wait()
			case rmRecv:
				if armed[op.ch] == 0 {
					r := &rcv{ch: op.ch, got: -1}
					receivers = append(receivers, r)
					armed[op.ch]++
					go func() {
						select {
						case d := <-notify[op.ch]:
							mu.Lock()
							r.got = d
							mu.Unlock()
						case <-kill:
						}
					}()
				}
				synctest.Wait()
			case rmRelease:
				if len(held) > 0 {
					id := held[0]
					held = held[1:]
					recs[id].status = "released"
					go func() { m.Release(recs[id].n); c.done.Store(true) }()
					synctest.Wait()
					if !c.done.Load() {
						fail("lockup.release", "Release did not return")
						res.aborted = true
					}
				}
			case rmStats:
				var s resourcemanager.Stats
				// the manager is quiescent and Stats is the only stimulus: the answer describes the state BEFORE
				// the step (answering may be followed by a new pick and a grant, which the answer cannot contain)
				_, avail0, objects0, q0 := m.VerifC17Snapshot()
				go func() { s = m.Stats(); c.done.Store(true) }()
				synctest.Wait()
				if !c.done.Load() {
					fail("lockup.stats", "Stats did not return")
					res.aborted = true
				} else if !closed {
					pk := map[string]bool{}
					for _, e := range q0 {
						pk[e.Key] = true
					}
					if s.AllocatedSize != cfg.L-avail0 || s.AllocatedObjects != objects0 || s.PendingKeys != len(pk) {
						fail("stats", "Stats()=%+v but allocated=%d objects=%d pending keys=%d", s, cfg.L-avail0, objects0, len(pk))
					}
					if s.AllocatedSize < 0 || s.AllocatedSize > cfg.L || s.AllocatedObjects < 0 {
						fail("stats.bounds", "Stats()=%+v outside the limit %d", s, cfg.L)
					}
				} else if s != (resourcemanager.Stats{}) {
					fail("stats.after-close", "Stats()=%+v after Close", s)
				}
			case rmClose:
				if closed {
					res.aborted = true // double Close is API misuse
					break
				}
				go func() { m.Close(); c.done.Store(true) }()
				synctest.Wait()
				if !c.done.Load() {
					fail("lockup.close", "Close did not return")
				}
				closed = true
				// everybody who was stuck must be released by Close
				checkStuckReturned()
				lost = 0
			}
			if res.aborted || res.flip {
				break
			}
			reconcile()
			if broken {
				res.aborted = true
				break
			}
			res.keys = append(res.keys, stateKey())
		}
		if !res.aborted {
			res.tuple = tuple()
		}
		if res.starved {
			sh.starve.Add(1)
		}
		finish()
	})
	return res
}

func heldNs(held []int, recs []*rmReqRec) []int64 {
	out := make([]int64, len(held))
	for i, id := range held {
		out[i] = recs[id].n
	}
	return out
}

func TestC17Managers(t *testing.T) {
	logger.Disable()
	rep := core.NewReport("C17", "resourcemanager", "model_checking")
	depthMerge, depthFlat := 6, 5
	if core.Thorough() {
		depthMerge, depthFlat = 7, 6
	}
	cfgs := []rmCfg{
		{"2 clients, own key and notify channel each", 2, []rmClient{{"A", 0}, {"B", 1}}, 2, true, 0},
		{"2 clients, own key and notify channel each", 1, []rmClient{{"A", 0}, {"B", 1}}, 2, true, 0},
		{"2 clients sharing key and notify channel", 2, []rmClient{{"A", 0}, {"A", 0}}, 1, false, 0},
	}
	if core.Thorough() {
		cfgs = append(cfgs,
			rmCfg{"3 clients, own key and notify channel each", 2, []rmClient{{"A", 0}, {"B", 1}, {"C", 2}}, 3, true, 0},
			rmCfg{"3 clients: two share key+channel, one separate", 2, []rmClient{{"A", 0}, {"A", 0}, {"B", 1}}, 2, false, 1})
	}
	rep.Rule = fmt.Sprintf("real ResourceManager actor in a synctest bubble, ONE stimulus at a time with synctest.Wait() between stimuli. Alphabet per client {Request(n=1|limit|limit+1) with an open cancel channel, "+
		"Request(n=1) through the public API with a cancel channel closed before the call, scheduled so that the manager evaluates handleRequest's select before the caller reaches its inner select "+
		"(manager parked in its stats case by a hook while the caller parks on the request channel), CloseCancel of the oldest queued request}, "+
		"per notify channel {arm one receiver}, ReleaseOldestGrant, Stats, Close. Deterministic configurations (one key per client, <=1 queued request per key, so rand.IntN(1) and the patched map order leave nothing random): "+
		"ALL sequences of length <= %d, breadth-first, sequences reaching the same state (closed, available, objects, grants, queue, armed receivers, stuck callers, map slot layout, manager's current pick) merged, "+
		"every transition re-executed from a fresh manager with a replay-divergence check. Shared-key configurations (rain's usage; math/rand pick among same-key requests is not pinned): ALL sequences of length <= %d (3-client mixed configuration: one less), "+
		"each executed once, ledger oracle accepts any pick. states = distinct (available, queue, grants) tuples observed; transitions = steps executed; distinct = distinct merge states + flat sequences.", depthMerge, depthFlat)
	rep.Assumptions = []string{
		"one stimulus at a time: interleavings in which two external events are simultaneously ready at the manager's select are covered only through the sequential orders of the same events (both orders are in the space)",
		"the pre-closed-cancel request stands for the schedule `manager first`; the other resolution of that race (caller first, manager answers on the done channel) equals Request(open) followed by CloseCancel, which is in the alphabet; an execution in which the Go scheduler nevertheless resolved it `caller first` is discarded and repeated (counted in rm_schedule_retries)",
		"in shared-key configurations math/rand/v2 inside randomRequest is NOT pinned (plain overlay has no rand shim): which same-key request is picked is left to the runtime, the oracle accepts every pick; tuple counts there could in principle vary between runs",
		"a panic inside the manager goroutine (its own imbalance assertions) cannot be recovered in-process and aborts the part with the Go trace",
		"liveness of notifications (head-of-line blocking by the random pick / `break`) is not part of C17 and only counted",
	}
	sh := &rmShared{vs: newVset()}
	tuples := map[string]bool{}
	var tmu sync.Mutex
	var execs, transitions, mergeStates, flatSeqs, disabled int64
	for _, cfg := range cfgs {
		ops := rmOps(cfg)
		names := make([]string, len(ops))
		for i, o := range ops {
			names[i] = o.name
		}
		if !cfg.merge {
			var mu sync.Mutex
			parallelShards(t, len(ops), func(t *testing.T, shard int) {
				var n, tr, dis int64
				local := map[string]bool{}
				seqsWithFirst(len(ops), depthFlat-cfg.less, shard, func(seq []int) {
					r := rmExec(t, sh, cfg, ops, names, seq, true)
					n++
					tr += int64(len(seq))
					if r.aborted {
						dis++
						return
					}
					local[r.tuple] = true
				})
				mu.Lock()
				execs += n
				flatSeqs += n
				transitions += tr
				disabled += dis
				mu.Unlock()
				tmu.Lock()
				for k := range local {
					tuples[k] = true
				}
				tmu.Unlock()
			})
			continue
		}
		// breadth-first with merging
		type node struct {
			path []int
			key  string
		}
		seen := map[string]bool{}
		level := []node{{nil, ""}}
		for k := 0; k < depthMerge && len(level) > 0; k++ {
			type cand struct {
				ni, oi int
				r      rmResult
			}
			W := core.Parallelism()
			outs := make([][]cand, W)
			parallelShards(t, W, func(t *testing.T, w int) {
				for ni := w; ni < len(level); ni += W {
					for oi := range ops {
						seq := append(append(make([]int, 0, len(level[ni].path)+1), level[ni].path...), oi)
						r := rmExec(t, sh, cfg, ops, names, seq, false)
						outs[w] = append(outs[w], cand{ni, oi, r})
					}
				}
			})
			var all []cand
			for _, o := range outs {
				all = append(all, o...)
			}
			sort.Slice(all, func(i, j int) bool {
				if all[i].ni != all[j].ni {
					return all[i].ni < all[j].ni
				}
				return all[i].oi < all[j].oi
			})
			var next []node
			for _, c := range all {
				execs++
				transitions += int64(len(level[c.ni].path) + 1)
				if c.r.aborted {
					disabled++
					continue
				}
				if n := len(level[c.ni].path); n > 0 && c.r.keys[n-1] != level[c.ni].key {
					core.HarnessError("nondeterministic replay in %q: prefix [%s] reached %q, earlier %q", cfg.name, seqString(names, level[c.ni].path), c.r.keys[n-1], level[c.ni].key)
				}
				tuples[c.r.tuple] = true
				key := c.r.keys[len(c.r.keys)-1]
				if seen[key] {
					continue
				}
				seen[key] = true
				mergeStates++
				seq := append(append([]int(nil), level[c.ni].path...), c.oi)
				next = append(next, node{seq, key})
				if mergeStates%400 == 1 {
					rep.Sample(10, fmt.Sprintf("%s limit=%d: [%s] => %s", cfg.name, cfg.L, seqString(names, seq), key))
				}
			}
			if os.Getenv("VERIF_DEBUG") != "" {
				fmt.Printf("rm %s L=%d level %d: nodes=%d new=%d\n", cfg.name, cfg.L, k+1, len(level), len(next))
			}
			level = next
		}
	}
	rep.Evaluations = execs
	rep.TracesImpl = execs
	rep.Transitions = transitions
	rep.States = int64(len(tuples))
	rep.Distinct = mergeStates + flatSeqs
	rep.Extra["rm_merge_states"] = mergeStates
	rep.Extra["rm_flat_sequences_shared_key"] = flatSeqs
	rep.Extra["rm_ops_disabled_in_state"] = disabled
	rep.Extra["rm_callers_stuck_observed"] = sh.lockupSeen.Load()
	rep.Extra["rm_requests_removed_by_cancel"] = sh.cancelVanish.Load()
	rep.Extra["rm_notifications_delivered"] = sh.notifies.Load()
	rep.Extra["rm_direct_grants"] = sh.direct.Load()
	rep.Extra["rm_precancelled_requests_that_returned"] = sh.preReturned.Load()
	rep.Extra["rm_schedule_retries"] = sh.flips.Load()
	rep.Extra["rm_executions_with_satisfiable_request_and_armed_receiver_but_no_grant"] = sh.starve.Load()
	if sh.vs.empty() && (sh.cancelVanish.Load() == 0 || sh.notifies.Load() == 0 || sh.direct.Load() == 0) {
		rep.Vacuous("vacuous resourcemanager run")
	}
	rmRealAPIConfirmation(t, rep)
	sh.vs.flush(rep)
	rep.Finish()
}

// rmRealAPIConfirmation runs the minimal history through the UNMODIFIED public API (no hook): fresh
// manager, Request(n=1) with an already closed cancel channel. Which of handleRequest's two ready
// cases the runtime picks is random, so the history is repeated; only booleans are reported.
func rmRealAPIConfirmation(t *testing.T, rep *core.Report) {
	var stuck, returned int
	for i := 0; i < 64; i++ {
		synctest.Test(t, func(t *testing.T) {
			m := resourcemanager.New[int](1)
			cancel := make(chan struct{})
			close(cancel)
			var done atomic.Bool
			go func() { m.Request("k", 1, 1, make(chan int), cancel); done.Store(true) }()
			synctest.Wait()
			if done.Load() {
				returned++
			} else {
				stuck++
			}
			m.Close()
			synctest.Wait()
		})
	}
	rep.Extra["rm_public_api_minimal_history_stuck_observed"] = stuck > 0
	rep.Extra["rm_public_api_minimal_history_returned_observed"] = returned > 0
}

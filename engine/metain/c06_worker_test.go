//go:build verif

package metain

import (
	"bytes"
	"encoding/json"
	"errors"
	"fmt"
	"io"
	"os"
	"path/filepath"
	"regexp"
	"runtime"
	"runtime/debug"
	"runtime/metrics"
	"runtime/pprof"
	"strconv"
	"strings"
	"syscall"
	"time"

	"github.com/cenkalti/rain/v2/internal/allocator"
	"github.com/cenkalti/rain/v2/internal/metainfo"
	"github.com/cenkalti/rain/v2/internal/piece"
	"github.com/cenkalti/rain/v2/internal/resumer/boltdbresumer"
	"github.com/cenkalti/rain/v2/internal/storage"
	"github.com/cenkalti/rain/v2/torrent"
	"github.com/cenkalti/rain/v2/zzverif/core"
	"github.com/cenkalti/rain/v2/zzverif/refcodec"
	"go.etcd.io/bbolt"
)

// ---- job / result wire types

type job struct {
	Kind string `json:"k"` // "bytes" | "parse" | "construct" | "session"
	// bytes
	Prefix string `json:"px,omitempty"`
	MaxLen int    `json:"ml,omitempty"`
	Short  bool   `json:"sh,omitempty"` // the job that owns the strings shorter than the prefix length
	// parse / session: a batch of cases (global case index in IDs)
	Cases   []caseSpec `json:"cs,omitempty"`
	IDs     []int      `json:"ids,omitempty"`
	Wrapper string     `json:"w,omitempty"` // parse: run only this wrapper ("" = all)
	// construct: Cases[0] with these flags
	UTF8 bool `json:"u8,omitempty"`
	Pad  bool `json:"pad,omitempty"`
	// session
	Tight bool   `json:"tight,omitempty"`
	Only  string `json:"only,omitempty"` // "" = resume v1..v3 and add; "resume/v1".."resume/v3" | "add" = just that path; "v3+add"
}

type fileSum struct {
	L int64 `json:"l"`
	P bool  `json:"p,omitempty"`
}

type infoSum struct {
	PL      uint32    `json:"pl"`
	NP      uint32    `json:"np"`
	Len     int64     `json:"len"`
	Padding int64     `json:"padding"`
	NFiles  int       `json:"nf"`
	Files   []fileSum `json:"files"` // all files (cases have few)
	InfoLen int       `json:"il"`
	// RefPieces is the length of the "pieces" byte string according to the reference decoder, -1 when it
	// is not unambiguous (info not decodable by the strict reference decoder, key absent or duplicated, not a string)
	RefPieces int `json:"rp"`
}

func refPiecesLen(info []byte) int {
	v, _, err := refcodec.Decode(info)
	d, ok := v.(*refcodec.Dict)
	if err != nil || !ok {
		return -1
	}
	n, found := -1, 0
	for i, k := range d.Keys {
		if k == "pieces" {
			found++
			if b, ok := d.Vals[i].([]byte); ok {
				n = len(b)
			}
		}
	}
	if found != 1 {
		return -1
	}
	return n
}

func summarize(i *metainfo.Info) *infoSum {
	s := &infoSum{PL: i.PieceLength, NP: i.NumPieces, Len: i.Length, Padding: i.Padding, NFiles: len(i.Files), InfoLen: len(i.Bytes)}
	for _, f := range i.Files {
		s.Files = append(s.Files, fileSum{f.Length, f.Padding})
	}
	s.RefPieces = -1
	if len(i.Bytes) <= 1<<16 { // the reference decoder recurses; deep-nest cases are not about the pieces string
		s.RefPieces = refPiecesLen(i.Bytes)
	}
	return s
}

type callRes struct {
	Case  int      `json:"c"`
	W     string   `json:"w"`
	InLen int      `json:"n"`
	Alloc uint64   `json:"a"`
	Err   string   `json:"e,omitempty"`
	Acc   *infoSum `json:"acc,omitempty"`
	Panic string   `json:"pn,omitempty"`
	Frame string   `json:"fr,omitempty"`
}

type parseRes struct {
	Calls      []callRes      `json:"calls,omitempty"` // accepted, panicked or over the allocation bound
	Hist       map[string]int `json:"hist"`            // "class|wrapper|outcome" -> count
	NCalls     int            `json:"ncalls"`
	NonTrivial int            `json:"nontrivial"` // cases that got past bencode syntax in at least one wrapper
	MaxAlloc   uint64         `json:"maxalloc"`
	MaxAllocAt string         `json:"maxallocat,omitempty"`
}

type bytesRes struct {
	N          int64          `json:"n"`
	RefValid   int64          `json:"refvalid"`
	RefDict    int64          `json:"refdict"`
	Hist       map[string]int `json:"hist"`
	Calls      []callRes      `json:"calls,omitempty"`
	Inputs     []string       `json:"inputs,omitempty"` // parallel to Calls
	MaxAlloc   uint64         `json:"maxalloc"`
	NonTrivial int64          `json:"nontrivial"`
}

type constructRes struct {
	Outcome  string `json:"o"` // "ok" | "alloc-error" | "rejected" | "panic" | "skipped-large" | "runaway"
	Detail   string `json:"d,omitempty"`
	Frame    string `json:"fr,omitempty"`
	NP       uint32 `json:"np"`
	NFiles   int    `json:"nf"`
	Pieces   int    `json:"pieces"`
	Sections int64  `json:"sections"`
	Blocks   int64  `json:"blocks"`
}

type sessAcc struct {
	Case     int      `json:"c"`
	Via      string   `json:"via"` // "add" | "resume/v1".."resume/v3"
	Acc      *infoSum `json:"acc"`
	Consumed int64    `json:"consumed,omitempty"`
	TLen     int      `json:"tlen,omitempty"`
	RefLen   int      `json:"reflen,omitempty"` // length of the first bencoded value by the reference decoder (0: not decodable)
}

type sessRes struct {
	Accepted []sessAcc      `json:"acc,omitempty"`
	Hist     map[string]int `json:"hist"`
	NCalls   int            `json:"ncalls"`
	Panics   []callRes      `json:"panics,omitempty"`
	MaxPieces uint32        `json:"maxpieces"`
	MaxSize   uint          `json:"maxsize"`
}

// ---- helpers

var (
	reDigits = regexp.MustCompile(`[0-9]+`)
	reQuoted = regexp.MustCompile(`"[^"]*"`)
	ms0 runtime.MemStats
)

func errClass(err error) string {
	s := err.Error()
	s = reQuoted.ReplaceAllString(s, `"_"`)
	s = reDigits.ReplaceAllString(s, "N")
	if len(s) > 70 {
		s = s[:70]
	}
	return s
}

// semantic errors are produced by rain after the bencode layer succeeded
func semantic(err error) bool {
	s := err.Error()
	for _, m := range []string{"invalid piece data", "zero piece length", "zero pieces", "invalid file name", "duplicate file name", "too many pieces", "no info dict"} {
		if strings.Contains(s, m) {
			return true
		}
	}
	return false
}

func topFrame(stack string) string {
	for _, ln := range strings.Split(stack, "\n") {
		if strings.HasPrefix(ln, "\t") || strings.Contains(ln, "zzverif") {
			continue
		}
		if strings.Contains(ln, "cenkalti/rain/v2/") || strings.Contains(ln, "zeebo/bencode") {
			if i := strings.LastIndex(ln, "("); i > 0 {
				ln = ln[:i]
			}
			if i := strings.LastIndex(ln, "/"); i >= 0 {
				ln = ln[i+1:]
			}
			return ln
		}
	}
	return "unknown"
}

// guarded runs f and recovers a panic.
func guarded(f func()) (pv, frame string) {
	defer func() {
		if r := recover(); r != nil {
			buf := make([]byte, 16384)
			n := runtime.Stack(buf, false)
			pv = fmt.Sprint(r)
			frame = topFrame(string(buf[:n]))
		}
	}()
	f()
	return "", ""
}

// totalAlloc is the exact number of heap bytes allocated by this process so far (stops the world and
// flushes the allocation caches, ~0.2 ms: used once per group of calls, and around single calls only
// when a group is over the smallest bound of its members).
func totalAlloc() uint64 {
	runtime.ReadMemStats(&ms0)
	return ms0.TotalAlloc
}

// exactAlloc re-runs a (deterministic, side-effect free) parser call with nothing else in between.
func exactAlloc(f func()) uint64 {
	a := totalAlloc()
	guarded(f)
	return totalAlloc() - a
}

// allocBound is the work bound on heap bytes allocated by one parser call on an n-byte input. DESIGN.md
// proposes 64*n + 1 MiB; the slope used here is 256 because the property demands work linear in the
// input, not a particular constant, and the bencode decoder legitimately allocates about 136 heap bytes
// per input byte on its densest input (an unknown key holding "llll...": one []interface{} header, a
// 4-slot backing array and an interface box per one-byte token; measured 13.6 MB for 100 KB). 256*n + 1 MiB
// still separates every declared-length allocation in the lattice (16 MiB and 2 GiB for < 200 bytes).
const allocSlope = 256

func allocBound(n int) uint64 { return allocSlope*uint64(n) + 1<<20 }

type wrapper struct {
	name     string
	needInfo bool // takes the info dictionary (else the .torrent)
	run      func(in []byte) (*metainfo.Info, error)
}

var defaultCfg = torrent.DefaultConfig

func wrappers() []wrapper {
	newInfo := func(u, p bool) func([]byte) (*metainfo.Info, error) {
		return func(b []byte) (*metainfo.Info, error) { return metainfo.NewInfo(b, u, p) }
	}
	parseInfo := func(v int) func([]byte) (*metainfo.Info, error) {
		return func(b []byte) (*metainfo.Info, error) { return torrent.VerifC06ParseInfo(defaultCfg, b, v) }
	}
	return []wrapper{
		{"New", false, func(b []byte) (*metainfo.Info, error) {
			mi, err := metainfo.New(bytes.NewReader(b))
			if err != nil {
				return nil, err
			}
			return &mi.Info, nil
		}},
		{"parseMetaInfo", false, func(b []byte) (*metainfo.Info, error) {
			mi, err := torrent.VerifC06ParseMetaInfo(defaultCfg, bytes.NewReader(b))
			if err != nil {
				return nil, err
			}
			return &mi.Info, nil
		}},
		{"NewInfo/utf8=0,pad=0", true, newInfo(false, false)},
		{"NewInfo/utf8=0,pad=1", true, newInfo(false, true)},
		{"NewInfo/utf8=1,pad=0", true, newInfo(true, false)},
		{"NewInfo/utf8=1,pad=1", true, newInfo(true, true)},
		{"parseInfo/v1(resume)", true, parseInfo(1)},
		{"parseInfo/v2(resume)", true, parseInfo(2)},
		{"parseInfo/v3(resume+peer metadata)", true, parseInfo(3)},
	}
}

// ---- worker entry

func workerMain() {
	headroomMB, _ := strconv.Atoi(os.Getenv("VERIF_C06_AS_MB"))
	if headroomMB <= 0 {
		headroomMB = 4096
	}
	// RLIMIT_AS = current address space + headroom: a runaway allocation or stack kills this process only.
	var vm uint64
	if b, err := os.ReadFile("/proc/self/statm"); err == nil {
		f := strings.Fields(string(b))
		if len(f) > 0 {
			pages, _ := strconv.ParseUint(f[0], 10, 64)
			vm = pages * uint64(os.Getpagesize())
		}
	}
	if vm == 0 {
		core.HarnessError("worker: cannot read /proc/self/statm")
	}
	lim := vm + uint64(headroomMB)<<20
	if err := syscall.Setrlimit(syscall.RLIMIT_AS, &syscall.Rlimit{Cur: lim, Max: lim}); err != nil {
		core.HarnessError("worker: setrlimit: %v", err)
	}
	errDir, phase := os.Getenv("VERIF_C06_SHM"), os.Getenv("VERIF_C06_PHASE")
	if errDir == "" {
		core.HarnessError("worker: VERIF_C06_SHM not set")
	}
	core.WorkerMain(func(cj core.Job) json.RawMessage {
		// stderr of this job goes to its own file: the coordinator reads the head of it when the process dies
		// (the Go runtime prints "fatal error: ..." first and a long traceback after)
		errPath := filepath.Join(errDir, fmt.Sprintf("err-%s-%d", phase, cj.ID))
		if f, err := os.Create(errPath); err == nil {
			syscall.Dup3(int(f.Fd()), 2, 0)
			f.Close()
		}
		defer os.Remove(errPath)
		if pf := os.Getenv("VERIF_C06_DEBUG_PROF"); pf != "" { // debugging aid, never set by the check itself
			if f, err := os.Create(pf); err == nil {
				pprof.StartCPUProfile(f)
				defer func() { pprof.StopCPUProfile(); f.Close() }()
			}
		}
		var j job
		if err := json.Unmarshal(cj.Data, &j); err != nil {
			core.HarnessError("worker: bad job data: %v", err)
		}
		var res any
		switch j.Kind {
		case "bytes":
			res = runBytes(j)
		case "parse":
			res = runParse(j)
		case "construct":
			res = runConstruct(j)
		case "session":
			res = runSession(j)
		default:
			core.HarnessError("worker: unknown job kind %q", j.Kind)
		}
		b, err := json.Marshal(res)
		if err != nil {
			core.HarnessError("worker: marshal: %v", err)
		}
		return b
	})
}

// ---- (i) all byte strings over the alphabet

const alphabet = "deil012:-x"

func runBytes(j job) *bytesRes {
	res := &bytesRes{Hist: map[string]int{}}
	ws := wrappers()
	two := []wrapper{ws[0], ws[5]} // metainfo.New, metainfo.NewInfo(utf8,pad)
	keepCall := func(cr callRes, s []byte) {
		if len(res.Calls) < 50 {
			res.Calls = append(res.Calls, cr)
			res.Inputs = append(res.Inputs, string(s))
		}
	}
	// allocation is measured exactly per group of groupN strings; a group over the smallest bound
	// (that of the empty input) is re-measured call by call
	const groupN = 32
	var group [][]byte
	groupStart := totalAlloc()
	endGroup := func() {
		now := totalAlloc()
		d := now - groupStart
		if d > res.MaxAlloc {
			res.MaxAlloc = d
		}
		if d > allocBound(0) {
			for _, s := range group {
				for _, w := range two {
					in := append([]byte{}, s...)
					if a := exactAlloc(func() { w.run(in) }); a > allocBound(len(s)) {
						keepCall(callRes{W: w.name, InLen: len(s), Alloc: a}, s)
					}
				}
			}
		}
		group = group[:0]
		groupStart = totalAlloc()
	}
	one := func(s []byte) {
		res.N++
		v, rest, err := refcodec.Decode(s)
		if err == nil && len(rest) == 0 {
			res.RefValid++
			if _, ok := v.(*refcodec.Dict); ok {
				res.RefDict++
			}
		}
		nontrivial := false
		for _, w := range two {
			var info *metainfo.Info
			var e error
			in := append([]byte{}, s...)
			pv, frame := guarded(func() { info, e = w.run(in) })
			cr := callRes{W: w.name, InLen: len(s)}
			switch {
			case pv != "":
				cr.Panic, cr.Frame = pv, frame
				keepCall(cr, s)
				res.Hist[w.name+"|panic"]++
			case e != nil:
				res.Hist[w.name+"|"+errClass(e)]++
				if semantic(e) {
					nontrivial = true
				}
			default:
				cr.Acc = summarize(info)
				keepCall(cr, s)
				nontrivial = true
				res.Hist[w.name+"|accepted"]++
			}
		}
		if nontrivial {
			res.NonTrivial++
		}
		group = append(group, append([]byte{}, s...))
		if len(group) == groupN {
			endGroup()
		}
	}
	var rec func(cur []byte, stop int)
	rec = func(cur []byte, stop int) {
		one(cur)
		if len(cur) >= stop {
			return
		}
		for i := 0; i < len(alphabet); i++ {
			rec(append(cur, alphabet[i]), stop)
		}
	}
	if j.Short {
		// all strings shorter than the prefix length
		stop := len(j.Prefix) - 1
		if j.MaxLen < stop {
			stop = j.MaxLen
		}
		rec(nil, stop)
	} else if len(j.Prefix) <= j.MaxLen {
		rec([]byte(j.Prefix), j.MaxLen)
	}
	endGroup()
	return res
}

// ---- (ii) lattice cases through every parsing entry point

func runParse(j job) *parseRes {
	res := &parseRes{Hist: map[string]int{}}
	ws := wrappers()
	type done struct {
		w    wrapper
		in   []byte
		cr   callRes
		keep bool
	}
	// Allocation is measured exactly (TotalAlloc) over a group of parseGroup cases x all entry points,
	// inputs built beforehand; only a group over the smallest bound of its members is re-measured call by
	// call (the parser is deterministic and side-effect free). A job with a single call is exact as is.
	const parseGroup = 8
	for g0 := 0; g0 < len(j.Cases); g0 += parseGroup {
		g1 := g0 + parseGroup
		if g1 > len(j.Cases) {
			g1 = len(j.Cases)
		}
		ibs := make([][]byte, g1-g0)
		tbs := make([][]byte, g1-g0)
		big := false
		for k := g0; k < g1; k++ {
			ibs[k-g0] = j.Cases[k].infoBytes()
			tbs[k-g0] = j.Cases[k].torrentBytes()
			if len(tbs[k-g0]) > 1<<20 {
				big = true
			}
		}
		calls := make([]done, 0, (g1-g0)*len(ws))
		nontrivial := make([]bool, g1-g0)
		minLen := -1
		start := totalAlloc()
		for k := g0; k < g1; k++ {
			c := &j.Cases[k]
			for _, w := range ws {
				if j.Wrapper != "" && j.Wrapper != w.name {
					continue
				}
				in := tbs[k-g0]
				if w.needInfo {
					if c.Info == nil {
						continue
					}
					in = ibs[k-g0]
				}
				var info *metainfo.Info
				var e error
				pv, frame := guarded(func() { info, e = w.run(in) })
				res.NCalls++
				cr := callRes{Case: j.IDs[k], W: w.name, InLen: len(in)}
				keep := false
				outcome := ""
				switch {
				case pv != "":
					cr.Panic, cr.Frame = pv, frame
					keep = true
					outcome = "panic"
				case e != nil:
					outcome = errClass(e)
					cr.Err = outcome
					if semantic(e) {
						nontrivial[k-g0] = true
					}
				default:
					cr.Acc = summarize(info)
					keep = true
					nontrivial[k-g0] = true
					outcome = "accepted"
				}
				res.Hist[c.Class+"|"+w.name+"|"+outcome]++
				calls = append(calls, done{w, in, cr, keep})
				if minLen < 0 || len(in) < minLen {
					minLen = len(in)
				}
			}
		}
		if len(calls) == 0 {
			continue
		}
		groupAlloc := totalAlloc() - start
		if groupAlloc > res.MaxAlloc {
			res.MaxAlloc = groupAlloc
			res.MaxAllocAt = j.Cases[g0].Desc
		}
		if groupAlloc > allocBound(minLen) {
			for i := range calls {
				d := &calls[i]
				if len(calls) == 1 {
					d.cr.Alloc = groupAlloc // nothing but the call (and its result summary) was in the window
				} else {
					runtime.GC()
					d.cr.Alloc = exactAlloc(func() { d.w.run(d.in) })
				}
				if d.cr.Alloc > allocBound(len(d.in)) {
					d.keep = true
				}
			}
		}
		for i := range calls {
			if calls[i].keep {
				res.Calls = append(res.Calls, calls[i].cr)
			}
		}
		for _, nt := range nontrivial {
			if nt {
				res.NonTrivial++
			}
		}
		if big || groupAlloc > 1<<24 {
			calls, ibs, tbs = nil, nil, nil
			runtime.GC() // keep the address space of this process flat between hostile inputs
		}
	}
	return res
}

// ---- construct pieces: allocator over a storage that accepts every non-negative size, then NewPieces + CalculateBlocks

type nullFile struct{}

func (nullFile) ReadAt(p []byte, off int64) (int, error)  { return len(p), nil }
func (nullFile) WriteAt(p []byte, off int64) (int, error) { return len(p), nil }
func (nullFile) Close() error                             { return nil }

// nullStorage models a file system without a size limit: like os.File.Truncate it refuses negative sizes
// (EINVAL) and accepts everything else.
type nullStorage struct{}

func (nullStorage) Open(name string, size int64) (storage.File, bool, error) {
	if size < 0 {
		return nil, false, &os.PathError{Op: "truncate", Path: name, Err: syscall.EINVAL}
	}
	return nullFile{}, false, nil
}
func (nullStorage) RootDir() string { return "/null" }

const (
	maxConstructPieces = 4096
	runawayBytes       = 8 << 20 // + 4 KiB per piece
)

func runConstruct(j job) (res *constructRes) {
	res = &constructRes{}
	c := &j.Cases[0]
	info, err := metainfo.NewInfo(c.infoBytes(), j.UTF8, j.Pad)
	if err != nil {
		res.Outcome, res.Detail = "rejected", err.Error()
		return
	}
	res.NP, res.NFiles = info.NumPieces, len(info.Files)
	if info.NumPieces > maxConstructPieces {
		res.Outcome = "skipped-large"
		return
	}
	defer func() {
		if r := recover(); r != nil {
			buf := make([]byte, 16384)
			n := runtime.Stack(buf, false)
			res.Outcome, res.Detail, res.Frame = "panic", fmt.Sprint(r), topFrame(string(buf[:n]))
		}
	}()
	al := allocator.New()
	al.Run(info, nullStorage{}, make(chan allocator.Progress, len(info.Files)+1), make(chan *allocator.Allocator, 1))
	if al.Error != nil {
		res.Outcome, res.Detail = "alloc-error", al.Error.Error()
		return
	}
	// A terminating construction of <= 4096 pieces over a handful of files allocates well under 1 MiB
	// (a Piece is 80 bytes, a file section 64, and there are at most pieces+files sections).
	// A watchdog on a second thread reads the allocation counter (no stop-the-world) and ends the
	// process as soon as the construction has allocated more than runawayBytes: the verdict depends on the
	// amount allocated, never on time. The address-space rlimit and the coordinator's wall budget remain
	// as backstops (a loop that spins without allocating).
	runtime.GOMAXPROCS(2)
	old := debug.SetGCPercent(-1)
	stop := make(chan struct{})
	go func() {
		sample := []metrics.Sample{{Name: "/gc/heap/allocs:bytes"}}
		metrics.Read(sample)
		start := sample[0].Value.Uint64()
		for {
			select {
			case <-stop:
				return
			default:
			}
			metrics.Read(sample)
			if d := sample[0].Value.Uint64() - start; d > runawayBytes+4096*uint64(info.NumPieces) {
				res.Outcome = "runaway"
				res.Detail = fmt.Sprintf("allocated %d bytes and still running", d)
				b, _ := json.Marshal(res)
				core.ExitCrash(b)
			}
			time.Sleep(100 * time.Microsecond)
		}
	}()
	pieces := piece.NewPieces(info, al.Files)
	close(stop)
	debug.SetGCPercent(old)
	runtime.GOMAXPROCS(1)
	res.Pieces = len(pieces)
	for i := range pieces {
		res.Sections += int64(len(pieces[i].Data))
		res.Blocks += int64(len(pieces[i].CalculateBlocks()))
	}
	res.Outcome = "ok"
	return
}

// ---- session: real Session, resume database preloaded with the cases, then AddTorrent(Stopped)

type countingReader struct {
	r io.Reader
	n int64
}

func (c *countingReader) Read(p []byte) (int, error) {
	n, err := c.r.Read(p)
	c.n += int64(n)
	return n, err
}

const (
	tightMaxPieces  = 1
	tightMaxTorrent = 220
)

func runSession(j job) *sessRes {
	res := &sessRes{Hist: map[string]int{}}
	base := os.Getenv("VERIF_C06_SHM")
	if base == "" {
		core.HarnessError("worker: VERIF_C06_SHM not set")
	}
	dir, err := os.MkdirTemp(base, "s")
	if err != nil {
		core.HarnessError("worker: %v", err)
	}
	defer os.RemoveAll(dir)
	dataDir, err := os.MkdirTemp(os.Getenv("VERIF_C06_DATA"), "d")
	if err != nil {
		core.HarnessError("worker: %v", err)
	}
	defer os.RemoveAll(dataDir)
	cfg := torrent.DefaultConfig
	cfg.Database = filepath.Join(dir, "session.db")
	cfg.DataDir = dataDir
	cfg.DataDirIncludesTorrentID = true
	cfg.DHTEnabled = false
	cfg.RPCEnabled = false
	cfg.ResumeOnStartup = false
	cfg.PortBegin, cfg.PortEnd = 20000, 30000
	if j.Tight {
		cfg.MaxPieces = tightMaxPieces
		cfg.MaxTorrentSize = tightMaxTorrent
	}
	res.MaxPieces, res.MaxSize = cfg.MaxPieces, cfg.MaxTorrentSize
	// 1. resume data: write every case's info as versions 1..3, exactly as the resumer stores it
	db, err := bbolt.Open(cfg.Database, 0o644, &bbolt.Options{Timeout: time.Second, NoSync: true}) // synced once by Close
	if err != nil {
		core.HarnessError("worker: bbolt: %v", err)
	}
	rs, err := boltdbresumer.New(db, []byte("torrents"))
	if err != nil {
		core.HarnessError("worker: resumer: %v", err)
	}
	type rid struct {
		id   string
		k, v int
	}
	var ids []rid
	port := 20000
	for k := range j.Cases {
		ib := j.Cases[k].infoBytes()
		if len(ib) == 0 {
			continue // an empty info value means "magnet without metadata" to the resumer, not an info dict
		}
		for v := 1; v <= 3; v++ {
			if j.Only != "" && j.Only != fmt.Sprintf("resume/v%d", v) && !(j.Only == "v3+add" && v == 3) {
				continue
			}
			id := fmt.Sprintf("r%dv%d", k, v)
			ids = append(ids, rid{id, k, v})
			spec := &boltdbresumer.Spec{InfoHash: make([]byte, 20), Port: port, Name: "r", Info: ib, AddedAt: time.Unix(1700000000, 0), Version: v}
			port++
			if err := rs.Write(id, spec); err != nil {
				core.HarnessError("worker: resumer write: %v", err)
			}
		}
	}
	// records whose fields do not fit together (a bitfield without an info dictionary, bitfields of every wrong
	// length next to each case's info): resume data is input like any other, loading it must not crash
	for k := range j.Cases {
		ib := j.Cases[k].infoBytes()
		for bi, bf := range [][]byte{nil, {0x80}, {0xff, 0xff, 0xff}, make([]byte, 64)} {
			for ii, inf := range [][]byte{nil, ib} {
				if ii == 1 && (len(ib) == 0 || k > 3) {
					continue
				}
				if ii == 0 && k > 0 {
					continue
				}
				spec := &boltdbresumer.Spec{InfoHash: make([]byte, 20), Port: port, Name: "z", Info: inf, Bitfield: bf, AddedAt: time.Unix(1700000000, 0), Version: 3}
				port++
				if err := rs.Write(fmt.Sprintf("z%d-%d-%d", k, bi, ii), spec); err != nil {
					core.HarnessError("worker: resumer write: %v", err)
				}
				res.NCalls++
			}
		}
	}
	if err := db.Close(); err != nil {
		core.HarnessError("worker: bbolt close: %v", err)
	}
	var s *torrent.Session
	pv, frame := guarded(func() { s, err = torrent.NewSession(cfg) })
	if pv != "" {
		res.Panics = append(res.Panics, callRes{Case: j.IDs[0], W: "NewSession(resume)", Panic: pv, Frame: frame})
		return res
	}
	if err != nil {
		core.HarnessError("worker: NewSession: %v", err)
	}
	for _, r := range ids {
		id := r.id
		res.NCalls++
		via := fmt.Sprintf("resume/v%d", r.v)
		t := s.GetTorrent(id)
		if t == nil {
			res.Hist[j.Cases[r.k].Class+"|"+via+"|rejected"]++
			continue
		}
		res.Hist[j.Cases[r.k].Class+"|"+via+"|accepted"]++
		info := t.VerifC06Info()
		if info == nil {
			core.HarnessError("worker: resumed torrent %s has no info", id)
		}
		res.Accepted = append(res.Accepted, sessAcc{Case: j.IDs[r.k], Via: via, Acc: summarize(info)})
	}
	// 2. AddTorrent
	for k := range j.Cases {
		if j.Only != "" && j.Only != "add" && j.Only != "v3+add" {
			continue
		}
		tb := j.Cases[k].torrentBytes()
		cr := &countingReader{r: bytes.NewReader(tb)}
		var t *torrent.Torrent
		var aerr error
		id := fmt.Sprintf("a%d", k)
		pv, frame := guarded(func() { t, aerr = s.AddTorrent(cr, &torrent.AddTorrentOptions{ID: id, Stopped: true}) })
		res.NCalls++
		switch {
		case pv != "":
			res.Panics = append(res.Panics, callRes{Case: j.IDs[k], W: "AddTorrent", Panic: pv, Frame: frame})
			res.Hist[j.Cases[k].Class+"|add|panic"]++
		case aerr != nil:
			var ie *torrent.InputError
			cl := errClass(aerr)
			if !errors.As(aerr, &ie) {
				cl = "non-input error: " + cl
			}
			res.Hist[j.Cases[k].Class+"|add|"+cl]++
		default:
			res.Hist[j.Cases[k].Class+"|add|accepted"]++
			info := t.VerifC06Info()
			if info == nil {
				core.HarnessError("worker: added torrent has no info")
			}
			a := sessAcc{Case: j.IDs[k], Via: "add", Acc: summarize(info), Consumed: cr.n, TLen: len(tb)}
			if _, rest, derr := refcodec.Decode(tb); derr == nil {
				a.RefLen = len(tb) - len(rest)
			}
			res.Accepted = append(res.Accepted, a)
			if rerr := s.RemoveTorrent(id, true); rerr != nil { // keepData: never let the session delete anything by torrent name
				core.HarnessError("worker: RemoveTorrent: %v", rerr)
			}
		}
	}
	if err := s.Close(); err != nil {
		core.HarnessError("worker: session close: %v", err)
	}
	return res
}

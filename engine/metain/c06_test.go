//go:build verif

// Package metain: C06 — untrusted metainfo is rejected or well-formed; starting it terminates with
// bounded work. Bounded-exhaustive enumeration (no sampling) of (i) every short byte string over a
// bencode alphabet and (ii) a grammar lattice of hostile info dictionaries, each pushed through every
// entry point by which rain parses untrusted metainfo (metainfo.New, metainfo.NewInfo, Session.parseInfo
// for resume data v1..v3 and peer-supplied metadata, Session.parseMetaInfo, a real Session's resume
// loader and AddTorrent). All code under test runs in worker subprocesses with an address-space rlimit,
// so that non-termination, memory exhaustion and stack overflow are observed, not suffered.
package metain

import (
	"crypto/sha1"
	"encoding/json"
	"fmt"
	"math/big"
	"os"
	"sort"
	"strings"
	"testing"
	"time"

	"github.com/cenkalti/rain/v2/internal/logger"
	"github.com/cenkalti/rain/v2/zzverif/core"
)

type found struct {
	key, desc string
	replay    any
	size      int
	order     int
	count     int
}

type findings struct {
	m map[string]*found
	n int
}

// add keeps, per key, the failing case with the shortest input (ties: first enumerated).
func (f *findings) add(key, desc string, size int, replay any) {
	f.n++
	if cur, ok := f.m[key]; ok {
		cur.count++
		if size < cur.size {
			cur.desc, cur.replay, cur.size = desc, replay, size
		}
		return
	}
	f.m[key] = &found{key: key, desc: desc, replay: replay, size: size, order: f.n, count: 1}
}

func (f *findings) flush(rep *core.Report) {
	var l []*found
	for _, v := range f.m {
		l = append(l, v)
	}
	sort.Slice(l, func(a, b int) bool { return l[a].order < l[b].order })
	for _, v := range l {
		for i := 0; i < v.count; i++ {
			rep.Violate(v.key, v.desc, v.replay)
		}
	}
}

func showInput(b []byte) string {
	if len(b) <= 360 {
		return fmt.Sprintf("%q", b)
	}
	return fmt.Sprintf("%q...(%d bytes)...%q", b[:120], len(b), b[len(b)-60:])
}

func (c *caseSpec) replay(w string) map[string]any {
	r := map[string]any{"class": c.Class, "construction": c.Desc, "entry_point": w}
	if c.Info != nil {
		r["info_parts"] = c.Info
		if ib := c.infoBytes(); len(ib) <= 4096 {
			r["info"] = fmt.Sprintf("%q", ib)
		}
	}
	if c.Torrent != nil {
		r["torrent_parts"] = c.Torrent
	}
	return r
}

func (c *caseSpec) inputFor(w string) []byte {
	if strings.HasPrefix(w, "NewInfo") || strings.HasPrefix(w, "parseInfo") || strings.HasPrefix(w, "resume") || strings.HasPrefix(w, "construct") {
		return c.infoBytes()
	}
	return c.torrentBytes()
}

// wellFormed is the reference oracle on an accepted description (independent arithmetic, big ints).
func wellFormed(a *infoSum) (keys, msgs []string) {
	bad := func(k, m string) { keys = append(keys, "C06.wellformed."+k); msgs = append(msgs, m) }
	if a.PL == 0 {
		bad("piece-length-zero", "PieceLength=0")
	}
	if a.NP == 0 {
		bad("no-pieces", "NumPieces=0")
	}
	neg := false
	sum := new(big.Int)
	for i, f := range a.Files {
		if f.L < 0 {
			if !neg {
				bad("negative-file-length", fmt.Sprintf("file %d has length %d", i, f.L))
			}
			neg = true
		}
		sum.Add(sum, big.NewInt(f.L))
	}
	if len(a.Files) == a.NFiles && sum.Cmp(big.NewInt(a.Len)) != 0 && !neg {
		if sum.IsInt64() {
			bad("sum-mismatch", fmt.Sprintf("sum of file lengths %s != Length %d", sum, a.Len))
		} else {
			bad("sum-overflow", fmt.Sprintf("sum of file lengths %s overflows int64, Length=%d", sum, a.Len))
		}
	}
	if a.RefPieces >= 0 && int64(a.RefPieces) != 20*int64(a.NP) {
		bad("pieces-string", fmt.Sprintf("the pieces string has %d bytes, NumPieces=%d needs exactly %d", a.RefPieces, a.NP, 20*int64(a.NP)))
	}
	if a.PL > 0 && a.NP > 0 {
		hi := uint64(a.NP) * uint64(a.PL)
		lo := uint64(a.NP-1) * uint64(a.PL)
		if a.Len <= 0 || !(lo < uint64(a.Len) && uint64(a.Len) <= hi) {
			bad("length-vs-pieces", fmt.Sprintf("Length=%d is not in ((NumPieces-1)*PieceLength, NumPieces*PieceLength] = (%d, %d]", a.Len, lo, hi))
		}
	}
	return
}

func crashClass(s string) string {
	switch {
	case strings.Contains(s, "HARNESS-ERROR"):
		fail("worker reported: %s", s)
	case strings.Contains(s, "stack overflow") || strings.Contains(s, "stack exceeds"):
		return "stack-overflow"
	case strings.Contains(s, "out of memory") || strings.Contains(s, "cannot allocate"):
		return "out-of-memory"
	case strings.Contains(s, "panic:"):
		return "panic"
	}
	return "other"
}

func lastLines(s string, n int) string {
	l := strings.Split(strings.TrimSpace(s), "\n")
	var keep []string
	for _, x := range l {
		if strings.Contains(x, "fatal error") || strings.Contains(x, "runtime:") || strings.Contains(x, "panic:") {
			keep = append(keep, strings.TrimSpace(x))
		}
	}
	if len(keep) == 0 {
		keep = l
	}
	if len(keep) > n {
		keep = keep[:n]
	}
	return strings.Join(keep, " | ")
}

var (
	scratchEnv []string
	phaseNo    int
)

// run dispatches jobs to worker subprocesses; results are returned indexed like jobs. A worker redirects
// its stderr per job to a file in the scratch directory; for a job whose worker died, the head of that
// file (where the Go runtime prints "fatal error: ...") is put in front of Result.Crash.
func run(jobs []job, perJob time.Duration, asMB int) []core.Result {
	phaseNo++
	cj := make([]core.Job, len(jobs))
	for i := range jobs {
		b, err := json.Marshal(jobs[i])
		if err != nil {
			fail("marshal job: %v", err)
		}
		cj[i] = core.Job{ID: i, Data: b}
	}
	env := append([]string{fmt.Sprintf("VERIF_C06_AS_MB=%d", asMB), fmt.Sprintf("VERIF_C06_PHASE=%d", phaseNo)}, scratchEnv...)
	t0 := time.Now()
	got := core.RunSharded("TestC06", cj, perJob, env...)
	kind := ""
	if len(jobs) > 0 {
		kind = jobs[0].Kind
	}
	out := make([]core.Result, len(jobs))
	seen := make([]bool, len(jobs))
	var died, hung int
	for _, r := range got {
		if r.ID < 0 || r.ID >= len(jobs) || seen[r.ID] {
			fail("unexpected or duplicate result id %d", r.ID)
		}
		if r.Crash != "" || (len(r.Data) == 0 && !r.Hang) {
			died++
			head := ""
			if b, err := os.ReadFile(errFile(phaseNo, r.ID)); err == nil {
				if len(b) > 3000 {
					b = b[:3000]
				}
				head = string(b)
			}
			r.Crash = head + "\n[...]\n" + r.Crash
			if strings.TrimSpace(head) == "" && strings.TrimSpace(strings.TrimPrefix(r.Crash, "\n[...]\n")) == "" {
				r.Crash = "(worker process died without output: killed by a signal)"
			}
		}
		if r.Hang {
			hung++
		}
		out[r.ID], seen[r.ID] = r, true
	}
	for i, ok := range seen {
		if !ok {
			fail("no result for job %d", i)
		}
	}
	for i := range jobs {
		os.Remove(errFile(phaseNo, i))
	}
	phase("phase %d: %d %s jobs done in %.1fs (%d worker deaths, %d over wall budget)", phaseNo, len(jobs), kind, time.Since(t0).Seconds(), died, hung)
	return out
}

func errFile(phase, id int) string {
	for _, e := range scratchEnv {
		if strings.HasPrefix(e, "VERIF_C06_SHM=") {
			return fmt.Sprintf("%s/err-%d-%d", strings.TrimPrefix(e, "VERIF_C06_SHM="), phase, id)
		}
	}
	return ""
}

var phaseStart = time.Now()

// cleanup removes the scratch directories; Finish and HarnessError exit the process, so deferred calls never run.
var cleanup = func() {}

func fail(format string, a ...any) {
	cleanup()
	core.HarnessError(format, a...)
}

// phase logs coordinator progress on stderr (not part of the verdict).
func phase(format string, a ...any) {
	fmt.Fprintf(os.Stderr, "C06 [%6.1fs] %s\n", time.Since(phaseStart).Seconds(), fmt.Sprintf(format, a...))
}

func mergeHist(dst map[string]int64, src map[string]int) {
	for k, v := range src {
		dst[k] += int64(v)
	}
}

func TestC06(t *testing.T) {
	logger.Disable()
	if core.IsWorker() {
		workerMain()
		return
	}
	rep := core.NewReport("C06", "metain", "exploration")
	thorough := core.Thorough()
	maxLen := 5
	if thorough {
		maxLen = 6
	}
	rep.Rule = fmt.Sprintf("(i) every byte string of length <= %d over {d,e,i,l,0,1,2,:,-,x} through metainfo.New and metainfo.NewInfo; ", maxLen) +
		"(ii) the full product piece-length{absent,0,1,16384,2^31,2^32-1,2^32,-1,string,2^32+16384} x pieces-length{0,19,20,40} x (single length{absent,-1,0,1,pl,pl+1,2^63-1,2pl} | " +
		"files lists of 1..3 entries, lengths{-pl,-1,0,1,pl,2^62,2^63-1,pl+1,pl+2}, every padding mask" +
		map[bool]string{true: "", false: "; quick tier: 3-entry lists only for piece-length{1,16384,2^32-1} x pieces-length{20,40}"}[thorough] + "), plus one-dimensional deviations from accepted bases (path shapes, wrong types, " +
		"duplicate keys, every key permutation, name variants, extra keys, malformed keys, truncations at every byte), list and dict nesting of depth " + map[bool]string{true: "{1,10,10^3,10^5,10^6}", false: "{1,10,10^3,10^4}"}[thorough] + " at 11 positions " +
		"(terminated and not), strings declaring {exact,+1,2^31-1,2^24,2^31,-1,...} bytes with a short body at 9 positions; every case through metainfo.New, Session.parseMetaInfo, " +
		"(depth-10^6 nests: through New, parseMetaInfo, NewInfo(utf8,pad), parseInfo v3, Session resume v3 and AddTorrent only) " +
		"metainfo.NewInfo x 4 flag pairs, Session.parseInfo v1..v3, a real Session's resume loader (v1..v3) and AddTorrent(Stopped) under tight limits; every distinct accepted geometry " +
		"(PieceLength, NumPieces, Length, file lengths and padding flags) through allocator+piece.NewPieces+CalculateBlocks in an rlimited subprocess. Non-trivial = got past bencode syntax in at least one entry point (accepted or a semantic error); distinct = such inputs."
	rep.Assumptions = []string{
		"construct-pieces uses the real allocator over a storage that accepts every non-negative file size and refuses negative ones with EINVAL (as os.File.Truncate does)",
		"allocated bytes = runtime.MemStats.TotalAlloc delta around the parser call in a GOMAXPROCS=1 worker; stack memory is not counted, only process death by stack overflow is",
		"worker address space is limited to (size at start + 4 GiB) for parsing and (size at start + 256 MiB) for construct-pieces, where in addition a watchdog thread ends the worker once the construction of a small info has allocated more than 8 MiB + 4 KiB per piece; a worker killed by the limit or by the wall budget is reported for the job it had announced",
		"the session limits are exercised with MaxPieces=1 and MaxTorrentSize=220 so that lattice members fall on both sides of each limit",
		"work bound = 256*len(input) + 1 MiB heap bytes per parser call (DESIGN proposes slope 64; the decoder's legitimate linear cost on dense nesting is ~136 B per input byte, so 64 would flag linear work)",
		"byte values and lengths outside the lattice are not enumerated",
	}
	fs := &findings{m: map[string]*found{}}
	removeStale("/dev/shm", "c06-")
	removeStale(os.Getenv("VERIF_TMP"), "c06data-")
	shm, err := os.MkdirTemp("/dev/shm", fmt.Sprintf("c06-%d-", os.Getpid()))
	if err != nil {
		core.HarnessError("mkdtemp /dev/shm: %v", err)
	}
	dataBase, err := os.MkdirTemp(os.Getenv("VERIF_TMP"), fmt.Sprintf("c06data-%d-", os.Getpid()))
	if err != nil {
		os.RemoveAll(shm)
		core.HarnessError("mkdtemp: %v", err)
	}
	cleanup = func() { os.RemoveAll(shm); os.RemoveAll(dataBase) }
	scratchEnv = []string{"VERIF_C06_SHM=" + shm, "VERIF_C06_DATA=" + dataBase}

	// debugging aid only (never set by vcheck): VERIF_C06_DEBUG_SKIP=bytes,numeric,deep skips parts of the space
	dbgSkip := os.Getenv("VERIF_C06_DEBUG_SKIP")
	if dbgSkip != "" {
		rep.Cap("debug run: skipped " + dbgSkip)
	}
	// ---------------- (i) byte strings
	if !strings.Contains(dbgSkip, "bytes") {
		var jobs []job
		jobs = append(jobs, job{Kind: "bytes", Prefix: "xx", MaxLen: maxLen, Short: true})
		for a := 0; a < len(alphabet); a++ {
			for b := 0; b < len(alphabet); b++ {
				jobs = append(jobs, job{Kind: "bytes", Prefix: string([]byte{alphabet[a], alphabet[b]}), MaxLen: maxLen})
			}
		}
		results := run(jobs, 120*time.Second, 4096)
		hist := map[string]int64{}
		var n, refValid, refDict, nontrivial int64
		var maxAlloc uint64
		for i, r := range results {
			if r.Crash != "" {
				fs.add("C06.process-death."+crashClass(r.Crash)+".bytes", fmt.Sprintf("worker died while parsing the short byte strings with prefix %q: %s", jobs[i].Prefix, lastLines(r.Crash, 4)), 0, jobs[i])
				continue
			}
			if r.Hang {
				rep.Cap(fmt.Sprintf("byte-string job with prefix %q exceeded its wall budget", jobs[i].Prefix))
				continue
			}
			var br bytesRes
			if err := json.Unmarshal(r.Data, &br); err != nil {
				fail("bad bytes result: %v", err)
			}
			n += br.N
			refValid += br.RefValid
			refDict += br.RefDict
			nontrivial += br.NonTrivial
			mergeHist(hist, br.Hist)
			if br.MaxAlloc > maxAlloc {
				maxAlloc = br.MaxAlloc
			}
			for k, c := range br.Calls {
				in := br.Inputs[k]
				switch {
				case c.Panic != "":
					fs.add("C06.parse.panic."+c.Frame, fmt.Sprintf("%s(%q) panics: %s", c.W, in, c.Panic), len(in), map[string]any{"input": in, "entry_point": c.W})
				case c.Acc != nil:
					keys, msgs := wellFormed(c.Acc)
					for x := range keys {
						fs.add(keys[x], fmt.Sprintf("%s(%q) accepted: %s", c.W, in, msgs[x]), len(in), map[string]any{"input": in, "entry_point": c.W})
					}
				}
				if c.Alloc > allocBound(c.InLen) {
					fs.add("C06.work.alloc.bytes", fmt.Sprintf("%s(%q) allocated %d bytes > 256*%d+1MiB", c.W, in, c.Alloc, c.InLen), len(in), map[string]any{"input": in, "entry_point": c.W})
				}
			}
		}
		want := int64(0)
		p := int64(1)
		for l := 0; l <= maxLen; l++ {
			want += p
			p *= int64(len(alphabet))
		}
		if n != want && rep.Exhaustive && len(fs.m) == 0 {
			fail("byte strings: evaluated %d, expected %d", n, want)
		}
		rep.Eval(2 * n)
		rep.Extra["bytes_strings"] = n
		rep.Extra["bytes_reference_valid_bencode"] = refValid
		rep.Extra["bytes_reference_valid_dicts"] = refDict
		rep.Extra["bytes_nontrivial"] = nontrivial
		rep.Extra["bytes_outcome_classes"] = int64(len(hist))
		rep.Extra["bytes_max_alloc_per_group_of_32_strings"] = int64(maxAlloc)
		rep.Distinct += nontrivial
		if refDict == 0 || nontrivial == 0 {
			rep.Vacuous("vacuous: no byte string is a dictionary / reaches rain's own validation")
		}
		rep.Sample(2, map[string]any{"bytes_outcomes": topHist(hist, 12)})
	}

	// ---------------- (ii) lattice
	var cases []caseSpec
	seen := map[[20]byte]bool{}
	var dups int64
	emit := func(c caseSpec) {
		h := sha1.New()
		for _, p := range c.Info {
			fmt.Fprintf(h, "i%d:%d:", len(p.B), p.N)
			h.Write(p.B)
		}
		h.Write([]byte{0})
		for _, p := range c.Torrent {
			fmt.Fprintf(h, "t%d:%d:", len(p.B), p.N)
			h.Write(p.B)
		}
		var k [20]byte
		copy(k[:], h.Sum(nil))
		if seen[k] {
			dups++
			return
		}
		seen[k] = true
		cases = append(cases, c)
	}
	var three map[string]bool
	if !thorough {
		three = map[string]bool{"1": true, "16384": true, "2^32-1": true}
	}
	shapeLattice(emit) // simplest first
	declenLattice(emit)
	depths := []int{1, 10, 1000, 10000}
	if thorough {
		depths = []int{1, 10, 1000, 100000, 1000000}
	}
	if strings.Contains(dbgSkip, "deep") {
		depths = []int{1, 10, 1000}
	}
	nestLattice(depths, emit)
	if !strings.Contains(dbgSkip, "numeric") {
		numericLattice(emit, three)
		hugeLattice(emit)
	}
	if strings.Contains(dbgSkip, "onlyhuge") {
		var keep []caseSpec
		for _, c := range cases {
			if c.Hostile && c.Class == "declen" {
				keep = append(keep, c)
			}
		}
		cases = keep
	}
	seen = nil
	classCount := map[string]int64{}
	for i := range cases {
		classCount[cases[i].Class]++
		if i%(len(cases)/10+1) == 0 {
			smp := map[string]any{"case": cases[i].Desc}
			if cases[i].Info != nil {
				smp["info"] = showInput(cases[i].infoBytes())
			} else {
				smp["torrent"] = showInput(cases[i].torrentBytes())
			}
			rep.Sample(14, smp)
		}
	}
	rep.Extra["lattice_cases"] = int64(len(cases))
	rep.Extra["lattice_duplicates_dropped"] = dups
	rep.Extra["lattice_cases_by_class"] = classCount

	// parse phase: plain cases in batches; hostile cases one (case, entry point) per job
	var plainJobs, hostJobs, hugeJobs []job
	{
		var cur job
		flush := func() {
			if len(cur.Cases) > 0 {
				plainJobs = append(plainJobs, cur)
			}
			cur = job{Kind: "parse"}
		}
		flush()
		for i := range cases {
			c := cases[i]
			if c.Hostile {
				for _, w := range wrappers() {
					if w.needInfo && c.Info == nil {
						continue
					}
					if deepest(c) && !(w.name == "New" || w.name == "parseMetaInfo" || w.name == "NewInfo/utf8=1,pad=1" || strings.HasPrefix(w.name, "parseInfo/v3")) {
						continue // depth 10^6: one representative per decoding path (the flags and versions do not reach the decoder)
					}
					j := job{Kind: "parse", Cases: []caseSpec{c}, IDs: []int{i}, Wrapper: w.name}
					if c.Class == "declen" {
						hugeJobs = append(hugeJobs, j)
					} else {
						hostJobs = append(hostJobs, j)
					}
				}
				continue
			}
			cur.Cases = append(cur.Cases, c)
			cur.IDs = append(cur.IDs, i)
			if len(cur.Cases) == 256 {
				flush()
			}
		}
		flush()
	}
	type accKey struct {
		c         int
		utf8, pad bool
	}
	flagsOf := func(w string) (utf8, pad bool) {
		switch {
		case w == "New" || w == "parseMetaInfo" || strings.Contains(w, "v3"):
			return true, true
		case strings.Contains(w, "v2"):
			return true, false
		case strings.Contains(w, "v1"):
			return false, false
		}
		return strings.Contains(w, "utf8=1"), strings.Contains(w, "pad=1")
	}
	accepted := map[accKey]bool{} // (case, flags) accepted by some entry point
	// piece construction is a function of (PieceLength, NumPieces, Length, file lengths and padding flags) only:
	// one construct job per distinct geometry, run on the shortest input that produced it
	type geom struct {
		k     accKey
		size  int
		cases int64
	}
	geoms := map[string]*geom{}
	var geomOrder []string
	acceptedBy := map[string]int64{}
	newAccepted := map[int]*infoSum{} // case -> info accepted by metainfo.New
	parseHist := map[string]int64{}
	var parseCalls, latticeNontrivial, overBound, truncatedPL int64
	var maxAlloc uint64
	var maxAllocAt string
	handleParse := func(jobs []job, results []core.Result) (retry []job) {
		for i, r := range results {
			j := jobs[i]
			if r.Crash != "" || r.Hang {
				if len(j.Cases) > 1 {
					for k := range j.Cases {
						retry = append(retry, job{Kind: "parse", Cases: []caseSpec{j.Cases[k]}, IDs: []int{j.IDs[k]}})
					}
					continue
				}
				c := &j.Cases[0]
				w := j.Wrapper
				if w == "" {
					w = "(all entry points)"
				}
				if r.Hang {
					rep.Cap(fmt.Sprintf("parse of %s via %s exceeded the wall budget", c.Desc, w))
					continue
				}
				cl := crashClass(r.Crash)
				in := c.inputFor(w)
				fs.add("C06.process-death."+cl+"."+c.Class, fmt.Sprintf("process died (%s) parsing a %d-byte input via %s: %s; input %s; runtime said: %s",
					cl, len(in), w, c.Desc, showInput(in), lastLines(r.Crash, 3)), len(in), c.replay(w))
				continue
			}
			var pr parseRes
			if err := json.Unmarshal(r.Data, &pr); err != nil {
				fail("bad parse result: %v", err)
			}
			parseCalls += int64(pr.NCalls)
			latticeNontrivial += int64(pr.NonTrivial)
			mergeHist(parseHist, pr.Hist)
			if pr.MaxAlloc > maxAlloc {
				maxAlloc, maxAllocAt = pr.MaxAlloc, pr.MaxAllocAt
			}
			for _, c := range pr.Calls {
				cs := &cases[c.Case]
				switch {
				case c.Panic != "":
					in := cs.inputFor(c.W)
					fs.add("C06.parse.panic."+c.Frame, fmt.Sprintf("%s panics (%s) on %s; input %s", c.W, c.Panic, cs.Desc, showInput(in)), len(in), cs.replay(c.W))
				case c.Acc != nil:
					acceptedBy[c.W]++
					keys, msgs := wellFormed(c.Acc)
					for x := range keys {
						in := cs.inputFor(c.W)
						fs.add(keys[x], fmt.Sprintf("%s accepted an ill-formed info (%s): %s; PieceLength=%d NumPieces=%d Length=%d files=%v; input %s",
							c.W, msgs[x], cs.Desc, c.Acc.PL, c.Acc.NP, c.Acc.Len, c.Acc.Files, showInput(in)), len(in), cs.replay(c.W))
					}
					if cs.Info != nil {
						u8, pad := flagsOf(c.W)
						k := accKey{c.Case, u8, pad}
						if !accepted[k] {
							accepted[k] = true
							gk := fmt.Sprintf("pl=%d np=%d len=%d files=%v", c.Acc.PL, c.Acc.NP, c.Acc.Len, c.Acc.Files)
							g := geoms[gk]
							if g == nil {
								g = &geom{k: k, size: c.Acc.InfoLen}
								geoms[gk] = g
								geomOrder = append(geomOrder, gk)
							} else if c.Acc.InfoLen < g.size {
								g.k, g.size = k, c.Acc.InfoLen
							}
							g.cases++
						}
					}
					if c.W == "New" {
						newAccepted[c.Case] = c.Acc
					}
					if strings.Contains(cs.Desc, "pl=2^32+16384") && c.W == "New" {
						truncatedPL++
					}
				}
				if c.Alloc > allocBound(c.InLen) {
					overBound++
					in := cs.inputFor(c.W)
					fs.add("C06.work.alloc."+cs.Class, fmt.Sprintf("%s allocated %d bytes for a %d-byte input (bound 256*len+1MiB = %d): %s; input %s",
						c.W, c.Alloc, c.InLen, allocBound(c.InLen), cs.Desc, showInput(in)), len(in), cs.replay(c.W))
				}
			}
		}
		return
	}
	if retry := handleParse(plainJobs, run(plainJobs, 120*time.Second, 4096)); len(retry) > 0 {
		rep.Extra["parse_batches_split_after_worker_death"] = int64(len(retry))
		if again := handleParse(retry, run(retry, 60*time.Second, 4096)); len(again) > 0 {
			fail("singleton retry produced batches")
		}
	}
	handleParse(hostJobs, run(hostJobs, 60*time.Second, 4096))
	handleParse(hugeJobs, run(hugeJobs, 60*time.Second, 4096))
	rep.Eval(parseCalls)
	rep.Distinct += latticeNontrivial
	rep.Extra["parse_calls"] = parseCalls
	rep.Extra["parse_hostile_jobs"] = int64(len(hostJobs) + len(hugeJobs))
	rep.Extra["parse_outcome_classes"] = int64(len(parseHist))
	rep.Extra["parse_accepted_by_entry_point"] = acceptedBy
	rep.Extra["parse_calls_over_alloc_bound"] = overBound
	rep.Extra["parse_max_alloc_bytes_per_case_all_entry_points"] = int64(maxAlloc)
	rep.Extra["parse_max_alloc_at"] = maxAllocAt
	rep.Extra["lattice_nontrivial"] = latticeNontrivial
	rep.Extra["note_piece_length_2^32+16384_accepted_as_16384"] = truncatedPL
	rep.Sample(16, map[string]any{"parse_outcomes": topHist(parseHist, 14)})
	if len(accepted) == 0 || latticeNontrivial == 0 {
		rep.Vacuous("vacuous: the lattice has no accepted member")
	}

	// ---------------- construct pieces for every accepted (case, pad flag)
	{
		var jobs []job
		var covered []int64
		for _, gk := range geomOrder {
			g := geoms[gk]
			jobs = append(jobs, job{Kind: "construct", Cases: []caseSpec{cases[g.k.c]}, IDs: []int{g.k.c}, UTF8: g.k.utf8, Pad: g.k.pad})
			covered = append(covered, g.cases)
		}
		rep.Extra["construct_accepted_case_flag_pairs_covered"] = int64(len(accepted))
		results := run(jobs, 2*time.Second, 256)
		// a job over the wall budget is re-run alone with a long budget before anything is concluded from it
		var hungIdx []int
		var hungJobs []job
		for i, r := range results {
			if r.Hang {
				hungIdx = append(hungIdx, i)
				hungJobs = append(hungJobs, jobs[i])
			}
		}
		if len(hungJobs) > 0 {
			again := run(hungJobs, 90*time.Second, 256)
			for k, i := range hungIdx {
				results[i] = again[k]
			}
			rep.Extra["construct_jobs_rerun_alone_after_wall_budget"] = int64(len(hungJobs))
		}
		outcomes := map[string]int64{}
		for i, r := range results {
			j := jobs[i]
			cs := &cases[j.IDs[0]]
			in := cs.infoBytes()
			what := fmt.Sprintf("NewInfo(utf8=%v,pad=%v) accepted, then allocator + piece.NewPieces + CalculateBlocks", j.UTF8, j.Pad)
			if r.Crash != "" || r.Hang {
				// every case here has NumPieces <= 2 and <= 100 files: the legitimate work is a few hundred steps and a few KiB
				cl := "wall-budget"
				how := "still running after 120 s alone on a core"
				if r.Crash != "" {
					cl = crashClass(r.Crash)
					how = "process died: " + cl + " under a 256 MiB address-space headroom (" + lastLines(r.Crash, 2) + ")"
				}
				if cl != "out-of-memory" && cl != "wall-budget" {
					outcomes["process-death"]++
					fs.add("C06.construct.process-death."+cl, fmt.Sprintf("%s %s: %s; input %s", what, how, cs.Desc, showInput(in)), len(in), cs.replay("construct"))
					continue
				}
				outcomes["nontermination("+cl+")"]++
				fs.add("C06.construct.nontermination", fmt.Sprintf("%s does not terminate (%s): %s; input %s", what, how, cs.Desc, showInput(in)), len(in), cs.replay(fmt.Sprintf("construct pad=%v", j.Pad)))
				continue
			}
			var cr constructRes
			if err := json.Unmarshal(r.Data, &cr); err != nil {
				fail("bad construct result: %v", err)
			}
			outcomes[cr.Outcome]++
			switch cr.Outcome {
			case "rejected":
				fail("construct: case accepted in the parse phase is rejected now: %s: %s", cs.Desc, cr.Detail)
			case "skipped-large":
				rep.Cap(fmt.Sprintf("construct-pieces skipped for NumPieces=%d > %d: %s", cr.NP, maxConstructPieces, cs.Desc))
			case "runaway":
				fs.add("C06.construct.nontermination", fmt.Sprintf("%s does not terminate (%s; NumPieces=%d, %d files: a terminating construction needs a few KiB): %s; input %s",
					what, cr.Detail, cr.NP, cr.NFiles, cs.Desc, showInput(in)), len(in), cs.replay(fmt.Sprintf("construct pad=%v", j.Pad)))
			case "panic":
				fs.add("C06.construct.panic."+cr.Frame, fmt.Sprintf("%s panics (%s): %s; input %s", what, cr.Detail, cs.Desc, showInput(in)), len(in), cs.replay("construct"))
			case "ok":
				if cr.Pieces != int(cr.NP) {
					fs.add("C06.construct.piece-count", fmt.Sprintf("%s built %d pieces, NumPieces=%d: %s; input %s", what, cr.Pieces, cr.NP, cs.Desc, showInput(in)), len(in), cs.replay("construct"))
				}
				if cr.Sections > int64(cr.NP)+int64(cr.NFiles) {
					fs.add("C06.construct.work", fmt.Sprintf("%s produced %d file sections > NumPieces+files = %d+%d: %s; input %s", what, cr.Sections, cr.NP, cr.NFiles, cs.Desc, showInput(in)), len(in), cs.replay("construct"))
				}
			}
		}
		rep.Eval(int64(len(jobs)))
		rep.Extra["construct_jobs_distinct_geometries"] = int64(len(jobs))
		_ = covered
		rep.Extra["construct_outcomes"] = outcomes
		if outcomes["ok"] == 0 {
			rep.Vacuous("vacuous: construct-pieces never completed")
		}
	}

	// ---------------- session: resume loader + AddTorrent under tight limits; hostile cases under default limits
	{
		var jobs, hugeJobs []job
		// the numeric product goes through resume version 3 and AddTorrent only (versions 1 and 2 differ from 3 in
		// the utf-8 and padding flags, which no numeric case depends on for acceptance; Session.parseInfo v1..v3 is
		// called on every case in the parse phase); all other classes go through v1, v2, v3 and AddTorrent
		cur := job{Kind: "session", Tight: true}
		curNum := job{Kind: "session", Tight: true, Only: "v3+add"}
		var edge []caseSpec
		for _, n := range []int{tightMaxTorrent - 1, tightMaxTorrent, tightMaxTorrent + 1, tightMaxTorrent + 2} {
			if c, ok := torrentOfSize(n); ok {
				edge = append(edge, c)
			} else {
				fail("cannot build a torrent of %d bytes", n)
			}
		}
		sessCases := append([]caseSpec{}, cases...)
		edgeBase := len(sessCases)
		sessCases = append(sessCases, edge...)
		for i := range sessCases {
			c := sessCases[i]
			if c.Hostile {
				for _, only := range []string{"resume/v1", "resume/v2", "resume/v3", "add"} {
					if only != "add" && c.Info == nil {
						continue
					}
					if deepest(c) && (only == "resume/v1" || only == "resume/v2") {
						continue
					}
					hj := job{Kind: "session", Cases: []caseSpec{c}, IDs: []int{i}, Only: only}
					if c.Class == "declen" {
						hugeJobs = append(hugeJobs, hj)
					} else {
						jobs = append(jobs, hj)
					}
				}
				continue
			}
			if strings.HasPrefix(c.Class, "num.") {
				curNum.Cases = append(curNum.Cases, c)
				curNum.IDs = append(curNum.IDs, i)
				if len(curNum.Cases) == 128 {
					jobs = append(jobs, curNum)
					curNum = job{Kind: "session", Tight: true, Only: "v3+add"}
				}
				continue
			}
			cur.Cases = append(cur.Cases, c)
			cur.IDs = append(cur.IDs, i)
			if len(cur.Cases) == 64 {
				jobs = append(jobs, cur)
				cur = job{Kind: "session", Tight: true}
			}
		}
		if len(cur.Cases) > 0 {
			jobs = append(jobs, cur)
		}
		if len(curNum.Cases) > 0 {
			jobs = append(jobs, curNum)
		}
		hist := map[string]int64{}
		var calls, nAcc, nAccAdd, nAccResume int64
		sessAccepted := map[int]bool{}
		var handle func(jobs []job, results []core.Result) []job
		handle = func(jobs []job, results []core.Result) (retry []job) {
			for i, r := range results {
				j := jobs[i]
				if r.Crash != "" || r.Hang {
					if len(j.Cases) > 1 {
						for k := range j.Cases {
							retry = append(retry, job{Kind: "session", Tight: j.Tight, Only: j.Only, Cases: []caseSpec{j.Cases[k]}, IDs: []int{j.IDs[k]}})
						}
						continue
					}
					c := &j.Cases[0]
					if r.Hang {
						rep.Cap("session job exceeded the wall budget: " + c.Desc)
						continue
					}
					cl := crashClass(r.Crash)
					in := c.torrentBytes()
					fs.add("C06.process-death."+cl+"."+c.Class, fmt.Sprintf("process died (%s) in a real Session (path %q; %d-byte .torrent): %s; input %s; runtime said: %s",
						cl, j.Only, len(in), c.Desc, showInput(in), lastLines(r.Crash, 3)), len(in), c.replay("Session "+j.Only))
					continue
				}
				var sr sessRes
				if err := json.Unmarshal(r.Data, &sr); err != nil {
					fail("bad session result: %v", err)
				}
				calls += int64(sr.NCalls)
				mergeHist(hist, sr.Hist)
				for _, p := range sr.Panics {
					cs := &sessCases[p.Case]
					fs.add("C06.session.panic."+p.Frame, fmt.Sprintf("%s panics (%s): %s", p.W, p.Panic, cs.Desc), len(cs.torrentBytes()), cs.replay(p.W))
				}
				for _, a := range sr.Accepted {
					cs := &sessCases[a.Case]
					nAcc++
					in := cs.inputFor(a.Via)
					keys, msgs := wellFormed(a.Acc)
					for x := range keys {
						fs.add(keys[x], fmt.Sprintf("Session %s accepted an ill-formed info (%s): %s; files=%v; input %s", a.Via, msgs[x], cs.Desc, a.Acc.Files, showInput(in)), len(in), cs.replay("Session "+a.Via))
					}
					if a.Acc.NP > sr.MaxPieces {
						fs.add("C06.limits.max-pieces", fmt.Sprintf("Session (MaxPieces=%d) %s accepted NumPieces=%d: %s; input %s", sr.MaxPieces, a.Via, a.Acc.NP, cs.Desc, showInput(in)), len(in), cs.replay("Session "+a.Via))
					}
					if a.Via == "add" {
						nAccAdd++
						sessAccepted[a.Case] = true
						size := a.RefLen
						if size == 0 {
							size = a.TLen
						}
						if uint(size) > sr.MaxSize || uint(a.Consumed) > sr.MaxSize || uint(a.Acc.InfoLen) > sr.MaxSize {
							fs.add("C06.limits.max-torrent-size", fmt.Sprintf("Session (MaxTorrentSize=%d) AddTorrent accepted a torrent of %d bytes (read %d, info %d): %s; input %s",
								sr.MaxSize, size, a.Consumed, a.Acc.InfoLen, cs.Desc, showInput(in)), len(in), cs.replay("Session add"))
						}
					} else {
						nAccResume++
					}
				}
			}
			return
		}
		if retry := handle(jobs, run(jobs, 300*time.Second, 4096)); len(retry) > 0 {
			rep.Extra["session_batches_split_after_worker_death"] = int64(len(retry))
			handle(retry, run(retry, 60*time.Second, 4096))
		}
		handle(hugeJobs, run(hugeJobs, 60*time.Second, 4096))
		rep.Eval(calls)
		// non-vacuity of the limit checks
		var tooMany, overSizeAcceptedByNew, edgeAccepted int64
		for k, v := range hist {
			if strings.Contains(k, "too many pieces") {
				tooMany += v
			}
		}
		for c, a := range newAccepted {
			if !cases[c].Hostile && len(cases[c].torrentBytes()) > tightMaxTorrent {
				overSizeAcceptedByNew++
				_ = a
			}
		}
		for i := range edge {
			if sessAccepted[edgeBase+i] {
				edgeAccepted++
			}
		}
		rep.Extra["session_calls"] = calls
		rep.Extra["session_accepted"] = nAcc
		rep.Extra["session_accepted_add"] = nAccAdd
		rep.Extra["session_accepted_resume"] = nAccResume
		rep.Extra["session_rejected_too_many_pieces"] = tooMany
		rep.Extra["session_new_accepts_but_over_max_torrent_size"] = overSizeAcceptedByNew
		rep.Extra["session_size_edge_torrents_accepted_of_4"] = edgeAccepted
		rep.Extra["session_outcome_classes"] = int64(len(hist))
		rep.Sample(18, map[string]any{"session_outcomes": topHist(hist, 10)})
		if dbgSkip == "" && (nAccAdd == 0 || nAccResume == 0 || tooMany == 0 || overSizeAcceptedByNew == 0 || edgeAccepted < 2) {
			rep.Vacuous("vacuous session part: add=%d resume=%d too-many-pieces=%d over-size=%d edge-accepted=%d (want >= 2)", nAccAdd, nAccResume, tooMany, overSizeAcceptedByNew, edgeAccepted)
		}
	}
	fs.flush(rep)
	cleanup()
	rep.Finish()
}

// removeStale deletes scratch directories "<prefix><pid>-*" left by a run whose process is gone (Finish and
// HarnessError exit without running deferred calls; a harness error inside core cannot be intercepted).
func removeStale(dir, prefix string) {
	ents, err := os.ReadDir(dir)
	if err != nil {
		return
	}
	for _, e := range ents {
		if !strings.HasPrefix(e.Name(), prefix) {
			continue
		}
		var pid int
		if _, err := fmt.Sscanf(strings.TrimPrefix(e.Name(), prefix), "%d-", &pid); err != nil || pid <= 0 {
			continue
		}
		if _, err := os.Stat(fmt.Sprintf("/proc/%d", pid)); os.IsNotExist(err) {
			os.RemoveAll(dir + "/" + e.Name())
		}
	}
}

// deepest reports the depth-10^6 nesting cases (the most expensive members of the lattice).
func deepest(c caseSpec) bool {
	return c.Class == "nest" && strings.Contains(c.Desc, "depth 1000000 ")
}

func topHist(h map[string]int64, n int) []string {
	type kv struct {
		k string
		v int64
	}
	var l []kv
	for k, v := range h {
		l = append(l, kv{k, v})
	}
	sort.Slice(l, func(a, b int) bool {
		if l[a].v != l[b].v {
			return l[a].v > l[b].v
		}
		return l[a].k < l[b].k
	})
	if len(l) > n {
		l = l[:n]
	}
	var out []string
	for _, e := range l {
		out = append(out, fmt.Sprintf("%d x %s", e.v, e.k))
	}
	return out
}

//go:build verif

package metain

import (
	"bytes"
	"fmt"
	"strconv"
	"strings"

	"github.com/cenkalti/rain/v2/zzverif/core"
	"github.com/cenkalti/rain/v2/zzverif/refcodec"
)

// A case is an info dictionary (and/or a whole .torrent) described as run-length encoded byte parts, so
// that a 10^6-deep nest travels to the worker as three small parts. The generator (this file) runs in
// the coordinator only; workers just expand parts.
type part struct {
	B []byte `json:"b"`
	N int    `json:"n"`
}

type caseSpec struct {
	Class   string `json:"c"`           // lattice axis the case belongs to
	Desc    string `json:"d"`           // human readable construction
	Info    []part `json:"i,omitempty"` // info dictionary bytes (nil: torrent-level case only)
	Torrent []part `json:"t,omitempty"` // whole .torrent bytes (nil: wrap Info)
	Hostile bool   `json:"h,omitempty"` // declared 2^31-1 strings / nesting >= 10^5: isolated one per process
}

func expand(ps []part) []byte {
	n := 0
	for _, p := range ps {
		n += len(p.B) * p.N
	}
	out := make([]byte, 0, n)
	for _, p := range ps {
		if p.N == 1 {
			out = append(out, p.B...)
		} else {
			out = append(out, bytes.Repeat(p.B, p.N)...)
		}
	}
	return out
}

func lit(b []byte) []part { return []part{{B: b, N: 1}} }

func (c *caseSpec) infoBytes() []byte {
	if c.Info == nil {
		return nil
	}
	return expand(c.Info)
}

const torrentPrefix = "d8:announce9:http://x/4:info"

func (c *caseSpec) torrentBytes() []byte {
	if c.Torrent != nil {
		return expand(c.Torrent)
	}
	ib := c.infoBytes()
	out := make([]byte, 0, len(ib)+len(torrentPrefix)+1)
	out = append(out, torrentPrefix...)
	out = append(out, ib...)
	return append(out, 'e')
}

type raw = refcodec.Raw

func ri(v string) raw { return raw("i" + v + "e") } // integer token from a decimal literal (may be out of int64 range)

func piecesOf(n int) []byte {
	b := make([]byte, n)
	for i := range b {
		b[i] = byte('A' + i%26)
	}
	return b
}

type tok struct {
	name string
	val  any // nil = key absent
}

const mark = "\x00@@MARK@@\x00"

// splice encodes v (which contains exactly one raw(mark)) and returns the bytes before and after the mark.
func splice(v any) (pre, post []byte) {
	b := refcodec.Benc(v)
	i := bytes.Index(b, []byte(mark))
	if i < 0 || bytes.Count(b, []byte(mark)) != 1 {
		core.HarnessError("splice: mark found %d times", bytes.Count(b, []byte(mark)))
	}
	return append([]byte{}, b[:i]...), append([]byte{}, b[i+len(mark):]...)
}

func dictOf(kv []tok, nosort bool) *refcodec.Dict {
	d := &refcodec.Dict{NoSort: nosort}
	for _, t := range kv {
		if t.val == nil {
			continue
		}
		d.Keys = append(d.Keys, t.name)
		d.Vals = append(d.Vals, t.val)
	}
	return d
}

// ---- the numeric lattice (DESIGN C06 A(ii), first half)

type plTok struct {
	name string
	val  any
	nom  int64 // piece length used for the relative file lengths (pl, pl+1, -pl ...)
}

func plTokens() []plTok {
	return []plTok{
		{"absent", nil, 16384},
		{"0", ri("0"), 16384},
		{"1", ri("1"), 1},
		{"16384", ri("16384"), 16384},
		{"2^31", ri("2147483648"), 1 << 31},
		{"2^32-1", ri("4294967295"), 1<<32 - 1},
		{"2^32", ri("4294967296"), 16384},
		{"-1", ri("-1"), 16384},
		{"string", "16384", 16384},
		{"2^32+16384", ri("4294983680"), 16384}, // extra: truncates to 16384 in a uint32
	}
}

var piecesLens = []int{0, 19, 20, 40}

type lenTok struct {
	name string
	v    func(pl int64) string // decimal literal; "" = absent
}

func singleLens() []lenTok {
	return []lenTok{
		{"absent", func(int64) string { return "" }},
		{"-1", func(int64) string { return "-1" }},
		{"0", func(int64) string { return "0" }},
		{"1", func(int64) string { return "1" }},
		{"pl", func(pl int64) string { return strconv.FormatInt(pl, 10) }},
		{"pl+1", func(pl int64) string { return strconv.FormatInt(pl+1, 10) }},
		{"2^63-1", func(int64) string { return "9223372036854775807" }},
		{"2pl", func(pl int64) string { return strconv.FormatInt(2*pl, 10) }}, // extra: the largest accepted 2-piece length
	}
}

func multiLens() []lenTok {
	return []lenTok{
		{"-pl", func(pl int64) string { return strconv.FormatInt(-pl, 10) }},
		{"-1", func(int64) string { return "-1" }},
		{"0", func(int64) string { return "0" }},
		{"1", func(int64) string { return "1" }},
		{"pl", func(pl int64) string { return strconv.FormatInt(pl, 10) }},
		{"2^62", func(int64) string { return "4611686018427387904" }},
		{"2^63-1", func(int64) string { return "9223372036854775807" }},
		{"pl+1", func(pl int64) string { return strconv.FormatInt(pl+1, 10) }}, // extra: makes 2-piece sums reachable
		{"pl+2", func(pl int64) string { return strconv.FormatInt(pl+2, 10) }}, // extra: 2*(2^63-1)+(pl+2) wraps to pl
	}
}

// numericLattice emits the full product. maxFiles3PL limits, in the quick tier, which piece-length
// tokens get the 3-entry file lists (nil = all).
func numericLattice(emit func(caseSpec), threeEntryPL map[string]bool) {
	for _, pl := range plTokens() {
		for _, pn := range piecesLens {
			pieces := piecesOf(pn)
			// single-file mode
			for _, l := range singleLens() {
				var lv any
				if s := l.v(pl.nom); s != "" {
					lv = ri(s)
				}
				d := dictOf([]tok{{"length", lv}, {"name", "t"}, {"piece length", pl.val}, {"pieces", pieces}}, false)
				emit(caseSpec{Class: "num.single", Desc: fmt.Sprintf("single pl=%s pieces=%d length=%s", pl.name, pn, l.name), Info: lit(refcodec.Benc(d))})
			}
			// multi-file mode: 1..3 entries x pad mask
			ml := multiLens()
			var rec func(cur []int)
			rec = func(cur []int) {
				if n := len(cur); n > 0 && (n < 3 || threeEntryPL == nil || (threeEntryPL[pl.name] && pn >= 20)) {
					for mask := 0; mask < 1<<n; mask++ {
						var files []any
						var names []string
						for i, li := range cur {
							fd := refcodec.D("length", ri(ml[li].v(pl.nom)), "path", []string{fmt.Sprintf("f%d", i)})
							nm := ml[li].name
							if mask>>i&1 == 1 {
								fd.Set("attr", "p")
								nm += "p"
							}
							files = append(files, fd)
							names = append(names, nm)
						}
						d := dictOf([]tok{{"files", files}, {"name", "t"}, {"piece length", pl.val}, {"pieces", pieces}}, false)
						emit(caseSpec{Class: fmt.Sprintf("num.multi%d", n), Desc: fmt.Sprintf("multi pl=%s pieces=%d files=[%s]", pl.name, pn, strings.Join(names, ",")), Info: lit(refcodec.Benc(d))})
					}
				}
				if len(cur) == 3 {
					return
				}
				for li := range ml {
					rec(append(cur, li))
				}
			}
			rec(nil)
		}
	}
}

// hugeLattice: well-formed dictionaries whose file lengths need more than 32 bits (piece length 1 MiB, so a
// few thousand hashes suffice). Arithmetic that narrows to 32 bits loses exactly these.
func hugeLattice(emit func(caseSpec)) {
	const pl = 1 << 20
	vecs := [][]int64{{1 << 32}, {1<<32 + 1}, {1<<32 - 1, 2}, {5, 1 << 32}, {1<<33 + 7}, {1 << 31, 1 << 31, 1}}
	for _, v := range vecs {
		var total int64
		var files []any
		var names []string
		for i, l := range v {
			total += l
			files = append(files, refcodec.D("length", l, "path", []string{fmt.Sprintf("f%d", i)}))
			names = append(names, strconv.FormatInt(l, 10))
		}
		n := int((total + pl - 1) / pl)
		d := dictOf([]tok{{"files", files}, {"name", "t"}, {"piece length", int64(pl)}, {"pieces", piecesOf(20 * n)}}, false)
		emit(caseSpec{Class: "num.huge", Desc: fmt.Sprintf("multi pl=2^20 pieces=%d files=[%s] (lengths beyond 32 bits)", n, strings.Join(names, ",")), Info: lit(refcodec.Benc(d))})
	}
}

// ---- shape axes: one-dimensional deviations from accepted bases

const basePL = 16384

func baseSingleKV() []tok {
	return []tok{{"length", basePL}, {"name", "t"}, {"piece length", basePL}, {"pieces", piecesOf(20)}}
}

func fileEntry(length any, path any, extra ...any) *refcodec.Dict {
	d := &refcodec.Dict{}
	if length != nil {
		d.Set("length", length)
	}
	if path != nil {
		d.Set("path", path)
	}
	for i := 0; i+1 < len(extra); i += 2 {
		if extra[i+1] != nil {
			d.Set(extra[i].(string), extra[i+1])
		}
	}
	return d
}

func baseMultiKV(files any) []tok {
	return []tok{{"files", files}, {"name", "t"}, {"piece length", basePL}, {"pieces", piecesOf(20)}}
}

func with(kv []tok, name string, val any) []tok {
	out := make([]tok, 0, len(kv)+1)
	found := false
	for _, t := range kv {
		if t.name == name {
			found = true
			if val != nil {
				out = append(out, tok{name, val})
			}
			continue
		}
		out = append(out, t)
	}
	if !found && val != nil {
		out = append(out, tok{name, val})
	}
	return out
}

func permutations(n int) [][]int {
	var out [][]int
	var rec func(cur []int, used int)
	rec = func(cur []int, used int) {
		if len(cur) == n {
			out = append(out, append([]int{}, cur...))
			return
		}
		for i := 0; i < n; i++ {
			if used>>i&1 == 0 {
				rec(append(cur, i), used|1<<i)
			}
		}
	}
	rec(nil, 0)
	return out
}

type named struct {
	name string
	val  any
}

func shapeLattice(emit func(caseSpec)) {
	add := func(class, desc string, d any) {
		emit(caseSpec{Class: class, Desc: desc, Info: lit(refcodec.Benc(d))})
	}
	long := strings.Repeat("a", 300)
	many := make([]string, 100)
	for i := range many {
		many[i] = "c"
	}
	// path shapes, on file 0 of a two-file accepted base (and on both files)
	paths := []named{
		{"absent", nil}, {"[]", []any{}}, {`[""]`, []string{""}}, {`["a",""]`, []string{"a", ""}}, {`["","a"]`, []string{"", "a"}},
		{"[i1e]", []any{1}}, {`["a",i1e]`, []any{"a", 1}}, {`"a" (string)`, "a"}, {"i1e (int)", 1}, {"{} (dict)", refcodec.D()},
		{`[[]]`, []any{[]any{}}}, {`[".."]`, []string{".."}}, {`["a","..","b"]`, []string{"a", "..", "b"}}, {`[" .. "]`, []string{" .. "}},
		{`["."]`, []string{"."}}, {`["/"]`, []string{"/"}}, {`["a/b"]`, []string{"a/b"}}, {`["\x00"]`, []string{"\x00"}},
		{`["\xff\xfe"]`, []string{"\xff\xfe"}}, {"[300*a]", []string{long}}, {"100 components", many}, {`["b"] (same as file 1)`, []string{"b"}},
	}
	for _, p := range paths {
		for _, pad0 := range []bool{false, true} {
			ex := []any{}
			if pad0 {
				ex = []any{"attr", "p"}
			}
			files := []any{fileEntry(basePL-1, p.val, ex...), fileEntry(1, []string{"b"})}
			add("shape.path", fmt.Sprintf("files[0].path=%s pad0=%v", p.name, pad0), dictOf(baseMultiKV(files), false))
			files2 := []any{fileEntry(basePL-1, p.val, ex...), fileEntry(1, p.val, ex...)}
			add("shape.path", fmt.Sprintf("files[0].path=files[1].path=%s pad=%v", p.name, pad0), dictOf(baseMultiKV(files2), false))
		}
		// path.utf-8 override
		files := []any{fileEntry(basePL-1, []string{"a"}, "path.utf-8", p.val), fileEntry(1, []string{"b"})}
		add("shape.path", fmt.Sprintf("files[0].path.utf-8=%s", p.name), dictOf(baseMultiKV(files), false))
	}
	// wrong types
	ints20 := make([]any, 20)
	for i := range ints20 {
		ints20[i] = 65 + i
	}
	vals := []named{
		{"int0", 0}, {"int1", 1}, {"int-1", -1}, {"str", "x"}, {"str16384", "16384"}, {"emptystr", ""}, {"list[]", []any{}}, {"list[1]", []any{1}},
		{"list of 20 ints", ints20}, {"list[str]", []any{"x"}}, {"list[[]]", []any{[]any{}}}, {"dict{}", refcodec.D()}, {"dict{a:1}", refcodec.D("a", 1)},
		{"i-0e", raw("i-0e")}, {"i00e", raw("i00e")}, {"ie", raw("ie")}, {"i1.5e", raw("i1.5e")}, {"i+1e", raw("i+1e")}, {"i 1e", raw("i 1e")},
		{"i99999999999999999999e", raw("i99999999999999999999e")}, {"i-9223372036854775808e", raw("i-9223372036854775808e")},
	}
	for _, key := range []string{"piece length", "pieces", "name", "name.utf-8", "length", "files", "private"} {
		for _, v := range vals {
			add("shape.type", fmt.Sprintf("single: %s=%s", key, v.name), dictOf(with(baseSingleKV(), key, v.val), false))
			mf := baseMultiKV([]any{fileEntry(basePL-1, []string{"a"}), fileEntry(1, []string{"b"})})
			add("shape.type", fmt.Sprintf("multi: %s=%s", key, v.name), dictOf(with(mf, key, v.val), false))
		}
	}
	for _, key := range []string{"length", "path", "attr", "path.utf-8"} {
		for _, v := range vals {
			fe := fileEntry(basePL-1, []string{"a"})
			fe.Set(key, v.val)
			add("shape.type", fmt.Sprintf("files[0].%s=%s", key, v.name), dictOf(baseMultiKV([]any{fe, fileEntry(1, []string{"b"})}), false))
		}
	}
	for _, v := range vals {
		add("shape.type", fmt.Sprintf("files[0]=%s", v.name), dictOf(baseMultiKV([]any{v.val, fileEntry(basePL, []string{"b"})}), false))
		add("shape.type", fmt.Sprintf("files[1]=%s", v.name), dictOf(baseMultiKV([]any{fileEntry(basePL, []string{"b"}), v.val}), false))
		add("shape.type", fmt.Sprintf("info=%s", v.name), v.val)
	}
	// both length and files present (single + multi at once), in the four sign combinations that matter
	for _, l := range []int64{-1, 0, basePL, 2 * basePL} {
		for _, fl := range []int64{-1, 0, basePL, 2 * basePL} {
			kv := with(baseSingleKV(), "length", l)
			kv = with(kv, "files", []any{fileEntry(fl, []string{"a"})})
			add("shape.both", fmt.Sprintf("length=%d and files=[%d]", l, fl), dictOf(kv, false))
		}
	}
	kvEmptyFiles := with(baseSingleKV(), "files", []any{})
	add("shape.both", "length=pl and files=[]", dictOf(kvEmptyFiles, false))
	add("shape.both", "files=[] only", dictOf(baseMultiKV([]any{}), false))
	// duplicate keys: good-then-bad and bad-then-good for every known key
	type dupv struct {
		key       string
		good, bad any
	}
	dups := []dupv{
		{"piece length", basePL, 0}, {"piece length", basePL, 1}, {"piece length", basePL, "x"},
		{"pieces", piecesOf(20), piecesOf(19)}, {"pieces", piecesOf(20), piecesOf(40)}, {"pieces", piecesOf(20), ""},
		{"length", basePL, -1}, {"length", basePL, 0}, {"length", basePL, 2 * basePL}, {"length", basePL, "x"},
		{"name", "t", ".."}, {"name", "t", 1}, {"name", "t", ""},
		{"private", 0, 1}, {"private", 0, []any{}},
	}
	for _, dv := range dups {
		for order := 0; order < 2; order++ {
			a, b := dv.good, dv.bad
			if order == 1 {
				a, b = b, a
			}
			d := &refcodec.Dict{NoSort: true}
			for _, t := range with(baseSingleKV(), "private", 0) {
				if t.name == dv.key {
					d.Keys = append(d.Keys, t.name, t.name)
					d.Vals = append(d.Vals, a, b)
				} else {
					d.Keys = append(d.Keys, t.name)
					d.Vals = append(d.Vals, t.val)
				}
			}
			add("shape.dup", fmt.Sprintf("duplicate key %q: first=%v second=%v", dv.key, short(a), short(b)), d)
		}
	}
	for order := 0; order < 2; order++ {
		good := []any{fileEntry(basePL, []string{"a"})}
		bad := []any{fileEntry(-1, []string{"a"}, "attr", "p"), fileEntry(basePL+1, []string{"b"})}
		a, b := any(good), any(bad)
		if order == 1 {
			a, b = b, a
		}
		d := &refcodec.Dict{NoSort: true, Keys: []string{"files", "files", "name", "piece length", "pieces"}, Vals: []any{a, b, "t", basePL, piecesOf(20)}}
		add("shape.dup", fmt.Sprintf("duplicate key \"files\" order=%d (one list holds a negative padding entry)", order), d)
		// duplicate keys inside a file entry
		fe := &refcodec.Dict{NoSort: true, Keys: []string{"length", "length", "path"}, Vals: []any{basePL, -1, []string{"a"}}}
		if order == 1 {
			fe.Vals[0], fe.Vals[1] = fe.Vals[1], fe.Vals[0]
		}
		add("shape.dup", fmt.Sprintf("duplicate key files[0].length order=%d", order), dictOf(baseMultiKV([]any{fe}), false))
	}
	// unsorted keys: every permutation of the four keys, single and multi
	for _, perm := range permutations(4) {
		for mode, kv := range [][]tok{baseSingleKV(), baseMultiKV([]any{fileEntry(basePL-1, []string{"a"}), fileEntry(1, []string{"b"})})} {
			d := &refcodec.Dict{NoSort: true}
			var names []string
			for _, i := range perm {
				d.Keys = append(d.Keys, kv[i].name)
				d.Vals = append(d.Vals, kv[i].val)
				names = append(names, kv[i].name)
			}
			add("shape.perm", fmt.Sprintf("mode=%d key order %v", mode, names), d)
		}
	}
	for _, perm := range permutations(3) {
		fe := &refcodec.Dict{NoSort: true}
		src := []tok{{"attr", "p"}, {"length", 1}, {"path", []string{"a"}}}
		var names []string
		for _, i := range perm {
			fe.Keys = append(fe.Keys, src[i].name)
			fe.Vals = append(fe.Vals, src[i].val)
			names = append(names, src[i].name)
		}
		add("shape.perm", fmt.Sprintf("file entry key order %v", names), dictOf(baseMultiKV([]any{fileEntry(basePL-1, []string{"b"}), fe}), false))
	}
	// pieces strings that are not a whole number of SHA-1 hashes, with the length a decoder that rounds down would accept
	for _, pn := range []int{1, 19, 21, 39, 41, 59, 61} {
		np := pn / 20
		if np == 0 {
			np = 1
		}
		kv := with(with(baseSingleKV(), "pieces", piecesOf(pn)), "length", np*basePL)
		add("shape.pieces", fmt.Sprintf("single: pieces string of %d bytes, length=%d*pl", pn, np), dictOf(kv, false))
		mf := baseMultiKV([]any{fileEntry(np*basePL-1, []string{"a"}), fileEntry(1, []string{"b"})})
		add("shape.pieces", fmt.Sprintf("multi: pieces string of %d bytes, lengths sum to %d*pl", pn, np), dictOf(with(mf, "pieces", piecesOf(pn)), false))
	}
	// name variants
	names := []named{{"absent", nil}, {`""`, ""}, {`"a"`, "a"}, {`".."`, ".."}, {`"."`, "."}, {`"/"`, "/"}, {`"a/b"`, "a/b"}, {`"../x"`, "../x"},
		{`"\x00"`, "\x00"}, {`"\xff"`, "\xff"}, {"300*a", long}, {"300*a+.ext", long + ".ext"}, {`" "`, " "}}
	for _, n := range names {
		add("shape.name", "single name="+n.name, dictOf(with(baseSingleKV(), "name", n.val), false))
		mf := baseMultiKV([]any{fileEntry(basePL-1, []string{"a"}), fileEntry(1, []string{"b"})})
		add("shape.name", "multi name="+n.name, dictOf(with(mf, "name", n.val), false))
		add("shape.name", "single name=t name.utf-8="+n.name, dictOf(with(baseSingleKV(), "name.utf-8", n.val), false))
	}
	// extra keys
	extras := []named{{"int", 1}, {"str", "x"}, {"list", []any{1, "a", []any{}}}, {"dict", refcodec.D("a", refcodec.D("b", []any{}))}, {"neg", -5}, {"bigstr", strings.Repeat("z", 5000)}}
	for _, key := range []string{"zz", "", "\x00", "meta version", "file tree", "source", "piece layers", "Length", "piece  length", "\xff\xff"} {
		for _, e := range extras {
			add("shape.extra", fmt.Sprintf("extra key %q=%s", key, e.name), dictOf(with(baseSingleKV(), key, e.val), false))
		}
	}
	for _, e := range extras {
		fe := fileEntry(basePL, []string{"a"}, "zz", e.val, "md5sum", e.val)
		add("shape.extra", "extra keys in file entry="+e.name, dictOf(baseMultiKV([]any{fe}), false))
	}
	// non-string / malformed dictionary keys and trailing garbage
	pre, post := splice(dictOf(with(baseSingleKV(), "zz", raw(mark)), false))
	_ = post
	for _, g := range []string{"i1ei1e", "lei1e", "dei1e", "e", "x", "-1:ai1e", "1:", "01:ai1e", "1:a"} {
		b := append(append([]byte{}, pre[:len(pre)-len("2:zz")]...), g...)
		b = append(b, 'e')
		emit(caseSpec{Class: "shape.key", Desc: fmt.Sprintf("valid dict + key/value garbage %q + e", g), Info: lit(b)})
	}
	good := refcodec.Benc(dictOf(baseSingleKV(), false))
	for _, tail := range []string{"e", "x", "de", "i0e", "\x00", string(good)} {
		emit(caseSpec{Class: "shape.trail", Desc: fmt.Sprintf("valid info + trailing %q", shortS(tail)), Info: lit(append(append([]byte{}, good...), tail...))})
	}
	for cut := 0; cut < len(good); cut++ {
		emit(caseSpec{Class: "shape.trunc", Desc: fmt.Sprintf("valid info truncated to %d of %d bytes", cut, len(good)), Info: lit(good[:cut])})
	}
}

func short(v any) string {
	return shortS(fmt.Sprintf("%v", v))
}

func shortS(s string) string {
	if len(s) > 24 {
		return fmt.Sprintf("%q...(%d)", s[:24], len(s))
	}
	return fmt.Sprintf("%q", s)
}

// ---- nesting axis

type nestPos struct {
	name    string
	info    func() any // info dict with raw(mark) at the position (nil: torrent-level)
	torrent func() any
}

func nestPositions() []nestPos {
	return []nestPos{
		{name: "info.zz (unknown key)", info: func() any { return dictOf(with(baseSingleKV(), "zz", raw(mark)), false) }},
		{name: "info.private", info: func() any { return dictOf(with(baseSingleKV(), "private", raw(mark)), false) }},
		{name: "info.files", info: func() any { return dictOf(baseMultiKV(raw(mark)), false) }},
		{name: "info.files[0].path", info: func() any { return dictOf(baseMultiKV([]any{fileEntry(basePL, raw(mark))}), false) }},
		{name: "info.files[0].zz", info: func() any {
			return dictOf(baseMultiKV([]any{fileEntry(basePL, []string{"a"}, "zz", raw(mark))}), false)
		}},
		{name: "info.pieces", info: func() any { return dictOf(with(baseSingleKV(), "pieces", raw(mark)), false) }},
		{name: "info.name", info: func() any { return dictOf(with(baseSingleKV(), "name", raw(mark)), false) }},
		{name: "info.length", info: func() any { return dictOf(with(baseSingleKV(), "length", raw(mark)), false) }},
		{name: "info (the info value itself)", torrent: func() any { return refcodec.D("announce", "http://x/", "info", raw(mark)) }},
		{name: "torrent.announce-list", torrent: func() any {
			return refcodec.D("announce-list", raw(mark), "info", raw(refcodec.Benc(dictOf(baseSingleKV(), false))))
		}},
		{name: "torrent.zz (unknown key)", torrent: func() any {
			return refcodec.D("info", raw(refcodec.Benc(dictOf(baseSingleKV(), false))), "zz", raw(mark))
		}},
	}
}

func nestLattice(depths []int, emit func(caseSpec)) {
	for _, pos := range nestPositions() {
		var pre, post []byte
		if pos.info != nil {
			pre, post = splice(pos.info())
		} else {
			pre, post = splice(pos.torrent())
		}
		for _, depth := range depths {
			for _, kind := range []string{"list", "dict"} {
				open, inner := "l", ""
				if kind == "dict" {
					open, inner = "d1:a", "le"
				}
				for _, term := range []bool{true, false} {
					ps := []part{{B: pre, N: 1}, {B: []byte(open), N: depth}}
					if term {
						if inner != "" {
							ps = append(ps, part{B: []byte(inner), N: 1})
						}
						ps = append(ps, part{B: []byte("e"), N: depth}, part{B: post, N: 1})
					}
					c := caseSpec{Class: "nest", Desc: fmt.Sprintf("%s nesting depth %d at %s, terminated=%v", kind, depth, pos.name, term), Hostile: depth >= 100000}
					if pos.info != nil {
						c.Info = ps
					} else {
						c.Torrent = ps
					}
					emit(c)
				}
			}
		}
	}
}

// ---- declared string length axis

func declenLattice(emit func(caseSpec)) {
	type dpos struct {
		name    string
		info    func() any
		torrent func() any
	}
	poss := []dpos{
		{name: "info.pieces", info: func() any { return dictOf(with(baseSingleKV(), "pieces", raw(mark)), false) }},
		{name: "info.name", info: func() any { return dictOf(with(baseSingleKV(), "name", raw(mark)), false) }},
		{name: "info.zz (unknown key value)", info: func() any { return dictOf(with(baseSingleKV(), "zz", raw(mark)), false) }},
		{name: "info.private", info: func() any { return dictOf(with(baseSingleKV(), "private", raw(mark)), false) }},
		{name: "info.files[0].path[0]", info: func() any {
			return dictOf(baseMultiKV([]any{fileEntry(basePL, []any{raw(mark)})}), false)
		}},
		{name: "info key", info: func() any {
			// the key itself is the mark: encode by hand
			b := refcodec.Benc(dictOf(baseSingleKV(), false))
			return raw(string(b[:len(b)-1]) + mark + "i1ee")
		}},
		{name: "torrent key", torrent: func() any {
			return raw("d4:info" + string(refcodec.Benc(dictOf(baseSingleKV(), false))) + mark + "i1ee")
		}},
		{name: "torrent.announce", torrent: func() any {
			return refcodec.D("announce", raw(mark), "info", raw(refcodec.Benc(dictOf(baseSingleKV(), false))))
		}},
		{name: "torrent first byte", torrent: func() any { return raw(mark) }},
	}
	type dlen struct {
		name    string
		decl    func(body int) string
		hostile bool
	}
	lens := []dlen{
		{"exact", func(b int) string { return strconv.Itoa(b) }, false},
		{"+1", func(b int) string { return strconv.Itoa(b + 1) }, false},
		{"2^31-1", func(int) string { return "2147483647" }, true},
		{"2^24 (extra)", func(int) string { return "16777216" }, false},
		{"2^31 (extra)", func(int) string { return "2147483648" }, false},
		{"-1 (extra)", func(int) string { return "-1" }, false},
		{"leading zeros (extra)", func(b int) string { return "000" + strconv.Itoa(b) }, false},
		{"20 digits (extra)", func(int) string { return "99999999999999999999" }, false},
		// declarations around the 64-bit edge: an accumulator that wraps turns them into small or negative lengths
		{"2^63-1", func(int) string { return "9223372036854775807" }, true},
		{"2^63", func(int) string { return "9223372036854775808" }, true},
		{"2^64-21 (wraps to minus the length of its own prefix)", func(int) string { return "18446744073709551595" }, true},
		{"2^64+3 (wraps to the body length)", func(int) string { return "18446744073709551619" }, true},
	}
	for _, pos := range poss {
		var pre, post []byte
		if pos.info != nil {
			pre, post = splice(pos.info())
		} else {
			pre, post = splice(pos.torrent())
		}
		for _, body := range []string{"abc", piecesString20} {
			for _, l := range lens {
				if l.hostile && body != "abc" {
					continue // one body is enough for the 2 GiB declarations (each runs alone in a fresh process)
				}
				for _, truncated := range []bool{false, true} {
					s := l.decl(len(body)) + ":" + body
					ps := []part{{B: pre, N: 1}, {B: []byte(s), N: 1}}
					if !truncated {
						ps = append(ps, part{B: post, N: 1})
					}
					c := caseSpec{Class: "declen", Desc: fmt.Sprintf("string at %s declared %s with a %d-byte body, input ends after body=%v", pos.name, l.name, len(body), truncated), Hostile: l.hostile}
					if pos.info != nil {
						c.Info = ps
					} else {
						c.Torrent = ps
					}
					emit(c)
				}
			}
		}
	}
}

var piecesString20 = string(piecesOf(20))

// ---- torrent-size limit edges for the session part: an accepted torrent padded with a comment so
// that the whole .torrent is exactly n bytes long.
func torrentOfSize(n int) (caseSpec, bool) {
	info := refcodec.Benc(dictOf(baseSingleKV(), false))
	for pad := 0; pad < n; pad++ {
		b := refcodec.Benc(refcodec.D("comment", strings.Repeat("c", pad), "info", raw(info)))
		if len(b) == n {
			return caseSpec{Class: "limit.size", Desc: fmt.Sprintf("accepted single-file torrent padded by a comment to exactly %d bytes", n), Torrent: lit(b)}, true
		}
	}
	return caseSpec{}, false
}

//go:build verif

package geom

import (
	"bytes"
	"fmt"
	"os"
	"os/exec"
	"strings"
	"syscall"
	"time"

	"github.com/cenkalti/rain/v2/internal/allocator"
	"github.com/cenkalti/rain/v2/internal/metainfo"
	"github.com/cenkalti/rain/v2/internal/piece"
	"github.com/cenkalti/rain/v2/internal/storage"
	"github.com/cenkalti/rain/v2/zzverif/core"
	"github.com/cenkalti/rain/v2/zzverif/refcodec"
)

// Geometry beyond 32 bits: file lengths of 4 GiB and more, piece length 1..16 MiB. No data is materialised:
// the storage hands out size-only files, and the oracle is the arithmetic of the tiling (every piece has its
// nominal length except the last, the sections of a piece add up to its length and walk the files in order,
// blocks cover the piece). Piece construction that does not come back is a violation, so the work is done in
// a child process under an address-space limit and a deadline.

type sizeFile struct{ size int64 }

func (f *sizeFile) ReadAt(p []byte, off int64) (int, error)  { return len(p), nil }
func (f *sizeFile) WriteAt(p []byte, off int64) (int, error) { return len(p), nil }
func (f *sizeFile) Close() error                             { return nil }

type sizeStorage struct{}

func (sizeStorage) Open(name string, size int64) (storage.File, bool, error) {
	return &sizeFile{size}, false, nil
}
func (sizeStorage) RootDir() string { return "/size" }

type hugeCase struct {
	pl    int64
	files []int64
	pad   []bool
}

func hugeCases() []hugeCase {
	g := int64(1) << 32
	return []hugeCase{
		{1 << 20, []int64{g}, nil},
		{1 << 24, []int64{g}, nil},
		{1 << 20, []int64{g + 1}, nil},
		{1 << 20, []int64{g - 1, 2}, nil},
		{1 << 20, []int64{5, g}, nil},
		{1 << 22, []int64{2*g + 7}, nil},
		{1 << 20, []int64{g + 3, (1 << 20) - 3, 77}, []bool{false, true, false}},
		{1 << 20, []int64{1 << 31, 1 << 31, 1}, nil},
	}
}

func (h hugeCase) String() string { return fmt.Sprintf("pl=%d files=%v pad=%v", h.pl, h.files, h.pad) }

func hugeChild() {
	var lim syscall.Rlimit
	lim.Cur, lim.Max = 3<<30, 3<<30
	syscall.Setrlimit(syscall.RLIMIT_AS, &lim)
	for ci, h := range hugeCases() {
		var total int64
		var files []any
		for i, l := range h.files {
			total += l
			d := refcodec.D("length", l, "path", []string{fmt.Sprintf("f%d", i)})
			if h.pad != nil && h.pad[i] {
				d.Set("attr", "p")
			}
			files = append(files, d)
		}
		n := int((total + h.pl - 1) / h.pl)
		infoB := refcodec.Benc(refcodec.D("name", "t", "piece length", h.pl, "pieces", bytes.Repeat([]byte{'h'}, 20*n), "files", files))
		info, err := metainfo.NewInfo(infoB, true, true)
		if err != nil {
			fmt.Printf("HUGE %d REJECTED %v\n", ci, err)
			continue
		}
		fmt.Printf("HUGE %d START\n", ci)
		al := allocator.New()
		al.Run(info, sizeStorage{}, make(chan allocator.Progress, len(h.files)+1), make(chan *allocator.Allocator, 1))
		if al.Error != nil {
			fmt.Printf("HUGE %d FAIL allocator: %v\n", ci, al.Error)
			continue
		}
		pieces := piece.NewPieces(info, al.Files)
		bad := ""
		if len(pieces) != n {
			bad = fmt.Sprintf("%d pieces, want %d", len(pieces), n)
		}
		var covered int64
		fi, fo := 0, int64(0)
		for pi := range pieces {
			p := &pieces[pi]
			want := h.pl
			if pi == n-1 {
				want = total - h.pl*int64(n-1)
			}
			if int64(p.Length) != want && bad == "" {
				bad = fmt.Sprintf("piece %d has length %d, want %d", pi, p.Length, want)
			}
			var sum int64
			for _, sec := range p.Data {
				for fi < len(h.files) && fo == h.files[fi] {
					fi, fo = fi+1, 0
				}
				if sec.Length > 0 && (fi >= len(h.files) || sec.Offset != fo) && bad == "" {
					bad = fmt.Sprintf("piece %d: section at file offset %d, the tiling is at file %d offset %d", pi, sec.Offset, fi, fo)
				}
				fo += sec.Length
				sum += sec.Length
			}
			if sum != int64(p.Length) && bad == "" {
				bad = fmt.Sprintf("piece %d: sections add up to %d, piece length %d", pi, sum, p.Length)
			}
			covered += sum
			if pi == 0 || pi == n-1 || pi == n/2 {
				var bsum int64
				for _, b := range p.CalculateBlocks() {
					bsum += int64(b.Length)
				}
				var data int64
				for _, sec := range p.Data {
					if !sec.Padding {
						data += sec.Length
					}
				}
				if bsum != data && bad == "" {
					bad = fmt.Sprintf("piece %d: blocks cover %d bytes, the piece has %d non-padding bytes", pi, bsum, data)
				}
			}
		}
		if covered != total && bad == "" {
			bad = fmt.Sprintf("pieces cover %d bytes of %d", covered, total)
		}
		if bad != "" {
			fmt.Printf("HUGE %d FAIL %s\n", ci, bad)
		} else {
			fmt.Printf("HUGE %d OK\n", ci)
		}
	}
	fmt.Println("HUGE DONE")
}

// hugePart runs the child and turns its report into violations.
func hugePart(rep *core.Report) {
	cmd := exec.Command(os.Args[0], "-test.run", "^TestC02$", "-test.timeout", "0")
	cmd.Env = append(os.Environ(), "VERIF_C02_HUGE_CHILD=1")
	var out bytes.Buffer
	cmd.Stdout, cmd.Stderr = &out, &out
	cmd.Start()
	done := make(chan error, 1)
	go func() { done <- cmd.Wait() }()
	timedOut := false
	select {
	case <-done:
	case <-time.After(120 * time.Second):
		cmd.Process.Kill()
		<-done
		timedOut = true
	}
	cases := hugeCases()
	started, finished := -1, map[int]bool{}
	var ok int64
	for _, ln := range strings.Split(out.String(), "\n") {
		var ci int
		var word string
		if n, _ := fmt.Sscanf(ln, "HUGE %d %s", &ci, &word); n == 2 && ci < len(cases) {
			switch word {
			case "START":
				started = ci
			case "OK":
				ok++
				finished[ci] = true
			case "REJECTED":
				finished[ci] = true
			case "FAIL":
				finished[ci] = true
				rep.Violate("C02.huge.tiling", fmt.Sprintf("layout %s: %s", cases[ci], strings.SplitN(ln, "FAIL ", 2)[1]), cases[ci].String())
			}
		}
	}
	if !strings.Contains(out.String(), "HUGE DONE") && started >= 0 && !finished[started] {
		how := "the process died (address-space limit 3 GiB)"
		if timedOut {
			how = "no result after 120 s"
		}
		rep.Violate("C02.huge.nontermination", fmt.Sprintf("layout %s: allocator + piece.NewPieces do not come back: %s", cases[started], how), cases[started].String())
	}
	rep.Extra["huge_layouts"] = int64(len(cases))
	rep.Extra["huge_layouts_tiled_correctly"] = ok
	if ok == 0 && rep.NumViolations() == 0 {
		rep.Vacuous("vacuous: no layout beyond 32 bits was accepted and tiled: %s", tailOf(out.String()))
	}
}

func tailOf(s string) string {
	if len(s) > 400 {
		return s[len(s)-400:]
	}
	return s
}

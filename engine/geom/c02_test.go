//go:build verif

// Package geom: C02 — piece/file geometry, bounded-exhaustive enumeration of layouts against a flat
// byte-array model. Every member of the bounded space is executed on the real rain code
// (metainfo.NewInfo, allocator, piece.NewPieces, calculateBlocks, filesection Write/ReadAt,
// urldownloader.createJobs, metainfo.NewInfoBytes, verifier).
package geom

import (
	"bytes"
	"crypto/sha1"
	"fmt"
	"io"
	"os"
	"path/filepath"
	"runtime"
	"sort"
	"strings"
	"sync"
	"testing"

	"github.com/cenkalti/rain/v2/internal/allocator"
	"github.com/cenkalti/rain/v2/internal/bufferpool"
	"github.com/cenkalti/rain/v2/internal/logger"
	"github.com/cenkalti/rain/v2/internal/metainfo"
	"github.com/cenkalti/rain/v2/internal/piece"
	"github.com/cenkalti/rain/v2/internal/piecedownloader"
	"github.com/cenkalti/rain/v2/internal/storage"
	"github.com/cenkalti/rain/v2/internal/storage/filestorage"
	"github.com/cenkalti/rain/v2/internal/urldownloader"
	"github.com/cenkalti/rain/v2/internal/verifier"
	"github.com/cenkalti/rain/v2/zzverif/core"
	"github.com/cenkalti/rain/v2/zzverif/refcodec"
)

type fileSpec struct {
	Len int64
	Pad bool
}

type layout struct {
	Files []fileSpec
	PL    uint32
	Scale int64 // bytes per unit (1 at unit scale, 16384 at real scale); Extra added to PL at real scale
}

func (l layout) String() string {
	var sb strings.Builder
	for i, f := range l.Files {
		if i > 0 {
			sb.WriteByte(',')
		}
		if f.Pad {
			fmt.Fprintf(&sb, "pad%d", f.Len)
		} else {
			fmt.Fprintf(&sb, "f%d", f.Len)
		}
	}
	return fmt.Sprintf("[%s] pl=%d", sb.String(), l.PL)
}

// ---- in-memory storage (records writes, refuses nothing)

type memFile struct {
	mu     sync.Mutex
	data   []byte
	writes int
}

func (f *memFile) ReadAt(p []byte, off int64) (int, error) {
	if off >= int64(len(f.data)) {
		return 0, io.EOF
	}
	n := copy(p, f.data[off:])
	if n < len(p) {
		return n, io.EOF
	}
	return n, nil
}
func (f *memFile) WriteAt(p []byte, off int64) (int, error) {
	if off+int64(len(p)) > int64(len(f.data)) {
		return 0, fmt.Errorf("write beyond file size: off=%d len=%d size=%d", off, len(p), len(f.data))
	}
	f.writes++
	copy(f.data[off:], p)
	return len(p), nil
}
func (f *memFile) Close() error { return nil }

type memStorage struct{ files map[string]*memFile }

func (s *memStorage) Open(name string, size int64) (storage.File, bool, error) {
	if f, ok := s.files[name]; ok {
		return f, true, nil
	}
	f := &memFile{data: make([]byte, size)}
	s.files[name] = f
	return f, false, nil
}
func (s *memStorage) RootDir() string { return "/mem" }

// ---- model

type model struct {
	A       []byte  // concatenation of all files; padding bytes are zero
	isPad   []bool  // per byte of A
	fileOf  []int   // per byte of A: file index
	start   []int64 // global start offset of each file
	content [][]byte
}

func buildModel(l layout) *model {
	m := &model{}
	var g int64
	for i, f := range l.Files {
		m.start = append(m.start, g)
		c := make([]byte, f.Len)
		for k := range c {
			if !f.Pad {
				c[k] = byte(1 + (int(g)+k*7+i*31)%250)
			}
			m.isPad = append(m.isPad, f.Pad)
			m.fileOf = append(m.fileOf, i)
		}
		m.content = append(m.content, c)
		m.A = append(m.A, c...)
		g += f.Len
	}
	return m
}

func buildInfo(l layout, m *model) []byte { return buildInfoN(l, m, 0) }

// buildInfoN: the info dictionary with extra (>0: surplus zero-data hashes, <0: missing) piece hashes.
func buildInfoN(l layout, m *model, extra int) []byte {
	var pieces []byte
	for off := 0; off < len(m.A); off += int(l.PL) {
		e := off + int(l.PL)
		if e > len(m.A) {
			e = len(m.A)
		}
		h := sha1.Sum(m.A[off:e])
		pieces = append(pieces, h[:]...)
	}
	for ; extra > 0; extra-- {
		h := sha1.Sum(nil)
		pieces = append(pieces, h[:]...)
	}
	if extra < 0 && len(pieces) >= 20 {
		pieces = pieces[:len(pieces)-20]
	}
	var files []any
	for i, f := range l.Files {
		d := refcodec.D("length", f.Len, "path", []string{fmt.Sprintf("f%d", i)})
		if f.Pad {
			d.Set("attr", "p")
		}
		files = append(files, d)
	}
	return refcodec.Benc(refcodec.D("name", "t", "piece length", int64(l.PL), "pieces", pieces, "files", files))
}

type checker struct {
	rep *core.Report
	mu  sync.Mutex
}

func (c *checker) fail(oracle string, l layout, format string, a ...any) {
	hasPad := "nopad"
	for _, f := range l.Files {
		if f.Pad {
			hasPad = "pad"
		}
	}
	c.rep.Violate("C02."+oracle+"."+hasPad, fmt.Sprintf("layout %s: %s", l, fmt.Sprintf(format, a...)),
		map[string]any{"layout": l, "oracle": oracle})
}

// checkLayout runs every C02 oracle on one layout. blockSizes are the block sizes to enumerate
// (unit scale: 1..4 through the in-package hook; real scale: 16 KiB through CalculateBlocks).
func (c *checker) checkLayout(l layout, blockSizes []uint32, allReads bool) (accepted bool) {
	defer func() {
		if r := recover(); r != nil {
			buf := make([]byte, 4096)
			n := runtime.Stack(buf, false)
			c.fail("panic", l, "panic: %v\n%s", r, topFrames(string(buf[:n])))
		}
	}()
	m := buildModel(l)
	if len(m.A) == 0 {
		return false
	}
	infoB := buildInfo(l, m)
	info, err := metainfo.NewInfo(infoB, true, true)
	if err != nil {
		return false // only layouts the client accepts are in scope
	}
	// the same files with one piece hash too many / too few do not tile: never accepted
	for _, extra := range []int{1, -1} {
		if bad, err := metainfo.NewInfo(buildInfoN(l, m, extra), true, true); err == nil {
			c.fail("info.wrong-piece-count-accepted", l, "info dictionary with %+d piece hash(es) for these files is accepted (NumPieces=%d, Length=%d, piece length %d): the pieces do not tile the files", extra, bad.NumPieces, bad.Length, l.PL)
		}
	}
	total := int64(len(m.A))
	if info.Length != total {
		c.fail("info.length", l, "Info.Length=%d want %d", info.Length, total)
	}
	wantN := uint32((total + int64(l.PL) - 1) / int64(l.PL))
	if info.NumPieces != wantN {
		c.fail("info.numpieces", l, "NumPieces=%d want %d", info.NumPieces, wantN)
	}
	// real allocator over in-memory storage
	sto := &memStorage{files: map[string]*memFile{}}
	al := allocator.New()
	progressC := make(chan allocator.Progress, len(l.Files)+1)
	resultC := make(chan *allocator.Allocator, 1)
	al.Run(info, sto, progressC, resultC)
	if al.Error != nil {
		c.fail("allocator", l, "allocator error: %v", al.Error)
		return true
	}
	for i, f := range l.Files {
		if f.Pad {
			if _, isPad := al.Files[i].Storage.(storage.PaddingFile); !isPad || !al.Files[i].Padding {
				c.fail("allocator.padding", l, "file %d is padding but allocator gave %T", i, al.Files[i].Storage)
			}
		}
	}
	pieces := piece.NewPieces(info, al.Files)
	if uint32(len(pieces)) != wantN {
		c.fail("pieces.count", l, "len(pieces)=%d want %d", len(pieces), wantN)
		return true
	}
	// storage identity -> file index
	fileIdx := map[*memFile]int{}
	for i, f := range al.Files {
		if mf, ok := f.Storage.(*memFile); ok {
			fileIdx[mf] = i
		}
	}
	for pi := range pieces {
		p := &pieces[pi]
		pstart := int64(pi) * int64(l.PL)
		pend := pstart + int64(l.PL)
		if pend > total {
			pend = total
		}
		if int64(p.Length) != pend-pstart {
			c.fail("piece.length", l, "piece %d Length=%d want %d", pi, p.Length, pend-pstart)
			continue
		}
		if p.Index != uint32(pi) {
			c.fail("piece.index", l, "piece %d has Index %d", pi, p.Index)
		}
		// (a) sections describe exactly A[pstart:pend], in order, once
		g := pstart
		okSections := true
		for si, sec := range p.Data {
			if sec.Length < 0 {
				c.fail("sections.negative", l, "piece %d section %d length %d", pi, si, sec.Length)
				okSections = false
				break
			}
			if sec.Length == 0 {
				continue
			}
			if g >= pend {
				c.fail("sections.overrun", l, "piece %d sections extend past the piece end", pi)
				okSections = false
				break
			}
			fi := m.fileOf[g]
			wantOff := g - m.start[fi]
			if sec.Padding != l.Files[fi].Pad {
				c.fail("sections.padflag", l, "piece %d section %d padding=%v but byte %d belongs to file %d pad=%v", pi, si, sec.Padding, g, fi, l.Files[fi].Pad)
				okSections = false
			}
			if !sec.Padding {
				mf, _ := sec.File.(*memFile)
				if got, ok := fileIdx[mf]; !ok || got != fi {
					c.fail("sections.file", l, "piece %d section %d refers to file %d want %d", pi, si, got, fi)
					okSections = false
				}
			}
			if sec.Offset != wantOff {
				c.fail("sections.offset", l, "piece %d section %d offset %d want %d", pi, si, sec.Offset, wantOff)
				okSections = false
			}
			if wantOff+sec.Length > l.Files[fi].Len {
				c.fail("sections.length", l, "piece %d section %d crosses the end of file %d", pi, si, fi)
				okSections = false
			}
			g += sec.Length
		}
		if okSections && g != pend {
			c.fail("sections.cover", l, "piece %d sections cover %d bytes want %d", pi, g-pstart, pend-pstart)
		}
		// (b) blocks: exactly the non-padding bytes, disjoint, each 0 < len <= bs
		for _, bs := range blockSizes {
			var blocks []piece.Block
			if bs == piece.BlockSize {
				blocks = p.CalculateBlocks()
			} else {
				blocks = p.VerifCalculateBlocks(bs)
			}
			covered := make([]int, p.Length)
			bad := false
			for _, b := range blocks {
				if b.Length == 0 || b.Length > bs || uint64(b.Begin)+uint64(b.Length) > uint64(p.Length) {
					c.fail("blocks.shape", l, "piece %d bs=%d block %+v out of shape (piece len %d); blocks=%v", pi, bs, b, p.Length, blocks)
					bad = true
					break
				}
				for k := b.Begin; k < b.Begin+b.Length; k++ {
					covered[k]++
				}
			}
			if bad {
				continue
			}
			for k := range covered {
				pad := m.isPad[pstart+int64(k)]
				if pad && covered[k] != 0 {
					c.fail("blocks.coverpad", l, "piece %d bs=%d requests padding byte %d; blocks=%v", pi, bs, k, blocks)
					break
				}
				if !pad && covered[k] != 1 {
					c.fail("blocks.cover", l, "piece %d bs=%d data byte %d covered %d times; blocks=%v", pi, bs, k, covered[k], blocks)
					break
				}
			}
			for k := 1; k < len(blocks); k++ {
				if blocks[k].Begin < blocks[k-1].Begin+blocks[k-1].Length {
					c.fail("blocks.order", l, "piece %d bs=%d blocks not ascending: %v", pi, bs, blocks)
					break
				}
			}
			if bs == piece.BlockSize {
				// the requests the real piece downloader sends to a peer (and the cancels it sends when it gives up) are
				// exactly those blocks: same offsets, same lengths, nothing inside padding
				rec := &recPeer{}
				pd := piecedownloader.New(p, rec, false, bufferpool.Buffer{})
				pd.RequestBlocks(1 << 20)
				same := len(rec.req) == len(blocks)
				for k := 0; same && k < len(blocks); k++ {
					same = rec.req[k] == [3]uint32{p.Index, blocks[k].Begin, blocks[k].Length}
				}
				if !same {
					c.fail("requests.blocks", l, "piece %d: the piece downloader requests (index,begin,length) %v, the blocks of the piece are %v", pi, rec.req, blocks)
				}
				pd.CancelPending()
				sort.Slice(rec.cancel, func(a, b int) bool { return rec.cancel[a][1] < rec.cancel[b][1] })
				same = len(rec.cancel) == len(blocks)
				for k := 0; same && k < len(blocks); k++ {
					same = rec.cancel[k] == [3]uint32{p.Index, blocks[k].Begin, blocks[k].Length}
				}
				if !same {
					c.fail("requests.cancels", l, "piece %d: the piece downloader cancels (index,begin,length) %v, the blocks requested were %v", pi, rec.cancel, blocks)
				}
				c.rep.Add("piece_downloader_requests_compared", int64(len(rec.req)))
			}
		}
		// (c) write, then read every sub-range back
		n, err := p.Data.Write(m.A[pstart:pend])
		var nonpad int
		for k := pstart; k < pend; k++ {
			if !m.isPad[k] {
				nonpad++
			}
		}
		if err != nil || n != nonpad {
			c.fail("write", l, "piece %d Write returned n=%d err=%v want n=%d", pi, n, err, nonpad)
		}
		plen := int(p.Length)
		readOne := func(off, ln int) bool {
			buf := make([]byte, ln)
			for k := range buf {
				buf[k] = 0xEE
			}
			rn, rerr := p.Data.ReadAt(buf, int64(off))
			if rn != ln || (rerr != nil && rerr != io.EOF) || !bytes.Equal(buf, m.A[pstart+int64(off):pstart+int64(off+ln)]) {
				c.fail("readat", l, "piece %d ReadAt(off=%d,len=%d) n=%d err=%v bytes-equal=%v", pi, off, ln, rn, rerr, bytes.Equal(buf, m.A[pstart+int64(off):pstart+int64(off+ln)]))
				return false
			}
			return true
		}
		if allReads {
		outer:
			for off := 0; off < plen; off++ {
				for ln := 1; off+ln <= plen; ln++ {
					if !readOne(off, ln) {
						break outer
					}
				}
			}
		} else {
			// real scale: every pair of positions from the boundary lattice (section edges, 16 KiB edges, piece edges, each +-1)
			pts := map[int]bool{}
			addPt := func(x int) {
				for _, d := range []int{-1, 0, 1} {
					if x+d >= 0 && x+d <= plen {
						pts[x+d] = true
					}
				}
			}
			addPt(0)
			addPt(plen)
			for x := 0; x <= plen; x += 16384 {
				addPt(x)
			}
			g2 := 0
			for _, sec := range p.Data {
				g2 += int(sec.Length)
				addPt(g2)
			}
			var ps []int
			for x := range pts {
				ps = append(ps, x)
			}
			sort.Ints(ps)
		outer2:
			for _, a := range ps {
				for _, b := range ps {
					if b > a {
						if !readOne(a, b-a) {
							break outer2
						}
					}
				}
			}
		}
	}
	// after all pieces are written every file has exactly its model content
	for i, f := range al.Files {
		if mf, ok := f.Storage.(*memFile); ok {
			if !bytes.Equal(mf.data, m.content[i]) {
				c.fail("files.content", l, "file %d content differs from the model after writing all pieces", i)
			}
		}
	}
	// (d) web-seed jobs cover pieces [b,e) exactly
	for b := uint32(0); b < wantN; b++ {
		for e := b + 1; e <= wantN; e++ {
			jobs := urldownloader.VerifCreateJobs(pieces, b, e)
			var got []byte
			for _, j := range jobs {
				if j.Padding {
					got = append(got, make([]byte, j.Length)...)
					continue
				}
				mf := sto.files[j.Filename]
				if mf == nil || j.RangeBegin < 0 || j.RangeBegin+j.Length > int64(len(mf.data)) {
					c.fail("jobs.range", l, "jobs[%d,%d): job %+v outside its file", b, e, j)
					got = nil
					break
				}
				got = append(got, mf.data[j.RangeBegin:j.RangeBegin+j.Length]...)
			}
			ws := int64(b) * int64(l.PL)
			we := int64(e) * int64(l.PL)
			if we > total {
				we = total
			}
			if !bytes.Equal(got, m.A[ws:we]) {
				c.fail("jobs.cover", l, "jobs[%d,%d) = %+v do not reproduce the pieces' bytes", b, e, jobs)
			}
		}
	}
	// (e) the verifier accepts the written data completely
	v := verifier.New()
	vp := make(chan verifier.Progress, len(pieces)+1)
	vr := make(chan *verifier.Verifier, 1)
	v.Run(pieces, vp, vr)
	if v.Error != nil || v.Bitfield == nil || !v.Bitfield.All() {
		c.fail("verify", l, "verifier over the written data: err=%v all=%v", v.Error, v.Bitfield != nil && v.Bitfield.All())
	}
	return true
}

func topFrames(st string) string {
	lines := strings.Split(st, "\n")
	var out []string
	for _, ln := range lines {
		if strings.Contains(ln, "/repo/") && !strings.Contains(ln, "zzverif") {
			out = append(out, strings.TrimSpace(ln))
			if len(out) >= 3 {
				break
			}
		}
	}
	return strings.Join(out, " <- ")
}

func enumLayouts(maxFiles int, maxLen int64, maxPL uint32, emit func(layout)) {
	var rec func(files []fileSpec)
	rec = func(files []fileSpec) {
		if len(files) > 0 {
			for pl := uint32(1); pl <= maxPL; pl++ {
				emit(layout{Files: append([]fileSpec{}, files...), PL: pl, Scale: 1})
			}
		}
		if len(files) == maxFiles {
			return
		}
		for ln := int64(0); ln <= maxLen; ln++ {
			for _, pad := range []bool{false, true} {
				rec(append(files, fileSpec{ln, pad}))
			}
		}
	}
	rec(nil)
}

func TestC02(t *testing.T) {
	if os.Getenv("VERIF_C02_HUGE_CHILD") != "" {
		hugeChild()
		return
	}
	logger.Disable()
	rep := core.NewReport("C02", "geom", "exploration")
	rep.Rule = "every file-length vector (n files, each 0..L bytes, with/without BEP-47 padding flag) x piece length 1..P at unit scale, " +
		"block sizes 1..4 via the in-package calculateBlocks, every (offset,length) read inside every piece, every [begin,end) web-seed job range; " +
		"plus the 16 KiB-scaled image of every n<=2 layout with piece lengths {16,32,48 KiB, 24 KiB, 40 KiB+1} through CalculateBlocks; " +
		"plus create->parse->allocate->verify on enumerated directory trees, plus size-only layouts with file lengths of 4 GiB and more (tiling arithmetic, termination of piece construction in a child process). Non-trivial = accepted by metainfo.NewInfo; distinct = distinct (layout) strings."
	rep.Assumptions = []string{"byte values outside the generator pattern are not enumerated (geometry is value-independent)",
		"file counts/lengths beyond the stated bounds are covered only through the unit-scale coincidence lattice"}
	c := &checker{rep: rep}
	maxFiles, maxLen, maxPL := 3, int64(6), uint32(5)
	if core.Thorough() {
		maxFiles, maxLen, maxPL = 4, 7, 7
	}
	var layouts []layout
	enumLayouts(maxFiles, maxLen, maxPL, func(l layout) { layouts = append(layouts, l) })
	// real scale
	const K = 16384
	realPL := []uint32{K, 2 * K, 3 * K, K + K/2, 2*K + K/2 + 1}
	var reals []layout
	maxRealLen := int64(3)
	enumLayouts(2, maxRealLen, 1, func(l layout) {
		for _, pl := range realPL {
			r := layout{PL: pl, Scale: K}
			for _, f := range l.Files {
				r.Files = append(r.Files, fileSpec{f.Len * K, f.Pad})
			}
			reals = append(reals, r)
			// off-by-one file lengths exercise non-aligned ends
			if len(r.Files) > 0 && r.Files[0].Len > 0 {
				r2 := layout{PL: pl, Scale: K, Files: append([]fileSpec{}, r.Files...)}
				r2.Files[0].Len++
				reals = append(reals, r2)
				r3 := layout{PL: pl, Scale: K, Files: append([]fileSpec{}, r.Files...)}
				r3.Files[0].Len--
				reals = append(reals, r3)
			}
		}
	})
	var accepted, acceptedReal int64
	var wg sync.WaitGroup
	var cmu sync.Mutex
	work := make(chan layout, 1024)
	for w := 0; w < core.Parallelism(); w++ {
		wg.Add(1)
		go func() {
			defer wg.Done()
			for l := range work {
				var ok bool
				if l.Scale == 1 {
					ok = c.checkLayout(l, []uint32{1, 2, 3, 4}, true)
				} else {
					ok = c.checkLayout(l, []uint32{piece.BlockSize}, false)
				}
				cmu.Lock()
				if ok {
					if l.Scale == 1 {
						accepted++
					} else {
						acceptedReal++
					}
				}
				cmu.Unlock()
			}
		}()
	}
	for i, l := range layouts {
		if i%9973 == 0 {
			rep.Sample(6, l.String())
		}
		work <- l
	}
	for i, l := range reals {
		if i%97 == 0 {
			rep.Sample(10, "real-scale "+l.String())
		}
		work <- l
	}
	close(work)
	wg.Wait()
	rep.Evaluations = int64(len(layouts) + len(reals))
	rep.Distinct = accepted + acceptedReal
	rep.Extra["unit_layouts"] = int64(len(layouts))
	rep.Extra["unit_layouts_accepted"] = accepted
	rep.Extra["real_scale_layouts"] = int64(len(reals))
	rep.Extra["real_scale_accepted"] = acceptedReal
	rep.Extra["bounds"] = fmt.Sprintf("files<=%d len<=%d pl<=%d blocksize 1..4; real-scale n<=2 len<=%d*16K", maxFiles, maxLen, maxPL, maxRealLen)
	if accepted == 0 || acceptedReal == 0 {
		c.rep.Vacuous("vacuous: no accepted layouts")
	}
	createRoundTrip(c, rep)
	hugePart(rep)
	rep.Finish()
}

// createRoundTrip: metainfo.NewInfoBytes over enumerated directory trees -> NewInfo -> allocator over
// the real filestorage rooted at the same directory -> verifier must report every piece OK.
func createRoundTrip(c *checker, rep *core.Report) {
	const K = 16384
	sizes := []int{0, 1, K - 1, K, K + 1, 2 * K, 2*K + 1}
	if !core.Thorough() {
		sizes = []int{0, 1, K - 1, K, K + 1, 2 * K}
	}
	pls := []uint32{K, 2 * K}
	base, err := os.MkdirTemp(os.Getenv("VERIF_TMP"), "c02tree")
	if err != nil {
		core.HarnessError("%v", err)
	}
	defer os.RemoveAll(base)
	type tree struct {
		names []string
		sizes []int
	}
	var trees []tree
	shapes := [][]string{{"a"}, {"a", "b"}, {"a", "d/b"}, {"d/a", "d/e/b", "z"}}
	var rec func(shape []string, cur []int)
	rec = func(shape []string, cur []int) {
		if len(cur) == len(shape) {
			trees = append(trees, tree{shape, append([]int{}, cur...)})
			return
		}
		for _, s := range sizes {
			rec(shape, append(cur, s))
		}
	}
	for _, sh := range shapes {
		if len(sh) == 3 && !core.Thorough() {
			// quick: 3-file trees only over a reduced size set
			save := sizes
			sizes = []int{0, K - 1, K + 1}
			rec(sh, nil)
			sizes = save
			continue
		}
		rec(sh, nil)
	}
	var n, nOK int64
	for ti, tr := range trees {
		for _, pl := range pls {
			for _, single := range []bool{false, true} {
				if single && len(tr.names) != 1 {
					continue
				}
				n++
				root := filepath.Join(base, fmt.Sprintf("t%d_%d_%v", ti, pl, single), "top")
				os.MkdirAll(root, 0o755)
				total := 0
				for i, nm := range tr.names {
					p := filepath.Join(root, nm)
					os.MkdirAll(filepath.Dir(p), 0o755)
					b := make([]byte, tr.sizes[i])
					for k := range b {
						b[k] = byte(k*13 + i*7 + 1)
					}
					os.WriteFile(p, b, 0o644)
					total += len(b)
				}
				desc := fmt.Sprintf("tree %v sizes %v pl=%d single=%v", tr.names, tr.sizes, pl, single)
				var infoB []byte
				if single {
					infoB, err = metainfo.NewInfoBytes("", []string{filepath.Join(root, tr.names[0])}, false, pl, "", logger.New("x"))
				} else {
					infoB, err = metainfo.NewInfoBytes("", []string{root}, false, pl, "", logger.New("x"))
				}
				if err != nil {
					if total == 0 {
						os.RemoveAll(filepath.Dir(root))
						continue // "no files": documented refusal
					}
					c.rep.Violate("C02.create.error", desc+": NewInfoBytes: "+err.Error(), desc)
					continue
				}
				info, err := metainfo.NewInfo(infoB, true, true)
				if err != nil {
					c.rep.Violate("C02.create.parse", desc+": created info not accepted: "+err.Error(), desc)
					continue
				}
				// allocate over the real file storage rooted so that Info paths resolve to the same files
				stoRoot := filepath.Dir(root)
				if single {
					stoRoot = filepath.Dir(filepath.Join(root, tr.names[0]))
				}
				fs, _ := filestorage.New(stoRoot, 0o755)
				al := allocator.New()
				al.Run(info, fs, make(chan allocator.Progress, 16), make(chan *allocator.Allocator, 1))
				if al.Error != nil {
					c.rep.Violate("C02.create.alloc", desc+": allocate: "+al.Error.Error(), desc)
					continue
				}
				if al.HasMissing {
					c.rep.Violate("C02.create.missing", desc+": allocator did not find the files the torrent was created from (paths "+fmt.Sprint(info.Files)+")", desc)
				}
				pieces := piece.NewPieces(info, al.Files)
				v := verifier.New()
				v.Run(pieces, make(chan verifier.Progress, len(pieces)+1), make(chan *verifier.Verifier, 1))
				for _, f := range al.Files {
					f.Storage.Close()
				}
				if v.Error != nil || !v.Bitfield.All() {
					c.rep.Violate("C02.create.verify", fmt.Sprintf("%s: verify after create: err=%v have=%d/%d", desc, v.Error, v.Bitfield.Count(), v.Bitfield.Len()), desc)
				} else {
					nOK++
				}
				if n%200 == 1 {
					rep.Sample(14, "create: "+desc)
				}
				os.RemoveAll(filepath.Dir(root))
			}
		}
	}
	rep.Evaluations += n
	rep.Distinct += nOK
	rep.Extra["create_trees"] = n
	rep.Extra["create_verified_complete"] = nOK
	_ = sort.Ints
}

// recPeer records what a piece downloader asks of its peer.
type recPeer struct{ req, cancel [][3]uint32 }

func (r *recPeer) RequestPiece(index, begin, length uint32) { r.req = append(r.req, [3]uint32{index, begin, length}) }
func (r *recPeer) CancelPiece(index, begin, length uint32) {
	r.cancel = append(r.cancel, [3]uint32{index, begin, length})
}
func (r *recPeer) EnabledFast() bool { return true }

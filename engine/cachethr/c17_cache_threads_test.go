//go:build verif

// Package cachethr explores the read cache (internal/piececache) under a controlled scheduler: in the
// thread variant its locks are vsync locks, and here EVERY goroutine that reaches a Lock/RLock of the
// cache - callers of Get as well as the goroutines of expiring TTL timers - parks there until the explorer
// lets it go on. All interleavings of a short script of Get calls and clock advances are executed inside a
// synctest bubble; after every step the cache's accounting is compared with its contents (C17: the read
// cache stays within its size, everything is released exactly once, no counter goes negative).
package cachethr

import (
	"encoding/json"
	"fmt"
	"os"
	"os/exec"
	"strings"
	"sync"
	"testing"
	"testing/synctest"
	"time"

	"github.com/cenkalti/rain/v2/internal/piececache"
	"github.com/cenkalti/rain/v2/zzverif/core"
	metrics "github.com/rcrowley/go-metrics"
	"go.etcd.io/bbolt/vsync"
)

type parkedG struct {
	ch chan struct{}
	op string
}

type sched struct {
	mu     sync.Mutex
	parked []*parkedG
	bypass bool
}

func (s *sched) hook(op string, lock any) {
	s.mu.Lock()
	if s.bypass {
		s.mu.Unlock()
		return
	}
	p := &parkedG{ch: make(chan struct{}), op: op}
	s.parked = append(s.parked, p)
	s.mu.Unlock()
	<-p.ch
}

type scriptOp struct {
	Get     string        `json:"get,omitempty"`
	Advance time.Duration `json:"advance,omitempty"`
}

type result struct {
	Executions int64             `json:"executions"`
	Steps      int64             `json:"steps"`
	MaxParked  int               `json:"max_parked"`
	TimerParks int64             `json:"timer_goroutines_parked"`
	Evictions  int64             `json:"evictions_seen"`
	Capped     bool              `json:"capped"`
	Viol       map[string]string `json:"viol"`
	Outcomes   map[string]int64  `json:"outcomes"`
}

const ttl = time.Minute

// execute runs the script under the given choice prefix (then always choice 0) and returns the number of
// alternatives at every decision point, or a violation.
var errLoad = fmt.Errorf("injected read error")

func execute(t *testing.T, script []scriptOp, maxSize int64, prefix []int, res *result) (alts []int, viol, vkey string) {
	synctest.Test(t, func(t *testing.T) {
		s := &sched{}
		vsync.Hook = s.hook
		defer func() { vsync.Hook = nil }()
		c := piececache.New(maxSize, ttl, 2)
		next := 0
		running := 0
		var rmu sync.Mutex
		var history []string
		check := func() bool {
			s.mu.Lock()
			s.bypass = true
			s.mu.Unlock()
			size, max, items, lru, lruBytes := c.VerifC17Snapshot()
			s.mu.Lock()
			s.bypass = false
			s.mu.Unlock()
			loaded := 0
			for _, it := range items {
				if it.InLRU {
					loaded++
				}
			}
			switch {
			case size < 0:
				viol, vkey = fmt.Sprintf("cache size is %d (negative): an item was released twice", size), "C17.cache-threads.size-negative"
			case size > max:
				viol, vkey = fmt.Sprintf("cache size %d exceeds the maximum %d", size, max), "C17.cache-threads.over-limit"
			case size != lruBytes:
				viol, vkey = fmt.Sprintf("cache accounts %d bytes but the items it holds sum to %d bytes (%d items in the eviction list, %d in the map)", size, lruBytes, lru, len(items)), "C17.cache-threads.accounting"
			case loaded != lru:
				viol, vkey = fmt.Sprintf("%d items of the map are linked, the eviction list has %d entries", loaded, lru), "C17.cache-threads.linkage"
			}
			return viol == ""
		}
		for step := 0; step < 200; step++ {
			synctest.Wait()
			if !check() {
				break
			}
			s.mu.Lock()
			np := len(s.parked)
			s.mu.Unlock()
			if np > res.MaxParked {
				res.MaxParked = np
			}
			n := np
			if next < len(script) {
				n++
			}
			if n == 0 {
				break
			}
			choice := 0
			if step < len(prefix) {
				choice = prefix[step]
			}
			alts = append(alts, n)
			res.Steps++
			if choice < np {
				s.mu.Lock()
				p := s.parked[choice]
				s.parked = append(s.parked[:choice:choice], s.parked[choice+1:]...)
				s.mu.Unlock()
				history = append(history, "resume("+p.op+")")
				close(p.ch)
				continue
			}
			op := script[next]
			next++
			if op.Get != "" {
				key := op.Get
				history = append(history, "Get("+key+")")
				rmu.Lock()
				running++
				rmu.Unlock()
				go func() {
					defer func() {
						if r := recover(); r != nil {
							viol, vkey = fmt.Sprintf("Get(%s) panicked: %v", op.Get, r), "C17.cache-threads.panic"
						}
						rmu.Lock()
						running--
						rmu.Unlock()
					}()
					v, err := c.Get(key, func() ([]byte, error) {
						if key == "E" { // a read error: the half-filled buffer comes back together with the error
							return []byte("bad!"), errLoad
						}
						return []byte(key + "123")[:4], nil
					})
					if key == "E" && err == nil {
						viol, vkey = fmt.Sprintf("Get(E): the loader failed, yet a caller got %q without an error", v), "C03.cache.failed-load-served"
					}
				}()
			} else {
				history = append(history, fmt.Sprintf("advance(%s)", op.Advance))
				before := 0
				s.mu.Lock()
				before = len(s.parked)
				s.mu.Unlock()
				time.Sleep(op.Advance)
				synctest.Wait()
				s.mu.Lock()
				res.TimerParks += int64(len(s.parked) - before)
				s.mu.Unlock()
			}
		}
		if viol != "" {
			viol += "\n  schedule: " + strings.Join(history, " ; ")
		}
		// let everything finish: no more control
		s.mu.Lock()
		s.bypass = true
		for _, p := range s.parked {
			close(p.ch)
		}
		s.parked = nil
		s.mu.Unlock()
		synctest.Wait()
		if viol == "" {
			size, _, items, _, _ := c.VerifC17Snapshot()
			res.Outcomes[fmt.Sprintf("size=%d items=%d", size, len(items))]++
		}
		c.Close()
		time.Sleep(2 * ttl)
		synctest.Wait()
	})
	return
}

func exploreScript(t *testing.T, script []scriptOp, maxSize int64, res *result, cap int64) {
	var rec func(prefix []int)
	rec = func(prefix []int) {
		if res.Executions >= cap {
			res.Capped = true
			return
		}
		res.Executions++
		alts, viol, key := execute(t, script, maxSize, prefix, res)
		if viol != "" {
			if _, ok := res.Viol[key]; !ok {
				res.Viol[key] = fmt.Sprintf("script %s, cache of %d bytes: %s", scriptString(script), maxSize, viol)
			}
			return
		}
		for i := len(prefix); i < len(alts); i++ {
			for a := 1; a < alts[i]; a++ {
				p := append(append([]int{}, prefix...), make([]int, i-len(prefix))...)
				p = append(p, a)
				rec(p)
			}
		}
	}
	rec(nil)
}

func scriptString(s []scriptOp) string {
	var out []string
	for _, o := range s {
		if o.Get != "" {
			out = append(out, "Get("+o.Get+")")
		} else {
			out = append(out, "advance("+o.Advance.String()+")")
		}
	}
	return "[" + strings.Join(out, " ") + "]"
}

func scripts(thorough bool) [][]scriptOp {
	g := func(k string) scriptOp { return scriptOp{Get: k} }
	adv := scriptOp{Advance: ttl}
	half := scriptOp{Advance: ttl / 2}
	out := [][]scriptOp{
		{g("A"), adv, g("B")},          // expiry of A racing with the insertion (and eviction) by B
		{g("A"), g("B"), adv, g("C")},  // two items expire while a third arrives
		{g("A"), half, g("A"), half, g("B")}, // refreshed access time, then eviction
		{g("A"), g("A"), adv, g("A")},  // concurrent Gets of one key, expiry, reload
		{g("E"), g("E"), g("A")},       // a failing load with a second caller waiting for the same block
	}
	if thorough {
		out = append(out, []scriptOp{g("A"), g("B"), adv, g("C"), g("A")}, []scriptOp{g("A"), adv, g("B"), adv, g("A"), g("C")})
	}
	return out
}

// TestC17CacheThreads: parent = reporter; the exploration runs in a child process (a panic in a timer
// goroutine of the code under test kills the process and is reported with its output).
func TestC17CacheThreads(t *testing.T) {
	if os.Getenv("VERIF_CACHETHR_CHILD") != "" {
		// go-metrics' meters start a package-level ticker goroutine that is never durably blocked in a bubble
		metrics.UseNilMetrics = true
		res := &result{Viol: map[string]string{}, Outcomes: map[string]int64{}}
		cap := int64(60000)
		if core.Thorough() {
			cap = 600000
		}
		for _, sc := range scripts(core.Thorough()) {
			for _, maxSize := range []int64{4, 8} {
				exploreScript(t, sc, maxSize, res, res.Executions+cap)
			}
		}
		b, _ := json.Marshal(res)
		fmt.Printf("CHILD-RESULT %s\n", b)
		return
	}
	prop := "C17" // the same exploration decides the read-cache clause of C17 and the "whatever the read cache holds" clause of C03
	if os.Getenv("VERIF_PROP") == "C03" {
		prop = "C03"
	}
	rep := core.NewReport(prop, "cache-threads", "model_checking")
	rep.Rule = "read cache (piececache) with its locks made scheduler-visible: scripts of Get calls (keys A, B, C; 4-byte values) and clock advances (TTL, TTL/2) on caches of 4 and 8 bytes; every goroutine reaching a lock of the cache - callers and expiring TTL timers - parks there and the explorer chooses who proceeds: all interleavings; after every step size == bytes held, 0 <= size <= max, linked items == eviction list; no panic; a load that fails is an error for every caller waiting for it"
	rep.Assumptions = []string{"scheduling points are the Lock/RLock calls of the cache and its items; loaders return at once", "values of one size"}
	cmd := exec.Command(os.Args[0], "-test.run", "^TestC17CacheThreads$", "-test.timeout", "0")
	cmd.Env = append(os.Environ(), "VERIF_CACHETHR_CHILD=1")
	out, err := cmd.CombinedOutput()
	var res result
	found := false
	for _, ln := range strings.Split(string(out), "\n") {
		if strings.HasPrefix(ln, "CHILD-RESULT ") {
			if json.Unmarshal([]byte(strings.TrimPrefix(ln, "CHILD-RESULT ")), &res) == nil {
				found = true
			}
		}
	}
	if !found {
		tail := string(out)
		if len(tail) > 3000 {
			tail = tail[len(tail)-3000:]
		}
		if strings.Contains(string(out), "panic:") || strings.Contains(string(out), "fatal error:") {
			first := "unknown"
			for _, ln := range strings.Split(string(out), "\n") {
				if strings.HasPrefix(ln, "panic:") || strings.HasPrefix(ln, "fatal error:") {
					first = ln
					break
				}
			}
			rep.Violate(prop+".cache-threads.crash", "the process died while the cache's goroutines were being interleaved ("+first+"):\n"+tail, nil)
		} else {
			core.HarnessError("cache thread exploration produced no result (%v): %s", err, tail)
		}
	}
	for k, v := range res.Viol {
		if strings.HasPrefix(k, prop+".") {
			rep.Violate(k, v, nil)
		}
	}
	rep.Evaluations = res.Executions
	rep.States = res.Steps
	rep.Transitions = res.Steps
	rep.TracesImpl = res.Executions
	rep.Distinct = int64(len(res.Outcomes))
	rep.Extra["max_goroutines_parked_at_once"] = int64(res.MaxParked)
	rep.Extra["timer_goroutines_parked"] = res.TimerParks
	rep.Extra["final_states"] = res.Outcomes
	if res.Capped {
		rep.Cap("execution cap reached for a script (all shorter prefixes were explored)")
	}
	rep.Sample(4, "script "+scriptString(scripts(false)[0]))
	if found && (res.TimerParks == 0 || res.MaxParked < 2) {
		rep.Vacuous("vacuous: no TTL timer goroutine ever waited for the cache lock (parks=%d, max parked=%d)", res.TimerParks, res.MaxParked)
	}
	rep.Finish()
}

//go:build verif

// Package leaf holds component-level ("leaf") check parts of C03, C08 and C13: bounded-exhaustive
// enumeration on the real rain code of the upload read path (cachedpiece + peerwriter.Piece +
// piececache), the peer reader (peerreader + extension payload decoding), the magnet text codec and the
// metadata block assembler (infodownloader). The whole-session parts of these properties live elsewhere.
package leaf

import (
	"crypto/sha1"
	"fmt"
	"io"
	"net"
	"runtime"
	"sort"
	"strings"
	"sync"
	"sync/atomic"
	"time"

	"github.com/cenkalti/log"
	"github.com/cenkalti/rain/v2/internal/logger"
	"github.com/cenkalti/rain/v2/internal/storage"
	"github.com/cenkalti/rain/v2/zzverif/core"
	"github.com/cenkalti/rain/v2/zzverif/refcodec"
)

// ---- layouts / flat model (copied from the C02 exemplar, engine/geom)

type fileSpec struct {
	Len int64
	Pad bool
}

type layout struct {
	Files []fileSpec
	PL    uint32
}

func (l layout) String() string {
	var sb strings.Builder
	for i, f := range l.Files {
		if i > 0 {
			sb.WriteByte(',')
		}
		if f.Pad {
			fmt.Fprintf(&sb, "pad%d", f.Len)
		} else {
			fmt.Fprintf(&sb, "f%d", f.Len)
		}
	}
	return fmt.Sprintf("[%s] pl=%d", sb.String(), l.PL)
}

type memFile struct {
	data  []byte
	reads atomic.Int64
}

func (f *memFile) ReadAt(p []byte, off int64) (int, error) {
	f.reads.Add(1)
	if off >= int64(len(f.data)) {
		return 0, io.EOF
	}
	n := copy(p, f.data[off:])
	if n < len(p) {
		return n, io.EOF
	}
	return n, nil
}
func (f *memFile) WriteAt(p []byte, off int64) (int, error) {
	if off+int64(len(p)) > int64(len(f.data)) {
		return 0, fmt.Errorf("write beyond file size: off=%d len=%d size=%d", off, len(p), len(f.data))
	}
	copy(f.data[off:], p)
	return len(p), nil
}
func (f *memFile) Close() error { return nil }

type memStorage struct{ files map[string]*memFile }

func (s *memStorage) Open(name string, size int64) (storage.File, bool, error) {
	if f, ok := s.files[name]; ok {
		return f, true, nil
	}
	f := &memFile{data: make([]byte, size)}
	s.files[name] = f
	return f, false, nil
}
func (s *memStorage) RootDir() string { return "/mem" }

func (s *memStorage) totalReads() int64 {
	var n int64
	for _, f := range s.files {
		n += f.reads.Load()
	}
	return n
}

type model struct {
	A     []byte // concatenation of all files; padding bytes are zero
	isPad []bool
}

func buildModel(l layout) *model {
	m := &model{}
	var g int64
	for i, f := range l.Files {
		for k := int64(0); k < f.Len; k++ {
			var c byte
			if !f.Pad {
				c = byte(1 + (int(g)+int(k)*7+i*31)%250)
			}
			m.A = append(m.A, c)
			m.isPad = append(m.isPad, f.Pad)
		}
		g += f.Len
	}
	return m
}

func buildInfo(l layout, m *model) []byte {
	var pieces []byte
	for off := 0; off < len(m.A); off += int(l.PL) {
		e := off + int(l.PL)
		if e > len(m.A) {
			e = len(m.A)
		}
		h := sha1.Sum(m.A[off:e])
		pieces = append(pieces, h[:]...)
	}
	var files []any
	for i, f := range l.Files {
		d := refcodec.D("length", f.Len, "path", []string{fmt.Sprintf("f%d", i)})
		if f.Pad {
			d.Set("attr", "p")
		}
		files = append(files, d)
	}
	return refcodec.Benc(refcodec.D("name", "t", "piece length", int64(l.PL), "pieces", pieces, "files", files))
}

func enumLayouts(maxFiles int, maxLen int64, maxPL uint32, emit func(layout)) {
	var rec func(files []fileSpec)
	rec = func(files []fileSpec) {
		if len(files) > 0 {
			for pl := uint32(1); pl <= maxPL; pl++ {
				emit(layout{Files: append([]fileSpec{}, files...), PL: pl})
			}
		}
		if len(files) == maxFiles {
			return
		}
		for ln := int64(0); ln <= maxLen; ln++ {
			for _, pad := range []bool{false, true} {
				rec(append(files, fileSpec{ln, pad}))
			}
		}
	}
	rec(nil)
}

func topFrames(st string) string {
	lines := strings.Split(st, "\n")
	var out []string
	for _, ln := range lines {
		if (strings.Contains(ln, "/repo/") || strings.Contains(ln, "/pkg/mod/")) && !strings.Contains(ln, "zzverif") {
			out = append(out, strings.TrimSpace(ln))
			if len(out) >= 3 {
				break
			}
		}
	}
	return strings.Join(out, " <- ")
}

// topFunc returns the innermost function of rain (or of one of its dependencies) on a panic stack,
// used as the cause class of a panic key.
func topFunc(st string) string {
	lines := strings.Split(st, "\n")
	for i := 0; i+1 < len(lines); i++ {
		nx := lines[i+1]
		if (strings.Contains(nx, "/repo/") || strings.Contains(nx, "/pkg/mod/")) && !strings.Contains(nx, "zzverif") {
			fn := strings.TrimSpace(lines[i])
			if k := strings.LastIndex(fn, "("); k > 0 {
				fn = fn[:k]
			}
			fn = strings.TrimPrefix(fn, "github.com/cenkalti/rain/v2/")
			return fn
		}
	}
	return "unknown"
}

func stack() string {
	buf := make([]byte, 16384)
	return string(buf[:runtime.Stack(buf, false)])
}

// ---- violation aggregation: deterministic minimal example per key whatever the worker interleaving

type aggEntry struct {
	count  int64
	rank   int64
	desc   string
	replay any
}

type agg struct {
	mu sync.Mutex
	m  map[string]*aggEntry
}

func newAgg() *agg { return &agg{m: map[string]*aggEntry{}} }

// add records one failing case; mk is only called when the case is the simplest seen so far.
func (a *agg) add(key string, rank int64, mk func() (string, any)) {
	a.mu.Lock()
	defer a.mu.Unlock()
	e := a.m[key]
	if e == nil {
		d, r := mk()
		a.m[key] = &aggEntry{count: 1, rank: rank, desc: d, replay: r}
		return
	}
	e.count++
	if rank < e.rank {
		e.desc, e.replay = mk()
		e.rank = rank
	}
}

// merge folds another aggregator into a (keeping the simplest example per key).
func (a *agg) merge(o *agg) {
	a.mu.Lock()
	defer a.mu.Unlock()
	for k, oe := range o.m {
		e := a.m[k]
		if e == nil {
			cp := *oe
			a.m[k] = &cp
			continue
		}
		e.count += oe.count
		if oe.rank < e.rank {
			e.rank, e.desc, e.replay = oe.rank, oe.desc, oe.replay
		}
	}
}

func (a *agg) flush(rep *core.Report) {
	a.mu.Lock()
	defer a.mu.Unlock()
	keys := make([]string, 0, len(a.m))
	for k := range a.m {
		keys = append(keys, k)
	}
	sort.Strings(keys)
	for _, k := range keys {
		e := a.m[k]
		rep.Violate(k, e.desc, e.replay)
		for i := int64(1); i < e.count; i++ {
			rep.Violate(k, "", nil)
		}
	}
}

// ---- in-memory net.Conn feeding a fixed list of chunks, then io.EOF

type memAddr struct{}

func (memAddr) Network() string { return "mem" }
func (memAddr) String() string  { return "mem:0" }

type chunkConn struct {
	chunks [][]byte
	ci     int
	off    int
	read   int // bytes handed out
}

func (c *chunkConn) Read(p []byte) (int, error) {
	for c.ci < len(c.chunks) && c.off == len(c.chunks[c.ci]) {
		c.ci++
		c.off = 0
	}
	if c.ci >= len(c.chunks) {
		return 0, io.EOF
	}
	n := copy(p, c.chunks[c.ci][c.off:])
	c.off += n
	c.read += n
	return n, nil
}
func (c *chunkConn) Write(p []byte) (int, error)        { return len(p), nil }
func (c *chunkConn) Close() error                       { return nil }
func (c *chunkConn) LocalAddr() net.Addr                { return memAddr{} }
func (c *chunkConn) RemoteAddr() net.Addr               { return memAddr{} }
func (c *chunkConn) SetDeadline(t time.Time) error      { return nil }
func (c *chunkConn) SetReadDeadline(t time.Time) error  { return nil }
func (c *chunkConn) SetWriteDeadline(t time.Time) error { return nil }

// quietLogger is a real rain logger whose level suppresses everything below CRITICAL (no runtime.Caller,
// no handler) so that logging does not dominate run time or the allocation measurements.
func quietLogger() logger.Logger {
	l := logger.New("verif")
	l.SetLevel(log.CRITICAL)
	return l
}

// cut splits b at the given ascending positions.
func cut(b []byte, at ...int) [][]byte {
	var out [][]byte
	prev := 0
	for _, p := range at {
		out = append(out, b[prev:p])
		prev = p
	}
	return append(out, b[prev:])
}

//go:build verif

package leaf

import (
	"bytes"
	"encoding/binary"
	"encoding/json"
	"fmt"
	"io"
	"os"
	"path/filepath"
	"runtime"
	"runtime/debug"
	"sort"
	"strings"
	"syscall"
	"testing"
	"time"

	"github.com/cenkalti/rain/v2/internal/logger"
	"github.com/cenkalti/rain/v2/internal/peerconn/peerreader"
	"github.com/cenkalti/rain/v2/internal/peerprotocol"
	"github.com/cenkalti/rain/v2/torrent"
	"github.com/cenkalti/rain/v2/zzverif/core"
	"github.com/cenkalti/rain/v2/zzverif/refcodec"
)

const (
	c08TwoCutMax = 96        // thorough: streams up to this length are also run under every 2-cut
	c08FrameMax  = 64        // reader max message size for the frame lattice
	c08ExtMax    = 4096      // reader max message size for the extension payload lattice
	c08Slack     = 64 * 1024 // constant allowance on top of the max message size
)

// ---------------------------------------------------------------- lattice: frames

type frameSpec struct {
	L    uint32
	ID   int
	Body string // exact | zero | ff | short1 | long1
}

func (s frameSpec) String() string {
	return fmt.Sprintf("frame(len=%d,id=%d,body=%s)", s.L, s.ID, s.Body)
}

func c08FrameSpecs(max int) []frameSpec {
	m := uint32(max)
	lens := []uint32{0, 1, 2, 5, 9, 13, 17, m - 1, m, m + 1, m + 2, 1 << 31, 1<<32 - 1}
	ids := []int{}
	for i := 0; i <= 21; i++ {
		ids = append(ids, i)
	}
	ids = append(ids, 255)
	var out []frameSpec
	for _, l := range lens {
		if l == 0 {
			out = append(out, frameSpec{0, 0, "exact"})
			continue
		}
		for _, id := range ids {
			for _, b := range []string{"exact", "zero", "ff", "short1", "long1"} {
				feasible := int64(l)-1 <= int64(max)+8
				if !feasible && (b == "short1" || b == "long1") {
					continue
				}
				if b == "short1" && l < 2 {
					continue
				}
				out = append(out, frameSpec{l, id, b})
			}
		}
	}
	return out
}

var (
	c08V1 = refcodec.Have(0x01020304).Encode()
	c08V2 = refcodec.Have(0x0a0b0c0d).Encode()
)

func fill(kind string, n int) []byte {
	b := make([]byte, n)
	for i := range b {
		switch kind {
		case "zero":
		case "ff":
			b[i] = 0xff
		default:
			b[i] = byte(i*7 + 3)
		}
	}
	return b
}

// stream = valid frame, the frame under test, valid frame (absent when the test frame is cut short by EOF).
func (s frameSpec) stream(max int) []byte {
	out := append([]byte{}, c08V1...)
	if s.L == 0 {
		out = append(out, 0, 0, 0, 0)
		return append(out, c08V2...)
	}
	var hdr [5]byte
	binary.BigEndian.PutUint32(hdr[:4], s.L)
	hdr[4] = byte(s.ID)
	out = append(out, hdr[:]...)
	n := int64(s.L) - 1
	if n > int64(max)+8 { // the declared body cannot be supplied: some bytes, then EOF
		return append(out, fill(s.Body, 200)...)
	}
	switch s.Body {
	case "short1":
		return append(out, fill("exact", int(n)-1)...)
	case "long1":
		out = append(out, fill("exact", int(n)+1)...)
	default:
		out = append(out, fill(s.Body, int(n))...)
	}
	return append(out, c08V2...)
}

// ---------------------------------------------------------------- lattice: extension payloads

type extSpec struct {
	Class   string // cause class used in keys
	Name    string
	ExtID   byte
	Payload []byte
	Heavy   bool // expected to allocate gigabytes per run on the unchanged tree: small job chunks, recycled processes
}

func (s extSpec) stream() []byte {
	out := append([]byte{}, c08V1...)
	out = append(out, refcodec.Extended(s.ExtID, s.Payload).Encode()...)
	return append(out, c08V2...)
}

func nest(open, close string, depth int, inner string) string {
	return strings.Repeat(open, depth) + inner + strings.Repeat(close, depth)
}

func c08ExtSpecs(realMax int64) []extSpec {
	var out []extSpec
	add := func(class, name string, id byte, payload any) {
		var b []byte
		switch p := payload.(type) {
		case string:
			b = []byte(p)
		case []byte:
			b = p
		default:
			b = refcodec.Benc(p)
		}
		out = append(out, extSpec{class, name, id, b, bytes.Contains(b, []byte("2147483647:"))})
	}
	D := refcodec.D
	mOK := D("ut_metadata", 1, "ut_pex", 2)
	// handshake: sizes and queue lengths
	sizes := []any{nil, int64(0), int64(1), realMax, realMax + 1, int64(-1), int64(1) << 62}
	reqqs := []any{nil, int64(-1), int64(0), int64(250), int64(1) << 40}
	for _, sz := range sizes {
		for _, rq := range reqqs {
			d := D("m", mOK, "v", "x 1.0")
			if sz != nil {
				d.Set("metadata_size", sz)
			}
			if rq != nil {
				d.Set("reqq", rq)
			}
			add("handshake", fmt.Sprintf("handshake metadata_size=%v reqq=%v", sz, rq), 0, d)
		}
	}
	add("handshake", "handshake empty dict", 0, "de")
	add("handshake", "handshake yourip 4 bytes", 0, D("m", D(), "yourip", []byte{1, 2, 3, 4}))
	add("handshake", "handshake unsorted keys", 0, "d1:v1:x1:mdee")
	// wrong types
	for _, w := range []struct {
		n string
		v any
	}{{"int", 1}, {"string", "x"}, {"list", []any{}}, {"dict-of-string", D("ut_metadata", "x")}, {"dict-of-list", D("ut_metadata", []any{})},
		{"dict-neg", D("ut_metadata", -1)}, {"dict-256", D("ut_metadata", 256)}, {"dict-255", D("ut_metadata", 255)}} {
		add("wrongtype", "handshake m="+w.n, 0, D("m", w.v))
	}
	for _, k := range []string{"v", "yourip", "metadata_size", "reqq"} {
		for _, w := range []struct {
			n string
			v any
		}{{"int", 7}, {"negint", -7}, {"string", "7"}, {"list", []any{1}}, {"dict", D("a", 1)}} {
			add("wrongtype", "handshake "+k+"="+w.n, 0, D("m", mOK, k, w.v))
		}
	}
	// not a dict / truncated / trailing data
	for _, p := range []string{"", "e", "x", "i5e", "4:spam", "le", "li1ee", "d", "d1:v", "d1:v1:", "d1:vi", "d1:mde", "d1:md11:ut_metadatai1e", "i5", "-1:", "di1ei2ee", "d1:vli1e"} {
		add("malformed", fmt.Sprintf("handshake payload %q", p), 0, p)
		add("malformed", fmt.Sprintf("metadata payload %q", p), 1, p)
		add("malformed", fmt.Sprintf("pex payload %q", p), 2, p)
	}
	add("trailing", "handshake + junk", 0, "d1:v1:xejunk")
	add("trailing", "handshake + second dict", 0, "d1:v1:xed1:v1:ye")
	add("trailing", "pex + junk", 2, "d5:added0:e\x00\x01\x02")
	// declared string lengths with short bodies
	for _, ln := range []string{"2147483647", "100", "4000", "70000", "1000000", "2147483648", "4294967296", "99999999999999999999", "-1", "-0", "00000000000000000002"} {
		add("declared-string-length", "handshake key length "+ln, 0, "d"+ln+":ab")
		add("declared-string-length", "handshake v length "+ln, 0, "d1:v"+ln+":ab")
		add("declared-string-length", "handshake unknown-key value length "+ln, 0, "d1:x"+ln+":ab")
		add("declared-string-length", "handshake m key length "+ln, 0, "d1:md"+ln+":ab")
		add("declared-string-length", "metadata unknown-key value length "+ln, 1, "d1:x"+ln+":ab")
		add("declared-string-length", "pex added length "+ln, 2, "d5:added"+ln+":ab")
	}
	// nesting
	for _, depth := range []int{1, 10, 1000} {
		add("nesting", fmt.Sprintf("handshake unknown key list depth %d", depth), 0, "d1:x"+nest("l", "e", depth, "")+"e")
		add("nesting", fmt.Sprintf("handshake unknown key list depth %d unterminated", depth), 0, "d1:x"+strings.Repeat("l", depth))
		add("nesting", fmt.Sprintf("handshake unknown key dict depth %d", depth), 0, "d1:x"+nest("d1:x", "e", depth, "i0e")+"e")
		add("nesting", fmt.Sprintf("handshake m list depth %d", depth), 0, "d1:m"+nest("l", "e", depth, "")+"e")
		add("nesting", fmt.Sprintf("metadata unknown key list depth %d", depth), 1, "d1:x"+nest("l", "e", depth, "")+"e")
		add("nesting", fmt.Sprintf("pex unknown key list depth %d", depth), 2, "d1:x"+nest("l", "e", depth, "")+"e")
	}
	add("nesting", "handshake unknown key list of 1300 ints", 0, "d1:xl"+strings.Repeat("i0e", 1300)+"ee")
	// ut_metadata
	types := []any{int64(0), int64(1), int64(2), int64(3), int64(-1), "1"}
	pieces := []any{int64(0), int64(1), int64(1) << 18, int64(1)<<32 - 1, int64(1) << 32, int64(-1)}
	totals := []any{nil, int64(0), int64(1), int64(16389), int64(1) << 31, int64(1) << 62, int64(-1)}
	datas := [][]byte{nil, []byte("0123456789"), []byte("d1:xi1ee4:spam")}
	for _, ty := range types {
		for _, pc := range pieces {
			for _, tot := range totals {
				for _, da := range datas {
					d := D("msg_type", ty, "piece", pc)
					if tot != nil {
						d.Set("total_size", tot)
					}
					p := append(refcodec.Benc(d), da...)
					add("metadata", fmt.Sprintf("metadata msg_type=%v piece=%v total_size=%v data=%d bytes", ty, pc, tot, len(da)), 1, p)
				}
			}
		}
	}
	add("metadata", "metadata piece as string", 1, D("msg_type", 1, "piece", "0"))
	add("metadata", "metadata total_size as list", 1, D("msg_type", 1, "piece", 0, "total_size", []any{}))
	// PEX
	for _, a := range []int{0, 5, 6, 7, 12} {
		for _, dr := range []int{0, 6, 7} {
			add("pex", fmt.Sprintf("pex added %d bytes dropped %d bytes", a, dr), 2, D("added", fill("exact", a), "dropped", fill("ff", dr)))
		}
	}
	add("pex", "pex with flags and ipv6", 2, D("added", fill("exact", 6), "added.f", []byte{1}, "added6", fill("exact", 18), "added6.f", []byte{0}, "dropped6", []byte{}))
	add("pex", "pex added as int", 2, D("added", 5))
	add("pex", "pex added as list", 2, D("added", []any{"abcdef"}))
	add("pex", "pex dropped as dict", 2, D("added", "", "dropped", D()))
	// unknown extended ids
	for _, id := range []byte{3, 4, 255} {
		add("unknown-extid", fmt.Sprintf("extended id %d with a dict", id), id, D("msg_type", 0, "piece", 0))
		add("unknown-extid", fmt.Sprintf("extended id %d empty", id), id, "")
	}
	return out
}

// ---------------------------------------------------------------- model of a correct reader

const (
	xDeliver = iota
	xSkip    // unknown message: skipping it or dropping the peer are both fine
	xMustStop
	xFree // outcome not constrained (judging ends here)
)

type expect struct {
	kind    int
	msg     string
	mayStop bool
	cause   string
	name    string
}

var fixedBody = map[int]int{0: 0, 1: 0, 2: 0, 3: 0, 4: 4, 6: 12, 8: 12, 9: 2, 14: 0, 15: 0, 16: 12, 17: 4}
var msgNames = map[int]string{0: "choke", 1: "unchoke", 2: "interested", 3: "notinterested", 4: "have", 5: "bitfield", 6: "request", 7: "piece",
	8: "cancel", 9: "port", 14: "haveall", 15: "havenone", 16: "reject", 17: "allowedfast", 20: "extended"}

func msgName(id int) string {
	if n, ok := msgNames[id]; ok {
		return n
	}
	return "unknown-id"
}

func canonRef(m refcodec.Msg) string {
	switch m.ID {
	case 0, 1, 2, 3, 14, 15:
		return msgNames[m.ID]
	case 4:
		return fmt.Sprintf("have(%d)", m.Index())
	case 17:
		return fmt.Sprintf("allowedfast(%d)", m.Index())
	case 5:
		return fmt.Sprintf("bitfield(%x)", m.Body)
	case 6, 8, 16:
		return fmt.Sprintf("%s(%d,%d,%d)", msgNames[m.ID], m.Index(), m.Begin(), m.Length())
	case 7:
		return fmt.Sprintf("piece(%d,%d,%x)", m.Index(), m.Begin(), m.Block())
	case 9:
		return fmt.Sprintf("port(%d)", binary.BigEndian.Uint16(m.Body))
	}
	return "?"
}

// headerExpect judges a frame from its header alone (length prefix and id).
func headerExpect(l uint32, id int, max int) (e expect, decided bool) {
	n := int64(l) - 1
	name := msgName(id)
	if n > int64(max) {
		return expect{kind: xMustStop, cause: "oversize", name: name}, true
	}
	if want, ok := fixedBody[id]; ok && int64(want) != n {
		return expect{kind: xMustStop, cause: "fixedlen", name: name}, true
	}
	if id == 7 && n < 8 {
		return expect{kind: xMustStop, cause: "piece-too-short", name: name}, true
	}
	if id == 20 && n < 1 {
		return expect{kind: xMustStop, cause: "ext-malformed", name: name}, true
	}
	return expect{}, false
}

func modelStream(stream []byte, max int) []expect {
	var out []expect
	msgs, rest := refcodec.ParseStream(stream)
	for _, m := range msgs {
		if m.ID == refcodec.MsgKeepAlive {
			continue
		}
		l := uint32(len(m.Body) + 1)
		e, decided := headerExpect(l, m.ID, max)
		if !decided {
			name := msgName(m.ID)
			switch {
			case m.ID == 6 && m.Length() > 16384:
				e = expect{kind: xMustStop, cause: "request-too-long", name: name}
			case m.ID == 7 && len(m.Block()) > 16384:
				e = expect{kind: xMustStop, cause: "block-too-long", name: name}
			case m.ID == 20:
				e = modelExt(byte(m.ExtID()), m.ExtPayload())
			case name == "unknown-id":
				e = expect{kind: xSkip, name: name}
			default:
				e = expect{kind: xDeliver, msg: canonRef(m), name: name}
			}
			if int64(l) > int64(max) && e.kind == xDeliver { // body == max exactly: a reader counting the id byte may refuse it
				e.mayStop = true
			}
		}
		out = append(out, e)
		if e.kind == xMustStop || e.kind == xFree {
			return out
		}
	}
	if len(rest) >= 5 { // header of a frame that EOF cuts short
		l := binary.BigEndian.Uint32(rest)
		e, decided := headerExpect(l, int(rest[4]), max)
		if !decided {
			e = expect{kind: xMustStop, cause: "truncated", name: msgName(int(rest[4]))}
		}
		out = append(out, e)
	}
	return out
}

func clamp0(v int64) int64 {
	if v < 0 {
		return 0
	}
	return v
}

// modelExt: what a correct reader may do with one extended message (BEP 10 handshake, BEP 9 ut_metadata, BEP 11 PEX).
func modelExt(extID byte, payload []byte) expect {
	name := fmt.Sprintf("extended-%d", extID)
	if extID > 2 {
		return expect{kind: xSkip, name: name}
	}
	v, rest, err := refcodec.Decode(payload)
	d, isDict := v.(*refcodec.Dict)
	if err != nil || !isDict {
		return expect{kind: xMustStop, cause: "ext-malformed", name: name}
	}
	seenKeys := map[string]bool{}
	for _, k := range d.Keys {
		if seenKeys[k] {
			return expect{kind: xFree, name: name}
		}
		seenKeys[k] = true
	}
	mayStop := len(rest) > 0 && extID != 1 // trailing bytes after a handshake/pex dict: a strict reader may refuse them
	if valueDepth(d) > 32 {
		// the property allows dropping a peer; a reader that refuses absurdly deep (hostile) nesting is within it
		mayStop = true
	}
	str := func(k string) string {
		x, ok := d.Get(k)
		if !ok {
			return ""
		}
		if b, ok := x.([]byte); ok {
			return string(b)
		}
		mayStop = true
		return ""
	}
	num := func(k string) int64 {
		x, ok := d.Get(k)
		if !ok {
			return 0
		}
		if n, ok := x.(int64); ok {
			return n
		}
		mayStop = true
		return 0
	}
	switch extID {
	case 0:
		mm := map[string]int64{}
		if x, ok := d.Get("m"); ok {
			md, ok := x.(*refcodec.Dict)
			if !ok {
				mayStop = true
			} else {
				for i, k := range md.Keys {
					n, ok := md.Vals[i].(int64)
					if !ok || n < 0 || n > 255 {
						return expect{kind: xFree, name: name} // ids are one byte; anything else: outcome not constrained
					}
					mm[k] = n
				}
			}
		}
		msg := fmt.Sprintf("exthandshake(m=%s,v=%q,yourip=%q,metadata_size=%d,reqq=%d)", canonMap(mm), str("v"), str("yourip"), clamp0(num("metadata_size")), clamp0(num("reqq")))
		return expect{kind: xDeliver, msg: msg, mayStop: mayStop, name: name}
	case 1:
		ty, pc, tot := num("msg_type"), num("piece"), num("total_size")
		if pc < 0 || pc > 1<<32-1 {
			return expect{kind: xFree, name: name}
		}
		return expect{kind: xDeliver, msg: fmt.Sprintf("extmetadata(type=%d,piece=%d,total_size=%d,data=%x)", ty, pc, tot, rest), mayStop: mayStop, name: name}
	default:
		return expect{kind: xDeliver, msg: fmt.Sprintf("extpex(added=%x,dropped=%x)", str("added"), str("dropped")), mayStop: mayStop, name: name}
	}
}

func canonMap(m map[string]int64) string {
	ks := make([]string, 0, len(m))
	for k := range m {
		ks = append(ks, k)
	}
	sort.Strings(ks)
	var sb strings.Builder
	sb.WriteByte('{')
	for _, k := range ks {
		fmt.Fprintf(&sb, "%q:%d,", k, m[k])
	}
	sb.WriteByte('}')
	return sb.String()
}

// canonRain renders what the real reader delivered in the same notation.
func canonRain(v any) string {
	switch m := v.(type) {
	case peerprotocol.ChokeMessage:
		return "choke"
	case peerprotocol.UnchokeMessage:
		return "unchoke"
	case peerprotocol.InterestedMessage:
		return "interested"
	case peerprotocol.NotInterestedMessage:
		return "notinterested"
	case peerprotocol.HaveAllMessage:
		return "haveall"
	case peerprotocol.HaveNoneMessage:
		return "havenone"
	case peerprotocol.HaveMessage:
		return fmt.Sprintf("have(%d)", m.Index)
	case peerprotocol.AllowedFastMessage:
		return fmt.Sprintf("allowedfast(%d)", m.Index)
	case peerprotocol.BitfieldMessage:
		return fmt.Sprintf("bitfield(%x)", m.Data)
	case peerprotocol.RequestMessage:
		return fmt.Sprintf("request(%d,%d,%d)", m.Index, m.Begin, m.Length)
	case peerprotocol.CancelMessage:
		return fmt.Sprintf("cancel(%d,%d,%d)", m.Index, m.Begin, m.Length)
	case peerprotocol.RejectMessage:
		return fmt.Sprintf("reject(%d,%d,%d)", m.Index, m.Begin, m.Length)
	case peerprotocol.PortMessage:
		return fmt.Sprintf("port(%d)", m.Port)
	case peerreader.Piece:
		return fmt.Sprintf("piece(%d,%d,%x)", m.Index, m.Begin, m.Buffer.Data)
	case peerprotocol.ExtensionHandshakeMessage:
		mm := map[string]int64{}
		for k, x := range m.M {
			mm[k] = int64(x)
		}
		return fmt.Sprintf("exthandshake(m=%s,v=%q,yourip=%q,metadata_size=%d,reqq=%d)", canonMap(mm), m.V, m.YourIP, m.MetadataSize, m.RequestQueue)
	case peerprotocol.ExtensionMetadataMessage:
		return fmt.Sprintf("extmetadata(type=%d,piece=%d,total_size=%d,data=%x)", m.Type, m.Piece, m.TotalSize, m.Data)
	case peerprotocol.ExtensionPEXMessage:
		return fmt.Sprintf("extpex(added=%x,dropped=%x)", m.Added, m.Dropped)
	}
	return fmt.Sprintf("unexpected:%T", v)
}

// judgeStream compares the delivered messages with the model; returns "" or (key suffix, text).
func judgeStream(exp []expect, got []string) (key, text string) {
	i := 0
	for _, e := range exp {
		switch e.kind {
		case xFree:
			return "", ""
		case xSkip:
			// skipped or stopped: both fine; from here on the reader may have stopped
			for j := range exp {
				exp[j].mayStop = true
			}
		case xMustStop:
			if i < len(got) {
				return "reader." + e.cause + "-delivered", fmt.Sprintf("%s frame that must end the connection (%s) was followed by delivery of %s", e.name, e.cause, got[i])
			}
			return "", ""
		case xDeliver:
			if i < len(got) && got[i] == e.msg {
				i++
				continue
			}
			if i == len(got) {
				if e.mayStop {
					return "", ""
				}
				return "reader.valid-frame-dropped." + e.name, fmt.Sprintf("well-formed %s frame was not delivered (expected %s)", e.name, e.msg)
			}
			return "reader.content-mismatch." + e.name, fmt.Sprintf("delivered %s where the reference decodes %s", got[i], e.msg)
		}
	}
	if i < len(got) {
		return "reader.extra-delivered", fmt.Sprintf("delivered %s beyond the frames of the stream", got[i])
	}
	return "", ""
}

// ---------------------------------------------------------------- worker

type c08Job struct {
	Kind     string // frame | ext | deep
	Index    int
	Depth    int
	Cuts     int
	From, To int    // range of fragmentation indexes handled by this job (0 = uncut, then 1-cuts, then 2-cuts)
	ErrFile  string // deep jobs: the worker's stderr is redirected here so that the coordinator can read how it died
}

// numRuns = number of fragmentations of a stream of n bytes.
func numRuns(n int, twoCuts bool) int {
	r := 1 + (n - 1)
	if twoCuts {
		r += (n - 1) * (n - 2) / 2
	}
	return r
}

type c08V struct {
	Key   string
	Rank  int64
	Desc  string
	Count int64
}

type c08Res struct {
	ResumeFrom int // >0: the job stopped before this fragmentation index (process allocation budget used up)
	Runs       int64
	Viol       []c08V
	Ctr        map[string]int64
	MaxAlloc   uint64
	MaxDesc    string
}

type c08Worker struct {
	res    *c08Res
	viol   map[string]*c08V
	warmed bool
}

func (w *c08Worker) violate(key string, rank int64, desc func() string) {
	v := w.viol[key]
	if v == nil {
		w.viol[key] = &c08V{Key: key, Rank: rank, Desc: desc(), Count: 1}
		return
	}
	v.Count++
	if rank < v.Rank {
		v.Rank, v.Desc = rank, desc()
	}
}

// measured runs the real reader on the chunks and returns what it delivered plus the bytes allocated meanwhile.
func measured(max int, chunks [][]byte) (msgs []any, pv, st string, alloc uint64) {
	var m0, m1 runtime.MemStats
	runtime.ReadMemStats(&m0)
	msgs, pv, st = runReader(max, chunks)
	runtime.ReadMemStats(&m1)
	alloc = m1.TotalAlloc - m0.TotalAlloc
	// No GC in a worker: memory that was never touched costs nothing, while spans re-used after a GC have to be
	// zeroed (seconds and gigabytes of RSS per declared 2 GiB). Processes are recycled instead (see allCuts/c08Work).
	c08ProcAlloc = m1.TotalAlloc
	return
}

func (w *c08Worker) one(max int, stream []byte, cuts []int, rank int64, what string, allocClass string, content bool) {
	chunks := cut(stream, cuts...)
	msgs, pv, st, alloc := measured(max, chunks)
	w.res.Runs++
	desc := func(s string) func() string {
		return func() string {
			return fmt.Sprintf("%s, reader max message size %d, stream %s cut at %v: %s", what, max, hexShort(stream), cuts, s)
		}
	}
	if pv != "" {
		w.violate("C08.reader.panic."+topFunc(st), rank, desc("panic: "+pv+" at "+topFrames(st)))
		w.res.Ctr["panics"]++
		return
	}
	if alloc > w.res.MaxAlloc {
		w.res.MaxAlloc = alloc
		w.res.MaxDesc = what
	}
	if alloc > uint64(max)+c08Slack {
		w.violate("C08.alloc."+allocClass, rank, desc(fmt.Sprintf("%d bytes allocated while reading this stream (bound: max message size %d + %d)", alloc, max, c08Slack)))
	}
	got := make([]string, len(msgs))
	for i, m := range msgs {
		got[i] = canonRain(m)
	}
	w.res.Ctr["messages_delivered"] += int64(len(got))
	if !content {
		return
	}
	exp := modelStream(stream, max)
	last := expect{kind: -1}
	if len(exp) > 0 {
		last = exp[len(exp)-1]
	}
	switch {
	case last.kind == xMustStop:
		w.res.Ctr["model_must_stop_"+last.cause]++
	case last.kind == xFree:
		w.res.Ctr["model_unconstrained"]++
	default:
		w.res.Ctr["model_all_frames_ok"]++
	}
	if len(got) == 3 {
		w.res.Ctr["streams_fully_delivered"]++
	}
	if key, text := judgeStream(exp, got); key != "" {
		w.violate("C08."+key, rank, desc(text+fmt.Sprintf("; delivered sequence %v", got)))
	}
}

func hexShort(b []byte) string {
	if len(b) <= 160 {
		return fmt.Sprintf("%x", b)
	}
	return fmt.Sprintf("%x...(%d bytes)...%x", b[:60], len(b), b[len(b)-24:])
}

func (w *c08Worker) allCuts(max int, stream []byte, twoCuts bool, from, to int, rankBase int64, what, allocClass string) {
	n := 0
	done := 0
	in := func() bool {
		if w.res.ResumeFrom > 0 || n < from || (to != 0 && n >= to) {
			return false
		}
		if c08ProcAlloc > c08ProcBudget && done > 0 {
			w.res.ResumeFrom = n
			return false
		}
		done++
		return true
	}
	if in() {
		w.one(max, stream, nil, rankBase, what, allocClass, true)
	}
	for a := 1; a < len(stream); a++ {
		n++
		if in() {
			w.one(max, stream, []int{a}, rankBase+int64(n), what, allocClass, true)
		}
	}
	if twoCuts {
		for a := 1; a < len(stream); a++ {
			for b := a + 1; b < len(stream); b++ {
				n++
				if in() {
					w.one(max, stream, []int{a, b}, rankBase+int64(n), what, allocClass, true)
				}
			}
		}
	}
}

var (
	c08Warmed    bool
	c08ProcAlloc uint64 // TotalAlloc of this worker process at the last measurement
)

const c08ProcBudget = 40 << 30 // bytes a worker process may allocate (address space) before it hands its job back

func c08Work(job core.Job) json.RawMessage {
	var j c08Job
	json.Unmarshal(job.Data, &j)
	debug.SetGCPercent(-1)
	w := &c08Worker{res: &c08Res{Ctr: map[string]int64{}}, viol: map[string]*c08V{}}
	// warm-up (one-time allocations: buffer pool, reflection caches, fmt) outside the measurements
	for i := 0; i < 3 && !c08Warmed; i++ {
		warm := append(append([]byte{}, c08V1...), refcodec.Piece(1, 2, []byte{1, 2, 3}).Encode()...)
		warm = append(warm, refcodec.Extended(0, refcodec.Benc(refcodec.D("m", refcodec.D("ut_metadata", 1), "v", "w"))).Encode()...)
		warm = append(warm, refcodec.Extended(1, refcodec.Benc(refcodec.D("msg_type", 1, "piece", 0))).Encode()...)
		warm = append(warm, refcodec.Extended(2, refcodec.Benc(refcodec.D("added", ""))).Encode()...)
		measured(c08ExtMax, [][]byte{warm})
	}
	c08Warmed = true
	realMax := int(torrent.DefaultConfig.MaxMetadataSize)
	rankBase := int64(job.ID) << 24
	switch j.Kind {
	case "frame":
		s := c08FrameSpecs(c08FrameMax)[j.Index]
		w.allCuts(c08FrameMax, s.stream(c08FrameMax), j.Cuts >= 2, j.From, j.To, rankBase, s.String(), "frame."+msgName(s.ID))
	case "ext":
		s := c08ExtSpecs(int64(realMax))[j.Index]
		st := s.stream()
		cls := s.Class
		if cls == "nesting" {
			cls = "unknown-key-amplification" // values of keys nobody asked for are materialised (deep or long lists)
		}
		w.allCuts(c08ExtMax, st, j.Cuts >= 2 && len(st) <= c08TwoCutMax, j.From, j.To, rankBase, "extended message: "+s.Name, "ext."+cls)
	case "deep":
		// real default max message size; nesting as deep as the payload allows
		if j.ErrFile != "" {
			if f, err := os.Create(j.ErrFile); err == nil {
				syscall.Dup2(int(f.Fd()), 2)
			}
		}
		payload := "d1:x" + strings.Repeat("l", j.Depth)
		if 2*j.Depth+5 <= realMax-1 {
			payload = "d1:x" + nest("l", "e", j.Depth, "") + "e"
		}
		st := append(append([]byte{}, c08V1...), refcodec.Extended(0, []byte(payload)).Encode()...)
		st = append(st, c08V2...)
		w.one(realMax, st, nil, rankBase, fmt.Sprintf("extension handshake with an unknown key holding lists nested %d deep (%d-byte payload)", j.Depth, len(payload)), "ext.unknown-key-amplification", false)
	}
	for _, v := range w.viol {
		w.res.Viol = append(w.res.Viol, *v)
	}
	sort.Slice(w.res.Viol, func(a, b int) bool { return w.res.Viol[a].Key < w.res.Viol[b].Key })
	b, _ := json.Marshal(w.res)
	var ms runtime.MemStats
	runtime.ReadMemStats(&ms)
	if ms.TotalAlloc > 6<<30 {
		core.ExitCrash(b) // not a crash: hands the result over and lets the coordinator start a fresh process for the remaining jobs
	}
	return b
}

// ---------------------------------------------------------------- coordinator

func TestC08Reader(t *testing.T) {
	logger.Disable()
	if core.IsWorker() {
		core.WorkerMain(c08Work)
	}
	rep := core.NewReport("C08", "reader", "exploration")
	realMax := int(torrent.DefaultConfig.MaxMetadataSize)
	rep.Rule = fmt.Sprintf("the real PeerReader over an in-memory conn: stream = valid frame + frame under test + valid frame; frame lattice = length prefix {0,1,2,5,9,13,17,max-1,max,max+1,max+2,2^31,2^32-1} x id {0..21,255} x body {exact,zero,ff,short by 1 then EOF,long by 1} with max message size %d; "+
		"extension payload lattice (handshake sizes/queues, wrong types, malformed/truncated/trailing, declared string lengths, nesting 1/10/1000, ut_metadata type x piece x total_size x data, PEX blob lengths, unknown extended ids) with max message size %d; "+
		"every stream uncut and under every 1-cut (thorough: every 2-cut for streams <= 96 bytes, all frame streams) fragmentation; plus nesting as deep as the REAL default max message size (%d) allows, each in its own subprocess. "+
		"Oracles: no panic / no process death; delivered sequence == reference decode (refcodec) up to the first frame that must end the connection; TotalAlloc delta over the stream <= max + %d (GOMAXPROCS=1, GC off). distinct = lattice members.",
		c08FrameMax, c08ExtMax, realMax, c08Slack)
	rep.Assumptions = []string{
		"a fixed-size message whose length prefix disagrees with its type is malformed: the reader must drop the peer, not deliver a message",
		"unknown message ids / unknown extended ids may be skipped or may end the connection",
		"a wrongly typed known key in an extension dict may end the connection or be ignored; out-of-range values for one-byte ids / 32-bit piece numbers are not judged",
		"allocation is measured over the three-frame stream (the two neighbours are 9-byte have messages), not per frame",
		"constant-factor copies of a large well-formed payload (reader buffer + bencode string + Go string) are not examined: the lattice uses small max sizes so that only unbounded/declared-size allocation exceeds max + slack",
	}
	frames := c08FrameSpecs(c08FrameMax)
	exts := c08ExtSpecs(int64(realMax))
	cuts := 1
	if core.Thorough() {
		cuts = 2
	}
	var jobs []core.Job
	var meta []string
	addJob := func(j c08Job, what string) {
		b, _ := json.Marshal(j)
		jobs = append(jobs, core.Job{ID: len(jobs), Data: b})
		meta = append(meta, what)
	}
	chunked := func(j c08Job, what string, n, chunk int) {
		for from := 0; from < n; from += chunk {
			j.From, j.To = from, min(from+chunk, n)
			addJob(j, what)
		}
	}
	for i, s := range frames {
		chunked(c08Job{Kind: "frame", Index: i, Cuts: cuts}, s.String(), numRuns(len(s.stream(c08FrameMax)), cuts >= 2), 1<<20)
		rep.CountDistinct(s.String())
		if i%211 == 0 {
			rep.Sample(5, s.String()+" stream "+hexShort(s.stream(c08FrameMax)))
		}
	}
	for i, s := range exts {
		st := s.stream()
		chunk := 1 << 20
		if s.Heavy {
			chunk = 16 // 16 x 2 GiB stays below the per-process allocation budget
		}
		chunked(c08Job{Kind: "ext", Index: i, Cuts: cuts}, "ext: "+s.Name, numRuns(len(st), cuts >= 2 && len(st) <= c08TwoCutMax), chunk)
		rep.CountDistinct("ext:" + s.Name)
		if i%97 == 0 {
			rep.Sample(14, fmt.Sprintf("extended id %d %s payload %q", s.ExtID, s.Name, hexOrText(s.Payload)))
		}
	}
	depths := []int{100000, 1000000, 4000000, realMax - 6}
	if core.Thorough() {
		depths = []int{100000, 500000, 1000000, 2000000, 4000000, 8000000, realMax/2 - 4, realMax - 6}
	}
	errDir, err := os.MkdirTemp(os.Getenv("VERIF_TMP"), "leafc08err")
	if err != nil {
		core.HarnessError("%v", err)
	}
	for _, d := range depths {
		addJob(c08Job{Kind: "deep", Depth: d, ErrFile: filepath.Join(errDir, fmt.Sprintf("deep-%d.stderr", d))}, fmt.Sprintf("deep nesting %d", d))
		rep.CountDistinct(fmt.Sprintf("deep:%d", d))
	}
	ag := newAgg()
	ctr := map[string]int64{}
	var runs int64
	var maxAlloc uint64
	var maxDesc string
	minCrashDepth, maxOKDepth := -1, -1
	// A worker that has allocated too much (address space, never touched memory) hands a job back half done
	// (ResumeFrom); the remainder is run in the next round by a fresh process.
	pending := jobs
	nResults := 0
	for round := 0; len(pending) > 0; round++ {
		results := core.RunSharded("TestC08Reader", pending, 120*time.Second)
		sort.Slice(results, func(a, b int) bool { return results[a].ID < results[b].ID })
		nResults += len(results)
		pending = nil
		for _, r := range results {
			what := meta[r.ID]
			if r.Hang {
				rep.Cap("worker exceeded its wall budget on " + what)
				continue
			}
			if r.Crash != "" || len(r.Data) == 0 { // died (a deep job's stderr goes to its ErrFile, so Crash may be empty)
				var j c08Job
				json.Unmarshal(jobs[r.ID].Data, &j)
				cause := "other"
				crashOut := r.Crash
				if j.ErrFile != "" {
					if f, err := os.Open(j.ErrFile); err == nil {
						head := make([]byte, 24<<10)
						n, _ := io.ReadFull(f, head)
						f.Close()
						if n > 0 {
							crashOut = string(head[:n])
						}
					}
				}
				if strings.Contains(crashOut, "stack overflow") || strings.Contains(crashOut, "goroutine stack exceeds") {
					cause = "stack-overflow.other"
					if strings.Contains(crashOut, "zeebo/bencode") && strings.Contains(crashOut, "decodeList") {
						cause = "stack-overflow.bencode-nesting"
					}
				}
				if j.Kind == "deep" && (minCrashDepth < 0 || j.Depth < minCrashDepth) {
					minCrashDepth = j.Depth
				}
				ag.add("C08.crash."+cause, int64(r.ID), func() (string, any) {
					return fmt.Sprintf("the process died while the reader (max message size %d = default MaxMetadataSize) read: %s; its output began: %s", realMax, what, firstLines(crashOut, 3)), jobs[r.ID]
				})
				ctr["process_deaths"]++
				continue
			}
			var res c08Res
			if err := json.Unmarshal(r.Data, &res); err != nil {
				core.HarnessError("bad worker result for %s: %v", what, err)
			}
			runs += res.Runs
			for k, v := range res.Ctr {
				ctr[k] += v
			}
			if res.MaxAlloc > maxAlloc {
				maxAlloc, maxDesc = res.MaxAlloc, res.MaxDesc
			}
			var j c08Job
			json.Unmarshal(jobs[r.ID].Data, &j)
			if j.Kind == "deep" {
				if j.Depth > maxOKDepth {
					maxOKDepth = j.Depth
				}
				ctr["deep_survived"]++
			}
			if res.ResumeFrom > 0 {
				j.From = res.ResumeFrom
				addJob(j, what)
				pending = append(pending, jobs[len(jobs)-1])
				ctr["jobs_resumed_in_a_fresh_process"]++
			}
			for _, v := range res.Viol {
				v := v
				ag.add(v.Key, v.Rank, func() (string, any) { return v.Desc, jobs[r.ID] })
				for i := int64(1); i < v.Count; i++ {
					ag.add(v.Key, v.Rank, nil)
				}
			}
		}
	}
	os.RemoveAll(errDir)
	if nResults != len(jobs) {
		core.HarnessError("got %d results for %d jobs", nResults, len(jobs))
	}
	ag.flush(rep)
	rep.Evaluations = runs
	for k, v := range ctr {
		rep.Extra[k] = v
	}
	rep.Extra["frame_specs"] = int64(len(frames))
	rep.Extra["ext_payload_specs"] = int64(len(exts))
	rep.Extra["max_alloc_bytes_in_one_stream"] = int64(maxAlloc)
	rep.Extra["max_alloc_stream"] = maxDesc
	rep.Extra["real_default_max_message_size"] = int64(realMax)
	rep.Extra["deep_nesting_depths"] = fmt.Sprint(depths)
	rep.Extra["deep_nesting_smallest_crashing_depth"] = int64(minCrashDepth)
	rep.Extra["deep_nesting_largest_surviving_depth"] = int64(maxOKDepth)
	if ctr["messages_delivered"] == 0 || ctr["model_must_stop_oversize"] == 0 || ctr["model_all_frames_ok"] == 0 || ctr["streams_fully_delivered"] == 0 || ctr["model_must_stop_truncated"] == 0 {
		rep.Vacuous("vacuous: %v", ctr)
	}
	rep.Finish()
}

func hexOrText(b []byte) string {
	if len(b) > 80 {
		b = b[:80]
	}
	if bytes.IndexFunc(b, func(r rune) bool { return r < 32 || r > 126 }) >= 0 {
		return fmt.Sprintf("hex:%x", b)
	}
	return string(b)
}

func firstLines(s string, n int) string {
	ls := strings.Split(strings.TrimSpace(s), "\n")
	if len(ls) > n {
		ls = ls[:n]
	}
	return strings.Join(ls, " | ")
}


// valueDepth is the nesting depth of a decoded reference value.
func valueDepth(v any) int {
	switch x := v.(type) {
	case *refcodec.Dict:
		m := 0
		for _, e := range x.Vals {
			if d := valueDepth(e); d > m {
				m = d
			}
		}
		return m + 1
	case []any:
		m := 0
		for _, e := range x {
			if d := valueDepth(e); d > m {
				m = d
			}
		}
		return m + 1
	}
	return 0
}

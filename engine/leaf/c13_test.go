//go:build verif

package leaf

import (
	"bytes"
	"crypto/sha1"
	"encoding/base32"
	"encoding/hex"
	"fmt"
	"reflect"
	"sort"
	"strings"
	"sync"
	"testing"

	"github.com/cenkalti/rain/v2/internal/infodownloader"
	"github.com/cenkalti/rain/v2/internal/logger"
	"github.com/cenkalti/rain/v2/internal/magnet"
	"github.com/cenkalti/rain/v2/zzverif/core"
)

// ---------------------------------------------------------------- magnet text

// pctEncode is the harness's own RFC 3986 encoder: everything except unreserved characters becomes %XX.
func pctEncode(s string) string {
	var sb strings.Builder
	for i := 0; i < len(s); i++ {
		c := s[i]
		if c >= 'a' && c <= 'z' || c >= 'A' && c <= 'Z' || c >= '0' && c <= '9' || c == '-' || c == '_' || c == '.' || c == '~' {
			sb.WriteByte(c)
		} else {
			fmt.Fprintf(&sb, "%%%02X", c)
		}
	}
	return sb.String()
}

func tierCanon(tiers [][]string) string {
	var ts []string
	for _, t := range tiers {
		set := map[string]bool{}
		for _, u := range t {
			set[u] = true
		}
		var us []string
		for u := range set {
			us = append(us, u)
		}
		sort.Strings(us)
		ts = append(ts, strings.Join(us, "\x00"))
	}
	sort.Strings(ts)
	return strings.Join(ts, "\x01")
}

func flatCanon(tiers [][]string) string {
	set := map[string]bool{}
	for _, t := range tiers {
		for _, u := range t {
			set[u] = true
		}
	}
	var us []string
	for u := range set {
		us = append(us, u)
	}
	sort.Strings(us)
	return strings.Join(us, "\x00")
}

func safeNew(s string) (m *magnet.Magnet, err error, pv string, st string) {
	defer func() {
		if r := recover(); r != nil {
			pv = fmt.Sprint(r)
			st = stack()
		}
	}()
	m, err = magnet.New(s)
	return
}

func safeString(m *magnet.Magnet) (s string, pv string, st string) {
	defer func() {
		if r := recover(); r != nil {
			pv = fmt.Sprint(r)
			st = stack()
		}
	}()
	return m.String(), "", ""
}

type magnetCtx struct {
	ag    *agg
	rep   *core.Report
	n     int64
	rank  int64
	texts map[string]struct{}
}

func eqPeers(a, b []string) bool {
	if len(a) == 0 && len(b) == 0 {
		return true
	}
	return reflect.DeepEqual(a, b)
}

// sameUnderProperty: info-hash, name, multiset of tiers (each a set), peers.
func (c *magnetCtx) compare(keyPrefix, what string, hash [20]byte, name string, tiers [][]string, peers []string, got *magnet.Magnet, peerClass string) {
	c.rank++
	rank := c.rank
	if got.InfoHash != hash {
		c.ag.add(keyPrefix+".infohash", rank, func() (string, any) {
			return fmt.Sprintf("%s: info-hash %x, want %x", what, got.InfoHash, hash), what
		})
	}
	if got.Name != name {
		c.ag.add(keyPrefix+".name", rank, func() (string, any) { return fmt.Sprintf("%s: name %q, want %q", what, got.Name, name), what })
	}
	if tierCanon(got.Trackers) != tierCanon(tiers) {
		c.ag.add(keyPrefix+".tiers", rank, func() (string, any) {
			return fmt.Sprintf("%s: tiers %q, want (as a multiset of sets) %q", what, got.Trackers, tiers), what
		})
	}
	if !eqPeers(got.Peers, peers) {
		c.ag.add(keyPrefix+".peers."+peerClass, rank, func() (string, any) { return fmt.Sprintf("%s: peers %q, want %q", what, got.Peers, peers), what })
	}
}

// fixpoint: x = New(String(m)) must satisfy New(String(x)) == x exactly and String(New(String(x))) == String(x).
func (c *magnetCtx) fixpoint(what string, m *magnet.Magnet, peerClass string) {
	s1, pv, st := safeString(m)
	if pv != "" {
		c.ag.add("C13.magnet.panic."+topFunc(st), c.rank, func() (string, any) { return what + ": String panicked: " + pv, what })
		return
	}
	x, err, pv, st := safeNew(s1)
	if pv != "" {
		c.ag.add("C13.magnet.panic."+topFunc(st), c.rank, func() (string, any) { return what + ": New(" + s1 + ") panicked: " + pv, what })
		return
	}
	if err != nil {
		c.ag.add("C13.magnet.export-rejected", c.rank, func() (string, any) {
			return fmt.Sprintf("%s: exported link %q is refused by New: %v", what, s1, err), what
		})
		return
	}
	s2, _, _ := safeString(x)
	y, err, _, _ := safeNew(s2)
	if err != nil {
		c.ag.add("C13.magnet.export-rejected", c.rank, func() (string, any) {
			return fmt.Sprintf("%s: re-exported link %q is refused by New: %v", what, s2, err), what
		})
		return
	}
	s3, _, _ := safeString(y)
	norm := func(m *magnet.Magnet) magnet.Magnet {
		n := *m
		if len(n.Trackers) == 0 {
			n.Trackers = nil
		}
		if len(n.Peers) == 0 {
			n.Peers = nil
		}
		return n
	}
	if !reflect.DeepEqual(norm(x), norm(y)) || s2 != s3 {
		key := "C13.magnet.fixpoint"
		if !eqPeers(x.Peers, y.Peers) {
			key = "C13.magnet.roundtrip.peers." + peerClass // same defect class as a peer lost in one round trip
		}
		c.ag.add(key, c.rank, func() (string, any) {
			return fmt.Sprintf("%s: New(String(.)) is not idempotent: %q -> %q -> %q", what, s1, s2, s3), what
		})
	}
}

func (c *magnetCtx) run() {
	h1 := sha1.Sum([]byte("verif magnet one"))
	h2 := [20]byte{0, 0, 0, 0, 0, 0xff, 0xff, 0xff, 0xff, 0xff, 0x10, 0x20, 0x30, 0x40, 0x50, 0x60, 0x70, 0x80, 0x90, 0xa0}
	hashes := [][20]byte{h1, h2}
	names := []string{"", "plain", "with space", "a&b", "a=b", "100%", "50%25", "a+b", "ünï©ödé 日本語", "%41", "a;b", "#frag", "?q=1", "/sl\\ash", " lead and trail ", "x&tr=http://evil/", "x&x.pe=6.6.6.6:6"}
	urls := []string{
		"http://t1.example/announce",
		"udp://t2.example:6969",
		"http://t3.example/ann?passkey=a&b=c%20d",
		"http://[2001:db8::1]:80/a+b",
		"wss://t5.example/x y",
		"http://t6.example/ünï/日本",
		"udp://t7.example:1/#frag",
		"http://t8.example/a=b&tr=http://evil/",
		"http://t9.example/",
	}
	// tier-size vectors: 0 tiers, then 1..3 tiers of sizes 1..3
	var shapes [][]int
	shapes = append(shapes, nil)
	for a := 1; a <= 3; a++ {
		shapes = append(shapes, []int{a})
		for b := 1; b <= 3; b++ {
			shapes = append(shapes, []int{a, b})
			for d := 1; d <= 3; d++ {
				shapes = append(shapes, []int{a, b, d})
			}
		}
	}
	mkTiers := func(shape []int, rot int, dup bool) [][]string {
		var tiers [][]string
		k := rot
		for _, sz := range shape {
			var t []string
			for i := 0; i < sz; i++ {
				t = append(t, urls[k%len(urls)])
				k++
			}
			tiers = append(tiers, t)
		}
		if dup && len(tiers) >= 2 { // the same URL in two tiers
			tiers[len(tiers)-1][0] = tiers[0][0]
		}
		return tiers
	}
	peerPool := []string{"1.2.3.4:6881", "[2001:db8::1]:6881", "peer.example.com:51413"}
	var peerSets [][]string
	peerSets = append(peerSets, nil)
	for i := range peerPool {
		peerSets = append(peerSets, []string{peerPool[i]})
		for j := range peerPool {
			if j == i {
				continue
			}
			peerSets = append(peerSets, []string{peerPool[i], peerPool[j]})
			for k := range peerPool {
				if k == i || k == j {
					continue
				}
				peerSets = append(peerSets, []string{peerPool[i], peerPool[j], peerPool[k]})
			}
		}
	}
	// peers that need escaping in a query string (outside the stated lattice, own key class)
	exoticPeers := [][]string{{"[fe80::1%eth0]:6881"}, {"host+name.example:1"}, {"a&b.example:2"}, {"1.2.3.4:6881", "[fe80::1%25eth0]:6881"}}

	// ---- direction 1: what the client exports parses back to the same thing
	export := func(h [20]byte, name string, tiers [][]string, peers []string, peerClass string) {
		c.n++
		m := &magnet.Magnet{InfoHash: h, Name: name, Trackers: tiers, Peers: peers}
		what := fmt.Sprintf("Magnet{hash=%x name=%q trackers=%q peers=%q}.String()", h[:4], name, tiers, peers)
		s, pv, st := safeString(m)
		if pv != "" {
			c.rank++
			c.ag.add("C13.magnet.panic."+topFunc(st), c.rank, func() (string, any) { return what + " panicked: " + pv, what })
			return
		}
		what += " = " + s
		got, err, pv, st := safeNew(s)
		c.texts[s] = struct{}{}
		switch {
		case pv != "":
			c.rank++
			c.ag.add("C13.magnet.panic."+topFunc(st), c.rank, func() (string, any) { return what + ": New panicked: " + pv, what })
		case err != nil:
			c.rank++
			c.ag.add("C13.magnet.export-rejected", c.rank, func() (string, any) { return fmt.Sprintf("%s: refused by New: %v", what, err), what })
		default:
			c.compare("C13.magnet.roundtrip", what, h, name, tiers, peers, got, peerClass)
			c.fixpoint(what, m, peerClass)
		}
		if c.n%4001 == 0 {
			c.rep.Sample(6, s)
		}
	}
	for _, h := range hashes {
		for ni, name := range names {
			for si, shape := range shapes {
				for pi, peers := range peerSets {
					export(h, name, mkTiers(shape, ni+si+pi, false), peers, "plain")
				}
				export(h, name, mkTiers(shape, ni+si, true), peerSets[si%len(peerSets)], "plain")
			}
		}
		for _, peers := range exoticPeers {
			export(h, "n", mkTiers([]int{1}, 0, false), peers, "needs-escaping")
		}
	}
	c.rep.Extra["magnet_export_cases"] = c.n

	// ---- direction 2: links written by others (hex/base32, upper/lower, tr / tr.N, any parameter order)
	type hform struct {
		n string
		f func(h [20]byte) string
	}
	hforms := []hform{
		{"hex-lower", func(h [20]byte) string { return hex.EncodeToString(h[:]) }},
		{"hex-upper", func(h [20]byte) string { return strings.ToUpper(hex.EncodeToString(h[:])) }},
		{"base32-upper", func(h [20]byte) string { return base32.StdEncoding.EncodeToString(h[:]) }},
		{"base32-lower", func(h [20]byte) string { return strings.ToLower(base32.StdEncoding.EncodeToString(h[:])) }},
	}
	var nImport, lowerB32Rejected, lowerB32OK int64
	for _, h := range hashes {
		for _, hf := range hforms {
			for ni, name := range names {
				for si, shape := range shapes {
					tiers := mkTiers(shape, ni+si, false)
					peers := peerSets[(ni+si)%len(peerSets)]
					for style := 0; style < 4; style++ {
						// style 0: every tracker as tr= (flat); 1: tr.N per tier; 2: tr.N with gaps, tiers in reverse textual order, xt last; 3: single-URL tiers as tr=, others tr.N
						var params []string
						xt := "xt=urn:btih:" + hf.f(h)
						if name != "" || style == 1 {
							params = append(params, "dn="+pctEncode(name))
						}
						wantTiers := tiers
						switch style {
						case 0:
							wantTiers = nil
							for _, t := range tiers {
								for _, u := range t {
									params = append(params, "tr="+pctEncode(u))
									wantTiers = append(wantTiers, []string{u})
								}
							}
						case 1:
							for i, t := range tiers {
								for _, u := range t {
									params = append(params, fmt.Sprintf("tr.%d=%s", i, pctEncode(u)))
								}
							}
						case 2:
							for i := len(tiers) - 1; i >= 0; i-- {
								for _, u := range tiers[i] {
									params = append(params, fmt.Sprintf("tr.%d=%s", 3*i+2, pctEncode(u)))
								}
							}
						case 3:
							for i, t := range tiers {
								for _, u := range t {
									if len(t) == 1 {
										params = append(params, "tr="+pctEncode(u))
									} else {
										params = append(params, fmt.Sprintf("tr.%d=%s", i, pctEncode(u)))
									}
								}
							}
						}
						for _, p := range peers {
							params = append(params, "x.pe="+pctEncode(p))
						}
						if style == 2 {
							params = append(params, xt)
						} else {
							params = append([]string{xt}, params...)
						}
						s := "magnet:?" + strings.Join(params, "&")
						nImport++
						c.texts[s] = struct{}{}
						if nImport%3001 == 0 {
							c.rep.Sample(12, s)
						}
						what := "New(" + s + ")"
						m, err, pv, st := safeNew(s)
						if pv != "" {
							c.rank++
							c.ag.add("C13.magnet.panic."+topFunc(st), c.rank, func() (string, any) { return what + " panicked: " + pv, s })
							continue
						}
						if err != nil {
							if hf.n == "base32-lower" {
								lowerB32Rejected++ // RFC 4648 alphabet is upper case; the property only speaks of links the client exports
								continue
							}
							c.rank++
							c.ag.add("C13.magnet.parse.rejected-wellformed."+hf.n, c.rank, func() (string, any) { return fmt.Sprintf("%s: %v", what, err), s })
							continue
						}
						if hf.n == "base32-lower" {
							lowerB32OK++
						}
						c.compare("C13.magnet.parse", what, h, name, wantTiers, peers, m, "plain")
						if flatCanon(m.Trackers) != flatCanon(tiers) {
							c.ag.add("C13.magnet.parse.trackers-lost", c.rank, func() (string, any) {
								return fmt.Sprintf("%s: tracker URLs %q, want %q", what, m.Trackers, tiers), s
							})
						}
						// export of what was imported preserves it, and is a fixpoint
						s1, _, _ := safeString(m)
						m1, err, _, _ := safeNew(s1)
						if err != nil {
							c.ag.add("C13.magnet.export-rejected", c.rank, func() (string, any) { return fmt.Sprintf("%s: its export %q is refused: %v", what, s1, err), s })
							continue
						}
						c.compare("C13.magnet.roundtrip", what+" -> String -> New", m.InfoHash, m.Name, m.Trackers, m.Peers, m1, "plain")
						c.fixpoint(what, m, "plain")
					}
				}
			}
		}
	}
	c.rep.Extra["magnet_import_cases"] = nImport
	c.rep.Extra["observed_lowercase_base32_rejected"] = lowerB32Rejected
	c.rep.Extra["observed_lowercase_base32_accepted"] = lowerB32OK

	// ---- malformed links: an error, never a panic
	hx := hex.EncodeToString(h1[:])
	b32 := base32.StdEncoding.EncodeToString(h1[:])
	hx2 := hex.EncodeToString(h2[:])
	type bad struct {
		class, s string
		must     bool // must be refused
	}
	bads := []bad{
		{"short-hash", "magnet:?xt=urn:btih:" + hx[:39], true},
		{"short-hash", "magnet:?xt=urn:btih:" + hx[:38], true},
		{"short-hash", "magnet:?xt=urn:btih:" + hx[:20], true},
		{"short-hash", "magnet:?xt=urn:btih:" + b32[:31], true},
		{"short-hash", "magnet:?xt=urn:btih:", true},
		{"long-hash", "magnet:?xt=urn:btih:" + hx + "0", true},
		{"long-hash", "magnet:?xt=urn:btih:" + b32 + "A", true},
		{"long-hash", "magnet:?xt=urn:btih:" + hx + hx, true},
		{"bad-hex", "magnet:?xt=urn:btih:" + "g" + hx[1:], true},
		{"bad-hex", "magnet:?xt=urn:btih:" + hx[:39] + "%20", true},
		{"bad-hex", "magnet:?xt=urn:btih:" + strings.Repeat("zz", 20), true},
		{"bad-base32", "magnet:?xt=urn:btih:" + "1" + b32[1:], true},
		{"bad-base32", "magnet:?xt=urn:btih:" + b32[:31] + "8", true},
		{"bad-base32", "magnet:?xt=urn:btih:" + b32[:31] + "=", true},
		{"bad-base32", "magnet:?xt=urn:btih:" + strings.Repeat("0", 32), true},
		{"missing-xt", "magnet:?dn=name", true},
		{"missing-xt", "magnet:?", true},
		{"missing-xt", "magnet:", true},
		{"missing-xt", "magnet:?xt", true},
		{"missing-xt", "magnet:?xt=", true},
		{"missing-xt", "magnet:?XT=urn:btih:" + hx, true},
		{"bad-xt", "magnet:?xt=" + hx, true},
		{"bad-xt", "magnet:?xt=urn:sha1:" + b32, true},
		{"bad-xt", "magnet:?xt=urn:btih" + hx, true},
		{"bad-xt", "magnet:?xt=URN:BTIH:" + hx, false},
		{"v2-only", "magnet:?xt=urn:btmh:1220d8dd32ac93357c368556af3ac1d95c9d76bd0dff6fa9833ecdac3d53134efabb", true},
		{"v2-only", "magnet:?xt=urn:btmh:1220d8dd32ac93357c368556af3ac1d95c9d76bd0dff6fa9833ecdac3d53134efabb&xt=urn:btmh:1220" + strings.Repeat("00", 32), true},
		{"v2-only", "magnet:?xt=urn:btmh:", true},
		{"not-magnet", "http://example.com/?xt=urn:btih:" + hx, true},
		{"not-magnet", "", true},
		{"not-magnet", hx, true},
		{"not-magnet", "magnet", true},
		{"not-magnet", "magnet:?xt=urn:btih:" + hx + "&dn=%zz", false},
		{"not-magnet", "magnet:?%zz", true},
		{"not-magnet", "magnet://[::1/?xt=urn:btih:" + hx, true},
		{"not-magnet", "\x00magnet:?xt=urn:btih:" + hx, true},
		{"duplicated-xt", "magnet:?xt=urn:btih:" + hx + "&xt=urn:btih:" + hx2, false},
		{"duplicated-xt", "magnet:?xt=urn:btih:" + hx + "&xt=urn:btih:" + hx, false},
		{"duplicated-xt", "magnet:?xt=urn:btih:" + hx + "&xt=urn:btih:" + hx[:10], false},
		{"duplicated-xt", "magnet:?xt=urn:btih:" + hx[:10] + "&xt=urn:btih:" + hx, false},
		{"odd-params", "magnet:?xt=urn:btih:" + hx + "&tr.x=http://a/&tr.-1=http://b/&tr.99999999999999999999=http://c/&tr.=http://d/", false},
		{"odd-params", "magnet:?xt=urn:btih:" + hx + "&tr=&tr.0=&x.pe=&dn=", false},
		{"odd-params", "magnet:?xt=urn:btih:" + hx + strings.Repeat("&tr=http://a/", 300), false},
		{"odd-params", "magnet:?xt=urn:btih:" + hx + "&dn=a&dn=b", false},
	}
	var nBad, dupAccepted, nRefused int64
	for _, b := range bads {
		nBad++
		c.rank++
		m, err, pv, st := safeNew(b.s)
		what := fmt.Sprintf("New(%q)", b.s)
		switch {
		case pv != "":
			c.ag.add("C13.magnet.panic."+topFunc(st), c.rank, func() (string, any) { return what + " panicked: " + pv + " at " + topFrames(st), b.s })
		case err == nil && b.must:
			c.ag.add("C13.magnet.malformed-accepted."+b.class, c.rank, func() (string, any) {
				return fmt.Sprintf("%s accepted a malformed link (info-hash %x)", what, m.InfoHash), b.s
			})
		case err == nil:
			if b.class == "duplicated-xt" {
				dupAccepted++
			}
			if m.InfoHash != h1 {
				c.ag.add("C13.magnet.malformed-accepted.wrong-hash", c.rank, func() (string, any) {
					return fmt.Sprintf("%s accepted with info-hash %x which is not the first v1 topic", what, m.InfoHash), b.s
				})
			}
			// whatever was accepted must survive export
			c.fixpoint(what, m, "plain")
		default:
			nRefused++
		}
	}
	c.rep.Extra["magnet_malformed_cases"] = nBad
	c.rep.Extra["magnet_malformed_refused"] = nRefused
	c.rep.Extra["observed_duplicated_xt_accepted_first_wins"] = dupAccepted
	c.n += nImport + nBad
}

// ---------------------------------------------------------------- InfoDownloader

type mdPeer struct {
	size      uint32
	requested []uint32
}

func (p *mdPeer) MetadataSize() uint32            { return p.size }
func (p *mdPeer) RequestMetadataPiece(idx uint32) { p.requested = append(p.requested, idx) }

type mdEvent struct {
	Idx  uint32
	Kind string // right | garbage | short | long | empty | full
}

func (e mdEvent) String() string { return fmt.Sprintf("GotBlock(%d,%s)", e.Idx, e.Kind) }

const mdBlock = 16384

type mdCase struct {
	S uint32
	Q int
	G []byte // the true metadata
	X []byte // right-size garbage source
}

func (c *mdCase) nblocks() uint32 { return (c.S + mdBlock - 1) / mdBlock }
func (c *mdCase) bsize(i uint32) uint32 {
	if i >= c.nblocks() {
		return mdBlock
	}
	if i == c.nblocks()-1 && c.S%mdBlock != 0 {
		return c.S % mdBlock
	}
	return mdBlock
}

func (c *mdCase) data(e mdEvent) []byte {
	sz := c.bsize(e.Idx)
	off := uint32(0)
	if e.Idx < c.nblocks() {
		off = e.Idx * mdBlock
	}
	switch e.Kind {
	case "right":
		if e.Idx < c.nblocks() {
			return c.G[off : off+sz]
		}
		return c.X[:sz]
	case "garbage":
		return c.X[off : off+sz]
	case "short":
		return c.X[:sz-1]
	case "long":
		return c.X[:sz+1]
	case "empty":
		return nil
	case "full":
		return c.X[:mdBlock]
	}
	panic("bad kind")
}

type mdOutcome struct {
	ended bool // peer dropped (error) or Done: the call site stops feeding this downloader
	done  bool
}

// runSeq replays one event sequence from scratch the way torrent_metadataextension.go drives the
// downloader (New, RequestBlocks(q); on data: GotBlock, on error drop the peer, else if !Done RequestBlocks(q)),
// judges every step against the flat model, then (if the downloader is still alive and not done) feeds the
// missing blocks honestly and demands completion.
func (c *mdCase) runSeq(seq []mdEvent, ag *agg, rank int64, st *mdStats) (out mdOutcome) {
	desc := func(s string) func() (string, any) {
		return func() (string, any) {
			return fmt.Sprintf("metadata of %d bytes (%d blocks), request queue %d, sequence %v: %s", c.S, c.nblocks(), c.Q, seq, s),
				map[string]any{"size": c.S, "queue": c.Q, "seq": seq}
		}
	}
	defer func() {
		if r := recover(); r != nil {
			stk := stack()
			ag.add("C13.infodl.panic."+topFunc(stk), rank, desc(fmt.Sprintf("panic: %v at %s", r, topFrames(stk))))
			out.ended = true
		}
	}()
	n := c.nblocks()
	peer := &mdPeer{size: c.S}
	d := infodownloader.New(peer)
	d.RequestBlocks(c.Q)
	img := make([]byte, c.S)
	accepted := make([]int, n)
	dup := false
	checkRequests := func() bool {
		seen := map[uint32]bool{}
		for _, r := range peer.requested {
			if r >= n || seen[r] {
				ag.add("C13.infodl.request.invalid", rank, desc(fmt.Sprintf("requested block indexes %v (out of range or twice)", peer.requested)))
				return false
			}
			seen[r] = true
		}
		return true
	}
	if !checkRequests() {
		return mdOutcome{ended: true}
	}
	cls := func() string {
		if dup {
			return ".after-duplicate"
		}
		return ""
	}
	feed := func(e mdEvent) (stop bool) {
		data := c.data(e)
		valid := e.Idx < n && uint32(len(data)) == c.bsize(e.Idx)
		wasRequested := false
		for _, r := range peer.requested {
			if r == e.Idx {
				wasRequested = true
			}
		}
		err := d.GotBlock(e.Idx, data)
		st.events++
		if err == nil {
			if !valid {
				ag.add("C13.infodl.accepts-invalid."+e.Kind, rank, desc(fmt.Sprintf("%s (%d bytes) accepted", e, len(data))))
				return true
			}
			if accepted[e.Idx] > 0 {
				dup = true
				st.dupAccepted++
			}
			accepted[e.Idx]++
			copy(img[e.Idx*mdBlock:], data)
			st.accepted++
		} else {
			st.rejected++
			if valid && wasRequested && accepted[e.Idx] == 0 {
				ag.add("C13.infodl.rejects-valid-block"+cls(), rank, desc(fmt.Sprintf("%s: a requested block of the right size was refused: %v", e, err)))
			}
		}
		if uint32(len(d.Bytes)) != c.S || !bytes.Equal(d.Bytes, img) {
			ag.add("C13.infodl.bytes"+cls(), rank, desc(fmt.Sprintf("after %s the assembly buffer differs from what was accepted at the right offsets (len %d)", e, len(d.Bytes))))
			return true
		}
		if err != nil {
			return true // the call site closes the peer
		}
		all := true
		for _, a := range accepted {
			if a == 0 {
				all = false
			}
		}
		done := d.Done()
		if done && !all {
			ag.add("C13.infodl.done-premature"+cls(), rank, desc(fmt.Sprintf("Done() == true after %s although blocks %v (accept counts) have not all arrived", e, accepted)))
			out.done = true
			return true
		}
		if !done && all {
			ag.add("C13.infodl.not-done-after-all-blocks"+cls(), rank, desc(fmt.Sprintf("Done() == false after %s although every block was accepted (accept counts %v)", e, accepted)))
			return true
		}
		if done {
			out.done = true
			st.completed++
			return true
		}
		d.RequestBlocks(c.Q)
		return !checkRequests()
	}
	for _, e := range seq {
		if feed(e) {
			out.ended = true
			return
		}
	}
	// honest continuation
	for step := uint32(0); step <= n; step++ {
		next := int64(-1)
		for _, r := range peer.requested {
			if accepted[r] == 0 && (next < 0 || int64(r) < next) {
				next = int64(r)
			}
		}
		if next < 0 {
			ag.add("C13.infodl.stuck"+cls(), rank, desc(fmt.Sprintf("not done, yet no outstanding request (requested %v, accept counts %v)", peer.requested, accepted)))
			return
		}
		if feed(mdEvent{uint32(next), "right"}) {
			return
		}
	}
	ag.add("C13.infodl.stuck"+cls(), rank, desc("honest continuation did not complete"))
	return
}

type mdStats struct{ seqs, events, accepted, rejected, dupAccepted, completed int64 }

func (c *mdCase) explore(maxLen int, kinds []string, ag *agg, st *mdStats, rankBase int64) {
	n := c.nblocks()
	var alphabet []mdEvent
	idxs := []uint32{}
	for i := uint32(0); i < n; i++ {
		idxs = append(idxs, i)
	}
	idxs = append(idxs, n, 1<<32-1)
	for _, k := range kinds {
		for _, i := range idxs {
			if k == "full" && c.bsize(i) == mdBlock {
				continue // same as right-size garbage
			}
			alphabet = append(alphabet, mdEvent{i, k})
		}
	}
	var seq []mdEvent
	var rec func()
	rec = func() {
		st.seqs++
		o := c.runSeq(seq, ag, int64(len(seq))<<56+rankBase+st.seqs, st)
		if o.ended || len(seq) == maxLen {
			return
		}
		for _, e := range alphabet {
			seq = append(seq, e)
			rec()
			seq = seq[:len(seq)-1]
		}
	}
	rec()
}

func TestC13Magnet(t *testing.T) {
	logger.Disable()
	rep := core.NewReport("C13", "magnet", "exploration")
	rep.Rule = "magnet text: (1) Magnet{2 hashes x 17 names needing escapes x (0 tiers + every vector of 1-3 tiers of sizes 1-3 over 9 URLs needing escapes, plus a URL shared by two tiers) x every ordered selection of 0-3 peers (IPv4, IPv6 literal, host name)}.String() -> New: info-hash, name, multiset of tiers (each a set), peers preserved, New(String(.)) idempotent; " +
		"(2) links written by the harness's own encoder: hash as hex/base32 upper/lower x names x tier vectors x 4 ways of spelling tiers (tr, tr.N, tr.N with gaps reversed and xt last, mixed) -> New -> String -> New; (3) a list of malformed links (short/long hash, bad hex, bad base32, missing/bad xt, v2-only, not a magnet, duplicated xt, odd parameters): error where the link is unusable, never a panic. " +
		"InfoDownloader driven as torrent_metadataextension.go does: metadata of 1-3 blocks (9 sizes) x request queue {1,2,50} x every sequence of <=4 (thorough: <=5) events over {block index 0..n-1, n, 2^32-1} x {right, right-size garbage, 1 short, 1 long (thorough: empty, full 16 KiB)}, pruned when the peer is dropped or Done, each followed by an honest continuation. distinct = distinct magnet texts + event sequences."
	rep.Assumptions = []string{
		"for links not produced by String() only info-hash, name, peers and the set of tracker URLs are judged, plus the grouping String() itself uses (tr = own tier, tr.N = tier N)",
		"lower-case base32 info-hashes and links with two v1 topics are recorded as observations, not judged (the property speaks of links the client exports)",
		"tier ORDER is not judged (the property compares the multiset of tiers)",
	}
	ag := newAgg()
	mc := &magnetCtx{ag: ag, rep: rep, texts: map[string]struct{}{}}
	mc.run()

	// InfoDownloader
	kinds := []string{"right", "garbage", "short", "long"}
	queues := []int{1, 2, 50}
	maxLen := 4
	if core.Thorough() {
		kinds = append(kinds, "empty", "full")
		queues = []int{1, 2, 3, 50}
		maxLen = 5
	}
	var sizes []uint32
	for n := uint32(1); n <= 3; n++ {
		for _, r := range []uint32{1, 5000, mdBlock} {
			sizes = append(sizes, (n-1)*mdBlock+r)
		}
	}
	var wg sync.WaitGroup
	var mu sync.Mutex
	total := &mdStats{}
	sem := make(chan struct{}, core.Parallelism())
	ci := int64(0)
	for _, S := range sizes {
		for _, q := range queues {
			ci++
			wg.Add(1)
			sem <- struct{}{}
			go func(S uint32, q int, ci int64) {
				defer wg.Done()
				defer func() { <-sem }()
				c := &mdCase{S: S, Q: q, G: make([]byte, S), X: make([]byte, 3*mdBlock+2)}
				for i := range c.G {
					c.G[i] = byte(1 + (i*7+i/mdBlock*13)%250)
				}
				for i := range c.X {
					c.X[i] = byte(255 - (i*5)%200)
				}
				lag := newAgg()
				st := &mdStats{}
				c.explore(maxLen, kinds, lag, st, ci<<40)
				mu.Lock()
				ag.merge(lag)
				total.seqs += st.seqs
				total.events += st.events
				total.accepted += st.accepted
				total.rejected += st.rejected
				total.dupAccepted += st.dupAccepted
				total.completed += st.completed
				mu.Unlock()
			}(S, q, ci)
		}
	}
	wg.Wait()
	ag.flush(rep)
	rep.Evaluations = mc.n + total.seqs
	rep.Distinct = int64(len(mc.texts)) + total.seqs
	rep.Extra["magnet_distinct_texts"] = int64(len(mc.texts))
	rep.Extra["infodl_sequences"] = total.seqs
	rep.Extra["infodl_events"] = total.events
	rep.Extra["infodl_blocks_accepted"] = total.accepted
	rep.Extra["infodl_blocks_rejected"] = total.rejected
	rep.Extra["infodl_duplicates_accepted"] = total.dupAccepted
	rep.Extra["infodl_runs_completed"] = total.completed
	rep.Extra["infodl_bounds"] = fmt.Sprintf("sizes=%v queues=%v kinds=%v len<=%d", sizes, queues, kinds, maxLen)
	rep.Sample(20, fmt.Sprintf("infodownloader: size %d queue %d sequence [GotBlock(1,right) GotBlock(0,garbage) GotBlock(2,short)]", sizes[8], queues[1]))
	if total.accepted == 0 || total.rejected == 0 || total.completed == 0 || mc.n == 0 {
		rep.Vacuous("vacuous: %+v", total)
	}
	rep.Finish()
}

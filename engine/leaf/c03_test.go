//go:build verif

package leaf

import (
	"bytes"
	"encoding/binary"
	"fmt"
	"math/big"
	"sort"
	"strings"
	"sync"
	"testing"
	"testing/synctest"
	"time"

	"github.com/cenkalti/rain/v2/internal/allocator"
	"github.com/cenkalti/rain/v2/internal/cachedpiece"
	"github.com/cenkalti/rain/v2/internal/logger"
	"github.com/cenkalti/rain/v2/internal/metainfo"
	"github.com/cenkalti/rain/v2/internal/peerconn/peerreader"
	"github.com/cenkalti/rain/v2/internal/peerconn/peerwriter"
	"github.com/cenkalti/rain/v2/internal/peerprotocol"
	"github.com/cenkalti/rain/v2/internal/piece"
	"github.com/cenkalti/rain/v2/internal/piececache"
	"github.com/cenkalti/rain/v2/torrent"
	"github.com/cenkalti/rain/v2/zzverif/core"
	"github.com/cenkalti/rain/v2/zzverif/refcodec"
	"github.com/rcrowley/go-metrics"
)

// fixture: one layout run through the real metainfo/allocator/piece code over in-memory storage, data written.
type fixture struct {
	l      layout
	ord    int64
	m      *model
	sto    *memStorage
	pieces []piece.Piece
}

func setupFixture(l layout, ord int64) *fixture {
	m := buildModel(l)
	if len(m.A) == 0 {
		return nil
	}
	info, err := metainfo.NewInfo(buildInfo(l, m), true, true)
	if err != nil {
		return nil // only layouts the client accepts are in scope
	}
	sto := &memStorage{files: map[string]*memFile{}}
	al := allocator.New()
	al.Run(info, sto, make(chan allocator.Progress, len(l.Files)+1), make(chan *allocator.Allocator, 1))
	if al.Error != nil {
		return nil // C02's business
	}
	pieces := piece.NewPieces(info, al.Files)
	total := int64(len(m.A))
	for pi := range pieces {
		ps := int64(pi) * int64(l.PL)
		pe := min(ps+int64(l.PL), total)
		if int64(pieces[pi].Length) != pe-ps {
			return nil // geometry defect: C02's business
		}
		if _, err := pieces[pi].Data.Write(m.A[ps:pe]); err != nil {
			return nil
		}
		pieces[pi].Done = true
	}
	return &fixture{l: l, ord: ord, m: m, sto: sto, pieces: pieces}
}

func (f *fixture) want(pi int, begin, length uint32) []byte {
	ps := int64(pi) * int64(f.l.PL)
	return f.m.A[ps+int64(begin) : ps+int64(begin)+int64(length)]
}

// writerBuf reproduces the serialisation step of peerwriter.messageWriter for one message: a
// bytes.Buffer over a fixed array sized for the largest piece message, 5 reserved bytes, then
// buf.ReadFrom(msg) (which calls peerwriter.Piece.Read exactly as the real writer loop does),
// then length prefix and id are patched in.
type writerBuf struct {
	a [4 + 1 + 8 + peerreader.MaxBlockSize]byte
}

type served struct {
	err    error
	panicV string
	stack  string
	frame  []byte
}

var c03PeerID = [20]byte{1, 2, 3, 4, 5, 6, 7, 8, 9, 10, 11, 12, 13, 14, 15, 16, 17, 18, 19, 20}

func (w *writerBuf) serve(pi *piece.Piece, cache *piececache.Cache, rs int64, begin, length uint32) (s served) {
	defer func() {
		if r := recover(); r != nil {
			s.panicV = fmt.Sprint(r)
			s.stack = stack()
		}
	}()
	var msg peerprotocol.Message = peerwriter.Piece{
		Data:           cachedpiece.New(pi, cache, rs, c03PeerID),
		RequestMessage: peerprotocol.RequestMessage{Index: pi.Index, Begin: begin, Length: length},
	}
	buf := bytes.NewBuffer(w.a[:0])
	buf.Write([]byte{0, 0, 0, 0, 0})
	m, err := buf.ReadFrom(msg)
	if err != nil {
		s.err = err
		return
	}
	binary.BigEndian.PutUint32(buf.Bytes()[:4], uint32(1+m))
	buf.Bytes()[4] = uint8(msg.ID())
	s.frame = buf.Bytes()
	return
}

// c03ctx is worker-local (no sharing between goroutines); merge() folds it into the run's totals.
type c03ctx struct {
	agg     *agg
	reads   int64
	crossed int64 // reads whose range crosses a cache-block boundary
	padded  int64 // reads whose range contains padding bytes
	st      histStats
}

func newC03ctx() *c03ctx { return &c03ctx{agg: newAgg()} }

func (c *c03ctx) merge(o *c03ctx) {
	c.reads += o.reads
	c.crossed += o.crossed
	c.padded += o.padded
	c.st.histories += o.st.histories
	c.st.warm += o.st.warm
	c.st.cold += o.st.cold
	c.st.evicted += o.st.evicted
	c.st.expired += o.st.expired
	c.agg.merge(o.agg)
}

type readCase struct {
	f       *fixture
	pi      int
	rs      int64
	capName string
	capV    int64
	begin   uint32
	length  uint32
	histFn  func() string // prior history, human readable (built only when a description is needed)
	rank    int64
}

func (rc readCase) hist() string {
	if rc.histFn == nil {
		return ""
	}
	return rc.histFn()
}

func (rc readCase) String() string {
	return fmt.Sprintf("layout %s piece %d (len %d) read-cache block size %d cache capacity %s(%d) request begin=%d length=%d%s",
		rc.f.l, rc.pi, rc.f.pieces[rc.pi].Length, rc.rs, rc.capName, rc.capV, rc.begin, rc.length, rc.hist())
}

// judge applies the C03 read oracle to one served request.
func (c *c03ctx) judge(rc readCase, s served) {
	c.reads++
	crossing := int64(rc.begin)/rc.rs != (int64(rc.begin)+int64(rc.length)-1)/rc.rs
	if crossing {
		c.crossed++
	}
	want := rc.f.want(rc.pi, rc.begin, rc.length)
	ps := int64(rc.pi) * int64(rc.f.l.PL)
	for k := int64(rc.begin); k < int64(rc.begin)+int64(rc.length); k++ {
		if rc.f.m.isPad[ps+k] {
			c.padded++
			break
		}
	}
	replay := func() any {
		return map[string]any{"layout": rc.f.l, "piece": rc.pi, "cache_block": rc.rs, "capacity": rc.capV, "begin": rc.begin, "length": rc.length, "history": rc.hist()}
	}
	if s.panicV != "" {
		c.agg.add("C03.read.panic."+topFunc(s.stack), rc.rank, func() (string, any) {
			return fmt.Sprintf("%s: panic %s at %s", rc, s.panicV, topFrames(s.stack)), replay()
		})
		return
	}
	if s.err != nil {
		c.agg.add("C03.read.error", rc.rank, func() (string, any) {
			return fmt.Sprintf("%s: valid request failed with error %v", rc, s.err), replay()
		})
		return
	}
	msgs, rest := refcodec.ParseStream(s.frame)
	if len(msgs) != 1 || len(rest) != 0 || msgs[0].ID != refcodec.MsgPiece || len(msgs[0].Body) < 8 {
		c.agg.add("C03.read.frame", rc.rank, func() (string, any) {
			return fmt.Sprintf("%s: serialised bytes %x are not one piece frame", rc, s.frame), replay()
		})
		return
	}
	mg := msgs[0]
	if mg.Index() != uint32(rc.pi) || mg.Begin() != rc.begin {
		c.agg.add("C03.read.header", rc.rank, func() (string, any) {
			return fmt.Sprintf("%s: piece frame header index=%d begin=%d", rc, mg.Index(), mg.Begin()), replay()
		})
		return
	}
	blk := mg.Block()
	switch {
	case len(blk) < int(rc.length):
		cls := "within-cache-block"
		if crossing {
			cls = "cross-cache-block"
		}
		c.agg.add("C03.read.short."+cls, rc.rank, func() (string, any) {
			return fmt.Sprintf("%s: piece message carries %d bytes instead of %d, no error (silent short read)", rc, len(blk), rc.length), replay()
		})
	case len(blk) > int(rc.length):
		c.agg.add("C03.read.long", rc.rank, func() (string, any) {
			return fmt.Sprintf("%s: piece message carries %d bytes instead of %d", rc, len(blk), rc.length), replay()
		})
	case !bytes.Equal(blk, want):
		c.agg.add("C03.read.content", rc.rank, func() (string, any) {
			return fmt.Sprintf("%s: served bytes %x, model %x", rc, blk, want), replay()
		})
	}
}

func capsFor(rs int64, all int64) []struct {
	n string
	v int64
} {
	return []struct {
		n string
		v int64
	}{{"none", 0}, {"one-block", rs}, {"all", all}}
}

// passA: every layout, every cache block size 1..pl+1, every capacity class, every (begin,length) of every
// piece, all through ONE cache per (layout, block size, capacity) so that later reads find the cache warm
// (capacity all), permanently evicting (one block) or never caching (none), with blocks of different pieces
// living side by side in the cache.
func (c *c03ctx) passA(f *fixture, w *writerBuf) {
	total := int64(len(f.m.A))
	for rs := int64(1); rs <= int64(f.l.PL)+1; rs++ {
		for ci, cp := range capsFor(rs, total+rs) {
			cache := piececache.New(cp.v, time.Hour, 1)
			for pi := range f.pieces {
				p := &f.pieces[pi]
				for b := uint32(0); b < p.Length; b++ {
					for ln := uint32(1); b+ln <= p.Length; ln++ {
						rc := readCase{f: f, pi: pi, rs: rs, capName: cp.n, capV: cp.v, begin: b, length: ln,
							rank: f.ord<<32 | rs<<24 | int64(ci)<<22 | int64(pi)<<16 | 1<<12 | int64(b)<<6 | int64(ln)}
						sv := w.serve(p, cache, rs, b, ln)
						c.judge(rc, sv)
						if sv.panicV != "" {
							// a panic inside the cache's loader leaves the cache unusable (its item stays locked):
							// go on with a fresh one, the poisoned one is abandoned
							cache = piececache.New(cp.v, time.Hour, 1)
						}
					}
				}
			}
			cache.Close()
		}
	}
}

type rng struct{ b, l uint32 }

// passB: histories of <=3 reads (every range x every range x every range) on one piece over a fresh cache,
// with virtual-time gaps between the reads (none / shorter than the TTL / longer than the TTL), inside a
// synctest bubble so that the cache's expiry timers are explorer-owned. One call = one (piece, block size).
func (c *c03ctx) passB(t *testing.T, f *fixture, pi int, rs int64, w *writerBuf, gaps []time.Duration, ttl time.Duration) {
	p := &f.pieces[pi]
	st := &c.st
	var ranges []rng
	for b := uint32(0); b < p.Length; b++ {
		for ln := uint32(1); b+ln <= p.Length; ln++ {
			ranges = append(ranges, rng{b, ln})
		}
	}
	synctest.Test(t, func(t *testing.T) {
		for ci, cp := range capsFor(rs, int64(p.Length)+rs) {
			var hist [3]int // indexes into ranges
			var hgap [3]int // index into gaps, before read k (k>=1)
			exec := func(n int) {
				cache := piececache.New(cp.v, ttl, 1)
				poisoned := false
				for k := 0; k < n; k++ {
					r := ranges[hist[k]]
					if k > 0 && gaps[hgap[k]] > 0 {
						lenBefore := cache.Len()
						time.Sleep(gaps[hgap[k]])
						synctest.Wait()
						if gaps[hgap[k]] > ttl && lenBefore > 0 && cache.Len() == 0 {
							st.expired++
						}
					}
					loads := f.sto.totalReads()
					lenB := cache.Len()
					s := w.serve(p, cache, rs, r.b, r.l)
					if f.sto.totalReads() > loads {
						st.cold++
						if lenB > 0 && cache.Len() == lenB && cp.n == "one-block" {
							st.evicted++
						}
					} else {
						st.warm++
					}
					rc := readCase{f: f, pi: pi, rs: rs, capName: cp.n, capV: cp.v, begin: r.b, length: r.l,
						rank: f.ord<<32 | rs<<24 | int64(ci)<<22 | int64(pi)<<16 | int64(k+1)<<12 | int64(r.b)<<6 | int64(r.l)}
					if k > 0 {
						rc.histFn = func() string {
							var hs strings.Builder
							hs.WriteString(" after history [")
							for j := 0; j < k; j++ {
								if j > 0 {
									hs.WriteString(" ")
								}
								fmt.Fprintf(&hs, "read(%d,%d) wait %s", ranges[hist[j]].b, ranges[hist[j]].l, gaps[hgap[j+1]])
							}
							hs.WriteString("]")
							return hs.String()
						}
					}
					c.judge(rc, s)
					if s.panicV != "" {
						poisoned = true
						break // the cache is unusable after a panic in its loader: this history ends here
					}
				}
				if !poisoned {
					cache.Close()
				}
				st.histories++
			}
			var run func(depth, n int)
			run = func(depth, n int) {
				if depth == n {
					exec(n)
					return
				}
				for ri := range ranges {
					hist[depth] = ri
					if depth == 0 {
						run(depth+1, n)
						continue
					}
					for gi := range gaps {
						hgap[depth] = gi
						run(depth+1, n)
					}
				}
			}
			for n := 2; n <= 3; n++ { // length-1 histories are pass A
				run(0, n)
			}
		}
	})
}

type histStats struct{ histories, warm, cold, evicted, expired int64 }

// shapeKey identifies what the read path can see of a piece: its length and its sections' lengths and
// padding flags (zero-length sections included only when full is set).
func shapeKey(p *piece.Piece, full bool) string {
	var sb strings.Builder
	fmt.Fprintf(&sb, "%d:", p.Length)
	for _, s := range p.Data {
		if s.Length == 0 && !full {
			continue
		}
		if s.Padding {
			fmt.Fprintf(&sb, "p%d,", s.Length)
		} else {
			fmt.Fprintf(&sb, "d%d,", s.Length)
		}
	}
	return sb.String()
}

func TestC03Read(t *testing.T) {
	logger.Disable()
	metrics.UseNilMetrics = true
	rep := core.NewReport("C03", "read", "exploration")
	rep.Rule = "(a) every unit-scale layout (<=3 files, thorough <=4; len 0..5, padding flags, piece length 1..5) x read-cache block size 1..pl+1 x capacity {0, one block, all} x every (begin,length) of every piece, " +
		"served by cachedpiece.ReadAt over the real piececache through peerwriter.Piece.Read with the writer loop's buffer discipline, decoded by the reference codec and compared with the flat model; " +
		"(b) for every distinct piece shape (length + section lengths/padding flags; from the <=3-file layouts; quick: zero-length sections ignored) every history of 2..3 reads (all ranges) with virtual-time gaps {0, <TTL, >TTL} over a fresh cache under testing/synctest; " +
		"(c) 16 KiB-scale boundary lattice; (d) validPieceRequest on the product of a 32-bit boundary lattice against a big-integer predicate; " +
		"(e) the real PeerReader on request frames of every lattice length (requests longer than 16 KiB must never be delivered). " +
		"distinct = accepted layouts + distinct piece shapes + distinct validPieceRequest triples."
	rep.Assumptions = []string{
		"byte values outside the generator pattern are not enumerated (the read path is value-independent)",
		"histories are enumerated per distinct piece shape (the read path sees a piece only through its Length, Index and sections)",
		"the writer loop's serialisation (bytes.Buffer over the fixed array + ReadFrom) is reproduced in the harness; queueing/cancel/choke logic of PeerWriter is the whole-session part's business",
	}
	c := newC03ctx()

	// ---- (d) validPieceRequest
	lat := []uint64{0, 1, 2, 16383, 16384, 16385, 1<<31 - 1, 1 << 31, 1<<31 + 1, 1<<32 - 2, 1<<32 - 1}
	var nValid, nTrue int64
	seen := map[[3]uint32]bool{}
	for _, pl := range lat {
		vals := map[uint64]bool{}
		for _, v := range lat {
			vals[v] = true
		}
		for _, d := range []int64{-1, 1} {
			if x := int64(pl) + d; x >= 0 && x < 1<<32 {
				vals[uint64(x)] = true
			}
		}
		var vs []uint64
		for v := range vals {
			vs = append(vs, v)
		}
		sort.Slice(vs, func(i, j int) bool { return vs[i] < vs[j] })
		for _, b := range vs {
			lens := map[uint64]bool{}
			for _, v := range vs {
				lens[v] = true
			}
			// lengths that make begin+length land on pl and on 2^32 (32-bit wrap-around), each +-1
			for _, target := range []int64{int64(pl), 1 << 32, 1<<32 + int64(pl)} {
				for _, d := range []int64{-1, 0, 1} {
					if x := target - int64(b) + d; x >= 0 && x < 1<<32 {
						lens[uint64(x)] = true
					}
				}
			}
			var ls []uint64
			for v := range lens {
				ls = append(ls, v)
			}
			sort.Slice(ls, func(i, j int) bool { return ls[i] < ls[j] })
			for _, ln := range ls {
				k := [3]uint32{uint32(b), uint32(ln), uint32(pl)}
				if seen[k] {
					continue
				}
				seen[k] = true
				sum := new(big.Int).Add(new(big.Int).SetUint64(b), new(big.Int).SetUint64(ln))
				want := ln != 0 && sum.Cmp(new(big.Int).SetUint64(pl)) <= 0
				got, pv := func() (g bool, pv string) {
					defer func() {
						if r := recover(); r != nil {
							pv = fmt.Sprint(r)
						}
					}()
					return torrent.VerifValidPieceRequest(uint32(b), uint32(ln), uint32(pl)), ""
				}()
				nValid++
				if want {
					nTrue++
				}
				rank := int64(len(seen))
				desc := fmt.Sprintf("validPieceRequest(begin=%d, length=%d, pieceLength=%d)", b, ln, pl)
				switch {
				case pv != "":
					c.agg.add("C03.validreq.panic", rank, func() (string, any) { return desc + " panicked: " + pv, k })
				case got && !want:
					c.agg.add("C03.validreq.accepts-invalid", rank, func() (string, any) {
						return desc + " = true but begin+length = " + sum.String() + " exceeds the piece or length is 0", k
					})
				case !got && want:
					c.agg.add("C03.validreq.rejects-valid", rank, func() (string, any) { return desc + " = false for an in-bounds request", k })
				}
			}
		}
	}
	rep.Extra["validreq_cases"] = nValid
	rep.Extra["validreq_cases_valid"] = nTrue
	if nTrue == 0 || nTrue == nValid {
		core.HarnessError("validPieceRequest lattice is one-sided")
	}

	// ---- (e) the max request length is enforced by the reader
	c.readerMaxLen(rep)

	// ---- (a) + (b)
	maxFiles, maxLen, maxPL := 3, int64(5), uint32(5)
	if core.Thorough() {
		maxFiles, maxLen, maxPL = 4, 5, 5
	}
	var layouts []layout
	enumLayouts(maxFiles, maxLen, maxPL, func(l layout) { layouts = append(layouts, l) })
	// simplest first: fewer files, fewer bytes, smaller piece length (the ordinal is the rank of a failing case)
	sort.SliceStable(layouts, func(i, j int) bool {
		a, b := layouts[i], layouts[j]
		if len(a.Files) != len(b.Files) {
			return len(a.Files) < len(b.Files)
		}
		var ta, tb int64
		for _, f := range a.Files {
			ta += f.Len
		}
		for _, f := range b.Files {
			tb += f.Len
		}
		if ta != tb {
			return ta < tb
		}
		return a.PL < b.PL
	})
	type shapeRef struct {
		l   layout
		ord int64
		pi  int
	}
	shapes := map[string]shapeRef{}
	var mergeMu sync.Mutex
	var accepted, readsA int64
	var wg sync.WaitGroup
	work := make(chan int, 1024)
	fullShapes := core.Thorough()
	for wk := 0; wk < core.Parallelism(); wk++ {
		wg.Add(1)
		go func() {
			defer wg.Done()
			w := &writerBuf{}
			lc := newC03ctx()
			var acc int64
			local := map[string]shapeRef{}
			for i := range work {
				f := setupFixture(layouts[i], int64(i))
				if f == nil {
					continue
				}
				acc++
				lc.passA(f, w)
				for pi := range f.pieces {
					if len(f.l.Files) > 3 {
						break // histories: piece shapes of the <=3-file layouts (4-file layouts, thorough only, are covered by the single-read pass)
					}
					k := shapeKey(&f.pieces[pi], fullShapes)
					if old, ok := local[k]; !ok || old.ord > f.ord {
						local[k] = shapeRef{f.l, f.ord, pi}
					}
				}
			}
			mergeMu.Lock()
			c.merge(lc)
			accepted += acc
			for k, v := range local {
				if old, ok := shapes[k]; !ok || old.ord > v.ord {
					shapes[k] = v
				}
			}
			mergeMu.Unlock()
		}()
	}
	for i := range layouts {
		if i%1500 == 0 {
			rep.Sample(6, "layout "+layouts[i].String())
		}
		work <- i
	}
	close(work)
	wg.Wait()
	readsA = c.reads

	var shapeKeys []string
	for k := range shapes {
		shapeKeys = append(shapeKeys, k)
	}
	sort.Strings(shapeKeys)
	ttl := time.Minute
	gaps := []time.Duration{0, ttl + time.Second}
	if core.Thorough() {
		gaps = []time.Duration{0, 40 * time.Second, ttl + time.Second}
	}
	type bjob struct {
		k  string
		rs int64
	}
	var bjobs []bjob
	for _, k := range shapeKeys {
		var plen int64
		fmt.Sscanf(k, "%d:", &plen)
		for rs := plen + 1; rs >= 1; rs-- {
			bjobs = append(bjobs, bjob{k, rs})
		}
	}
	// longest pieces first (better balance)
	sort.SliceStable(bjobs, func(i, j int) bool { return bjobs[i].k[0] > bjobs[j].k[0] })
	swork := make(chan bjob, len(bjobs))
	for _, j := range bjobs {
		swork <- j
	}
	close(swork)
	for wk := 0; wk < core.Parallelism(); wk++ {
		wg.Add(1)
		go func() {
			defer wg.Done()
			w := &writerBuf{}
			lc := newC03ctx()
			for j := range swork {
				sr := shapes[j.k]
				// private fixture: its storage read counter is used to observe cache loads
				f := setupFixture(sr.l, sr.ord)
				lc.passB(t, f, sr.pi, j.rs, w, gaps, ttl)
			}
			mergeMu.Lock()
			c.merge(lc)
			mergeMu.Unlock()
		}()
	}
	wg.Wait()
	for i, k := range shapeKeys {
		if i%(len(shapeKeys)/6+1) == 0 {
			rep.Sample(12, "piece shape "+k+" from layout "+shapes[k].l.String())
		}
	}

	// ---- (c) 16 KiB scale
	c.realScale(rep)

	c.agg.flush(rep)
	st := &c.st
	rep.Evaluations = c.reads + nValid
	rep.Distinct = accepted + int64(len(shapeKeys)) + nValid
	rep.Extra["layouts"] = int64(len(layouts))
	rep.Extra["layouts_accepted"] = accepted
	rep.Extra["reads_single_pass"] = readsA
	rep.Extra["reads_total"] = c.reads
	rep.Extra["reads_crossing_cache_block"] = c.crossed
	rep.Extra["reads_touching_padding"] = c.padded
	rep.Extra["piece_shapes"] = int64(len(shapeKeys))
	rep.Extra["histories"] = st.histories
	rep.Extra["history_reads_with_storage_load"] = st.cold
	rep.Extra["history_reads_served_from_cache"] = st.warm
	rep.Extra["history_reads_after_eviction"] = st.evicted
	rep.Extra["history_expiries_observed"] = st.expired
	rep.Extra["bounds"] = fmt.Sprintf("files<=%d len<=%d pl<=%d cache block 1..pl+1 capacity{0,block,all} histories<=3 gaps=%v ttl=%v zero-length-sections-in-shapes=%v", maxFiles, maxLen, maxPL, gaps, ttl, fullShapes)
	if accepted == 0 || c.crossed == 0 || c.padded == 0 || st.warm == 0 || st.cold == 0 || st.evicted == 0 || st.expired == 0 {
		rep.Vacuous("vacuous: accepted=%d crossed=%d padded=%d warm=%d cold=%d evicted=%d expired=%d", accepted, c.crossed, c.padded,
			st.warm, st.cold, st.evicted, st.expired)
	}
	rep.Finish()
}

// realScale: two 16 KiB-scale layouts, cache block sizes {32, 16 KiB, 24 KiB, 128 KiB}, every request
// (begin,length) from a boundary lattice, capacities {0, one block, all}; includes the full 16 KiB
// request that exactly fills the writer's fixed buffer.
func (c *c03ctx) realScale(rep *core.Report) {
	const K = 16384
	ls := []layout{
		{Files: []fileSpec{{3*K + 100, false}}, PL: 2 * K},
		{Files: []fileSpec{{20000, false}, {2*K - 20000, true}, {30000, false}}, PL: 2 * K},
		{Files: []fileSpec{{100, false}, {K + 7, false}, {K/2 + 1, false}}, PL: 2*K + K/2 + 1},
	}
	w := &writerBuf{}
	var n int64
	for li, l := range ls {
		f := setupFixture(l, int64(1<<20+li))
		if f == nil {
			core.HarnessError("real-scale layout %s not accepted", l)
		}
		for _, rs := range []int64{32, K, K + K/2, 8 * K} {
			for pi := range f.pieces {
				p := &f.pieces[pi]
				pts := map[int64]bool{}
				add := func(x int64) {
					for _, d := range []int64{-1, 0, 1} {
						if x+d >= 0 && x+d <= int64(p.Length) {
							pts[x+d] = true
						}
					}
				}
				add(0)
				add(int64(p.Length))
				add(25)
				add(32)
				for x := rs; x <= int64(p.Length) && rs >= K; x += rs {
					add(x)
				}
				for x := int64(K); x <= int64(p.Length); x += K {
					add(x)
				}
				var g int64
				for _, s := range p.Data {
					g += s.Length
					add(g)
				}
				var ps []int64
				for x := range pts {
					ps = append(ps, x)
				}
				sort.Slice(ps, func(i, j int) bool { return ps[i] < ps[j] })
				for ci, cp := range capsFor(rs, int64(len(f.m.A))+rs) {
					cache := piececache.New(cp.v, time.Hour, 1)
					for _, b := range ps {
						lens := map[int64]bool{1: true, 7: true, 20: true, K - 1: true, K: true}
						for _, e := range ps {
							if e > b && e-b <= K {
								lens[e-b] = true
							}
						}
						var lv []int64
						for x := range lens {
							lv = append(lv, x)
						}
						sort.Slice(lv, func(i, j int) bool { return lv[i] < lv[j] })
						for _, ln := range lv {
							if b+ln > int64(p.Length) {
								continue
							}
							rc := readCase{f: f, pi: pi, rs: rs, capName: cp.n, capV: cp.v, begin: uint32(b), length: uint32(ln),
								rank: f.ord<<32 | int64(ci)<<22 | int64(pi)<<16 | n}
							sv := w.serve(p, cache, rs, uint32(b), uint32(ln))
							c.judge(rc, sv)
							if sv.panicV != "" {
								cache = piececache.New(cp.v, time.Hour, 1)
							}
							n++
						}
					}
					cache.Close()
				}
			}
		}
	}
	rep.Extra["reads_real_scale"] = n
}

// readerMaxLen: the 16 KiB cap on request length is enforced by PeerReader (rm.Length > MaxBlockSize
// stops the reader) and nowhere else at component level: validPieceRequest only checks the piece bounds
// and peerwriter.Piece.Read would slice its fixed buffer out of range. So: the real reader, fed request
// frames of every lattice length followed by a marker message, must never deliver a request longer than
// 16 KiB (nor anything after it), and must deliver every other request unchanged.
func (c *c03ctx) readerMaxLen(rep *core.Report) {
	maxMsg := int(torrent.DefaultConfig.MaxMetadataSize)
	lens := []uint32{0, 1, 16383, 16384, 16385, 32768, 1<<31 - 1, 1 << 31, 1<<32 - 1}
	var n, nOver, nOK int64
	for _, ln := range lens {
		for _, begin := range []uint32{0, 16384, 1<<32 - 1} {
			stream := append(refcodec.Have(1).Encode(), refcodec.Request(3, begin, ln).Encode()...)
			stream = append(stream, refcodec.Have(9).Encode()...)
			for cutAt := 0; cutAt < len(stream); cutAt++ {
				var chunks [][]byte
				if cutAt == 0 {
					chunks = [][]byte{stream}
				} else {
					chunks = cut(stream, cutAt)
				}
				msgs, pv, st := runReader(maxMsg, chunks)
				n++
				desc := fmt.Sprintf("stream have(1) request(3,%d,%d) have(9) cut at %d", begin, ln, cutAt)
				rank := int64(ln)<<8 | int64(cutAt)
				if pv != "" {
					c.agg.add("C03.maxlen.panic."+topFunc(st), rank, func() (string, any) { return desc + ": reader panicked: " + pv + " at " + topFrames(st), desc })
					continue
				}
				var got []string
				for _, m := range msgs {
					got = append(got, fmt.Sprintf("%T%+v", m, m))
				}
				want := []string{fmt.Sprintf("%T%+v", peerprotocol.HaveMessage{Index: 1}, peerprotocol.HaveMessage{Index: 1})}
				if ln <= 16384 {
					rm := peerprotocol.RequestMessage{Index: 3, Begin: begin, Length: ln}
					hm := peerprotocol.HaveMessage{Index: 9}
					want = append(want, fmt.Sprintf("%T%+v", rm, rm), fmt.Sprintf("%T%+v", hm, hm))
					nOK++
				} else {
					nOver++
				}
				if strings.Join(got, ";") != strings.Join(want, ";") {
					key := "C03.maxlen.valid-request-not-delivered"
					if ln > 16384 {
						key = "C03.maxlen.long-request-delivered"
					}
					c.agg.add(key, rank, func() (string, any) {
						return fmt.Sprintf("%s: reader delivered %v, expected %v", desc, got, want), desc
					})
				}
			}
		}
	}
	rep.Extra["reader_request_streams"] = n
	rep.Extra["reader_request_streams_over_16k"] = nOver
	if nOver == 0 || nOK == 0 {
		core.HarnessError("reader max-length lattice one-sided")
	}
}

// runReader runs the real PeerReader over the chunks and collects everything it delivers until it stops.
func runReader(maxMsg int, chunks [][]byte) (msgs []any, panicV string, st string) {
	conn := &chunkConn{chunks: chunks}
	pr := peerreader.New(conn, quietLogger(), time.Second, maxMsg, nil)
	done := make(chan struct{})
	go func() {
		defer close(done)
		defer func() {
			if r := recover(); r != nil {
				panicV = fmt.Sprint(r)
				st = stack()
			}
		}()
		pr.Run()
	}()
	for {
		select {
		case m := <-pr.Messages():
			if pm, ok := m.(peerreader.Piece); ok {
				// copy out of the pooled buffer and release it as the torrent loop does
				cp := pm
				cp.Buffer.Data = append([]byte{}, pm.Buffer.Data...)
				pm.Buffer.Release()
				m = cp
			}
			msgs = append(msgs, m)
		case <-done:
			return
		}
	}
}

//go:build verif

package lab

import (
	"bytes"
	"encoding/json"
	"fmt"
	"testing"
	"time"

	"github.com/cenkalti/rain/v2/torrent"
	"github.com/cenkalti/rain/v2/zzverif/core"
	"github.com/cenkalti/rain/v2/zzverif/refcodec"
)

// C03 — upload integrity at session level: a seeding (or partially seeding) torrent is asked for blocks by a
// scripted leecher; every request-history of bounded depth over an alphabet of request shapes is executed.

type c03Arg struct {
	CacheBlock int64 `json:"cb"`   // ReadCacheBlockSize
	CacheSize  int64 `json:"cs"`   // ReadCacheSize
	Fast       bool  `json:"fast"` // leecher supports the fast extension
	Partial    bool  `json:"partial"` // the client holds only piece 0
	Depth      int   `json:"depth"`
	Layout     int   `json:"layout"`
	Lost       bool  `json:"lost"` // the first file was lost while the torrent was stopped (after it had seeded): restart, then requests
	Twin       bool  `json:"twin"` // a second seeding torrent (same layout, other content) shares the session's read cache
}

var c03Layouts = []Layout{
	LayoutSingle(49152, 2*49152+20000),      // pieces of 48 KiB (3 blocks), last short
	LayoutMulti(32768, 20000, -12768, 45000), // file | pad | file
}

func init() { Register("c03", mkC03) }

type c03Req struct {
	r        Req
	choked   bool // client was choking us when we sent it
	valid    bool
	held     bool
	canceled bool
	answered int
}

func mkC03() *Scenario {
	sc := &Scenario{Name: "c03", Horizon: 400}
	var arg c03Arg
	var p1, p2 *Peer
	var g2 *GenTorrent
	var sent []*c03Req
	var sent2 []Req
	ops := 0
	seenPieces := 0
	seenPieces2 := 0
	sc.Setup = func(w *World) {
		json.Unmarshal(w.Arg, &arg)
		g := Gen(c03Layouts[arg.Layout])
		w.Cfg.ReadCacheBlockSize = arg.CacheBlock
		w.Cfg.ReadCacheSize = arg.CacheSize
		w.OpenSession()
		w.AddTorrent(g, nil)
		// pre-populate storage: complete data, or only piece 0 correct
		id := w.Tor.ID()
		w.Store.Mutate(id, func(files map[string]*MemFile) {
			for fi, f := range g.L.Files {
				if f.Pad {
					continue
				}
				d := append([]byte{}, g.FileData[fi]...)
				if arg.Partial {
					for k := range d {
						if g.FileStart[fi]+k >= g.L.PieceLen {
							d[k] = 0
						}
					}
				}
				files[g.StoragePath(fi)] = &MemFile{Name: g.StoragePath(fi), Data: d}
			}
		})
		p1 = w.NewPeer("p1", "10.0.0.1", 5001)
		p1.Fast = arg.Fast
		w.Vars["std"] = &StdOpts{Behaviour: map[string]*PeerBehaviour{}}
		w.CmdStart()
		w.drain(300)
		s := w.Tor.VerifState()
		want := "Seeding"
		if arg.Partial {
			want = "Downloading"
		}
		if s.Status != want {
			core.HarnessError("c03 setup: status %s, want %s (bitfield %x)", s.Status, want, s.Bitfield)
		}
		if arg.Lost {
			// seeded once (the resume data says: everything), stopped, the first file disappears, started again
			w.CmdStop()
			w.drain(100)
			w.Advance(6 * time.Second)
			w.drain(100)
			w.Store.Mutate(id, func(files map[string]*MemFile) { delete(files, g.StoragePath(0)) })
			w.CmdStart()
			w.drain(300)
			s = w.Tor.VerifState()
			if s.Status != "Downloading" && s.Status != "Seeding" {
				core.HarnessError("c03 setup: status %s after losing a file and restarting", s.Status)
			}
			w.Count("lost_file_runs", 1)
		}
		if err := p1.ConnectIn(s.Port, g.InfoHash); err != nil {
			core.HarnessError("c03 setup: connect: %v", err)
		}
		w.drain(100)
		if !p1.GotHS {
			core.HarnessError("c03 setup: no handshake from client")
		}
		if arg.Twin {
			first, g1 := w.Tor, w.G
			l2 := c03Layouts[arg.Layout]
			l2.Name, l2.Salt = l2.Name+"-twin", 3
			g2 = Gen(l2)
			t2, err := w.S.AddTorrent(bytes.NewReader(g2.MetaInfo), &torrent.AddTorrentOptions{Stopped: true, ID: "twin"})
			if err != nil {
				core.HarnessError("c03 setup: add twin: %v", err)
			}
			w.Tors = append(w.Tors, t2)
			w.Quiesce()
			w.Store.Mutate("twin", func(files map[string]*MemFile) {
				for fi, f := range g2.L.Files {
					if !f.Pad {
						files[g2.StoragePath(fi)] = &MemFile{Name: g2.StoragePath(fi), Data: append([]byte{}, g2.FileData[fi]...)}
					}
				}
			})
			w.Launch("StartTwin", func() any { return t2.Start() })
			w.drain(300)
			if st := t2.VerifState().Status; st != "Seeding" {
				core.HarnessError("c03 setup: twin status %s", st)
			}
			p2 = w.NewPeer("p2", "10.0.0.2", 5002)
			p2.Fast = arg.Fast
			if err := p2.ConnectIn(t2.VerifState().Port, g2.InfoHash); err != nil {
				core.HarnessError("c03 setup: connect twin: %v", err)
			}
			w.drain(100)
			p2.Send(refcodec.Simple(refcodec.MsgInterested))
			p1.Send(refcodec.Simple(refcodec.MsgInterested))
			w.drain(100)
			w.Advance(10 * time.Second) // unchoke round
			w.drain(100)
			if p2.ClientChoke || p1.ClientChoke {
				core.HarnessError("c03 setup: peers still choked (p1 %v, p2 %v)", p1.ClientChoke, p2.ClientChoke)
			}
			w.Tor, w.G = first, g1
		}
	}
	send := func(w *World, r Req) {
		g := w.G
		n := uint32(g.NumPieces)
		s := w.Tor.VerifState()
		q := &c03Req{r: r, choked: p1.ClientChoke}
		if r.Index < n {
			plen := uint64(len(g.PieceBytes(int(r.Index))))
			q.valid = r.Length != 0 && r.Length <= 16384 && uint64(r.Begin)+uint64(r.Length) <= plen
			q.held = s.HasBitfield && s.Bitfield[r.Index/8]&(0x80>>(r.Index%8)) != 0
		}
		sent = append(sent, q)
		p1.Send(refcodec.Request(r.Index, r.Begin, r.Length))
	}
	alphabet := func(w *World) []Action {
		g := w.G
		pl := uint32(g.L.PieceLen)
		last := uint32(g.NumPieces - 1)
		lastLen := uint32(len(g.PieceBytes(int(last))))
		cb := uint32(arg.CacheBlock)
		var a []Action
		add := func(label string, do func(w *World)) {
			a = append(a, Action{Label: "op:" + label, Cost: -1, Do: func(w *World) { ops++; do(w) }})
		}
		if !p1.Connected() {
			return nil
		}
		add("interested", func(w *World) { p1.Send(refcodec.Simple(refcodec.MsgInterested)) })
		shapes := []struct {
			n string
			r Req
		}{
			{"aligned", Req{0, 0, 16384}},
			{"unaligned", Req{0, 100, 5000}},
			{"second-block", Req{0, 16384, 16384}},
			{"cross-cache-block", Req{0, cb - 100, 1000}},
			{"cross-16k", Req{0, 16000, 1000}},
			{"piece-tail", Req{0, pl - 7, 7}},
			{"last-piece-short-tail", Req{last, lastLen - min(lastLen, 300), min(lastLen, 300)}},
			{"last-piece-past-its-end", Req{last, lastLen - min(lastLen, 100), 1000}},        // inside the nominal piece length
			{"last-piece-begin-past-its-end", Req{last, lastLen + (pl-lastLen)/2, 16}}, // begin beyond the short piece
			{"piece1", Req{1, 0, 16384}},
			{"zero-length", Req{0, 0, 0}},
			{"too-long", Req{0, 0, 16385}},
			{"past-end", Req{0, pl - 16383, 16384}},
			{"index-n", Req{uint32(g.NumPieces), 0, 16384}},
			{"index-max", Req{0xffffffff, 0, 16384}},
			{"begin-overflow", Req{0, 0xffffff00, 16384}},
		}
		for _, sh := range shapes {
			sh := sh
			if sh.r.Begin >= pl && sh.n == "cross-cache-block" {
				continue
			}
			add("req:"+sh.n, func(w *World) { send(w, sh.r) })
		}
		add("cancel-last", func(w *World) {
			if n := len(sent); n > 0 {
				q := sent[n-1]
				if q.answered == 0 {
					q.canceled = true
				}
				p1.Send(refcodec.Cancel(q.r.Index, q.r.Begin, q.r.Length))
			}
		})
		add("unchoke-tick", func(w *World) { w.Advance(10 * time.Second) })
		if arg.Twin && p2.Connected() {
			// the same positions asked from the twin torrent: same piece index and cache block, other content
			for _, sh := range shapes[:7] {
				sh := sh
				if sh.r.Begin >= pl && sh.n == "cross-cache-block" {
					continue
				}
				add("twin:req:"+sh.n, func(w *World) {
					sent2 = append(sent2, sh.r)
					p2.Send(refcodec.Request(sh.r.Index, sh.r.Begin, sh.r.Length))
				})
			}
		}
		return a
	}
	sc.Actions = func(w *World) []Action {
		acts := StdActions(w)
		if len(acts) > 0 {
			return acts[:1] // uploads are driven by the request history; internal events follow the default policy
		}
		if ops < arg.Depth {
			return alphabet(w)
		}
		return nil
	}
	sc.Check = func(w *World) {
		// every piece frame must answer one of our requests exactly
		for ; seenPieces < len(p1.PieceMsgs); seenPieces++ {
			m := p1.PieceMsgs[seenPieces]
			w.Count("piece_frames", 1)
			idx, beg, data := m.Index(), m.Begin(), m.Block()
			var match *c03Req
			// prefer an unanswered request that the client was allowed to serve (sent while unchoked)
			for _, q := range sent {
				if q.r.Index == idx && q.r.Begin == beg && q.answered == 0 && !q.choked {
					match = q
					break
				}
			}
			if match == nil {
				for _, q := range sent {
					if q.r.Index == idx && q.r.Begin == beg && q.answered == 0 {
						match = q
						break
					}
				}
			}
			if match == nil {
				for _, q := range sent {
					if q.r.Index == idx && q.r.Begin == beg {
						match = q
					}
				}
				if match == nil {
					w.Failf("C03.unsolicited-piece", "client sent piece(%d,%d,len=%d) that was never requested", idx, beg, len(data))
					continue
				}
			}
			match.answered++
			cls := fmt.Sprintf("cb%d", arg.CacheBlock)
			if !match.valid {
				w.Failf("C03.data-for-invalid-request", "request %v is invalid (zero length, >16 KiB or out of bounds) but was answered with %d bytes", match.r, len(data))
				continue
			}
			if !match.held {
				w.Failf("C03.data-for-piece-not-held", "request %v is for a piece the client has not verified but was answered with data", match.r)
				continue
			}
			if uint32(len(data)) != match.r.Length {
				w.Failf("C03.wrong-length."+cls, "request %v answered with %d bytes instead of %d (read cache block %d)", match.r, len(data), match.r.Length, arg.CacheBlock)
				continue
			}
			off := int(idx)*w.G.L.PieceLen + int(beg)
			if !bytes.Equal(data, w.G.Data[off:off+len(data)]) {
				w.Failf("C03.wrong-bytes."+cls, "request %v answered with bytes that differ from piece content", match.r)
			}
			if match.choked && !arg.Fast {
				w.Failf("C03.served-while-choked", "request %v was sent while the client was choking us (no fast extension) and was answered with data", match.r)
			}
			if match.choked && arg.Fast {
				w.Count("served_while_choked_allowed_fast", 1)
				if !p1.AllowedFast[idx] {
					w.Failf("C03.served-while-choked-not-allowed-fast", "request %v was sent while the client was choking us and piece %d was never granted as allowed-fast (granted: %v), yet it was answered with data", match.r, idx, p1.AllowedFast)
				}
			}
			if match.answered > 1 {
				w.Failf("C03.answered-twice", "request %v answered %d times", match.r, match.answered)
			}
		}
	}
	check1 := sc.Check
	sc.Check = func(w *World) {
		check1(w)
		if p2 == nil {
			return
		}
		for ; seenPieces2 < len(p2.PieceMsgs); seenPieces2++ {
			m := p2.PieceMsgs[seenPieces2]
			w.Count("twin_piece_frames", 1)
			idx, beg, data := m.Index(), m.Begin(), m.Block()
			ok := false
			for _, r := range sent2 {
				if r.Index == idx && r.Begin == beg && int(r.Length) == len(data) {
					ok = true
				}
			}
			if !ok {
				w.Failf("C03.twin.wrong-length", "twin torrent: piece(%d,%d,len=%d) does not answer any request exactly", idx, beg, len(data))
				continue
			}
			off := int(idx)*g2.L.PieceLen + int(beg)
			if off+len(data) > len(g2.Data) || !bytes.Equal(data, g2.Data[off:off+len(data)]) {
				cross := off+len(data) <= len(w.G.Data) && bytes.Equal(data, w.G.Data[off:off+len(data)])
				w.Failf("C03.twin.wrong-bytes", "twin torrent: piece(%d,%d,len=%d) differs from the twin's content (equals the other torrent's bytes at that position: %v)", idx, beg, len(data), cross)
			}
		}
	}
	sc.Final = func(w *World) {
		// a valid request for a held piece sent while unchoked is answered (unless cancelled or the peer was dropped)
		if !p1.Connected() {
			return
		}
		for _, q := range sent {
			if q.valid && q.held && !q.choked && !q.canceled && q.answered == 0 {
				dup := false
				for _, o := range sent {
					if o != q && o.r == q.r && o.answered > 0 {
						dup = true
					}
				}
				if !dup {
					w.Failf("C03.unanswered", "valid request %v for a held piece, sent while unchoked, was never answered (peer still connected)", q.r)
				}
			}
		}
	}
	sc.Outcome = func(w *World) string {
		return fmt.Sprintf("connected=%v frames=%d", p1.Connected(), len(p1.PieceMsgs))
	}
	return sc
}

func TestC03Lab(t *testing.T) {
	ServeIfWorker(t)
	rep := core.NewReport("C03", "lab-upload", "model_checking")
	rep.Rule = "seeding / partially seeding torrent x read-cache block size {16K,24K,128K} x cache capacity {one block, ample} x leecher {fast, non-fast}: every history of <= depth operations over {interested, 16 request shapes (aligned, unaligned, crossing cache block / 16 KiB edge, tails, zero, too long, past end, past the end of the short last piece, index n / 2^32-1, overflowing begin), cancel, unchoke tick}; every piece frame decoded by the reference codec and compared with the ground truth; plus two seeding torrents of one layout and different content sharing the session read cache, every history of requests at the same positions of either torrent"
	rep.Assumptions = []string{"request field values from the shape lattice; full 32-bit product is covered by the component-level part", "one leecher"}
	depth := 2
	var runs []Run
	for li := range c03Layouts {
		for _, cb := range []int64{16384, 24576, 131072} {
			for _, cs := range []int64{cb, 256 << 20} {
				for _, fast := range []bool{false, true} {
					for _, partial := range []bool{false, true} {
						if li == 1 && (partial || cs == cb) && !core.Thorough() {
							continue
						}
						d := depth
						if core.Thorough() || (cb == 24576 && li == 0 && cs > cb) {
							d = 3
						}
						runs = append(runs, Run{Scenario: "c03", Arg: c03Arg{CacheBlock: cb, CacheSize: cs, Fast: fast, Partial: partial, Depth: d, Layout: li}, Budget: 0, MaxExec: 200000})
					}
				}
			}
		}
	}
	// the first file of a seeded multi-file torrent is lost while stopped: only verified pieces may be served afterwards
	for _, fast := range []bool{false, true} {
		runs = append(runs, Run{Scenario: "c03", Arg: c03Arg{CacheBlock: 16384, CacheSize: 256 << 20, Fast: fast, Depth: 2, Layout: 1, Lost: true}, Budget: 0, MaxExec: 200000})
	}
	// two torrents, one read cache: every history of 2 (thorough 3) requests over {torrent A, twin B} x 7 positions
	for _, cb := range []int64{16384, 131072} {
		d := 2
		if core.Thorough() {
			d = 3
		}
		runs = append(runs, Run{Scenario: "c03", Arg: c03Arg{CacheBlock: cb, CacheSize: 256 << 20, Depth: d, Layout: 0, Twin: true}, Budget: 0, MaxExec: 200000})
	}
	Explore("TestC03Lab", rep, runs)
	if n, _ := rep.Extra["piece_frames"].(int64); n == 0 {
		rep.Vacuous("vacuous: the client never served a block")
	}
	rep.Finish()
}

//go:build verif

package lab

import (
	"encoding/json"
	"fmt"
	"testing"

	"github.com/cenkalti/rain/v2/internal/tracker"
	"github.com/cenkalti/rain/v2/torrent"
	"github.com/cenkalti/rain/v2/zzverif/core"
)

// C20 (event-loop part) — no call deadlocks against a torrent's event loop. The loop serves some calls by
// talking synchronously to its own helper goroutines (announcers for Trackers(), ...), and those helpers
// talk back to the loop through unbuffered channels: a wait cycle between the loop and a helper wedges
// every later call on the torrent. The explorer owns the loop's select, the tracker answers and the peer,
// and issues API calls at every point of the schedule; a handler that has not returned when every
// goroutine is durably blocked is a lock-up (hang.<case>), and so is a call that never returns.

type c20Arg struct {
	Depth int  `json:"depth"` // number of API calls
	Seed  bool `json:"seed"`  // a seed is connected (download in progress) while the calls are made
}

func init() { Register("c20", mkC20) }

func mkC20() *Scenario {
	sc := &Scenario{Name: "c20", Horizon: 500}
	var arg c20Arg
	var p1 *Peer
	ops := 0
	sc.Setup = func(w *World) {
		json.Unmarshal(w.Arg, &arg)
		// handlers that answer a caller are held in front of the reply send: the caller may give up in between
		torrent.VerifYieldReplies = true
		w.OpenSession()
		g := Gen(LayoutMulti(32768, 40000, 50000))
		w.AddTorrent(g, nil)
		// two trackers in two tiers, both answered by the explorer (never automatically)
		t1, t2 := w.NewTracker("t1", false), w.NewTracker("t2", false)
		w.Tor.VerifSetTrackers([]tracker.Tracker{t1, t2})
		p1 = w.NewPeer("p1", "10.0.0.1", 5001)
		o := &StdOpts{Behaviour: map[string]*PeerBehaviour{"p1": {Honest: true}}}
		o.Script = []*ScriptItem{{Label: "start", Do: func(w *World) { w.CmdStart() }}}
		if arg.Seed {
			o.Script = append(o.Script, &ScriptItem{Label: "connect p1", When: func(w *World) bool { return w.Listening() }, Do: func(w *World) {
				p1.ConnectIn(w.Tor.VerifState().Port, g.InfoHash)
			}})
		}
		w.Vars["std"] = o
	}
	calls := []struct {
		name string
		fn   func(w *World) any
	}{
		{"Trackers", func(w *World) any { return len(w.Tor.Trackers()) }},
		{"Stats", func(w *World) any { return w.Tor.Stats().Status }},
		{"Peers", func(w *World) any { return len(w.Tor.Peers()) }},
		{"Webseeds", func(w *World) any { return len(w.Tor.Webseeds()) }},
		{"Announce", func(w *World) any { w.Tor.Announce(); return nil }},
		{"AddPeer", func(w *World) any { return w.Tor.AddPeer("10.0.0.77:6000") }},
		{"AddTracker", func(w *World) any { return w.Tor.AddTracker("http://10.7.7.7/announce") }},
		{"Stop", func(w *World) any { return w.Tor.Stop() }},
		{"Start", func(w *World) any { return w.Tor.Start() }},
		{"Remove", func(w *World) any { return w.S.RemoveTorrent(w.Tor.ID(), true) }},
	}
	sc.Actions = func(w *World) []Action {
		acts := StdActions(w)
		if ops >= arg.Depth || w.Step == 0 {
			return acts
		}
		// an API call can be made at any moment. It is a free choice whenever the loop itself has nothing to
		// take (answers of trackers, peers and storage may be outstanding), a deviation otherwise.
		loopBusy := false
		for ti := range w.Tors {
			if !w.exited(ti) && len(w.Ready(ti)) > 0 {
				loopBusy = true
			}
		}
		for _, c := range calls {
			c := c
			cost := -1
			if loopBusy {
				cost = 1
			}
			acts = append(acts, Action{Label: "call:" + c.name, Cost: cost, Do: func(w *World) {
				ops++
				w.Count("calls", 1)
				w.Launch(c.name, func() any { return c.fn(w) })
			}})
		}
		return acts
	}
	sc.Final = func(w *World) {
		if w.Dead != "" {
			return
		}
		w.DrainDefault(300)
		if w.Dead != "" {
			return
		}
		for _, c := range w.Cmds {
			if !c.IsDone(w) {
				w.Failf("C20.call-not-returned."+c.Name, "the call %s issued at step %d has not returned although nothing is left to happen", c.Name, c.At)
			}
		}
		w.Count("calls_returned", int64(len(w.Cmds)))
	}
	sc.Outcome = func(w *World) string {
		return fmt.Sprintf("%s/calls=%d", w.Tor.VerifState().Status, len(w.Cmds))
	}
	return sc
}

func TestC20Lab(t *testing.T) {
	ServeIfWorker(t)
	rep := core.NewReport("C20", "lab-loop-lockup", "model_checking")
	depth := 2
	if core.Thorough() {
		depth = 3
	}
	rep.Rule = fmt.Sprintf("started torrent with two explorer-answered trackers (with and without a connected seed) on the real event loop: every placement of <= %d API calls (quick tier: 1 while a download is in progress) {Trackers, Stats, Peers, Webseeds, Announce, AddPeer, AddTracker, Stop, Start, RemoveTorrent} into the schedule (free wherever the loop has nothing to take, one deviation elsewhere) combined with every single reordering of tracker answers, peer answers and loop deliveries; handlers that answer a caller are split in front of the reply send, so another call (RemoveTorrent closing the torrent) can fall between request and reply; a handler that has not returned when every goroutine is durably blocked, or a call that never returns, is a lock-up", depth)
	rep.Assumptions = []string{"handlers are atomic towards each other (loop ownership); locks of the Session are the threadlab part", "helper goroutines run to their next blocking point between explorer steps"}
	var runs []Run
	for _, seed := range []bool{false, true} {
		d := depth
		if seed && !core.Thorough() {
			d = 1 // quick: with a download in progress one call at every point of the (long) schedule
		}
		runs = append(runs, Run{Scenario: "c20", Arg: c20Arg{Depth: d, Seed: seed}, Budget: 1, MaxExec: 600000})
	}
	Explore("TestC20Lab", rep, runs)
	if n, _ := rep.Extra["calls_returned"].(int64); n == 0 {
		rep.Vacuous("vacuous: no API call was ever made")
	}
	rep.Finish()
}

//go:build verif

package lab

import (
	"bytes"
	"fmt"
	"os"
	"path/filepath"
	"testing"

	"github.com/cenkalti/rain/v2/internal/allocator"
	"github.com/cenkalti/rain/v2/internal/metainfo"
	"github.com/cenkalti/rain/v2/internal/storage"
	"github.com/cenkalti/rain/v2/internal/storage/filestorage"
	"github.com/cenkalti/rain/v2/zzverif/core"
)

// C04 (storage binding) — the lab's in-memory Store stands in for internal/storage/filestorage in every lab
// scenario, and the file mutations of C04 (delete, truncate) act on it. This part binds the stand-in to the
// real thing: for every prior state of a file (absent, every length around the expected one) the real
// filestorage.Open on a scratch directory and TorStore.Open must agree on (exists, grown, resulting length,
// resulting content); and the real allocator over the real filestorage must report a torrent whose files
// lost a part of their content (deleted or cut short) as having missing data, for every combination of
// per-file mutations - the condition under which the torrent layer stops trusting its resume bitfield.

type grower interface{ Grown() bool }

func isGrown(f storage.File) bool {
	g, ok := f.(grower)
	return ok && g.Grown()
}

func c04pat(n int, salt byte) []byte {
	b := make([]byte, n)
	for i := range b {
		b[i] = byte(i*7) + salt | 1
	}
	return b
}

func TestC04StoreConformance(t *testing.T) {
	rep := core.NewReport("C04", "store-conformance", "model_checking")
	rep.Rule = "conformance of the lab's storage stand-in with the real filestorage: every prior file state {absent, length 0, 1, n/2, n-1, n, n+1, 2n} x expected length n in {1, 2, 5, 16, 4097} x {flat, nested} name: Open on both, compared on (exists, grown, error, length and content read back through the handle, length on disk); and the real allocator over the real filestorage for every vector of per-file states {intact, deleted, cut to half, cut to 0, lengthened} of 1-3 file torrents (one layout with a padding file): HasMissing must be reported iff some file lost content, HasExisting iff some file was there"
	rep.Assumptions = []string{"Linux file semantics; content lost by cutting is detectable only through the length"}
	root, err := os.MkdirTemp(os.Getenv("VERIF_TMP"), "c04store")
	if err != nil {
		core.HarnessError("%v", err)
	}
	defer os.RemoveAll(root)
	n := 0
	// ---- part 1: Open, real vs stand-in
	for _, size := range []int{1, 2, 5, 16, 4097} {
		for _, pre := range []int{-1, 0, 1, size / 2, size - 1, size, size + 1, 2 * size} {
			for _, name := range []string{"f", "d/e/f"} {
				n++
				dir := filepath.Join(root, fmt.Sprint("o", n))
				fs, err := filestorage.New(dir, 0o750)
				if err != nil {
					core.HarnessError("%v", err)
				}
				st := NewStore()
				ts0, _ := st.GetStorage("x")
				ts := ts0.(*TorStore)
				if pre >= 0 {
					os.MkdirAll(filepath.Dir(filepath.Join(dir, name)), 0o750)
					if err := os.WriteFile(filepath.Join(dir, name), c04pat(pre, 3), 0o640); err != nil {
						core.HarnessError("%v", err)
					}
					ts.Files[name] = &MemFile{Name: name, Data: c04pat(pre, 3)}
				}
				rf, rex, rerr := fs.Open(name, int64(size))
				mf, mex, merr := ts.Open(name, int64(size))
				rep.Eval(1)
				desc := fmt.Sprintf("prior length %d, expected %d, name %q", pre, size, name)
				if (rerr != nil) != (merr != nil) {
					rep.Violate("C04.store.conformance.error", fmt.Sprintf("%s: real error %v, stand-in error %v", desc, rerr, merr), desc)
					continue
				}
				if rerr != nil {
					continue
				}
				rb, mb := make([]byte, size+1), make([]byte, size+1)
				rn, _ := rf.ReadAt(rb, 0)
				mn, _ := mf.ReadAt(mb, 0)
				fi, _ := os.Stat(filepath.Join(dir, name))
				real := fmt.Sprintf("exists=%v grown=%v len=%d disk=%d", rex, isGrown(rf), rn, fi.Size())
				model := fmt.Sprintf("exists=%v grown=%v len=%d disk=%d", mex, isGrown(mf), mn, len(ts.Files[name].Data))
				if real != model || !bytes.Equal(rb[:rn], mb[:mn]) {
					rep.Violate("C04.store.conformance", fmt.Sprintf("%s: real filestorage %s, stand-in %s (content equal: %v)", desc, real, model, bytes.Equal(rb[:rn], mb[:mn])), desc)
				}
				rep.CountDistinct(real)
				rf.Close()
				mf.Close()
			}
		}
	}
	// ---- part 2: the real allocator over the real filestorage
	type layout struct {
		lens []int64
		pad  []bool
	}
	layouts := []layout{
		{[]int64{10}, []bool{false}},
		{[]int64{10, 7}, []bool{false, false}},
		{[]int64{10, 6, 7}, []bool{false, true, false}},
		{[]int64{4, 10, 7}, []bool{false, false, false}},
	}
	muts := []string{"intact", "deleted", "half", "zero", "longer"}
	for li, l := range layouts {
		var real []int
		for i := range l.lens {
			if !l.pad[i] {
				real = append(real, i)
			}
		}
		vec := make([]int, len(real))
		for {
			n++
			dir := filepath.Join(root, fmt.Sprint("a", n))
			info := &metainfo.Info{Name: "t"}
			lost, present := false, false
			desc := fmt.Sprintf("layout %d:", li)
			for i, ln := range l.lens {
				f := metainfo.File{Length: ln, Path: fmt.Sprintf("t/f%d", i), Padding: l.pad[i]}
				info.Files = append(info.Files, f)
			}
			for k, i := range real {
				m := muts[vec[k]]
				desc += fmt.Sprintf(" f%d=%s", i, m)
				ln := int(l.lens[i])
				var data []byte
				switch m {
				case "intact":
					data = c04pat(ln, 9)
				case "deleted":
					lost = true
				case "half":
					data, lost = c04pat(ln/2, 9), true
				case "zero":
					data, lost = []byte{}, true
				case "longer":
					data = c04pat(ln+3, 9)
				}
				if data != nil {
					present = true
					p := filepath.Join(dir, info.Files[i].Path)
					os.MkdirAll(filepath.Dir(p), 0o750)
					if err := os.WriteFile(p, data, 0o640); err != nil {
						core.HarnessError("%v", err)
					}
				}
			}
			fs, err := filestorage.New(dir, 0o750)
			if err != nil {
				core.HarnessError("%v", err)
			}
			al := allocator.New()
			resC := make(chan *allocator.Allocator, 1)
			progC := make(chan allocator.Progress, 16)
			go al.Run(info, fs, progC, resC)
			res := <-resC
			rep.Eval(1)
			if res.Error != nil {
				rep.Violate("C04.alloc.error", fmt.Sprintf("%s: allocation failed: %v", desc, res.Error), desc)
			} else {
				if res.HasMissing != lost {
					key := "C04.alloc.missing-not-reported"
					if !lost {
						key = "C04.alloc.missing-reported-for-intact-files"
					}
					rep.Violate(key, fmt.Sprintf("%s: content lost=%v but the allocator reports HasMissing=%v HasExisting=%v (with HasMissing=false the torrent trusts its resume bitfield)", desc, lost, res.HasMissing, res.HasExisting), desc)
				}
				if res.HasExisting != present {
					rep.Violate("C04.alloc.existing", fmt.Sprintf("%s: files present=%v but HasExisting=%v", desc, present, res.HasExisting), desc)
				}
				for _, f := range res.Files {
					if f.Storage != nil {
						f.Storage.Close()
					}
				}
			}
			rep.CountDistinct(fmt.Sprintf("alloc missing=%v existing=%v", res.HasMissing, res.HasExisting))
			// next vector
			k := 0
			for ; k < len(vec); k++ {
				vec[k]++
				if vec[k] < len(muts) {
					break
				}
				vec[k] = 0
			}
			if k == len(vec) {
				break
			}
		}
	}
	rep.Finish()
}

//go:build verif

package lab

import (
	"encoding/json"
	"fmt"
	"net/url"
	"sort"
	"strings"
	"testing"
	"time"

	"github.com/cenkalti/rain/v2/zzverif/core"
)

// C12 (torrent layer) — the encryption policy reaches the handshakers as configured: for every combination of
// ForceIncomingEncryption / ForceOutgoingEncryption a peer that connects with a bare BitTorrent handshake is
// answered exactly when incoming encryption is not forced (the MSE machine itself is the component-level part).

type c12polArg struct {
	In  bool `json:"in"`
	Out bool `json:"out"`
}

func init() { Register("c12pol", mkC12pol) }

func mkC12pol() *Scenario {
	sc := &Scenario{Name: "c12pol", Horizon: 100}
	var arg c12polArg
	var p1 *Peer
	sc.Setup = func(w *World) {
		json.Unmarshal(w.Arg, &arg)
		w.Cfg.ForceIncomingEncryption = arg.In
		w.Cfg.ForceOutgoingEncryption = arg.Out
		w.Cfg.DisableOutgoingEncryption = false
		w.OpenSession()
		g := Gen(LayoutSingle(16384, 3*16384))
		w.AddTorrent(g, nil)
		p1 = w.NewPeer("p1", "10.0.0.1", 5001)
		w.Vars["std"] = &StdOpts{Behaviour: map[string]*PeerBehaviour{}, Script: []*ScriptItem{
			{Label: "start", Do: func(w *World) { w.CmdStart() }},
			{Label: "plain handshake from p1", When: func(w *World) bool { return w.Listening() }, Do: func(w *World) { p1.ConnectIn(w.Tor.VerifState().Port, g.InfoHash) }},
			{Label: "advance 11s", Do: func(w *World) { w.Advance(11 * time.Second) }},
		}}
	}
	sc.Actions = StdActions
	sc.Final = func(w *World) {
		if !p1.SentHS {
			core.HarnessError("c12pol: the peer never connected")
		}
		w.Count("policy_cells_checked", 1)
		if arg.In && p1.GotHS {
			w.Failf("C12.policy.torrent.force-incoming-answered", "ForceIncomingEncryption=%v ForceOutgoingEncryption=%v: a bare BitTorrent handshake on an incoming connection was answered in clear", arg.In, arg.Out)
		}
		if !arg.In && !p1.GotHS {
			w.Failf("C12.policy.torrent.plain-refused", "ForceIncomingEncryption=%v ForceOutgoingEncryption=%v: a bare BitTorrent handshake on an incoming connection was refused although incoming encryption is not forced", arg.In, arg.Out)
		}
	}
	sc.Outcome = func(w *World) string { return fmt.Sprintf("answered=%v", p1.GotHS) }
	return sc
}

func TestC12Lab(t *testing.T) {
	ServeIfWorker(t)
	rep := core.NewReport("C12", "lab-policy", "model_checking")
	rep.Rule = "ForceIncomingEncryption x ForceOutgoingEncryption (4 cells): a started torrent on the real event loop receives a bare BitTorrent handshake on an incoming connection; it is answered exactly when incoming encryption is not forced; eager schedule and every single reordering"
	rep.Assumptions = []string{"the handshake machine itself (pads, chunkings, offers) is the component-level part"}
	var runs []Run
	for _, in := range []bool{false, true} {
		for _, out := range []bool{false, true} {
			runs = append(runs, Run{Scenario: "c12pol", Arg: c12polArg{In: in, Out: out}, Budget: 1})
		}
	}
	Explore("TestC12Lab", rep, runs)
	if n, _ := rep.Extra["policy_cells_checked"].(int64); n == 0 {
		rep.Vacuous("vacuous: no policy cell was checked")
	}
	rep.Finish()
}

// C13 (export after tracker rotation) — the magnet link a torrent exports parses back to the same tracker
// tiers, also after a tier has moved on to its next tracker because the first one failed.

func init() { Register("c13tiers", mkC13tiers) }

func mkC13tiers() *Scenario {
	sc := &Scenario{Name: "c13tiers", Horizon: 200}
	tiers := [][]string{{"http://10.8.8.8/announce", "http://10.8.8.9/announce", "http://10.8.8.10/announce"}, {"http://10.8.8.11/announce"}}
	sc.Setup = func(w *World) {
		l := LayoutSingle(16384, 2*16384)
		l.Trackers = tiers
		g := Gen(l)
		w.OpenSession()
		t1 := w.NewHTTPTracker("10.8.8.8")
		t1.Fail = "go away"
		w.NewHTTPTracker("10.8.8.9")
		w.NewHTTPTracker("10.8.8.10")
		w.NewHTTPTracker("10.8.8.11")
		w.AddTorrent(g, nil)
		w.Vars["std"] = &StdOpts{Behaviour: map[string]*PeerBehaviour{}, Script: []*ScriptItem{
			{Label: "start", Do: func(w *World) { w.CmdStart() }},
			{Label: "advance 2s", Do: func(w *World) { w.Advance(2 * time.Second) }},
			{Label: "advance 1m", Do: func(w *World) { w.Advance(time.Minute) }},
		}}
	}
	sc.Actions = StdActions
	sc.Check = func(w *World) {
		m, err := w.Tor.Magnet()
		if err != nil {
			return
		}
		u, err := url.Parse(m)
		if err != nil {
			w.Failf("C13.magnet.export-unparsable", "exported magnet %q: %v", m, err)
			return
		}
		var got []string
		for k, vs := range u.Query() { // tr=<url> for a single-tracker tier, tr.<n>=<url> for the members of tier n
			if k == "tr" || strings.HasPrefix(k, "tr.") {
				got = append(got, vs...)
			}
		}
		var want []string
		for _, t := range tiers {
			want = append(want, t...)
		}
		sort.Strings(got)
		sort.Strings(want)
		w.Count("magnet_exports_checked", 1)
		if strings.Join(got, " ") != strings.Join(want, " ") {
			w.Failf("C13.magnet.export-trackers", "the exported magnet link lists trackers %v, the torrent has %v (tiers %v)", got, want, tiers)
		}
	}
	sc.Outcome = func(w *World) string { return w.Tor.VerifState().Status }
	return sc
}

func TestC13Tiers(t *testing.T) {
	ServeIfWorker(t)
	rep := core.NewReport("C13", "lab-magnet-export", "model_checking")
	rep.Rule = "torrent with the tiers {t1 (refuses), t2, t3} and {t4} started on the real event loop with scripted HTTP trackers; after every step the exported magnet link is parsed and its tracker set compared with the torrent's; eager schedule and every single reordering"
	rep.Assumptions = []string{"the order of tr= parameters inside a tier is not compared (BEP 12 shuffles tiers)"}
	Explore("TestC13Tiers", rep, []Run{{Scenario: "c13tiers", Arg: struct{}{}, Budget: 1}})
	if n, _ := rep.Extra["magnet_exports_checked"].(int64); n == 0 {
		rep.Vacuous("vacuous: no magnet link was exported")
	}
	rep.Finish()
}

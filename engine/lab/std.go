//go:build verif

package lab

import (
	"bytes"
	"strings"
	"sync"
	"encoding/json"
	"errors"
	"fmt"
	"os"
	"sort"
	"strconv"
	"testing"
	"time"

	"github.com/cenkalti/rain/v2/internal/storage/filestorage"
	"github.com/cenkalti/rain/v2/internal/tracker"
	"github.com/cenkalti/rain/v2/torrent"
	"github.com/cenkalti/rain/v2/zzverif/core"
	"github.com/cenkalti/rain/v2/zzverif/refcodec"
	"github.com/cenkalti/rain/v2/zzverif/vpool"
)

// ScriptItem is a stimulus the default policy issues when nothing else is pending and When holds.
type ScriptItem struct {
	Label string
	When  func(w *World) bool
	Do    func(w *World)
	Used  bool
}

// PeerBehaviour configures a scripted peer inside StdActions.
type PeerBehaviour struct {
	Honest     bool   // announces (bitfield+unchoke) and serves requests with ground truth
	Have       []byte // bitfield to announce (nil => all pieces)
	NoUnchoke  bool
	ExtraMsgs  []refcodec.Msg // sent together with the announce
}

// StdOpts selects which generic actions StdActions offers.
type StdOpts struct {
	Script    []*ScriptItem
	Behaviour map[string]*PeerBehaviour
	// Extra returns scenario-specific deviations (never the default).
	Extra func(w *World) []Action
	// EarlyScript: offer the next script item as a deviation while other actions are pending.
	EarlyScript bool
	// NoReorder: do not offer younger loop deliveries as alternatives (only the oldest).
	NoReorder bool
	// IdleAdvance: when nothing is enabled and the script is exhausted/blocked, advance the clock by this (0 = stop).
	IdleAdvance time.Duration
	MaxIdle     int
	// HoldStorage: parked storage operations are not released by the default policy.
	HoldStorage bool
}

func (w *World) stdOpts() *StdOpts { return w.Vars["std"].(*StdOpts) }

// ExploreKeep, if set, selects the violation keys a check reports: a scenario shared between properties raises
// keys of several properties, each check reports its own.
var ExploreKeep func(key string) bool

// StdActions is the default policy: loop deliveries oldest-first, then honest peer answers, then parked
// tracker announces, then parked storage operations, then the next script item. Everything after the
// first entry is an alternative (deviation).
func StdActions(w *World) []Action {
	o := w.stdOpts()
	var acts []Action
	for ti := range w.Tors {
		if name, held := w.MidHandler(ti); held {
			ti := ti
			acts = append(acts, Action{Label: "continue:" + name, Do: func(w *World) { w.Continue(ti) }})
		}
	}
	for ti := range w.Tors {
		if w.exited(ti) {
			continue
		}
		ready := w.Ready(ti)
		for k, idx := range ready {
			if o.NoReorder && k > 0 {
				break
			}
			ti, idx := ti, idx
			acts = append(acts, Action{Label: fmt.Sprintf("deliver:%s", w.Names[idx]), Do: func(w *World) { w.Deliver(ti, idx) }})
		}
	}
	// honest peers: every pending announce (bitfield + unchoke) comes before any block is served, so that
	// all connected sources are in play before the first answer
	for pass := 0; pass < 2; pass++ {
		for _, p := range w.Peers {
			b := o.Behaviour[p.Name]
			if b == nil || !b.Honest || !p.Connected() {
				continue
			}
			p := p
			if pass == 0 && p.GotHS && !p.Announced {
				acts = append(acts, Action{Label: "peer:" + p.Name + ":announce", Do: func(w *World) {
					bf := b.Have
					if bf == nil {
						bf = w.G.AllBitfield()
					}
					var buf bytes.Buffer
					buf.Write(refcodec.Bitfield(bf).Encode())
					for _, m := range b.ExtraMsgs {
						buf.Write(m.Encode())
					}
					if !b.NoUnchoke {
						buf.Write(refcodec.Simple(refcodec.MsgUnchoke).Encode())
					}
					p.SendRaw(buf.Bytes())
					p.Announced = true
				}})
			}
			if pass == 1 && p.Announced && len(p.Requests) > 0 {
				acts = append(acts, Action{Label: "peer:" + p.Name + ":serve", Do: func(w *World) {
					if r, ok := p.PopRequest(); ok {
						p.Serve(w.G, r, false)
						w.Count("blocks_served", 1)
					}
				}})
			}
		}
	}
	for _, t := range w.Trackers {
		if t.Waiting() > 0 {
			t := t
			acts = append(acts, Action{Label: "tracker:" + t.Name + ":ok", Do: func(w *World) {
				t.mu.Lock()
				req := t.waiting[0].req
				t.mu.Unlock()
				r, err := t.Default(req)
				t.Answer(r, err)
			}})
		}
	}
	if vpool.Parked() > 0 {
		acts = append(acts, Action{Label: "pool:hand-out-released-buffer", Do: func(w *World) { vpool.ReleaseOne() }})
	}
	for k, op := range w.Store.PendingOps() {
		if o.HoldStorage {
			break
		}
		k := k
		acts = append(acts, Action{Label: "storage:release:" + op, Do: func(w *World) { w.Store.Release(k, nil) }})
	}
	// script
	var next *ScriptItem
	for _, it := range o.Script {
		if !it.Used {
			next = it
			break
		}
	}
	if next != nil && (next.When == nil || next.When(w)) && (len(acts) == 0 || o.EarlyScript) {
		it := next
		acts = append(acts, Action{Label: "script:" + it.Label, Do: func(w *World) { it.Used = true; it.Do(w) }})
	}
	if o.Extra != nil && len(acts) > 0 {
		acts = append(acts, o.Extra(w)...)
	}
	if len(acts) == 0 && o.IdleAdvance > 0 {
		n, _ := w.Vars["idle"].(int)
		if n < o.MaxIdle {
			acts = append(acts, Action{Label: fmt.Sprintf("advance:%s", o.IdleAdvance), Do: func(w *World) {
				w.Vars["idle"] = n + 1
				w.Advance(o.IdleAdvance)
			}})
		}
	}
	return acts
}

// ---- helpers used by scenarios

func StatusIs(s string) func(w *World) bool {
	return func(w *World) bool { return w.Tor.VerifState().Status == s }
}

func (w *World) Listening() bool { return w.Tor != nil && w.Tor.VerifState().HasAcceptor }

// CmdStart etc. launch the public API calls.
func (w *World) CmdStart() *Cmd { return w.Launch("Start", func() any { return w.Tor.Start() }) }
func (w *World) CmdStop() *Cmd  { return w.Launch("Stop", func() any { return w.Tor.Stop() }) }
func (w *World) CmdVerify() *Cmd { return w.Launch("Verify", func() any { return w.Tor.Verify() }) }
func (w *World) CmdStats() *Cmd  { return w.Launch("Stats", func() any { return w.Tor.Stats() }) }

// FilesEqualTruth compares every non-padding file in storage with the ground truth.
func (w *World) FilesEqualTruth() (bool, string) {
	id := w.Tor.ID()
	for fi, f := range w.G.L.Files {
		if f.Pad {
			continue
		}
		got := w.Store.FileData(id, w.G.StoragePath(fi))
		if !bytes.Equal(got, w.G.FileData[fi]) {
			return false, fmt.Sprintf("file %s differs from ground truth (have %d bytes, want %d)", w.G.StoragePath(fi), len(got), len(w.G.FileData[fi]))
		}
	}
	return true, ""
}

// PieceOnDisk reports whether piece i's full content in storage equals the ground truth.
func (w *World) PieceOnDisk(i int) bool {
	id := w.Tor.ID()
	start := i * w.G.L.PieceLen
	end := min(start+w.G.L.PieceLen, len(w.G.Data))
	for fi, f := range w.G.L.Files {
		fs, fe := w.G.FileStart[fi], w.G.FileStart[fi]+f.Len
		a, b := max(start, fs), min(end, fe)
		if a >= b || f.Pad {
			continue
		}
		got := w.Store.FileData(id, w.G.StoragePath(fi))
		if len(got) < b-fs || !bytes.Equal(got[a-fs:b-fs], w.G.Data[a:b]) {
			return false
		}
	}
	return true
}

var errInjected = errors.New("lab: injected I/O error")

// ---------------------------------------------------------------------------------------------
// registry + runner

var Scenarios = map[string]func() *Scenario{}

func Register(name string, mk func() *Scenario) { Scenarios[name] = mk }

// ServeIfWorker turns this process into a pool worker when started as one.
func ServeIfWorker(t *testing.T) {
	if !core.IsPoolWorker() {
		return
	}
	core.ServeWorker(func(raw json.RawMessage) any {
		var job core.ExecJob
		if err := json.Unmarshal(raw, &job); err != nil {
			core.HarnessError("bad job: %v", err)
		}
		mk := Scenarios[job.Scenario]
		if mk == nil {
			core.HarnessError("unknown scenario %q", job.Scenario)
		}
		return Exec(t, mk(), job.Arg, job.Prefix, job.Expect)
	})
}

// Run describes one exploration: scenario x argument x deviation budget.
type Run struct {
	Scenario string
	Arg      any
	Budget   int
	MaxExec  int64
	// SelectLast runs the exploration with the runtime resolving every multi-ready select in favour of the
	// LAST ready case in source order (default: the first). Both orders are legal Go executions.
	SelectLast bool
}

// Explore runs the given explorations over a worker pool (concurrently) and folds the results into rep.
func Explore(testName string, rep *core.Report, runs []Run) {
	pool := core.NewPool(testName, core.Parallelism(), 120*time.Second)
	defer pool.Close()
	var poolLast *core.Pool
	for _, r := range runs {
		if r.SelectLast && poolLast == nil {
			poolLast = core.NewPool(testName, core.Parallelism(), 120*time.Second, "VERIF_SELECT=last")
			defer poolLast.Close()
		}
	}
	var mu sync.Mutex
	states := map[uint64]struct{}{}
	outcomes := map[string]int64{}
	sem := make(chan struct{}, 4*core.Parallelism())
	var wg sync.WaitGroup
	for _, r := range runs {
		r := r
		sem <- struct{}{}
		wg.Add(1)
		go func() {
			defer func() { <-sem; wg.Done() }()
			argb, _ := json.Marshal(r.Arg)
			ex := &core.ParallelExplorer{Pool: pool, Scenario: r.Scenario, Arg: argb, Budget: r.Budget, MaxExec: r.MaxExec}
			ex.AfterViolation = func() bool { return rep.NumViolations() > 0 }
			if r.SelectLast {
				ex.Pool = poolLast
			}
			ex.Visit = func(job core.ExecJob, res *core.ExecResult, crash string, hang bool) {
				if crash != "" && strings.Contains(crash, "HARNESS-ERROR:") {
					core.HarnessError("worker reported a harness error in scenario %s arg %s prefix %v: %s", r.Scenario, argb, job.Prefix, crash)
				}
				if crash != "" && ExploreKeep != nil && !ExploreKeep("crash.process."+crashKeyFromStderr(crash)) {
					rep.Add("violations_of_other_properties_seen_and_left_to_their_checks", 1)
				} else if crash != "" {
					rep.Violate("crash.process."+crashKeyFromStderr(crash), fmt.Sprintf("worker process died while executing scenario %s arg %s prefix %v:\n%s", r.Scenario, argb, job.Prefix, crash),
						map[string]any{"scenario": r.Scenario, "arg": r.Arg, "choices": job.Prefix})
					return
				}
				if hang {
					rep.Cap(fmt.Sprintf("worker exceeded its wall budget on scenario %s prefix %v (not a verdict)", r.Scenario, job.Prefix))
					return
				}
				for _, v := range res.Violations {
					if r.SelectLast {
						if m, ok := v.Replay.(map[string]any); ok {
							m["select"] = "last"
						}
						v.Desc += "\n  (runtime select order: last ready case wins; replay with VERIF_SELECT=last)"
					}
					if ExploreKeep != nil && !ExploreKeep(v.Key) {
						rep.Add("violations_of_other_properties_seen_and_left_to_their_checks", 1)
						continue
					}
					rep.Violate(v.Key, v.Desc, v.Replay)
				}
				for k, n := range res.Counters {
					rep.Add(k, n)
				}
				mu.Lock()
				if res.Outcome != "" {
					outcomes[res.Outcome]++
				}
				mu.Unlock()
				if len(job.Prefix) == 0 {
					rep.Sample(12, map[string]any{"scenario": r.Scenario, "arg": r.Arg, "default_schedule_steps": len(res.Trace.Choices), "outcome": res.Outcome})
				}
			}
			ex.Run()
			if ex.Diverged > 0 {
				rep.Cap(fmt.Sprintf("%d replays of scenario %s arg %s diverged after a violation had been reported (their subtrees were abandoned)", ex.Diverged, r.Scenario, argb))
			}
			if ex.Capped {
				rep.Cap(fmt.Sprintf("execution cap %d reached in scenario %s arg %s", r.MaxExec, r.Scenario, argb))
			}
			mu.Lock()
			rep.Evaluations += ex.Stats.Executions
			rep.Transitions += ex.Stats.Transitions
			rep.TracesImpl += ex.Stats.Executions
			for s := range ex.States {
				states[s] = struct{}{}
			}
			if d, _ := rep.Extra["max_depth"].(int64); int64(ex.Stats.MaxDepth) > d {
				rep.Extra["max_depth"] = int64(ex.Stats.MaxDepth)
			}
			mu.Unlock()
		}()
	}
	wg.Wait()
	rep.States = int64(len(states))
	rep.Distinct = int64(len(states))
	oc := map[string]any{}
	for k, v := range outcomes {
		oc[k] = v
	}
	rep.Extra["outcome_classes"] = oc
	rep.Extra["worker_spawns"] = pool.Spawns
}

func crashKeyFromStderr(s string) string {
	// first "panic:" / "fatal error:" line
	for _, ln := range bytes.Split([]byte(s), []byte("\n")) {
		l := string(ln)
		if len(l) > 7 && (l[:6] == "panic:" || (len(l) > 12 && l[:12] == "fatal error:")) {
			if len(l) > 80 {
				l = l[:80]
			}
			return l
		}
	}
	return "unknown"
}

var _ = tracker.ErrDecode

// ---- helpers for engines built on top of the lab (crashlab)

// DrainDefault follows the default policy until nothing is enabled.
func (w *World) DrainDefault(max int) { w.drain(max) }

// TryOpenSession is OpenSession that returns the error instead of aborting.
func (w *World) TryOpenSession() error {
	s, err := torrent.NewSession(w.Cfg)
	if err != nil {
		return err
	}
	w.S = s
	w.Quiesce()
	return nil
}

// AdoptLoadedTorrents registers the torrents the session loaded from its resume database.
func (w *World) AdoptLoadedTorrents() {
	ts := w.S.ListTorrents()
	sort.Slice(ts, func(i, j int) bool { return ts[i].ID() < ts[j].ID() })
	for _, t := range ts {
		w.Tors = append(w.Tors, t)
		if w.Tor == nil {
			w.Tor = t
		}
	}
	w.Quiesce()
}

// AllFilesPresent reports whether every non-padding file of the torrent exists in storage.
func (w *World) AllFilesPresent() bool {
	names := map[string]bool{}
	for _, n := range w.Store.FileNames(w.Tor.ID()) {
		names[n] = true
	}
	for fi, f := range w.G.L.Files {
		if !f.Pad && !names[w.G.StoragePath(fi)] {
			return false
		}
	}
	return true
}

// RealStorageOpenFlags opens a file through rain's real file storage and returns its open flags (from /proc/self/fdinfo).
func RealStorageOpenFlags(dir string) (int64, error) {
	fs, err := filestorage.New(dir, 0o755)
	if err != nil {
		return 0, err
	}
	f, _, err := fs.Open("probe.bin", 10)
	if err != nil {
		return 0, err
	}
	defer f.Close()
	of, ok := f.(*os.File)
	if !ok {
		return 0, fmt.Errorf("storage file is %T", f)
	}
	b, err := os.ReadFile(fmt.Sprintf("/proc/self/fdinfo/%d", of.Fd()))
	if err != nil {
		return 0, err
	}
	for _, ln := range strings.Split(string(b), "\n") {
		if strings.HasPrefix(ln, "flags:") {
			return strconv.ParseInt(strings.TrimSpace(strings.TrimPrefix(ln, "flags:")), 8, 64)
		}
	}
	return 0, fmt.Errorf("no flags line")
}

// drain follows the default policy (first StdAction) until nothing is enabled. Setup only.
func (w *World) drain(max int) { w.drainUntil(max, func() bool { return false }) }

func (w *World) drainUntil(max int, stop func() bool) {
	w.Quiesce()
	for i := 0; i < max && w.Dead == "" && !stop(); i++ {
		acts := StdActions(w)
		if len(acts) == 0 {
			return
		}
		acts[0].Do(w)
		w.Quiesce()
	}
}


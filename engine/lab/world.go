//go:build verif

// Package lab is engine E1 (looplab): one or more real rain torrents inside a synctest bubble with the
// torrent event loop's select replaced by an explorer-controlled step function, an in-memory network,
// recording storage and scripted peers/trackers. One execution = one bubble; the explorer decides every
// delivery, environment answer and clock advance.
package lab

import (
	"bytes"
	"context"
	cryptorand "crypto/rand"
	"encoding/json"
	"fmt"
	"hash/fnv"
	"net"
	"os"
	"path/filepath"
	"runtime"
	"sort"
	"strings"
	"sync"
	"testing"
	"testing/synctest"
	"time"

	"github.com/cenkalti/rain/v2/internal/tracker"
	"github.com/cenkalti/rain/v2/torrent"
	"github.com/cenkalti/rain/v2/zzverif/core"
	"github.com/cenkalti/rain/v2/zzverif/vnet"
	"github.com/cenkalti/rain/v2/zzverif/vpool"
	"github.com/cenkalti/rain/v2/zzverif/vrand"
	metrics "github.com/rcrowley/go-metrics"
)

// Action is one explorer-choosable step.
type Action struct {
	Label string
	Cost  int // deviations this action costs when it is not the default (0 => 1)
	Do    func(w *World)
}

// Scenario describes a family of executions.
type Scenario struct {
	Name    string
	Horizon int
	// HorizonIsLivelock: an execution that still has something to do when the horizon is reached never comes
	// to rest (the horizon is several times the length of any terminating execution of the scenario): reported.
	HorizonIsLivelock bool
	Setup   func(w *World)
	// Actions lists the enabled actions at the current quiescent state; index 0 is the default policy's choice.
	Actions func(w *World) []Action
	// Check evaluates the oracles after every step (use w.Failf).
	Check func(w *World)
	// Final is evaluated when the execution ends (no actions left or horizon reached).
	Final func(w *World)
	// Outcome classifies the finished execution (statistics only).
	Outcome func(w *World) string
}

type Failure struct {
	Key  string
	Desc string
}

type Cmd struct {
	Name   string
	Done   bool
	Result any
	At     int
}

// World is the state of one execution.
type World struct {
	T        *testing.T
	Sc       *Scenario
	Arg      json.RawMessage
	Cfg      torrent.Config
	Dir      string
	Store    *Store
	S        *torrent.Session
	Tor      *torrent.Torrent
	Tors     []*torrent.Torrent
	G        *GenTorrent
	Peers    []*Peer
	Trackers []*ScriptTracker
	WebSeeds []*WebSeed
	HTTPTrackers []*HTTPTrackerSrv
	UDPTrackers  []*UDPTrackerSrv
	Step     int
	Labels   []string
	mid      map[int]int // torrent index -> case whose handler is held in front of a reply send
	Fails    []Failure
	Names    []string
	Cmds     []*Cmd
	PreStatus string // status of w.Tor just before the last action
	Dead     string // non-empty: execution cannot continue (crash / hang / loop exit)
	Counters map[string]int64
	Vars     map[string]any
	firstReady map[string]int
	mu       sync.Mutex
	Start    time.Time
}

func (w *World) Failf(key, format string, a ...any) {
	for _, f := range w.Fails {
		if f.Key == key {
			return
		}
	}
	w.Fails = append(w.Fails, Failure{key, fmt.Sprintf(format, a...)})
}

func (w *World) Count(k string, n int64) { w.Counters[k] += n }

// DefaultConfig is the lab's baseline session configuration.
func (w *World) DefaultConfig() torrent.Config {
	cfg := torrent.DefaultConfig
	cfg.Database = filepath.Join(w.Dir, "session.db")
	cfg.DataDir = filepath.Join(w.Dir, "data")
	cfg.DHTEnabled, cfg.RPCEnabled = false, false
	cfg.Host = "127.0.0.1"
	cfg.PortBegin, cfg.PortEnd = 41000, 41008
	cfg.MaxOpenFiles = 0
	cfg.CustomStorage = w.Store
	cfg.DisableOutgoingEncryption = true
	cfg.ResumeOnStartup = false
	cfg.BlocklistURL = ""
	cfg.HealthCheckInterval = 24 * time.Hour * 365 // the lab checks loop liveness itself (hang oracle)
	return cfg
}

// OpenSession creates the session (inside the bubble).
func (w *World) OpenSession() {
	s, err := torrent.NewSession(w.Cfg)
	if err != nil {
		core.HarnessError("NewSession: %v", err)
	}
	w.S = s
	w.Quiesce()
}

// AddTorrent adds the generated torrent stopped.
func (w *World) AddTorrent(g *GenTorrent, opt *torrent.AddTorrentOptions) *torrent.Torrent {
	if opt == nil {
		opt = &torrent.AddTorrentOptions{Stopped: true}
	}
	t, err := w.S.AddTorrent(bytes.NewReader(g.MetaInfo), opt)
	if err != nil {
		core.HarnessError("AddTorrent: %v", err)
	}
	w.G = g
	w.Tor = t
	w.Tors = append(w.Tors, t)
	w.Quiesce()
	if !t.VerifLoopReady() {
		core.HarnessError("controlled loop did not register")
	}
	return t
}

// Quiesce waits until every goroutine in the bubble is durably blocked, then lets the scripted peers read.
func (w *World) Quiesce() {
	for i := 0; i < 8; i++ {
		synctest.Wait()
		again := false
		for _, p := range w.Peers {
			p.wrote = false
			p.Process()
			if p.wrote {
				again = true // an automatic reply (handshake answer) was written: let the client read it
			}
		}
		for _, ts := range w.UDPTrackers {
			if ts.Process() {
				again = true
			}
		}
		if !again {
			return
		}
	}
}

// Launch runs an API call in its own goroutine (it shows up as a ready command case of the loop).
func (w *World) Launch(name string, fn func() any) *Cmd {
	c := &Cmd{Name: name, At: w.Step}
	w.Cmds = append(w.Cmds, c)
	go func() {
		r := fn()
		w.mu.Lock()
		c.Result = r
		c.Done = true
		w.mu.Unlock()
	}()
	return c
}

func (c *Cmd) IsDone(w *World) bool { w.mu.Lock(); defer w.mu.Unlock(); return c.Done }

// Ready lists the select cases of tor's loop that can fire now, oldest-pending first.
func (w *World) Ready(ti int) []int {
	tor := w.Tors[ti]
	var out []int
	if _, held := w.mid[ti]; held {
		return nil // the loop is inside a handler
	}
	for i := range w.Names {
		key := fmt.Sprintf("%d/%d", ti, i)
		if tor.VerifReady(i) == 1 {
			if _, ok := w.firstReady[key]; !ok {
				w.firstReady[key] = w.Step
			}
			out = append(out, i)
		} else {
			delete(w.firstReady, key)
		}
	}
	sort.SliceStable(out, func(a, b int) bool {
		fa, fb := w.firstReady[fmt.Sprintf("%d/%d", ti, out[a])], w.firstReady[fmt.Sprintf("%d/%d", ti, out[b])]
		if fa != fb {
			return fa < fb
		}
		return out[a] < out[b]
	})
	return out
}

// Deliver makes tor's loop take select case idx and waits for the handler to finish (or to stop in front of
// a reply send when the scenario switched torrent.VerifYieldReplies on: Continue resumes it).
func (w *World) Deliver(ti, idx int) {
	tor := w.Tors[ti]
	tor.VerifPost(idx)
	delete(w.firstReady, fmt.Sprintf("%d/%d", ti, idx))
	w.afterStep(ti, idx)
}

// Continue resumes a handler held in front of its reply send.
func (w *World) Continue(ti int) {
	idx, ok := w.mid[ti]
	if !ok {
		core.HarnessError("Continue: torrent %d is not inside a handler", ti)
	}
	delete(w.mid, ti)
	w.Tors[ti].VerifResume()
	w.afterStep(ti, idx)
}

// MidHandler reports whether tor's loop is held inside a handler (it takes nothing else until continued).
func (w *World) MidHandler(ti int) (string, bool) {
	idx, ok := w.mid[ti]
	if !ok {
		return "", false
	}
	return w.Names[idx], true
}

func (w *World) afterStep(ti, idx int) {
	tor := w.Tors[ti]
	w.Quiesce()
	r, ok := tor.VerifCollect()
	for !ok && (vpool.Parked() > 0 || len(w.Store.PendingOps()) > 0) {
		// the handler waits for a goroutine that the lab holds inside bufferpool.Get or inside a gated storage
		// operation (Close of a web seed downloader / of the allocator waits for its Run): the real operation
		// does not block for ever, so the hold ends here, oldest first
		if vpool.Parked() > 0 {
			vpool.ReleaseOne()
		} else {
			w.Store.Release(0, nil)
		}
		w.Quiesce()
		r, ok = tor.VerifCollect()
	}
	name := w.Names[idx]
	switch {
	case !ok:
		w.Dead = "hang"
		w.Failf("hang."+name, "handler of case %s did not return: the torrent loop is blocked forever (every goroutine durably blocked)\n%s", name, blockedStacks())
	case r.Panic != "":
		w.Dead = "panic"
		first := r.Panic
		if i := strings.Index(first, "\n"); i >= 0 {
			first = first[:i]
		}
		w.Failf("crash."+name+"."+crashSite(r.Panic), "panic in handler of %s: %s", name, r.Panic)
	case r.Code == 0:
		core.HarnessError("peek said case %s ready but it did not fire (step %d, labels %v)", name, w.Step, w.Labels)
	case r.Code == 2:
		w.Dead = "exit"
	case r.Code == 3:
		if w.mid == nil {
			w.mid = map[int]int{}
		}
		w.mid[ti] = idx
	}
}

func crashSite(p string) string {
	lines := strings.SplitN(p, "\n", 2)
	msg := lines[0]
	// strip variable parts (numbers, file names of crash dumps)
	if i := strings.Index(msg, " Saving goroutine stacks"); i >= 0 {
		msg = msg[:i]
	}
	var sb strings.Builder
	for _, r := range msg {
		if r >= '0' && r <= '9' {
			continue
		}
		sb.WriteRune(r)
	}
	site := ""
	if len(lines) > 1 {
		fr := strings.Split(lines[1], " <- ")
		if len(fr) > 0 {
			site = strings.Fields(fr[0])[0]
		}
	}
	return strings.ReplaceAll(strings.TrimSpace(sb.String()), " ", "_") + "@" + site
}

func blockedStacks() string {
	buf := make([]byte, 1<<20)
	n := runtime.Stack(buf, true)
	var out []string
	for _, g := range strings.Split(string(buf[:n]), "\n\n") {
		if strings.Contains(g, "verifLoop") {
			lines := strings.Split(g, "\n")
			if len(lines) > 14 {
				lines = lines[:14]
			}
			out = append(out, strings.Join(lines, "\n"))
		}
	}
	return strings.Join(out, "\n")
}

// Advance moves the virtual clock and delivers ticker cases that became due.
func (w *World) Advance(d time.Duration) {
	time.Sleep(d)
	w.Quiesce()
	for ti, tor := range w.Tors {
		if _, held := w.mid[ti]; held {
			continue // inside a handler: its tickers stay pending
		}
		for i := range w.Names {
			if w.Dead != "" {
				return
			}
			if tor.VerifReady(i) == 2 {
				tor.VerifPost(i)
				w.Quiesce()
				r, ok := tor.VerifCollect()
				for !ok && vpool.Parked() > 0 {
					vpool.ReleaseOne()
					w.Quiesce()
					r, ok = tor.VerifCollect()
				}
				if !ok {
					w.Dead = "hang"
					w.Failf("hang."+w.Names[i], "ticker handler %s did not return", w.Names[i])
					return
				}
				if r.Panic != "" {
					w.Dead = "panic"
					w.Failf("crash."+w.Names[i]+"."+crashSite(r.Panic), "panic in ticker handler %s: %s", w.Names[i], r.Panic)
					return
				}
				_ = ti
			}
		}
	}
}

// Digest hashes the observable state (determinism assertion + distinct-state statistics).
var debugDigest bool

func (w *World) Digest() uint64 {
	h0 := fnv.New64a()
	var dbg bytes.Buffer
	var h interface {
		Write([]byte) (int, error)
	} = h0
	if debugDigest {
		h = &dbg
	}
	defer func() {
		if debugDigest {
			fmt.Printf("DIGEST step %d: %s\n", w.Step, dbg.String())
		}
	}()
	for ti, tor := range w.Tors {
		st := tor.VerifState()
		sort.Strings(st.ConnectedIPs)
		sort.Strings(st.BannedIPs)
		fmt.Fprintf(h, "%d|%+v|", ti, st)
		for i := range w.Names {
			fmt.Fprintf(h, "%d", tor.VerifReady(i))
		}
	}
	for _, p := range w.Peers {
		if p.ClosedSeen {
			// what a peer still receives while the client is closing its connection is a genuine race
			// (writer goroutine vs close); it is not part of the state
			fmt.Fprintf(h, "|%s:closed", p.Name)
			continue
		}
		fmt.Fprintf(h, "|%s:%d:%d:%v:%v:%v", p.Name, len(p.Inbox), len(p.Requests), p.GotHS, p.ClosedSeen, p.Interested)
	}
	for _, t := range w.Trackers {
		fmt.Fprintf(h, "|T%d:%d", len(t.Log), len(t.waiting))
	}
	fmt.Fprintf(h, "|S%d:%v", w.Store.LogLen(), w.Store.PendingOps())
	for _, c := range w.Cmds {
		fmt.Fprintf(h, "|C%s:%v", c.Name, c.IsDone(w))
	}
	fmt.Fprintf(h, "|D%d|R%d|P%d:%d", len(vnet.W.DialLog()), vrand.Draws, vpool.Parked(), vpool.Reuses)
	if debugDigest {
		h0.Write(dbg.Bytes())
	}
	return h0.Sum64()
}

// ---------------------------------------------------------------------------------------------
// scripted tracker

type ScriptTracker struct {
	w       *World
	Name    string
	Auto    bool // answer immediately with Default
	Default func(req tracker.AnnounceRequest) (*tracker.AnnounceResponse, error)
	Log     []TrackerCall
	waiting []*trackerWait
	mu      sync.Mutex
}

type TrackerCall struct {
	Step  int
	At    time.Time
	Event string
	Req   tracker.AnnounceRequest
}

type trackerWait struct {
	req  tracker.AnnounceRequest
	resp chan trackerAnswer
}

type trackerAnswer struct {
	r   *tracker.AnnounceResponse
	err error
}

func (w *World) NewTracker(name string, auto bool) *ScriptTracker {
	t := &ScriptTracker{w: w, Name: name, Auto: auto}
	t.Default = func(tracker.AnnounceRequest) (*tracker.AnnounceResponse, error) {
		return &tracker.AnnounceResponse{Interval: 30 * time.Minute}, nil
	}
	w.Trackers = append(w.Trackers, t)
	return t
}

func (t *ScriptTracker) URL() string { return "http://" + t.Name + ".lab/announce" }

func (t *ScriptTracker) Announce(ctx context.Context, req tracker.AnnounceRequest) (*tracker.AnnounceResponse, error) {
	t.mu.Lock()
	t.Log = append(t.Log, TrackerCall{Step: t.w.Step, At: time.Now(), Event: req.Event.String(), Req: req})
	if t.Auto {
		t.mu.Unlock()
		return t.Default(req)
	}
	wt := &trackerWait{req: req, resp: make(chan trackerAnswer, 1)}
	t.waiting = append(t.waiting, wt)
	t.mu.Unlock()
	select {
	case a := <-wt.resp:
		return a.r, a.err
	case <-ctx.Done():
		t.mu.Lock()
		for i, x := range t.waiting {
			if x == wt {
				t.waiting = append(t.waiting[:i:i], t.waiting[i+1:]...)
				break
			}
		}
		t.mu.Unlock()
		return nil, ctx.Err()
	}
}

// Waiting is the number of announces parked on the explorer.
func (t *ScriptTracker) Waiting() int { t.mu.Lock(); defer t.mu.Unlock(); return len(t.waiting) }

// Answer releases the oldest parked announce.
func (t *ScriptTracker) Answer(r *tracker.AnnounceResponse, err error) {
	t.mu.Lock()
	if len(t.waiting) == 0 {
		t.mu.Unlock()
		return
	}
	wt := t.waiting[0]
	t.waiting = t.waiting[1:]
	t.mu.Unlock()
	wt.resp <- trackerAnswer{r, err}
}

func (t *ScriptTracker) Calls() []TrackerCall { t.mu.Lock(); defer t.mu.Unlock(); return append([]TrackerCall{}, t.Log...) }

// ---------------------------------------------------------------------------------------------
// execution

var initOnce sync.Once

func initProcess() {
	initOnce.Do(func() {
		runtime.GOMAXPROCS(1)
		metrics.UseNilMetrics = true
		torrent.DisableLogging()
		torrent.VerifControlled = true
		selfTestPeek()
	})
}

func selfTestPeek() {
	idle := make(chan int)
	buffered := make(chan int, 1)
	buffered <- 1
	closed := make(chan int)
	close(closed)
	var nilc chan int
	tm := time.NewTimer(time.Hour)
	defer tm.Stop()
	if torrent.VerifPeek(idle) != 0 || torrent.VerifPeek(buffered) != 1 || torrent.VerifPeek(closed) != 1 || torrent.VerifPeek(nilc) != 0 || torrent.VerifPeek(tm.C) != 2 {
		core.HarnessError("hchan peek self-test failed (static cases): runtime layout differs from go1.25")
	}
	blocked := make(chan int)
	go func() { blocked <- 7 }()
	selBlocked := make(chan int)
	stop := make(chan struct{})
	go func() {
		select {
		case selBlocked <- 9:
		case <-stop:
		}
	}()
	ok := false
	for i := 0; i < 1000; i++ {
		runtime.Gosched()
		if torrent.VerifPeek(blocked) == 1 && torrent.VerifPeek(selBlocked) == 1 {
			ok = true
			break
		}
		time.Sleep(time.Millisecond)
	}
	<-blocked
	close(stop)
	if !ok {
		core.HarnessError("hchan peek self-test failed (blocked sender not seen)")
	}
}

// Exec runs one execution of sc: replays prefix, then takes the default (index 0) at every later point.
func Exec(t *testing.T, sc *Scenario, arg json.RawMessage, prefix []int, expect []uint64) (res *core.ExecResult) {
	initProcess()
	res = &core.ExecResult{}
	var w *World
	synctest.Test(t, func(t *testing.T) {
		dir, err := os.MkdirTemp("/dev/shm", "lab")
		if err != nil {
			core.HarnessError("%v", err)
		}
		defer os.RemoveAll(dir)
		vnet.Reset()
		vrand.Reset()
		vpool.Reset()
		torrent.VerifYieldReplies = false
		cryptorand.Reader = &detReader{}
		torrent.VerifResetLoops()
		w = &World{T: t, Sc: sc, Arg: arg, Dir: dir, Store: NewStore(), Names: torrent.VerifCaseNames(), Counters: map[string]int64{},
			Vars: map[string]any{}, firstReady: map[string]int{}, Start: time.Now()}
		w.Store.step = func() int { return w.Step }
		w.Cfg = w.DefaultConfig()
		sc.Setup(w)
		w.Quiesce()
		horizon := sc.Horizon
		if horizon == 0 {
			horizon = 200
		}
		for w.Step < horizon && w.Dead == "" {
			acts := sc.Actions(w)
			if len(acts) == 0 {
				break
			}
			choice := 0
			if w.Step < len(prefix) {
				choice = prefix[w.Step]
				if choice >= len(acts) {
					res.Diverged = fmt.Sprintf("step %d: prefix choice %d but only %d actions enabled (%v)", w.Step, choice, len(acts), labelsOf(acts))
					break
				}
			}
			pt := core.Point{N: len(acts)}
			for _, a := range acts {
				c := a.Cost
				if c == 0 {
					c = 1
				}
				// Cost < 0: free alternative (alphabet member of an enumerated operation sequence)
				pt.Cost = append(pt.Cost, c)
			}
			pt.Cost[0] = 0
			res.Trace.Points = append(res.Trace.Points, pt)
			res.Trace.Choices = append(res.Trace.Choices, choice)
			w.Labels = append(w.Labels, acts[choice].Label)
			if traceSteps {
				var alts []string
				for _, a := range acts {
					alts = append(alts, a.Label)
				}
				fmt.Printf("step %d: %s   [of %v]\n", w.Step, acts[choice].Label, alts)
			}
			if w.Tor != nil {
				w.PreStatus = w.Tor.VerifState().Status
			}
			// a little virtual time passes between any two explorer steps, so that timers armed in
			// different steps never expire at the same instant (equal-deadline timers wake their
			// goroutines in an order the harness does not own)
			time.Sleep(time.Millisecond)
			acts[choice].Do(w)
			w.Quiesce()
			w.Step++
			if w.Dead == "" && sc.Check != nil {
				sc.Check(w)
			}
			d := w.Digest()
			res.Trace.Digests = append(res.Trace.Digests, d)
			if k := w.Step - 1; k < len(expect) && expect[k] != d {
				res.Diverged = fmt.Sprintf("step %d (%s): digest %x, parent saw %x", k, acts[choice].Label, d, expect[k])
				break
			}
		}
		if sc.HorizonIsLivelock && w.Step >= horizon && w.Dead == "" && res.Diverged == "" {
			tail := w.Labels
			if len(tail) > 9 {
				tail = tail[len(tail)-9:]
			}
			cyc := ""
			for _, l := range tail { // the key names the cycle by its smallest loop delivery, whatever step the horizon cut it at
				if strings.HasPrefix(l, "deliver:") && (cyc == "" || l < cyc) {
					cyc = l
				}
			}
			w.Failf("livelock."+strings.TrimPrefix(cyc, "deliver:"), "after %d steps the client still has not come to rest; the last steps repeat: %s", w.Step, strings.Join(tail, " ; "))
			w.Dead = "livelock"
		}
		if w.Dead == "" && res.Diverged == "" && sc.Final != nil {
			sc.Final(w)
		}
		if sc.Outcome != nil {
			res.Outcome = sc.Outcome(w)
		}
		res.Counters = w.Counters
		for _, f := range w.Fails {
			res.Violations = append(res.Violations, core.Violation{Key: f.Key, Desc: f.Desc + "\n  history: " + strings.Join(w.Labels, " ; "), Replay: map[string]any{"scenario": sc.Name, "arg": arg, "choices": res.Trace.Choices, "labels": w.Labels}, Count: 1})
		}
		if w.Dead == "panic" || w.Dead == "hang" || w.Dead == "livelock" || res.Diverged != "" {
			// the bubble is poisoned: report and leave the process
			res.Partial = true
			os.RemoveAll(dir)
			if core.IsPoolWorker() {
				core.WorkerDie(res)
			}
			fmt.Printf("execution ended: %s\n", w.Dead)
			for _, v := range res.Violations {
				fmt.Println(v.Key, v.Desc)
			}
			os.Exit(3)
		}
		w.teardown()
	})
	return res
}

func labelsOf(a []Action) []string {
	var s []string
	for _, x := range a {
		s = append(s, x.Label)
	}
	return s
}

// teardown closes the session, driving the loops through their close case.
// traceSteps (VERIF_TRACE=1) prints every step with its alternatives (debugging aid for TestReplay).
var traceSteps = os.Getenv("VERIF_TRACE") != ""

func (w *World) teardown() {
	w.Store.ReleaseAll()
	vpool.ReleaseAll()
	torrent.VerifYieldReplies = false
	for ti := range w.Tors {
		if _, held := w.mid[ti]; held {
			w.Continue(ti)
			if w.Dead == "hang" || w.Dead == "panic" {
				w.teardownFail(w.Dead+".close", "handler resumed at teardown did not finish")
			}
		}
	}
	for _, t := range w.Trackers {
		t.mu.Lock()
		t.Auto = true
		ws := t.waiting
		t.waiting = nil
		t.mu.Unlock()
		for _, x := range ws {
			x.resp <- trackerAnswer{nil, context.Canceled}
		}
	}
	for _, p := range w.Peers {
		p.Close()
	}
	if w.S == nil {
		return
	}
	w.closeSession(true)
}

// RestartSession closes the session (driving the loops through their close case) and opens a new one on the
// same configuration, resume database and storage: a restart of the client inside one execution.
func (w *World) RestartSession() {
	for ti := range w.Tors {
		if _, held := w.mid[ti]; held {
			w.Continue(ti)
		}
	}
	w.closeSession(false)
	for ti := range w.Tors {
		delete(w.Vars, fmt.Sprintf("exited%d", ti))
	}
	w.Tors, w.Tor, w.mid = nil, nil, nil
	w.firstReady = map[string]int{}
	w.OpenSession()
	w.AdoptLoadedTorrents()
}

// closeSession runs Session.Close to completion. final: this is the end of the execution (scripted servers
// are closed and the clock is run out, because time stops when the bubble's root returns).
func (w *World) closeSession(final bool) {
	w.S.VerifFakeDHT(false) // no live DHT node exists in the lab: Close must not try to stop one
	done := make(chan struct{})
	go func() { w.S.Close(); close(done) }()
	for i := 0; i < 10000; i++ {
		synctest.Wait()
		select {
		case <-done:
			if !final {
				return
			}
			for _, ws := range w.WebSeeds {
				ws.CloseAll()
			}
			for _, ts := range w.HTTPTrackers {
				ts.CloseAll()
			}
			// Time stops when the bubble's root returns: let every pending timer (context deadlines of
			// stop announcers, idle-connection timers) fire first so that their goroutines can exit.
			synctest.Wait()
			time.Sleep(3 * time.Hour)
			synctest.Wait()
			return
		default:
		}
		progressed := false
		for ti, tor := range w.Tors {
			if !tor.VerifLoopReady() {
				continue
			}
			// serve whatever is ready, close first
			for idx := range w.Names {
				if tor.VerifReady(idx) == 1 {
					if w.exited(ti) {
						continue
					}
					tor.VerifPost(idx)
					synctest.Wait()
					r, ok := tor.VerifCollect()
					if !ok || r.Panic != "" {
						// crash/hang during shutdown: report as violation of the close path
						key := "crash.close"
						if !ok {
							key = "hang.close"
						}
						fmt.Fprintf(os.Stderr, "teardown failure %s: %s\n", key, r.Panic)
						w.teardownFail(key, r.Panic)
						return
					}
					if r.Code == 2 {
						w.markExited(ti)
					}
					progressed = true
					break
				}
			}
		}
		if !progressed {
			// nothing ready and Close has not returned: advance the clock (stop announcer timeout etc.)
			time.Sleep(time.Second)
		}
	}
	core.HarnessError("session close did not finish")
}

func (w *World) exited(ti int) bool    { _, ok := w.Vars[fmt.Sprintf("exited%d", ti)]; return ok }
func (w *World) markExited(ti int)     { w.Vars[fmt.Sprintf("exited%d", ti)] = true }
func (w *World) teardownFail(key, p string) {
	res := &core.ExecResult{Partial: true}
	res.Violations = append(res.Violations, core.Violation{Key: key + "." + crashSite(p), Desc: "during session close: " + p + "\n  history: " + strings.Join(w.Labels, " ; "), Count: 1})
	if core.IsPoolWorker() {
		core.WorkerDie(res)
	}
	os.Exit(3)
}

var _ = net.IPv4

// detReader replaces crypto/rand.Reader: a deterministic byte stream restarted for every execution
// (peer ids, MSE keys and pads become functions of the action history).
type detReader struct {
	mu sync.Mutex
	n  uint64
}

func (d *detReader) Read(p []byte) (int, error) {
	d.mu.Lock()
	defer d.mu.Unlock()
	for i := range p {
		d.n = d.n*6364136223846793005 + 1442695040888963407
		p[i] = byte(d.n >> 33)
	}
	return len(p), nil
}

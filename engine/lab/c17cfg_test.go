//go:build verif

package lab

import (
	"encoding/json"
	"strings"
	"testing"

	"github.com/cenkalti/rain/v2/zzverif/core"
)

// C17 (configuration part) — "for every configuration ... no legal configuration value makes the client
// crash": every limit of the configuration set to 0 and to 1, one at a time, then a torrent is added,
// started and downloaded from a peer and a web seed on the real event loop. Only crashes and lock-ups are
// judged here (with a limit of 0 the download may legitimately make no progress).

var c17Knobs = []string{
	"UnchokedPeers", "OptimisticUnchokedPeers", "MaxRequestsIn", "MaxRequestsOut", "DefaultRequestsOut",
	"EndgameMaxDuplicateDownloads", "MaxPeerDial", "MaxPeerAccept", "ParallelMetadataDownloads", "MaxPeerAddresses",
	"AllowedFastSet", "ReadCacheBlockSize", "ReadCacheSize", "ParallelReads", "ParallelWrites", "WriteCacheSize",
	"WebseedMaxSources", "WebseedMaxDownloads", "SpeedLimitDownload", "SpeedLimitUpload", "TrackerNumWant",
}

// c17ws: a torrent that lists three web seeds under WebseedMaxSources = k: the client keeps at most k of them.
type c17wsArg struct {
	Max int `json:"max"`
}

func init() { Register("c17ws", mkC17ws) }

func mkC17ws() *Scenario {
	sc := &Scenario{Name: "c17ws", Horizon: 100}
	var arg c17wsArg
	sc.Setup = func(w *World) {
		json.Unmarshal(w.Arg, &arg)
		l := LayoutSingle(16384, 3*16384)
		l.Webseeds = []string{"http://10.9.9.9/ws/", "http://10.9.9.8/ws/", "http://10.9.9.7/ws/"}
		g := Gen(l)
		w.Cfg.WebseedMaxSources = arg.Max
		w.OpenSession()
		w.AddTorrent(g, nil)
		for _, ip := range []string{"10.9.9.9", "10.9.9.8", "10.9.9.7"} {
			w.NewWebSeed(ip, g)
		}
		w.Vars["std"] = &StdOpts{Behaviour: map[string]*PeerBehaviour{}, Script: []*ScriptItem{{Label: "start", Do: func(w *World) { w.CmdStart() }}}}
	}
	sc.Actions = StdActions
	sc.Check = func(w *World) {
		if n := len(w.Tor.VerifWebseedURLs()); n > max(arg.Max, 0) {
			w.Failf("C17.cap.webseed-sources", "the torrent keeps %d web seed sources, WebseedMaxSources is %d", n, arg.Max)
		}
		w.Count("webseed_source_checks", 1)
	}
	sc.Outcome = func(w *World) string { return w.Tor.VerifState().Status }
	return sc
}

func TestC17Config(t *testing.T) {
	ServeIfWorker(t)
	rep := core.NewReport("C17", "lab-config", "model_checking")
	rep.Rule = "each of the 21 limits of the configuration set to 0 and to 1 (one at a time) x {peer + web seed, choking BEP 6 seed} x two layouts: torrent added, started and driven under the eager schedule on the real event loop; a handler panic, process death or handler that never returns is reported; plus a torrent listing three web seeds under WebseedMaxSources 0..4: at most that many are kept"
	rep.Assumptions = []string{"one limit is changed at a time", "progress is not judged (a limit of 0 may stop the download)"}
	// a goroutine still blocked when the session has been closed (a writer waiting for a semaphore of size 0) is
	// neither a crash nor a lock-up of the client: not judged here
	ExploreKeep = func(key string) bool {
		return (strings.HasPrefix(key, "crash.") && !strings.Contains(key, "main bubble goroutine")) || strings.HasPrefix(key, "hang.") || strings.HasPrefix(key, "C17.")
	}
	layouts := []c10Arg{{Files: []int{3*16384 + 1000}, PL: 16384, Single: true}, {Files: []int{16384 + 1, -(16384 - 1), 16384 + 5}, PL: 16384}}
	var runs []Run
	for _, k := range c17Knobs {
		for _, v := range []int64{0, 1} {
			for _, l := range layouts {
				for _, src := range []string{"both", "fastchoke"} {
					a := l
					a.Source = src
					a.Cfg = map[string]int64{k: v}
					runs = append(runs, Run{Scenario: "c10", Arg: a, Budget: 0})
				}
			}
		}
	}
	for _, k := range []int{0, 1, 2, 3, 4} {
		runs = append(runs, Run{Scenario: "c17ws", Arg: c17wsArg{Max: k}, Budget: 0})
	}
	rep.Extra["configurations"] = int64(len(runs))
	Explore("TestC17Config", rep, runs)
	rep.Finish()
}

//go:build verif

package lab

import (
	"encoding/hex"
	"encoding/json"
	"net/url"
	"fmt"
	"strconv"
	"testing"
	"time"

	"github.com/cenkalti/rain/v2/torrent"
	"github.com/cenkalti/rain/v2/zzverif/core"
)

// C15 (session level) — announces carry the torrent's identity and follow the event discipline, seen by
// independent scripted HTTP and UDP trackers while a torrent runs start -> download -> complete -> stop -> start.

type c15Arg struct {
	Seeded bool `json:"seeded"` // data complete before the first start (no "completed" may be sent)
	Hold   bool `json:"hold"`   // tracker T1 holds its replies until the explorer releases them
	Magnet bool `json:"magnet"` // added by magnet link (trackers in tr=): announcers exist before the metadata arrives
}

func init() { Register("c15", mkC15) }

func mkC15() *Scenario {
	sc := &Scenario{Name: "c15", Horizon: 500}
	var arg c15Arg
	var g *GenTorrent
	var p1 *Peer
	var t1, t2, t4 *HTTPTrackerSrv
	var t3 *UDPTrackerSrv
	var mh *metaPeer
	t4added := false
	verifyIssued := false
	notRunning := map[int]bool{} // steps before and after which the torrent was Stopping or Stopped
	noBitfield := map[int]bool{} // steps around which the client had no bitfield (metadata unknown, not verified yet)
	type runInfo struct{ startStep int }
	var runs []runInfo
	completedAt := -1
	sc.Setup = func(w *World) {
		json.Unmarshal(w.Arg, &arg)
		l := LayoutSingle(32768, 70000)
		l.Trackers = [][]string{{"http://10.8.8.8/announce"}, {"http://10.8.8.9/announce"}, {"udp://10.8.8.10:6969/announce"}}
		g = Gen(l)
		w.OpenSession()
		t1 = w.NewHTTPTracker("10.8.8.8")
		t1.Hold = arg.Hold
		t2 = w.NewHTTPTracker("10.8.8.9")
		t2.Fail = "not registered"
		t3 = w.NewUDPTracker("10.8.8.10", 6969)
		t4 = w.NewHTTPTracker("10.8.8.11") // not in the metainfo: added by AddTracker (a deviation)
		if arg.Magnet {
			w.G = g
			link := "magnet:?xt=urn:btih:" + hex.EncodeToString(g.InfoHash[:])
			for _, tier := range l.Trackers {
				link += "&tr=" + url.QueryEscape(tier[0])
			}
			t, err := w.S.AddURI(link, &torrent.AddTorrentOptions{Stopped: true})
			if err != nil {
				core.HarnessError("AddURI: %v", err)
			}
			w.Tor = t
			w.Tors = append(w.Tors, t)
			w.Quiesce()
		} else {
			w.AddTorrent(g, nil)
		}
		if arg.Seeded {
			id := w.Tor.ID()
			w.Store.Mutate(id, func(files map[string]*MemFile) {
				files[g.StoragePath(0)] = &MemFile{Name: g.StoragePath(0), Data: append([]byte{}, g.FileData[0]...)}
			})
		}
		p1 = w.NewPeer("p1", "10.0.0.1", 5001)
		if arg.Magnet {
			mh = &metaPeer{Peer: p1}
			p1.Ext = true
		}
		o := &StdOpts{Behaviour: map[string]*PeerBehaviour{"p1": {Honest: true}}, EarlyScript: true}
		connect := func(w *World) { p1.ConnectIn(w.Tor.VerifState().Port, g.InfoHash) }
		o.Script = []*ScriptItem{
			{Label: "start", Do: func(w *World) { runs = append(runs, runInfo{w.Step}); w.CmdStart() }},
			{Label: "connect p1", When: func(w *World) bool { return w.Listening() && !p1.Connected() }, Do: connect},
			{Label: "advance 1s", Do: func(w *World) { w.Advance(time.Second) }},
			{Label: "stop", When: func(w *World) bool { s := w.Tor.VerifState().Status; return s == "Seeding" || s == "Downloading" }, Do: func(w *World) { w.CmdStop() }},
			{Label: "advance 6s", Do: func(w *World) { w.Advance(6 * time.Second) }},
			{Label: "start again", When: StatusIs("Stopped"), Do: func(w *World) { runs = append(runs, runInfo{w.Step}); w.CmdStart() }},
			{Label: "advance 1s again", Do: func(w *World) { w.Advance(time.Second) }},
			{Label: "stop again", When: func(w *World) bool { s := w.Tor.VerifState().Status; return s == "Seeding" || s == "Downloading" }, Do: func(w *World) { w.CmdStop() }},
			{Label: "advance 6s again", Do: func(w *World) { w.Advance(6 * time.Second) }},
		}
		o.Extra = func(w *World) []Action {
			var acts []Action
			if !t4added {
				// the user adds a tracker at any moment (also while the torrent is stopping)
				acts = append(acts, Action{Label: "adv:AddTracker(t4)", Do: func(w *World) {
					t4added = true
					w.Launch("AddTracker", func() any { return w.Tor.AddTracker("http://10.8.8.11/announce") })
				}})
			}
			if st := w.Tor.VerifState().Status; !verifyIssued && (st == "Downloading" || st == "Seeding") {
				// the user asks for a re-verification of the running torrent: it is stopped (a 'stopped' announce with
				// the counters of that moment), verified, and left stopped
				acts = append(acts, Action{Label: "adv:Verify", Do: func(w *World) { verifyIssued = true; w.CmdVerify() }})
			}
			return acts
		}
		w.Vars["std"] = o
	}
	sc.Actions = func(w *World) []Action {
		acts := StdActions(w)
		if mh != nil && mh.Connected() {
			mh.scan()
			if !mh.extSent && mh.GotHS {
				acts = append(acts, Action{Label: "p1:ext-handshake", Do: func(w *World) { mh.sendExtHandshake(int64(len(g.InfoBytes))) }})
			} else if len(mh.metaReqs) > 0 {
				p := mh.metaReqs[0]
				acts = append(acts, Action{Label: fmt.Sprintf("p1:metadata(%d)", p), Do: func(w *World) {
					mh.metaReqs = mh.metaReqs[1:]
					mh.sendData(p, int64(len(g.InfoBytes)), blockOf(g.InfoBytes, p))
				}})
			}
		}
		if t1.Parked() > 0 {
			acts = append(acts, Action{Label: "tracker:t1:release", Do: func(w *World) { t1.Release() }})
		}
		return acts
	}
	sc.Check = func(w *World) {
		s := w.Tor.VerifState()
		if s.Completed && completedAt < 0 {
			completedAt = w.Step
		}
		if !s.HasBitfield {
			noBitfield[w.Step-1], noBitfield[w.Step] = true, true // an announce of the next step was built in this state
		}
		idle := func(st string) bool { return st == "Stopped" || st == "Stopping" }
		if idle(w.PreStatus) && idle(s.Status) {
			notRunning[w.Step-1] = true // Check runs after the step counter moved on
		}
	}
	sc.Final = func(w *World) {
		vs := w.Tor.VerifState()
		// identity
		type ann struct {
			trk    string
			step   int
			event  string
			peerID string
			ih     string
			port   int
			left   int64
			ok     bool // the tracker accepted it
		}
		var all []ann
		for ti, ts := range []*HTTPTrackerSrv{t1, t2, nil, t4} {
			if ts == nil {
				continue
			}
			for _, r := range ts.Requests() {
				port, _ := strconv.Atoi(r.Query.Get("port"))
				left, _ := strconv.ParseInt(r.Query.Get("left"), 10, 64)
				ev := r.Query.Get("event")
				all = append(all, ann{fmt.Sprintf("http%d", ti+1), r.Step, ev, r.Query.Get("peer_id"), r.Query.Get("info_hash"), port, left, ts.Fail == ""})
			}
		}
		evName := map[int32]string{0: "", 1: "completed", 2: "started", 3: "stopped"}
		for _, a := range t3.Announce {
			all = append(all, ann{"udp", a.Step, evName[a.Event], string(a.PeerID[:]), string(a.InfoHash[:]), int(a.Port), a.Left, true})
			if !a.ConnIDOK {
				w.Failf("C15.udp.connection-id", "UDP announce carries connection id %x, the tracker handed out another", a.ConnID)
			}
		}
		if len(all) == 0 {
			core.HarnessError("c15: no announce was seen")
		}
		for _, a := range all {
			if a.peerID != string(vs.PeerID[:]) {
				w.Failf("C15.peer-id."+a.trk[:3], "announce to %s carries peer id %q, the torrent's peer id is %q", a.trk, a.peerID, vs.PeerID[:])
			}
			if p1.GotHS && a.peerID != string(p1.ClientHS.PeerID[:]) {
				w.Failf("C15.peer-id-vs-handshake."+a.trk[:3], "announce to %s carries peer id %q but the peer handshake presented %q", a.trk, a.peerID, p1.ClientHS.PeerID[:])
			}
			if a.ih != string(g.InfoHash[:]) {
				w.Failf("C15.info-hash."+a.trk[:3], "announce to %s carries info-hash %x", a.trk, a.ih)
			}
			if a.port != vs.Port {
				w.Failf("C15.port."+a.trk[:3], "announce to %s carries port %d, the torrent listens on %d", a.trk, a.port, vs.Port)
			}
			if a.left == 4294967295 && noBitfield[a.step] {
				// the client does not know yet what it has: it reports the largest 32-bit value as a placeholder
				w.Count("announces_with_left_unknown", 1)
			} else if a.left < 0 || a.left > int64(len(g.Data)) {
				w.Failf("C15.left."+a.trk[:3], "announce to %s carries left=%d (torrent length %d)", a.trk, a.left, len(g.Data))
			}
			if a.event == "completed" && a.left != 0 {
				w.Failf("C15.completed-left."+a.trk[:3], "'completed' announce to %s carries left=%d", a.trk, a.left)
			}
		}
		// a client that has told a tracker how much is left knows it for the rest of that run: the placeholder after a
		// real value (within one run, towards one tracker) is a wrong counter, whatever the client's own bookkeeping says
		for _, trk := range []string{"http1", "http2", "udp", "http4"} {
			known := false
			for _, a := range all {
				if a.trk != trk {
					continue
				}
				if a.event == "started" {
					known = false
				}
				if a.left != 4294967295 {
					known = true
				} else if known {
					w.Failf("C15.left-unknown-after-known."+trk[:3], "announce (event %q) to %s at step %d carries the placeholder left=4294967295 although an earlier announce of the same run carried the real value", a.event, trk, a.step)
				}
			}
		}
		// event discipline per tracker and run
		// no announce other than 'stopped' is made while no run is in progress
		for _, a := range all {
			if a.event != "stopped" && notRunning[a.step] {
				w.Failf("C15.announce-outside-run."+a.trk[:3], "announce with event %q reached %s at step %d while the torrent was stopping or stopped (no run in progress)", a.event, a.trk, a.step)
			}
		}
		for _, trk := range []string{"http1", "http2", "udp", "http4"} {
			accepted := false
			completedSent := 0
			for ri, run := range runs {
				end := 1 << 30
				if ri+1 < len(runs) {
					end = runs[ri+1].startStep
				}
				first := true
				startedSent := 0
				for _, a := range all {
					if a.trk != trk || a.step < run.startStep || a.step >= end {
						continue
					}
					if a.event == "started" {
						startedSent++
						if startedSent == 2 {
							w.Failf("C15.started-twice."+trk[:3], "'started' sent twice to %s within run %d", trk, ri)
						}
					}
					if a.event == "stopped" {
						if !accepted {
							w.Failf("C15.stopped-without-accept."+trk[:3], "'stopped' was sent to %s although it never accepted an announce of this torrent", trk)
						}
						continue
					}
					if first && a.event != "started" && trk != "http4" { // a tracker added in mid-run: see announce-outside-run
						w.Failf("C15.first-not-started."+trk[:3], "first announce of run %d to %s has event %q, not 'started'", ri, trk, a.event)
					}
					first = false
					if a.event == "completed" {
						completedSent++
						if completedAt < 0 || a.step < completedAt-1 || completedAt < run.startStep { // Check runs after the step counter moved on
							w.Failf("C15.completed-not-in-run."+trk[:3], "'completed' sent to %s in run %d but the download did not finish during that run (finished at step %d, run started at %d)", trk, ri, completedAt, run.startStep)
						}
					}
					if a.ok {
						accepted = true
					}
				}
			}
			if completedSent > 1 {
				w.Failf("C15.completed-twice."+trk[:3], "'completed' sent %d times to %s", completedSent, trk)
			}
			if arg.Seeded && completedSent > 0 {
				w.Failf("C15.completed-when-already-complete."+trk[:3], "'completed' sent to %s although the data was complete before the first start", trk)
			}
		}
		w.Count("announces_seen", int64(len(all)))
		w.Count("udp_announces_seen", int64(len(t3.Announce)))
	}
	sc.Outcome = func(w *World) string { return w.Tor.VerifState().Status }
	return sc
}

func TestC15Lab(t *testing.T) {
	ServeIfWorker(t)
	rep := core.NewReport("C15", "lab-announce", "model_checking")
	rep.Rule = "one torrent (from a .torrent, or from a magnet link with the trackers in tr=) with three tiers (HTTP accepting, HTTP refusing, UDP) run through start -> download from a scripted seed -> complete -> stop -> start -> stop, with the accepting HTTP tracker optionally holding its replies; default schedule plus every single deviation (reordered deliveries, script items issued early, held replies released late, AddTracker of a fourth tracker at any moment incl. while stopping); independent HTTP query / BEP 15 decoders compare every announce with the handshake peer id, info-hash, port, counters and the event discipline"
	rep.Assumptions = []string{"interval discipline is the component-level part (virtual-time announcer enumeration)"}
	var runs []Run
	for _, seeded := range []bool{false, true} {
		for _, hold := range []bool{false, true} {
			runs = append(runs, Run{Scenario: "c15", Arg: c15Arg{Seeded: seeded, Hold: hold}, Budget: 1, MaxExec: 100000})
		}
	}
	runs = append(runs, Run{Scenario: "c15", Arg: c15Arg{Magnet: true}, Budget: 1, MaxExec: 100000})
	Explore("TestC15Lab", rep, runs)
	if n, _ := rep.Extra["udp_announces_seen"].(int64); n == 0 {
		rep.Vacuous("vacuous: no UDP announce reached the scripted tracker")
	}
	rep.Finish()
}

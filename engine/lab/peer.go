//go:build verif

package lab

import (
	"fmt"
	"net"

	"github.com/cenkalti/rain/v2/zzverif/refcodec"
	"github.com/cenkalti/rain/v2/zzverif/vnet"
)

// Peer is a scripted remote peer: a passive object driven by explorer actions. It owns the lab end of
// an in-memory connection, decodes everything the client sends with the reference codec, and offers
// helpers to send protocol messages (honest or hostile).
type Peer struct {
	W       *World
	Name    string
	Addr    *net.TCPAddr
	ID      [20]byte
	Conn    *vnet.End
	Ext     bool // advertise extension protocol
	Fast    bool // advertise fast extension
	DHT     bool
	Incoming bool // we connected to the client (client side: incoming)

	raw         []byte // undecoded tail
	GotHS       bool
	ClientHS    refcodec.HandshakeMsg
	Inbox       []refcodec.Msg // every frame the client sent, in order
	seen        int            // Inbox entries already processed by Process
	ClientHave  map[uint32]bool
	HaveAll     bool
	Interested  bool
	ClientChoke bool // client is choking us (initially true)
	Requests    []Req // outstanding requests from the client (not yet answered / cancelled)
	Rejected    []Req
	PieceMsgs   []refcodec.Msg // piece messages received from the client (upload checks)
	SentHS      bool
	Announced   bool // sent bitfield/unchoke
	ClosedSeen  bool
	ClaimLog    []Claim
	AllowedFast map[uint32]bool // pieces the client granted us as allowed-fast
	replyHS     *[20]byte // outgoing connection from the client: answer its handshake with this info-hash
	wrote       bool
}

type Req struct{ Index, Begin, Length uint32 }

// Claim records the moment the client told this peer it has a piece.
type Claim struct {
	Step  int
	Piece int // -1 = all
	Kind  string
}

func (w *World) NewPeer(name string, ip string, port int) *Peer {
	p := &Peer{W: w, Name: name, Addr: &net.TCPAddr{IP: net.ParseIP(ip), Port: port}, ClientHave: map[uint32]bool{}, ClientChoke: true, Ext: false, Fast: false}
	copy(p.ID[:], fmt.Sprintf("-LB0001-%012s", name))
	w.Peers = append(w.Peers, p)
	return p
}

// ConnectIn dials the client's listener (incoming connection from the client's point of view) and sends our handshake.
func (p *Peer) ConnectIn(port int, infoHash [20]byte) error {
	c, err := vnet.W.Connect(port, p.Addr)
	if err != nil {
		return err
	}
	p.reset()
	p.Conn = c
	p.Incoming = true
	p.SendRaw(refcodec.Handshake(infoHash, p.ID, refcodec.ReservedBits(p.Ext, p.Fast, p.DHT)))
	p.SentHS = true
	return nil
}

func (p *Peer) reset() {
	p.raw, p.GotHS, p.Inbox, p.seen = nil, false, nil, 0
	p.ClientHave, p.HaveAll, p.Interested, p.ClientChoke = map[uint32]bool{}, false, false, true
	p.Requests, p.Rejected, p.PieceMsgs, p.SentHS, p.Announced, p.ClosedSeen = nil, nil, nil, false, false, false
	p.AllowedFast = nil
}

func (p *Peer) SendRaw(b []byte) {
	if p.Conn != nil {
		p.Conn.Write(b)
		p.wrote = true
	}
}

func (p *Peer) Send(m refcodec.Msg) { p.SendRaw(m.Encode()) }

func (p *Peer) Close() {
	if p.Conn != nil {
		p.Conn.Close()
	}
}

// Connected: we have a connection the client has not closed.
func (p *Peer) Connected() bool { return p.Conn != nil && !p.Conn.LocalClosed() && !p.Conn.RemoteClosed() }

// Process drains the connection and updates the peer's view of the client. Called after every step.
func (p *Peer) Process() {
	if p.Conn == nil {
		return
	}
	p.raw = append(p.raw, p.Conn.Drain()...)
	if !p.GotHS {
		if len(p.raw) < 68 {
			if p.Conn.RemoteClosed() {
				p.ClosedSeen = true
			}
			return
		}
		hs, ok := refcodec.ParseHandshake(p.raw[:68])
		if !ok {
			p.W.Failf("lab.peer.badhandshake", "client sent a malformed handshake to %s: %x", p.Name, p.raw[:68])
			return
		}
		p.ClientHS = hs
		p.GotHS = true
		p.raw = p.raw[68:]
		if p.replyHS != nil && !p.SentHS {
			p.SendRaw(refcodec.Handshake(*p.replyHS, p.ID, refcodec.ReservedBits(p.Ext, p.Fast, p.DHT)))
			p.SentHS = true
		}
	}
	msgs, rest := refcodec.ParseStream(p.raw)
	p.raw = append([]byte{}, rest...)
	p.Inbox = append(p.Inbox, msgs...)
	for ; p.seen < len(p.Inbox); p.seen++ {
		m := p.Inbox[p.seen]
		switch m.ID {
		case refcodec.MsgBitfield:
			for i := 0; i < len(m.Body)*8; i++ {
				if m.Body[i/8]&(0x80>>(i%8)) != 0 {
					p.ClientHave[uint32(i)] = true
					p.ClaimLog = append(p.ClaimLog, Claim{p.W.Step, i, "bitfield"})
				}
			}
		case refcodec.MsgHave:
			p.ClientHave[m.Index()] = true
			p.ClaimLog = append(p.ClaimLog, Claim{p.W.Step, int(m.Index()), "have"})
		case refcodec.MsgHaveAll:
			p.HaveAll = true
			p.ClaimLog = append(p.ClaimLog, Claim{p.W.Step, -1, "haveall"})
		case refcodec.MsgInterested:
			p.Interested = true
		case refcodec.MsgNotInterested:
			p.Interested = false
		case refcodec.MsgChoke:
			p.ClientChoke = true
		case refcodec.MsgUnchoke:
			p.ClientChoke = false
		case refcodec.MsgRequest:
			p.Requests = append(p.Requests, Req{m.Index(), m.Begin(), m.Length()})
		case refcodec.MsgCancel:
			r := Req{m.Index(), m.Begin(), m.Length()}
			for i, q := range p.Requests {
				if q == r {
					p.Requests = append(p.Requests[:i:i], p.Requests[i+1:]...)
					break
				}
			}
		case refcodec.MsgReject:
			p.Rejected = append(p.Rejected, Req{m.Index(), m.Begin(), m.Length()})
		case refcodec.MsgPiece:
			p.PieceMsgs = append(p.PieceMsgs, m)
		case refcodec.MsgAllowedFast:
			if p.AllowedFast == nil {
				p.AllowedFast = map[uint32]bool{}
			}
			p.AllowedFast[m.Index()] = true
		}
	}
	if p.Conn.RemoteClosed() {
		p.ClosedSeen = true
	}
}

// Serve answers request r with the ground-truth bytes (or mutated by corrupt).
func (p *Peer) Serve(g *GenTorrent, r Req, corrupt bool) {
	off := int(r.Index)*g.L.PieceLen + int(r.Begin)
	if off < 0 || off+int(r.Length) > len(g.Data) {
		return
	}
	d := append([]byte{}, g.Data[off:off+int(r.Length)]...)
	if corrupt && len(d) > 0 {
		d[len(d)/2] ^= 0x5a
	}
	p.Send(refcodec.Piece(r.Index, r.Begin, d))
}

// PopRequest removes and returns the oldest outstanding request.
func (p *Peer) PopRequest() (Req, bool) {
	if len(p.Requests) == 0 {
		return Req{}, false
	}
	r := p.Requests[0]
	p.Requests = p.Requests[1:]
	return r, true
}

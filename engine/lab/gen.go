//go:build verif

package lab

import (
	"crypto/sha1"
	"fmt"

	"github.com/cenkalti/rain/v2/zzverif/refcodec"
)

// FileSpec / Layout describe a generated torrent; G is the ground-truth content.
type FileSpec struct {
	Name string
	Len  int
	Pad  bool
}

type Layout struct {
	Name     string
	Files    []FileSpec // one entry without multi => single-file torrent
	Single   bool
	PieceLen int
	Private  any // nil = key absent; otherwise the value encoded under "private"
	Trackers [][]string
	Webseeds []string
	Salt     int // varies the generated content (two torrents of one layout with different data)
}

// GenTorrent is a generated torrent with its ground truth.
type GenTorrent struct {
	L         Layout
	Data      []byte   // concatenation of all files (padding = zeros)
	FileData  [][]byte // per file
	FileStart []int
	InfoBytes []byte
	InfoHash  [20]byte
	MetaInfo  []byte // .torrent bytes
	NumPieces int
	Hashes    [][20]byte
}

func pattern(i, salt int) byte { return byte(1 + (i*7+i/251+salt*31)%250) }

// Gen builds content, piece hashes, info dictionary and .torrent with the harness's own encoder.
func Gen(l Layout) *GenTorrent {
	g := &GenTorrent{L: l}
	off := 0
	for fi, f := range l.Files {
		b := make([]byte, f.Len)
		if !f.Pad {
			for k := range b {
				b[k] = pattern(off+k, fi+l.Salt)
			}
		}
		g.FileStart = append(g.FileStart, off)
		g.FileData = append(g.FileData, b)
		g.Data = append(g.Data, b...)
		off += f.Len
	}
	var pieces []byte
	for o := 0; o < len(g.Data); o += l.PieceLen {
		e := min(o+l.PieceLen, len(g.Data))
		h := sha1.Sum(g.Data[o:e])
		g.Hashes = append(g.Hashes, h)
		pieces = append(pieces, h[:]...)
	}
	g.NumPieces = len(g.Hashes)
	info := refcodec.D("name", l.Name, "piece length", int64(l.PieceLen), "pieces", pieces)
	if l.Single {
		info.Set("length", int64(l.Files[0].Len))
	} else {
		var files []any
		for _, f := range l.Files {
			d := refcodec.D("length", int64(f.Len), "path", []string{f.Name})
			if f.Pad {
				d.Set("attr", "p")
			}
			files = append(files, d)
		}
		info.Set("files", files)
	}
	if l.Private != nil {
		info.Set("private", l.Private)
	}
	g.InfoBytes = refcodec.Benc(info)
	g.InfoHash = sha1.Sum(g.InfoBytes)
	mi := refcodec.D("info", refcodec.Raw(g.InfoBytes))
	if len(l.Trackers) > 0 {
		mi.Set("announce", l.Trackers[0][0])
		mi.Set("announce-list", l.Trackers)
	}
	if len(l.Webseeds) > 0 {
		mi.Set("url-list", l.Webseeds)
	}
	g.MetaInfo = refcodec.Benc(mi)
	return g
}

// PieceBytes returns the ground-truth bytes of piece i.
func (g *GenTorrent) PieceBytes(i int) []byte {
	o := i * g.L.PieceLen
	return g.Data[o:min(o+g.L.PieceLen, len(g.Data))]
}

// StoragePath is the path rain gives to Storage.Open for file fi.
func (g *GenTorrent) StoragePath(fi int) string {
	if g.L.Single {
		return g.L.Name
	}
	return g.L.Name + "/" + g.L.Files[fi].Name
}

// AllBitfield is the wire bitfield with every piece set.
func (g *GenTorrent) AllBitfield() []byte {
	b := make([]byte, (g.NumPieces+7)/8)
	for i := 0; i < g.NumPieces; i++ {
		b[i/8] |= 0x80 >> (i % 8)
	}
	return b
}

// Std layouts used by several checks.
func LayoutSingle(pl, n int) Layout {
	return Layout{Name: "f.bin", Single: true, Files: []FileSpec{{"f.bin", n, false}}, PieceLen: pl}
}

func LayoutMulti(pl int, lens ...int) Layout {
	l := Layout{Name: "dir", PieceLen: pl}
	for i, n := range lens {
		pad := false
		if n < 0 {
			pad, n = true, -n
		}
		name := fmt.Sprintf("f%d", i)
		if pad {
			name = fmt.Sprintf(".pad%d", i)
		}
		l.Files = append(l.Files, FileSpec{name, n, pad})
	}
	return l
}

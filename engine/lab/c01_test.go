//go:build verif

package lab

import (
	"bytes"
	"encoding/json"
	"fmt"
	"testing"

	"github.com/cenkalti/rain/v2/zzverif/core"
	"github.com/cenkalti/rain/v2/zzverif/refcodec"
)

// C01 — download integrity. Two scripted peers (honest by default) feed a leeching torrent; every
// adversarial answer, duplicate, reordering, in-flight write, stop/start is a deviation.

type c01Arg struct {
	Layout int  `json:"layout"`
	Gate   bool `json:"gate"`  // piece writes are held until the explorer releases them
	Cache1 bool `json:"cache"` // write cache of a single piece
}

var c01Layouts = []Layout{
	LayoutSingle(32768, 3*32768+1000),
	LayoutMulti(32768, 20000, -12768, 40000), // file, BEP-47 pad up to the piece boundary, file
}

func init() { Register("c01", mkC01) }

// integrityCheck holds the oracles shared by C01/C10/C04-style scenarios (I1..I3).
func integrityCheck(w *World, prop string) {
	id := w.Tor.ID()
	// I1: every byte written into the torrent's files equals the ground truth at that position
	from, _ := w.Vars["oplog"].(int)
	ops := w.Store.OpsSince(from)
	w.Vars["oplog"] = from + len(ops)
	for _, op := range ops {
		if op.Kind != "write" || op.Err != "" || op.Tor != id {
			continue
		}
		w.Count("writes", 1)
		ok := false
		for fi := range w.G.L.Files {
			if w.G.StoragePath(fi) == op.File {
				fd := w.G.FileData[fi]
				ok = int(op.Off)+len(op.Data) <= len(fd) && bytes.Equal(op.Data, fd[op.Off:int(op.Off)+len(op.Data)])
			}
		}
		if !ok {
			w.Failf(prop+".write-not-truth", "bytes written to %s at offset %d (len %d) differ from the content the metainfo describes", op.File, op.Off, len(op.Data))
		}
	}
	// I2: every claimed piece is completely on disk at the moment of the claim
	s := w.Tor.VerifState()
	claimed := func(src string, i int) {
		if !w.PieceOnDisk(i) {
			w.Failf(prop+".claim-without-data."+src, "piece %d is claimed via %s but its verified content is not in the files", i, src)
		}
	}
	if s.HasBitfield {
		for i := 0; i < w.G.NumPieces; i++ {
			if s.Bitfield[i/8]&(0x80>>(i%8)) != 0 {
				claimed("stats", i)
			}
		}
	}
	if rb := w.S.VerifResumeBitfield(id); len(rb) > 0 {
		for i := 0; i < w.G.NumPieces && i/8 < len(rb); i++ {
			if rb[i/8]&(0x80>>(i%8)) != 0 {
				claimed("resume-db", i)
			}
		}
	}
	for _, p := range w.Peers {
		seen, _ := w.Vars["claims:"+p.Name].(int)
		for _, c := range p.ClaimLog[min(seen, len(p.ClaimLog)):] {
			if c.Piece < 0 {
				for i := 0; i < w.G.NumPieces; i++ {
					claimed("peer-"+c.Kind, i)
				}
			} else if c.Piece < w.G.NumPieces {
				claimed("peer-"+c.Kind, c.Piece)
			} else {
				w.Failf(prop+".claim-out-of-range", "client announced piece %d of %d to peer %s", c.Piece, w.G.NumPieces, p.Name)
			}
		}
		w.Vars["claims:"+p.Name] = len(p.ClaimLog)
	}
	// I3: completion => byte-identical files
	if s.Status == "Seeding" || s.CompleteClosed {
		if ok, why := w.FilesEqualTruth(); !ok {
			w.Failf(prop+".complete-but-different", "torrent reports completion (status %s) but %s", s.Status, why)
		}
	}
}

func mkC01() *Scenario {
	sc := &Scenario{Name: "c01", Horizon: 400}
	var arg c01Arg
	var p1, p2 *Peer
	lastServed := map[string]Req{}
	sc.Setup = func(w *World) {
		json.Unmarshal(w.Arg, &arg)
		g := Gen(c01Layouts[arg.Layout])
		if arg.Cache1 {
			w.Cfg.WriteCacheSize = int64(g.L.PieceLen)
		}
		w.OpenSession()
		w.AddTorrent(g, nil)
		w.Store.GateWrites = arg.Gate
		p1 = w.NewPeer("p1", "10.0.0.1", 5001)
		p2 = w.NewPeer("p2", "10.0.0.2", 5002)
		connect := func(p *Peer) func(w *World) {
			return func(w *World) {
				if err := p.ConnectIn(w.Tor.VerifState().Port, g.InfoHash); err != nil {
					w.Failf("lab.connect", "connect refused: %v", err)
				}
			}
		}
		o := &StdOpts{
			Behaviour:   map[string]*PeerBehaviour{"p1": {Honest: true}, "p2": {Honest: true}},
			EarlyScript: false,
			Script: []*ScriptItem{
				{Label: "start", Do: func(w *World) { w.CmdStart() }},
				{Label: "connect p1", When: func(w *World) bool { return w.Listening() }, Do: connect(p1)},
				{Label: "connect p2", When: func(w *World) bool { return w.Listening() }, Do: connect(p2)},
			},
		}
		o.Extra = func(w *World) []Action {
			var a []Action
			for _, p := range []*Peer{p1, p2} {
				p := p
				if !p.Connected() || !p.Announced {
					continue
				}
				if len(p.Requests) > 0 {
					a = append(a, Action{Label: "adv:" + p.Name + ":corrupt", Do: func(w *World) {
						if r, ok := p.PopRequest(); ok {
							p.Serve(w.G, r, true)
							lastServed[p.Name] = r
							w.Vars["corrupt:"+p.Name] = true
							w.Count("corrupt_blocks", 1)
						}
					}})
					a = append(a, Action{Label: "adv:" + p.Name + ":short", Do: func(w *World) {
						if r, ok := p.PopRequest(); ok && r.Length > 1 {
							off := int(r.Index)*w.G.L.PieceLen + int(r.Begin)
							p.Send(refcodec.Piece(r.Index, r.Begin, w.G.Data[off:off+int(r.Length)-1]))
						}
					}})
					a = append(a, Action{Label: "adv:" + p.Name + ":wrongbegin", Do: func(w *World) {
						if r, ok := p.PopRequest(); ok {
							off := int(r.Index)*w.G.L.PieceLen + int(r.Begin)
							p.Send(refcodec.Piece(r.Index, r.Begin+1, w.G.Data[off:off+int(r.Length)]))
						}
					}})
					a = append(a, Action{Label: "adv:" + p.Name + ":last-request-first", Do: func(w *World) {
						if n := len(p.Requests); n > 1 {
							r := p.Requests[n-1]
							p.Requests = p.Requests[:n-1]
							p.Serve(w.G, r, false)
							lastServed[p.Name] = r
						}
					}})
				}
				if r, ok := lastServed[p.Name]; ok {
					a = append(a, Action{Label: "adv:" + p.Name + ":duplicate", Do: func(w *World) { p.Serve(w.G, r, false) }})
				}
				a = append(a, Action{Label: "adv:" + p.Name + ":unrequested", Do: func(w *World) {
					// a well-formed block nobody asked for: last block position of the last piece
					i := uint32(w.G.NumPieces - 1)
					p.Serve(w.G, Req{i, 0, uint32(min(16384, len(w.G.PieceBytes(int(i)))))}, false)
				}})
				a = append(a, Action{Label: "adv:" + p.Name + ":badindex", Do: func(w *World) {
					p.Send(refcodec.Piece(uint32(w.G.NumPieces), 0, make([]byte, 16384)))
				}})
				a = append(a, Action{Label: "adv:" + p.Name + ":choke", Do: func(w *World) { p.Send(refcodec.Simple(refcodec.MsgChoke)); p.Requests = nil }})
				a = append(a, Action{Label: "adv:" + p.Name + ":unchoke", Do: func(w *World) { p.Send(refcodec.Simple(refcodec.MsgUnchoke)) }})
				a = append(a, Action{Label: "adv:" + p.Name + ":disconnect", Do: func(w *World) { p.Close() }})
			}
			for k, op := range w.Store.PendingOps() {
				k := k
				a = append(a, Action{Label: "adv:storage-fail:" + op, Do: func(w *World) { w.Store.Release(k, errInjected) }})
			}
			a = append(a, Action{Label: "adv:stop", Do: func(w *World) { w.CmdStop() }})
			a = append(a, Action{Label: "adv:start", Do: func(w *World) { w.CmdStart() }})
			a = append(a, Action{Label: "adv:resume-tick", Do: func(w *World) { w.S.VerifUpdateStats() }})
			return a
		}
		w.Vars["std"] = o
	}
	sc.Actions = StdActions
	sc.Check = func(w *World) {
		integrityCheck(w, "C01")
		// I4: a peer whose piece failed the hash check is disconnected and not reused
		s := w.Tor.VerifState()
		for _, p := range []*Peer{p1, p2} {
			banned := false
			for _, ip := range s.BannedIPs {
				if ip == p.Addr.IP.String() {
					banned = true
				}
			}
			if banned {
				w.Count("bans", 1)
				if p.Connected() {
					w.Failf("C01.banned-still-connected", "peer %s supplied a piece that failed the hash check but its connection is still open", p.Name)
				}
			}
		}
	}
	sc.Final = func(w *World) {
		s := w.Tor.VerifState()
		// after a ban: a reconnect from that IP is closed before any handshake reply, and the address is never dialled
		for _, p := range []*Peer{p1, p2} {
			for _, ip := range s.BannedIPs {
				if ip == p.Addr.IP.String() && s.HasAcceptor {
					if err := p.ConnectIn(s.Port, w.G.InfoHash); err == nil {
						w.drain(20)
						if p.GotHS || !p.ClosedSeen {
							w.Failf("C01.banned-reaccepted", "banned peer %s reconnected and the client answered the handshake (got handshake=%v closed=%v)", p.Name, p.GotHS, p.ClosedSeen)
						}
						w.Count("ban_reconnects_checked", 1)
					}
				}
			}
		}
		integrityCheck(w, "C01")
	}
	sc.Outcome = func(w *World) string {
		s := w.Tor.VerifState()
		return fmt.Sprintf("%s/banned=%d", s.Status, len(s.BannedIPs))
	}
	return sc
}

func TestC01(t *testing.T) {
	ServeIfWorker(t)
	rep := core.NewReport("C01", "lab-integrity", "model_checking")
	rep.Rule = "two scripted peers feeding a leeching torrent on the real event loop; default = honest eager schedule; deviations = corrupt/short/misplaced/duplicate/unrequested/out-of-range block, reordered answers, choke/unchoke, disconnect, held or failing piece write, stop/start, resume tick, younger event before older; all executions with <= bound deviations"
	rep.Assumptions = []string{"SHA-1 collisions outside the alphabet", "handlers atomic (loop ownership; C20)", "block payload corruption modelled by one flipped byte"}
	budget := 1
	var runs []Run
	for li := range c01Layouts {
		for _, gate := range []bool{false, true} {
			runs = append(runs, Run{Scenario: "c01", Arg: c01Arg{Layout: li, Gate: gate}, Budget: budget, MaxExec: 300000})
		}
	}
	runs = append(runs, Run{Scenario: "c01", Arg: c01Arg{Layout: 0, Cache1: true}, Budget: budget, MaxExec: 300000})
	if core.Thorough() {
		runs = append(runs, Run{Scenario: "c01", Arg: c01Arg{Layout: 0, Gate: true}, Budget: 2, MaxExec: 400000})
	}
	Explore("TestC01", rep, runs)
	if b, _ := rep.Extra["bans"].(int64); b == 0 {
		core.HarnessError("vacuous: no execution reached a hash failure / ban")
	}
	rep.Finish()
}

//go:build verif

package lab

import (
	"strings"
	"bytes"
	"encoding/json"
	"fmt"
	"testing"
	"time"

	"github.com/cenkalti/rain/v2/zzverif/core"
	"github.com/cenkalti/rain/v2/zzverif/refcodec"
	"github.com/cenkalti/rain/v2/zzverif/vnet"
	"github.com/cenkalti/rain/v2/zzverif/vpool"
)

// C01 — download integrity. Two scripted peers (honest by default) feed a leeching torrent; every
// adversarial answer, duplicate, reordering, in-flight write, stop/start is a deviation.

type c01Arg struct {
	Layout int  `json:"layout"`
	Gate   bool `json:"gate"`  // piece writes are held until the explorer releases them
	Cache1 bool `json:"cache"` // write cache of a single piece
	Web    bool `json:"web"`   // a web seed (BEP 19) is a second source next to peer p1; p2 stays away
}

var c01Layouts = []Layout{
	LayoutSingle(32768, 3*32768+1000),
	LayoutMulti(32768, 20000, -12768, 40000), // file, BEP-47 pad up to the piece boundary, file
	LayoutSingle(16384, 6*16384+100),         // 7 single-block pieces: several web seed ranges
	LayoutMulti(16384, 2*16384, 3*16384+7),   // two files: one web seed request per file
	LayoutMulti(32768, 10000, -5000, 40000),  // padding in the middle of a piece: file | pad | file inside piece 0
}

func init() { Register("c01", mkC01) }

// integrityCheck holds the oracles shared by C01/C10/C04-style scenarios (I1..I3).
func integrityCheck(w *World, prop string) {
	id := w.Tor.ID()
	// I1: every byte written into the torrent's files equals the ground truth at that position
	from, _ := w.Vars["oplog"].(int)
	ops := w.Store.OpsSince(from)
	w.Vars["oplog"] = from + len(ops)
	for _, op := range ops {
		if op.Kind != "write" || op.Err != "" || op.Tor != id {
			continue
		}
		w.Count("writes", 1)
		ok := false
		for fi := range w.G.L.Files {
			if w.G.StoragePath(fi) == op.File {
				fd := w.G.FileData[fi]
				ok = int(op.Off)+len(op.Data) <= len(fd) && bytes.Equal(op.Data, fd[op.Off:int(op.Off)+len(op.Data)])
			}
		}
		if !ok {
			w.Failf(prop+".write-not-truth", "bytes written to %s at offset %d (len %d) differ from the content the metainfo describes", op.File, op.Off, len(op.Data))
		}
	}
	// I2: every claimed piece is completely on disk at the moment of the claim
	s := w.Tor.VerifState()
	claimed := func(src string, i int) {
		if !w.PieceOnDisk(i) {
			w.Failf(prop+".claim-without-data."+src, "piece %d is claimed via %s but its verified content is not in the files", i, src)
		}
	}
	if s.HasBitfield {
		for i := 0; i < w.G.NumPieces; i++ {
			if s.Bitfield[i/8]&(0x80>>(i%8)) != 0 {
				claimed("stats", i)
			}
		}
	}
	if rb := w.S.VerifResumeBitfield(id); len(rb) > 0 {
		for i := 0; i < w.G.NumPieces && i/8 < len(rb); i++ {
			if rb[i/8]&(0x80>>(i%8)) != 0 {
				claimed("resume-db", i)
			}
		}
	}
	for _, p := range w.Peers {
		seen, _ := w.Vars["claims:"+p.Name].(int)
		for _, c := range p.ClaimLog[min(seen, len(p.ClaimLog)):] {
			if c.Piece < 0 {
				for i := 0; i < w.G.NumPieces; i++ {
					claimed("peer-"+c.Kind, i)
				}
			} else if c.Piece < w.G.NumPieces {
				claimed("peer-"+c.Kind, c.Piece)
			} else {
				w.Failf(prop+".claim-out-of-range", "client announced piece %d of %d to peer %s", c.Piece, w.G.NumPieces, p.Name)
			}
		}
		w.Vars["claims:"+p.Name] = len(p.ClaimLog)
	}
	// I3: completion => byte-identical files
	if s.Status == "Seeding" || s.CompleteClosed {
		if ok, why := w.FilesEqualTruth(); !ok {
			w.Failf(prop+".complete-but-different", "torrent reports completion (status %s) but %s", s.Status, why)
		}
	}
}

func mkC01() *Scenario {
	sc := &Scenario{Name: "c01", Horizon: 400}
	var arg c01Arg
	var p1, p2 *Peer
	var ws *WebSeed
	lastServed := map[string]Req{}
	sc.Setup = func(w *World) {
		json.Unmarshal(w.Arg, &arg)
		vpool.Gate = arg.Web
		lay := c01Layouts[arg.Layout]
		if arg.Web {
			lay.Webseeds = []string{"http://10.9.9.9/ws/"}
			w.Cfg.WebseedRetryInterval = time.Minute
		}
		g := Gen(lay)
		if arg.Cache1 {
			w.Cfg.WriteCacheSize = int64(g.L.PieceLen)
		}
		w.OpenSession()
		w.AddTorrent(g, nil)
		w.Store.GateWrites = arg.Gate
		p1 = w.NewPeer("p1", "10.0.0.1", 5001)
		p2 = w.NewPeer("p2", "10.0.0.2", 5002)
		if arg.Web {
			ws = w.NewWebSeed("10.9.9.9", g)
		}
		connect := func(p *Peer) func(w *World) {
			return func(w *World) {
				if err := p.ConnectIn(w.Tor.VerifState().Port, g.InfoHash); err != nil {
					w.Failf("lab.connect", "connect refused: %v", err)
				}
			}
		}
		o := &StdOpts{
			Behaviour:   map[string]*PeerBehaviour{"p1": {Honest: true}, "p2": {Honest: true}},
			EarlyScript: false,
			Script: []*ScriptItem{
				{Label: "start", Do: func(w *World) { w.CmdStart() }},
				{Label: "connect p1", When: func(w *World) bool { return w.Listening() }, Do: connect(p1)},
			},
		}
		if arg.Web {
			o.EarlyScript = true // p1 joins while the web seed is already streaming
		} else {
			// both peers join together: a script item of its own would connect p2 only after p1 has served
			// everything, and every deviation of p2 would be vacuous
			o.Script[1].Label = "connect p1+p2"
			o.Script[1].Do = func(w *World) { connect(p1)(w); connect(p2)(w) }
		}
		o.Extra = func(w *World) []Action {
			var a []Action
			for _, p := range []*Peer{p1, p2} {
				p := p
				if !p.Connected() || !p.Announced {
					continue
				}
				if len(p.Requests) > 0 {
					a = append(a, Action{Label: "adv:" + p.Name + ":corrupt", Do: func(w *World) {
						if r, ok := p.PopRequest(); ok {
							p.Serve(w.G, r, true)
							lastServed[p.Name] = r
							w.Vars["corrupt:"+p.Name] = true
							w.Count("corrupt_blocks", 1)
							w.Count("corrupt_blocks_"+p.Name, 1)
						}
					}})
					a = append(a, Action{Label: "adv:" + p.Name + ":short", Do: func(w *World) {
						if r, ok := p.PopRequest(); ok && r.Length > 1 {
							off := int(r.Index)*w.G.L.PieceLen + int(r.Begin)
							p.Send(refcodec.Piece(r.Index, r.Begin, w.G.Data[off:off+int(r.Length)-1]))
						}
					}})
					a = append(a, Action{Label: "adv:" + p.Name + ":wrongbegin", Do: func(w *World) {
						if r, ok := p.PopRequest(); ok {
							off := int(r.Index)*w.G.L.PieceLen + int(r.Begin)
							p.Send(refcodec.Piece(r.Index, r.Begin+1, w.G.Data[off:off+int(r.Length)]))
						}
					}})
					a = append(a, Action{Label: "adv:" + p.Name + ":last-request-first", Do: func(w *World) {
						if n := len(p.Requests); n > 1 {
							r := p.Requests[n-1]
							p.Requests = p.Requests[:n-1]
							p.Serve(w.G, r, false)
							lastServed[p.Name] = r
						}
					}})
				}
				if r, ok := lastServed[p.Name]; ok {
					a = append(a, Action{Label: "adv:" + p.Name + ":duplicate", Do: func(w *World) { p.Serve(w.G, r, false) }})
				}
				a = append(a, Action{Label: "adv:" + p.Name + ":unrequested", Do: func(w *World) {
					// a well-formed block nobody asked for: last block position of the last piece
					i := uint32(w.G.NumPieces - 1)
					p.Serve(w.G, Req{i, 0, uint32(min(16384, len(w.G.PieceBytes(int(i)))))}, false)
				}})
				a = append(a, Action{Label: "adv:" + p.Name + ":badindex", Do: func(w *World) {
					p.Send(refcodec.Piece(uint32(w.G.NumPieces), 0, make([]byte, 16384)))
				}})
				a = append(a, Action{Label: "adv:" + p.Name + ":choke", Do: func(w *World) { p.Send(refcodec.Simple(refcodec.MsgChoke)); p.Requests = nil }})
				a = append(a, Action{Label: "adv:" + p.Name + ":unchoke", Do: func(w *World) { p.Send(refcodec.Simple(refcodec.MsgUnchoke)) }})
				a = append(a, Action{Label: "adv:" + p.Name + ":disconnect", Do: func(w *World) { p.Close() }})
			}
			if ws != nil {
				a = append(a, Action{Label: "adv:web:corrupt", Do: func(w *World) { ws.SetMode("corrupt"); w.Count("web_corrupt", 1) }})
				a = append(a, Action{Label: "adv:web:ok", Do: func(w *World) { ws.SetMode("ok") }})
				a = append(a, Action{Label: "adv:web:500", Do: func(w *World) { ws.SetMode("500") }})
				a = append(a, Action{Label: "adv:web:drop", Do: func(w *World) { ws.SetMode("drop") }})
			}
			for k, op := range w.Store.PendingOps() {
				k := k
				a = append(a, Action{Label: "adv:storage-fail:" + op, Do: func(w *World) { w.Store.Release(k, errInjected) }})
			}
			a = append(a, Action{Label: "adv:stop", Do: func(w *World) { w.CmdStop() }})
			a = append(a, Action{Label: "adv:start", Do: func(w *World) { w.CmdStart() }})
			a = append(a, Action{Label: "adv:resume-tick", Do: func(w *World) { w.S.VerifUpdateStats() }})
			return a
		}
		w.Vars["std"] = o
	}
	// After the loop has received a failed hash check for a piece from p (only ever after a deviation),
	// the continuation re-offers p's address and then lets p reconnect while the torrent still downloads.
	sc.Actions = func(w *World) []Action {
		acts := StdActions(w)
		s := w.Tor.VerifState()
		if s.Status != "Downloading" || !s.HasAcceptor {
			return acts
		}
		for _, p := range []*Peer{p1, p2} {
			p := p
			if !c01HashFailed(w, p) || p.Connected() {
				continue
			}
			if w.Vars["reoffer:"+p.Name] == nil {
				return append([]Action{{Label: "script:re-offer " + p.Name, Do: func(w *World) {
					w.Vars["reoffer:"+p.Name] = fmt.Sprintf("%s:%d", p.Addr.IP, 6881)
					addr := w.Vars["reoffer:"+p.Name].(string)
					w.Launch("AddPeer", func() any { return w.Tor.AddPeer(addr) })
				}}}, acts...)
			}
			if w.Vars["reconnect:"+p.Name] == nil && len(acts) > 0 {
				return append([]Action{{Label: "script:reconnect " + p.Name, Do: func(w *World) {
					w.Vars["reconnect:"+p.Name] = true
					p.ConnectIn(s.Port, w.G.InfoHash)
				}}}, acts...)
			}
		}
		return acts
	}
	sc.Check = func(w *World) {
		integrityCheck(w, "C01")
		if ws != nil {
			// a web seed whose piece failed the hash check is not asked again
			for _, e := range w.Tor.VerifEvents() {
				if e.Kind == "hashfail" && strings.Contains(e.Source, "URLDownloader") {
					if at, ok := w.Vars["wsfail"].(int); !ok {
						w.Vars["wsfail"] = ws.NumRequests()
					} else if ws.NumRequests() > at+1 { // one request may have been on its way
						w.Failf("C01.webseed-reused", "a piece from the web seed failed the hash check, yet the web seed was sent %d more requests", ws.NumRequests()-at)
					}
					w.Count("webseed_hashfail_checks", 1)
				}
			}
		}
		for _, p := range []*Peer{p1, p2} {
			if addr, ok := w.Vars["reoffer:"+p.Name].(string); ok {
				for _, d := range vnet.W.DialLog() {
					if d.Addr == addr {
						w.Failf("C01.banned-dialled", "the client dialled %s, offered again after that peer's piece failed the hash check", d.Addr)
					}
				}
				w.Count("ban_redials_checked", 1)
			}
			if w.Vars["reconnect:"+p.Name] != nil {
				if p.GotHS {
					w.Failf("C01.banned-reaccepted", "peer %s, whose piece failed the hash check, reconnected and the client answered the handshake", p.Name)
				}
				w.Count("ban_reconnects_checked", 1)
			}
		}
		// I4: a peer whose piece failed the hash check is disconnected and not reused. Who failed is
		// observed at the loop's input (the piece writer result it received), never read from the ban list.
		for _, p := range []*Peer{p1, p2} {
			if c01HashFailed(w, p) {
				w.Count("bans", 1)
				if p.Connected() && w.Vars["reconnect:"+p.Name] == nil {
					w.Failf("C01.banned-still-connected", "peer %s supplied a piece that failed the hash check but its connection is still open", p.Name)
				}
			}
		}
	}
	sc.Final = func(w *World) {
		w.Count("piece_buffers_reused", int64(vpool.Reuses))
		s := w.Tor.VerifState()
		// after a hash failure: a reconnect from that IP is closed before any handshake reply, and the
		// address is not dialled when it is offered again
		for _, p := range []*Peer{p1, p2} {
			if !c01HashFailed(w, p) || !s.HasAcceptor {
				continue
			}
			if w.Vars["reconnect:"+p.Name] != nil {
				if p.Connected() && !p.ClosedSeen {
					w.Failf("C01.banned-reaccepted", "peer %s, whose piece failed the hash check, reconnected and the client keeps the connection open", p.Name)
				}
				continue
			}
			if err := p.ConnectIn(s.Port, w.G.InfoHash); err == nil {
				w.drain(20)
				if p.GotHS || !p.ClosedSeen {
					w.Failf("C01.banned-reaccepted", "peer %s, whose piece failed the hash check, reconnected and the client answered the handshake (got handshake=%v closed=%v)", p.Name, p.GotHS, p.ClosedSeen)
				}
				w.Count("ban_reconnects_checked", 1)
			}
		}
		integrityCheck(w, "C01")
	}
	sc.Outcome = func(w *World) string {
		s := w.Tor.VerifState()
		n := 0
		for _, p := range []*Peer{p1, p2} {
			if c01HashFailed(w, p) {
				n++
			}
		}
		return fmt.Sprintf("%s/hashfailed=%d", s.Status, n)
	}
	return sc
}

// c01HashFailed: did the loop receive a piece-writer result with a failed hash whose source is p?
func c01HashFailed(w *World, p *Peer) bool {
	for _, e := range w.Tor.VerifEvents() {
		if e.Kind == "hashfail" && e.Source == p.Addr.IP.String() {
			return true
		}
	}
	return false
}

func TestC01(t *testing.T) {
	ServeIfWorker(t)
	rep := core.NewReport("C01", "lab-integrity", "model_checking")
	rep.Rule = "two scripted peers, or one scripted peer and a scripted web seed, feeding a leeching torrent on the real event loop; buffer pool hands a released buffer out again at once (LIFO); default = honest eager schedule; deviations = corrupt/short/misplaced/duplicate/unrequested/out-of-range block, reordered answers, choke/unchoke, disconnect, held or failing piece write, stop/start, resume tick, younger event before older; all executions with <= bound deviations"
	rep.Assumptions = []string{"SHA-1 collisions outside the alphabet", "handlers atomic (loop ownership; C20)", "block payload corruption modelled by one flipped byte"}
	budget := 1
	var runs []Run
	for li := range c01Layouts {
		for _, gate := range []bool{false, true} {
			runs = append(runs, Run{Scenario: "c01", Arg: c01Arg{Layout: li, Gate: gate}, Budget: budget, MaxExec: 300000})
		}
	}
	runs = append(runs, Run{Scenario: "c01", Arg: c01Arg{Layout: 0, Cache1: true}, Budget: budget, MaxExec: 300000})
	for _, li := range []int{2, 3} {
		for _, gate := range []bool{false, true} {
			runs = append(runs, Run{Scenario: "c01", Arg: c01Arg{Layout: li, Gate: gate, Web: true}, Budget: budget, MaxExec: 300000})
		}
	}
	if core.Thorough() {
		runs = append(runs, Run{Scenario: "c01", Arg: c01Arg{Layout: 0, Gate: true}, Budget: 2, MaxExec: 400000})
	}
	Explore("TestC01", rep, runs)
	if b, _ := rep.Extra["bans"].(int64); b == 0 {
		rep.Vacuous("vacuous: no execution reached a hash failure / ban")
	}
	rep.Finish()
}

//go:build verif

package lab

import (
	"encoding/json"
	"fmt"
	"testing"
	"time"

	"github.com/cenkalti/rain/v2/internal/tracker"
	"github.com/cenkalti/rain/v2/torrent"
	"github.com/cenkalti/rain/v2/zzverif/core"
)

// C04 — lifecycle safety. Explicit enumeration of command/mutation sequences (free alphabet choices at
// every drained point) from three initial states, plus bounded "race" deviations (a command delivered
// ahead of older pending internal events, internal events reordered).

type c04Arg struct {
	Init  string `json:"init"`  // fresh | seeded | partial | leeching (running, a peer holding only piece 0 connected, MaxPeerDial 1)
	Depth int    `json:"depth"` // number of alphabet operations
}

const c04PL = 32768

func c04Layout() Layout { return LayoutMulti(c04PL, 40000, 50000) } // 2 files, 3 pieces (last short)

func init() { Register("c04", mkC04) }

type c04State struct {
	ops       int
	lastCmd   string // last alphabet operation issued
	cmdStep   int
	seedLabel int
	converge  bool // convergence suffix in progress
	convSteps int
	startCounts bool
}

func mkC04() *Scenario {
	sc := &Scenario{Name: "c04", Horizon: 700, HorizonIsLivelock: true}
	st := &c04State{}
	var arg c04Arg
	var p1, p0 *Peer
	var tr *ScriptTracker
	connectSeed := func(w *World) {
		if err := p1.ConnectIn(w.Tor.VerifState().Port, w.G.InfoHash); err != nil {
			w.Failf("lab.connect", "connect refused although listening: %v", err)
		}
	}
	sc.Setup = func(w *World) {
		json.Unmarshal(w.Arg, &arg)
		if arg.Init == "leeching" {
			w.Cfg.MaxPeerDial = 1
		}
		// handlers that answer a caller (Stats) are split in front of the reply send
		torrent.VerifYieldReplies = true
		w.OpenSession()
		g := Gen(c04Layout())
		w.AddTorrent(g, nil)
		tr = w.NewTracker("t1", true)
		w.Tor.VerifSetTrackers([]tracker.Tracker{tr})
		p1 = w.NewPeer("p1", "10.0.0.1", 5001)
		w.Vars["std"] = &StdOpts{Behaviour: map[string]*PeerBehaviour{"p1": {Honest: true}}}
		// initial state: reached by a fixed eager prefix executed here (not part of the explored history)
		switch arg.Init {
		case "leeching":
			// running torrent with one connected peer that has only piece 0: stays Downloading with a live peer
			p0 = w.NewPeer("p0", "10.0.0.9", 5009)
			w.stdOpts().Behaviour["p0"] = &PeerBehaviour{Honest: true, Have: []byte{0x80}}
			w.DialHang("10.0.0.78:6000")
			w.DialHang("10.0.0.79:6000")
			w.CmdStart()
			w.drain(200)
			if err := p0.ConnectIn(w.Tor.VerifState().Port, w.G.InfoHash); err != nil {
				core.HarnessError("c04 setup: %v", err)
			}
			w.drain(400)
			if s := w.Tor.VerifState(); s.Status != "Downloading" || bitCount(s.Bitfield) != 1 || s.Peers != 1 {
				if len(w.Fails) == 0 {
					core.HarnessError("c04 setup did not reach the leeching initial state: %+v", s)
				}
			}
			w.Cmds = nil
		case "seeded", "partial":
			w.CmdStart()
			w.drain(200)
			connectSeed(w)
			if arg.Init == "partial" {
				// let exactly one piece complete, then stop
				w.drainUntil(400, func() bool { s := w.Tor.VerifState(); return bitCount(s.Bitfield) >= 1 })
			} else {
				w.drain(400)
			}
			w.CmdStop()
			w.drain(200)
			if s := w.Tor.VerifState(); s.Status != "Stopped" {
				w.Advance(6 * time.Second)
				w.drain(50)
			}
			s := w.Tor.VerifState()
			if s.Status != "Stopped" || (arg.Init == "seeded" && !s.Completed) {
				if len(w.Fails) == 0 {
					core.HarnessError("c04 setup did not reach the %s initial state: %+v", arg.Init, s)
				}
			}
			w.Cmds = nil
		}
	}
	alphabet := func(w *World) []Action {
		s := w.Tor.VerifState()
		var a []Action
		add := func(label string, do func(w *World)) {
			a = append(a, Action{Label: "op:" + label, Cost: -1, Do: func(w *World) {
				st.ops++
				st.lastCmd = label
				st.cmdStep = w.Step
				do(w)
			}})
		}
		add("Start", func(w *World) { w.CmdStart() })
		add("Stop", func(w *World) { w.CmdStop() })
		add("Verify", func(w *World) { w.CmdVerify() })
		if s.HasAcceptor && !p1.Connected() && !s.Completed {
			add("Seed", connectSeed)
		}
		add("Announce", func(w *World) { w.Launch("Announce", func() any { w.Tor.Announce(); return nil }) })
		add("AddPeer", func(w *World) { w.Launch("AddPeer", func() any { return w.Tor.AddPeer("10.0.0.77:6000") }) })
		add("Stats", func(w *World) { w.Launch("Stats", func() any { return w.Tor.Stats().Status }) })
		add("AddTracker", func(w *World) { w.Launch("AddTracker", func() any { return w.Tor.AddTracker("http://10.7.7.7/announce") }) })
		// remove ends the torrent (and the history): its loop must take the close and exit
		add("Remove", func(w *World) { w.Launch("Remove", func() any { return w.S.RemoveTorrent(w.Tor.ID(), true) }) })
		if arg.Init == "leeching" {
			// two addresses whose dials stay in flight; with MaxPeerDial 1 the second one waits in the address list
			add("AddPeers2", func(w *World) {
				w.Launch("AddPeer", func() any { return w.Tor.AddPeer("10.0.0.78:6000") })
				w.Launch("AddPeer", func() any { return w.Tor.AddPeer("10.0.0.79:6000") })
			})
		}
		if s.Status == "Stopped" && w.Store.OpenHandles(w.Tor.ID()) == 0 && len(w.Store.FileNames(w.Tor.ID())) > 0 {
			id := w.Tor.ID()
			add("Corrupt0", func(w *World) {
				w.Vars["tainted0"] = true // silent corruption is unknowable to the client until the next verification
				w.Store.Mutate(id, func(files map[string]*MemFile) {
					if f := files[w.G.StoragePath(0)]; f != nil && len(f.Data) > 5 {
						f.Data[5] ^= 0xff
					}
				})
			})
			add("DeleteFile1", func(w *World) {
				w.Store.Mutate(id, func(files map[string]*MemFile) { delete(files, w.G.StoragePath(1)) })
			})
			// the file is cut to half its length: unlike a flipped byte the client can see this (the size is wrong
			// when the file is opened), so nothing is excused
			add("TruncateFile1", func(w *World) {
				w.Store.Mutate(id, func(files map[string]*MemFile) {
					if f := files[w.G.StoragePath(1)]; f != nil {
						f.Data = append([]byte{}, f.Data[:len(f.Data)/2]...)
					}
				})
			})
			// a data file cannot be opened any more (permissions, replaced by a directory): the next start fails
			// during allocation; the torrent must end Stopped with the error and without open files
			add("BreakFile1", func(w *World) {
				w.Store.OpenErr[w.G.StoragePath(1)] = errInjected
				w.Vars["broken"] = true
			})
			add("DeleteAll", func(w *World) {
				w.Store.Mutate(id, func(files map[string]*MemFile) {
					for k := range files {
						delete(files, k)
					}
				})
			})
		}
		return a
	}
	sc.Actions = func(w *World) []Action {
		acts := StdActions(w) // deliveries, honest peer, tracker, storage gates
		if st.converge {
			st.convSteps++
			if len(acts) == 0 {
				s := w.Tor.VerifState()
				if s.HasAcceptor && !p1.Connected() && !s.Completed && st.seedLabel < 3 {
					st.seedLabel++
					return []Action{{Label: "converge:seed", Do: connectSeed}}
				}
			}
			if len(acts) > 1 {
				acts = acts[:1] // convergence suffix follows the default policy only
			}
			return acts
		}
		drained := len(acts) == 0
		if drained {
			c04Effect(w, st)
			if st.ops < arg.Depth {
				return alphabet(w)
			}
			// history finished: convergence suffix
			st.converge = true
			return []Action{{Label: "converge:start", Do: func(w *World) {
				delete(w.Store.OpenErr, w.G.StoragePath(1)) // whatever made the file un-openable has been repaired
				w.CmdStart()
			}}}
		}
		// race deviations: the next command issued before the drain completes
		if st.ops < arg.Depth {
			for _, a := range alphabet(w) {
				a.Cost = 1
				a.Label = "early-" + a.Label
				acts = append(acts, a)
			}
		}
		return acts
	}
	sc.Check = func(w *World) {
		if n := len(w.Labels); n > 0 && w.Labels[n-1] == "deliver:startCommandC" {
			// Start is a no-op by design unless the torrent is Stopped or Stopping when the loop receives it
			st.startCounts = w.PreStatus == "Stopped" || w.PreStatus == "Stopping"
		}
		c04Truth(w)
	}
	sc.Final = func(w *World) {
		if !st.converge {
			return
		}
		// bounded liveness under the eager schedule
		if s := w.Tor.VerifState(); s.Status == "Stopping" {
			return
		}
		s := w.Tor.VerifState()
		if s.Status != "Seeding" {
			w.Failf("C04.converge."+s.Status, "after the history, Start + reachable honest seed + eager drain ended in status %s (have %x, error %q), not Seeding", s.Status, s.Bitfield, s.LastError)
			return
		}
		if _, t := w.Vars["tainted0"]; !t {
			if ok, why := w.FilesEqualTruth(); !ok {
				w.Failf("C04.converge.content", "converged to Seeding but %s", why)
			}
		}
		for _, c := range w.Cmds {
			if !c.IsDone(w) {
				w.Failf("C04.cmd-not-returned."+c.Name, "command %s issued at step %d never returned", c.Name, c.At)
			}
		}
	}
	sc.Outcome = func(w *World) string { return w.Tor.VerifState().Status }
	return sc
}


func bitCount(b []byte) int {
	n := 0
	for _, x := range b {
		for ; x != 0; x &= x - 1 {
			n++
		}
	}
	return n
}

// c04Truth: the reported state is truthful (evaluated after every step).
func c04Truth(w *World) {
	s := w.Tor.VerifState()
	if s.HasVerifier || (s.HasBitfield && len(s.Bitfield) > 0 && s.Bitfield[0]&0x80 == 0) {
		// a verification pass is running / piece 0 is known missing: the silent corruption is no longer hidden
		delete(w.Vars, "tainted0")
	}
	tainted := func(i int) bool { _, t := w.Vars["tainted0"]; return t && i == 0 }
	stats := w.Tor.VerifStats()
	id := w.Tor.ID()
	if s.Status != stats.Status.String() {
		core.HarnessError("status mismatch")
	}
	if s.Status == "Seeding" {
		for i := 0; i < w.G.NumPieces; i++ {
			if !w.PieceOnDisk(i) && !tainted(i) {
				w.Failf("C04.truth.seeding-without-data", "status Seeding (Pieces.Have=%d/%d) but piece %d is not on disk with the right content", stats.Pieces.Have, stats.Pieces.Total, i)
				break
			}
		}
		if stats.Pieces.Have != stats.Pieces.Total {
			w.Failf("C04.truth.seeding-have", "status Seeding but Pieces.Have=%d of %d", stats.Pieces.Have, stats.Pieces.Total)
		}
	}
	if s.Status == "Stopped" {
		if s.Peers != 0 || s.PieceDownloaders != 0 || s.IncomingHandshakers+s.OutgoingHandshakers != 0 || s.InfoDownloaders != 0 {
			w.Failf("C04.truth.stopped-active", "status Stopped with peers=%d downloads=%d handshakers=%d", s.Peers, s.PieceDownloaders, s.IncomingHandshakers+s.OutgoingHandshakers)
		}
		if n := w.Store.OpenHandles(id); n != 0 {
			w.Failf("C04.truth.stopped-open-files", "status Stopped but %d data file handles are still open", n)
		}
	}
	// completed bytes consistent with the pieces held
	if s.HasBitfield && s.HasInfo {
		var want int64
		for i := 0; i < w.G.NumPieces; i++ {
			if s.Bitfield[i/8]&(0x80>>(i%8)) != 0 {
				want += int64(len(w.G.PieceBytes(i)))
			}
		}
		if stats.Bytes.Completed != want {
			w.Failf("C04.truth.bytes-completed", "Bytes.Completed=%d but the %d pieces held sum to %d bytes (status %s)", stats.Bytes.Completed, stats.Pieces.Have, want, s.Status)
		}
	}
	// every held piece is really on disk (shared with C01's claim oracle)
	if s.HasBitfield && (s.Status == "Downloading" || s.Status == "Seeding") {
		for i := 0; i < w.G.NumPieces; i++ {
			if s.Bitfield[i/8]&(0x80>>(i%8)) != 0 && !w.PieceOnDisk(i) && !tainted(i) {
				w.Failf("C04.truth.have-without-data", "piece %d is reported as held in status %s but its content is not on disk", i, s.Status)
				break
			}
		}
	}
}

// c04Effect: evaluated at drained points — the last command took effect.
func c04Effect(w *World, st *c04State) {
	if st.lastCmd == "" {
		return
	}
	s := w.Tor.VerifState()
	for _, c := range w.Cmds {
		if !c.IsDone(w) {
			w.Failf("C04.cmd-not-returned."+c.Name, "command %s issued at step %d has not returned although the system is quiescent", c.Name, c.At)
		}
	}
	switch st.lastCmd {
	case "Start":
		if st.startCounts && (s.Status == "Stopped" || s.Status == "Stopping") && s.LastError == "" {
			if s.Status == "Stopping" {
				// wait out the stop announcer before judging
				w.Advance(6 * time.Second)
				w.drain(100)
				s = w.Tor.VerifState()
			}
			if (s.Status == "Stopped" || s.Status == "Stopping") && s.LastError == "" {
				w.Failf("C04.effect.start-dropped", "Start was delivered but after draining the torrent is %s with no error: the command was silently dropped", s.Status)
			}
		}
	case "Stop":
		if s.Status != "Stopped" {
			w.Advance(6 * time.Second) // TrackerStopTimeout is 5s
			w.drain(100)
			s = w.Tor.VerifState()
			if s.Status != "Stopped" {
				w.Failf("C04.effect.stop", "Stop was delivered but after draining and the tracker stop timeout the torrent is %s", s.Status)
			}
		}
	case "Verify":
		if s.Status != "Stopped" {
			w.Advance(6 * time.Second)
			w.drain(200)
			s = w.Tor.VerifState()
		}
		if s.Status != "Stopped" {
			w.Failf("C04.effect.verify-not-stopped."+s.Status, "Verify was delivered but after draining the torrent is %s, not Stopped (error %q)", s.Status, s.LastError)
		} else if s.LastError == "" {
			// Have must equal the set of pieces whose content is on disk
			for i := 0; i < w.G.NumPieces; i++ {
				have := s.HasBitfield && s.Bitfield[i/8]&(0x80>>(i%8)) != 0
				if have != w.PieceOnDisk(i) {
					w.Failf("C04.effect.verify-bitfield", "after Verify piece %d: reported held=%v, on disk=%v (bitfield %x)", i, have, w.PieceOnDisk(i), s.Bitfield)
					break
				}
			}
		}
	}
	st.lastCmd = ""
}

func TestC04(t *testing.T) {
	ServeIfWorker(t)
	rep := core.NewReport("C04", "lab-lifecycle", "model_checking")
	depth, devs := 3, 1
	if core.Thorough() {
		depth, devs = 4, 1
	}
	rep.Rule = fmt.Sprintf("every sequence of %d operations over {Start,Stop,Verify,Seed,Announce,AddPeer,Stats,AddTracker,Remove,Corrupt0,DeleteFile1,TruncateFile1,BreakFile1,DeleteAll} (enabled ones) from initial states {fresh, seeded+stopped, partial+stopped} and of one operation less (plus AddPeers2: two addresses with hanging dials, MaxPeerDial 1) from {leeching: running with a connected peer that holds one piece}, each followed by the convergence suffix; plus every execution with <=%d race deviation (a command delivered before the drain finished, or a younger internal event before an older one)", depth, devs)
	rep.Assumptions = []string{"one torrent, one honest seed, one auto-answering tracker", "handlers are atomic (loop ownership; checked by C20)", "workers run to their next blocking point after every action"}
	var runs []Run
	for _, init := range []string{"fresh", "seeded", "partial"} {
		runs = append(runs, Run{Scenario: "c04", Arg: c04Arg{Init: init, Depth: depth}, Budget: devs, MaxExec: 400000})
	}
	runs = append(runs, Run{Scenario: "c04", Arg: c04Arg{Init: "leeching", Depth: depth - 1}, Budget: devs, MaxExec: 400000})
	Explore("TestC04", rep, runs)
	rep.Finish()
}

var _ = torrent.Stopped

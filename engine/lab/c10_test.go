//go:build verif

package lab

import (
	"encoding/json"
	"testing"

	"github.com/cenkalti/rain/v2/zzverif/core"
)

type dlArg struct {
	Layout int  `json:"layout"`
	Seq    bool `json:"seq"`
}

var dlLayouts = []Layout{
	LayoutSingle(32768, 3*32768+1000),
	LayoutMulti(32768, 40000, 30000, 20000),
}

func init() {
	Register("dl", func() *Scenario {
		sc := &Scenario{Name: "dl", Horizon: 300}
		sc.Setup = func(w *World) {
			var a dlArg
			json.Unmarshal(w.Arg, &a)
			w.OpenSession()
			g := Gen(dlLayouts[a.Layout])
			w.AddTorrent(g, nil)
			p1 := w.NewPeer("p1", "10.0.0.1", 5001)
			w.Vars["std"] = &StdOpts{
				Behaviour: map[string]*PeerBehaviour{"p1": {Honest: true}},
				Script: []*ScriptItem{
					{Label: "start", Do: func(w *World) { w.CmdStart() }},
					{Label: "connect p1", When: func(w *World) bool { return w.Listening() }, Do: func(w *World) {
						if err := p1.ConnectIn(w.Tor.VerifState().Port, g.InfoHash); err != nil {
							w.Failf("lab.connect", "connect refused: %v", err)
						}
					}},
				},
			}
		}
		sc.Actions = StdActions
		sc.Final = func(w *World) {
			st := w.Tor.VerifState()
			if st.Status != "Seeding" {
				w.Failf("C10.incomplete", "download did not complete: status %s, have %x", st.Status, st.Bitfield)
				return
			}
			if ok, why := w.FilesEqualTruth(); !ok {
				w.Failf("C10.content", "Seeding but %s", why)
			}
		}
		sc.Outcome = func(w *World) string { return w.Tor.VerifState().Status }
		return sc
	})
}

func TestC10(t *testing.T) {
	ServeIfWorker(t)
	rep := core.NewReport("C10", "lab-completion", "model_checking")
	rep.Rule = "default (eager fair) schedule plus every single/double deviation"
	var runs []Run
	for i := range dlLayouts {
		runs = append(runs, Run{Scenario: "dl", Arg: dlArg{Layout: i}, Budget: 1})
	}
	Explore("TestC10", rep, runs)
	rep.Finish()
}

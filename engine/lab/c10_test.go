//go:build verif

package lab

import (
	"reflect"
	"encoding/hex"
	"encoding/json"
	"fmt"
	"net"
	"strings"
	"testing"
	"time"

	"github.com/cenkalti/rain/v2/torrent"
	"github.com/cenkalti/rain/v2/zzverif/core"
	"github.com/cenkalti/rain/v2/zzverif/refcodec"
)

// C10 — completion with an honest full source. Layout lattice x picker mode x source mix, each under the
// eager fair schedule (bounded liveness) and with deviations by *other* parties.

type c10Arg struct {
	Files  []int  `json:"files"` // lengths in bytes; negative = padding file
	PL     int    `json:"pl"`
	Single bool   `json:"single"`
	Seq    bool   `json:"seq"`
	HoldWeb bool            `json:"holdweb,omitempty"` // the web seed answers only when the explorer lets it (last in the default order)
	Gate   bool             `json:"gate,omitempty"` // piece writes are held until the explorer releases them
	Partial []int           `json:"partial,omitempty"` // source "both": the honest peer holds only these pieces (the web seed is the full source)
	Cfg    map[string]int64 `json:"cfg,omitempty"` // configuration fields set to the given value (C17: small and zero-adjacent limits)
	Source string `json:"src"` // peer | web | both | rain (a real rain seeding session, MSE negotiated)
	Adv    bool   `json:"adv"` // a second, misbehaving peer is present (deviation alphabet enabled)
}

func (a c10Arg) String() string {
	return fmt.Sprintf("files=%v pl=%d single=%v seq=%v src=%s adv=%v", a.Files, a.PL, a.Single, a.Seq, a.Source, a.Adv)
}

func (a c10Arg) layout() Layout {
	if a.Single {
		return LayoutSingle(a.PL, a.Files[0])
	}
	return LayoutMulti(a.PL, a.Files...)
}

// c10Layouts enumerates the 16 KiB-scaled layout lattice.
func c10Layouts(thorough bool) []c10Arg {
	const u = 16384
	var out []c10Arg
	pls := []int{u, 2 * u, 3 * u}
	one := []int{1, u - 1, u, u + 1, 2 * u, 3*u + 1000}
	for _, pl := range pls {
		for _, n := range one {
			out = append(out, c10Arg{Files: []int{n}, PL: pl, Single: true})
			out = append(out, c10Arg{Files: []int{n}, PL: pl})
		}
		two := []int{0, u, u + 1, 2 * u}
		for _, a := range two {
			for _, b := range two {
				if a+b == 0 {
					continue
				}
				out = append(out, c10Arg{Files: []int{a, b}, PL: pl})
				if b > 0 {
					out = append(out, c10Arg{Files: []int{a, -b}, PL: pl}) // trailing padding
				}
				if a > 0 && b > 0 {
					out = append(out, c10Arg{Files: []int{-a, b}, PL: pl}) // leading padding
				}
			}
		}
		// file | pad | file, including padding that starts at a block start and whole-piece padding
		for _, f := range []int{u, u + 1, 2*u - 100} {
			for _, p := range []int{100, u - 1, u, 2 * u} {
				out = append(out, c10Arg{Files: []int{f, -p, u + 5}, PL: pl})
			}
		}
	}
	if !thorough {
		// quick: every third layout, always keeping the padding-heavy tail of each piece length
		var q []c10Arg
		for i, a := range out {
			if i%3 == 0 || (len(a.Files) == 3) {
				q = append(q, a)
			}
		}
		out = q
	}
	return out
}

func init() { Register("c10", mkC10) }

func mkC10() *Scenario {
	sc := &Scenario{Name: "c10", Horizon: 900}
	var arg c10Arg
	var p1, p2 *Peer
	var ws *WebSeed
	var seeder *torrent.Torrent
	var stallers []*metaPeer
	var mh *metaPeer
	sc.Setup = func(w *World) {
		json.Unmarshal(w.Arg, &arg)
		l := arg.layout()
		if arg.Source == "web" || arg.Source == "both" {
			l.Webseeds = []string{"http://10.9.9.9/ws/"}
		}
		if arg.Source == "web2" {
			// more web seeds than download slots
			l.Webseeds = []string{"http://10.9.9.9/ws/", "http://10.9.9.8/ws/"}
			w.Cfg.WebseedMaxDownloads = 1
		}
		g := Gen(l)
		w.Cfg.WebseedRetryInterval = time.Minute
		if arg.Source == "rain" {
			w.Cfg.DisableOutgoingEncryption = false
		}
		if arg.Source == "fastchoke" {
			w.Cfg.DefaultRequestsOut = 2
		}
		for k, v := range arg.Cfg {
			f := reflect.ValueOf(&w.Cfg).Elem().FieldByName(k)
			switch f.Kind() {
			case reflect.Int, reflect.Int64:
				f.SetInt(v)
			case reflect.Uint, reflect.Uint64, reflect.Uint32, reflect.Uint16:
				f.SetUint(uint64(v))
			default:
				core.HarnessError("c10: configuration field %s cannot be set", k)
			}
		}
		w.OpenSession()
		opt := &torrent.AddTorrentOptions{Stopped: true, Sequential: arg.Seq}
		if arg.Source == "magnet" {
			// started from a magnet link: two peers take the metadata requests and stall (never answer, stay
			// connected), the honest seed offers metadata and data
			w.G = g
			t, err := w.S.AddURI("magnet:?xt=urn:btih:"+hex.EncodeToString(g.InfoHash[:])+"&dn=from-magnet", opt)
			if err != nil {
				core.HarnessError("AddURI: %v", err)
			}
			w.Tor = t
			w.Tors = append(w.Tors, t)
			w.Quiesce()
		} else {
			w.AddTorrent(g, opt)
		}
		w.Store.GateWrites = arg.Gate
		o := &StdOpts{Behaviour: map[string]*PeerBehaviour{}, IdleAdvance: 0}
		o.Script = append(o.Script, &ScriptItem{Label: "start", Do: func(w *World) { w.CmdStart() }})
		if arg.Source == "web" || arg.Source == "both" || arg.Source == "web2" {
			ws = w.NewWebSeed("10.9.9.9", g)
			ws.Hold = arg.HoldWeb
		}
		if arg.Source == "web2" {
			w.NewWebSeed("10.9.9.8", g)
		}
		if arg.Source == "magnet" {
			for i, n := range []string{"s1", "s2"} {
				sp := &metaPeer{Peer: w.NewPeer(n, fmt.Sprintf("10.0.1.%d", i+1), 5100+i)}
				sp.Ext = true
				stallers = append(stallers, sp)
			}
			mh = &metaPeer{Peer: w.NewPeer("p1", "10.0.0.1", 5001)}
			mh.Ext = true
			p1 = mh.Peer
			o.Behaviour["p1"] = &PeerBehaviour{Honest: true}
			o.Script = append(o.Script,
				&ScriptItem{Label: "connect stallers", When: func(w *World) bool { return w.Listening() }, Do: func(w *World) {
					for _, sp := range stallers {
						sp.ConnectIn(w.Tor.VerifState().Port, g.InfoHash)
					}
				}},
				&ScriptItem{Label: "stallers advertise metadata", When: func(w *World) bool { return stallers[0].GotHS && stallers[1].GotHS }, Do: func(w *World) {
					for _, sp := range stallers {
						sp.sendExtHandshake(int64(len(g.InfoBytes)))
					}
				}},
				&ScriptItem{Label: "connect p1", Do: func(w *World) {
					if err := p1.ConnectIn(w.Tor.VerifState().Port, g.InfoHash); err != nil {
						w.Failf("lab.connect", "connect refused: %v", err)
					}
				}})
		}
		if arg.Source == "fastchoke" {
			// an honest BEP 6 seed that keeps choking for a while: it grants every piece as allowed-fast, serves
			// whatever is requested and unchokes once nothing else is going on. Request batches of 2 blocks.
			p1 = w.NewPeer("p1", "10.0.0.1", 5001)
			p1.Fast = true
			// (empty bitfield, allowed-fast grants, then a have for every piece: the client learns the grant
			// before it learns that the peer has the piece)
			b := &PeerBehaviour{Honest: true, NoUnchoke: true, Have: make([]byte, (g.NumPieces+7)/8)}
			for i := 0; i < g.NumPieces; i++ {
				b.ExtraMsgs = append(b.ExtraMsgs, refcodec.AllowedFast(uint32(i)))
			}
			for i := 0; i < g.NumPieces; i++ {
				b.ExtraMsgs = append(b.ExtraMsgs, refcodec.Have(uint32(i)))
			}
			o.Behaviour["p1"] = b
			o.Script = append(o.Script, &ScriptItem{Label: "connect p1", When: func(w *World) bool { return w.Listening() }, Do: func(w *World) {
				if err := p1.ConnectIn(w.Tor.VerifState().Port, g.InfoHash); err != nil {
					w.Failf("lab.connect", "connect refused: %v", err)
				}
			}}, &ScriptItem{Label: "p1 unchokes", When: func(w *World) bool { return p1.Connected() && p1.Announced }, Do: func(w *World) {
				p1.Send(refcodec.Simple(refcodec.MsgUnchoke))
			}})
		}
		if arg.Source == "peer" || arg.Source == "both" {
			p1 = w.NewPeer("p1", "10.0.0.1", 5001)
			o.Behaviour["p1"] = &PeerBehaviour{Honest: true}
			if len(arg.Partial) > 0 {
				have := make([]byte, (g.NumPieces+7)/8)
				for _, i := range arg.Partial {
					have[i/8] |= 0x80 >> (i % 8)
				}
				o.Behaviour["p1"].Have = have
			}
			o.Script = append(o.Script, &ScriptItem{Label: "connect p1", When: func(w *World) bool { return w.Listening() }, Do: func(w *World) {
				if err := p1.ConnectIn(w.Tor.VerifState().Port, g.InfoHash); err != nil {
					w.Failf("lab.connect", "connect refused: %v", err)
				}
			}})
		}
		if arg.Source == "rain" {
			// a second real torrent in the same session holding the complete data; the leecher dials it
			leech := w.Tor
			seedStore := map[string][]byte{}
			for fi, f := range g.L.Files {
				if !f.Pad {
					seedStore[g.StoragePath(fi)] = g.FileData[fi]
				}
			}
			w.Vars["preseed"] = seedStore
			st, err := w.S.AddTorrent(bytesReader(g.MetaInfo), &torrent.AddTorrentOptions{Stopped: true, ID: "seeder"})
			if err != nil {
				core.HarnessError("add seeder: %v", err)
			}
			seeder = st
			w.Tors = append(w.Tors, st)
			w.Quiesce()
			w.Store.Mutate("seeder", func(files map[string]*MemFile) {
				for n, d := range seedStore {
					files[n] = &MemFile{Name: n, Data: append([]byte{}, d...)}
				}
			})
			if len(w.Store.FileNames("seeder")) == 0 {
				// storage for the seeder does not exist until GetStorage ran (it did at add time); create files directly
				core.HarnessError("seeder storage missing")
			}
			o.Script = append(o.Script,
				&ScriptItem{Label: "start seeder", Do: func(w *World) { w.Launch("StartSeeder", func() any { return seeder.Start() }) }},
				&ScriptItem{Label: "addpeer seeder", When: func(w *World) bool {
					return seeder.VerifState().Status == "Seeding" && seeder.VerifState().HasAcceptor && leech.VerifState().Status == "Downloading"
				}, Do: func(w *World) {
					sp := seeder.VerifState().Port
					addr := fmt.Sprintf("10.0.0.50:%d", sp)
					w.RouteToListener(addr, sp, &net.TCPAddr{IP: net.IPv4(10, 0, 0, 60), Port: 40001})
					w.Launch("AddPeer", func() any { return leech.AddPeer(addr) })
				}})
		}
		if arg.Adv {
			p2 = w.NewPeer("p2", "10.0.0.2", 5002)
			o.Behaviour["p2"] = &PeerBehaviour{Honest: true}
			// p2 joins together with p1 (a script item of its own would only fire once p1 has served everything)
			for _, it := range o.Script {
				if it.Label == "connect p1" {
					do1 := it.Do
					it.Label = "connect p1+p2"
					it.Do = func(w *World) {
						do1(w)
						p2.ConnectIn(w.Tor.VerifState().Port, g.InfoHash)
					}
				}
			}
			o.Extra = func(w *World) []Action {
				var a []Action
				if p2.Connected() && p2.Announced {
					if len(p2.Requests) > 0 {
						a = append(a, Action{Label: "adv:p2:corrupt", Do: func(w *World) {
							if r, ok := p2.PopRequest(); ok {
								p2.Serve(w.G, r, true)
								w.Count("p2_corrupt_blocks", 1)
							}
						}})
						a = append(a, Action{Label: "adv:p2:stall", Do: func(w *World) {
							// p2 never answers again; the snub timer (RequestTimeout) must let the download go on elsewhere
							o.Behaviour["p2"].Honest = false
							w.Advance(25 * time.Second)
						}})
					}
					a = append(a, Action{Label: "adv:p2:choke", Do: func(w *World) { p2.Send(refcodec.Simple(refcodec.MsgChoke)); p2.Requests = nil }})
					a = append(a, Action{Label: "adv:p2:disconnect", Do: func(w *World) { p2.Close() }})
				}
				if ws != nil {
					a = append(a, Action{Label: "adv:web:500-then-ok", Do: func(w *World) { ws.SetMode("500"); w.Vars["webfail"] = true }})
					a = append(a, Action{Label: "adv:web:drop-then-ok", Do: func(w *World) { ws.SetMode("drop"); w.Vars["webfail"] = true }})
				}
				return a
			}
			// after a web seed failure it recovers; the client's retry comes after a (virtual) minute
			o.IdleAdvance, o.MaxIdle = 61*time.Second, 3
		}
		w.Vars["std"] = o
	}
	sc.Actions = func(w *World) []Action {
		if ws != nil {
			if _, failed := w.Vars["webfail"]; failed && ws.NumRequests() > 0 {
				// the failing answer was delivered at least once: the server is healthy again
				if n, _ := w.Vars["webfailAt"].(int); n == 0 {
					w.Vars["webfailAt"] = ws.NumRequests()
				} else if ws.NumRequests() > n {
					ws.SetMode("ok")
				}
			}
		}
		acts := StdActions(w)
		if ws != nil && ws.Parked() > 0 {
			// a held web seed answers after everything else (default: correctly; as a deviation: with an error)
			acts = append(acts, Action{Label: "web:answer", Do: func(w *World) { ws.SetMode("ok"); ws.Release() }})
			if arg.Adv {
				acts = append(acts, Action{Label: "adv:web:answer-500", Do: func(w *World) { ws.SetMode("500"); ws.Release(); w.Vars["webfail"] = true }})
			}
		}
		if mh != nil && mh.Connected() {
			// the honest seed answers the metadata extension as well
			mh.scan()
			g := w.G
			if !mh.extSent && mh.GotHS {
				acts = append(acts, Action{Label: "p1:ext-handshake", Do: func(w *World) { mh.sendExtHandshake(int64(len(g.InfoBytes))) }})
			} else if len(mh.metaReqs) > 0 {
				p := mh.metaReqs[0]
				acts = append(acts, Action{Label: fmt.Sprintf("p1:metadata(%d)", p), Do: func(w *World) {
					mh.metaReqs = mh.metaReqs[1:]
					mh.sendData(p, int64(len(g.InfoBytes)), blockOf(g.InfoBytes, p))
				}})
			}
			if st := w.Tor.VerifState(); len(acts) == 0 && st.Status != "Seeding" && st.LastError == "" {
				// stalling peers hold the metadata slots until their requests time out
				if n, _ := w.Vars["waited"].(int); n < 6 {
					return []Action{{Label: "advance:25s", Do: func(w *World) { w.Vars["waited"] = n + 1; w.Advance(25 * time.Second) }}}
				}
			}
		}
		if len(acts) == 0 && ws != nil && w.Tor.VerifState().Status == "Downloading" {
			n, _ := w.Vars["idle"].(int)
			if n < 3 {
				ws.SetMode("ok")
				return []Action{{Label: "advance:61s", Do: func(w *World) { w.Vars["idle"] = n + 1; w.Advance(61 * time.Second) }}}
			}
		}
		return acts
	}
	sc.Check = func(w *World) {
		integrityCheck(w, "C10")
		// the honest source is never banned
		s := w.Tor.VerifState()
		if p1 != nil {
			for _, ip := range s.BannedIPs {
				if ip == p1.Addr.IP.String() {
					w.Failf("C10.honest-seed-banned", "the honest seed %s was banned (a piece it served correctly failed the hash check)", ip)
				}
			}
		}
		c10IdlePeer(w, arg, p1)
	}
	sc.Final = func(w *World) {
		s := w.Tor.VerifState()
		if s.Status != "Seeding" {
			src := ""
			if p1 != nil {
				src = fmt.Sprintf(" p1: connected=%v outstanding=%d", p1.Connected(), len(p1.Requests))
			}
			w.Failf("C10.incomplete."+c10Class(arg), "an honest full source was reachable but the download ended in status %s with bitfield %x (done=%v writing=%v downloads=%d error=%q)%s", s.Status, s.Bitfield, s.PieceDone, s.PieceWriting, s.PieceDownloaders, s.LastError, src)
			return
		}
		if ok, why := w.FilesEqualTruth(); !ok {
			w.Failf("C10.content", "Seeding but %s", why)
		}
	}
	sc.Outcome = func(w *World) string { return w.Tor.VerifState().Status }
	return sc
}

// c10Class groups layouts by the feature that matters for a completion failure.
func c10Class(a c10Arg) string {
	l := a.layout()
	g := Gen(l)
	// does some piece consist of padding only?
	off := 0
	padOnly := false
	type span struct{ s, e int; pad bool }
	var spans []span
	for _, f := range l.Files {
		spans = append(spans, span{off, off + f.Len, f.Pad})
		off += f.Len
	}
	for i := 0; i < g.NumPieces; i++ {
		ps, pe := i*l.PieceLen, min((i+1)*l.PieceLen, len(g.Data))
		data := 0
		for _, sp := range spans {
			a, b := max(ps, sp.s), min(pe, sp.e)
			if a < b && !sp.pad {
				data += b - a
			}
		}
		if data == 0 {
			padOnly = true
		}
	}
	hasPad := false
	for _, f := range l.Files {
		if f.Pad && f.Len > 0 {
			hasPad = true
		}
	}
	switch {
	case padOnly:
		return "padding-only-piece"
	case hasPad:
		return "padding." + a.Source
	default:
		return "plain." + a.Source
	}
}

// c10IdlePeer: at a drained point, no idle unchoked peer holding a needed unrequested piece is left without a request.
func c10IdlePeer(w *World, arg c10Arg, p1 *Peer) {
	if p1 == nil || (arg.Source != "peer" && arg.Source != "both") {
		return
	}
	s := w.Tor.VerifState()
	if arg.Source == "both" && s.WebseedActive > 0 {
		return // a web seed download is running: the needed piece may be inside its range
	}
	if s.Status != "Downloading" || !p1.Connected() || !p1.Announced || !p1.GotHS {
		return
	}
	for ti := range w.Tors {
		if len(w.Ready(ti)) > 0 {
			return
		}
	}
	if len(p1.Requests) > 0 || p1.Conn.Pending() > 0 {
		return
	}
	for _, p := range w.Peers {
		if len(p.Requests) > 0 {
			return // some request is outstanding elsewhere; the needed piece may be that one
		}
	}
	if len(w.Store.PendingOps()) > 0 {
		return
	}
	holds := func(i int) bool {
		if len(arg.Partial) == 0 {
			return true
		}
		for _, x := range arg.Partial {
			if x == i {
				return true
			}
		}
		return false
	}
	for i := 0; i < w.G.NumPieces; i++ {
		if i < len(s.PieceDone) && !s.PieceDone[i] && !s.PieceWriting[i] && holds(i) {
			w.Failf("C10.idle-peer."+c10Class(arg), "peer p1 is connected, unchoking and idle, piece %d is needed, not being written and not requested from anyone, yet no request is sent (downloads=%d)", i, s.PieceDownloaders)
			return
		}
	}
}

func bytesReader(b []byte) *strings.Reader { return strings.NewReader(string(b)) }

func TestC10(t *testing.T) {
	ServeIfWorker(t)
	rep := core.NewReport("C10", "lab-completion", "model_checking")
	rep.Rule = "layout lattice (16 KiB-scaled: single/multi file, empty files, leading/trailing/inner/whole-piece padding, piece length 16/32/48 KiB, odd sizes) x {rarest, sequential} x source {peer, web seed, both, real rain seeder over MSE, choking BEP 6 seed granting allowed-fast (request batches of 2), two web seeds with one download slot, magnet link with two stalling metadata peers and an honest seed}; each under the eager fair schedule (budget 0) and, on a subset with a second misbehaving peer / failing web seed, every single deviation (budget 1)"
	rep.Assumptions = []string{"bounded liveness: completion within the horizon under the fair default continuation", "the other parties' misbehaviour is limited to the deviation alphabet (corrupt, stall, choke, disconnect, web seed 500/drop)"}
	layouts := c10Layouts(core.Thorough())
	var runs []Run
	for _, l := range layouts {
		for _, seq := range []bool{false, true} {
			for _, src := range []string{"peer", "web", "both"} {
				a := l
				a.Seq, a.Source = seq, src
				runs = append(runs, Run{Scenario: "c10", Arg: a, Budget: 0})
			}
		}
	}
	// real rain seeder, encryption negotiated between two real endpoints
	for i, l := range layouts {
		if i%7 == 0 {
			a := l
			a.Source = "rain"
			runs = append(runs, Run{Scenario: "c10", Arg: a, Budget: 0})
		}
	}
	// more web seeds than download slots; started from a magnet link with two stalling metadata peers
	for i, l := range layouts {
		if i%5 == 1 {
			a := l
			a.Source = "web2"
			runs = append(runs, Run{Scenario: "c10", Arg: a, Budget: 0})
		}
		if i%5 == 2 && !l.Single {
			a := l
			a.Source = "magnet"
			runs = append(runs, Run{Scenario: "c10", Arg: a, Budget: 0})
		}
	}
	// a choking fast-extension seed that grants every piece as allowed-fast
	for i, l := range layouts {
		if i%5 == 0 {
			for _, seq := range []bool{false, true} {
				a := l
				a.Source, a.Seq = "fastchoke", seq
				runs = append(runs, Run{Scenario: "c10", Arg: a, Budget: 0})
			}
		}
	}
	// deviations by other parties
	n := 0
	for i, l := range layouts {
		if i%9 != 0 {
			continue
		}
		for _, src := range []string{"peer", "both"} {
			a := l
			a.Source, a.Adv = src, true
			runs = append(runs, Run{Scenario: "c10", Arg: a, Budget: 1, MaxExec: 20000})
			n++
		}
	}
	// peer + web seed whose answers are held until the peer has nothing left to do (the peer ends up idle while the
	// web seed still owns a range), then an error answer as the single deviation
	for i, l := range layouts {
		if i%11 == 4 {
			a := l
			a.Source, a.Adv, a.HoldWeb = "both", true, true
			runs = append(runs, Run{Scenario: "c10", Arg: a, Budget: 1, MaxExec: 20000})
		}
	}
	// one larger torrent (8 pieces) fed by a peer and a held web seed with gated writes: ranges are stolen and
	// truncated while results wait behind a write; two deviations (thorough tier: about 55 000 executions)
	if core.Thorough() {
		a := c10Arg{Files: []int{8*16384 + 5}, PL: 16384, Single: true, Source: "both", Adv: true, HoldWeb: true, Gate: true}
		runs = append(runs, Run{Scenario: "c10", Arg: a, Budget: 2, MaxExec: 150000})
	}
	// small torrents (3 and 4 pieces of one block) fed by a peer and a held web seed with gated writes, two deviations: a
	// result of the web seed waits behind a piece write while the peer steals the piece right after it, so the range of
	// the running download ends exactly where the downloader already is
	for _, np := range []int{3, 4} {
		a := c10Arg{Files: []int{np*16384 - 7}, PL: 16384, Single: true, Source: "both", Adv: true, HoldWeb: true, Gate: true}
		runs = append(runs, Run{Scenario: "c10", Arg: a, Budget: 2, MaxExec: 60000})
	}
	// the web seed is the only full source, the honest peer holds two pieces inside the web seed's first range: what the
	// peer takes cuts the range of the running download, and the rest can only come from the web seed's next range
	for _, part := range [][]int{{1, 3}, {2, 3}, {1, 2}} {
		a := c10Arg{Files: []int{5*16384 - 7}, PL: 16384, Single: true, Source: "both", HoldWeb: true, Gate: true, Partial: part}
		runs = append(runs, Run{Scenario: "c10", Arg: a, Budget: 2, MaxExec: 60000})
	}
	// peer + web seed with piece writes held: results of the web seed queue up behind a write while the peer goes on
	for i, l := range layouts {
		if i%17 == 3 {
			a := l
			a.Source, a.Adv, a.Gate = "both", true, true
			runs = append(runs, Run{Scenario: "c10", Arg: a, Budget: 1, MaxExec: 20000})
		}
	}
	rep.Extra["layouts"] = int64(len(layouts))
	rep.Extra["runs"] = int64(len(runs))
	Explore("TestC10", rep, runs)
	rep.Finish()
}

//go:build verif

package lab

import (
	"bytes"
	"encoding/hex"
	"encoding/json"
	"fmt"
	"net"
	"strings"
	"testing"
	"time"

	"github.com/cenkalti/rain/v2/torrent"
	"github.com/cenkalti/rain/v2/zzverif/core"
	"github.com/cenkalti/rain/v2/zzverif/refcodec"
	"github.com/cenkalti/rain/v2/zzverif/vnet"
)

// C19 — private torrents. For every encoding of the private flag, a scripted swarm (peers advertising
// PEX, PEX messages, port messages, injected DHT results, a magnet whose metadata is private) is run
// against a session with PEX on and DHT configured on.

type c19Arg struct {
	Flag   int  `json:"flag"`
	Magnet bool `json:"magnet"`
	Order  int  `json:"order"` // permutation index of the stimulus order
	Restart bool `json:"restart"` // the client is restarted (session closed and reopened on the same database) before the torrent is started
}

type c19Flag struct {
	Name string
	Val  any
	Must string // "private" | "public" | "" (either, but consistent)
}

var c19Flags = []c19Flag{
	{"absent", nil, "public"},
	{"i0e", int64(0), "public"},
	{"i1e", int64(1), "private"},
	{"i2e", int64(2), ""},
	{"i-1e", int64(-1), ""},
	{"str-1", "1", "private"},
	{"str-x", "x", ""},
	{"str-empty", "", ""},
	{"str-0", "0", ""},
	// a present key whose value is neither integer nor string is still an encoding of the flag ("odd types" in
	// the property's quantifier): the torrent is marked private
	{"list", []any{int64(1)}, "private"},
	{"dict", refcodec.D("a", int64(1)), "private"},
	{"empty-list", []any{}, "private"},
}

const (
	c19Prefix = "-PV0001-LONGER" // longer than the public prefix: a length taken from the wrong prefix truncates it
	c19ExtV   = "PrivClient 1.0"
	c19UA     = "PrivUA/1.0"
)

func init() { Register("c19", mkC19) }

func mkC19() *Scenario {
	sc := &Scenario{Name: "c19", Horizon: 500}
	var arg c19Arg
	var g *GenTorrent
	var P1, P2 *Peer
	var H *metaPeer
	var ts *HTTPTrackerSrv
	pexAddr := &net.TCPAddr{IP: net.IPv4(10, 0, 0, 99), Port: 7000}
	dhtAddr := &net.TCPAddr{IP: net.IPv4(10, 0, 0, 98), Port: 7001}
	sc.Setup = func(w *World) {
		json.Unmarshal(w.Arg, &arg)
		l := LayoutSingle(32768, 70000)
		l.Private = c19Flags[arg.Flag].Val
		l.Trackers = [][]string{{"http://10.8.8.8/announce"}}
		g = Gen(l)
		w.G = g
		w.Cfg.PEXEnabled = true
		w.Cfg.PrivatePeerIDPrefix = c19Prefix
		w.Cfg.PrivateExtensionHandshakeClientVersion = c19ExtV
		w.Cfg.TrackerHTTPPrivateUserAgent = c19UA
		w.Cfg.MaxMetadataSize = 64 << 10
		w.OpenSession()
		w.S.VerifFakeDHT(true)
		ts = w.NewHTTPTracker("10.8.8.8")
		// the addresses learnt through PEX / DHT are dialable: a dial is the observation
		w.DialHang(pexAddr.String())
		w.DialHang(dhtAddr.String())
		if arg.Magnet {
			link := "magnet:?xt=urn:btih:" + hex.EncodeToString(g.InfoHash[:]) + "&tr=" + "http%3A%2F%2F10.8.8.8%2Fannounce"
			t, err := w.S.AddURI(link, &torrent.AddTorrentOptions{Stopped: true})
			if err != nil {
				core.HarnessError("AddURI: %v", err)
			}
			w.Tor = t
			w.Tors = append(w.Tors, t)
			w.Quiesce()
		} else {
			w.AddTorrent(g, nil)
		}
		if arg.Restart {
			// added, never started (no bitfield in the resume data), then the client restarts
			w.RestartSession()
			if w.Tor == nil {
				core.HarnessError("c19: torrent did not come back after the restart")
			}
			w.S.VerifFakeDHT(true)
		}
		P1 = w.NewPeer("p1", "10.0.0.1", 5001)
		P1.Ext, P1.DHT = true, true
		P2 = w.NewPeer("p2", "10.0.0.2", 5002)
		P2.Ext = true
		w.Vars["std"] = &StdOpts{Behaviour: map[string]*PeerBehaviour{}}
		w.CmdStart()
		w.drain(100)
		if !w.Listening() {
			core.HarnessError("c19: not listening after start: %+v", w.Tor.VerifState())
		}
		connect := func(p *Peer) {
			if err := p.ConnectIn(w.Tor.VerifState().Port, g.InfoHash); err != nil {
				core.HarnessError("c19 connect: %v", err)
			}
			w.drain(60)
		}
		connect(P1)
		connect(P2)
		if arg.Magnet {
			H = &metaPeer{Peer: P2}
			c19ServeMeta(w, H, g)
		}
	}
	stimuli := func(w *World) []func() {
		cid := clientMetadataID(P1)
		return []func(){
			func() { // P1 advertises ut_pex (and metadata) in its extension handshake
				P1.Send(refcodec.Extended(0, refcodec.ExtHandshakePayload(map[string]int{"ut_pex": 4, "ut_metadata": 3}, "peer", nil, 0, 0)))
			},
			func() { // PEX message: one added peer
				P1.Send(refcodec.Extended(cid+1, refcodec.PEXPayload(refcodec.CompactPeer(10, 0, 0, 99, 7000), nil)))
			},
			func() { P1.Send(refcodec.Port(6881)) },
			func() { w.Tor.VerifInjectDHTPeers([]*net.TCPAddr{dhtAddr}) },
			func() { w.Advance(61 * time.Second) }, // PEX flush ticker, DHT announcer
			// the second peer sends its extension handshake without ut_pex, and later a second one that enables it
			func() {
				P2.Send(refcodec.Extended(0, refcodec.ExtHandshakePayload(map[string]int{"ut_metadata": 3}, "peer2", nil, 0, 0)))
			},
			func() {
				P2.Send(refcodec.Extended(0, refcodec.ExtHandshakePayload(map[string]int{"ut_pex": 5, "ut_metadata": 3}, "peer2", nil, 0, 0)))
			},
		}
	}
	sc.Actions = func(w *World) []Action {
		acts := StdActions(w)
		if len(acts) > 0 {
			return acts[:1]
		}
		k, _ := w.Vars["stim"].(int)
		st := stimuli(w)
		perm := c19Perms[arg.Order%len(c19Perms)]
		if k < len(st) {
			pk := k // stimuli beyond the permuted five come last, in order
			if k < len(perm) {
				pk = perm[k]
			}
			return []Action{{Label: fmt.Sprintf("stimulus:%d", pk), Do: func(w *World) { w.Vars["stim"] = k + 1; st[pk]() }}}
		}
		if k < len(st)+2 {
			return []Action{{Label: "advance:61s", Do: func(w *World) { w.Vars["stim"] = k + 1; w.Advance(61 * time.Second) }}}
		}
		return nil
	}
	sc.Check = func(w *World) { c19Check(w, arg, g, P1, P2, ts, pexAddr, dhtAddr, false) }
	sc.Final = func(w *World) {
		c19Check(w, arg, g, P1, P2, ts, pexAddr, dhtAddr, true)
		if len(w.Fails) > 0 || w.Dead != "" {
			return
		}
		// a handle that outlives RemoveTorrent still must not export a private torrent's magnet link
		priv := w.Tor.VerifStats().Private
		h := w.Tor
		w.S.VerifFakeDHT(false) // no live DHT node exists in the lab: RemoveTorrent must not talk to one
		w.Launch("Remove", func() any { return w.S.RemoveTorrent(h.ID(), true) })
		for k := 0; k < 40 && w.Dead == ""; k++ {
			w.Quiesce()
			acts := StdActions(w)
			if len(acts) == 0 {
				break
			}
			acts[0].Do(w)
		}
		w.Dead = "" // the loop has exited: expected here
		done := make(chan struct{})
		var link string
		var err error
		go func() { link, err = h.Magnet(); close(done) }()
		w.Quiesce()
		select {
		case <-done:
			if priv && err == nil {
				w.Failf("C19.magnet-exported-after-remove", "private torrent (%s): Magnet() on the handle of the removed torrent returned %q", c19Flags[arg.Flag].Name, link)
			}
			w.Count("magnet_after_remove_checked", 1)
		default:
			w.Failf("C19.magnet-call-stuck", "Magnet() on the handle of a removed torrent did not return")
		}
	}
	sc.Outcome = func(w *World) string {
		st := w.Tor.VerifStats()
		return fmt.Sprintf("%s/private=%v/%s", c19Flags[arg.Flag].Name, st.Private, st.Status)
	}
	return sc
}

var c19Perms = [][]int{{0, 1, 2, 3, 4}, {3, 0, 1, 2, 4}, {0, 3, 4, 1, 2}, {4, 0, 1, 3, 2}, {2, 3, 0, 4, 1}}

func c19ServeMeta(w *World, H *metaPeer, g *GenTorrent) {
	H.sendExtHandshake(int64(len(g.InfoBytes)))
	for i := 0; i < 40; i++ {
		w.drainUntil(30, func() bool { return w.Tor.VerifState().HasInfo || w.Tor.VerifState().Status == "Stopped" })
		H.scan()
		if len(H.metaReqs) == 0 {
			break
		}
		p := H.metaReqs[0]
		H.metaReqs = H.metaReqs[1:]
		H.sendData(p, int64(len(g.InfoBytes)), blockOf(g.InfoBytes, p))
	}
	w.drain(100)
}

func c19Check(w *World, arg c19Arg, g *GenTorrent, P1, P2 *Peer, ts *HTTPTrackerSrv, pexAddr, dhtAddr *net.TCPAddr, final bool) {
	flag := c19Flags[arg.Flag]
	st := w.Tor.VerifStats()
	vs := w.Tor.VerifState()
	if !vs.HasInfo {
		if arg.Magnet && final && (flag.Must == "private") {
			// metadata that turns out private must be refused
			if vs.Status != "Stopped" || vs.LastError == "" {
				w.Failf("C19.magnet-private-not-refused", "magnet metadata is private (%s) but the torrent is %s (error %q)", flag.Name, vs.Status, vs.LastError)
			}
			w.Count("magnet_private_refused", 1)
		}
		return
	}
	priv := st.Private
	if flag.Must == "private" && !priv {
		w.Failf("C19.flag-not-honoured."+flag.Name, "metainfo private flag encoded as %s but Stats().Private is false", flag.Name)
	}
	if flag.Must == "public" && priv {
		w.Failf("C19.flag-overblocked."+flag.Name, "metainfo private flag %s but Stats().Private is true", flag.Name)
	}
	if arg.Magnet && priv {
		w.Failf("C19.magnet-private-adopted", "metadata fetched through a magnet link is private (%s) and was adopted", flag.Name)
		return
	}
	dialled := func(a *net.TCPAddr) bool {
		for _, d := range vnet.W.DialLog() {
			if d.Addr == a.String() {
				return true
			}
		}
		return false
	}
	pexFrames := 0
	for _, p := range []*Peer{P1, P2} {
		for _, m := range p.Inbox {
			if m.ID == refcodec.MsgExtended && ((m.ExtID() == 4 && p == P1) || (m.ExtID() == 5 && p == P2)) { // the ids they gave ut_pex
				pexFrames++
			}
		}
	}
	var mag string
	var magErr error
	{
		type mres struct {
			s   string
			err error
		}
		c := w.Launch("Magnet", func() any { s, err := w.Tor.Magnet(); return mres{s, err} })
		w.Quiesce() // the call is a plain read today; if it ever goes through the loop, the loop serves it below
		if !c.IsDone(w) {
			w.drain(12)
		}
		if !c.IsDone(w) {
			w.Failf("C19.magnet-call-stuck", "Magnet() did not return")
			return
		}
		r := c.Result.(mres)
		mag, magErr = r.s, r.err
		w.Cmds = w.Cmds[:len(w.Cmds)-1]
	}
	if priv {
		w.Count("private_runs_checked", 1)
		if pexFrames > 0 {
			w.Failf("C19.pex-sent", "private torrent (%s): the client sent %d PEX messages", flag.Name, pexFrames)
		}
		if dialled(pexAddr) || st.Addresses.PEX != 0 {
			w.Failf("C19.pex-acted-upon", "private torrent (%s): an address received in a PEX message was used (dialled=%v, Addresses.PEX=%d)", flag.Name, dialled(pexAddr), st.Addresses.PEX)
		}
		if dialled(dhtAddr) || st.Addresses.DHT != 0 {
			w.Failf("C19.dht-fed", "private torrent (%s): an address delivered as DHT result was used (dialled=%v, Addresses.DHT=%d)", flag.Name, dialled(dhtAddr), st.Addresses.DHT)
		}
		if w.Tor.VerifHasDHTAnnouncer() || w.Tor.VerifDHTRequested() {
			w.Failf("C19.dht-announced", "private torrent (%s) has a DHT announcer / is in the DHT request set", flag.Name)
		}
		if magErr == nil {
			w.Failf("C19.magnet-exported", "private torrent (%s): Magnet() returned %q", flag.Name, mag)
		}
		if !bytes.HasPrefix(vs.PeerID[:], []byte(c19Prefix)) {
			w.Failf("C19.peerid-prefix", "private torrent (%s): peer id %q does not start with the configured private prefix", flag.Name, vs.PeerID[:])
		}
		for _, p := range []*Peer{P1, P2} {
			if p.GotHS && !bytes.HasPrefix(p.ClientHS.PeerID[:], []byte(c19Prefix)) {
				w.Failf("C19.handshake-prefix", "private torrent (%s): handshake peer id %q lacks the private prefix", flag.Name, p.ClientHS.PeerID[:])
			}
			for _, m := range p.Inbox {
				if m.ID == refcodec.MsgExtended && m.ExtID() == 0 {
					if d, _, err := refcodec.DecodeExtPayload(m.ExtPayload()); err == nil {
						if v, ok := d.Str("v"); ok && string(v) != c19ExtV {
							w.Failf("C19.ext-version", "private torrent (%s): extension handshake v=%q, configured %q", flag.Name, v, c19ExtV)
						}
					}
				}
			}
		}
		for _, r := range ts.Requests() {
			if r.UserAgent != c19UA {
				w.Failf("C19.tracker-user-agent", "private torrent (%s): tracker request User-Agent %q, configured %q", flag.Name, r.UserAgent, c19UA)
			}
			if !strings.HasPrefix(r.Query.Get("peer_id"), c19Prefix) {
				w.Failf("C19.tracker-peerid", "private torrent (%s): announce peer_id %q lacks the private prefix", flag.Name, r.Query.Get("peer_id"))
			}
		}
	} else if final && !arg.Magnet {
		// public behaviour must not be over-blocked
		w.Count("public_runs_checked", 1)
		if !dialled(pexAddr) {
			w.Failf("C19.public-pex-ignored", "public torrent (%s): the address received by PEX was never dialled", flag.Name)
		}
		if !dialled(dhtAddr) {
			w.Failf("C19.public-dht-ignored", "public torrent (%s): the DHT result address was never dialled", flag.Name)
		}
		if pexFrames == 0 {
			w.Failf("C19.public-no-pex", "public torrent (%s): no PEX message was sent to a peer advertising ut_pex within 3 minutes", flag.Name)
		}
		if magErr != nil {
			w.Failf("C19.public-magnet", "public torrent (%s): Magnet() failed: %v", flag.Name, magErr)
		}
		if !w.Tor.VerifHasDHTAnnouncer() {
			w.Failf("C19.public-no-dht", "public torrent (%s) has no DHT announcer although DHT is enabled", flag.Name)
		}
	}
	if final && len(ts.Requests()) == 0 {
		core.HarnessError("c19: the scripted HTTP tracker was never contacted")
	}
}

func TestC19(t *testing.T) {
	ServeIfWorker(t)
	rep := core.NewReport("C19", "lab-private", "model_checking")
	rep.Rule = "every encoding of the private flag {absent, i0e, i1e, i2e, i-1e, '1', 'x', '', '0', list, dict, empty list} x {.torrent, magnet, .torrent + client restart before the first start} x 5 orders of the stimuli {peer advertises ut_pex, PEX message with a dialable address, port message, injected DHT result, 61 s clock advance}; session with PEX on and DHT configured on; observations: frames sent to peers, dial log, Stats().Addresses, DHT announcer/request set, Magnet(), peer-id / ext version / tracker User-Agent"
	rep.Assumptions = []string{"the DHT node itself is not started (DHT configured on through an in-package hook; results injected on the torrent's DHT channel)", "integers other than 0/1 and strings other than \"1\" may be read either way but all behaviour must be consistent with Stats().Private; a present key of any other type marks the torrent private"}
	var runs []Run
	for fi := range c19Flags {
		for _, magnet := range []bool{false, true} {
			for o := range c19Perms {
				if magnet && o > 1 {
					continue
				}
				runs = append(runs, Run{Scenario: "c19", Arg: c19Arg{Flag: fi, Magnet: magnet, Order: o}, Budget: 0})
			}
		}
		// the same torrent added, the client restarted (no bitfield stored yet), then started
		runs = append(runs, Run{Scenario: "c19", Arg: c19Arg{Flag: fi, Order: 0, Restart: true}, Budget: 0})
	}
	Explore("TestC19", rep, runs)
	if n, _ := rep.Extra["private_runs_checked"].(int64); n == 0 {
		rep.Vacuous("vacuous: no private run")
	}
	rep.Finish()
}

//go:build verif

package lab

import (
	"errors"
	"fmt"
	"io"
	"os"
	"sort"
	"sync"

	"github.com/cenkalti/rain/v2/internal/storage"
)

// Store is the recording in-memory storage provider (Config.CustomStorage). Its content survives
// session restarts inside one World, like a disk. Every Open/Close/ReadAt/WriteAt is logged.
type Store struct {
	mu   sync.Mutex
	cond *sync.Cond
	Tor  map[string]*TorStore
	Log  []StoreOp
	// GateWrites: a WriteAt parks until the explorer releases (or fails) it.
	GateWrites bool
	// GateOpens: an Open parks until released.
	GateOpens bool
	// FailWriteIn: countdown of WriteAt calls; the call that brings it to zero fails with ErrInjectedWrite
	// and writes nothing (0 = off).
	FailWriteIn int
	pending     []*pendingOp
	// OpenErr makes Open of that path fail.
	OpenErr map[string]error
	// ProviderErr makes GetStorage fail for that torrent id.
	ProviderErr map[string]error
	step        func() int
}

// ErrInjectedWrite is the I/O error of a write failed through FailWriteIn (disk full, EIO).
var ErrInjectedWrite = errors.New("injected write error: no space left on device")

type StoreOp struct {
	Step int
	Tor  string
	Kind string // open, close, write, read
	File string
	Off  int64
	Data []byte // writes only
	Len  int
	Err  string
}

type pendingOp struct {
	kind     string
	file     string
	released bool
	fail     error
}

type TorStore struct {
	s     *Store
	id    string
	Files map[string]*MemFile
}

type MemFile struct {
	Name   string
	Data   []byte
	Open   int // currently open handles
	Opens  int
	Closes int
}

func NewStore() *Store {
	s := &Store{Tor: map[string]*TorStore{}, OpenErr: map[string]error{}, ProviderErr: map[string]error{}, step: func() int { return 0 }}
	s.cond = sync.NewCond(&s.mu)
	return s
}

func (s *Store) GetStorage(id string) (storage.Storage, error) {
	s.mu.Lock()
	defer s.mu.Unlock()
	if err := s.ProviderErr[id]; err != nil {
		return nil, err
	}
	t, ok := s.Tor[id]
	if !ok {
		t = &TorStore{s: s, id: id, Files: map[string]*MemFile{}}
		s.Tor[id] = t
	}
	return t, nil
}

func (t *TorStore) RootDir() string { return "/labdata/" + t.id }

func (t *TorStore) Open(name string, size int64) (storage.File, bool, error) {
	s := t.s
	s.mu.Lock()
	defer s.mu.Unlock()
	if s.GateOpens {
		p := &pendingOp{kind: "open", file: name}
		s.pending = append(s.pending, p)
		for !p.released {
			s.cond.Wait()
		}
		if p.fail != nil {
			s.Log = append(s.Log, StoreOp{Step: s.step(), Tor: t.id, Kind: "open", File: name, Err: p.fail.Error()})
			return nil, false, p.fail
		}
	}
	if err := s.OpenErr[name]; err != nil {
		s.Log = append(s.Log, StoreOp{Step: s.step(), Tor: t.id, Kind: "open", File: name, Err: err.Error()})
		return nil, false, err
	}
	grown := false
	f, exists := t.Files[name]
	if !exists {
		f = &MemFile{Name: name, Data: make([]byte, size)}
		t.Files[name] = f
	} else if int64(len(f.Data)) != size {
		// same as filestorage: truncate/extend to the expected size (bound to it by TestC04StoreConformance)
		grown = int64(len(f.Data)) < size
		nd := make([]byte, size)
		copy(nd, f.Data)
		f.Data = nd
	}
	f.Open++
	f.Opens++
	s.Log = append(s.Log, StoreOp{Step: s.step(), Tor: t.id, Kind: "open", File: name, Len: int(size)})
	if grown {
		return grownHandle{&handle{t: t, f: f}}, exists, nil
	}
	return &handle{t: t, f: f}, exists, nil
}

// grownHandle mirrors filestorage: a file that existed but was too short says so through the optional
// interface the allocator asks for (detected by name, so that the lab also builds on trees without it).
type grownHandle struct{ *handle }

func (grownHandle) Grown() bool { return true }

type handle struct {
	t      *TorStore
	f      *MemFile
	closed bool
}

func (h *handle) ReadAt(p []byte, off int64) (int, error) {
	s := h.t.s
	s.mu.Lock()
	defer s.mu.Unlock()
	if h.closed {
		return 0, os.ErrClosed
	}
	if off >= int64(len(h.f.Data)) {
		return 0, io.EOF
	}
	n := copy(p, h.f.Data[off:])
	if n < len(p) {
		return n, io.EOF
	}
	return n, nil
}

func (h *handle) WriteAt(p []byte, off int64) (int, error) {
	s := h.t.s
	s.mu.Lock()
	defer s.mu.Unlock()
	if s.GateWrites {
		pe := &pendingOp{kind: "write", file: h.f.Name}
		s.pending = append(s.pending, pe)
		for !pe.released {
			s.cond.Wait()
		}
		if pe.fail != nil {
			s.Log = append(s.Log, StoreOp{Step: s.step(), Tor: h.t.id, Kind: "write", File: h.f.Name, Off: off, Len: len(p), Err: pe.fail.Error()})
			return 0, pe.fail
		}
	}
	if s.FailWriteIn > 0 {
		s.FailWriteIn--
		if s.FailWriteIn == 0 {
			s.Log = append(s.Log, StoreOp{Step: s.step(), Tor: h.t.id, Kind: "write", File: h.f.Name, Off: off, Len: len(p), Err: ErrInjectedWrite.Error()})
			return 0, ErrInjectedWrite
		}
	}
	if h.closed {
		s.Log = append(s.Log, StoreOp{Step: s.step(), Tor: h.t.id, Kind: "write", File: h.f.Name, Off: off, Len: len(p), Err: "closed"})
		return 0, os.ErrClosed
	}
	if off < 0 || off+int64(len(p)) > int64(len(h.f.Data)) {
		err := fmt.Errorf("write outside file: off=%d len=%d size=%d", off, len(p), len(h.f.Data))
		s.Log = append(s.Log, StoreOp{Step: s.step(), Tor: h.t.id, Kind: "write", File: h.f.Name, Off: off, Len: len(p), Err: err.Error()})
		return 0, err
	}
	copy(h.f.Data[off:], p)
	s.Log = append(s.Log, StoreOp{Step: s.step(), Tor: h.t.id, Kind: "write", File: h.f.Name, Off: off, Len: len(p), Data: append([]byte{}, p...)})
	return len(p), nil
}

func (h *handle) Close() error {
	s := h.t.s
	s.mu.Lock()
	defer s.mu.Unlock()
	if h.closed {
		s.Log = append(s.Log, StoreOp{Step: s.step(), Tor: h.t.id, Kind: "close", File: h.f.Name, Err: "double close"})
		return os.ErrClosed
	}
	h.closed = true
	h.f.Open--
	h.f.Closes++
	s.Log = append(s.Log, StoreOp{Step: s.step(), Tor: h.t.id, Kind: "close", File: h.f.Name})
	return nil
}

// ---- explorer side

// PendingOps lists parked operations ("write:<file>" / "open:<file>") in arrival order.
func (s *Store) PendingOps() []string {
	s.mu.Lock()
	defer s.mu.Unlock()
	var out []string
	for _, p := range s.pending {
		if !p.released {
			out = append(out, p.kind+":"+p.file)
		}
	}
	return out
}

// Release lets the k-th parked operation proceed (fail != nil makes it return that error).
func (s *Store) Release(k int, fail error) {
	s.mu.Lock()
	defer s.mu.Unlock()
	i := 0
	for _, p := range s.pending {
		if p.released {
			continue
		}
		if i == k {
			p.released = true
			p.fail = fail
			s.cond.Broadcast()
			return
		}
		i++
	}
}

// ReleaseAll opens every gate (used at teardown).
func (s *Store) ReleaseAll() {
	s.mu.Lock()
	s.GateWrites, s.GateOpens = false, false
	for _, p := range s.pending {
		if !p.released {
			p.released = true
			p.fail = errors.New("lab: storage shut down")
		}
	}
	s.cond.Broadcast()
	s.mu.Unlock()
}

// OpenHandles is the number of file handles currently open for torrent id.
func (s *Store) OpenHandles(id string) int {
	s.mu.Lock()
	defer s.mu.Unlock()
	n := 0
	if t := s.Tor[id]; t != nil {
		for _, f := range t.Files {
			n += f.Open
		}
	}
	return n
}

// FileData returns the current content of a file (nil if absent).
func (s *Store) FileData(id, name string) []byte {
	s.mu.Lock()
	defer s.mu.Unlock()
	if t := s.Tor[id]; t != nil {
		if f := t.Files[name]; f != nil {
			return f.Data
		}
	}
	return nil
}

func (s *Store) FileNames(id string) []string {
	s.mu.Lock()
	defer s.mu.Unlock()
	var out []string
	if t := s.Tor[id]; t != nil {
		for n := range t.Files {
			out = append(out, n)
		}
	}
	sort.Strings(out)
	return out
}

// Mutate applies an external change to stored data (only meaningful while the torrent is stopped).
func (s *Store) Mutate(id string, fn func(files map[string]*MemFile)) {
	s.mu.Lock()
	defer s.mu.Unlock()
	if t := s.Tor[id]; t != nil {
		fn(t.Files)
	}
}

func (s *Store) LogLen() int { s.mu.Lock(); defer s.mu.Unlock(); return len(s.Log) }

func (s *Store) OpsSince(n int) []StoreOp {
	s.mu.Lock()
	defer s.mu.Unlock()
	return append([]StoreOp{}, s.Log[n:]...)
}

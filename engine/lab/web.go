//go:build verif

package lab

import (
	"bufio"
	"fmt"
	"net"
	"net/http"
	"net/url"
	"strconv"
	"strings"
	"sync"

	"github.com/cenkalti/rain/v2/zzverif/refcodec"
	"github.com/cenkalti/rain/v2/zzverif/vnet"
)

// Dial routing: outgoing TCP dials of the client are answered by whatever is registered for the address.

func (w *World) dialTargets() map[string]func() (net.Conn, error) {
	m, ok := w.Vars["dialTargets"].(map[string]func() (net.Conn, error))
	if !ok {
		m = map[string]func() (net.Conn, error){}
		w.Vars["dialTargets"] = m
		vnet.W.DialHook = func(addr string) (net.Conn, error) {
			if f, ok := m[addr]; ok {
				return f()
			}
			return nil, vnet.ErrRefused
		}
	}
	return m
}

// Listen makes the scripted peer reachable at its address: a dial by the client yields a connection on which
// the peer answers the client's handshake (outgoing connection from the client's point of view).
func (p *Peer) Listen(infoHash [20]byte) {
	p.W.dialTargets()[p.Addr.String()] = func() (net.Conn, error) {
		cli, lab := vnet.NewPair(&net.TCPAddr{IP: net.IPv4(127, 0, 0, 1), Port: 50000 + len(p.W.Peers)}, p.Addr)
		p.reset()
		p.Conn = lab
		p.Incoming = false
		p.replyHS = &infoHash
		return cli, nil
	}
}

// DialHang makes dials to addr hang until the dialer's timeout.
func (w *World) DialHang(addr string) {
	w.dialTargets()[addr] = func() (net.Conn, error) { return nil, nil }
}

// ConnectSessions routes dials to addr into the listener of another session in the same bubble.
func (w *World) RouteToListener(addr string, port int, from *net.TCPAddr) {
	w.dialTargets()[addr] = func() (net.Conn, error) {
		lab, err := vnet.W.Connect(port, from)
		if err != nil {
			return nil, err
		}
		return lab, nil
	}
}

// ---------------------------------------------------------------------------------------------
// scripted web seed (BEP 19): a tiny HTTP/1.1 server over the in-memory network serving ranges of G

type WebSeed struct {
	w        *World
	Addr     string // ip:port
	Base     string // URL path prefix, e.g. "/ws/"
	URL      string
	mu       sync.Mutex
	Requests []string
	// Mode: "ok" serves the truth; "corrupt" flips a byte in every body; "500" answers 500; "drop" closes the connection.
	Mode  string
	Bytes int64
	conns []*vnet.End
	// Hold parks every request until Release (the explorer owns the instant and, through Mode, the kind of answer).
	Hold     bool
	cond     *sync.Cond
	released int
	parked   int
}

// Parked is the number of requests waiting for Release and not yet released.
func (ws *WebSeed) Parked() int {
	ws.mu.Lock()
	defer ws.mu.Unlock()
	if n := ws.parked - ws.released; n > 0 && ws.Hold {
		return n
	}
	return 0
}

// Release lets one parked request be answered (with the mode set at that moment).
func (ws *WebSeed) Release() {
	ws.mu.Lock()
	ws.released++
	ws.cond.Broadcast()
	ws.mu.Unlock()
}

// ReleaseAll stops holding.
func (ws *WebSeed) ReleaseAll() {
	ws.mu.Lock()
	ws.Hold = false
	ws.cond.Broadcast()
	ws.mu.Unlock()
}

func (w *World) NewWebSeed(ip string, g *GenTorrent) *WebSeed {
	ws := &WebSeed{w: w, Addr: ip + ":80", Base: "/ws/", Mode: "ok"}
	ws.cond = sync.NewCond(&ws.mu)
	ws.URL = "http://" + ip + ws.Base
	w.WebSeeds = append(w.WebSeeds, ws)
	w.dialTargets()[ws.Addr] = func() (net.Conn, error) {
		cli, lab := vnet.NewPair(&net.TCPAddr{IP: net.IPv4(127, 0, 0, 1), Port: 50900}, &net.TCPAddr{IP: net.ParseIP(ip), Port: 80})
		ws.mu.Lock()
		ws.conns = append(ws.conns, lab)
		ws.mu.Unlock()
		go ws.serve(lab, g)
		return cli, nil
	}
	return ws
}

func (ws *WebSeed) serve(c *vnet.End, g *GenTorrent) {
	defer c.Close()
	br := bufio.NewReader(c)
	for {
		req, err := http.ReadRequest(br)
		if err != nil {
			return
		}
		ws.mu.Lock()
		ws.Requests = append(ws.Requests, req.URL.Path+" "+req.Header.Get("Range"))
		if ws.Hold {
			ws.parked++
			want := ws.parked
			for ws.Hold && ws.released < want {
				ws.cond.Wait()
			}
		}
		mode := ws.Mode
		ws.mu.Unlock()
		if mode == "drop" {
			return
		}
		if mode == "500" {
			fmt.Fprintf(c, "HTTP/1.1 500 Internal Server Error\r\nContent-Length: 0\r\n\r\n")
			continue
		}
		path, _ := url.PathUnescape(req.URL.EscapedPath())
		rel := strings.TrimPrefix(path, ws.Base)
		var data []byte
		found := false
		for fi, f := range g.L.Files {
			if f.Pad {
				continue
			}
			name := g.StoragePath(fi)
			if g.L.Single {
				name = g.L.Name
			}
			if rel == name {
				data, found = g.FileData[fi], true
			}
		}
		if !found {
			fmt.Fprintf(c, "HTTP/1.1 404 Not Found\r\nContent-Length: 0\r\n\r\n")
			continue
		}
		lo, hi := 0, len(data)-1
		if rg := req.Header.Get("Range"); strings.HasPrefix(rg, "bytes=") {
			parts := strings.SplitN(strings.TrimPrefix(rg, "bytes="), "-", 2)
			lo, _ = strconv.Atoi(parts[0])
			if len(parts) > 1 && parts[1] != "" {
				hi, _ = strconv.Atoi(parts[1])
			}
		}
		if lo < 0 || hi >= len(data) || lo > hi {
			fmt.Fprintf(c, "HTTP/1.1 416 Range Not Satisfiable\r\nContent-Length: 0\r\n\r\n")
			continue
		}
		body := append([]byte{}, data[lo:hi+1]...)
		if mode == "corrupt" && len(body) > 0 {
			body[len(body)/2] ^= 0x77
		}
		ws.mu.Lock()
		ws.Bytes += int64(len(body))
		ws.mu.Unlock()
		fmt.Fprintf(c, "HTTP/1.1 206 Partial Content\r\nContent-Length: %d\r\nContent-Range: bytes %d-%d/%d\r\n\r\n", len(body), lo, hi, len(data))
		c.Write(body)
	}
}

// CloseAll closes every connection (teardown: lets the client's idle keep-alive goroutines exit).
func (ws *WebSeed) CloseAll() {
	ws.ReleaseAll()
	ws.mu.Lock()
	defer ws.mu.Unlock()
	for _, c := range ws.conns {
		c.Close()
	}
}

func (ws *WebSeed) SetMode(m string) { ws.mu.Lock(); ws.Mode = m; ws.mu.Unlock() }
func (ws *WebSeed) NumRequests() int { ws.mu.Lock(); defer ws.mu.Unlock(); return len(ws.Requests) }

var _ = refcodec.MsgChoke

// ---------------------------------------------------------------------------------------------
// scripted HTTP tracker (BEP 3 / 23) over the in-memory network

type HTTPTrackerSrv struct {
	w    *World
	Addr string
	URL  string
	mu   sync.Mutex
	Reqs []TrackerHTTPReq
	// Peers is the compact peer list handed out; Fail makes it answer with a failure reason.
	Peers    []byte
	Fail     string
	Interval int
	conns    []*vnet.End
	// Hold parks every request until Release is called (the explorer owns the reply instant).
	Hold     bool
	cond     *sync.Cond
	released int
	parked   int
}

// Parked is the number of requests waiting for Release.
func (ts *HTTPTrackerSrv) Parked() int { ts.mu.Lock(); defer ts.mu.Unlock(); return ts.parked }

// Release lets one parked request be answered.
func (ts *HTTPTrackerSrv) Release() {
	ts.mu.Lock()
	ts.released++
	ts.cond.Broadcast()
	ts.mu.Unlock()
}

// ReleaseAll stops holding (teardown).
func (ts *HTTPTrackerSrv) ReleaseAll() {
	ts.mu.Lock()
	ts.Hold = false
	ts.cond.Broadcast()
	ts.mu.Unlock()
}

type TrackerHTTPReq struct {
	Step      int
	UserAgent string
	Query     url.Values
	RawQuery  string
}

func (w *World) NewHTTPTracker(ip string) *HTTPTrackerSrv {
	ts := &HTTPTrackerSrv{w: w, Addr: ip + ":80", URL: "http://" + ip + "/announce", Interval: 1800}
	ts.cond = sync.NewCond(&ts.mu)
	w.HTTPTrackers = append(w.HTTPTrackers, ts)
	w.dialTargets()[ts.Addr] = func() (net.Conn, error) {
		cli, lab := vnet.NewPair(&net.TCPAddr{IP: net.IPv4(127, 0, 0, 1), Port: 50800}, &net.TCPAddr{IP: net.ParseIP(ip), Port: 80})
		ts.mu.Lock()
		ts.conns = append(ts.conns, lab)
		ts.mu.Unlock()
		go ts.serve(lab)
		return cli, nil
	}
	return ts
}

func (ts *HTTPTrackerSrv) serve(c *vnet.End) {
	defer c.Close()
	br := bufio.NewReader(c)
	for {
		req, err := http.ReadRequest(br)
		if err != nil {
			return
		}
		ts.mu.Lock()
		ts.Reqs = append(ts.Reqs, TrackerHTTPReq{Step: ts.w.Step, UserAgent: req.Header.Get("User-Agent"), Query: req.URL.Query(), RawQuery: req.URL.RawQuery})
		if ts.Hold {
			ts.parked++
			want := ts.parked
			for ts.Hold && ts.released < want {
				ts.cond.Wait()
			}
		}
		var body []byte
		if ts.Fail != "" {
			body = refcodec.Benc(refcodec.D("failure reason", ts.Fail))
		} else {
			body = refcodec.Benc(refcodec.D("interval", int64(ts.Interval), "peers", ts.Peers))
		}
		ts.mu.Unlock()
		fmt.Fprintf(c, "HTTP/1.1 200 OK\r\nContent-Length: %d\r\nContent-Type: text/plain\r\n\r\n", len(body))
		c.Write(body)
	}
}

func (ts *HTTPTrackerSrv) Requests() []TrackerHTTPReq {
	ts.mu.Lock()
	defer ts.mu.Unlock()
	return append([]TrackerHTTPReq{}, ts.Reqs...)
}

func (ts *HTTPTrackerSrv) CloseAll() {
	ts.ReleaseAll()
	ts.mu.Lock()
	defer ts.mu.Unlock()
	for _, c := range ts.conns {
		c.Close()
	}
}

//go:build verif

package lab

import (
	"encoding/json"
	"fmt"
	"os"
	"testing"
)

// TestReplay re-executes one recorded execution: VERIF_REPLAY=<replay json> (fields scenario,arg,choices).
func TestReplay(t *testing.T) {
	path := os.Getenv("VERIF_REPLAY")
	if path == "" {
		t.Skip("no VERIF_REPLAY")
	}
	b, err := os.ReadFile(path)
	if err != nil {
		t.Fatal(err)
	}
	var doc struct {
		Replay struct {
			Scenario string          `json:"scenario"`
			Arg      json.RawMessage `json:"arg"`
			Choices  []int           `json:"choices"`
		} `json:"replay"`
	}
	if err := json.Unmarshal(b, &doc); err != nil {
		t.Fatal(err)
	}
	mk := Scenarios[doc.Replay.Scenario]
	if mk == nil {
		t.Fatalf("unknown scenario %q", doc.Replay.Scenario)
	}
	n := 1
	if os.Getenv("VERIF_REPLAY_TWICE") != "" {
		n = 2
	}
	var prev []uint64
	for i := 0; i < n; i++ {
		debugDigest = os.Getenv("VERIF_DEBUG_DIGEST") != ""
		res := Exec(t, mk(), doc.Replay.Arg, doc.Replay.Choices, prev)
		fmt.Printf("replay run %d: steps=%d diverged=%q outcome=%s\n", i, len(res.Trace.Choices), res.Diverged, res.Outcome)
		for _, v := range res.Violations {
			fmt.Printf("  VIOLATION %s: %s\n", v.Key, v.Desc)
		}
		prev = res.Trace.Digests
	}
}

// TestBench times repeated executions of one replay in-process (VERIF_REPLAY, VERIF_BENCH_N).
func TestBench(t *testing.T) {
	path := os.Getenv("VERIF_REPLAY")
	if path == "" {
		t.Skip("no VERIF_REPLAY")
	}
	b, _ := os.ReadFile(path)
	var doc struct {
		Replay struct {
			Scenario string          `json:"scenario"`
			Arg      json.RawMessage `json:"arg"`
			Choices  []int           `json:"choices"`
		} `json:"replay"`
	}
	json.Unmarshal(b, &doc)
	mk := Scenarios[doc.Replay.Scenario]
	for i := 0; i < 30; i++ {
		res := Exec(t, mk(), doc.Replay.Arg, doc.Replay.Choices, nil)
		_ = res
	}
}

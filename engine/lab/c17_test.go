//go:build verif

package lab

import (
	"bytes"
	"encoding/json"
	"fmt"
	"net"
	"os"
	"strings"
	"testing"
	"time"

	"github.com/cenkalti/rain/v2/zzverif/core"
	"github.com/cenkalti/rain/v2/zzverif/refcodec"
	"github.com/cenkalti/rain/v2/zzverif/vnet"
)

// C17 / C18 at session level: connection caps in both directions (established + handshaking; a failed
// handshake closes the socket), outstanding-request and upload-queue caps, and dial admission (never dial a
// blocked address, the own listening address, port 0, an IP that is connected/handshaking, or a banned IP;
// blocked / duplicate / banned incoming connections are closed without a handshake reply).

type c17Arg struct {
	Accept int  `json:"accept"` // MaxPeerAccept
	Dial   int  `json:"dial"`   // MaxPeerDial
	ReqOut int  `json:"reqout"` // MaxRequestsOut
	Depth  int  `json:"depth"`
	Banned bool `json:"banned"` // the history starts with a peer that got banned for a corrupt piece
	BL     string `json:"bl,omitempty"` // blocklist switches: "" both on | "in" incoming only | "out" outgoing only
	StopRace bool `json:"stoprace,omitempty"` // Stop reaches the loop while a completed outgoing handshake is still waiting to be handed over
	HangUp bool `json:"hangup"` // ... and that peer hung up right after its last corrupt block, before the hash check result
}

func init() { Register("c17", mkC17) }

type c17Peer struct {
	*Peer
	kind string // good | badhash | silent
}

func mkC17() *Scenario {
	sc := &Scenario{Name: "c17", Horizon: 500}
	var arg c17Arg
	var g *GenTorrent
	ops := 0
	var in []*c17Peer  // incoming connections we made
	var out []*c17Peer // peers the client dialled
	outByAddr := map[string]*c17Peer{}
	const blockedIP = "10.0.9.5"
	var bannedIP string
	forbidden := map[string]string{} // addr -> why it must never be dialled
	prop := os17Prop()
	failf := func(w *World, key, format string, a ...any) {
		if strings.HasPrefix(key, prop+".") {
			w.Failf(key, format, a...)
		}
	}
	sc.Setup = func(w *World) {
		json.Unmarshal(w.Arg, &arg)
		g = Gen(LayoutSingle(32768, 5*32768))
		w.Cfg.MaxPeerAccept = arg.Accept
		w.Cfg.MaxPeerDial = arg.Dial
		w.Cfg.MaxRequestsOut = arg.ReqOut
		w.Cfg.DefaultRequestsOut = arg.ReqOut
		w.Cfg.BlocklistEnabledForIncomingConnections = arg.BL != "out"
		w.Cfg.BlocklistEnabledForOutgoingConnections = arg.BL != "in"
		w.OpenSession()
		if err := w.S.VerifLoadBlocklist("10.0.9.0/24\n"); err != nil {
			core.HarnessError("blocklist: %v", err)
		}
		w.AddTorrent(g, nil)
		w.Vars["std"] = &StdOpts{Behaviour: map[string]*PeerBehaviour{}}
		w.CmdStart()
		w.drain(100)
		if !w.Listening() {
			core.HarnessError("c17: not listening")
		}
		port := w.Tor.VerifState().Port
		forbidden[fmt.Sprintf("127.0.0.1:%d", port)] = "own listening address"
		forbidden["10.0.5.5:0"] = "port 0"
		if arg.BL != "in" {
			forbidden[blockedIP+":6881"] = "blocked by the blocklist"
		}
		// every dial is answered by a scripted listener of the right kind
		vnet.W.DialHook = func(addr string) (net.Conn, error) {
			host, _, _ := net.SplitHostPort(addr)
			kind := "good"
			switch {
			case strings.HasPrefix(host, "10.0.2."):
				kind = "badhash"
			case strings.HasPrefix(host, "10.0.3."):
				kind = "silent"
			case strings.HasPrefix(host, "10.0.4."):
				return nil, vnet.ErrRefused
			}
			ta, _ := net.ResolveTCPAddr("tcp", addr)
			cli, lab := vnet.NewPair(&net.TCPAddr{IP: net.IPv4(127, 0, 0, 1), Port: 50000 + len(out)}, ta)
			p := &c17Peer{Peer: w.NewPeer(fmt.Sprintf("o%d", len(out)), host, ta.Port), kind: kind}
			p.Conn = lab
			p.Incoming = false
			ih := g.InfoHash
			if kind == "badhash" {
				ih[0] ^= 0xff
			}
			if kind != "silent" {
				p.replyHS = &ih
			}
			out = append(out, p)
			outByAddr[addr] = p
			return cli, nil
		}
		if arg.StopRace {
			w.Launch("AddPeer", func() any { return w.Tor.AddPeer("10.0.6.10:7000") })
			pending := func(label string) int {
				for i, a := range StdActions(w) {
					if a.Label == label {
						return i
					}
				}
				return -1
			}
			for k := 0; k < 40 && pending("deliver:outgoingHandshakerResultC") < 0; k++ {
				w.Quiesce()
				acts := StdActions(w)
				if len(acts) == 0 {
					break
				}
				acts[0].Do(w)
				w.Quiesce()
			}
			if pending("deliver:outgoingHandshakerResultC") < 0 {
				core.HarnessError("c17 setup: the outgoing handshake never completed")
			}
			w.CmdStop()
			w.Quiesce()
			if i := pending("deliver:stopCommandC"); i >= 0 {
				StdActions(w)[i].Do(w) // the loop takes the Stop before the handshake result
			} else {
				core.HarnessError("c17 setup: stop command not pending")
			}
			w.drain(100)
			w.Advance(6 * time.Second)
			w.drain(100)
			w.Count("stop_races", 1)
		}
		if arg.Banned {
			// a peer serves a corrupt piece and gets banned
			b := w.NewPeer("bad", "10.0.7.7", 7007)
			w.stdOpts().Behaviour["bad"] = &PeerBehaviour{Honest: true}
			b.ConnectIn(port, g.InfoHash)
			w.drainUntil(60, func() bool { return len(b.Requests) > 0 })
			served := 0
			for i := 0; i < 8 && b.Connected(); i++ {
				if r, ok := b.PopRequest(); ok {
					b.Serve(g, r, true)
					served++
					if arg.HangUp && served == g.L.PieceLen/16384 {
						b.Close() // the whole (corrupt) piece is on its way: the peer leaves before the verdict
						// the loop learns of the disconnect before it receives the hash check result
						for k := 0; k < 30 && w.Dead == ""; k++ {
							w.Quiesce()
							acts := StdActions(w)
							if len(acts) == 0 {
								break
							}
							pick := 0
							for ai, a := range acts {
								if a.Label == "deliver:peerDisconnectedC" {
									pick = ai
								}
							}
							if acts[pick].Label == "deliver:pieceWriterResultC" && len(acts) == 1 {
								w.Count("verdict_after_hangup", 1)
							}
							acts[pick].Do(w)
						}
					}
				}
				w.drainUntil(20, func() bool { return len(b.Requests) > 0 || !b.Connected() })
			}
			w.drain(50)
			// the premise is observed at the loop's input, not read from the client's ban list
			failed := false
			for _, e := range w.Tor.VerifEvents() {
				if e.Kind == "hashfail" && e.Source == "10.0.7.7" {
					failed = true
				}
			}
			if !failed {
				core.HarnessError("c17 setup: no piece of the corrupting peer failed its hash check: %+v", w.Tor.VerifState())
			}
			bannedIP = "10.0.7.7"
			forbidden[bannedIP+":7007"] = "banned for sending corrupt data"
		}
	}
	connectIn := func(w *World, ip, kind string) {
		p := &c17Peer{Peer: w.NewPeer(fmt.Sprintf("i%d", len(in)), ip, 6000+len(in)), kind: kind}
		c, err := vnet.W.Connect(w.Tor.VerifState().Port, p.Addr)
		if err != nil {
			return
		}
		p.Conn = c
		p.Incoming = true
		ih := g.InfoHash
		if kind == "badhash" {
			ih[0] ^= 0xff
		}
		if kind == "serving" {
			// a seed that speaks the extension protocol and advertises a request queue far above MaxRequestsOut:
			// handshake, extension handshake (reqq 500), bitfield and unchoke in one segment; it never answers,
			// so everything the client asks stays outstanding
			var res [8]byte
			res[5] |= 0x10
			var b []byte
			b = append(b, refcodec.Handshake(ih, p.ID, res)...)
			b = append(b, refcodec.Extended(0, refcodec.ExtHandshakePayload(map[string]int{}, "lab", nil, 0, 500)).Encode()...)
			b = append(b, refcodec.Bitfield(g.AllBitfield()).Encode()...)
			b = append(b, refcodec.Simple(refcodec.MsgUnchoke).Encode()...)
			p.SendRaw(b)
			p.SentHS = true
			w.Count("serving_peers", 1)
		} else if kind != "silent" {
			p.SendRaw(refcodec.Handshake(ih, p.ID, [8]byte{}))
			p.SentHS = true
		}
		in = append(in, p)
	}
	addPeer := func(w *World, addr string) {
		w.Launch("AddPeer", func() any { return w.Tor.AddPeer(addr) })
	}
	alphabet := func(w *World) []Action {
		var a []Action
		add := func(label string, do func(w *World)) {
			a = append(a, Action{Label: "op:" + label, Cost: -1, Do: func(w *World) { ops++; do(w) }})
		}
		n := len(in)
		add("in:good", func(w *World) { connectIn(w, fmt.Sprintf("10.0.1.%d", 10+n), "good") })
		add("in:serving-reqq500", func(w *World) { connectIn(w, fmt.Sprintf("10.0.1.%d", 100+n), "serving") })
		add("in:badhash", func(w *World) { connectIn(w, fmt.Sprintf("10.0.1.%d", 40+n), "badhash") })
		add("in:silent", func(w *World) { connectIn(w, fmt.Sprintf("10.0.1.%d", 70+n), "silent") })
		add("in:blocked-ip", func(w *World) { connectIn(w, blockedIP, "good") })
		add("in:same-ip-as-first", func(w *World) {
			ip := "10.0.1.10"
			if len(in) > 0 {
				ip = in[0].Addr.IP.String()
			}
			connectIn(w, ip, "good")
		})
		if bannedIP != "" {
			add("in:banned-ip", func(w *World) { connectIn(w, bannedIP, "good") })
			add("dial:banned", func(w *World) { addPeer(w, bannedIP+":7007") })
		}
		m := len(out)
		add("dial:good", func(w *World) { addPeer(w, fmt.Sprintf("10.0.6.%d:7000", 10+m)) })
		add("dial:badhash", func(w *World) { addPeer(w, fmt.Sprintf("10.0.2.%d:7000", 10+m)) })
		add("dial:silent", func(w *World) { addPeer(w, fmt.Sprintf("10.0.3.%d:7000", 10+m)) })
		add("dial:refused", func(w *World) { addPeer(w, fmt.Sprintf("10.0.4.%d:7000", 10+m)) })
		add("dial:blocked", func(w *World) { addPeer(w, blockedIP+":6881") })
		add("dial:own-address", func(w *World) { addPeer(w, fmt.Sprintf("127.0.0.1:%d", w.Tor.VerifState().Port)) })
		add("dial:port0", func(w *World) { addPeer(w, "10.0.5.5:0") })
		add("dial:connected-ip", func(w *World) {
			ip := "10.0.1.10"
			for _, p := range in {
				if p.Connected() && p.GotHS {
					ip = p.Addr.IP.String()
				}
			}
			forbiddenNow := false
			for _, cip := range w.Tor.VerifState().ConnectedIPs {
				if cip == ip {
					forbiddenNow = true
				}
			}
			if forbiddenNow {
				w.Vars["noDial:"+ip] = w.Step
			}
			addPeer(w, ip+":7100")
		})
		add("advance:11s", func(w *World) { w.Advance(11 * time.Second) })
		return a
	}
	sc.Actions = func(w *World) []Action {
		acts := StdActions(w)
		if len(acts) > 0 {
			return acts[:1]
		}
		if ops < arg.Depth {
			return alphabet(w)
		}
		// let pending handshake timeouts expire before the final judgement
		if k, _ := w.Vars["tail"].(int); k < 2 {
			return []Action{{Label: "advance:11s", Do: func(w *World) { w.Vars["tail"] = k + 1; w.Advance(11 * time.Second) }}}
		}
		return nil
	}
	open := func(ps []*c17Peer) int {
		n := 0
		for _, p := range ps {
			if p.Conn != nil && !p.Conn.RemoteClosed() && !p.Conn.LocalClosed() {
				n++
			}
		}
		return n
	}
	sc.Check = func(w *World) {
		st := w.Tor.VerifState()
		stats := w.Tor.VerifStats()
		// caps on what the client itself counts
		if st.IncomingPeers+st.IncomingHandshakers > arg.Accept {
			failf(w, "C17.cap.incoming", "incoming peers %d + incoming handshakes %d exceed MaxPeerAccept %d", st.IncomingPeers, st.IncomingHandshakers, arg.Accept)
		}
		if st.OutgoingPeers+st.OutgoingHandshakers > arg.Dial {
			failf(w, "C17.cap.outgoing", "outgoing peers %d + outgoing handshakes %d exceed MaxPeerDial %d", st.OutgoingPeers, st.OutgoingHandshakers, arg.Dial)
		}
		// caps on what the network sees: sockets the client has not closed. Judged only when the loop has
		// nothing pending (a connection still waiting to be handed to the loop is not the client's decision yet).
		drained := len(w.Ready(0)) == 0
		if n := open(in); drained && n > arg.Accept {
			failf(w, "C17.sockets.incoming", "%d incoming connections are open on the wire (client has not closed them) but MaxPeerAccept is %d and the client accounts for %d peers + %d handshakes: connections whose handshake failed or that were refused are kept open", n, arg.Accept, st.IncomingPeers, st.IncomingHandshakers)
		}
		if n := open(out); drained && n > arg.Dial {
			failf(w, "C17.sockets.outgoing", "%d outgoing connections are open on the wire but MaxPeerDial is %d", n, arg.Dial)
		}
		// outstanding block requests per peer
		for _, p := range w.Peers {
			if len(p.Requests) > arg.ReqOut {
				failf(w, "C17.cap.requests-out", "peer %s has %d outstanding block requests from the client, MaxRequestsOut is %d", p.Name, len(p.Requests), arg.ReqOut)
			}
		}
		_ = stats
		// dial admission
		for _, d := range vnet.W.DialLog() {
			if why, bad := forbidden[d.Addr]; bad {
				failf(w, "C18.dialled-forbidden."+strings.Fields(why)[0], "the client dialled %s (%s)", d.Addr, why)
			}
		}
		// never dial an IP the client is already connected or connecting to (judged against the state before this step)
		prevConn, _ := w.Vars["prevConnected"].(map[string]bool)
		seenDials, _ := w.Vars["seenDials"].(int)
		dl := vnet.W.DialLog()
		for _, d := range dl[min(seenDials, len(dl)):] {
			host, _, _ := net.SplitHostPort(d.Addr)
			if prevConn[host] {
				failf(w, "C18.dialled-connected-ip", "the client dialled %s although it was already connected or connecting to that IP", d.Addr)
			}
			w.Count("dials_checked_against_connected", 1)
		}
		w.Vars["seenDials"] = len(dl)
		pc := map[string]bool{}
		for _, ip := range st.ConnectedIPs {
			pc[ip] = true
		}
		w.Vars["prevConnected"] = pc
		// refused incoming connections get no handshake reply
		for _, p := range in {
			ip := p.Addr.IP.String()
			if ((ip == blockedIP && arg.BL != "out") || (bannedIP != "" && ip == bannedIP)) && p.GotHS {
				failf(w, "C18.incoming-forbidden-answered", "incoming connection from %s (blocked/banned) received a handshake reply", ip)
			}
		}
		w.Count("dials", int64(len(vnet.W.DialLog())))
	}
	sc.Final = func(w *World) {
		st := w.Tor.VerifState()
		// a connection whose handshake failed is closed, not kept
		for _, p := range in {
			if (p.kind == "badhash" || p.kind == "silent") && p.Conn != nil && !p.Conn.RemoteClosed() {
				failf(w, "C17.failed-handshake-kept."+p.kind, "incoming connection %s (%s handshake) was never closed by the client although its handshake failed (client counts %d peers + %d handshakes)", p.Name, p.kind, st.IncomingPeers, st.IncomingHandshakers)
			}
			ip := p.Addr.IP.String()
			if ip == blockedIP && arg.BL != "out" && p.Conn != nil && !p.Conn.RemoteClosed() {
				failf(w, "C18.incoming-blocked-kept", "incoming connection from the blocked address %s was not closed", ip)
			}
		}
		if st.Status == "Stopped" {
			// a stopped torrent keeps no connection: whatever was dialled or accepted has been closed by the client
			for _, p := range append(append([]*c17Peer{}, in...), out...) {
				if p.Conn != nil && !p.Conn.RemoteClosed() {
					failf(w, "C17.stopped-connection-kept", "the torrent is Stopped but the connection with %s was never closed by the client (client counts %d+%d peers, %d+%d handshakes)", p.Addr, st.IncomingPeers, st.OutgoingPeers, st.IncomingHandshakers, st.OutgoingHandshakers)
				}
			}
		}
		for _, p := range out {
			if (p.kind == "badhash" || p.kind == "silent") && p.Conn != nil && !p.Conn.RemoteClosed() {
				failf(w, "C17.failed-handshake-kept.outgoing-"+p.kind, "outgoing connection to %s (%s handshake) was never closed by the client", p.Addr, p.kind)
			}
		}
		w.Count("incoming_made", int64(len(in)))
		w.Count("outgoing_seen", int64(len(out)))
	}
	sc.Outcome = func(w *World) string {
		st := w.Tor.VerifState()
		return fmt.Sprintf("in=%d/%d out=%d/%d", st.IncomingPeers, st.IncomingHandshakers, st.OutgoingPeers, st.OutgoingHandshakers)
	}
	return sc
}

func TestC17Lab(t *testing.T) {
	ServeIfWorker(t)
	rep := core.NewReport(os17Prop(), "lab-limits", "model_checking")
	rep.Rule = "leeching torrent with MaxPeerAccept/MaxPeerDial in {1,2}, MaxRequestsOut in {1,2}, blocklist 10.0.9.0/24 (applied to both directions, to incoming only, to outgoing only): every history of <= depth operations over {incoming connection: good / seed with extension handshake reqq 500 that never answers / wrong info-hash / silent / from a blocked IP / from an already connected IP / from a banned IP; AddPeer of an address that answers well / with a wrong info-hash / never / refuses / is blocked / is the own listening address / has port 0 / belongs to a connected IP / is banned (the banned peer having stayed, or having hung up before the verdict on its corrupt piece); 11 s clock advance}; caps on the client's own counters and on the sockets it has not closed, failed handshakes closed, forbidden addresses never dialled"
	rep.Assumptions = []string{"rate limits and the read-cache / write-cache budgets are the component-level parts", "one torrent"}
	depth := 3
	var runs []Run
	for _, acc := range []int{1, 2} {
		for _, dial := range []int{1, 2} {
			for _, banned := range []bool{false, true} {
				d := depth
				if core.Thorough() {
					d = 4
				}
				if banned && !(acc == 1 && dial == 1) && !core.Thorough() {
					continue
				}
				runs = append(runs, Run{Scenario: "c17", Arg: c17Arg{Accept: acc, Dial: dial, ReqOut: acc, Depth: d, Banned: banned}, Budget: 0, MaxExec: 400000})
			}
		}
	}
	// Stop overtakes a completed outgoing handshake
	runs = append(runs, Run{Scenario: "c17", Arg: c17Arg{Accept: 2, Dial: 2, ReqOut: 2, Depth: 1, StopRace: true}, Budget: 0, MaxExec: 400000})
	// the blocklist applied to one direction only
	for _, bl := range []string{"in", "out"} {
		runs = append(runs, Run{Scenario: "c17", Arg: c17Arg{Accept: 2, Dial: 2, ReqOut: 2, Depth: 2, BL: bl}, Budget: 0, MaxExec: 400000})
	}
	// the banned peer hung up before the verdict on its corrupt piece arrived
	runs = append(runs, Run{Scenario: "c17", Arg: c17Arg{Accept: 2, Dial: 2, ReqOut: 2, Depth: 2, Banned: true, HangUp: true}, Budget: 0, MaxExec: 400000})
	Explore(os17Test(), rep, runs)
	if n, _ := rep.Extra["dials"].(int64); n == 0 {
		rep.Vacuous("vacuous: the client never dialled")
	}
	rep.Finish()
}

// The same scenario decides the session-level clauses of C17 and of C18; VERIF_PROP selects whose
// evidence is being written (violation keys carry their own property prefix).
func os17Prop() string {
	if p := strings.TrimSpace(os.Getenv("VERIF_PROP")); p == "C18" {
		return "C18"
	}
	return "C17"
}
func os17Test() string { return "TestC17Lab" }

var _ = bytes.Equal

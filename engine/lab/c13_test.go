//go:build verif

package lab

import (
	"bytes"
	"crypto/sha1"
	"encoding/hex"
	"encoding/json"
	"fmt"
	"testing"
	"time"

	"github.com/cenkalti/rain/v2/torrent"
	"github.com/cenkalti/rain/v2/zzverif/core"
	"github.com/cenkalti/rain/v2/zzverif/refcodec"
)

// C13 — magnet metadata. A torrent added by magnet link is fed metadata pieces by a liar L and an honest
// peer H; every history of bounded depth over the adversarial message alphabet is executed.

type c13Arg struct {
	Blocks   int  `json:"blocks"`   // metadata size in 16 KiB blocks (last one short)
	Parallel int  `json:"parallel"` // ParallelMetadataDownloads
	Depth    int  `json:"depth"`
	Honest   bool `json:"honest"` // honest peer H present
	StopAM   bool `json:"stopam"` // StopAfterMetadata
	LSize    int  `json:"lsize"` // what L announces as metadata_size: 0 true, 1 true+1, 2 true-1, 3 zero, 4 max, 5 max+1
	HRev     bool `json:"hrev,omitempty"` // the honest peer answers the newest outstanding metadata request first (no order is prescribed)
}

const utMetadataID = 3 // the id our scripted peers assign to ut_metadata

func init() { Register("c13", mkC13) }

// genMagnet builds a torrent whose info dictionary spans the requested number of metadata blocks.
func genMagnet(blocks int) *GenTorrent {
	l := LayoutSingle(32768, 40000)
	g := Gen(l)
	if blocks <= 1 {
		return g
	}
	// pad the info dictionary with an unknown key so that it needs `blocks` metadata pieces
	pad := make([]byte, (blocks-1)*16384+500-len(g.InfoBytes)%16384)
	for i := range pad {
		pad[i] = byte('a' + i%26)
	}
	var pieces []byte
	for _, h := range g.Hashes {
		pieces = append(pieces, h[:]...)
	}
	info := refcodec.D("name", l.Name, "piece length", int64(l.PieceLen), "pieces", pieces, "length", int64(l.Files[0].Len), "x-lab-pad", pad)
	g.InfoBytes = refcodec.Benc(info)
	g.InfoHash = sha1.Sum(g.InfoBytes)
	g.MetaInfo = refcodec.Benc(refcodec.D("info", refcodec.Raw(g.InfoBytes)))
	return g
}

// metaPeer wraps a scripted peer with metadata-extension bookkeeping.
type metaPeer struct {
	*Peer
	extSent  bool
	metaReqs []uint32 // outstanding ut_metadata requests from the client (piece indexes)
	seen     int
	allReqs  int
}

func (m *metaPeer) scan() {
	for ; m.seen < len(m.Inbox); m.seen++ {
		x := m.Inbox[m.seen]
		if x.ID != refcodec.MsgExtended || x.ExtID() != utMetadataID {
			continue
		}
		d, _, err := refcodec.DecodeExtPayload(x.ExtPayload())
		if err != nil {
			continue
		}
		if t, ok := d.Int("msg_type"); ok && t == 0 {
			p, _ := d.Int("piece")
			m.metaReqs = append(m.metaReqs, uint32(p))
			m.allReqs++
		}
	}
}

func (m *metaPeer) sendExtHandshake(size int64) {
	m.Send(refcodec.Extended(0, refcodec.ExtHandshakePayload(map[string]int{"ut_metadata": utMetadataID}, "lab", nil, size, 0)))
	m.extSent = true
}

func (m *metaPeer) sendData(piece uint32, total int64, data []byte) {
	m.Send(refcodec.Extended(clientMetadataID(m.Peer), refcodec.MetadataPayload(1, piece, total, data)))
}

func (m *metaPeer) sendReject(piece uint32) {
	m.Send(refcodec.Extended(clientMetadataID(m.Peer), refcodec.MetadataPayload(2, piece, -1, nil)))
}

// clientMetadataID is the id the CLIENT assigned to ut_metadata in its extension handshake (messages to the client use it).
func clientMetadataID(p *Peer) byte {
	for _, x := range p.Inbox {
		if x.ID == refcodec.MsgExtended && x.ExtID() == 0 {
			if d, _, err := refcodec.DecodeExtPayload(x.ExtPayload()); err == nil {
				if mv, ok := d.Get("m"); ok {
					if md, ok := mv.(*refcodec.Dict); ok {
						if id, ok := md.Int("ut_metadata"); ok {
							return byte(id)
						}
					}
				}
			}
		}
	}
	return 1
}

func blockOf(b []byte, i uint32) []byte {
	s := int(i) * 16384
	if s >= len(b) {
		return nil
	}
	return b[s:min(s+16384, len(b))]
}

func mkC13() *Scenario {
	sc := &Scenario{Name: "c13", Horizon: 400}
	var arg c13Arg
	var L, H *metaPeer
	var g *GenTorrent
	ops := 0
	const maxMeta = 64 << 10
	sc.Setup = func(w *World) {
		json.Unmarshal(w.Arg, &arg)
		g = genMagnet(arg.Blocks)
		w.G = g
		w.Cfg.MaxMetadataSize = maxMeta
		w.Cfg.ParallelMetadataDownloads = arg.Parallel
		w.OpenSession()
		link := "magnet:?xt=urn:btih:" + hex.EncodeToString(g.InfoHash[:]) + "&dn=magnet-name"
		t, err := w.S.AddURI(link, &torrent.AddTorrentOptions{Stopped: true, StopAfterMetadata: arg.StopAM})
		if err != nil {
			core.HarnessError("AddURI: %v", err)
		}
		w.Tor = t
		w.Tors = append(w.Tors, t)
		w.Quiesce()
		w.Vars["std"] = &StdOpts{Behaviour: map[string]*PeerBehaviour{}}
		L = &metaPeer{Peer: w.NewPeer("L", "10.0.0.1", 5001)}
		L.Ext = true
		w.CmdStart()
		w.drain(50)
		if !w.Listening() {
			core.HarnessError("magnet torrent not listening after start: %+v", w.Tor.VerifState())
		}
		if err := L.ConnectIn(w.Tor.VerifState().Port, g.InfoHash); err != nil {
			core.HarnessError("connect: %v", err)
		}
		w.drain(50)
		if arg.Honest {
			H = &metaPeer{Peer: w.NewPeer("H", "10.0.0.2", 5002)}
			H.Ext = true
			if err := H.ConnectIn(w.Tor.VerifState().Port, g.InfoHash); err != nil {
				core.HarnessError("connect H: %v", err)
			}
			w.drain(50)
		}
		var lsize int64
		switch arg.LSize {
		case 0:
			lsize = int64(len(g.InfoBytes))
		case 1:
			lsize = int64(len(g.InfoBytes)) + 1
		case 2:
			lsize = int64(len(g.InfoBytes)) - 1
		case 3:
			lsize = 0
		case 4:
			lsize = maxMeta
		case 5:
			lsize = maxMeta + 1
		case 6:
			lsize = 1<<32 + int64(len(g.InfoBytes)) // far above the maximum; its low 32 bits are the true size
		}
		w.Vars["lsize"] = lsize
		L.sendExtHandshake(lsize)
		w.drain(50)
	}
	alphabet := func(w *World) []Action {
		var a []Action
		if !L.Connected() {
			return nil
		}
		L.scan()
		add := func(label string, do func(w *World)) {
			a = append(a, Action{Label: "op:" + label, Cost: -1, Do: func(w *World) { ops++; do(w) }})
		}
		total := int64(len(g.InfoBytes))
		lsize, _ := w.Vars["lsize"].(int64)
		next := uint32(0)
		if len(L.metaReqs) > 0 {
			next = L.metaReqs[0]
		}
		pop := func() {
			if len(L.metaReqs) > 0 {
				L.metaReqs = L.metaReqs[1:]
			}
		}
		add("L:right-block", func(w *World) { L.sendData(next, total, blockOf(g.InfoBytes, next)); pop() })
		add("L:garbage-right-size", func(w *World) {
			// a block of the size the announced total implies for this index (never materialise the whole total)
			tot := max(lsize, int64(len(g.InfoBytes)))
			n := min(int64(16384), max(tot-int64(next)*16384, 0))
			b := bytes.Repeat([]byte{'z'}, int(n))
			L.sendData(next, total, b)
			pop()
		})
		add("L:wrong-size", func(w *World) { L.sendData(next, total, []byte("short")) })
		add("L:unrequested-index", func(w *World) { L.sendData(next+1, total, blockOf(g.InfoBytes, next+1)) })
		add("L:duplicate", func(w *World) {
			L.sendData(next, total, blockOf(g.InfoBytes, next))
			L.sendData(next, total, blockOf(g.InfoBytes, next))
			pop()
		})
		add("L:index-max", func(w *World) { L.sendData(0xffffffff, total, blockOf(g.InfoBytes, 0)) })
		add("L:total-size-lie", func(w *World) { L.sendData(next, 1, blockOf(g.InfoBytes, next)); pop() })
		add("L:reject", func(w *World) { L.sendReject(next); pop() })
		add("L:request-from-client", func(w *World) {
			L.Send(refcodec.Extended(clientMetadataID(L.Peer), refcodec.MetadataPayload(0, 0, -1, nil)))
		})
		add("L:second-ext-handshake", func(w *World) { L.sendExtHandshake(int64(len(g.InfoBytes))) })
		return a
	}
	honestStep := func(w *World) *Action {
		if H == nil || !H.Connected() {
			return nil
		}
		H.scan()
		if !H.extSent && H.GotHS {
			return &Action{Label: "H:ext-handshake", Do: func(w *World) { H.sendExtHandshake(int64(len(g.InfoBytes))) }}
		}
		if len(H.metaReqs) > 0 {
			k := 0
			if arg.HRev {
				k = len(H.metaReqs) - 1
			}
			p := H.metaReqs[k]
			return &Action{Label: fmt.Sprintf("H:data(%d)", p), Do: func(w *World) {
				H.metaReqs = append(H.metaReqs[:k:k], H.metaReqs[k+1:]...)
				H.sendData(p, int64(len(g.InfoBytes)), blockOf(g.InfoBytes, p))
			}}
		}
		return nil
	}
	sc.Actions = func(w *World) []Action {
		acts := StdActions(w)
		if len(acts) > 0 {
			return acts[:1]
		}
		if ops < arg.Depth {
			if a := alphabet(w); len(a) > 0 {
				return a
			}
		}
		// after the adversarial history: the honest peer (if any) serves under the default policy
		if hs := honestStep(w); hs != nil {
			return []Action{*hs}
		}
		// a stalling liar occupies a download slot until its request times out (snub): let time pass
		if st := w.Tor.VerifState(); arg.Honest && !st.HasInfo && st.LastError == "" {
			if n, _ := w.Vars["waited"].(int); n < 4 {
				return []Action{{Label: "advance:25s", Do: func(w *World) { w.Vars["waited"] = n + 1; w.Advance(25 * time.Second) }}}
			}
		}
		return nil
	}
	sc.Check = func(w *World) {
		s := w.Tor.VerifState()
		L.scan()
		if H != nil {
			H.scan()
		}
		// adopted metadata must hash to the link's info-hash
		ib := w.Tor.VerifInfoBytes()
		if s.HasInfo || s.MetadataClosed {
			if ib == nil || sha1.Sum(ib) != g.InfoHash {
				w.Failf("C13.adopted-wrong-metadata", "metadata adopted (hasInfo=%v, NotifyMetadata closed=%v) but its SHA-1 is not the info-hash of the magnet link", s.HasInfo, s.MetadataClosed)
			}
			w.Count("adopted", 1)
		}
		if b, err := w.Tor.Torrent(); err == nil {
			// Torrent() succeeded: the info dictionary inside must hash to the link's info-hash
			v, _, derr := refcodec.Decode(b)
			ok := false
			if d, isDict := v.(*refcodec.Dict); derr == nil && isDict {
				if _, has := d.Get("info"); has {
					ok = ib != nil && sha1.Sum(ib) == g.InfoHash
				}
			}
			if !ok {
				w.Failf("C13.torrent-export-wrong", "Torrent() returned bytes although no metadata with the right hash was adopted")
			}
		}
		// metadata announced larger than the maximum is never fetched
		if lsize, _ := w.Vars["lsize"].(int64); lsize > maxMeta && L.allReqs > 0 {
			w.Failf("C13.oversize-fetched", "peer announced metadata_size %d > max %d and the client sent %d metadata requests to it", lsize, maxMeta, L.allReqs)
		}
	}
	sc.Final = func(w *World) {
		s := w.Tor.VerifState()
		if arg.Honest && !s.HasInfo && s.LastError != "" {
			w.Failf("C13.stopped-by-liar", "an honest peer offered the metadata, but what the other peer sent stopped the whole torrent with error %q (status %s)", s.LastError, s.Status)
		}
		if arg.Honest && H.GotHS && !H.Connected() && !s.HasInfo && s.LastError == "" {
			// the honest peer did nothing but answer requests correctly (in whatever order): the client dropping it is how an
			// honest source gets lost
			w.Failf("C13.honest-dropped", "the honest peer, which only ever answered metadata requests with the right blocks, was disconnected by the client and the metadata was not adopted (status %s, H requests seen %d)", s.Status, H.allReqs)
		}
		if arg.Honest && H.Connected() && !s.HasInfo && s.LastError == "" {
			w.Failf("C13.honest-not-adopted", "an honest peer offering the metadata is connected but the metadata was not adopted (status %s, info downloaders %d, H requests seen %d, L connected %v)", s.Status, s.InfoDownloaders, H.allReqs, L.Connected())
		}
		if arg.Honest && s.HasInfo {
			w.Count("adopted_from_honest_run", 1)
		}
	}
	sc.Outcome = func(w *World) string {
		s := w.Tor.VerifState()
		return fmt.Sprintf("%s/info=%v/L=%v", s.Status, s.HasInfo, L.Connected())
	}
	return sc
}

func TestC13Lab(t *testing.T) {
	ServeIfWorker(t)
	rep := core.NewReport("C13", "lab-magnet", "model_checking")
	rep.Rule = "torrent added by magnet link; liar L (and optionally honest H) speak ut_metadata; metadata of 1..3 blocks; L announces size {true, +1, -1, 0, max, max+1, 2^32+true}; every history of <= depth operations over {right block, garbage of right size, wrong size, unrequested index, duplicate, index 2^32-1, total_size lie, reject, request, second ext handshake}; then H serves honestly; ParallelMetadataDownloads {1,2}; StopAfterMetadata on/off"
	rep.Assumptions = []string{"two peers; metadata content fixed per block count", "SHA-1 collisions outside the alphabet"}
	depth := 3
	if core.Thorough() {
		depth = 4
	}
	var runs []Run
	for _, blocks := range []int{1, 2, 3} {
		for _, par := range []int{1, 2} {
			for _, honest := range []bool{false, true} {
				for lsize := 0; lsize <= 6; lsize++ {
					d := depth
					if lsize != 0 {
						d = 2
					}
					if blocks == 3 && !core.Thorough() && lsize != 0 {
						continue
					}
					runs = append(runs, Run{Scenario: "c13", Arg: c13Arg{Blocks: blocks, Parallel: par, Depth: d, Honest: honest, LSize: lsize}, Budget: 0, MaxExec: 300000})
				}
			}
		}
	}
	runs = append(runs, Run{Scenario: "c13", Arg: c13Arg{Blocks: 2, Parallel: 1, Depth: 2, Honest: true, StopAM: true}, Budget: 0})
	// an honest peer that answers its outstanding metadata requests newest first
	for _, blocks := range []int{2, 3} {
		for _, par := range []int{1, 2} {
			runs = append(runs, Run{Scenario: "c13", Arg: c13Arg{Blocks: blocks, Parallel: par, Depth: 1, Honest: true, HRev: true}, Budget: 0, MaxExec: 300000})
		}
	}
	Explore("TestC13Lab", rep, runs)
	if n, _ := rep.Extra["adopted"].(int64); n == 0 {
		rep.Vacuous("vacuous: metadata was never adopted in any execution")
	}
	rep.Finish()
}

//go:build verif

package lab

import (
	"bytes"
	"encoding/hex"
	"encoding/json"
	"fmt"
	"testing"
	"time"

	"github.com/cenkalti/rain/v2/torrent"
	"github.com/cenkalti/rain/v2/zzverif/core"
	"github.com/cenkalti/rain/v2/zzverif/refcodec"
)

// C08 — untrusted peer input at session level: an attacker peer sends every sequence (bounded depth) of
// syntactically valid messages with hostile field values while the torrent is in a given state and an
// honest peer is part-way through its exchange; afterwards the honest exchange must still complete.

type c08Arg struct {
	State string `json:"state"` // nometa | allocating | verifying | downloading | seeding
	Depth int    `json:"depth"`
}

func init() { Register("c08", mkC08) }

type c08Msg struct {
	Name string
	Raw  func(g *GenTorrent, cid byte) []byte
}

func c08Alphabet() []c08Msg {
	m := func(name string, f func(g *GenTorrent, cid byte) refcodec.Msg) c08Msg {
		return c08Msg{name, func(g *GenTorrent, cid byte) []byte { return f(g, cid).Encode() }}
	}
	n := func(g *GenTorrent) uint32 { return uint32(g.NumPieces) }
	blk := make([]byte, 16384)
	// bursts: a message the handler rejects (the peer gets closed) with further messages behind it in the same
	// segment - the peer's reader is already offering the next message when the loop closes the peer
	burst := func(name string, fs ...func(g *GenTorrent) refcodec.Msg) c08Msg {
		return c08Msg{name, func(g *GenTorrent, cid byte) []byte {
			var b []byte
			for _, f := range fs {
				b = append(b, f(g).Encode()...)
			}
			return b
		}}
	}
	interested := func(g *GenTorrent) refcodec.Msg { return refcodec.Simple(refcodec.MsgInterested) }
	bursts := []c08Msg{
		burst("have(max)+interested+have(0)", func(g *GenTorrent) refcodec.Msg { return refcodec.Have(0xffffffff) }, interested, func(g *GenTorrent) refcodec.Msg { return refcodec.Have(0) }),
		burst("request(n)+interested", func(g *GenTorrent) refcodec.Msg { return refcodec.Request(n(g), 0, 16384) }, interested),
		burst("bitfield(long)+unchoke+have(0)", func(g *GenTorrent) refcodec.Msg { return refcodec.Bitfield(append(g.AllBitfield(), 0xff, 0xff)) },
			func(g *GenTorrent) refcodec.Msg { return refcodec.Simple(refcodec.MsgUnchoke) }, func(g *GenTorrent) refcodec.Msg { return refcodec.Have(0) }),
		burst("piece(n,0)+interested+piece(0,0)", func(g *GenTorrent) refcodec.Msg { return refcodec.Piece(n(g), 0, blk) }, interested, func(g *GenTorrent) refcodec.Msg { return refcodec.Piece(0, 0, blk) }),
	}
	return append(bursts, []c08Msg{
		m("have(0)", func(g *GenTorrent, _ byte) refcodec.Msg { return refcodec.Have(0) }),
		m("have(n-1)", func(g *GenTorrent, _ byte) refcodec.Msg { return refcodec.Have(n(g) - 1) }),
		m("have(n)", func(g *GenTorrent, _ byte) refcodec.Msg { return refcodec.Have(n(g)) }),
		m("have(max)", func(g *GenTorrent, _ byte) refcodec.Msg { return refcodec.Have(0xffffffff) }),
		m("bitfield(ok)", func(g *GenTorrent, _ byte) refcodec.Msg { return refcodec.Bitfield(g.AllBitfield()) }),
		m("bitfield(short)", func(g *GenTorrent, _ byte) refcodec.Msg { return refcodec.Bitfield(nil) }),
		m("bitfield(long)", func(g *GenTorrent, _ byte) refcodec.Msg { return refcodec.Bitfield(append(g.AllBitfield(), 0xff, 0xff)) }),
		m("bitfield(spare-bits)", func(g *GenTorrent, _ byte) refcodec.Msg {
			b := g.AllBitfield()
			b[len(b)-1] |= 0x01
			return refcodec.Bitfield(b)
		}),
		m("haveall", func(g *GenTorrent, _ byte) refcodec.Msg { return refcodec.Simple(refcodec.MsgHaveAll) }),
		m("havenone", func(g *GenTorrent, _ byte) refcodec.Msg { return refcodec.Simple(refcodec.MsgHaveNone) }),
		m("allowedfast(0)", func(g *GenTorrent, _ byte) refcodec.Msg { return refcodec.AllowedFast(0) }),
		m("allowedfast(n)", func(g *GenTorrent, _ byte) refcodec.Msg { return refcodec.AllowedFast(n(g)) }),
		m("request(0,0,16K)", func(g *GenTorrent, _ byte) refcodec.Msg { return refcodec.Request(0, 0, 16384) }),
		m("request(n,0,16K)", func(g *GenTorrent, _ byte) refcodec.Msg { return refcodec.Request(n(g), 0, 16384) }),
		m("request(0,max,16K)", func(g *GenTorrent, _ byte) refcodec.Msg { return refcodec.Request(0, 0xffffffff, 16384) }),
		m("request(0,0,0)", func(g *GenTorrent, _ byte) refcodec.Msg { return refcodec.Request(0, 0, 0) }),
		m("cancel(0,0,16K)", func(g *GenTorrent, _ byte) refcodec.Msg { return refcodec.Cancel(0, 0, 16384) }),
		m("cancel(max)", func(g *GenTorrent, _ byte) refcodec.Msg { return refcodec.Cancel(0xffffffff, 0, 16384) }),
		m("reject(0,0,16K)", func(g *GenTorrent, _ byte) refcodec.Msg { return refcodec.Reject(0, 0, 16384) }),
		m("reject(n)", func(g *GenTorrent, _ byte) refcodec.Msg { return refcodec.Reject(n(g), 0, 16384) }),
		m("piece(0,0)", func(g *GenTorrent, _ byte) refcodec.Msg { return refcodec.Piece(0, 0, blk) }),
		m("piece(n,0)", func(g *GenTorrent, _ byte) refcodec.Msg { return refcodec.Piece(n(g), 0, blk) }),
		m("piece(0,1,len5)", func(g *GenTorrent, _ byte) refcodec.Msg { return refcodec.Piece(0, 1, blk[:5]) }),
		m("choke", func(g *GenTorrent, _ byte) refcodec.Msg { return refcodec.Simple(refcodec.MsgChoke) }),
		m("unchoke", func(g *GenTorrent, _ byte) refcodec.Msg { return refcodec.Simple(refcodec.MsgUnchoke) }),
		m("interested", func(g *GenTorrent, _ byte) refcodec.Msg { return refcodec.Simple(refcodec.MsgInterested) }),
		m("port", func(g *GenTorrent, _ byte) refcodec.Msg { return refcodec.Port(6881) }),
		m("suggest(0)", func(g *GenTorrent, _ byte) refcodec.Msg { return refcodec.Suggest(0) }),
		m("unknown-id-21", func(g *GenTorrent, _ byte) refcodec.Msg { return refcodec.Msg{ID: 21, Body: []byte{1, 2, 3}} }),
		m("ext-hs(meta,size ok)", func(g *GenTorrent, _ byte) refcodec.Msg {
			return refcodec.Extended(0, refcodec.ExtHandshakePayload(map[string]int{"ut_metadata": 3, "ut_pex": 4}, "evil", nil, int64(len(g.InfoBytes)), 5))
		}),
		m("ext-hs(size>max)", func(g *GenTorrent, _ byte) refcodec.Msg {
			return refcodec.Extended(0, refcodec.ExtHandshakePayload(map[string]int{"ut_metadata": 3}, "evil", nil, 1<<40, 0))
		}),
		m("ext-hs(size -1)", func(g *GenTorrent, _ byte) refcodec.Msg {
			return refcodec.Extended(0, refcodec.Benc(refcodec.D("m", refcodec.D("ut_metadata", int64(3)), "metadata_size", int64(-1), "reqq", int64(-5))))
		}),
		m("ext-hs(m wrong type)", func(g *GenTorrent, _ byte) refcodec.Msg {
			return refcodec.Extended(0, refcodec.Benc(refcodec.D("m", "notadict", "metadata_size", "x")))
		}),
		m("ext-unknown-id", func(g *GenTorrent, _ byte) refcodec.Msg { return refcodec.Extended(77, []byte("d1:ai1ee")) }),
		m("meta-data(0)", func(g *GenTorrent, cid byte) refcodec.Msg {
			return refcodec.Extended(cid, refcodec.MetadataPayload(1, 0, int64(len(g.InfoBytes)), blockOf(g.InfoBytes, 0)))
		}),
		m("meta-data(0,garbage of the right size)", func(g *GenTorrent, cid byte) refcodec.Msg {
			return refcodec.Extended(cid, refcodec.MetadataPayload(1, 0, int64(len(g.InfoBytes)), bytes.Repeat([]byte{'z'}, len(blockOf(g.InfoBytes, 0)))))
		}),
		m("meta-data(index = number of blocks)", func(g *GenTorrent, cid byte) refcodec.Msg {
			nb := uint32((len(g.InfoBytes) + 16383) / 16384)
			return refcodec.Extended(cid, refcodec.MetadataPayload(1, nb, int64(len(g.InfoBytes)), []byte("x")))
		}),
		m("meta-data(2^18)", func(g *GenTorrent, cid byte) refcodec.Msg {
			return refcodec.Extended(cid, refcodec.MetadataPayload(1, 1<<18, 5, []byte("hello")))
		}),
		m("meta-reject(max)", func(g *GenTorrent, cid byte) refcodec.Msg {
			return refcodec.Extended(cid, refcodec.MetadataPayload(2, 0xffffffff, -1, nil))
		}),
		m("meta-request(0)", func(g *GenTorrent, cid byte) refcodec.Msg { return refcodec.Extended(cid, refcodec.MetadataPayload(0, 0, -1, nil)) }),
		m("meta-request(max)", func(g *GenTorrent, cid byte) refcodec.Msg {
			return refcodec.Extended(cid, refcodec.MetadataPayload(0, 0xffffffff, -1, nil))
		}),
		m("pex(len7)", func(g *GenTorrent, cid byte) refcodec.Msg {
			return refcodec.Extended(cid+1, refcodec.PEXPayload([]byte{10, 0, 0, 9, 0x1a, 0xe1, 7}, []byte{1, 2, 3, 4, 5}))
		}),
		m("pex(ok)", func(g *GenTorrent, cid byte) refcodec.Msg {
			return refcodec.Extended(cid+1, refcodec.PEXPayload(refcodec.CompactPeer(10, 0, 0, 9, 6881), nil))
		}),
	}...)
}

func mkC08() *Scenario {
	sc := &Scenario{Name: "c08", Horizon: 600}
	var arg c08Arg
	var A *Peer
	var H *metaPeer
	var g *GenTorrent
	ops := 0
	attackDone := false
	alpha := c08Alphabet()
	sc.Setup = func(w *World) {
		json.Unmarshal(w.Arg, &arg)
		g = Gen(LayoutMulti(32768, 40000, 30000))
		w.G = g
		w.Cfg.MaxMetadataSize = 64 << 10
		magnet := arg.State == "nometa" || arg.State == "allocating" || arg.State == "verifying"
		w.OpenSession()
		if magnet {
			link := "magnet:?xt=urn:btih:" + hex.EncodeToString(g.InfoHash[:])
			t, err := w.S.AddURI(link, &torrent.AddTorrentOptions{Stopped: true})
			if err != nil {
				core.HarnessError("AddURI: %v", err)
			}
			w.Tor = t
			w.Tors = append(w.Tors, t)
			w.Quiesce()
		} else {
			w.AddTorrent(g, nil)
		}
		H = &metaPeer{Peer: w.NewPeer("H", "10.0.0.2", 5002)}
		H.Ext = true
		A = w.NewPeer("A", "10.0.0.66", 6666)
		A.Ext, A.Fast = true, true
		beh := &PeerBehaviour{Honest: false}
		w.Vars["std"] = &StdOpts{Behaviour: map[string]*PeerBehaviour{"H": beh}}
		if arg.State == "verifying" {
			// some data already on disk: the allocator finds existing files and the verifier runs
			id := w.Tor.ID()
			w.Store.GetStorage(id)
			w.Store.Mutate(id, func(files map[string]*MemFile) {
				files[g.StoragePath(0)] = &MemFile{Name: g.StoragePath(0), Data: append([]byte{}, g.FileData[0]...)}
			})
		}
		w.CmdStart()
		w.drain(100)
		connect := func(p *Peer) {
			if err := p.ConnectIn(w.Tor.VerifState().Port, g.InfoHash); err != nil {
				core.HarnessError("c08 setup connect %s: %v (state %+v)", p.Name, err, w.Tor.VerifState())
			}
			w.drain(60)
		}
		switch arg.State {
		case "nometa":
			connect(H.Peer)
			connect(A)
		case "allocating":
			w.Store.GateOpens = true
			w.stdOpts().HoldStorage = true
			connect(H.Peer)
			connect(A)
			c08ServeMeta(w, H, g)
			if s := w.Tor.VerifState(); s.Status != "Allocating" {
				core.HarnessError("c08 setup: want Allocating, got %+v", s)
			}
		case "verifying":
			connect(H.Peer)
			connect(A)
			c08ServeMeta(w, H, g)
			// deliver allocation events but no verifier events
			for i := 0; i < 50; i++ {
				s := w.Tor.VerifState()
				if s.Status == "Verifying" {
					break
				}
				acts := StdActions(w)
				if len(acts) == 0 {
					break
				}
				acts[0].Do(w)
				w.Quiesce()
			}
			if s := w.Tor.VerifState(); s.Status != "Verifying" {
				core.HarnessError("c08 setup: want Verifying, got %+v", s)
			}
		case "downloading":
			connect(H.Peer)
			connect(A)
			beh.Honest = true
			// H announces; drain until its first requests are outstanding, then freeze H
			w.drainUntil(100, func() bool { return len(H.Requests) > 0 })
			beh.Honest = false
			if len(H.Requests) == 0 || w.Tor.VerifState().Status != "Downloading" {
				core.HarnessError("c08 setup: want Downloading with outstanding requests")
			}
		case "seeding":
			connect(H.Peer)
			beh.Honest = true
			w.drain(400)
			if s := w.Tor.VerifState(); s.Status != "Seeding" {
				core.HarnessError("c08 setup: want Seeding, got %+v", s)
			}
			connect(A)
		}
		if !A.GotHS {
			core.HarnessError("c08 setup: attacker has no handshake in state %s", arg.State)
		}
	}
	sc.Actions = func(w *World) []Action {
		acts := StdActions(w)
		if !attackDone {
			// attack phase: peer-related loop events first (so that the torrent stays in the target state)
			pick := -1
			for i, a := range acts {
				switch a.Label {
				case "deliver:messages", "deliver:pieceMessagesC.ReceiveC()", "deliver:pieceMessagesC", "deliver:peerDisconnectedC", "deliver:incomingHandshakerResultC", "deliver:addPeersCommandC", "deliver:outgoingHandshakerResultC":
					if pick < 0 {
						pick = i
					}
				}
			}
			if pick >= 0 {
				return []Action{acts[pick]}
			}
			if ops < arg.Depth && A.Connected() {
				cid := clientMetadataID(A)
				var out []Action
				for _, m := range alpha {
					m := m
					out = append(out, Action{Label: "atk:" + m.Name, Cost: -1, Do: func(w *World) { ops++; A.SendRaw(m.Raw(g, cid)) }})
				}
				return out
			}
			attackDone = true
			// release the world: gates open, honest peer resumes
			w.Store.GateOpens = false
			w.stdOpts().HoldStorage = false
			for range w.Store.PendingOps() {
				w.Store.Release(0, nil)
			}
			w.stdOpts().Behaviour["H"].Honest = true
			w.Quiesce()
			acts = StdActions(w)
		}
		if len(acts) > 0 {
			return acts[:1]
		}
		// honest continuation: H serves metadata when asked
		if H.Connected() {
			H.scan()
			if !H.extSent && H.GotHS && !w.Tor.VerifState().HasInfo {
				return []Action{{Label: "H:ext-handshake", Do: func(w *World) { H.sendExtHandshake(int64(len(g.InfoBytes))) }}}
			}
			if len(H.metaReqs) > 0 {
				p := H.metaReqs[0]
				return []Action{{Label: fmt.Sprintf("H:meta(%d)", p), Do: func(w *World) {
					H.metaReqs = H.metaReqs[1:]
					H.sendData(p, int64(len(g.InfoBytes)), blockOf(g.InfoBytes, p))
				}}}
			}
		}
		// a stalling attacker may hold the only metadata slot until its request times out
		if st := w.Tor.VerifState(); st.Status != "Seeding" && st.LastError == "" {
			if n, _ := w.Vars["waited"].(int); n < 4 {
				return []Action{{Label: "advance:25s", Do: func(w *World) { w.Vars["waited"] = n + 1; w.Advance(25 * time.Second) }}}
			}
		}
		return nil
	}
	sc.Check = func(w *World) {
		if w.Tor.VerifState().HasInfo {
			integrityCheck(w, "C08")
		}
	}
	sc.Final = func(w *World) {
		s := w.Tor.VerifState()
		if s.Status != "Seeding" {
			w.Failf("C08.honest-exchange-disturbed."+arg.State+"."+s.Status, "after the attacker's messages the exchange with the honest peer did not complete: status %s, bitfield %x, error %q, H connected=%v outstanding=%d, A connected=%v", s.Status, s.Bitfield, s.LastError, H.Connected(), len(H.Requests), A.Connected())
			return
		}
		if ok, why := w.FilesEqualTruth(); !ok {
			w.Failf("C08.content", "Seeding after the attack but %s", why)
		}
		// the loop is responsive
		c := w.CmdStats()
		w.drain(20)
		if !c.IsDone(w) {
			w.Failf("C08.unresponsive", "Stats() did not return after the attack")
		}
	}
	sc.Outcome = func(w *World) string {
		return fmt.Sprintf("%s/A=%v", w.Tor.VerifState().Status, A.Connected())
	}
	return sc
}

// c08ServeMeta lets H hand the metadata to the client (setup helper).
func c08ServeMeta(w *World, H *metaPeer, g *GenTorrent) {
	has := func() bool { return w.Tor.VerifState().HasInfo }
	H.sendExtHandshake(int64(len(g.InfoBytes)))
	for i := 0; i < 60 && !has(); i++ {
		w.drainUntil(30, has)
		H.scan()
		if len(H.metaReqs) == 0 {
			break
		}
		p := H.metaReqs[0]
		H.metaReqs = H.metaReqs[1:]
		H.sendData(p, int64(len(g.InfoBytes)), blockOf(g.InfoBytes, p))
	}
	w.drainUntil(30, has)
	if !has() {
		core.HarnessError("c08 setup: metadata not adopted from H")
	}
}

func TestC08Lab(t *testing.T) {
	ServeIfWorker(t)
	rep := core.NewReport("C08", "lab-peer-input", "model_checking")
	depth := 2
	if core.Thorough() {
		depth = 3
	}
	rep.Rule = fmt.Sprintf("torrent in state {metadata unknown (magnet), allocating (gated), verifying, downloading (requests outstanding), seeding} x every sequence of <= %d attacker messages over an alphabet of %d syntactically valid messages with hostile fields (index n / 2^32-1, wrong-length bitfields, have-all/none, allowed-fast, request/cancel/reject shapes, unsolicited pieces, extension handshakes with bad sizes/types, metadata data/reject/request, PEX of bad length, unknown ids, and bursts: a message the handler rejects followed by further messages in the same segment); afterwards the honest peer's exchange must complete", depth, len(c08Alphabet()))
	rep.Assumptions = []string{"byte-level framing attacks are covered by the reader-level part", "one attacker, one honest peer"}
	var runs []Run
	for _, st := range []string{"nometa", "allocating", "verifying", "downloading", "seeding"} {
		runs = append(runs, Run{Scenario: "c08", Arg: c08Arg{State: st, Depth: depth}, Budget: 0, MaxExec: 400000})
		runs = append(runs, Run{Scenario: "c08", Arg: c08Arg{State: st, Depth: depth}, Budget: 0, MaxExec: 400000, SelectLast: true})
	}
	Explore("TestC08Lab", rep, runs)
	rep.Finish()
}

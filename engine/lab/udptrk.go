//go:build verif

package lab

import (
	"encoding/binary"

	"github.com/cenkalti/rain/v2/zzverif/vnet"
)

// UDPTrackerSrv is a scripted BEP 15 tracker: a passive responder processed at every quiescence.
type UDPTrackerSrv struct {
	w        *World
	Addr     string // ip:port the client sends to
	URL      string
	Announce []UDPAnnounce
	Connects int
	Fail     bool   // answer announces with an error action
	Silent   bool   // never answer
	seen     map[*vnet.UDPConn]int
	connID   int64
}

type UDPAnnounce struct {
	Step       int
	ConnID     int64
	InfoHash   [20]byte
	PeerID     [20]byte
	Downloaded int64
	Left       int64
	Uploaded   int64
	Event      int32 // BEP 15: 0 none, 1 completed, 2 started, 3 stopped
	Key        uint32
	NumWant    int32
	Port       uint16
	ConnIDOK   bool
}

func (w *World) NewUDPTracker(ip string, port int) *UDPTrackerSrv {
	ts := &UDPTrackerSrv{w: w, Addr: ip + ":" + itoa(port), seen: map[*vnet.UDPConn]int{}, connID: 0x1122334455667788}
	ts.URL = "udp://" + ts.Addr + "/announce"
	w.UDPTrackers = append(w.UDPTrackers, ts)
	return ts
}

func itoa(n int) string {
	if n == 0 {
		return "0"
	}
	var b []byte
	for n > 0 {
		b = append([]byte{byte('0' + n%10)}, b...)
		n /= 10
	}
	return string(b)
}

// Process answers the datagrams the client has sent to this tracker since the last call; reports whether it replied.
func (ts *UDPTrackerSrv) Process() bool {
	replied := false
	for _, c := range vnet.W.UDP {
		for _, d := range c.TakeSentTo(ts.Addr) {
			p := d.Data
			if len(p) < 16 {
				continue
			}
			action := binary.BigEndian.Uint32(p[8:12])
			txid := p[12:16]
			switch {
			case action == 0 && binary.BigEndian.Uint64(p[0:8]) == 0x41727101980:
				ts.Connects++
				if ts.Silent {
					continue
				}
				r := make([]byte, 16)
				copy(r[4:8], txid)
				binary.BigEndian.PutUint64(r[8:16], uint64(ts.connID))
				c.Inject(r)
				replied = true
			case action == 1 && len(p) >= 98:
				var a UDPAnnounce
				a.Step = ts.w.Step
				a.ConnID = int64(binary.BigEndian.Uint64(p[0:8]))
				a.ConnIDOK = a.ConnID == ts.connID
				copy(a.InfoHash[:], p[16:36])
				copy(a.PeerID[:], p[36:56])
				a.Downloaded = int64(binary.BigEndian.Uint64(p[56:64]))
				a.Left = int64(binary.BigEndian.Uint64(p[64:72]))
				a.Uploaded = int64(binary.BigEndian.Uint64(p[72:80]))
				a.Event = int32(binary.BigEndian.Uint32(p[80:84]))
				a.Key = binary.BigEndian.Uint32(p[88:92])
				a.NumWant = int32(binary.BigEndian.Uint32(p[92:96]))
				a.Port = binary.BigEndian.Uint16(p[96:98])
				ts.Announce = append(ts.Announce, a)
				if ts.Silent {
					continue
				}
				if ts.Fail {
					r := make([]byte, 8)
					binary.BigEndian.PutUint32(r[0:4], 3)
					copy(r[4:8], txid)
					c.Inject(append(r, []byte("tracker says no")...))
				} else {
					r := make([]byte, 20)
					binary.BigEndian.PutUint32(r[0:4], 1)
					copy(r[4:8], txid)
					binary.BigEndian.PutUint32(r[8:12], 1800)
					c.Inject(r)
				}
				replied = true
			}
		}
	}
	return replied
}

//go:build verif

package lab

import (
	"strings"
	"testing"

	"github.com/cenkalti/rain/v2/zzverif/core"
)

// C06 (start part) — "adding and starting such a torrent never crashes or hangs the client". The metainfo
// check decides parsing and construction; here the unusual-but-accepted layouts (padding files at every
// position incl. whole-piece padding, empty files, odd sizes, tiny pieces) are added to a real session,
// started on the real event loop and fed by an honest seed, web seed or both. Only crashes and hangs are
// this property's business (completion is C10's; the same scenario is used).

func TestC06Lab(t *testing.T) {
	ServeIfWorker(t)
	rep := core.NewReport("C06", "lab-start", "model_checking")
	rep.Rule = "every layout of the 16 KiB-scaled lattice (single/multi file, empty files, leading/trailing/inner/whole-piece padding, piece length 16/32/48 KiB) accepted by the parser is added, started (fresh, no data on disk) and downloaded from {peer, web seed} on the real event loop under the eager schedule; any handler panic, process death or handler that never returns is reported"
	rep.Assumptions = []string{"hostile byte-level inputs are the metainfo part (subprocess-isolated); here only inputs the parser accepts are started"}
	ExploreKeep = func(key string) bool { return strings.HasPrefix(key, "crash.") || strings.HasPrefix(key, "hang.") }
	var runs []Run
	for _, l := range c10Layouts(true) {
		for _, src := range []string{"peer", "web"} {
			a := l
			a.Source = src
			runs = append(runs, Run{Scenario: "c10", Arg: a, Budget: 0})
		}
	}
	rep.Extra["layouts_started"] = int64(len(runs))
	Explore("TestC06Lab", rep, runs)
	rep.Finish()
}

package refcodec

import (
	"encoding/binary"
	"fmt"
)

// Reference BitTorrent peer-wire codec written from BEP 3 / 6 / 10 (no import of rain's peerprotocol).

const (
	MsgChoke         = 0
	MsgUnchoke       = 1
	MsgInterested    = 2
	MsgNotInterested = 3
	MsgHave          = 4
	MsgBitfield      = 5
	MsgRequest       = 6
	MsgPiece         = 7
	MsgCancel        = 8
	MsgPort          = 9
	MsgSuggest       = 13
	MsgHaveAll       = 14
	MsgHaveNone      = 15
	MsgReject        = 16
	MsgAllowedFast   = 17
	MsgExtended      = 20
	MsgKeepAlive     = -1
)

// Msg is one decoded peer-wire frame. Body is everything after the id byte.
type Msg struct {
	ID   int
	Body []byte
}

func (m Msg) u32(i int) uint32 {
	if len(m.Body) < 4*(i+1) {
		return 0
	}
	return binary.BigEndian.Uint32(m.Body[4*i:])
}

func (m Msg) Index() uint32  { return m.u32(0) }
func (m Msg) Begin() uint32  { return m.u32(1) }
func (m Msg) Length() uint32 { return m.u32(2) }

// Block returns the payload of a piece message.
func (m Msg) Block() []byte {
	if m.ID != MsgPiece || len(m.Body) < 8 {
		return nil
	}
	return m.Body[8:]
}

// ExtID / ExtPayload for extended messages.
func (m Msg) ExtID() int {
	if m.ID != MsgExtended || len(m.Body) < 1 {
		return -1
	}
	return int(m.Body[0])
}
func (m Msg) ExtPayload() []byte {
	if m.ID != MsgExtended || len(m.Body) < 1 {
		return nil
	}
	return m.Body[1:]
}

func (m Msg) String() string {
	switch m.ID {
	case MsgKeepAlive:
		return "keepalive"
	case MsgChoke:
		return "choke"
	case MsgUnchoke:
		return "unchoke"
	case MsgInterested:
		return "interested"
	case MsgNotInterested:
		return "notinterested"
	case MsgHave:
		return fmt.Sprintf("have(%d)", m.Index())
	case MsgBitfield:
		return fmt.Sprintf("bitfield(%x)", m.Body)
	case MsgRequest:
		return fmt.Sprintf("request(%d,%d,%d)", m.Index(), m.Begin(), m.Length())
	case MsgPiece:
		return fmt.Sprintf("piece(%d,%d,len=%d)", m.Index(), m.Begin(), len(m.Block()))
	case MsgCancel:
		return fmt.Sprintf("cancel(%d,%d,%d)", m.Index(), m.Begin(), m.Length())
	case MsgPort:
		return "port"
	case MsgHaveAll:
		return "haveall"
	case MsgHaveNone:
		return "havenone"
	case MsgReject:
		return fmt.Sprintf("reject(%d,%d,%d)", m.Index(), m.Begin(), m.Length())
	case MsgAllowedFast:
		return fmt.Sprintf("allowedfast(%d)", m.Index())
	case MsgSuggest:
		return fmt.Sprintf("suggest(%d)", m.Index())
	case MsgExtended:
		return fmt.Sprintf("ext(%d,len=%d)", m.ExtID(), len(m.ExtPayload()))
	}
	return fmt.Sprintf("msg(%d,len=%d)", m.ID, len(m.Body))
}

// Encode frames the message: 4-byte big-endian length, id, body.
func (m Msg) Encode() []byte {
	if m.ID == MsgKeepAlive {
		return []byte{0, 0, 0, 0}
	}
	out := make([]byte, 5+len(m.Body))
	binary.BigEndian.PutUint32(out, uint32(1+len(m.Body)))
	out[4] = byte(m.ID)
	copy(out[5:], m.Body)
	return out
}

func be32(vs ...uint32) []byte {
	b := make([]byte, 4*len(vs))
	for i, v := range vs {
		binary.BigEndian.PutUint32(b[4*i:], v)
	}
	return b
}

func Simple(id int) Msg             { return Msg{ID: id} }
func Have(i uint32) Msg             { return Msg{MsgHave, be32(i)} }
func Bitfield(b []byte) Msg         { return Msg{MsgBitfield, b} }
func Request(i, b, l uint32) Msg    { return Msg{MsgRequest, be32(i, b, l)} }
func Cancel(i, b, l uint32) Msg     { return Msg{MsgCancel, be32(i, b, l)} }
func Reject(i, b, l uint32) Msg     { return Msg{MsgReject, be32(i, b, l)} }
func AllowedFast(i uint32) Msg      { return Msg{MsgAllowedFast, be32(i)} }
func Suggest(i uint32) Msg          { return Msg{MsgSuggest, be32(i)} }
func Port(p uint16) Msg             { return Msg{MsgPort, []byte{byte(p >> 8), byte(p)}} }
func Piece(i, b uint32, d []byte) Msg { return Msg{MsgPiece, append(be32(i, b), d...)} }
func Extended(id byte, payload []byte) Msg {
	return Msg{MsgExtended, append([]byte{id}, payload...)}
}

// ParseStream splits buf into complete frames; rest is the incomplete tail.
func ParseStream(buf []byte) (msgs []Msg, rest []byte) {
	for {
		if len(buf) < 4 {
			return msgs, buf
		}
		l := binary.BigEndian.Uint32(buf)
		if l == 0 {
			msgs = append(msgs, Msg{ID: MsgKeepAlive})
			buf = buf[4:]
			continue
		}
		if uint64(len(buf)) < 4+uint64(l) {
			return msgs, buf
		}
		body := append([]byte{}, buf[5:4+l]...)
		msgs = append(msgs, Msg{ID: int(buf[4]), Body: body})
		buf = buf[4+l:]
	}
}

// Handshake builds the 68-byte BitTorrent handshake.
func Handshake(infoHash, peerID [20]byte, reserved [8]byte) []byte {
	b := make([]byte, 0, 68)
	b = append(b, 19)
	b = append(b, "BitTorrent protocol"...)
	b = append(b, reserved[:]...)
	b = append(b, infoHash[:]...)
	b = append(b, peerID[:]...)
	return b
}

type HandshakeMsg struct {
	Reserved [8]byte
	InfoHash [20]byte
	PeerID   [20]byte
}

// ParseHandshake parses a 68-byte handshake; ok=false if malformed or short.
func ParseHandshake(b []byte) (h HandshakeMsg, ok bool) {
	if len(b) < 68 || b[0] != 19 || string(b[1:20]) != "BitTorrent protocol" {
		return h, false
	}
	copy(h.Reserved[:], b[20:28])
	copy(h.InfoHash[:], b[28:48])
	copy(h.PeerID[:], b[48:68])
	return h, true
}

// Reserved bits (BEP 4 registry): byte 5 bit 0x10 = extension protocol, byte 7 bit 0x04 = fast, byte 7 bit 0x01 = DHT.
func ReservedBits(ext, fast, dht bool) (r [8]byte) {
	if ext {
		r[5] |= 0x10
	}
	if fast {
		r[7] |= 0x04
	}
	if dht {
		r[7] |= 0x01
	}
	return
}

//go:build verif

package refcodec

import (
	"fmt"
	"strings"
)

// Reference decoder for the HTTP tracker announce request of BEP 3 (+ BEP 23 `compact`, BEP 7 ...):
// a GET whose query string is a list of key=value pairs separated by '&', every value being a string
// of RAW BYTES written with %XX escapes (info_hash and peer_id are 20 arbitrary bytes, not text).
// Written from the BEPs and RFC 3986; it does not use net/url and does not import rain.
//
// The decoder is strict: a byte that may not appear literally in the query of an HTTP request target
// (controls, space, DEL, >= 0x80, '#') is an error, and so is a '%' not followed by two hex digits.

// HTTPAnnounce is a decoded announce request target.
type HTTPAnnounce struct {
	Path   string              // request target up to the first '?'
	Keys   []string            // keys in order of appearance (decoded)
	Values map[string][][]byte // every decoded value of every key, in order of appearance
}

// ParseHTTPRequestLine splits "GET /path?query HTTP/1.1" (no CRLF) into its three parts. Exactly one
// space between the parts, as RFC 9112 requires of senders.
func ParseHTTPRequestLine(line string) (method, target, proto string, err error) {
	parts := strings.Split(line, " ")
	if len(parts) != 3 {
		return "", "", "", fmt.Errorf("request line has %d space-separated parts, want 3: %q", len(parts), line)
	}
	if !strings.HasPrefix(parts[2], "HTTP/") {
		return "", "", "", fmt.Errorf("request line does not end in an HTTP version: %q", line)
	}
	return parts[0], parts[1], parts[2], nil
}

func unhex(c byte) (byte, bool) {
	switch {
	case c >= '0' && c <= '9':
		return c - '0', true
	case c >= 'a' && c <= 'f':
		return c - 'a' + 10, true
	case c >= 'A' && c <= 'F':
		return c - 'A' + 10, true
	}
	return 0, false
}

// PercentDecode decodes one query component into raw bytes ('+' is a space, as every tracker's
// form decoder treats it).
func PercentDecode(s string) ([]byte, error) {
	out := make([]byte, 0, len(s))
	for i := 0; i < len(s); i++ {
		c := s[i]
		switch {
		case c == '%':
			if i+2 >= len(s) {
				return nil, fmt.Errorf("truncated %%-escape at offset %d of %q", i, s)
			}
			hi, ok1 := unhex(s[i+1])
			lo, ok2 := unhex(s[i+2])
			if !ok1 || !ok2 {
				return nil, fmt.Errorf("bad %%-escape %q at offset %d", s[i:i+3], i)
			}
			out = append(out, hi<<4|lo)
			i += 2
		case c == '+':
			out = append(out, ' ')
		case c <= 0x20 || c >= 0x7f || c == '#':
			return nil, fmt.Errorf("byte 0x%02x may not appear unescaped in a query (offset %d of %q)", c, i, s)
		default:
			out = append(out, c)
		}
	}
	return out, nil
}

// DecodeHTTPAnnounceTarget decodes an origin-form request target ("/announce?info_hash=...").
func DecodeHTTPAnnounceTarget(target string) (*HTTPAnnounce, error) {
	a := &HTTPAnnounce{Values: map[string][][]byte{}}
	q := strings.IndexByte(target, '?')
	if q < 0 {
		return nil, fmt.Errorf("request target has no query: %q", target)
	}
	a.Path = target[:q]
	query := target[q+1:]
	if query == "" {
		return nil, fmt.Errorf("empty query")
	}
	for _, pair := range strings.Split(query, "&") {
		if pair == "" {
			return nil, fmt.Errorf("empty key=value pair in query %q", query)
		}
		k, v := pair, ""
		if eq := strings.IndexByte(pair, '='); eq >= 0 {
			k, v = pair[:eq], pair[eq+1:]
		}
		kb, err := PercentDecode(k)
		if err != nil {
			return nil, fmt.Errorf("key: %v", err)
		}
		vb, err := PercentDecode(v)
		if err != nil {
			return nil, fmt.Errorf("value of %q: %v", k, err)
		}
		ks := string(kb)
		if _, seen := a.Values[ks]; !seen {
			a.Keys = append(a.Keys, ks)
		}
		a.Values[ks] = append(a.Values[ks], vb)
	}
	return a, nil
}

// One returns the value of a key that must appear exactly once.
func (a *HTTPAnnounce) One(key string) ([]byte, error) {
	v := a.Values[key]
	if len(v) == 0 {
		return nil, fmt.Errorf("parameter %q is missing", key)
	}
	if len(v) > 1 {
		return nil, fmt.Errorf("parameter %q appears %d times", key, len(v))
	}
	return v[0], nil
}

// Has reports whether the key appears at all.
func (a *HTTPAnnounce) Has(key string) bool { return len(a.Values[key]) > 0 }

// Int returns the value of a key that must appear exactly once and be a base-ten integer in the
// canonical form trackers parse (optional '-', digits, no sign '+', no blanks, fits int64).
func (a *HTTPAnnounce) Int(key string) (int64, error) {
	v, err := a.One(key)
	if err != nil {
		return 0, err
	}
	s := string(v)
	neg := false
	if strings.HasPrefix(s, "-") {
		neg = true
		s = s[1:]
	}
	if s == "" {
		return 0, fmt.Errorf("parameter %q is not a number: %q", key, v)
	}
	var n uint64
	for i := 0; i < len(s); i++ {
		c := s[i]
		if c < '0' || c > '9' {
			return 0, fmt.Errorf("parameter %q is not a base-ten number: %q", key, v)
		}
		d := uint64(c - '0')
		if n > (1<<63-1-d)/10 {
			return 0, fmt.Errorf("parameter %q overflows 63 bits: %q", key, v)
		}
		n = n*10 + d
	}
	if neg {
		return -int64(n), nil
	}
	return int64(n), nil
}

// Announce events on the wire. BEP 3: started | completed | stopped | empty (= not present).
const (
	EvNone      = 0
	EvCompleted = 1
	EvStarted   = 2
	EvStopped   = 3
)

// EventName is the harness's own naming of the four events.
func EventName(e int) string {
	switch e {
	case EvNone:
		return "none"
	case EvCompleted:
		return "completed"
	case EvStarted:
		return "started"
	case EvStopped:
		return "stopped"
	}
	return fmt.Sprintf("event(%d)", e)
}

// Event decodes the optional `event` parameter.
func (a *HTTPAnnounce) Event() (int, error) {
	if !a.Has("event") {
		return EvNone, nil
	}
	v, err := a.One("event")
	if err != nil {
		return 0, err
	}
	switch string(v) {
	case "", "empty":
		return EvNone, nil
	case "started":
		return EvStarted, nil
	case "completed":
		return EvCompleted, nil
	case "stopped":
		return EvStopped, nil
	}
	return 0, fmt.Errorf("unknown event %q", v)
}

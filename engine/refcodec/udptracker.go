//go:build verif

package refcodec

import (
	"fmt"
)

// Reference codec for the UDP tracker protocol, written from BEP 15 (and BEP 41 for the option
// trailer). All integers are big-endian. It does not import rain.
//
//	connect request  (16 bytes): 0 protocol_id(8)=0x41727101980  8 action(4)=0  12 transaction_id(4)
//	connect response (16 bytes): 0 action(4)=0  4 transaction_id(4)  8 connection_id(8)
//	announce request (98 bytes): 0 connection_id(8) 8 action(4)=1 12 transaction_id(4) 16 info_hash(20)
//	                             36 peer_id(20) 56 downloaded(8) 64 left(8) 72 uploaded(8) 80 event(4)
//	                             84 ip(4) 88 key(4) 92 num_want(4) 96 port(2)  [98.. BEP 41 options]
//	announce response (20+6n):   0 action(4)=1 4 transaction_id(4) 8 interval(4) 12 leechers(4)
//	                             16 seeders(4) 20.. n x (ip(4) port(2))
//	error response (8+n):        0 action(4)=3 4 transaction_id(4) 8.. message

const UDPProtocolMagic uint64 = 0x41727101980

const (
	UDPActionConnect  = 0
	UDPActionAnnounce = 1
	UDPActionScrape   = 2
	UDPActionError    = 3
)

func utBE16(b []byte) uint16 { return uint16(b[0])<<8 | uint16(b[1]) }
func utBE32(b []byte) uint32 {
	return uint32(b[0])<<24 | uint32(b[1])<<16 | uint32(b[2])<<8 | uint32(b[3])
}
func utBE64(b []byte) uint64 { return uint64(utBE32(b))<<32 | uint64(utBE32(b[4:])) }

func utPut32(b []byte, v uint32) {
	b[0], b[1], b[2], b[3] = byte(v>>24), byte(v>>16), byte(v>>8), byte(v)
}
func utPut64(b []byte, v uint64) { utPut32(b, uint32(v>>32)); utPut32(b[4:], uint32(v)) }

// UDPOption is one BEP 41 option (type 2 = URLData).
type UDPOption struct {
	Type byte
	Data []byte
}

// UDPRequest is a decoded client-to-tracker datagram.
type UDPRequest struct {
	Action        uint32
	TransactionID uint32
	// connect: the protocol magic; announce: the connection id
	ConnectionID uint64
	// announce only
	InfoHash   [20]byte
	PeerID     [20]byte
	Downloaded int64
	Left       int64
	Uploaded   int64
	Event      uint32
	IP         uint32
	Key        uint32
	NumWant    int32
	Port       uint16
	Options    []UDPOption
}

// DecodeUDPTrackerRequest decodes a datagram a client sent to a tracker.
func DecodeUDPTrackerRequest(b []byte) (*UDPRequest, error) {
	if len(b) < 16 {
		return nil, fmt.Errorf("datagram of %d bytes is shorter than any BEP 15 request (16)", len(b))
	}
	r := &UDPRequest{ConnectionID: utBE64(b[0:]), Action: utBE32(b[8:]), TransactionID: utBE32(b[12:])}
	switch r.Action {
	case UDPActionConnect:
		if len(b) != 16 {
			return nil, fmt.Errorf("connect request of %d bytes, want 16", len(b))
		}
		if r.ConnectionID != UDPProtocolMagic {
			return nil, fmt.Errorf("connect request with protocol id %#x, want %#x", r.ConnectionID, UDPProtocolMagic)
		}
		return r, nil
	case UDPActionAnnounce:
		if len(b) < 98 {
			return nil, fmt.Errorf("announce request of %d bytes, want >= 98", len(b))
		}
		copy(r.InfoHash[:], b[16:36])
		copy(r.PeerID[:], b[36:56])
		r.Downloaded = int64(utBE64(b[56:]))
		r.Left = int64(utBE64(b[64:]))
		r.Uploaded = int64(utBE64(b[72:]))
		r.Event = utBE32(b[80:])
		r.IP = utBE32(b[84:])
		r.Key = utBE32(b[88:])
		r.NumWant = int32(utBE32(b[92:]))
		r.Port = utBE16(b[96:])
		// BEP 41 trailer
		rest := b[98:]
		for len(rest) > 0 {
			t := rest[0]
			switch t {
			case 0: // EndOfOptions
				rest = nil
			case 1: // NOP
				rest = rest[1:]
			default:
				if len(rest) < 2 || len(rest) < 2+int(rest[1]) {
					return nil, fmt.Errorf("truncated BEP 41 option type %d", t)
				}
				n := int(rest[1])
				r.Options = append(r.Options, UDPOption{Type: t, Data: append([]byte{}, rest[2:2+n]...)})
				rest = rest[2+n:]
			}
		}
		return r, nil
	}
	return nil, fmt.Errorf("request with action %d", r.Action)
}

// URLData concatenates the BEP 41 URLData options.
func (r *UDPRequest) URLData() string {
	var s []byte
	for _, o := range r.Options {
		if o.Type == 2 {
			s = append(s, o.Data...)
		}
	}
	return string(s)
}

// UDPConnectResponse builds a connect response.
func UDPConnectResponse(txid uint32, connID uint64) []byte {
	b := make([]byte, 16)
	utPut32(b[0:], UDPActionConnect)
	utPut32(b[4:], txid)
	utPut64(b[8:], connID)
	return b
}

// UDPAnnounceResponse builds an announce response; peers is the compact 6-bytes-per-peer list.
func UDPAnnounceResponse(txid uint32, interval, leechers, seeders int32, peers []byte) []byte {
	b := make([]byte, 20, 20+len(peers))
	utPut32(b[0:], UDPActionAnnounce)
	utPut32(b[4:], txid)
	utPut32(b[8:], uint32(interval))
	utPut32(b[12:], uint32(leechers))
	utPut32(b[16:], uint32(seeders))
	return append(b, peers...)
}

// UDPErrorResponse builds an error response.
func UDPErrorResponse(txid uint32, msg []byte) []byte {
	b := make([]byte, 8, 8+len(msg))
	utPut32(b[0:], UDPActionError)
	utPut32(b[4:], txid)
	return append(b, msg...)
}

//go:build verif

package refcodec

import (
	"bytes"
	"fmt"
)

// Reference payloads of the extension protocol, written from BEP 10 (extension handshake),
// BEP 9 (ut_metadata) and BEP 11 (ut_pex). No import of rain's peerprotocol.
//
// Presence rule used by the encoders (the BEPs make every key optional, so which zero-valued keys a
// client leaves out is its own choice; everything else - key names, value types, key order, integer
// and string syntax, the raw metadata bytes after the dictionary - is prescribed):
//   ext handshake: "m", "v", "reqq" always; "metadata_size" iff > 0; "yourip" iff non-empty
//   ut_metadata:   "msg_type", "piece" always; "total_size" iff > 0
//   ut_pex:        "added", "dropped" always

// ExtHandshakePayload is the bencoded dictionary of an extension handshake (extended id 0).
func ExtHandshakePayload(m map[string]int, v string, yourip []byte, metadataSize int64, reqq int64) []byte {
	md := &Dict{}
	for k, id := range m {
		md.Set(k, int64(id))
	}
	d := D("m", md, "v", v, "reqq", reqq)
	if metadataSize > 0 {
		d.Set("metadata_size", metadataSize)
	}
	if len(yourip) > 0 {
		d.Set("yourip", yourip)
	}
	return Benc(d)
}

// ut_metadata msg_type values (BEP 9).
const (
	MetaRequest = 0
	MetaData    = 1
	MetaReject  = 2
)

// MetadataPayload is the ut_metadata payload: dictionary, then (for data messages) the raw piece.
func MetadataPayload(msgType int, piece uint32, totalSize int64, data []byte) []byte {
	d := D("msg_type", int64(msgType), "piece", int64(piece))
	if totalSize > 0 {
		d.Set("total_size", totalSize)
	}
	return append(Benc(d), data...)
}

// PEXPayload is the ut_pex payload with the two IPv4 keys.
func PEXPayload(added, dropped []byte) []byte {
	return Benc(D("added", added, "dropped", dropped))
}

// CompactPeer is the 6-byte compact form of one IPv4 peer.
func CompactPeer(a, b, c, d byte, port uint16) []byte {
	return []byte{a, b, c, d, byte(port >> 8), byte(port)}
}

// DecodeExtPayload strictly decodes the dictionary at the start of an extended-message payload and
// returns the bytes after it. It insists on the canonical form BEP 3 prescribes: keys strictly
// ascending (hence unique) at every level, and every integer/string written minimally (re-encoding
// what was decoded gives back the same bytes).
func DecodeExtPayload(p []byte) (d *Dict, trailing []byte, err error) {
	v, rest, err := Decode(p)
	if err != nil {
		return nil, nil, err
	}
	d, ok := v.(*Dict)
	if !ok {
		return nil, nil, fmt.Errorf("payload is %T, not a dictionary", v)
	}
	if err := sortedKeys(d); err != nil {
		return nil, nil, err
	}
	if enc := Benc(d); !bytes.Equal(enc, p[:len(p)-len(rest)]) {
		return nil, nil, fmt.Errorf("dictionary is not in canonical form: %q re-encodes as %q", p[:len(p)-len(rest)], enc)
	}
	return d, rest, nil
}

func sortedKeys(v any) error {
	switch x := v.(type) {
	case *Dict:
		for i := range x.Keys {
			if i > 0 && x.Keys[i-1] >= x.Keys[i] {
				return fmt.Errorf("dictionary keys not strictly ascending: %q then %q", x.Keys[i-1], x.Keys[i])
			}
			if err := sortedKeys(x.Vals[i]); err != nil {
				return err
			}
		}
	case []any:
		for _, e := range x {
			if err := sortedKeys(e); err != nil {
				return err
			}
		}
	}
	return nil
}

// Int / Str fetch typed values from a decoded dictionary.
func (d *Dict) Int(k string) (int64, bool) {
	v, ok := d.Get(k)
	if !ok {
		return 0, false
	}
	n, ok := v.(int64)
	return n, ok
}

func (d *Dict) Str(k string) ([]byte, bool) {
	v, ok := d.Get(k)
	if !ok {
		return nil, false
	}
	s, ok := v.([]byte)
	return s, ok
}

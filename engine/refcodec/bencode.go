// Package refcodec holds the harness's own (independent of rain) encoders/decoders: bencode,
// BitTorrent peer wire, BEP 15 UDP tracker, HTTP announce query. Oracles use these, never rain's codecs.
package refcodec

import (
	"bytes"
	"fmt"
	"sort"
	"strconv"
)

// Raw is spliced into the output verbatim (used to build malformed inputs).
type Raw []byte

// Dict is an ordered list of key/value pairs; Benc sorts keys unless NoSort is set.
type Dict struct {
	Keys   []string
	Vals   []any
	NoSort bool
}

func D(kv ...any) *Dict {
	d := &Dict{}
	for i := 0; i+1 < len(kv); i += 2 {
		d.Keys = append(d.Keys, kv[i].(string))
		d.Vals = append(d.Vals, kv[i+1])
	}
	return d
}

func (d *Dict) Set(k string, v any) *Dict {
	for i := range d.Keys {
		if d.Keys[i] == k {
			d.Vals[i] = v
			return d
		}
	}
	d.Keys = append(d.Keys, k)
	d.Vals = append(d.Vals, v)
	return d
}

// Benc encodes v: int/int64/uint32/..., string, []byte, []any, []string, *Dict, map[string]any, Raw.
func Benc(v any) []byte {
	var b bytes.Buffer
	benc(&b, v)
	return b.Bytes()
}

func benc(b *bytes.Buffer, v any) {
	switch x := v.(type) {
	case Raw:
		b.Write(x)
	case int:
		fmt.Fprintf(b, "i%de", x)
	case int64:
		fmt.Fprintf(b, "i%de", x)
	case uint32:
		fmt.Fprintf(b, "i%de", x)
	case uint64:
		fmt.Fprintf(b, "i%de", x)
	case bool:
		if x {
			b.WriteString("i1e")
		} else {
			b.WriteString("i0e")
		}
	case string:
		b.WriteString(strconv.Itoa(len(x)))
		b.WriteByte(':')
		b.WriteString(x)
	case []byte:
		b.WriteString(strconv.Itoa(len(x)))
		b.WriteByte(':')
		b.Write(x)
	case []string:
		b.WriteByte('l')
		for _, e := range x {
			benc(b, e)
		}
		b.WriteByte('e')
	case []any:
		b.WriteByte('l')
		for _, e := range x {
			benc(b, e)
		}
		b.WriteByte('e')
	case [][]string:
		b.WriteByte('l')
		for _, e := range x {
			benc(b, e)
		}
		b.WriteByte('e')
	case map[string]any:
		d := &Dict{}
		for k, val := range x {
			d.Keys = append(d.Keys, k)
			d.Vals = append(d.Vals, val)
		}
		benc(b, d)
	case *Dict:
		idx := make([]int, len(x.Keys))
		for i := range idx {
			idx[i] = i
		}
		if !x.NoSort {
			sort.SliceStable(idx, func(a, c int) bool { return x.Keys[idx[a]] < x.Keys[idx[c]] })
		}
		b.WriteByte('d')
		for _, i := range idx {
			benc(b, x.Keys[i])
			benc(b, x.Vals[i])
		}
		b.WriteByte('e')
	default:
		panic(fmt.Sprintf("refcodec.Benc: unsupported %T", v))
	}
}

// Decode parses one bencoded value (strict reference decoder): returns int64, []byte, []any or *Dict.
func Decode(b []byte) (v any, rest []byte, err error) {
	if len(b) == 0 {
		return nil, nil, fmt.Errorf("empty")
	}
	switch {
	case b[0] == 'i':
		e := bytes.IndexByte(b, 'e')
		if e < 0 {
			return nil, nil, fmt.Errorf("unterminated int")
		}
		n, err := strconv.ParseInt(string(b[1:e]), 10, 64)
		if err != nil {
			return nil, nil, err
		}
		return n, b[e+1:], nil
	case b[0] >= '0' && b[0] <= '9':
		c := bytes.IndexByte(b, ':')
		if c < 0 {
			return nil, nil, fmt.Errorf("no colon")
		}
		n, err := strconv.Atoi(string(b[:c]))
		if err != nil || n < 0 || c+1+n > len(b) {
			return nil, nil, fmt.Errorf("bad string length")
		}
		return append([]byte{}, b[c+1:c+1+n]...), b[c+1+n:], nil
	case b[0] == 'l':
		var l []any
		b = b[1:]
		for {
			if len(b) == 0 {
				return nil, nil, fmt.Errorf("unterminated list")
			}
			if b[0] == 'e' {
				return l, b[1:], nil
			}
			var x any
			x, b, err = Decode(b)
			if err != nil {
				return nil, nil, err
			}
			l = append(l, x)
		}
	case b[0] == 'd':
		d := &Dict{NoSort: true}
		b = b[1:]
		for {
			if len(b) == 0 {
				return nil, nil, fmt.Errorf("unterminated dict")
			}
			if b[0] == 'e' {
				return d, b[1:], nil
			}
			var k, x any
			k, b, err = Decode(b)
			if err != nil {
				return nil, nil, err
			}
			ks, ok := k.([]byte)
			if !ok {
				return nil, nil, fmt.Errorf("non-string key")
			}
			x, b, err = Decode(b)
			if err != nil {
				return nil, nil, err
			}
			d.Keys = append(d.Keys, string(ks))
			d.Vals = append(d.Vals, x)
		}
	}
	return nil, nil, fmt.Errorf("bad token %q", b[0])
}

func (d *Dict) Get(k string) (any, bool) {
	for i := range d.Keys {
		if d.Keys[i] == k {
			return d.Vals[i], true
		}
	}
	return nil, false
}

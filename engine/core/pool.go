package core

import (
	"bufio"
	"bytes"
	"encoding/json"
	"fmt"
	"os"
	"os/exec"
	"sync"
	"time"
)

// Pool is a set of persistent worker subprocesses of this same test binary. Jobs and results are JSON
// lines over dedicated pipes (fd 3 = jobs in, fd 4 = results out). One job = one execution, so a
// worker that dies (panic in the code under test, fatal error, OOM) is charged to exactly that
// execution and is respawned; nothing else is lost.
type Pool struct {
	testName string
	env      []string
	perJob   time.Duration
	jobs     chan poolJob
	wg       sync.WaitGroup
	Spawns   int64
	mu       sync.Mutex
}

type poolJob struct {
	data []byte
	done func(res []byte, crash string, hang bool)
}

// PoolResultFD etc. are the worker-side descriptors.
const (
	workerInFD  = 3
	workerOutFD = 4
)

func IsPoolWorker() bool { return os.Getenv("VERIF_POOL_WORKER") == "1" }

// ServeWorker is the worker main loop: fn handles one job and returns its result. fn may call
// WorkerDie(result) to deliver a (partial) result and terminate the process (poisoned state).
func ServeWorker(fn func(job json.RawMessage) any) {
	in := os.NewFile(workerInFD, "jobs")
	out := os.NewFile(workerOutFD, "results")
	workerResultW = bufio.NewWriter(out)
	sc := bufio.NewScanner(in)
	sc.Buffer(make([]byte, 1<<22), 1<<28)
	for sc.Scan() {
		res := fn(json.RawMessage(append([]byte{}, sc.Bytes()...)))
		b, err := json.Marshal(res)
		if err != nil {
			HarnessError("worker: marshal result: %v", err)
		}
		workerResultW.Write(b)
		workerResultW.WriteByte('\n')
		workerResultW.Flush()
	}
	os.Exit(0)
}

var workerResultW *bufio.Writer

// WorkerDie writes res as the result of the current job and exits the worker process.
func WorkerDie(res any) {
	b, _ := json.Marshal(res)
	workerResultW.WriteByte('!') // marker: this worker exits after this result
	workerResultW.Write(b)
	workerResultW.WriteByte('\n')
	workerResultW.Flush()
	os.Exit(3)
}

func NewPool(testName string, n int, perJob time.Duration, env ...string) *Pool {
	p := &Pool{testName: testName, env: env, perJob: perJob, jobs: make(chan poolJob, 4*n)}
	for i := 0; i < n; i++ {
		p.wg.Add(1)
		go p.slot()
	}
	return p
}

type workerProc struct {
	cmd    *exec.Cmd
	in     *os.File
	out    *bufio.Reader
	outF   *os.File
	stderr *bytes.Buffer
	lines  chan []byte
}

func (p *Pool) spawn() *workerProc {
	jr, jw, _ := os.Pipe()
	rr, rw, _ := os.Pipe()
	cmd := exec.Command(os.Args[0], "-test.run", "^"+p.testName+"$", "-test.timeout", "0")
	cmd.Env = append(os.Environ(), "VERIF_POOL_WORKER=1", "GOMAXPROCS=1", "GODEBUG=asyncpreemptoff=1", "GOTRACEBACK=all")
	cmd.Env = append(cmd.Env, p.env...)
	cmd.ExtraFiles = []*os.File{jr, rw}
	var stderr bytes.Buffer
	cmd.Stderr = &limitedWriter{buf: &stderr, max: 1 << 20}
	cmd.Stdout = cmd.Stderr
	if err := cmd.Start(); err != nil {
		HarnessError("spawn worker: %v", err)
	}
	jr.Close()
	rw.Close()
	p.mu.Lock()
	p.Spawns++
	p.mu.Unlock()
	w := &workerProc{cmd: cmd, in: jw, outF: rr, out: bufio.NewReaderSize(rr, 1<<20), stderr: &stderr, lines: make(chan []byte, 1)}
	go func() {
		for {
			line, err := w.out.ReadBytes('\n')
			if len(line) > 0 && line[len(line)-1] == '\n' {
				w.lines <- line
			}
			if err != nil {
				close(w.lines)
				return
			}
		}
	}()
	return w
}

type limitedWriter struct {
	mu  sync.Mutex
	buf *bytes.Buffer
	max int
}

func (l *limitedWriter) Write(b []byte) (int, error) {
	l.mu.Lock()
	defer l.mu.Unlock()
	l.buf.Write(b)
	if l.buf.Len() > l.max {
		x := l.buf.Bytes()
		keep := append([]byte{}, x[len(x)-l.max/2:]...)
		l.buf.Reset()
		l.buf.Write(keep)
	}
	return len(b), nil
}

func (w *workerProc) kill() {
	w.in.Close()
	w.cmd.Process.Kill()
	w.cmd.Wait()
	w.outF.Close()
}

func (p *Pool) slot() {
	defer p.wg.Done()
	var w *workerProc
	for j := range p.jobs {
		if w == nil {
			w = p.spawn()
		}
		if _, err := w.in.Write(append(j.data, '\n')); err != nil {
			// worker died between jobs: respawn once
			w.kill()
			w = p.spawn()
			if _, err := w.in.Write(append(j.data, '\n')); err != nil {
				HarnessError("cannot feed worker: %v", err)
			}
		}
		select {
		case line, ok := <-w.lines:
			if ok {
				if len(line) > 0 && line[0] == '!' {
					w.kill()
					w = nil
					j.done(line[1:], "", false)
				} else {
					j.done(line, "", false)
				}
			} else {
				w.cmd.Wait()
				crash := tail(w.stderr.String(), 8000)
				w.kill()
				w = nil
				j.done(nil, "worker died: "+crash, false)
			}
		case <-time.After(p.perJob):
			w.kill()
			w = nil
			j.done(nil, "", true)
		}
	}
	if w != nil {
		w.in.Close()
		w.cmd.Wait()
		w.outF.Close()
	}
}

// Submit queues one job; done is called from a pool goroutine.
func (p *Pool) Submit(job any, done func(res []byte, crash string, hang bool)) {
	b, err := json.Marshal(job)
	if err != nil {
		HarnessError("marshal job: %v", err)
	}
	p.jobs <- poolJob{data: b, done: done}
}

func (p *Pool) Close() {
	close(p.jobs)
	p.wg.Wait()
}

// ---------------------------------------------------------------------------------------------
// Parallel deviation-bounded exploration on top of the pool.

// ExecJob asks a worker for one execution: replay Prefix, then default policy.
type ExecJob struct {
	Scenario string          `json:"s"`
	Arg      json.RawMessage `json:"a,omitempty"`
	Prefix   []int           `json:"p"`
	// Expect are the parent's digests for the replayed prefix (determinism assertion in the worker).
	Expect []uint64 `json:"e,omitempty"`
}

// ExecResult is what a worker reports about one execution.
type ExecResult struct {
	Trace      Trace       `json:"t"`
	Violations []Violation `json:"v,omitempty"`
	Diverged   string      `json:"d,omitempty"` // determinism assertion failed
	Partial    bool        `json:"partial,omitempty"`
	Counters   map[string]int64 `json:"c,omitempty"`
	Outcome    string      `json:"o,omitempty"` // outcome class of the execution (non-vacuity statistics)
}

type ParallelExplorer struct {
	Pool     *Pool
	Scenario string
	Arg      json.RawMessage
	Budget   int
	MaxExec  int64
	// Visit is called (serialised) for every execution result.
	Visit func(job ExecJob, res *ExecResult, crash string, hang bool)
	// Prune, if set, decides whether to expand alternative alt at step i of a finished execution.
	Prune func(res *ExecResult, i, alt int) bool
	// AfterViolation, if set and true, makes a diverging replay abandon that subtree instead of aborting the
	// run: a defect already reported may itself introduce nondeterminism (duplicated goroutines, a buffer with
	// two owners). Without a reported violation a divergence stays a harness error (exit 2).
	AfterViolation func() bool
	Diverged       int64

	Stats   Stats
	Capped  bool
	States  map[uint64]struct{}
	mu      sync.Mutex
	cond    *sync.Cond
	stack   []stackItem
	outstanding int
}

// Run explores from the empty prefix.
func (e *ParallelExplorer) Run() {
	if e.States == nil {
		e.States = map[uint64]struct{}{}
	}
	e.cond = sync.NewCond(&e.mu)
	e.push(stackItem{ExecJob{Scenario: e.Scenario, Arg: e.Arg, Prefix: []int{}}, e.Budget})
	// dispatcher: LIFO stack -> pool (depth-first keeps the stack small)
	for {
		e.mu.Lock()
		for len(e.stack) == 0 && e.outstanding > 0 {
			e.cond.Wait()
		}
		if len(e.stack) == 0 && e.outstanding == 0 {
			e.mu.Unlock()
			return
		}
		it := e.stack[len(e.stack)-1]
		e.stack = e.stack[:len(e.stack)-1]
		e.outstanding++
		e.mu.Unlock()
		e.Pool.Submit(it.job, func(raw []byte, crash string, hang bool) { e.result(it, raw, crash, hang) })
	}
}

type stackItem struct {
	job    ExecJob
	budget int
}

func (e *ParallelExplorer) push(it stackItem) {
	e.mu.Lock()
	e.stack = append(e.stack, it)
	e.cond.Broadcast()
	e.mu.Unlock()
}

func (e *ParallelExplorer) result(it stackItem, raw []byte, crash string, hang bool) {
	job, budget := it.job, it.budget
	var res ExecResult
	if raw != nil {
		if err := json.Unmarshal(raw, &res); err != nil {
			HarnessError("bad worker result: %v: %s", err, tail(string(raw), 300))
		}
	}
	e.mu.Lock()
	defer func() {
		e.outstanding--
		e.cond.Broadcast()
		e.mu.Unlock()
	}()
	if res.Diverged != "" {
		if e.AfterViolation != nil && e.AfterViolation() {
			e.Diverged++
			return
		}
		HarnessError("nondeterministic replay of scenario %s arg %s prefix %v: %s", job.Scenario, job.Arg, job.Prefix, res.Diverged)
	}
	e.Stats.Executions++
	e.Stats.Transitions += int64(len(res.Trace.Choices))
	if len(res.Trace.Choices) > e.Stats.MaxDepth {
		e.Stats.MaxDepth = len(res.Trace.Choices)
	}
	for _, d := range res.Trace.Digests {
		e.States[d] = struct{}{}
	}
	if e.Visit != nil {
		e.Visit(job, &res, crash, hang)
	}
	if raw == nil {
		return
	}
	x := &res.Trace
	// push in reverse so that the earliest deviation is explored first (LIFO)
	var kids []stackItem
	for i := len(job.Prefix); i < len(x.Points); i++ {
		p := x.Points[i]
		for alt := 1; alt < p.N; alt++ {
			c := p.cost(alt)
			if c < 0 {
				c = 0 // free choice (alphabet member), not a deviation
			}
			if c > budget {
				continue
			}
			if e.Prune != nil && e.Prune(&res, i, alt) {
				e.Stats.Pruned++
				continue
			}
			if e.MaxExec > 0 && e.Stats.Executions+int64(len(e.stack))+int64(len(kids)) >= e.MaxExec {
				e.Capped = true
				break
			}
			np := append(append([]int{}, x.Choices[:i]...), alt)
			var exp []uint64
			if i <= len(x.Digests) {
				exp = append([]uint64{}, x.Digests[:i]...)
			}
			kids = append(kids, stackItem{ExecJob{Scenario: job.Scenario, Arg: job.Arg, Prefix: np, Expect: exp}, budget - c})
		}
	}
	for k := len(kids) - 1; k >= 0; k-- {
		e.stack = append(e.stack, kids[k])
	}
}

func (e *ParallelExplorer) Summary() string {
	return fmt.Sprintf("%s states=%d", e.Stats, len(e.States))
}

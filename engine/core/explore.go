package core

import (
	"fmt"
)

// Point is one decision point of an execution: N alternatives, alternative 0 is the default policy's
// choice. Cost[a] is the number of deviations alternative a spends (Cost[0] == 0).
type Point struct {
	N      int      `json:"n"`
	Cost   []int    `json:"cost,omitempty"`
	Labels []string `json:"labels,omitempty"`
}

func (p Point) cost(a int) int {
	if a == 0 {
		return 0
	}
	if a < len(p.Cost) {
		return p.Cost[a]
	}
	return 1
}

// Trace is one complete execution: the choice taken at every decision point, what was enabled there,
// and a digest of the observable state after every step (used to assert deterministic replay).
type Trace struct {
	Choices []int    `json:"choices"`
	Points  []Point  `json:"points"`
	Digests []uint64 `json:"digests"`
}

// RunFn replays prefix (an out-of-range choice must fail loudly) and then takes alternative 0 at every
// later point until the horizon. It also evaluates the oracles (side effect on the caller's report).
type RunFn func(prefix []int) *Trace

// Stats are the explorer's own coverage counters.
type Stats struct {
	Executions  int64
	Transitions int64
	MaxDepth    int
	Pruned      int64
}

// Explorer does stateless depth-first search over deviations from the default schedule
// (iterative context bounding generalised to "any departure from the default policy").
type Explorer struct {
	Run   RunFn
	Stats Stats
	// Skip, if set, prunes alternative alt at step i of trace x (e.g. state-key dedup).
	Skip func(x *Trace, i, alt int) bool
	// MaxExec caps the number of executions (0 = unlimited). Hitting it is reported by Capped.
	MaxExec int64
	Capped  bool
}

// Explore runs prefix and every execution that deviates from it at later points within budget.
func (e *Explorer) Explore(prefix []int, budget int) {
	x := e.Run(prefix)
	e.note(x)
	e.children(x, len(prefix), budget)
}

func (e *Explorer) note(x *Trace) {
	e.Stats.Executions++
	e.Stats.Transitions += int64(len(x.Choices))
	if len(x.Choices) > e.Stats.MaxDepth {
		e.Stats.MaxDepth = len(x.Choices)
	}
}

func (e *Explorer) children(x *Trace, from, budget int) {
	if budget <= 0 {
		return
	}
	for i := from; i < len(x.Points); i++ {
		p := x.Points[i]
		for alt := 1; alt < p.N; alt++ {
			c := p.cost(alt)
			if c > budget {
				continue
			}
			if e.Skip != nil && e.Skip(x, i, alt) {
				e.Stats.Pruned++
				continue
			}
			if e.MaxExec > 0 && e.Stats.Executions >= e.MaxExec {
				e.Capped = true
				return
			}
			np := append(append([]int{}, x.Choices[:i]...), alt)
			y := e.Run(np)
			CheckReplay(x, y, i)
			e.note(y)
			e.children(y, len(np), budget-c)
		}
	}
}

// CheckReplay asserts that y, which replays the first n choices of x, observed the same digests.
// A divergence means the harness does not own some source of nondeterminism: hard error, exit 2.
func CheckReplay(x, y *Trace, n int) {
	for k := 0; k < n && k < len(y.Digests) && k < len(x.Digests); k++ {
		if x.Digests[k] != y.Digests[k] {
			HarnessError("nondeterministic replay: step %d of prefix %v diverged (digest %x vs %x)", k, x.Choices[:n], x.Digests[k], y.Digests[k])
		}
	}
	if len(y.Choices) < n {
		HarnessError("replay of prefix %v ended early at step %d", x.Choices[:n], len(y.Choices))
	}
}

// Frontier lists the level-1 deviations of x (for sharding): each is a prefix plus the remaining budget.
type SubtreeJob struct {
	Prefix []int `json:"prefix"`
	Budget int   `json:"budget"`
}

func Frontier(x *Trace, from, budget int) []SubtreeJob {
	var out []SubtreeJob
	if budget <= 0 {
		return out
	}
	for i := from; i < len(x.Points); i++ {
		p := x.Points[i]
		for alt := 1; alt < p.N; alt++ {
			c := p.cost(alt)
			if c > budget {
				continue
			}
			out = append(out, SubtreeJob{Prefix: append(append([]int{}, x.Choices[:i]...), alt), Budget: budget - c})
		}
	}
	return out
}

func (s Stats) String() string {
	return fmt.Sprintf("executions=%d transitions=%d maxdepth=%d pruned=%d", s.Executions, s.Transitions, s.MaxDepth, s.Pruned)
}
